(* BMMFacts.v -- lemmas about Model/BMM.v and Model/ArrayOps.v *)
From Coq Require Import Lia ZArith List Bool Arith PeanoNat Permutation Sorted.
From Ctg Require Import Base BMM ArrayOps BaseFacts.
Import ListNotations.

Lemma nprod_cons x l : nprod (x :: l) = x * nprod l.
Proof. reflexivity. Qed.
Lemma nprod_app l1 l2 : nprod (l1 ++ l2) = nprod l1 * nprod l2.
Proof.
  induction l1 as [|x l1 IH]; [cbn [app]; change (nprod []) with 1; lia|].
  cbn [app]. rewrite !nprod_cons, IH. lia.
Qed.

(* ================================================================== *)
(* row-major index arithmetic: ravel / unravel / all_idx / tget / tbuild / reshape / transpose *)


Definition valid_idx (s idx : list nat) : Prop := Forall2 lt idx s.

Lemma nprod_nil : nprod [] = 1.
Proof. reflexivity. Qed.

(* ---------- generic list helpers ---------- *)

Lemma nth_map_lt {A B} (f : A -> B) (l : list A) (k : nat) (d : A) (d' : B) :
  k < length l -> nth k (map f l) d' = f (nth k l d).
Proof.
  revert k. induction l as [|x l IH]; intros k Hk; cbn [length] in Hk; [lia|].
  destruct k as [|k]; cbn [map nth]; [reflexivity|]. apply IH. lia.
Qed.

Lemma flat_map_length_const {A B} (f : A -> list B) (l : list A) (n : nat) :
  (forall a, In a l -> length (f a) = n) -> length (flat_map f l) = length l * n.
Proof.
  induction l as [|x l IH]; intros Hf; cbn [flat_map length]; [reflexivity|].
  rewrite app_length, Hf by (left; reflexivity).
  rewrite IH by (intros a Ha; apply Hf; right; exact Ha).
  cbn [Nat.mul]. reflexivity.
Qed.

(* ---------- 1 ---------- *)

Lemma all_idx_length : forall s, length (all_idx s) = nprod s.
Proof.
  induction s as [|d s IH]; [reflexivity|].
  cbn [all_idx]. rewrite nprod_cons.
  rewrite (flat_map_length_const _ _ (nprod s)).
  - rewrite seq_length. reflexivity.
  - intros a _. rewrite map_length. exact IH.
Qed.

(* ---------- 2 ---------- *)

Lemma ravel_lt : forall s idx, valid_idx s idx -> ravel s idx < nprod s.
Proof.
  intros s idx H. unfold valid_idx in H.
  induction H as [|i d idx s Hid Hrest IH].
  - cbn [ravel]. rewrite nprod_nil. lia.
  - cbn [ravel]. rewrite nprod_cons. nia.
Qed.

(* ---------- 3 ---------- *)

Lemma unravel_valid : forall s k, k < nprod s -> valid_idx s (unravel s k).
Proof.
  unfold valid_idx.
  induction s as [|d s IH]; intros k Hk; cbn [unravel]; [constructor|].
  rewrite nprod_cons in Hk.
  assert (HP : nprod s <> 0) by nia.
  constructor.
  - apply Nat.div_lt_upper_bound; [exact HP|]. lia.
  - apply IH. apply Nat.mod_upper_bound. exact HP.
Qed.

(* ---------- 4 ---------- *)

Lemma ravel_unravel : forall s k, k < nprod s -> ravel s (unravel s k) = k.
Proof.
  induction s as [|d s IH]; intros k Hk.
  - rewrite nprod_nil in Hk. cbn [unravel ravel]. lia.
  - rewrite nprod_cons in Hk.
    assert (HP : nprod s <> 0) by nia.
    cbn [unravel ravel].
    rewrite IH by (apply Nat.mod_upper_bound; exact HP).
    pose proof (Nat.div_mod k (nprod s) HP) as Hdm.
    rewrite (Nat.mul_comm (k / nprod s)). lia.
Qed.

(* ---------- 5 ---------- *)

Lemma unravel_ravel : forall s idx, valid_idx s idx -> unravel s (ravel s idx) = idx.
Proof.
  intros s idx H. unfold valid_idx in H.
  induction H as [|i d idx s Hid Hrest IH]; [reflexivity|].
  cbn [ravel unravel].
  assert (Hr : ravel s idx < nprod s) by (apply ravel_lt; exact Hrest).
  assert (HP : nprod s <> 0) by lia.
  rewrite Nat.div_add_l by exact HP.
  rewrite (Nat.div_small _ _ Hr).
  rewrite (Nat.add_comm (i * nprod s) (ravel s idx)), Nat.mod_add by exact HP.
  rewrite (Nat.mod_small _ _ Hr).
  rewrite IH. f_equal. lia.
Qed.

(* ---------- 6 ---------- *)

Lemma nth_flat_map_blocks (L : list (list nat)) :
  forall d a k, k < d * length L ->
    nth k (flat_map (fun i => map (cons i) L) (seq a d)) [] =
    (a + k / length L) :: nth (k mod length L) L [].
Proof.
  induction d as [|d IH]; intros a k Hk; [lia|].
  assert (HP : length L <> 0) by nia.
  cbn [seq flat_map].
  destruct (Nat.lt_ge_cases k (length L)) as [Hlt|Hge].
  - rewrite app_nth1 by (rewrite map_length; exact Hlt).
    rewrite (nth_map_lt (cons a) L k [] []) by exact Hlt.
    rewrite (Nat.div_small _ _ Hlt), (Nat.mod_small _ _ Hlt).
    f_equal. lia.
  - rewrite app_nth2 by (rewrite map_length; exact Hge).
    rewrite map_length.
    remember (k - length L) as k' eqn:Ek'.
    assert (Hk' : k = 1 * length L + k') by lia.
    rewrite IH by nia.
    rewrite Hk'.
    rewrite Nat.div_add_l by exact HP.
    rewrite (Nat.add_comm (1 * length L) k'), Nat.mod_add by exact HP.
    f_equal. lia.
Qed.

Lemma all_idx_nth : forall s k, k < nprod s -> nth k (all_idx s) [] = unravel s k.
Proof.
  induction s as [|d s IH]; intros k Hk.
  - rewrite nprod_nil in Hk. assert (k = 0) by lia. subst k. reflexivity.
  - rewrite nprod_cons in Hk.
    assert (HP : nprod s <> 0) by nia.
    cbn [all_idx unravel].
    rewrite nth_flat_map_blocks by (rewrite all_idx_length; exact Hk).
    rewrite all_idx_length.
    rewrite IH by (apply Nat.mod_upper_bound; exact HP).
    reflexivity.
Qed.

(* ---------- 7 ---------- *)

Lemma in_all_idx : forall s idx, In idx (all_idx s) <-> valid_idx s idx.
Proof.
  unfold valid_idx.
  induction s as [|d s IH]; intros idx.
  - cbn [all_idx In]. split.
    + intros [H|[]]. subst idx. constructor.
    + intros H. inversion H. left. reflexivity.
  - cbn [all_idx]. rewrite in_flat_map. split.
    + intros [i [Hi Hin]]. apply in_map_iff in Hin.
      destruct Hin as [idx' [Heq Hin']]. subst idx.
      apply in_seq in Hi. constructor; [lia|]. apply IH. exact Hin'.
    + intros H. inversion H as [|i d' idx' s' Hid Hrest]. subst.
      exists i. split; [apply in_seq; lia|].
      apply in_map. apply IH. exact Hrest.
Qed.

(* ---------- 8 ---------- *)

Lemma all_idx_nodup : forall s, NoDup (all_idx s).
Proof.
  intros s. apply (NoDup_nth (all_idx s) []).
  intros i j Hi Hj Heq.
  rewrite all_idx_length in Hi, Hj.
  rewrite !all_idx_nth in Heq by assumption.
  rewrite <- (ravel_unravel s i Hi), <- (ravel_unravel s j Hj), Heq.
  reflexivity.
Qed.

(* ---------- 9 ---------- *)

Lemma tget_tbuild : forall s f idx, valid_idx s idx -> tget (tbuild s f) idx = f idx.
Proof.
  intros s f idx H.
  unfold tget, tbuild, tshape, tdata. cbn [fst snd].
  assert (Hr : ravel s idx < nprod s) by (apply ravel_lt; exact H).
  rewrite (nth_map_lt f (all_idx s) (ravel s idx) [] 0%Z)
    by (rewrite all_idx_length; exact Hr).
  rewrite all_idx_nth by exact Hr.
  rewrite unravel_ravel by exact H.
  reflexivity.
Qed.

(* ---------- 10 ---------- *)

Lemma tbuild_wf : forall s f, wf_tensor (tbuild s f) = true.
Proof.
  intros s f. unfold wf_tensor, tbuild, tshape, tdata. cbn [fst snd].
  rewrite map_length, all_idx_length. apply Nat.eqb_refl.
Qed.

(* ---------- 11 ---------- *)

Lemma ravel_app : forall s1 s2 i1 i2, length i1 = length s1 ->
  ravel (s1 ++ s2) (i1 ++ i2) = ravel s1 i1 * nprod s2 + ravel s2 i2.
Proof.
  induction s1 as [|d s1 IH]; intros s2 i1 i2 Hlen.
  - destruct i1 as [|i i1]; [|cbn [length] in Hlen; lia].
    cbn [app]. cbn [ravel]. lia.
  - destruct i1 as [|i i1]; cbn [length] in Hlen; [lia|].
    cbn [app]. cbn [ravel].
    rewrite IH by lia. rewrite nprod_app. lia.
Qed.

(* ---------- 12 ---------- *)

Lemma unravel_app : forall s1 s2 k, k < nprod (s1 ++ s2) -> 0 < nprod s2 ->
  unravel (s1 ++ s2) k = unravel s1 (k / nprod s2) ++ unravel s2 (k mod nprod s2).
Proof.
  induction s1 as [|d s1 IH]; intros s2 k Hk H2.
  - cbn [app] in *. cbn [unravel app]. rewrite Nat.mod_small by exact Hk. reflexivity.
  - cbn [app] in *. rewrite nprod_cons, nprod_app in Hk.
    assert (HP2 : nprod s2 <> 0) by lia.
    assert (HP1 : nprod s1 <> 0) by nia.
    cbn [unravel app]. rewrite nprod_app.
    assert (Hm : k mod (nprod s1 * nprod s2) < nprod (s1 ++ s2)).
    { rewrite nprod_app. apply Nat.mod_upper_bound. nia. }
    rewrite IH by assumption.
    rewrite (Nat.mul_comm (nprod s1) (nprod s2)).
    rewrite Nat.div_div by assumption.
    rewrite Nat.mod_mul_r by assumption.
    f_equal. f_equal.
    + f_equal.
      rewrite (Nat.mul_comm (nprod s2)), Nat.div_add by exact HP2.
      rewrite Nat.div_small by (apply Nat.mod_upper_bound; exact HP2). lia.
    + f_equal.
      rewrite (Nat.mul_comm (nprod s2)), Nat.mod_add by exact HP2.
      apply Nat.mod_mod. exact HP2.
Qed.

(* ---------- 13 ---------- *)

Lemma tget_reshape : forall t s t' idx, reshape t s = Some t' -> wf_tensor t = true ->
  valid_idx s idx -> tget t' idx = tget t (unravel (tshape t) (ravel s idx)).
Proof.
  intros t s t' idx Hre Hwf Hv.
  unfold reshape in Hre.
  destruct (Nat.eqb (nprod s) (length (tdata t))) eqn:E; [|discriminate].
  inversion Hre; subst t'. clear Hre.
  apply Nat.eqb_eq in E. unfold wf_tensor in Hwf. apply Nat.eqb_eq in Hwf.
  unfold tget. unfold tshape at 1. unfold tdata at 1. cbn [fst snd].
  assert (Hr : ravel s idx < nprod (tshape t)).
  { rewrite <- Hwf, <- E. apply ravel_lt. exact Hv. }
  rewrite ravel_unravel by exact Hr. reflexivity.
Qed.

(* ---------- 14 ---------- *)

Lemma tbuild_ext : forall s f g, (forall idx, valid_idx s idx -> f idx = g idx) ->
  tbuild s f = tbuild s g.
Proof.
  intros s f g H. unfold tbuild. f_equal.
  apply map_ext_in. intros idx Hin. apply H. apply in_all_idx. exact Hin.
Qed.

(* ---------- 15 ---------- *)

Lemma tensor_ext : forall t1 t2, wf_tensor t1 = true -> wf_tensor t2 = true ->
  tshape t1 = tshape t2 ->
  (forall idx, valid_idx (tshape t1) idx -> tget t1 idx = tget t2 idx) -> t1 = t2.
Proof.
  intros [s1 d1] [s2 d2] Hw1 Hw2 Hs Hget.
  unfold wf_tensor, tshape, tdata in *. cbn [fst snd] in *.
  subst s2. apply Nat.eqb_eq in Hw1. apply Nat.eqb_eq in Hw2.
  f_equal.
  apply (nth_ext d1 d2 0%Z 0%Z); [lia|].
  intros k Hk. rewrite Hw1 in Hk.
  specialize (Hget (unravel s1 k) (unravel_valid s1 k Hk)).
  unfold tget, tshape, tdata in Hget. cbn [fst snd] in Hget.
  rewrite ravel_unravel in Hget by exact Hk. exact Hget.
Qed.

(* ---------- 16 / 17 ---------- *)

Lemma transpose_shape : forall t p t', transpose t p = Some t' ->
  tshape t' = dims_at (tshape t) p.
Proof.
  intros t p t' H. unfold transpose in H.
  destruct (is_perm p (length (tshape t))); [|discriminate].
  inversion H. reflexivity.
Qed.

Lemma tget_transpose : forall t p t' idx, transpose t p = Some t' ->
  valid_idx (tshape t') idx ->
  tget t' idx = tget t (map (fun j => nth (pos_in j p) idx 0) (seq 0 (length (tshape t)))).
Proof.
  intros t p t' idx H Hv.
  rewrite (transpose_shape t p t' H) in Hv.
  unfold transpose in H.
  destruct (is_perm p (length (tshape t))); [|discriminate].
  inversion H; subst t'. clear H.
  rewrite tget_tbuild by exact Hv. reflexivity.
Qed.

(* ================================================================== *)
(* PART 2: structure of the plan parsers (all inputs) *)


(* the labels of an operand that carry a dimension different from 1, in order, with repeats *)
Definition nonsing (l : list (nat * nat)) : list nat :=
  map fst (filter (fun p => negb (Nat.eqb (snd p) 1)) l).

(* ================================================================== *)
(* generic list helpers                                                *)
Lemma NoDup_app_intro {A} (l1 l2 : list A) :
  NoDup l1 -> NoDup l2 -> (forall x, In x l1 -> ~ In x l2) -> NoDup (l1 ++ l2).
Proof.
  induction l1 as [|a l1 IH]; intros N1 N2 Hd; cbn [app]; [exact N2|].
  inversion N1 as [|? ? Hn N1']; subst. constructor.
  - rewrite in_app_iff. intros [H|H]; [exact (Hn H)|].
    apply (Hd a); [left; reflexivity|exact H].
  - apply IH; [exact N1'|exact N2|]. intros x Hx. apply Hd. right; exact Hx.
Qed.

Lemma NoDup_app_elim {A} (l1 l2 : list A) :
  NoDup (l1 ++ l2) -> NoDup l1 /\ NoDup l2 /\ (forall x, In x l1 -> ~ In x l2).
Proof.
  induction l1 as [|a l1 IH]; cbn [app]; intros N.
  - split; [constructor|]. split; [exact N|]. intros x [].
  - inversion N as [|? ? Hn N']; subst. destruct (IH N') as (N1 & N2 & Hd).
    rewrite in_app_iff in Hn. split; [|split].
    + constructor; [tauto|exact N1].
    + exact N2.
    + intros x [<-|Hx]; [tauto|apply Hd, Hx].
Qed.

Lemma pf_list_eqb_eq : forall l1 l2 : list nat, eqb l1 l2 = true -> l1 = l2.
Proof.
  induction l1 as [|x l1 IH]; intros [|y l2] H; try reflexivity; try discriminate H.
  change (Nat.eqb x y && eqb l1 l2 = true) in H.
  apply andb_true_iff in H. destruct H as [H1 H2].
  apply Nat.eqb_eq in H1. subst y. f_equal. apply IH, H2.
Qed.

(* ================================================================== *)
(* A. unique                                                           *)
Lemma unique_acc_in x l : forall seen,
  In x (unique_acc seen l) <-> In x l /\ ~ In x seen.
Proof.
  induction l as [|y l IH]; intros seen; cbn [unique_acc].
  - cbn [In]. tauto.
  - destruct (memb y seen) eqn:E.
    + apply memb_In in E. rewrite IH. cbn [In]. split; [tauto|].
      intros [[->|H] Hn]; tauto.
    + apply memb_false in E. cbn [In]. rewrite IH. cbn [In].
      destruct (Nat.eq_dec y x) as [->|Hne]; tauto.
Qed.

Lemma unique_acc_nodup l : forall seen, NoDup (unique_acc seen l).
Proof.
  induction l as [|y l IH]; intros seen; cbn [unique_acc]; [constructor|].
  destruct (memb y seen) eqn:E; [apply IH|].
  constructor; [|apply IH].
  rewrite unique_acc_in. cbn [In]. tauto.
Qed.

Lemma unique_in x l : In x (unique l) <-> In x l.
Proof. unfold unique. rewrite unique_acc_in. cbn [In]. tauto. Qed.

Lemma unique_nodup l : NoDup (unique l).
Proof. apply unique_acc_nodup. Qed.

(* ================================================================== *)
(* B. index classification of the two scanning loops                   *)
Definition P_bat (b_term out : str) (ix : nat) : bool := memb ix b_term && memb ix out.
Definition P_con (b_term out : str) (ix : nat) : bool := memb ix b_term && negb (memb ix out).
Definition P_keep (b_term out : str) (ix : nat) : bool := negb (memb ix b_term) && memb ix out.
Definition P_bkeep (a_term out : str) (ix : nat) : bool := negb (memb ix a_term) && memb ix out.

Lemma nonsing_cons_one ix d r : Nat.eqb d 1 = true -> nonsing ((ix, d) :: r) = nonsing r.
Proof. intros E. unfold nonsing. cbn [filter snd]. rewrite E. reflexivity. Qed.

Lemma nonsing_cons_big ix d r : Nat.eqb d 1 = false -> nonsing ((ix, d) :: r) = ix :: nonsing r.
Proof. intros E. unfold nonsing. cbn [filter snd]. rewrite E. reflexivity. Qed.

Lemma nonsing_in_term ix t s : In ix (nonsing (combine t s)) -> In ix t.
Proof.
  unfold nonsing. intros H. apply in_map_iff in H. destruct H as ([i d] & E & H).
  cbn [fst] in E. subst i. apply filter_In in H. destruct H as [H _].
  apply in_combine_l in H. exact H.
Qed.

Lemma scan_a_spec b_term out l : forall bat con keep sizes sing seen bat' con' keep' sizes' sing',
  scan_a b_term out l bat con keep sizes sing seen = Some (bat', con', keep', sizes', sing') ->
  bat' = bat ++ filter (P_bat b_term out) (unique_acc seen (nonsing l)) /\
  con' = con ++ filter (P_con b_term out) (unique_acc seen (nonsing l)) /\
  keep' = keep ++ filter (P_keep b_term out) (unique_acc seen (nonsing l)).
Proof.
  induction l as [|[ix d] r IH]; intros bat con keep sizes sing seen bat' con' keep' sizes' sing' H;
    cbn [scan_a] in H.
  - inversion H; subst. cbn. rewrite !app_nil_r. auto.
  - destruct (Nat.eqb d 1) eqn:Ed.
    + rewrite (nonsing_cons_one ix d r Ed). eapply IH. exact H.
    + rewrite (nonsing_cons_big ix d r Ed). cbn [unique_acc].
      destruct (negb (Nat.eqb (lget0 ix match lget ix sizes with Some _ => sizes | None => lset ix d sizes end) d));
        [discriminate H|].
      destruct (memb ix seen) eqn:Es; [eapply IH; exact H|].
      cbn [filter]. unfold P_bat at 1, P_con at 1, P_keep at 1.
      destruct (memb ix b_term) eqn:Eb; destruct (memb ix out) eqn:Eo; cbn [andb negb];
        apply IH in H; destruct H as (H1 & H2 & H3); subst bat' con' keep';
        rewrite <- ?app_assoc; cbn [app]; auto.
Qed.

Lemma scan_b_spec a_term out l : forall keep sizes sing seen keep' sizes' sing',
  scan_b a_term out l keep sizes sing seen = Some (keep', sizes', sing') ->
  keep' = keep ++ filter (P_bkeep a_term out) (unique_acc seen (nonsing l)).
Proof.
  induction l as [|[ix d] r IH]; intros keep sizes sing seen keep' sizes' sing' H;
    cbn [scan_b] in H.
  - inversion H; subst. cbn. rewrite app_nil_r. reflexivity.
  - destruct (Nat.eqb d 1) eqn:Ed.
    + rewrite (nonsing_cons_one ix d r Ed). eapply IH. exact H.
    + rewrite (nonsing_cons_big ix d r Ed). cbn [unique_acc].
      destruct (negb (Nat.eqb (lget0 ix match lget ix sizes with Some _ => sizes | None => lset ix d sizes end) d));
        [discriminate H|].
      destruct (memb ix seen) eqn:Es; [eapply IH; exact H|].
      cbn [filter]. unfold P_bkeep at 1.
      destruct (negb (memb ix a_term) && memb ix out) eqn:Ep;
        apply IH in H; subst keep'; rewrite <- ?app_assoc; cbn [app]; reflexivity.
Qed.

(* ================================================================== *)
(* C. classify                                                          *)
Lemma classify_partition a_term shape_a b_term shape_b out c :
  classify a_term shape_a b_term shape_b out = Some c ->
  let A := nonsing (combine a_term shape_a) in
  let B := nonsing (combine b_term shape_b) in
  c_bat c = filter (P_bat b_term out) (unique A) /\
  c_con c = filter (P_con b_term out) (unique A) /\
  c_akeep c = filter (P_keep b_term out) (unique A) /\
  c_bkeep c = filter (P_bkeep a_term out) (unique B).
Proof.
  unfold classify. intros H.
  destruct (scan_a b_term out (combine a_term shape_a) [] [] [] [] [] [])
    as [[[[[bat con] akeep] sizes] sing]|] eqn:Ea; [|discriminate H].
  destruct (scan_b a_term out (combine b_term shape_b) [] sizes sing [])
    as [[[bkeep sizes'] sing']|] eqn:Eb; [|discriminate H].
  inversion H; subst c. cbn [c_bat c_con c_akeep c_bkeep].
  apply scan_a_spec in Ea. destruct Ea as (H1 & H2 & H3).
  apply scan_b_spec in Eb. cbn [app] in *. unfold unique. auto.
Qed.

Lemma classify_in a_term shape_a b_term shape_b out c :
  classify a_term shape_a b_term shape_b out = Some c ->
  let A := nonsing (combine a_term shape_a) in
  let B := nonsing (combine b_term shape_b) in
  forall ix,
  (In ix (c_bat c) <-> In ix A /\ In ix b_term /\ In ix out) /\
  (In ix (c_con c) <-> In ix A /\ In ix b_term /\ ~ In ix out) /\
  (In ix (c_akeep c) <-> In ix A /\ ~ In ix b_term /\ In ix out) /\
  (In ix (c_bkeep c) <-> In ix B /\ ~ In ix a_term /\ In ix out).
Proof.
  intros H A B ix. apply classify_partition in H. cbv zeta in H.
  destruct H as (H1 & H2 & H3 & H4). rewrite H1, H2, H3, H4.
  fold A B. rewrite !filter_In, !unique_in.
  unfold P_bat, P_con, P_keep, P_bkeep.
  rewrite !andb_true_iff, !negb_true_iff, !memb_In, !memb_false. tauto.
Qed.

Lemma classify_nodup a_term shape_a b_term shape_b out c :
  classify a_term shape_a b_term shape_b out = Some c ->
  NoDup (c_bat c ++ c_con c ++ c_akeep c ++ c_bkeep c).
Proof.
  intros H. pose proof (classify_in _ _ _ _ _ _ H) as Hin. cbv zeta in Hin.
  apply classify_partition in H. cbv zeta in H.
  destruct H as (H1 & H2 & H3 & H4).
  apply NoDup_app_intro; [| apply NoDup_app_intro; [| apply NoDup_app_intro | ] | ].
  - rewrite H1. apply NoDup_filter, unique_nodup.
  - rewrite H2. apply NoDup_filter, unique_nodup.
  - rewrite H3. apply NoDup_filter, unique_nodup.
  - rewrite H4. apply NoDup_filter, unique_nodup.
  - intros x Hx Hx'. apply Hin in Hx. apply Hin in Hx'.
    destruct Hx as (HA & _). apply nonsing_in_term in HA. tauto.
  - intros x Hx Hx'. apply in_app_iff in Hx'. apply Hin in Hx.
    destruct Hx as (HA & Hb & Ho). destruct Hx' as [Hx'|Hx']; apply Hin in Hx'; [tauto|].
    apply nonsing_in_term in HA. tauto.
  - intros x Hx Hx'. rewrite !in_app_iff in Hx'. apply Hin in Hx.
    destruct Hx as (HA & Hb & Ho).
    destruct Hx' as [Hx'|[Hx'|Hx']]; apply Hin in Hx'; try tauto.
    apply nonsing_in_term in HA. tauto.
Qed.

Lemma classify_cover a_term shape_a b_term shape_b out c :
  classify a_term shape_a b_term shape_b out = Some c ->
  forall ix, In ix (nonsing (combine a_term shape_a)) ->
  In ix (c_bat c ++ c_con c ++ c_akeep c) \/ (~ In ix b_term /\ ~ In ix out).
Proof.
  intros H ix HA. pose proof (classify_in _ _ _ _ _ _ H ix) as Hin. cbv zeta in Hin.
  rewrite !in_app_iff. destruct Hin as (H1 & H2 & H3 & _). rewrite H1, H2, H3.
  destruct (in_dec Nat.eq_dec ix b_term); destruct (in_dec Nat.eq_dec ix out); tauto.
Qed.

Lemma classify_cover_b a_term shape_a b_term shape_b out c :
  classify a_term shape_a b_term shape_b out = Some c ->
  forall ix, In ix (nonsing (combine b_term shape_b)) ->
  In ix a_term \/ In ix (c_bkeep c) \/ ~ In ix out.
Proof.
  intros H ix HB. pose proof (classify_in _ _ _ _ _ _ H ix) as Hin. cbv zeta in Hin.
  destruct Hin as (_ & _ & _ & H4). rewrite H4.
  destruct (in_dec Nat.eq_dec ix a_term); destruct (in_dec Nat.eq_dec ix out); tauto.
Qed.

(* ================================================================== *)
(* D. index_all                                                         *)
Lemma pf_find_pos_some j s : forall p, find_pos j s = Some p -> p < length s /\ nth p s 0 = j.
Proof.
  induction s as [|x s IH]; intros p H; cbn [find_pos] in H; [discriminate H|].
  destruct (Nat.eqb_spec x j) as [->|Hne].
  - inversion H; subst p. cbn. split; [lia|reflexivity].
  - destruct (find_pos j s) as [q|] eqn:E; [|discriminate H].
    inversion H; subst p. destruct (IH q eq_refl) as [H1 H2]. cbn [length nth]. split; [lia|exact H2].
Qed.

Lemma pf_find_pos_none j s : find_pos j s = None -> ~ In j s.
Proof.
  induction s as [|x s IH]; cbn [find_pos In]; [tauto|].
  destruct (Nat.eqb_spec x j) as [->|Hne]; [discriminate|].
  destruct (find_pos j s); [discriminate|]. intros _ [H|H]; [congruence|]. apply IH; [reflexivity|exact H].
Qed.

Lemma pf_find_pos_in j s : In j s -> exists p, find_pos j s = Some p.
Proof.
  intros H. destruct (find_pos j s) as [p|] eqn:E; [exists p; reflexivity|].
  exfalso. apply (pf_find_pos_none j s E H).
Qed.

Lemma index_all_spec s l : forall p, index_all s l = Some p ->
  length p = length l /\ Forall (fun k => k < length s) p /\ map (fun k => nth k s 0) p = l.
Proof.
  induction l as [|x l IH]; intros p H; cbn [index_all] in H.
  - inversion H; subst p. cbn. auto.
  - destruct (find_pos x s) as [q|] eqn:Eq; [|discriminate H].
    destruct (index_all s l) as [ps|] eqn:El; [|discriminate H].
    inversion H; subst p. destruct (IH ps eq_refl) as (H1 & H2 & H3).
    apply pf_find_pos_some in Eq. destruct Eq as [Hq1 Hq2].
    cbn [length map]. split; [lia|]. split; [constructor; assumption|]. rewrite Hq2, H3. reflexivity.
Qed.

Lemma index_all_incl s l p : index_all s l = Some p -> incl l s.
Proof.
  intros H x Hx. apply index_all_spec in H. destruct H as (_ & HF & Hm).
  rewrite <- Hm in Hx. apply in_map_iff in Hx. destruct Hx as (k & <- & Hk).
  rewrite Forall_forall in HF. apply nth_In, HF, Hk.
Qed.

Lemma index_all_total s l : incl l s -> exists p, index_all s l = Some p.
Proof.
  induction l as [|x l IH]; intros Hi; cbn [index_all]; [exists []; reflexivity|].
  destruct (pf_find_pos_in x s) as [q Hq]; [apply Hi; left; reflexivity|].
  destruct IH as [ps Hps]; [intros y Hy; apply Hi; right; exact Hy|].
  rewrite Hq, Hps. eexists; reflexivity.
Qed.

Lemma index_all_nodup s l p : index_all s l = Some p -> NoDup l -> NoDup p.
Proof.
  intros H N. apply index_all_spec in H. destruct H as (_ & _ & Hm).
  rewrite <- Hm in N. apply NoDup_map_inv in N. exact N.
Qed.

Lemma pf_is_perm_intro p n : NoDup p -> Forall (fun k => k < n) p -> length p = n -> is_perm p n = true.
Proof.
  intros N HF HL. unfold is_perm. rewrite HL, Nat.eqb_refl. cbn [andb].
  apply forallb_forall. intros j Hj. apply memb_In.
  assert (Hi : incl (seq 0 n) p).
  { apply NoDup_length_incl; [exact N|rewrite seq_length; lia|].
    intros k Hk. rewrite Forall_forall in HF. apply in_seq. specialize (HF k Hk). lia. }
  apply Hi, Hj.
Qed.

Lemma index_all_is_perm s l p : index_all s l = Some p -> NoDup l -> length l = length s ->
  is_perm p (length s) = true.
Proof.
  intros H N HL. pose proof (index_all_nodup _ _ _ H N) as Np.
  apply index_all_spec in H. destruct H as (H1 & H2 & _).
  apply pf_is_perm_intro; [exact Np|exact H2|lia].
Qed.

(* ================================================================== *)
(* E. group_shape                                                       *)
Lemma group_shape_prod sizes groups s : group_shape sizes groups = Some s ->
  nprod s = nprod (map (fun ix => lget0 ix sizes) (concat groups)).
Proof.
  unfold group_shape. destruct (existsb _ groups); [|discriminate].
  intros H. inversion H; subst s. clear H.
  induction groups as [|g gs IH]; [reflexivity|].
  cbn [map concat]. rewrite map_app, nprod_app, nprod_cons, IH. reflexivity.
Qed.

Lemma nprod_repeat_one n : nprod (repeat 1 n) = 1.
Proof. induction n as [|n IH]; [reflexivity|]. cbn [repeat]. rewrite nprod_cons, IH. reflexivity. Qed.

(* ================================================================== *)
(* F. the plan of parse_bmm_terms (non-pure branch)                     *)
Theorem bmm_plan_shapes a_term shape_a b_term shape_b out c eq_a eq_b nsa nsb nsab perm_ab pure :
  classify a_term shape_a b_term shape_b out = Some c ->
  c_con c <> [] ->
  parse_bmm_terms a_term shape_a b_term shape_b out
    = Some (eq_a, (eq_b, (nsa, (nsb, (nsab, (perm_ab, pure)))))) ->
  pure = false /\
  let sz := fun ix => lget0 ix (c_sizes c) in
  (forall s, nsa = Some s -> nprod s = nprod (map sz (c_bat c ++ c_akeep c ++ c_con c))) /\
  (forall s, nsb = Some s -> nprod s = nprod (map sz (c_bat c ++ c_con c ++ c_bkeep c))) /\
  (forall s, nsab = Some s -> nprod s = nprod (map sz (c_bat c ++ c_akeep c ++ c_bkeep c))).
Proof.
  intros Hc Hcon H. unfold parse_bmm_terms in H.
  destruct (negb (Nat.eqb (length a_term) (length shape_a))); [discriminate H|].
  destruct (negb (Nat.eqb (length b_term) (length shape_b))); [discriminate H|].
  rewrite Hc in H.
  destruct (c_con c) as [|c0 cl] eqn:Econ; [congruence|]. clear Hcon.
  destruct (c_bat c) as [|b0 bl] eqn:Ebat; cbv beta iota zeta in H;
  (destruct (index_all _ out) as [p|] eqn:Ep; [|discriminate H]);
  inversion H; subst; clear H; (split; [reflexivity|]); cbv zeta; (split; [|split]); intros s Hs.
  - apply group_shape_prod in Hs. rewrite Hs. cbn [concat app]. rewrite ?app_nil_r. reflexivity.
  - apply group_shape_prod in Hs. rewrite Hs. cbn [concat app]. rewrite ?app_nil_r. reflexivity.
  - destruct (_ || _) in Hs; [|discriminate Hs]. inversion Hs; subst s.
    rewrite nprod_app, nprod_repeat_one. cbn [concat app map]. rewrite ?app_nil_r. lia.
  - apply group_shape_prod in Hs. rewrite Hs. cbn [concat]. rewrite ?app_nil_r. reflexivity.
  - apply group_shape_prod in Hs. rewrite Hs. cbn [concat]. rewrite ?app_nil_r. reflexivity.
  - destruct (_ || _) in Hs; [|discriminate Hs]. inversion Hs; subst s.
    rewrite nprod_app, nprod_repeat_one. cbn [concat]. rewrite ?app_nil_r. cbn [app map]. lia.
Qed.

Lemma index_all_perm_full s l p : index_all s l = Some p -> NoDup l -> NoDup s -> incl s l ->
  map (fun k => nth k s 0) p = l /\ is_perm p (length s) = true.
Proof.
  intros H Nl Ns Hi. split; [apply index_all_spec in H; tauto|].
  apply (index_all_is_perm s l p H Nl).
  pose proof (index_all_incl _ _ _ H) as Hi'.
  pose proof (NoDup_incl_length Nl Hi'). pose proof (NoDup_incl_length Ns Hi). lia.
Qed.

Lemma classify_produced_incl a_term shape_a b_term shape_b out c :
  classify a_term shape_a b_term shape_b out = Some c ->
  incl (filter (fun ix => memb ix (c_sing c)) out ++ c_bat c ++ c_akeep c ++ c_bkeep c) out.
Proof.
  intros Hc x Hx. pose proof (classify_in _ _ _ _ _ _ Hc x) as Hin. cbv zeta in Hin.
  rewrite !in_app_iff in Hx. destruct Hx as [Hx|[Hx|[Hx|Hx]]].
  - apply filter_In in Hx. tauto.
  - apply Hin in Hx. tauto.
  - apply Hin in Hx. tauto.
  - apply Hin in Hx. tauto.
Qed.

Theorem bmm_plan_perm a_term shape_a b_term shape_b out c eq_a eq_b nsa nsb nsab perm_ab pure :
  classify a_term shape_a b_term shape_b out = Some c ->
  c_con c <> [] ->
  parse_bmm_terms a_term shape_a b_term shape_b out
    = Some (eq_a, (eq_b, (nsa, (nsb, (nsab, (perm_ab, pure)))))) ->
  let produced := filter (fun ix => memb ix (c_sing c)) out ++ c_bat c ++ c_akeep c ++ c_bkeep c in
  NoDup out -> NoDup produced ->
  exists p, index_all produced out = Some p /\
    (perm_ab = None -> p = seq 0 (length p)) /\
    (forall q, perm_ab = Some q -> q = p) /\
    map (fun k => nth k produced 0) p = out /\
    is_perm p (length produced) = true.
Proof.
  intros Hc Hcon H. pose proof (classify_produced_incl _ _ _ _ _ _ Hc) as Hincl.
  unfold parse_bmm_terms in H.
  destruct (negb (Nat.eqb (length a_term) (length shape_a))); [discriminate H|].
  destruct (negb (Nat.eqb (length b_term) (length shape_b))); [discriminate H|].
  rewrite Hc in H.
  destruct (c_con c) as [|c0 cl] eqn:Econ; [congruence|]. clear Hcon.
  destruct (c_bat c) as [|b0 bl] eqn:Ebat; cbv beta iota zeta in H |- *; intros No Np;
  (destruct (index_all _ out) as [p|] eqn:Ep; [|discriminate H]); exists p;
  inversion H; subst; clear H; (split; [reflexivity|]);
  (split; [|split]).
  - destruct (eqb p (seq 0 (length p))) eqn:E; [intros _; apply pf_list_eqb_eq, E|discriminate].
  - intros q. destruct (eqb p (seq 0 (length p))); [discriminate|]. intros Hq; inversion Hq; reflexivity.
  - apply index_all_perm_full; assumption.
  - destruct (eqb p (seq 0 (length p))) eqn:E; [intros _; apply pf_list_eqb_eq, E|discriminate].
  - intros q. destruct (eqb p (seq 0 (length p))); [discriminate|]. intros Hq; inversion Hq; reflexivity.
  - apply index_all_perm_full; assumption.
Qed.

(* ================================================================== *)
(* G. scan_single (first loop of _parse_einsum_single)                  *)
Lemma pf_count_cons x y r : count x (y :: r) = (if Nat.eqb x y then 1 else 0) + count x r.
Proof. unfold count. cbn [filter]. destruct (Nat.eqb x y); reflexivity. Qed.

Lemma scan_single_sum_gen out lhs : forall dg sm seen,
  (forall x, In x dg -> In x seen) ->
  snd (scan_single lhs out dg sm seen)
    = sm ++ filter (fun j => negb (memb j out)) (unique_acc seen lhs).
Proof.
  induction lhs as [|ix r IH]; intros dg sm seen Hinv; cbn [scan_single unique_acc].
  - cbn. rewrite app_nil_r. reflexivity.
  - destruct (memb ix dg) eqn:Ed.
    + apply memb_In in Ed. apply Hinv in Ed. apply memb_In in Ed. rewrite Ed. apply IH, Hinv.
    + destruct (memb ix seen) eqn:Es.
      * apply IH. intros x Hx. apply in_app_iff in Hx.
        destruct Hx as [Hx|[<-|[]]]; [apply Hinv, Hx|apply memb_In, Es].
      * rewrite IH by (intros x Hx; right; apply Hinv, Hx). cbn [filter].
        destruct (memb ix out); cbn [negb]; [reflexivity|]. rewrite <- app_assoc. reflexivity.
Qed.

Lemma scan_single_sum lhs out :
  snd (scan_single lhs out [] [] []) = filter (fun j => negb (memb j out)) (unique lhs).
Proof. rewrite scan_single_sum_gen by (intros x []). reflexivity. Qed.

Lemma scan_single_diag_gen out x lhs : forall dg sm seen,
  (forall y, In y dg -> In y seen) ->
  (In x (fst (scan_single lhs out dg sm seen)) <->
   In x dg \/ (In x seen /\ 1 <= count x lhs) \/ 2 <= count x lhs).
Proof.
  induction lhs as [|ix r IH]; intros dg sm seen Hinv; cbn [scan_single].
  - cbn [fst]. change (count x []) with 0. intuition lia.
  - rewrite pf_count_cons. destruct (memb ix dg) eqn:Ed.
    + rewrite IH by exact Hinv. apply memb_In in Ed.
      destruct (Nat.eqb_spec x ix) as [->|Hne]; [tauto|]. cbn [Nat.add]. tauto.
    + apply memb_false in Ed. destruct (memb ix seen) eqn:Es.
      * apply memb_In in Es. rewrite IH.
        2:{ intros y Hy. apply in_app_iff in Hy. destruct Hy as [Hy|[<-|[]]]; [apply Hinv, Hy|exact Es]. }
        rewrite in_app_iff. cbn [In].
        destruct (Nat.eqb_spec x ix) as [->|Hne]; [intuition lia|].
        cbn [Nat.add]. intuition congruence.
      * apply memb_false in Es. rewrite IH by (intros y Hy; right; apply Hinv, Hy).
        cbn [In].
        destruct (Nat.eqb_spec x ix) as [->|Hne]; [intuition lia|].
        cbn [Nat.add]. intuition congruence.
Qed.

Lemma scan_single_diag_in lhs out ix :
  In ix (fst (scan_single lhs out [] [] [])) <-> 2 <= count ix lhs.
Proof. rewrite scan_single_diag_gen by (intros y []). cbn [In]. tauto. Qed.

Lemma scan_single_diag_nodup_gen out lhs : forall dg sm seen,
  NoDup dg -> NoDup (fst (scan_single lhs out dg sm seen)).
Proof.
  induction lhs as [|ix r IH]; intros dg sm seen N; cbn [scan_single]; [exact N|].
  destruct (memb ix dg) eqn:Ed; [apply IH, N|].
  destruct (memb ix seen); [|apply IH, N].
  apply IH. apply NoDup_app_intro; [exact N|constructor; [intros []|constructor]|].
  intros x Hx [<-|[]]. apply memb_false in Ed. exact (Ed Hx).
Qed.

Lemma scan_single_diag_nodup lhs out : NoDup (fst (scan_single lhs out [] [] [])).
Proof. apply scan_single_diag_nodup_gen. constructor. Qed.

(* ================================================================== *)
(* H. parse_single_core: label bookkeeping                              *)
Lemma pf_diag_fold_none sizes l : fold_left (diag_step sizes) l None = None.
Proof. induction l as [|a l IH]; [reflexivity|]. cbn [fold_left diag_step]. exact IH. Qed.

Lemma pf_diag_fold_lhs sizes l : forall sels lhs sels' lhs',
  fold_left (diag_step sizes) l (Some (sels, lhs)) = Some (sels', lhs') ->
  lhs' = fold_left (fun l ixd => diag_lhs ixd l) l lhs.
Proof.
  induction l as [|ixd l IH]; intros sels lhs sels' lhs' H; cbn [fold_left] in *.
  - inversion H; reflexivity.
  - cbn [diag_step] in H.
    destruct (lget ixd sizes) as [n|]; [|rewrite pf_diag_fold_none in H; discriminate H].
    apply IH in H. exact H.
Qed.

Theorem parse_single_core_labels lhs out shape dsel sax perm :
  parse_single_core lhs out shape = Some (dsel, (sax, perm)) ->
  (perm = None -> labels_after_sum lhs out = out) /\
  (forall p, perm = Some p -> map (fun k => nth k (labels_after_sum lhs out) 0) p = out).
Proof.
  unfold parse_single_core, labels_after_sum, labels_after_diag.
  destruct (scan_single lhs out [] [] []) as [dg sm]. cbn [fst snd]. intros H.
  match type of H with match ?X with _ => _ end = _ =>
    destruct X as [[diag_sels lhs1]|] eqn:E1; [|discriminate H] end.
  assert (Hl1 : lhs1 = fold_left (fun l ixd => diag_lhs ixd l) (rev dg) lhs).
  { destruct dg as [|d0 dg'].
    - inversion E1; reflexivity.
    - match type of E1 with match ?X with _ => _ end = _ =>
        destruct X as [[sels l']|] eqn:Ef; [|discriminate E1] end.
      inversion E1; subst. apply pf_diag_fold_lhs in Ef. exact Ef. }
  rewrite <- Hl1. clear E1 Hl1.
  match type of H with match ?X with _ => _ end = _ =>
    destruct X as [[sum_axes lhs2]|] eqn:E2; [|discriminate H] end.
  assert (Hl2 : lhs2 = fold_left (fun l ix => remove_all ix l) sm lhs1).
  { destruct sm as [|s0 sm'].
    - inversion E2; reflexivity.
    - destruct (index_all lhs1 (s0 :: sm')) as [ax|]; [|discriminate E2].
      inversion E2; reflexivity. }
  rewrite <- Hl2. clear E2 Hl2.
  destruct (eqb lhs2 out) eqn:Ee.
  - inversion H; subst. split; [intros _; apply pf_list_eqb_eq, Ee|discriminate].
  - destruct (index_all lhs2 out) as [p|] eqn:Ep; [|discriminate H].
    inversion H; subst. split; [discriminate|]. intros q Hq. inversion Hq; subst q.
    apply index_all_spec in Ep. tauto.
Qed.

(* ================================================================== *)
(* PART 3: getter semantics of the kernels and of the reference; first semantic theorems *)


(* ================================================================== *)
(* 0. small generic helpers                                            *)

Lemma sf_zsum_single v : zsum [v] = v.
Proof. unfold zsum. cbn [fold_left]. lia. Qed.

Lemma sf_zsum_nil : zsum [] = 0%Z.
Proof. reflexivity. Qed.

Lemma sf_zprodl_nil : zprodl [] = 1%Z.
Proof. reflexivity. Qed.

Lemma sf_zprodl_cons a l : zprodl (a :: l) = (a * zprodl l)%Z.
Proof. reflexivity. Qed.

Lemma sf_zprodl_single a : zprodl [a] = a.
Proof. rewrite sf_zprodl_cons, sf_zprodl_nil. lia. Qed.

Lemma sf_zprodl_pair a b : zprodl [a; b] = (a * b)%Z.
Proof. rewrite !sf_zprodl_cons, sf_zprodl_nil. lia. Qed.

Lemma sf_flat_map_single {A B} (f : A -> B) (l : list A) :
  flat_map (fun a => [f a]) l = map f l.
Proof. induction l as [|a l IH]; cbn [flat_map map app]; [reflexivity|]. rewrite IH. reflexivity. Qed.

Lemma sf_filter_nil {A} (f : A -> bool) (l : list A) :
  (forall x, In x l -> f x = false) -> filter f l = [].
Proof.
  induction l as [|a l IH]; intros H; cbn [filter]; [reflexivity|].
  rewrite (H a) by (left; reflexivity). apply IH. intros x Hx. apply H. right. exact Hx.
Qed.

Lemma sf_filter_all {A} (f : A -> bool) (l : list A) :
  (forall x, In x l -> f x = true) -> filter f l = l.
Proof.
  induction l as [|a l IH]; intros H; cbn [filter]; [reflexivity|].
  rewrite (H a) by (left; reflexivity). f_equal. apply IH. intros x Hx. apply H. right. exact Hx.
Qed.

Lemma sf_valid_idx_length s idx : valid_idx s idx -> length idx = length s.
Proof. intros H. unfold valid_idx in H. induction H; cbn [length]; [reflexivity|]. f_equal. assumption. Qed.

Lemma sf_valid_idx_nil idx : valid_idx [] idx -> idx = [].
Proof. intros H. inversion H. reflexivity. Qed.

Lemma sf_valid_idx_cons d s idx : valid_idx (d :: s) idx ->
  exists i idx', idx = i :: idx' /\ i < d /\ valid_idx s idx'.
Proof. intros H. inversion H; subst. eexists. eexists. split; [reflexivity|]. split; assumption. Qed.

Lemma sf_all_idx_nil : all_idx [] = [[]].
Proof. reflexivity. Qed.

Lemma sf_all_idx_one d : all_idx [d] = map (fun l => [l]) (seq 0 d).
Proof. cbn [all_idx map]. apply sf_flat_map_single. Qed.

(* find_pos / pos_in *)
Lemma sf_find_pos_some j s : forall p, find_pos j s = Some p -> p < length s /\ nth p s 0 = j.
Proof.
  induction s as [|x s IH]; intros p H; cbn [find_pos] in H; [discriminate H|].
  destruct (Nat.eqb_spec x j) as [->|Hne].
  - inversion H; subst p. cbn. split; [lia|reflexivity].
  - destruct (find_pos j s) as [q|] eqn:E; [|discriminate H].
    inversion H; subst p. destruct (IH q eq_refl) as [H1 H2]. cbn [length nth]. split; [lia|exact H2].
Qed.

Lemma sf_find_pos_none j s : find_pos j s = None -> ~ In j s.
Proof.
  induction s as [|x s IH]; cbn [find_pos In]; [tauto|].
  destruct (Nat.eqb_spec x j) as [->|Hne]; [discriminate|].
  destruct (find_pos j s); [discriminate|]. intros _ [H|H]; [congruence|]. apply IH; [reflexivity|exact H].
Qed.

Lemma sf_find_pos_in j s : In j s -> exists p, find_pos j s = Some p.
Proof.
  intros H. destruct (find_pos j s) as [p|] eqn:E; [exists p; reflexivity|].
  exfalso. apply (sf_find_pos_none j s E H).
Qed.

Lemma sf_find_pos_notin j s : ~ In j s -> find_pos j s = None.
Proof.
  intros H. destruct (find_pos j s) as [p|] eqn:E; [|reflexivity].
  exfalso. apply H. apply sf_find_pos_some in E. destruct E as [E1 E2]. rewrite <- E2. apply nth_In, E1.
Qed.

Lemma sf_find_pos_map_inj (f : nat -> nat) j l :
  (forall x, In x l -> f x = f j -> x = j) ->
  find_pos (f j) (map f l) = find_pos j l.
Proof.
  induction l as [|x l IH]; intros H; cbn [map find_pos]; [reflexivity|].
  destruct (Nat.eqb_spec (f x) (f j)) as [E|E].
  - rewrite (H x (or_introl eq_refl) E), Nat.eqb_refl. reflexivity.
  - destruct (Nat.eqb_spec x j) as [->|E']; [congruence|].
    rewrite IH by (intros y Hy; apply H; right; exact Hy). reflexivity.
Qed.

Lemma sf_pos_in_map_inj (f : nat -> nat) j l :
  (forall x, In x l -> f x = f j -> x = j) ->
  pos_in (f j) (map f l) = pos_in j l.
Proof. intros H. unfold pos_in. rewrite sf_find_pos_map_inj by exact H. reflexivity. Qed.

Lemma sf_pos_in_lt j l : In j l -> pos_in j l < length l /\ nth (pos_in j l) l 0 = j.
Proof.
  intros H. destruct (sf_find_pos_in j l H) as [p Hp]. unfold pos_in. rewrite Hp.
  apply sf_find_pos_some. exact Hp.
Qed.

Lemma sf_pos_in_nth l : NoDup l -> forall k, k < length l -> pos_in (nth k l 0) l = k.
Proof.
  intros ND k Hk. destruct (sf_pos_in_lt (nth k l 0) l (nth_In l 0 Hk)) as [H1 H2].
  rewrite (NoDup_nth l 0) in ND. apply ND; assumption.
Qed.

(* unique on a duplicate-free list *)
Lemma sf_unique_acc_id l : forall seen, NoDup l -> (forall x, In x l -> ~ In x seen) ->
  unique_acc seen l = l.
Proof.
  induction l as [|x l IH]; intros seen ND Hd; cbn [unique_acc]; [reflexivity|].
  inversion ND as [|? ? Hn ND']; subst.
  assert (E : memb x seen = false) by (apply memb_false, Hd; left; reflexivity).
  rewrite E. f_equal. apply IH; [exact ND'|].
  intros y Hy [<-|Hs]; [exact (Hn Hy)|]. apply (Hd y); [right; exact Hy|exact Hs].
Qed.

Lemma sf_unique_id l : NoDup l -> unique l = l.
Proof. intros ND. unfold unique. apply sf_unique_acc_id; [exact ND|]. intros x _ []. Qed.

Lemma sf_unique_acc_in x l : forall seen,
  In x (unique_acc seen l) <-> In x l /\ ~ In x seen.
Proof.
  induction l as [|y l IH]; intros seen; cbn [unique_acc].
  - cbn [In]. tauto.
  - destruct (memb y seen) eqn:E.
    + apply memb_In in E. rewrite IH. cbn [In]. split; [tauto|].
      intros [[->|H] Hn]; tauto.
    + apply memb_false in E. cbn [In]. rewrite IH. cbn [In].
      destruct (Nat.eq_dec y x) as [->|Hne]; tauto.
Qed.

Lemma sf_unique_acc_nodup l : forall seen, NoDup (unique_acc seen l).
Proof.
  induction l as [|y l IH]; intros seen; cbn [unique_acc]; [constructor|].
  destruct (memb y seen) eqn:E; [apply IH|].
  constructor; [|apply IH].
  rewrite sf_unique_acc_in. cbn [In]. tauto.
Qed.

Lemma sf_unique_in x l : In x (unique l) <-> In x l.
Proof. unfold unique. rewrite sf_unique_acc_in. cbn [In]. tauto. Qed.

Lemma sf_unique_nodup l : NoDup (unique l).
Proof. apply sf_unique_acc_nodup. Qed.

(* is_perm *)
Lemma sf_is_perm_elim p n : is_perm p n = true ->
  length p = n /\ NoDup p /\ (forall q, In q p <-> q < n).
Proof.
  unfold is_perm. intros H. apply andb_true_iff in H. destruct H as [HL HF].
  apply Nat.eqb_eq in HL. rewrite forallb_forall in HF.
  assert (Hi : incl (seq 0 n) p).
  { intros j Hj. apply memb_In, HF, Hj. }
  assert (ND : NoDup p).
  { apply (@NoDup_incl_NoDup _ (seq 0 n) p); [apply seq_NoDup|rewrite seq_length; lia|exact Hi]. }
  split; [exact HL|]. split; [exact ND|].
  intros q. split.
  - intros Hq.
    assert (Hi' : incl p (seq 0 n)).
    { apply NoDup_length_incl; [apply seq_NoDup|rewrite seq_length; lia|exact Hi]. }
    apply Hi', in_seq in Hq. lia.
  - intros Hq. apply Hi, in_seq. lia.
Qed.

Lemma sf_is_perm_intro p n : NoDup p -> Forall (fun k => k < n) p -> length p = n -> is_perm p n = true.
Proof.
  intros N HF HL. unfold is_perm. rewrite HL, Nat.eqb_refl. cbn [andb].
  apply forallb_forall. intros j Hj. apply memb_In.
  assert (Hi : incl (seq 0 n) p).
  { apply NoDup_length_incl; [exact N|rewrite seq_length; lia|].
    intros k Hk. rewrite Forall_forall in HF. apply in_seq. specialize (HF k Hk). lia. }
  apply Hi, Hj.
Qed.

Lemma sf_nodupb_NoDup l : nodupb l = true <-> NoDup l.
Proof.
  induction l as [|x l IH]; cbn [nodupb].
  - split; [constructor|reflexivity].
  - rewrite andb_true_iff, negb_true_iff, memb_false, IH. split.
    + intros [H1 H2]. constructor; assumption.
    + intros H. inversion H; subst. split; assumption.
Qed.

(* ================================================================== *)
(* 1. getter characterisations of the kernels                          *)

Definition sf_kept (r : nat) (axes : list nat) : list nat :=
  filter (fun j => negb (memb j axes)) (seq 0 r).

Lemma sum_axes_some t axes :
  nodupb axes = true -> Forall (fun a => a < length (tshape t)) axes ->
  sum_axes t axes =
  Some (tbuild (dims_at (tshape t) (sf_kept (length (tshape t)) axes))
               (fun oidx => zsum (map (fun sidx => tget t (assemble (length (tshape t)) (sf_kept (length (tshape t)) axes) oidx axes sidx))
                                      (all_idx (dims_at (tshape t) axes))))).
Proof.
  intros H1 H2. unfold sum_axes. rewrite H1. cbn [andb].
  assert (E : forallb (fun a => Nat.ltb a (length (tshape t))) axes = true).
  { apply forallb_forall. intros a Ha. apply Nat.ltb_lt. rewrite Forall_forall in H2. apply H2, Ha. }
  rewrite E. reflexivity.
Qed.

Lemma tget_sum_axes t axes t' :
  sum_axes t axes = Some t' ->
  tshape t' = dims_at (tshape t) (sf_kept (length (tshape t)) axes) /\
  wf_tensor t' = true /\
  forall oidx, valid_idx (tshape t') oidx ->
    tget t' oidx =
    zsum (map (fun sidx => tget t (assemble (length (tshape t)) (sf_kept (length (tshape t)) axes) oidx axes sidx))
              (all_idx (dims_at (tshape t) axes))).
Proof.
  intros H. unfold sum_axes in H.
  destruct (nodupb axes && forallb (fun a => Nat.ltb a (length (tshape t))) axes); [|discriminate H].
  inversion H; subst t'; clear H.
  split; [reflexivity|]. split; [apply tbuild_wf|].
  intros oidx Hv. unfold sf_kept. rewrite tget_tbuild by exact Hv. reflexivity.
Qed.

Lemma matmul2_some x y m k n :
  tshape x = [m; k] -> tshape y = [k; n] ->
  matmul x y = Some (tbuild [m; n] (fun idx =>
     zsum (map (fun l => (tget x [nth 0%nat idx 0%nat; l] * tget y [l; nth 1%nat idx 0%nat])%Z) (seq 0 k)))).
Proof.
  intros Hx Hy. unfold matmul. rewrite Hx, Hy. cbv beta iota. rewrite Nat.eqb_refl. reflexivity.
Qed.

Lemma tget_matmul2 x y m k n :
  tshape x = [m; k] -> tshape y = [k; n] ->
  exists t', matmul x y = Some t' /\ tshape t' = [m; n] /\ wf_tensor t' = true /\
    forall i j, i < m -> j < n ->
      tget t' [i; j] = zsum (map (fun l => (tget x [i; l] * tget y [l; j])%Z) (seq 0 k)).
Proof.
  intros Hx Hy. eexists. split; [apply (matmul2_some x y m k n Hx Hy)|].
  split; [reflexivity|]. split; [apply tbuild_wf|].
  intros i j Hi Hj. rewrite tget_tbuild; [reflexivity|].
  constructor; [exact Hi|]. constructor; [exact Hj|]. constructor.
Qed.

Lemma matmul3_some x y b m k n :
  tshape x = [b; m; k] -> tshape y = [b; k; n] ->
  matmul x y = Some (tbuild [b; m; n] (fun idx =>
     zsum (map (fun l => (tget x [nth 0%nat idx 0%nat; nth 1%nat idx 0%nat; l] * tget y [nth 0%nat idx 0%nat; l; nth 2%nat idx 0%nat])%Z) (seq 0 k)))).
Proof.
  intros Hx Hy. unfold matmul. rewrite Hx, Hy. cbv beta iota. rewrite !Nat.eqb_refl. reflexivity.
Qed.

Lemma tget_matmul3 x y b m k n :
  tshape x = [b; m; k] -> tshape y = [b; k; n] ->
  exists t', matmul x y = Some t' /\ tshape t' = [b; m; n] /\ wf_tensor t' = true /\
    forall c i j, c < b -> i < m -> j < n ->
      tget t' [c; i; j] = zsum (map (fun l => (tget x [c; i; l] * tget y [c; l; j])%Z) (seq 0 k)).
Proof.
  intros Hx Hy. eexists. split; [apply (matmul3_some x y b m k n Hx Hy)|].
  split; [reflexivity|]. split; [apply tbuild_wf|].
  intros c i j Hc Hi Hj. rewrite tget_tbuild; [reflexivity|].
  constructor; [exact Hc|]. constructor; [exact Hi|]. constructor; [exact Hj|]. constructor.
Qed.

Lemma tget_multiply x y t' :
  multiply x y = Some t' ->
  bcast_shape (tshape x) (tshape y) = Some (tshape t') /\ wf_tensor t' = true /\
  forall idx, valid_idx (tshape t') idx ->
    tget t' idx = (tget x (clip (tshape x) idx) * tget y (clip (tshape y) idx))%Z.
Proof.
  unfold multiply. destruct (bcast_shape (tshape x) (tshape y)) as [s|] eqn:E; [|discriminate].
  intros H. inversion H; subst t'; clear H.
  split; [reflexivity|]. split; [apply tbuild_wf|].
  intros idx Hv. rewrite tget_tbuild by exact Hv. reflexivity.
Qed.

Lemma adv_index_nil t sel t' :
  adv_index t sel = Some t' -> adv_positions sel = [] -> t' = t.
Proof.
  intros H Ha. unfold adv_index in H.
  destruct (negb (Nat.eqb (length sel) (length (tshape t)))); [discriminate H|].
  rewrite Ha in H. inversion H. reflexivity.
Qed.

Lemma tget_adv_index t sel t' a0 adv' :
  adv_index t sel = Some t' -> adv_positions sel = a0 :: adv' ->
  let adv := a0 :: adv' in
  let sl := slice_positions sel in
  let n := hd 0 (map (fun j => match nth j sel None with Some n => n | None => 0 end) adv) in
  let dpos := if eqb adv (seq a0 (length adv)) then a0 else 0 in
  length sel = length (tshape t) /\
  tshape t' = insert_at dpos n (dims_at (tshape t) sl) /\
  wf_tensor t' = true /\
  forall idx, valid_idx (tshape t') idx ->
    tget t' idx =
    tget t (map (fun j => if memb j adv then nth dpos idx 0
                          else nth (pos_in j sl) (remove_at dpos idx) 0)
                (seq 0 (length (tshape t)))).
Proof.
  intros H Ha adv sl n dpos. unfold adv_index in H.
  destruct (Nat.eqb (length sel) (length (tshape t))) eqn:EL; cbn [negb] in H; [|discriminate H].
  apply Nat.eqb_eq in EL.
  rewrite Ha in H.
  destruct (negb (forallb (Nat.eqb (hd 0 (map (fun j => match nth j sel None with Some n => n | None => 0 end) (a0 :: adv'))))
                          (map (fun j => match nth j sel None with Some n => n | None => 0 end) (a0 :: adv')))); [discriminate H|].
  destruct (negb (forallb (fun j => Nat.leb (hd 0 (map (fun j => match nth j sel None with Some n => n | None => 0 end) (a0 :: adv')))
                                          (nth j (tshape t) 0)) (a0 :: adv'))); [discriminate H|].
  inversion H; subst t'; clear H.
  split; [exact EL|]. split; [reflexivity|]. split; [apply tbuild_wf|].
  intros idx Hv. rewrite tget_tbuild by exact Hv. reflexivity.
Qed.

Lemma transpose_wf t p t' : transpose t p = Some t' -> wf_tensor t' = true.
Proof.
  unfold transpose. destruct (is_perm p (length (tshape t))); [|discriminate].
  intros H. inversion H. apply tbuild_wf.
Qed.

Lemma reshape_wf t s t' : reshape t s = Some t' -> wf_tensor t' = true /\ tshape t' = s.
Proof.
  unfold reshape. destruct (Nat.eqb (nprod s) (length (tdata t))) eqn:E; [|discriminate].
  intros H. inversion H; subst t'. apply Nat.eqb_eq in E.
  split; [|reflexivity]. unfold wf_tensor, tshape, tdata. cbn [fst snd].
  apply Nat.eqb_eq. symmetry. exact E.
Qed.

(* ================================================================== *)
(* 2. getter form of the reference einsum                              *)

Definition sf_inner (terms : list str) (out : str) : list nat :=
  filter (fun j => negb (memb j out)) (unique (concat terms)).

Lemma einsum_ref_shape terms out ops :
  tshape (einsum_ref terms out ops) = map (elook (label_sizes terms ops)) out.
Proof. reflexivity. Qed.

Lemma einsum_ref_wf terms out ops : wf_tensor (einsum_ref terms out ops) = true.
Proof. unfold einsum_ref. cbv zeta. apply tbuild_wf. Qed.

Lemma tget_einsum_ref terms out ops oidx :
  valid_idx (map (elook (label_sizes terms ops)) out) oidx ->
  tget (einsum_ref terms out ops) oidx =
  zsum (map (fun iidx =>
               zprodl (map (fun to => tget (snd to)
                                           (map (elook (combine out oidx ++ combine (sf_inner terms out) iidx)) (fst to)))
                           (combine terms ops)))
            (all_idx (map (elook (label_sizes terms ops)) (sf_inner terms out)))).
Proof.
  intros Hv. unfold einsum_ref, sf_inner. cbv zeta. rewrite tget_tbuild by exact Hv. reflexivity.
Qed.

(* ================================================================== *)
(* 3. environment lookups                                              *)

Lemma elook_app_l e1 e2 j : In j (map fst e1) -> elook (e1 ++ e2) j = elook e1 j.
Proof.
  induction e1 as [|[k v] e1 IH]; cbn [map In app elook fst]; [tauto|].
  intros H. destruct (Nat.eqb_spec k j) as [E|E]; [reflexivity|].
  apply IH. destruct H as [H|H]; [congruence|exact H].
Qed.

Lemma elook_app_r e1 e2 j : ~ In j (map fst e1) -> elook (e1 ++ e2) j = elook e2 j.
Proof.
  induction e1 as [|[k v] e1 IH]; cbn [map In app elook fst]; [reflexivity|].
  intros H. destruct (Nat.eqb_spec k j) as [E|E]; [tauto|].
  apply IH. tauto.
Qed.

Lemma sf_in_combine_fst (ks vs : list nat) j : In j (map fst (combine ks vs)) -> In j ks.
Proof.
  intros H. apply in_map_iff in H. destruct H as [[a b] [E H]]. cbn [fst] in E. subst a.
  apply in_combine_l in H. exact H.
Qed.

Lemma sf_map_fst_combine (ks vs : list nat) : length vs = length ks -> map fst (combine ks vs) = ks.
Proof.
  revert vs. induction ks as [|k ks IH]; intros [|v vs] H; cbn [length] in H; try lia; cbn [combine map fst]; [reflexivity|].
  f_equal. apply IH. lia.
Qed.

Lemma elook_combine_pos ks : forall vs j, In j ks -> length vs = length ks ->
  elook (combine ks vs) j = nth (pos_in j ks) vs 0.
Proof.
  unfold pos_in.
  induction ks as [|k ks IH]; intros vs j Hin HL; [destruct Hin|].
  destruct vs as [|v vs]; cbn [length] in HL; [lia|].
  cbn [combine elook find_pos].
  destruct (Nat.eqb_spec k j) as [E|E]; [reflexivity|].
  destruct Hin as [Hin|Hin]; [congruence|].
  rewrite IH by (try exact Hin; lia).
  destruct (sf_find_pos_in j ks Hin) as [p Hp]. rewrite Hp. reflexivity.
Qed.

Lemma elook_combine_nth ks vs k : NoDup ks -> k < length ks -> length vs = length ks ->
  elook (combine ks vs) (nth k ks 0) = nth k vs 0.
Proof.
  intros ND Hk HL. rewrite elook_combine_pos by (try apply nth_In; assumption).
  rewrite sf_pos_in_nth by assumption. reflexivity.
Qed.

(* ================================================================== *)
(* 4. matrix multiplication is the einsum                              *)

Ltac sf_eqb_step :=
  match goal with
  | |- context [Nat.eqb ?a ?a] => rewrite (Nat.eqb_refl a)
  | |- context [Nat.eqb ?a ?b] =>
      let H := fresh "Hneq" in
      assert (H : Nat.eqb a b = false) by (apply Nat.eqb_neq; congruence);
      rewrite H; clear H
  end.
Ltac sf_eqb :=
  repeat (cbn [unique_acc memb existsb filter orb andb negb map elook combine app fst snd concat nth];
          sf_eqb_step);
  cbn [unique_acc memb existsb filter orb andb negb map elook combine app fst snd concat nth].

Theorem matmul2_is_einsum x y m kk n i j k :
  i <> j -> i <> k -> j <> k ->
  tshape x = [m; kk] -> tshape y = [kk; n] ->
  matmul x y = Some (einsum_ref [[i; k]; [k; j]] [i; j] [x; y]).
Proof.
  intros Hij Hik Hjk Hx Hy.
  rewrite (matmul2_some x y m kk n Hx Hy). f_equal.
  assert (Hsz : label_sizes [[i; k]; [k; j]] [x; y] = [(i, m); (k, kk); (k, kk); (j, n)]).
  { unfold label_sizes. cbn [combine map fst snd concat]. rewrite Hx, Hy. reflexivity. }
  assert (Hin : sf_inner [[i; k]; [k; j]] [i; j] = [k]).
  { unfold sf_inner, unique. sf_eqb. reflexivity. }
  apply tensor_ext.
  - apply tbuild_wf.
  - apply einsum_ref_wf.
  - rewrite einsum_ref_shape, Hsz. unfold tbuild, tshape. cbn [fst]. sf_eqb. reflexivity.
  - intros idx Hv. change (valid_idx [m; n] idx) in Hv.
    destruct (sf_valid_idx_cons _ _ _ Hv) as (i0 & r1 & -> & Hi0 & Hv1).
    destruct (sf_valid_idx_cons _ _ _ Hv1) as (j0 & r2 & -> & Hj0 & Hv2).
    apply sf_valid_idx_nil in Hv2. subst r2.
    rewrite tget_tbuild by exact Hv.
    rewrite tget_einsum_ref by (rewrite Hsz; sf_eqb; exact Hv).
    rewrite Hin, Hsz. sf_eqb.
    rewrite sf_all_idx_one, map_map.
    f_equal. apply map_ext. intros l.
    sf_eqb. rewrite sf_zprodl_pair. reflexivity.
Qed.

Theorem matmul3_is_einsum x y bb m kk n b i j k :
  b <> i -> b <> j -> b <> k -> i <> j -> i <> k -> j <> k ->
  tshape x = [bb; m; kk] -> tshape y = [bb; kk; n] ->
  matmul x y = Some (einsum_ref [[b; i; k]; [b; k; j]] [b; i; j] [x; y]).
Proof.
  intros Hbi Hbj Hbk Hij Hik Hjk Hx Hy.
  rewrite (matmul3_some x y bb m kk n Hx Hy). f_equal.
  assert (Hsz : label_sizes [[b; i; k]; [b; k; j]] [x; y] =
                [(b, bb); (i, m); (k, kk); (b, bb); (k, kk); (j, n)]).
  { unfold label_sizes. cbn [combine map fst snd concat]. rewrite Hx, Hy. reflexivity. }
  assert (Hin : sf_inner [[b; i; k]; [b; k; j]] [b; i; j] = [k]).
  { unfold sf_inner, unique. sf_eqb. reflexivity. }
  apply tensor_ext.
  - apply tbuild_wf.
  - apply einsum_ref_wf.
  - rewrite einsum_ref_shape, Hsz. unfold tbuild, tshape. cbn [fst]. sf_eqb. reflexivity.
  - intros idx Hv. change (valid_idx [bb; m; n] idx) in Hv.
    destruct (sf_valid_idx_cons _ _ _ Hv) as (c0 & r0 & -> & Hc0 & Hv0).
    destruct (sf_valid_idx_cons _ _ _ Hv0) as (i0 & r1 & -> & Hi0 & Hv1).
    destruct (sf_valid_idx_cons _ _ _ Hv1) as (j0 & r2 & -> & Hj0 & Hv2).
    apply sf_valid_idx_nil in Hv2. subst r2.
    rewrite tget_tbuild by exact Hv.
    rewrite tget_einsum_ref by (rewrite Hsz; sf_eqb; exact Hv).
    rewrite Hin, Hsz. sf_eqb.
    rewrite sf_all_idx_one, map_map.
    f_equal. apply map_ext. intros l.
    sf_eqb. rewrite sf_zprodl_pair. reflexivity.
Qed.

(* ================================================================== *)
(* 5. a pure transposition is the einsum                               *)

Lemma sf_label_sizes_single lhs t : label_sizes [lhs] [t] = combine lhs (tshape t).
Proof. unfold label_sizes. cbn [combine map fst snd concat]. apply app_nil_r. Qed.

Lemma sf_dims_at_elook lhs s ps :
  NoDup lhs -> length lhs = length s -> Forall (fun q => q < length lhs) ps ->
  map (elook (combine lhs s)) (map (fun q => nth q lhs 0) ps) = dims_at s ps.
Proof.
  intros ND HL HF. unfold dims_at. rewrite map_map. apply map_ext_in. intros q Hq.
  rewrite Forall_forall in HF.
  apply elook_combine_nth; [exact ND|apply HF, Hq|symmetry; exact HL].
Qed.

Theorem transpose_is_einsum t lhs p :
  NoDup lhs -> length lhs = length (tshape t) -> is_perm p (length lhs) = true ->
  transpose t p = Some (einsum_ref [lhs] (map (fun q => nth q lhs 0) p) [t]).
Proof.
  intros ND HL Hp.
  destruct (sf_is_perm_elim _ _ Hp) as (HLp & NDp & Hpin).
  unfold transpose. rewrite <- HL, Hp. f_equal.
  set (out := map (fun q => nth q lhs 0) p).
  assert (HF : Forall (fun q => q < length lhs) p).
  { apply Forall_forall. intros q Hq. apply Hpin, Hq. }
  assert (Hin : sf_inner [lhs] out = []).
  { unfold sf_inner. apply sf_filter_nil. intros x Hx. apply (proj1 (sf_unique_in _ _)) in Hx.
    cbn [concat] in Hx. rewrite app_nil_r in Hx.
    apply negb_false_iff, memb_In. destruct (In_nth lhs x 0 Hx) as (q & Hq & <-).
    unfold out. apply in_map_iff. exists q. split; [reflexivity|]. apply Hpin, Hq. }
  assert (Hsh : map (elook (label_sizes [lhs] [t])) out = dims_at (tshape t) p).
  { rewrite sf_label_sizes_single. unfold out. apply sf_dims_at_elook; assumption. }
  apply tensor_ext.
  - apply tbuild_wf.
  - apply einsum_ref_wf.
  - rewrite einsum_ref_shape, Hsh. reflexivity.
  - intros idx Hv. change (valid_idx (dims_at (tshape t) p) idx) in Hv.
    rewrite tget_tbuild by exact Hv.
    rewrite tget_einsum_ref by (rewrite Hsh; exact Hv).
    rewrite Hin. cbn [map]. rewrite sf_all_idx_nil. cbn [map combine].
    rewrite sf_zsum_single, sf_zprodl_single. cbn [fst snd]. rewrite app_nil_r.
    f_equal.
    apply (nth_ext _ _ 0 0).
    + rewrite !map_length, seq_length. reflexivity.
    + intros k Hk. rewrite map_length, seq_length in Hk.
      rewrite (nth_map_lt _ (seq 0 (length lhs)) k 0 0) by (rewrite seq_length; exact Hk).
      rewrite seq_nth by exact Hk. cbn [Nat.add].
      rewrite (nth_map_lt (elook (combine out idx)) lhs k 0 0) by exact Hk.
      rewrite elook_combine_pos.
      * unfold out. rewrite (sf_pos_in_map_inj (fun q => nth q lhs 0) k p); [reflexivity|].
        intros q Hq E. rewrite (NoDup_nth lhs 0) in ND.
        apply ND; [apply Hpin, Hq|exact Hk|exact E].
      * unfold out. apply in_map_iff. exists k. split; [reflexivity|apply Hpin, Hk].
      * rewrite (sf_valid_idx_length _ _ Hv). unfold out, dims_at. rewrite !map_length. reflexivity.
Qed.

(* ================================================================== *)
(* 6. summing axes is the einsum                                       *)

Lemma sf_sorted_nodup l : StronglySorted lt l -> NoDup l.
Proof.
  induction 1 as [|a l HS IH HF]; constructor; [|exact IH].
  intros Hin. rewrite Forall_forall in HF. specialize (HF a Hin). lia.
Qed.

Lemma sf_sorted_ext l1 : forall l2, StronglySorted lt l1 -> StronglySorted lt l2 ->
  (forall x, In x l1 <-> In x l2) -> l1 = l2.
Proof.
  induction l1 as [|a l1 IH]; intros [|b l2] S1 S2 H.
  - reflexivity.
  - exfalso. apply (proj2 (H b)). left; reflexivity.
  - exfalso. apply (proj1 (H a)). left; reflexivity.
  - inversion S1 as [|? ? S1' F1]; subst. inversion S2 as [|? ? S2' F2]; subst.
    rewrite Forall_forall in F1. rewrite Forall_forall in F2.
    assert (Eab : a = b).
    { destruct (proj1 (H a) (or_introl eq_refl)) as [E|E]; [congruence|].
      destruct (proj2 (H b) (or_introl eq_refl)) as [E'|E']; [congruence|].
      specialize (F1 b E'). specialize (F2 a E). lia. }
    subst b. f_equal. apply IH; try assumption.
    intros x. split; intros Hx.
    + destruct (proj1 (H x) (or_intror Hx)) as [E|E]; [|exact E].
      subst x. specialize (F1 a Hx). lia.
    + destruct (proj2 (H x) (or_intror Hx)) as [E|E]; [|exact E].
      subst x. specialize (F2 a Hx). lia.
Qed.

Lemma sf_seq_sorted n : forall a, StronglySorted lt (seq a n).
Proof.
  induction n as [|n IH]; intros a; cbn [seq]; constructor; [apply IH|].
  apply Forall_forall. intros x Hx. apply in_seq in Hx. lia.
Qed.

Lemma sf_filter_sorted (f : nat -> bool) l : StronglySorted lt l -> StronglySorted lt (filter f l).
Proof.
  induction 1 as [|a l HS IH HF]; cbn [filter]; [constructor|].
  destruct (f a); [|exact IH]. constructor; [exact IH|].
  rewrite Forall_forall in HF. apply Forall_forall. intros x Hx. apply filter_In in Hx. apply HF, Hx.
Qed.

Lemma sf_kept_in r axes k : In k (sf_kept r axes) <-> k < r /\ ~ In k axes.
Proof.
  unfold sf_kept. rewrite filter_In, in_seq, negb_true_iff, memb_false.
  split; intros [H1 H2]; (split; [lia|exact H2]).
Qed.

Lemma sf_kept_lt r axes : Forall (fun q => q < r) (sf_kept r axes).
Proof. apply Forall_forall. intros q Hq. apply sf_kept_in in Hq. tauto. Qed.

Lemma sf_summed_sorted r axes : StronglySorted lt axes -> Forall (fun a => a < r) axes ->
  filter (fun j => negb (memb j (sf_kept r axes))) (seq 0 r) = axes.
Proof.
  intros S HF. apply sf_sorted_ext; [apply sf_filter_sorted, sf_seq_sorted|exact S|].
  intros x. rewrite filter_In, in_seq, negb_true_iff, memb_false, sf_kept_in.
  rewrite Forall_forall in HF. split.
  - intros [H1 H2]. destruct (in_dec Nat.eq_dec x axes) as [Hi|Hn]; [exact Hi|].
    exfalso. apply H2. split; [lia|exact Hn].
  - intros Hx. specialize (HF x Hx). split; [lia|]. intros [_ Hn]. exact (Hn Hx).
Qed.

Lemma sf_map_nth_seq (l : list nat) : map (fun q => nth q l 0) (seq 0 (length l)) = l.
Proof.
  apply (nth_ext _ _ 0 0).
  - rewrite map_length, seq_length. reflexivity.
  - intros k Hk. rewrite map_length, seq_length in Hk.
    rewrite (nth_map_lt _ (seq 0 (length l)) k 0 0) by (rewrite seq_length; exact Hk).
    rewrite seq_nth by exact Hk. reflexivity.
Qed.

Lemma sf_filter_map {A B} (f : B -> bool) (g : A -> B) (l : list A) :
  filter f (map g l) = map g (filter (fun a => f (g a)) l).
Proof.
  induction l as [|a l IH]; cbn [map filter]; [reflexivity|].
  destruct (f (g a)); cbn [map]; rewrite IH; reflexivity.
Qed.

Lemma sf_filter_labels lhs (f g : nat -> bool) :
  (forall q, q < length lhs -> f (nth q lhs 0) = g q) ->
  filter f lhs = map (fun q => nth q lhs 0) (filter g (seq 0 (length lhs))).
Proof.
  intros H.
  transitivity (filter f (map (fun q => nth q lhs 0) (seq 0 (length lhs)))).
  - f_equal. symmetry. apply sf_map_nth_seq.
  - rewrite sf_filter_map. f_equal. apply filter_ext_in. intros q Hq. apply in_seq in Hq.
    apply H. lia.
Qed.

Lemma sf_in_map_nth lhs ps k :
  NoDup lhs -> k < length lhs -> Forall (fun q => q < length lhs) ps ->
  (In (nth k lhs 0) (map (fun q => nth q lhs 0) ps) <-> In k ps).
Proof.
  intros ND Hk HF. rewrite Forall_forall in HF. rewrite in_map_iff. split.
  - intros (q & E & Hq). rewrite (NoDup_nth lhs 0) in ND.
    assert (q = k) by (apply ND; [apply HF, Hq|exact Hk|exact E]). subst q. exact Hq.
  - intros Hin. exists k. split; [reflexivity|exact Hin].
Qed.

Lemma sf_memb_map_nth lhs ps k :
  NoDup lhs -> k < length lhs -> Forall (fun q => q < length lhs) ps ->
  memb (nth k lhs 0) (map (fun q => nth q lhs 0) ps) = memb k ps.
Proof.
  intros ND Hk HF. apply Bool.eq_iff_eq_true. rewrite !memb_In. apply sf_in_map_nth; assumption.
Qed.

Lemma sf_pos_in_map_nth lhs ps k :
  NoDup lhs -> k < length lhs -> Forall (fun q => q < length lhs) ps ->
  pos_in (nth k lhs 0) (map (fun q => nth q lhs 0) ps) = pos_in k ps.
Proof.
  intros ND Hk HF. apply (sf_pos_in_map_inj (fun q => nth q lhs 0) k ps).
  intros q Hq E. rewrite Forall_forall in HF. rewrite (NoDup_nth lhs 0) in ND.
  apply ND; [apply HF, Hq|exact Hk|exact E].
Qed.

Theorem sum_axes_is_einsum t lhs axes :
  NoDup lhs -> length lhs = length (tshape t) ->
  StronglySorted lt axes -> Forall (fun a => a < length lhs) axes ->
  sum_axes t axes =
  Some (einsum_ref [lhs] (map (fun q => nth q lhs 0) (sf_kept (length lhs) axes)) [t]).
Proof.
  intros ND HL HS HF.
  rewrite sum_axes_some; [|apply sf_nodupb_NoDup, sf_sorted_nodup, HS|rewrite <- HL; exact HF].
  rewrite <- HL. f_equal.
  set (r := length lhs) in *.
  set (kept := sf_kept r axes).
  set (out := map (fun q => nth q lhs 0) kept).
  assert (HFk : Forall (fun q => q < r) kept) by apply sf_kept_lt.
  assert (Hin : sf_inner [lhs] out = map (fun q => nth q lhs 0) axes).
  { unfold sf_inner. cbn [concat]. rewrite app_nil_r, sf_unique_id by exact ND.
    rewrite (sf_filter_labels lhs _ (fun q => negb (memb q kept))).
    - fold r. unfold kept. rewrite sf_summed_sorted by assumption. reflexivity.
    - intros q Hq. f_equal. unfold out. apply sf_memb_map_nth; assumption. }
  assert (Hsh : map (elook (label_sizes [lhs] [t])) out = dims_at (tshape t) kept).
  { rewrite sf_label_sizes_single. unfold out. apply sf_dims_at_elook; assumption. }
  assert (Hsh2 : map (elook (label_sizes [lhs] [t])) (map (fun q => nth q lhs 0) axes) = dims_at (tshape t) axes).
  { rewrite sf_label_sizes_single. apply sf_dims_at_elook; assumption. }
  apply tensor_ext.
  - apply tbuild_wf.
  - apply einsum_ref_wf.
  - rewrite einsum_ref_shape, Hsh. reflexivity.
  - intros oidx Hv. change (valid_idx (dims_at (tshape t) kept) oidx) in Hv.
    rewrite tget_tbuild by exact Hv.
    rewrite tget_einsum_ref by (rewrite Hsh; exact Hv).
    rewrite Hin, Hsh2. f_equal. apply map_ext_in. intros sidx Hs. apply in_all_idx in Hs.
    cbn [map combine]. rewrite sf_zprodl_single. cbn [fst snd].
    f_equal.
    assert (HLo : length oidx = length out).
    { rewrite (sf_valid_idx_length _ _ Hv). unfold out, dims_at. rewrite !map_length. reflexivity. }
    assert (HLs : length sidx = length (map (fun q => nth q lhs 0) axes)).
    { rewrite (sf_valid_idx_length _ _ Hs). unfold dims_at. rewrite !map_length. reflexivity. }
    unfold assemble.
    apply (nth_ext _ _ 0 0).
    + rewrite !map_length, seq_length. reflexivity.
    + intros k Hk. rewrite map_length, seq_length in Hk.
      rewrite (nth_map_lt _ (seq 0 r) k 0 0) by (rewrite seq_length; exact Hk).
      rewrite seq_nth by exact Hk. cbn [Nat.add].
      rewrite (nth_map_lt (elook _) lhs k 0 0) by exact Hk.
      destruct (in_dec Nat.eq_dec k kept) as [Hik|Hnk].
      * destruct (sf_find_pos_in k kept Hik) as [p Hp]. rewrite Hp.
        rewrite elook_app_l.
        2:{ rewrite sf_map_fst_combine by exact HLo. unfold out. apply sf_in_map_nth; assumption. }
        rewrite elook_combine_pos;
          [|unfold out; apply sf_in_map_nth; assumption|exact HLo].
        unfold out. rewrite sf_pos_in_map_nth by assumption.
        unfold pos_in. rewrite Hp. reflexivity.
      * rewrite (sf_find_pos_notin k kept Hnk).
        assert (Hia : In k axes).
        { destruct (in_dec Nat.eq_dec k axes) as [Hi|Hn]; [exact Hi|].
          exfalso. apply Hnk. apply sf_kept_in. split; assumption. }
        destruct (sf_find_pos_in k axes Hia) as [p Hp]. rewrite Hp.
        rewrite elook_app_r.
        2:{ intros Hc. apply sf_in_combine_fst in Hc. unfold out in Hc.
            apply sf_in_map_nth in Hc; try assumption. exact (Hnk Hc). }
        rewrite elook_combine_pos;
          [|apply sf_in_map_nth; assumption|exact HLs].
        rewrite sf_pos_in_map_nth by assumption.
        unfold pos_in. rewrite Hp. reflexivity.
Qed.

(* boolean form of the sortedness condition *)
Fixpoint sf_incrb (l : list nat) : bool :=
  match l with
  | a :: ((b :: _) as r) => Nat.ltb a b && sf_incrb r
  | _ => true
  end.

Lemma sf_incrb_Sorted l : sf_incrb l = true -> Sorted lt l.
Proof.
  induction l as [|a l IH]; intros H; [constructor|].
  destruct l as [|b l]; [constructor; constructor|].
  cbn [sf_incrb] in H. apply andb_true_iff in H. destruct H as [H1 H2]. apply Nat.ltb_lt in H1.
  constructor; [apply IH, H2|constructor; exact H1].
Qed.

Lemma sf_incrb_sorted l : sf_incrb l = true -> StronglySorted lt l.
Proof.
  intros H. apply Sorted_StronglySorted; [intros x y z; apply Nat.lt_trans|apply sf_incrb_Sorted, H].
Qed.

Corollary sum_axes_is_einsum_b t lhs axes :
  NoDup lhs -> length lhs = length (tshape t) ->
  sf_incrb axes = true -> forallb (fun a => Nat.ltb a (length lhs)) axes = true ->
  sum_axes t axes =
  Some (einsum_ref [lhs] (map (fun q => nth q lhs 0) (sf_kept (length lhs) axes)) [t]).
Proof.
  intros ND HL HS HF. apply sum_axes_is_einsum; [exact ND|exact HL|apply sf_incrb_sorted, HS|].
  apply Forall_forall. intros a Ha. rewrite forallb_forall in HF. apply Nat.ltb_lt, HF, Ha.
Qed.

(* ================================================================== *)
(* PART 4: bounded exhaustive sweeps *)


(* ================================================================== *)
(* BOUNDED, EXHAUSTIVE sweeps (vm_compute + forallb_forall)            *)

(* all strings over `syms` of length <= r *)
Fixpoint terms_upto (syms : list nat) (r : nat) : list str :=
  match r with
  | 0 => [[]]
  | S r' => [] :: flat_map (fun t => map (fun c => c :: t) syms) (terms_upto syms r')
  end.
(* all lists over `vals` of length exactly n *)
Fixpoint lists_exact (vals : list nat) (n : nat) : list (list nat) :=
  match n with
  | 0 => [[]]
  | S n' => flat_map (fun t => map (fun c => c :: t) vals) (lists_exact vals n')
  end.
(* all duplicate-free outputs made of labels that occur in `present` *)
Definition outs_for (syms : list nat) (present : str) : list str :=
  filter (fun o => nodupb o && forallb (fun c => memb c present) o) (terms_upto syms (length syms)).

Lemma terms_upto_complete syms r t :
  length t <= r -> Forall (fun c => In c syms) t -> In t (terms_upto syms r).
Proof.
  revert t. induction r as [|r IH]; intros t Hlen Hall.
  - destruct t; [left; reflexivity | cbn in Hlen; lia].
  - destruct t as [|c t]; [left; reflexivity|].
    right. apply in_flat_map. exists t. split.
    + apply IH; [cbn in Hlen; lia | inversion Hall; assumption].
    + apply in_map_iff. exists c. split; [reflexivity | inversion Hall; assumption].
Qed.

Lemma lists_exact_complete vals n t :
  length t = n -> Forall (fun c => In c vals) t -> In t (lists_exact vals n).
Proof.
  revert t. induction n as [|n IH]; intros t Hlen Hall.
  - destruct t; [left; reflexivity | discriminate].
  - destruct t as [|c t]; [discriminate|].
    cbn [lists_exact]. apply in_flat_map. exists t. split.
    + apply IH; [cbn in Hlen; lia | inversion Hall; assumption].
    + apply in_map_iff. exists c. split; [reflexivity | inversion Hall; assumption].
Qed.

Lemma nodupb_true l : NoDup l -> nodupb l = true.
Proof.
  induction 1 as [|x l Hx Hnd IH]; [reflexivity|].
  cbn [nodupb]. rewrite IH, andb_true_r. apply negb_true_iff. apply memb_false. exact Hx.
Qed.

Lemma NoDup_incl_length_le (l syms : list nat) : NoDup l -> incl l syms -> length l <= length syms.
Proof. intros Hnd Hincl. apply NoDup_incl_length; assumption. Qed.

Lemma outs_for_complete syms present o :
  NoDup o -> incl o present -> incl o syms -> In o (outs_for syms present).
Proof.
  intros Hnd Hp Hs. unfold outs_for. apply filter_In. split.
  - apply terms_upto_complete.
    + apply NoDup_incl_length_le; assumption.
    + apply Forall_forall. intros c Hc. apply Hs, Hc.
  - rewrite nodupb_true by assumption. cbn [andb]. apply forallb_forall.
    intros c Hc. apply memb_In. apply Hp, Hc.
Qed.

(* the probe entries: a_i = 256^i, b_j = 256^(|a| * j).  If both sides of an equation are
   bilinear forms  sum_ij c_ij a_i b_j  with natural coefficients c_ij < 256, equality at the
   probe determines every c_ij (base-256 digits). *)
Definition PB : Z := 256%Z.
Definition probe_a (sa : list nat) : tensor :=
  (sa, map (fun i => Z.pow PB (Z.of_nat i)) (seq 0 (nprod sa))).
Definition probe_b (sa sb : list nat) : tensor :=
  (sb, map (fun j => Z.pow PB (Z.of_nat (nprod sa * j))) (seq 0 (nprod sb))).
(* the shape of a term under a size assignment szs (k-th entry = size of the k-th symbol) *)
Definition shape_of (syms szs : list nat) (t : str) : list nat :=
  map (fun c => nth (pos_in c syms) szs 0) t.
Definition eq2 (ta tb out : str) : str := ta ++ [COMMA] ++ tb ++ [ARROW] ++ out.
Definition eq1 (ta out : str) : str := ta ++ [ARROW] ++ out.

Definition check2 (syms : list nat) (ta tb out : str) (szs : list nat) : bool :=
  let a := probe_a (shape_of syms szs ta) in
  let b := probe_b (shape_of syms szs ta) (shape_of syms szs tb) in
  eqb (einsum2 (eq2 ta tb out) a b) (Some (einsum_ref [ta; tb] out [a; b])).

Definition sweep2 (syms : list nat) (r : nat) (vals : list nat) : bool :=
  forallb (fun ta => forallb (fun tb => forallb (fun out => forallb (fun szs => check2 syms ta tb out szs)
     (lists_exact vals (length syms))) (outs_for syms (ta ++ tb))) (terms_upto syms r)) (terms_upto syms r).

Definition check1 (syms : list nat) (ta out : str) (szs : list nat) : bool :=
  let a := probe_a (shape_of syms szs ta) in
  eqb (einsum_single (eq1 ta out) a) (Some (einsum_ref [ta] out [a])).
Definition sweep1 (syms : list nat) (r : nat) (vals : list nat) : bool :=
  forallb (fun ta => forallb (fun out => forallb (fun szs => check1 syms ta out szs)
     (lists_exact vals (length syms))) (outs_for syms ta)) (terms_upto syms r).

(* decidable equality of option tensor reflected *)
Lemma list_eqb_eq {A} (e : A -> A -> bool) (He : forall x y, e x y = true -> x = y) :
  forall l1 l2, list_eqb e l1 l2 = true -> l1 = l2.
Proof.
  induction l1 as [|x l1 IH]; intros [|y l2] H; cbn in H; try discriminate; [reflexivity|].
  apply andb_true_iff in H. destruct H as [H1 H2]. f_equal; [apply He, H1 | apply IH, H2].
Qed.
Lemma tensor_eqb_eq (t1 t2 : tensor) : eqb t1 t2 = true -> t1 = t2.
Proof.
  destruct t1 as [s1 d1], t2 as [s2 d2]. unfold eqb, Eqb_prod. cbn [fst snd]. intros H.
  apply andb_true_iff in H. destruct H as [H1 H2]. f_equal.
  - apply (list_eqb_eq Nat.eqb); [intros x y; apply Nat.eqb_eq | exact H1].
  - apply (list_eqb_eq Z.eqb); [intros x y; apply Z.eqb_eq | exact H2].
Qed.
Lemma otensor_eqb_eq (o1 o2 : option tensor) : eqb o1 o2 = true -> o1 = o2.
Proof.
  destruct o1 as [t1|], o2 as [t2|]; cbn; intros H; try discriminate; [|reflexivity].
  f_equal. apply tensor_eqb_eq, H.
Qed.

Lemma sweep2_sound syms r vals :
  sweep2 syms r vals = true ->
  forall ta tb out szs,
    length ta <= r -> length tb <= r ->
    Forall (fun c => In c syms) ta -> Forall (fun c => In c syms) tb ->
    NoDup out -> incl out (ta ++ tb) ->
    length szs = length syms -> Forall (fun d => In d vals) szs ->
    let a := probe_a (shape_of syms szs ta) in
    let b := probe_b (shape_of syms szs ta) (shape_of syms szs tb) in
    einsum2 (eq2 ta tb out) a b = Some (einsum_ref [ta; tb] out [a; b]).
Proof.
  intros Hs ta tb out szs La Lb Fa Fb Hnd Hincl Lz Fz a b.
  unfold sweep2 in Hs. rewrite forallb_forall in Hs.
  specialize (Hs ta (terms_upto_complete syms r ta La Fa)). rewrite forallb_forall in Hs.
  specialize (Hs tb (terms_upto_complete syms r tb Lb Fb)). rewrite forallb_forall in Hs.
  assert (Ho : In out (outs_for syms (ta ++ tb))).
  { apply outs_for_complete; [assumption | assumption |].
    intros c Hc. apply Hincl in Hc. apply in_app_or in Hc.
    rewrite Forall_forall in Fa, Fb. destruct Hc as [Hc|Hc]; [apply Fa, Hc | apply Fb, Hc]. }
  specialize (Hs out Ho). rewrite forallb_forall in Hs.
  specialize (Hs szs (lists_exact_complete vals (length syms) szs Lz Fz)).
  apply otensor_eqb_eq. exact Hs.
Qed.

Lemma sweep1_sound syms r vals :
  sweep1 syms r vals = true ->
  forall ta out szs,
    length ta <= r -> Forall (fun c => In c syms) ta ->
    NoDup out -> incl out ta ->
    length szs = length syms -> Forall (fun d => In d vals) szs ->
    let a := probe_a (shape_of syms szs ta) in
    einsum_single (eq1 ta out) a = Some (einsum_ref [ta] out [a]).
Proof.
  intros Hs ta out szs La Fa Hnd Hincl Lz Fz a.
  unfold sweep1 in Hs. rewrite forallb_forall in Hs.
  specialize (Hs ta (terms_upto_complete syms r ta La Fa)). rewrite forallb_forall in Hs.
  assert (Ho : In out (outs_for syms ta)).
  { apply outs_for_complete; [assumption | assumption |].
    intros c Hc. apply Hincl in Hc. rewrite Forall_forall in Fa. apply Fa, Hc. }
  specialize (Hs out Ho). rewrite forallb_forall in Hs.
  specialize (Hs szs (lists_exact_complete vals (length syms) szs Lz Fz)).
  apply otensor_eqb_eq. exact Hs.
Qed.

Lemma sweep2_box_3_3 : sweep2 [4;5;6] 3 [1;2] = true.
Proof. vm_compute. reflexivity. Qed.
Lemma sweep2_box_3_2 : sweep2 [4;5;6] 2 [1;2;3] = true.
Proof. vm_compute. reflexivity. Qed.
Lemma sweep1_box_3_4 : sweep1 [4;5;6] 4 [1;2;3] = true.
Proof. vm_compute. reflexivity. Qed.

Theorem einsum2_bounded_3_3 : forall ta tb out szs,
    length ta <= 3 -> length tb <= 3 ->
    Forall (fun c => In c [4;5;6]) ta -> Forall (fun c => In c [4;5;6]) tb ->
    NoDup out -> incl out (ta ++ tb) ->
    length szs = 3 -> Forall (fun d => In d [1;2]) szs ->
    let a := probe_a (shape_of [4;5;6] szs ta) in
    let b := probe_b (shape_of [4;5;6] szs ta) (shape_of [4;5;6] szs tb) in
    einsum2 (eq2 ta tb out) a b = Some (einsum_ref [ta; tb] out [a; b]).
Proof. exact (sweep2_sound [4;5;6] 3 [1;2] sweep2_box_3_3). Qed.

Theorem einsum2_bounded_3_2 : forall ta tb out szs,
    length ta <= 2 -> length tb <= 2 ->
    Forall (fun c => In c [4;5;6]) ta -> Forall (fun c => In c [4;5;6]) tb ->
    NoDup out -> incl out (ta ++ tb) ->
    length szs = 3 -> Forall (fun d => In d [1;2;3]) szs ->
    let a := probe_a (shape_of [4;5;6] szs ta) in
    let b := probe_b (shape_of [4;5;6] szs ta) (shape_of [4;5;6] szs tb) in
    einsum2 (eq2 ta tb out) a b = Some (einsum_ref [ta; tb] out [a; b]).
Proof. exact (sweep2_sound [4;5;6] 2 [1;2;3] sweep2_box_3_2). Qed.

Theorem einsum1_bounded_3_4 : forall ta out szs,
    length ta <= 4 -> Forall (fun c => In c [4;5;6]) ta ->
    NoDup out -> incl out ta ->
    length szs = 3 -> Forall (fun d => In d [1;2;3]) szs ->
    let a := probe_a (shape_of [4;5;6] szs ta) in
    einsum_single (eq1 ta out) a = Some (einsum_ref [ta] out [a]).
Proof. exact (sweep1_sound [4;5;6] 4 [1;2;3] sweep1_box_3_4). Qed.


(* tensordot: every pair of duplicate-free, in-range, equally long axis lists *)
Definition zs (l : list nat) : list Z := map Z.of_nat l.
Definition check_td (sa sb xa xb : list nat) : bool :=
  let a := probe_a sa in
  let b := probe_b sa sb in
  if Nat.eqb (length xa) (length xb) && eqb (dims_at sa xa) (dims_at sb xb) then
    eqb (tensordot (AxPair (zs xa) (zs xb)) a b) (Some (tensordot_ref xa xb a b))
  else true.
Definition axes_for (r : nat) : list (list nat) := outs_for (seq 0 r) (seq 0 r).
Definition sweep_td (r : nat) (vals : list nat) : bool :=
  forallb (fun sa => forallb (fun sb => forallb (fun xa => forallb (fun xb => check_td sa sb xa xb)
     (axes_for (length sb))) (axes_for (length sa))) (terms_upto vals r)) (terms_upto vals r).

Definition check_td_int (sa sb : list nat) (n : nat) : bool :=
  let a := probe_a sa in
  let b := probe_b sa sb in
  let xa := seq (length sa - n) n in
  let xb := seq 0 n in
  if Nat.leb n (length sa) && Nat.leb n (length sb) && eqb (dims_at sa xa) (dims_at sb xb) then
    eqb (tensordot (AxInt n) a b) (Some (tensordot_ref xa xb a b))
  else true.
Definition sweep_td_int (r : nat) (vals : list nat) : bool :=
  forallb (fun sa => forallb (fun sb => forallb (fun n => check_td_int sa sb n) (seq 0 (S r)))
     (terms_upto vals r)) (terms_upto vals r).

Lemma axes_for_complete r x : NoDup x -> Forall (fun j => j < r) x -> In x (axes_for r).
Proof.
  intros Hnd Hall. unfold axes_for.
  assert (Hincl : incl x (seq 0 r)).
  { intros j Hj. rewrite Forall_forall in Hall. apply in_seq. specialize (Hall j Hj). lia. }
  apply outs_for_complete; assumption.
Qed.

Lemma sweep_td_sound r vals :
  sweep_td r vals = true ->
  forall sa sb xa xb,
    length sa <= r -> length sb <= r ->
    Forall (fun d => In d vals) sa -> Forall (fun d => In d vals) sb ->
    NoDup xa -> NoDup xb -> Forall (fun j => j < length sa) xa -> Forall (fun j => j < length sb) xb ->
    length xa = length xb -> dims_at sa xa = dims_at sb xb ->
    let a := probe_a sa in let b := probe_b sa sb in
    tensordot (AxPair (zs xa) (zs xb)) a b = Some (tensordot_ref xa xb a b).
Proof.
  intros Hs sa sb xa xb La Lb Fa Fb Na Nb Ra Rb Hlen Hd a b.
  unfold sweep_td in Hs. rewrite forallb_forall in Hs.
  specialize (Hs sa (terms_upto_complete vals r sa La Fa)). rewrite forallb_forall in Hs.
  specialize (Hs sb (terms_upto_complete vals r sb Lb Fb)). rewrite forallb_forall in Hs.
  specialize (Hs xa (axes_for_complete _ xa Na Ra)). rewrite forallb_forall in Hs.
  specialize (Hs xb (axes_for_complete _ xb Nb Rb)).
  unfold check_td in Hs. rewrite Hlen, Nat.eqb_refl, Hd in Hs.
  assert (E : eqb (dims_at sb xb) (dims_at sb xb) = true).
  { generalize (dims_at sb xb). intros l. induction l as [|x l IH]; [reflexivity|].
    unfold eqb, Eqb_list in *. cbn [list_eqb]. rewrite IH, andb_true_r. apply Nat.eqb_refl. }
  rewrite E in Hs. cbn [andb] in Hs. apply otensor_eqb_eq. exact Hs.
Qed.

Lemma sweep_td_box : sweep_td 3 [1;2] = true.
Proof. vm_compute. reflexivity. Qed.
Lemma sweep_td_int_box : sweep_td_int 3 [1;2] = true.
Proof. vm_compute. reflexivity. Qed.

Theorem tensordot_bounded_3 : forall sa sb xa xb,
    length sa <= 3 -> length sb <= 3 ->
    Forall (fun d => In d [1;2]) sa -> Forall (fun d => In d [1;2]) sb ->
    NoDup xa -> NoDup xb -> Forall (fun j => j < length sa) xa -> Forall (fun j => j < length sb) xb ->
    length xa = length xb -> dims_at sa xa = dims_at sb xb ->
    let a := probe_a sa in let b := probe_b sa sb in
    tensordot (AxPair (zs xa) (zs xb)) a b = Some (tensordot_ref xa xb a b).
Proof. exact (sweep_td_sound 3 [1;2] sweep_td_box). Qed.

Theorem tensordot_int_bounded_3 : forall sa sb n,
    In sa (terms_upto [1;2] 3) -> In sb (terms_upto [1;2] 3) -> n <= 3 ->
    check_td_int sa sb n = true.
Proof.
  intros sa sb n Ha Hb Hn. pose proof sweep_td_int_box as Hs.
  unfold sweep_td_int in Hs. rewrite forallb_forall in Hs. specialize (Hs sa Ha).
  rewrite forallb_forall in Hs. specialize (Hs sb Hb). rewrite forallb_forall in Hs.
  apply Hs. apply in_seq. lia.
Qed.



(* ================================================================== *)
(* PART 5 (FullFacts): end-to-end correctness chain *)
(* FullFacts.v -- end-to-end theorems (parser AND executor) for universally
   quantified families of einsum equations. *)

(* ================================================================== *)
(* T1. sanitize on an explicit equation made of labels only            *)

Lemma ff_remove_all_id c s : ~ In c s -> remove_all c s = s.
Proof.
  intros H. unfold remove_all. apply sf_filter_all. intros x Hx.
  apply negb_true_iff, Nat.eqb_neq. intros ->. exact (H Hx).
Qed.

Lemma ff_has_ellipsis_false s : ~ In DOT s -> has_ellipsis s = false.
Proof.
  induction s as [|a s IH]; intros H; [reflexivity|].
  cbn [has_ellipsis]. destruct s as [|b [|c s']]; [reflexivity|reflexivity|].
  assert (Ea : Nat.eqb a DOT = false).
  { apply Nat.eqb_neq. intros ->. apply H. left; reflexivity. }
  rewrite Ea. cbn [andb orb]. apply IH. intros Hin. apply H. right. exact Hin.
Qed.

Lemma ff_split_on_nosep c s : ~ In c s -> split_on c s = [s].
Proof.
  induction s as [|x s IH]; intros H; [reflexivity|].
  cbn [split_on].
  assert (E : Nat.eqb x c = false).
  { apply Nat.eqb_neq. intros ->. apply H. left; reflexivity. }
  rewrite E, IH; [reflexivity|]. intros Hin. apply H. right. exact Hin.
Qed.

Lemma ff_split_on_app c s1 s2 : ~ In c s1 ->
  split_on c (s1 ++ c :: s2) = s1 :: split_on c s2.
Proof.
  induction s1 as [|x s IH]; intros H.
  - cbn [app split_on]. rewrite Nat.eqb_refl. reflexivity.
  - cbn [app split_on].
    assert (E : Nat.eqb x c = false).
    { apply Nat.eqb_neq. intros ->. apply H. left; reflexivity. }
    rewrite E, IH; [reflexivity|]. intros Hin. apply H. right. exact Hin.
Qed.

Lemma ff_labels_notin (c : nat) s : c < 4 -> Forall (fun x => 4 <= x) s -> ~ In c s.
Proof.
  intros Hc HF Hin. rewrite Forall_forall in HF. specialize (HF c Hin). lia.
Qed.

Theorem ff_sanitize_explicit lhs out :
  Forall (fun c => 4 <= c) lhs -> Forall (fun c => 4 <= c) out ->
  sanitize (eq1 lhs out) = Some (lhs, out).
Proof.
  intros Hl Ho. unfold sanitize, eq1.
  assert (HA : Forall (fun c => 4 <= c \/ c = ARROW) (lhs ++ [ARROW] ++ out)).
  { apply Forall_app. split; [|apply Forall_app; split].
    - eapply Forall_impl; [|exact Hl]. cbv beta. intros; left; assumption.
    - constructor; [right; reflexivity|constructor].
    - eapply Forall_impl; [|exact Ho]. cbv beta. intros; left; assumption. }
  rewrite ff_remove_all_id.
  2:{ intros Hin. rewrite Forall_forall in HA. destruct (HA _ Hin) as [H|H]; unfold SPACE, ARROW in *; lia. }
  rewrite ff_has_ellipsis_false.
  2:{ intros Hin. rewrite Forall_forall in HA. destruct (HA _ Hin) as [H|H]; unfold DOT, ARROW in *; lia. }
  assert (Em : memb ARROW (lhs ++ [ARROW] ++ out) = true).
  { apply memb_In. apply in_app_iff. right. left. reflexivity. }
  rewrite Em. cbn [negb].
  cbn [app]. rewrite ff_split_on_app by (apply ff_labels_notin; [unfold ARROW; lia|exact Hl]).
  rewrite ff_split_on_nosep by (apply ff_labels_notin; [unfold ARROW; lia|exact Ho]).
  reflexivity.
Qed.

(* the same when the left-hand side also contains commas (two-operand equations) *)
Theorem ff_sanitize_explicit_gen lhs out :
  Forall (fun c => 4 <= c \/ c = COMMA) lhs -> Forall (fun c => 4 <= c) out ->
  sanitize (eq1 lhs out) = Some (lhs, out).
Proof.
  intros Hl Ho. unfold sanitize, eq1.
  assert (HA : Forall (fun c => 4 <= c \/ c = COMMA \/ c = ARROW) (lhs ++ [ARROW] ++ out)).
  { apply Forall_app. split; [|apply Forall_app; split].
    - eapply Forall_impl; [|exact Hl]. cbv beta. intros a [H|H]; [left|right; left]; assumption.
    - constructor; [right; right; reflexivity|constructor].
    - eapply Forall_impl; [|exact Ho]. cbv beta. intros; left; assumption. }
  assert (HnA : ~ In ARROW lhs).
  { intros Hin. rewrite Forall_forall in Hl. destruct (Hl _ Hin) as [H|H]; unfold ARROW, COMMA in *; lia. }
  rewrite ff_remove_all_id.
  2:{ intros Hin. rewrite Forall_forall in HA. destruct (HA _ Hin) as [H|[H|H]]; unfold SPACE, ARROW, COMMA in *; lia. }
  rewrite ff_has_ellipsis_false.
  2:{ intros Hin. rewrite Forall_forall in HA. destruct (HA _ Hin) as [H|[H|H]]; unfold DOT, ARROW, COMMA in *; lia. }
  assert (Em : memb ARROW (lhs ++ [ARROW] ++ out) = true).
  { apply memb_In. apply in_app_iff. right. left. reflexivity. }
  rewrite Em. cbn [negb].
  cbn [app]. rewrite ff_split_on_app by exact HnA.
  rewrite ff_split_on_nosep by (apply ff_labels_notin; [unfold ARROW; lia|exact Ho]).
  reflexivity.
Qed.

(* L1 of the two-operand chain: on an explicit, blank-free equation the parser just splits *)
Lemma ff_parse_bmm_eq2 ta tb out sa sb :
  Forall (fun c => 4 <= c) ta -> Forall (fun c => 4 <= c) tb -> Forall (fun c => 4 <= c) out ->
  parse_bmm (eq2 ta tb out) sa sb = parse_bmm_terms ta sa tb sb out.
Proof.
  intros Ha Hb Ho. unfold parse_bmm.
  replace (eq2 ta tb out) with (eq1 (ta ++ COMMA :: tb) out)
    by (unfold eq1, eq2; rewrite <- app_assoc; reflexivity).
  rewrite ff_sanitize_explicit_gen; [| |exact Ho].
  - unfold parse_bmm_split.
    rewrite ff_split_on_app by (apply ff_labels_notin; [unfold COMMA; lia|exact Ha]).
    rewrite ff_split_on_nosep by (apply ff_labels_notin; [unfold COMMA; lia|exact Hb]).
    reflexivity.
  - apply Forall_app. split.
    + eapply Forall_impl; [|exact Ha]. cbv beta. intros; left; assumption.
    + constructor; [right; reflexivity|].
      eapply Forall_impl; [|exact Hb]. cbv beta. intros; left; assumption.
Qed.

(* ================================================================== *)
(* Shared: the single-operand parser on a term without repeated labels *)

Lemma ff_count_notin x l : ~ In x l -> count x l = 0.
Proof.
  induction l as [|y r IH]; intros H; [reflexivity|].
  rewrite pf_count_cons.
  assert (E : Nat.eqb x y = false).
  { apply Nat.eqb_neq. intros ->. apply H. left; reflexivity. }
  rewrite E, IH; [reflexivity|]. intros Hin. apply H. right. exact Hin.
Qed.

Lemma ff_count_nodup x l : NoDup l -> count x l <= 1.
Proof.
  induction 1 as [|y r Hn ND IH]; [cbn; lia|].
  rewrite pf_count_cons. destruct (Nat.eqb_spec x y) as [->|Hne]; [|lia].
  rewrite ff_count_notin by exact Hn. lia.
Qed.

Lemma ff_scan_nodup lhs out : NoDup lhs ->
  scan_single lhs out [] [] [] = ([], filter (fun j => negb (memb j out)) lhs).
Proof.
  intros ND.
  pose proof (scan_single_sum lhs out) as Hs.
  pose proof (scan_single_diag_in lhs out) as Hd.
  destruct (scan_single lhs out [] [] []) as [dg sm]. cbn [fst snd] in *.
  rewrite sf_unique_id in Hs by exact ND. subst sm. f_equal.
  destruct dg as [|d dg']; [reflexivity|].
  exfalso. pose proof (proj1 (Hd d) (or_introl eq_refl)) as H2.
  pose proof (ff_count_nodup d lhs ND). lia.
Qed.

Lemma ff_memb_filter (g : nat -> bool) l j : memb j (filter g l) = memb j l && g j.
Proof.
  apply Bool.eq_iff_eq_true. rewrite andb_true_iff, !memb_In, filter_In. tauto.
Qed.

Lemma ff_fold_remove_all sm : forall l,
  fold_left (fun l ix => remove_all ix l) sm l = filter (fun x => negb (memb x sm)) l.
Proof.
  induction sm as [|a sm IH]; intros l; cbn [fold_left].
  - symmetry. apply sf_filter_all. intros x _. reflexivity.
  - rewrite IH. unfold remove_all. rewrite filter_filter_comm_and.
    apply filter_ext. intros x. unfold memb. cbn [existsb]. rewrite negb_orb. reflexivity.
Qed.

Lemma ff_find_pos_nth lhs q : NoDup lhs -> q < length lhs -> find_pos (nth q lhs 0) lhs = Some q.
Proof.
  intros ND Hq. destruct (sf_find_pos_in (nth q lhs 0) lhs (nth_In lhs 0 Hq)) as [p Hp].
  rewrite Hp. f_equal. apply sf_find_pos_some in Hp. destruct Hp as [H1 H2].
  rewrite (NoDup_nth lhs 0) in ND. apply ND; assumption.
Qed.

Lemma ff_index_all_map_nth lhs ps : NoDup lhs -> Forall (fun q => q < length lhs) ps ->
  index_all lhs (map (fun q => nth q lhs 0) ps) = Some ps.
Proof.
  intros ND HF. induction HF as [|q ps Hq HF IH]; [reflexivity|].
  cbn [map index_all]. rewrite ff_find_pos_nth by assumption. rewrite IH. reflexivity.
Qed.

(* the positions summed over, the labels kept (in lhs order) *)
Definition ff_ax (lhs out : str) : list nat :=
  filter (fun q => negb (memb (nth q lhs 0) out)) (seq 0 (length lhs)).
Definition ff_mid (lhs out : str) : str := filter (fun x => memb x out) lhs.

Lemma ff_ax_lt lhs out : Forall (fun q => q < length lhs) (ff_ax lhs out).
Proof.
  apply Forall_forall. intros q Hq. apply filter_In in Hq. destruct Hq as [Hq _].
  apply in_seq in Hq. lia.
Qed.

Lemma ff_ax_sorted lhs out : StronglySorted lt (ff_ax lhs out).
Proof. apply sf_filter_sorted, sf_seq_sorted. Qed.

Lemma ff_sm_ax lhs out :
  filter (fun j => negb (memb j out)) lhs = map (fun q => nth q lhs 0) (ff_ax lhs out).
Proof. apply sf_filter_labels. intros q _. reflexivity. Qed.

Lemma ff_mid_kept lhs out :
  ff_mid lhs out = map (fun q => nth q lhs 0) (sf_kept (length lhs) (ff_ax lhs out)).
Proof.
  unfold ff_mid, sf_kept. apply sf_filter_labels. intros q Hq.
  unfold ff_ax. rewrite ff_memb_filter.
  assert (E : memb q (seq 0 (length lhs)) = true) by (apply memb_In, in_seq; lia).
  rewrite E. cbn [andb]. rewrite negb_involutive. reflexivity.
Qed.

Lemma ff_mid_in lhs out x : In x (ff_mid lhs out) <-> In x lhs /\ In x out.
Proof. unfold ff_mid. rewrite filter_In, memb_In. tauto. Qed.

Lemma ff_mid_nodup lhs out : NoDup lhs -> NoDup (ff_mid lhs out).
Proof. intros ND. apply NoDup_filter, ND. Qed.

Lemma ff_parse_core_nodup lhs out shape :
  NoDup lhs -> incl out lhs ->
  exists p, index_all (ff_mid lhs out) out = Some p /\
  parse_single_core lhs out shape =
    Some (None, (match ff_ax lhs out with [] => None | _ => Some (ff_ax lhs out) end,
                 if eqb (ff_mid lhs out) out then None else Some p)).
Proof.
  intros ND Hi.
  destruct (index_all_total (ff_mid lhs out) out) as [p Hp].
  { intros x Hx. apply ff_mid_in. split; [apply Hi, Hx|exact Hx]. }
  exists p. split; [exact Hp|].
  unfold parse_single_core. rewrite ff_scan_nodup by exact ND. cbv beta iota.
  assert (Hl2 : fold_left (fun l ix => remove_all ix l) (filter (fun j => negb (memb j out)) lhs) lhs
                = ff_mid lhs out).
  { rewrite ff_fold_remove_all. unfold ff_mid. apply filter_ext_in. intros x Hx.
    rewrite ff_memb_filter. apply memb_In in Hx. rewrite Hx. cbn [andb]. apply negb_involutive. }
  pose proof (ff_sm_ax lhs out) as Hsm.
  pose proof (ff_index_all_map_nth lhs (ff_ax lhs out) ND (ff_ax_lt lhs out)) as Hia.
  rewrite <- Hsm in Hia. rewrite Hia. cbv beta iota. rewrite Hl2.
  rewrite Hsm in Hl2 |- *.
  destruct (ff_ax lhs out) as [|a0 ax']; cbn [map] in Hl2 |- *; cbv beta iota.
  - cbn [fold_left] in Hl2. rewrite <- Hl2 in Hp |- *. rewrite Hp.
    cbv [eqb Eqb_list Eqb_nat]. destruct (list_eqb Nat.eqb lhs out); reflexivity.
  - rewrite Hp. cbv [eqb Eqb_list Eqb_nat]. destruct (list_eqb Nat.eqb (ff_mid lhs out) out); reflexivity.
Qed.

(* ================================================================== *)
(* Shared: semantic helpers                                            *)

Lemma ff_map_elook_combine ks : forall vs, NoDup ks -> length vs = length ks ->
  map (elook (combine ks vs)) ks = vs.
Proof.
  intros vs ND HL. apply (nth_ext _ _ 0 0); [rewrite map_length; symmetry; exact HL|].
  intros k Hk. rewrite map_length in Hk.
  rewrite (nth_map_lt (elook (combine ks vs)) ks k 0 0) by exact Hk.
  apply elook_combine_nth; assumption.
Qed.

(* einsum "ab..->ab.." is the identity *)
Lemma ff_einsum_ref_id lhs t :
  NoDup lhs -> length lhs = length (tshape t) -> wf_tensor t = true ->
  einsum_ref [lhs] lhs [t] = t.
Proof.
  intros ND HL Hwf.
  assert (Hin : sf_inner [lhs] lhs = []).
  { unfold sf_inner. apply sf_filter_nil. intros x Hx. apply (proj1 (sf_unique_in _ _)) in Hx.
    cbn [concat] in Hx. rewrite app_nil_r in Hx. apply negb_false_iff, memb_In, Hx. }
  assert (Hsh : map (elook (label_sizes [lhs] [t])) lhs = tshape t).
  { rewrite sf_label_sizes_single. apply ff_map_elook_combine; [exact ND|symmetry; exact HL]. }
  apply tensor_ext.
  - apply einsum_ref_wf.
  - exact Hwf.
  - rewrite einsum_ref_shape. exact Hsh.
  - intros idx Hv. rewrite einsum_ref_shape, Hsh in Hv.
    rewrite tget_einsum_ref by (rewrite Hsh; exact Hv).
    rewrite Hin. cbn [map]. rewrite sf_all_idx_nil. cbn [map combine].
    rewrite sf_zsum_single, sf_zprodl_single. cbn [fst snd]. rewrite app_nil_r.
    f_equal. apply ff_map_elook_combine; [exact ND|].
    rewrite (sf_valid_idx_length _ _ Hv). symmetry. exact HL.
Qed.

(* the sum step of the plan computes the reference with the kept labels in lhs order *)
Lemma ff_sum_step lhs out t :
  NoDup lhs -> length lhs = length (tshape t) -> wf_tensor t = true ->
  omaybe (match ff_ax lhs out with [] => None | _ => Some (ff_ax lhs out) end)
         (fun ax t => sum_axes t ax) t
  = Some (einsum_ref [lhs] (ff_mid lhs out) [t]).
Proof.
  intros ND HL Hwf.
  pose proof (ff_mid_kept lhs out) as Hmid.
  pose proof (sum_axes_is_einsum t lhs (ff_ax lhs out) ND HL (ff_ax_sorted lhs out) (ff_ax_lt lhs out)) as Hs.
  rewrite <- Hmid in Hs.
  destruct (ff_ax lhs out) as [|a0 ax'] eqn:Eax.
  - cbn [omaybe]. f_equal.
    assert (E : ff_mid lhs out = lhs).
    { rewrite Hmid. unfold sf_kept. cbn [memb existsb negb].
      rewrite sf_filter_all by (intros; reflexivity). apply sf_map_nth_seq. }
    rewrite E. symmetry. apply ff_einsum_ref_id; assumption.
  - cbn [omaybe]. exact Hs.
Qed.

(* the whole single-operand pipeline on a term without repeated labels,
   still with the intermediate array visible *)
Lemma ff_single_nodup_gen lhs out t :
  NoDup lhs -> NoDup out -> incl out lhs ->
  Forall (fun c => 4 <= c) lhs -> Forall (fun c => 4 <= c) out ->
  length lhs = length (tshape t) -> wf_tensor t = true ->
  einsum_single (eq1 lhs out) t =
  Some (if eqb (ff_mid lhs out) out then einsum_ref [lhs] out [t]
        else einsum_ref [ff_mid lhs out] out [einsum_ref [lhs] (ff_mid lhs out) [t]]).
Proof.
  intros ND NDo Hi Hl Ho HL Hwf.
  unfold einsum_single, parse_single. rewrite ff_sanitize_explicit by assumption.
  destruct (ff_parse_core_nodup lhs out (tshape t) ND Hi) as (p & Hp & Hparse).
  rewrite Hparse. cbn [obind]. unfold exec_single. cbn [obind].
  rewrite ff_sum_step by assumption. cbn [obind].
  destruct (eqb (ff_mid lhs out) out) eqn:Ee.
  - cbn [omaybe]. apply pf_list_eqb_eq in Ee. rewrite Ee. reflexivity.
  - cbn [omaybe].
    destruct (index_all_perm_full _ _ _ Hp NDo (ff_mid_nodup lhs out ND)) as [Hm Hperm].
    { intros x Hx. apply ff_mid_in in Hx. tauto. }
    pose proof (transpose_is_einsum (einsum_ref [lhs] (ff_mid lhs out) [t]) (ff_mid lhs out) p) as HT.
    rewrite Hm in HT. apply HT.
    + apply ff_mid_nodup, ND.
    + rewrite einsum_ref_shape, map_length. reflexivity.
    + exact Hperm.
Qed.

Lemma ff_list_eqb_refl (l : list nat) : eqb l l = true.
Proof.
  induction l as [|x l IH]; [reflexivity|].
  change (Nat.eqb x x && eqb l l = true). rewrite Nat.eqb_refl, IH. reflexivity.
Qed.

(* ================================================================== *)
(* T2. every single-operand transposition equation                     *)
Theorem ff_einsum_single_transpose lhs out t :
  NoDup lhs -> Forall (fun c => 4 <= c) lhs -> length lhs = length (tshape t) ->
  NoDup out -> incl out lhs -> incl lhs out -> wf_tensor t = true ->
  einsum_single (eq1 lhs out) t = Some (einsum_ref [lhs] out [t]).
Proof.
  intros ND Hl HL NDo Hi Hi' Hwf.
  assert (Ho : Forall (fun c => 4 <= c) out).
  { apply Forall_forall. intros x Hx. rewrite Forall_forall in Hl. apply Hl, Hi, Hx. }
  rewrite ff_single_nodup_gen by assumption. f_equal.
  assert (E : ff_mid lhs out = lhs).
  { unfold ff_mid. apply sf_filter_all. intros x Hx. apply memb_In, Hi', Hx. }
  rewrite E. match goal with |- context [if ?b then _ else _] => destruct b end; [reflexivity|].
  rewrite ff_einsum_ref_id by assumption. reflexivity.
Qed.

(* ================================================================== *)
(* T3. every single-operand sum equation that keeps the order          *)
Theorem ff_einsum_single_sum lhs (f : nat -> bool) t :
  NoDup lhs -> Forall (fun c => 4 <= c) lhs -> length lhs = length (tshape t) ->
  wf_tensor t = true ->
  einsum_single (eq1 lhs (filter f lhs)) t = Some (einsum_ref [lhs] (filter f lhs) [t]).
Proof.
  intros ND Hl HL Hwf.
  assert (NDo : NoDup (filter f lhs)) by (apply NoDup_filter, ND).
  assert (Hi : incl (filter f lhs) lhs) by (intros x Hx; apply filter_In in Hx; tauto).
  assert (Ho : Forall (fun c => 4 <= c) (filter f lhs)).
  { apply Forall_forall. intros x Hx. rewrite Forall_forall in Hl. apply Hl, Hi, Hx. }
  rewrite ff_single_nodup_gen by assumption. f_equal.
  assert (E : ff_mid lhs (filter f lhs) = filter f lhs).
  { unfold ff_mid. apply filter_ext_in. intros x Hx. rewrite ff_memb_filter.
    apply memb_In in Hx. rewrite Hx. reflexivity. }
  rewrite E, ff_list_eqb_refl. reflexivity.
Qed.

(* ================================================================== *)
(* T4. sum then transpose: composition of two references               *)

Lemma ff_elook_combine_map (f : nat -> nat) ks x :
  In x ks -> elook (combine ks (map f ks)) x = f x.
Proof.
  induction ks as [|k ks IH]; intros H; [destruct H|].
  cbn [map combine elook]. destruct (Nat.eqb_spec k x) as [->|Hne]; [reflexivity|].
  apply IH. destruct H as [H|H]; [congruence|exact H].
Qed.

Lemma ff_elook_valid (f : nat -> nat) out : forall oidx,
  valid_idx (map f out) oidx -> forall x, In x out -> elook (combine out oidx) x < f x.
Proof.
  induction out as [|k out IH]; intros oidx Hv x Hx; [destruct Hx|].
  cbn [map] in Hv. destruct (sf_valid_idx_cons _ _ _ Hv) as (i & idx' & -> & Hi & Hv').
  cbn [combine elook]. destruct (Nat.eqb_spec k x) as [->|Hne]; [exact Hi|].
  apply IH; [exact Hv'|]. destruct Hx as [Hx|Hx]; [congruence|exact Hx].
Qed.

Lemma ff_valid_map (g f : nat -> nat) l :
  (forall x, In x l -> g x < f x) -> valid_idx (map f l) (map g l).
Proof.
  unfold valid_idx. induction l as [|x l IH]; intros H; cbn [map]; constructor.
  - apply H. left; reflexivity.
  - apply IH. intros y Hy. apply H. right; exact Hy.
Qed.

Lemma ff_einsum_ref_compose lhs mid out t :
  (forall x, In x mid <-> In x lhs /\ In x out) -> incl out lhs ->
  einsum_ref [mid] out [einsum_ref [lhs] mid [t]] = einsum_ref [lhs] out [t].
Proof.
  intros Hmid Hio.
  set (sz := label_sizes [lhs] [t]).
  set (u := einsum_ref [lhs] mid [t]).
  assert (Hom : forall x, In x out -> In x mid).
  { intros x Hx. apply Hmid. split; [apply Hio, Hx|exact Hx]. }
  assert (Hsz2 : label_sizes [mid] [u] = combine mid (map (elook sz) mid)).
  { rewrite sf_label_sizes_single. unfold u. rewrite einsum_ref_shape. reflexivity. }
  assert (Hsh : map (elook (label_sizes [mid] [u])) out = map (elook sz) out).
  { rewrite Hsz2. apply map_ext_in. intros x Hx. apply ff_elook_combine_map, Hom, Hx. }
  assert (Hin0 : sf_inner [mid] out = []).
  { unfold sf_inner. apply sf_filter_nil. intros x Hx. apply (proj1 (sf_unique_in _ _)) in Hx.
    cbn [concat] in Hx. rewrite app_nil_r in Hx. apply negb_false_iff, memb_In.
    apply Hmid in Hx. tauto. }
  assert (Hin12 : sf_inner [lhs] mid = sf_inner [lhs] out).
  { unfold sf_inner. apply filter_ext_in. intros x Hx. apply (proj1 (sf_unique_in _ _)) in Hx.
    cbn [concat] in Hx. rewrite app_nil_r in Hx. f_equal.
    apply Bool.eq_iff_eq_true. rewrite !memb_In, Hmid. tauto. }
  apply tensor_ext.
  - apply einsum_ref_wf.
  - apply einsum_ref_wf.
  - rewrite !einsum_ref_shape. exact Hsh.
  - intros oidx Hv. rewrite einsum_ref_shape, Hsh in Hv.
    rewrite (tget_einsum_ref [mid] out [u]) by (rewrite Hsh; exact Hv).
    rewrite Hin0. cbn [map]. rewrite sf_all_idx_nil. cbn [map combine].
    rewrite sf_zsum_single, sf_zprodl_single. cbn [fst snd]. rewrite app_nil_r.
    assert (HLo : length oidx = length out).
    { rewrite (sf_valid_idx_length _ _ Hv), map_length. reflexivity. }
    unfold u. rewrite tget_einsum_ref.
    2:{ apply ff_valid_map. intros x Hx. apply (ff_elook_valid (elook sz) out oidx Hv).
        apply Hmid in Hx. tauto. }
    rewrite (tget_einsum_ref [lhs] out [t]) by exact Hv.
    rewrite Hin12. f_equal. apply map_ext. intros iidx.
    cbn [combine map fst snd].
    assert (HE : map (elook (combine mid (map (elook (combine out oidx)) mid)
                             ++ combine (sf_inner [lhs] out) iidx)) lhs
               = map (elook (combine out oidx ++ combine (sf_inner [lhs] out) iidx)) lhs).
    { apply map_ext_in. intros x Hx.
      destruct (in_dec Nat.eq_dec x out) as [Hin|Hnin].
      - rewrite !elook_app_l.
        + apply ff_elook_combine_map, Hom, Hin.
        + rewrite sf_map_fst_combine by exact HLo. exact Hin.
        + rewrite sf_map_fst_combine by (rewrite map_length; reflexivity). apply Hom, Hin.
      - rewrite !elook_app_r; [reflexivity| |].
        + intros Hc. apply sf_in_combine_fst in Hc. exact (Hnin Hc).
        + intros Hc. apply sf_in_combine_fst in Hc. apply Hmid in Hc. tauto. }
    rewrite HE. reflexivity.
Qed.

Theorem ff_einsum_single_nodup lhs out t :
  NoDup lhs -> NoDup out -> incl out lhs ->
  Forall (fun c => 4 <= c) lhs -> length lhs = length (tshape t) -> wf_tensor t = true ->
  einsum_single (eq1 lhs out) t = Some (einsum_ref [lhs] out [t]).
Proof.
  intros ND NDo Hi Hl HL Hwf.
  assert (Ho : Forall (fun c => 4 <= c) out).
  { apply Forall_forall. intros x Hx. rewrite Forall_forall in Hl. apply Hl, Hi, Hx. }
  rewrite ff_single_nodup_gen by assumption. f_equal.
  match goal with |- context [if ?b then _ else _] => destruct b end; [reflexivity|].
  apply ff_einsum_ref_compose; [|exact Hi]. intros x. apply ff_mid_in.
Qed.

(* ================================================================== *)
(* T5. the plain matrix product through parse_bmm and exec_bmm          *)

Ltac ff_decide :=
  repeat (cbn; cbv [eqb Eqb_list Eqb_nat lget0]; cbn; sf_eqb_step); cbn.

Lemma ff_parse_bmm_matmul i j k m kk n :
  i <> j -> i <> k -> j <> k -> 4 <= i -> 4 <= j -> 4 <= k ->
  2 <= m -> 2 <= kk -> 2 <= n ->
  parse_bmm (eq2 [i; k] [k; j] [i; j]) [m; kk] [kk; n]
  = Some (None, (None, (None, (None, (None, (None, false)))))).
Proof.
  intros Hij Hik Hjk Hi Hj Hk Hm Hkk Hn.
  assert (Hi0 : i <> 0) by lia. assert (Hi1 : i <> 1) by lia.
  assert (Hj0 : j <> 0) by lia. assert (Hj1 : j <> 1) by lia.
  assert (Hk0 : k <> 0) by lia. assert (Hk1 : k <> 1) by lia.
  assert (Hm1 : m <> 1) by lia. assert (Hkk1 : kk <> 1) by lia. assert (Hn1 : n <> 1) by lia.
  rewrite ff_parse_bmm_eq2 by (repeat constructor; assumption).
  unfold parse_bmm_terms, classify.
  ff_decide.
  unfold mk_pre.
  ff_decide.
  reflexivity.
Qed.

Theorem ff_einsum2_matmul i j k m kk n x y :
  i <> j -> i <> k -> j <> k -> 4 <= i -> 4 <= j -> 4 <= k ->
  2 <= m -> 2 <= kk -> 2 <= n ->
  tshape x = [m; kk] -> tshape y = [kk; n] ->
  einsum2 (eq2 [i; k] [k; j] [i; j]) x y = Some (einsum_ref [[i; k]; [k; j]] [i; j] [x; y]).
Proof.
  intros Hij Hik Hjk Hi Hj Hk Hm Hkk Hn Hx Hy.
  unfold einsum2. rewrite Hx, Hy.
  rewrite ff_parse_bmm_matmul by assumption.
  cbn [obind exec_bmm exec_pre omaybe].
  rewrite (matmul2_is_einsum x y m kk n i j k Hij Hik Hjk Hx Hy).
  reflexivity.
Qed.

(* ================================================================== *)
(* PART 5 (ComposeFacts): end-to-end correctness chain *)
(* ComposeFacts.v -- algebra of the reference einsum for two operands:
   output permutation, and "product of independent sums". *)

(* ================================================================== *)
(* 1. finite sums over lists                                           *)

Lemma cp_zsum_map_ext {A} (f g : A -> Z) l :
  (forall x, In x l -> f x = g x) -> zsum (map f l) = zsum (map g l).
Proof. intros H. f_equal. apply map_ext_in, H. Qed.

Lemma cp_zsum_mul_l {A} (c : Z) (f : A -> Z) l :
  zsum (map (fun i => (c * f i)%Z) l) = (c * zsum (map f l))%Z.
Proof.
  induction l as [|x l IH]; cbn [map]; [rewrite sf_zsum_nil; lia|].
  rewrite !zsum_cons, IH. lia.
Qed.

Lemma cp_zsum_mul_r {A} (c : Z) (f : A -> Z) l :
  zsum (map (fun i => (f i * c)%Z) l) = (zsum (map f l) * c)%Z.
Proof.
  induction l as [|x l IH]; cbn [map]; [rewrite sf_zsum_nil; lia|].
  rewrite !zsum_cons, IH. lia.
Qed.

Lemma cp_zsum_map_add {A} (f g : A -> Z) l :
  zsum (map (fun i => (f i + g i)%Z) l) = (zsum (map f l) + zsum (map g l))%Z.
Proof.
  induction l as [|x l IH]; cbn [map]; [rewrite sf_zsum_nil; lia|].
  rewrite !zsum_cons, IH. lia.
Qed.

Lemma cp_zsum_zero {A} (l : list A) : zsum (map (fun _ => 0%Z) l) = 0%Z.
Proof.
  induction l as [|x l IH]; cbn [map]; [reflexivity|]. rewrite zsum_cons, IH. lia.
Qed.

(* interchange of two finite sums *)
Lemma cp_zsum_swap {A B} (f : A -> B -> Z) l1 l2 :
  zsum (map (fun i => zsum (map (fun j => f i j) l2)) l1) =
  zsum (map (fun j => zsum (map (fun i => f i j) l1)) l2).
Proof.
  induction l1 as [|a l1 IH]; cbn [map].
  - rewrite sf_zsum_nil. symmetry. apply cp_zsum_zero.
  - rewrite zsum_cons, IH.
    rewrite (cp_zsum_map_ext (fun j => zsum (f a j :: map (fun i => f i j) l1))
                             (fun j => (f a j + zsum (map (fun i => f i j) l1))%Z))
      by (intros; apply zsum_cons).
    rewrite cp_zsum_map_add. reflexivity.
Qed.

Lemma cp_zsum_perm l1 l2 : Permutation l1 l2 -> zsum l1 = zsum l2.
Proof. induction 1; rewrite ?zsum_cons in *; try lia. Qed.

Lemma cp_zsum_flat_map {A B} (F : B -> Z) (g : A -> list B) l :
  zsum (map F (flat_map g l)) = zsum (map (fun i => zsum (map F (g i))) l).
Proof.
  induction l as [|a l IH]; cbn [flat_map map]; [reflexivity|].
  rewrite map_app, zsum_app, zsum_cons, IH. reflexivity.
Qed.

(* all_idx of a concatenated shape is the row-major product *)
Lemma cp_flat_map_flat_map {A B C} (f : B -> list C) (g : A -> list B) l :
  flat_map f (flat_map g l) = flat_map (fun a => flat_map f (g a)) l.
Proof.
  induction l as [|a l IH]; cbn [flat_map]; [reflexivity|].
  rewrite flat_map_app, IH. reflexivity.
Qed.

Lemma cp_flat_map_map {A B C} (f : B -> list C) (g : A -> B) l :
  flat_map f (map g l) = flat_map (fun a => f (g a)) l.
Proof. induction l as [|a l IH]; cbn [flat_map map]; [reflexivity|]. rewrite IH. reflexivity. Qed.

Lemma cp_map_flat_map {A B C} (f : B -> C) (g : A -> list B) l :
  map f (flat_map g l) = flat_map (fun a => map f (g a)) l.
Proof.
  induction l as [|a l IH]; cbn [flat_map map]; [reflexivity|].
  rewrite map_app, IH. reflexivity.
Qed.

Lemma cp_all_idx_app s1 s2 :
  all_idx (s1 ++ s2) = flat_map (fun i1 => map (app i1) (all_idx s2)) (all_idx s1).
Proof.
  induction s1 as [|d s1 IH].
  - cbn [app all_idx flat_map]. rewrite app_nil_r.
    symmetry. rewrite <- (map_id (all_idx s2)) at 2. apply map_ext. reflexivity.
  - cbn [app all_idx]. rewrite cp_flat_map_flat_map.
    apply flat_map_ext. intros i. rewrite cp_flat_map_map, IH, cp_map_flat_map.
    apply flat_map_ext. intros i1. rewrite map_map. reflexivity.
Qed.

Lemma cp_zsum_all_idx_app (F : list nat -> Z) s1 s2 :
  zsum (map F (all_idx (s1 ++ s2))) =
  zsum (map (fun i1 => zsum (map (fun i2 => F (i1 ++ i2)) (all_idx s2))) (all_idx s1)).
Proof.
  rewrite cp_all_idx_app, cp_zsum_flat_map.
  apply cp_zsum_map_ext. intros i1 _. rewrite map_map. reflexivity.
Qed.

(* ================================================================== *)
(* 2. iterated sums over a list of labels                              *)

Definition cp_upd (r : nat -> nat) (x i : nat) : nat -> nat :=
  fun y => if Nat.eqb y x then i else r y.

(* sum over all assignments of the labels ls (label x ranging over 0..sz x - 1),
   of G applied to the assignment r updated at those labels *)
Fixpoint cp_lsum (sz : nat -> nat) (ls : list nat) (G : (nat -> nat) -> Z) (r : nat -> nat) : Z :=
  match ls with
  | [] => G r
  | x :: ls' => zsum (map (fun i => cp_lsum sz ls' G (cp_upd r x i)) (seq 0 (sz x)))
  end.

(* G looks at its assignment only at the labels in S *)
Definition cp_dep (S : list nat) (G : (nat -> nat) -> Z) : Prop :=
  forall r r', (forall y, In y S -> r y = r' y) -> G r = G r'.
Definition cp_ext (G : (nat -> nat) -> Z) : Prop :=
  forall r r', (forall y, r y = r' y) -> G r = G r'.

Lemma cp_dep_ext S G : cp_dep S G -> cp_ext G.
Proof. intros H r r' E. apply H. intros y _. apply E. Qed.

Lemma cp_lsum_ext_G sz ls G1 G2 : (forall r, G1 r = G2 r) ->
  forall r, cp_lsum sz ls G1 r = cp_lsum sz ls G2 r.
Proof.
  intros H. induction ls as [|x ls IH]; intros r; cbn [cp_lsum]; [apply H|].
  apply cp_zsum_map_ext. intros i _. apply IH.
Qed.

Lemma cp_lsum_ext_r sz ls G : cp_ext G ->
  forall r r', (forall y, r y = r' y) -> cp_lsum sz ls G r = cp_lsum sz ls G r'.
Proof.
  intros HG. induction ls as [|x ls IH]; intros r r' E; cbn [cp_lsum]; [apply HG, E|].
  apply cp_zsum_map_ext. intros i _. apply IH. intros y. unfold cp_upd.
  destruct (Nat.eqb y x); [reflexivity|apply E].
Qed.

(* the iterated sum over ls of a G depending on S depends only on S minus ls *)
Lemma cp_lsum_dep sz S G : cp_dep S G ->
  forall ls r r', (forall y, In y S -> ~ In y ls -> r y = r' y) ->
  cp_lsum sz ls G r = cp_lsum sz ls G r'.
Proof.
  intros HG. induction ls as [|x ls IH]; intros r r' E; cbn [cp_lsum].
  - apply HG. intros y Hy. apply E; [exact Hy|intros []].
  - apply cp_zsum_map_ext. intros i _. apply IH. intros y Hy Hn. unfold cp_upd.
    destruct (Nat.eqb_spec y x) as [->|Hne]; [reflexivity|].
    apply E; [exact Hy|]. intros [Hc|Hc]; [congruence|exact (Hn Hc)].
Qed.

Lemma cp_lsum_dep_dep sz S G ls : cp_dep S G -> cp_dep S (cp_lsum sz ls G).
Proof. intros HG r r' E. apply (cp_lsum_dep sz S G HG). intros y Hy _. apply E, Hy. Qed.

Lemma cp_lsum_ext_ext sz G ls : cp_ext G -> cp_ext (cp_lsum sz ls G).
Proof. intros HG r r' E. apply cp_lsum_ext_r; assumption. Qed.

(* congruence in G that only looks at the assignments actually reached *)
Lemma cp_lsum_ext_bd sz G1 G2 ls : forall r0,
  (forall r, (forall x, In x ls -> r x < sz x) -> (forall x, ~ In x ls -> r x = r0 x) -> G1 r = G2 r) ->
  cp_lsum sz ls G1 r0 = cp_lsum sz ls G2 r0.
Proof.
  induction ls as [|a ls IH]; intros r0 H; cbn [cp_lsum].
  - apply H; [intros x []|reflexivity].
  - apply cp_zsum_map_ext. intros i Hi. apply in_seq in Hi. apply IH.
    intros r Hb Ho. apply H.
    + intros x [<-|Hx]; [|apply Hb, Hx].
      destruct (in_dec Nat.eq_dec a ls) as [Hin|Hnin]; [apply Hb, Hin|].
      rewrite Ho by exact Hnin. unfold cp_upd. rewrite Nat.eqb_refl. lia.
    + intros x Hx. rewrite Ho by (intros Hc; apply Hx; right; exact Hc).
      unfold cp_upd. destruct (Nat.eqb_spec x a) as [->|Hne]; [|reflexivity].
      exfalso. apply Hx. left. reflexivity.
Qed.

Lemma cp_lsum_app sz l1 l2 G : forall r,
  cp_lsum sz (l1 ++ l2) G r = cp_lsum sz l1 (cp_lsum sz l2 G) r.
Proof.
  induction l1 as [|x l1 IH]; intros r; cbn [app cp_lsum]; [reflexivity|].
  apply cp_zsum_map_ext. intros i _. apply IH.
Qed.

Lemma cp_lsum_swap sz x y ls G r : cp_ext G -> x <> y ->
  cp_lsum sz (x :: y :: ls) G r = cp_lsum sz (y :: x :: ls) G r.
Proof.
  intros HG Hxy. cbn [cp_lsum].
  rewrite (cp_zsum_swap (fun i j => cp_lsum sz ls G (cp_upd (cp_upd r x i) y j))).
  apply cp_zsum_map_ext. intros j _. apply cp_zsum_map_ext. intros i _.
  apply cp_lsum_ext_r; [exact HG|]. intros z. unfold cp_upd.
  destruct (Nat.eqb_spec z x) as [Ex|Ex], (Nat.eqb_spec z y) as [Ey|Ey]; try reflexivity.
  congruence.
Qed.

(* "Fubini for label lists": the iterated sum does not depend on the order of the labels *)
Lemma cp_lsum_perm sz G l1 l2 : cp_ext G -> Permutation l1 l2 -> NoDup l1 ->
  forall r, cp_lsum sz l1 G r = cp_lsum sz l2 G r.
Proof.
  intros HG HP. induction HP as [|x l l' HP IH|x y l|l l' l'' HP1 IH1 HP2 IH2]; intros ND r.
  - reflexivity.
  - inversion ND; subst. cbn [cp_lsum]. apply cp_zsum_map_ext. intros i _. apply IH. assumption.
  - apply cp_lsum_swap; [exact HG|]. inversion ND as [|? ? Hn _]; subst.
    intros E. apply Hn. left. symmetry. exact E.
  - rewrite IH1 by exact ND. apply IH2. apply (Permutation_NoDup HP1 ND).
Qed.

Lemma cp_lsum_mul_l sz (c : Z) ls G : forall r,
  cp_lsum sz ls (fun r' => (c * G r')%Z) r = (c * cp_lsum sz ls G r)%Z.
Proof.
  induction ls as [|x ls IH]; intros r; cbn [cp_lsum]; [reflexivity|].
  rewrite <- cp_zsum_mul_l. apply cp_zsum_map_ext. intros i _. apply IH.
Qed.

(* a factor that does not look at the summed labels comes out of the sum *)
Lemma cp_lsum_factor sz S A B ls : cp_dep S A -> (forall y, In y S -> ~ In y ls) ->
  forall r, cp_lsum sz ls (fun r' => (A r' * B r')%Z) r = (A r * cp_lsum sz ls B r)%Z.
Proof.
  intros HA. induction ls as [|x ls IH]; intros Hd r; cbn [cp_lsum]; [reflexivity|].
  rewrite <- cp_zsum_mul_l. apply cp_zsum_map_ext. intros i _.
  rewrite IH by (intros y Hy Hc; apply (Hd y Hy); right; exact Hc).
  f_equal. apply HA. intros y Hy. unfold cp_upd.
  destruct (Nat.eqb_spec y x) as [->|Hne]; [|reflexivity].
  exfalso. apply (Hd x Hy). left. reflexivity.
Qed.

(* product of independent sums *)
Lemma cp_lsum_prod sz Sa Sb A B la lb : cp_dep Sa A -> cp_dep Sb B ->
  (forall y, In y Sa -> ~ In y lb) -> (forall y, In y Sb -> ~ In y la) ->
  forall r, cp_lsum sz (la ++ lb) (fun r' => (A r' * B r')%Z) r =
            (cp_lsum sz la A r * cp_lsum sz lb B r)%Z.
Proof.
  intros HA HB Hab Hba r. rewrite cp_lsum_app.
  rewrite (cp_lsum_ext_G sz la _ (fun r' => (cp_lsum sz lb B r' * A r')%Z)).
  - rewrite (cp_lsum_factor sz Sb (cp_lsum sz lb B) A la); [lia| |exact Hba].
    apply cp_lsum_dep_dep, HB.
  - intros r'. rewrite (cp_lsum_factor sz Sa A B lb HA Hab). lia.
Qed.

(* ================================================================== *)
(* 3. flat sums over all_idx of a label list are iterated sums         *)

Lemma cp_elook_snoc e0 x i y : ~ In x (map fst e0) ->
  elook (e0 ++ [(x, i)]) y = cp_upd (elook e0) x i y.
Proof.
  unfold cp_upd. induction e0 as [|[k v] e0 IH]; intros Hn; cbn [app elook].
  - rewrite (Nat.eqb_sym x y). reflexivity.
  - cbn [map fst In] in Hn. destruct (Nat.eqb_spec k y) as [Eky|Hky].
    + destruct (Nat.eqb_spec y x) as [Eyx|Hne]; [|reflexivity].
      exfalso. apply Hn. left. congruence.
    + apply IH. tauto.
Qed.

Lemma cp_flat_lsum0 sz G : cp_ext G -> forall ls e0, NoDup ls ->
  (forall x, In x ls -> ~ In x (map fst e0)) ->
  zsum (map (fun idx => G (elook (e0 ++ combine ls idx))) (all_idx (map sz ls))) =
  cp_lsum sz ls G (elook e0).
Proof.
  intros HG. induction ls as [|x ls IH]; intros e0 ND Hd.
  - cbn [map all_idx combine cp_lsum]. rewrite app_nil_r. apply sf_zsum_single.
  - inversion ND as [|? ? Hn ND']; subst.
    cbn [map all_idx cp_lsum]. rewrite cp_zsum_flat_map.
    apply cp_zsum_map_ext. intros i _. rewrite map_map. cbn [combine].
    rewrite (cp_zsum_map_ext _ (fun idx' => G (elook ((e0 ++ [(x, i)]) ++ combine ls idx')))).
    2:{ intros idx' _. rewrite <- app_assoc. reflexivity. }
    rewrite IH; [|exact ND'|].
    + apply cp_lsum_ext_r; [exact HG|]. intros y. apply cp_elook_snoc.
      apply Hd. left. reflexivity.
    + intros y Hy. rewrite map_app, in_app_iff. cbn [map fst In].
      intros [Hc|[Hc|[]]]; [apply (Hd y); [right; exact Hy|exact Hc]|].
      subst y. exact (Hn Hy).
Qed.

Lemma cp_flat_lsum sz G F ls e0 s : cp_ext G -> NoDup ls ->
  (forall x, In x ls -> ~ In x (map fst e0)) -> s = map sz ls ->
  (forall idx, valid_idx s idx -> F idx = G (elook (e0 ++ combine ls idx))) ->
  zsum (map F (all_idx s)) = cp_lsum sz ls G (elook e0).
Proof.
  intros HG ND Hd -> HF.
  rewrite (cp_zsum_map_ext F (fun idx => G (elook (e0 ++ combine ls idx)))).
  - apply cp_flat_lsum0; assumption.
  - intros idx Hin. apply HF, in_all_idx, Hin.
Qed.

(* the label re-ordering lemma in flat form *)
Lemma cp_zsum_labels_perm sz G ls ls' e0 : cp_ext G -> NoDup ls -> Permutation ls ls' ->
  (forall x, In x ls -> ~ In x (map fst e0)) ->
  zsum (map (fun idx => G (elook (e0 ++ combine ls idx))) (all_idx (map sz ls))) =
  zsum (map (fun idx => G (elook (e0 ++ combine ls' idx))) (all_idx (map sz ls'))).
Proof.
  intros HG ND HP Hd.
  rewrite !cp_flat_lsum0; try assumption.
  - apply cp_lsum_perm; assumption.
  - apply (Permutation_NoDup HP ND).
  - intros x Hx. apply Hd. apply (Permutation_in x (Permutation_sym HP) Hx).
Qed.

(* ================================================================== *)
(* 4. entries of the reference as iterated sums                        *)

Definition cp_Gn (terms : list str) (ops : list tensor) (r : nat -> nat) : Z :=
  zprodl (map (fun to => tget (snd to) (map r (fst to))) (combine terms ops)).

Lemma cp_Gn_dep terms ops : cp_dep (concat terms) (cp_Gn terms ops).
Proof.
  intros r r' E. unfold cp_Gn. f_equal. apply map_ext_in. intros [t o] Hin. cbn [fst snd].
  f_equal. apply map_ext_in. intros x Hx. apply E. apply in_concat.
  exists t. split; [exact (in_combine_l _ _ _ _ Hin)|exact Hx].
Qed.

Lemma cp_Gn_ext terms ops : cp_ext (cp_Gn terms ops).
Proof. apply (cp_dep_ext (concat terms)), cp_Gn_dep. Qed.

Lemma cp_inner_in terms out x :
  In x (sf_inner terms out) <-> In x (concat terms) /\ ~ In x out.
Proof.
  unfold sf_inner. rewrite filter_In, sf_unique_in, negb_true_iff, memb_false. reflexivity.
Qed.

Lemma cp_inner_nodup terms out : NoDup (sf_inner terms out).
Proof. unfold sf_inner. apply NoDup_filter, sf_unique_nodup. Qed.

(* sz gives the size of every label of the operands *)
Definition cp_sized (sz : nat -> nat) (terms : list str) (ops : list tensor) : Prop :=
  forall x, In x (concat terms) -> elook (label_sizes terms ops) x = sz x.

Lemma cp_sized1 sz ta a : tshape a = map sz ta -> cp_sized sz [ta] [a].
Proof.
  intros Ha x Hx. cbn [concat] in Hx. rewrite app_nil_r in Hx.
  rewrite sf_label_sizes_single, Ha. apply ff_elook_combine_map, Hx.
Qed.

Lemma cp_sized2 sz ta tb a b : tshape a = map sz ta -> tshape b = map sz tb ->
  cp_sized sz [ta; tb] [a; b].
Proof.
  intros Ha Hb x Hx. cbn [concat] in Hx. rewrite app_nil_r in Hx.
  unfold label_sizes. cbn [combine map fst snd concat]. rewrite app_nil_r, Ha, Hb.
  destruct (in_dec Nat.eq_dec x ta) as [Hin|Hnin].
  - rewrite elook_app_l; [apply ff_elook_combine_map, Hin|].
    rewrite sf_map_fst_combine by (rewrite map_length; reflexivity). exact Hin.
  - rewrite elook_app_r.
    + apply ff_elook_combine_map. apply in_app_or in Hx. tauto.
    + intros Hc. apply sf_in_combine_fst in Hc. exact (Hnin Hc).
Qed.

Lemma cp_ref_shape sz terms ops out : cp_sized sz terms ops -> incl out (concat terms) ->
  tshape (einsum_ref terms out ops) = map sz out.
Proof.
  intros Hs Hi. rewrite einsum_ref_shape. apply map_ext_in. intros x Hx. apply Hs, Hi, Hx.
Qed.

Lemma cp_tget_ref sz terms ops out oidx :
  cp_sized sz terms ops -> incl out (concat terms) -> valid_idx (map sz out) oidx ->
  tget (einsum_ref terms out ops) oidx =
  cp_lsum sz (sf_inner terms out) (cp_Gn terms ops) (elook (combine out oidx)).
Proof.
  intros Hs Hi Hv.
  rewrite tget_einsum_ref.
  2:{ rewrite <- (cp_ref_shape sz terms ops out Hs Hi) in Hv. exact Hv. }
  apply cp_flat_lsum.
  - apply cp_Gn_ext.
  - apply cp_inner_nodup.
  - intros x Hx Hc. apply cp_inner_in in Hx. apply sf_in_combine_fst in Hc. tauto.
  - apply map_ext_in. intros x Hx. apply cp_inner_in in Hx. apply Hs. tauto.
  - intros idx _. reflexivity.
Qed.

(* ================================================================== *)
(* P1. a permutation of the output labels commutes into the reference  *)

Theorem cp_ref_out_perm_gen terms ops mid out :
  (forall x, In x out <-> In x mid) ->
  einsum_ref [mid] out [einsum_ref terms mid ops] = einsum_ref terms out ops.
Proof.
  intros Hom.
  set (sz := label_sizes terms ops).
  set (u := einsum_ref terms mid ops).
  assert (Hsz2 : label_sizes [mid] [u] = combine mid (map (elook sz) mid)).
  { rewrite sf_label_sizes_single. unfold u. rewrite einsum_ref_shape. reflexivity. }
  assert (Hsh : map (elook (label_sizes [mid] [u])) out = map (elook sz) out).
  { rewrite Hsz2. apply map_ext_in. intros x Hx. apply ff_elook_combine_map, Hom, Hx. }
  assert (Hin0 : sf_inner [mid] out = []).
  { unfold sf_inner. apply sf_filter_nil. intros x Hx. apply (proj1 (sf_unique_in _ _)) in Hx.
    cbn [concat] in Hx. rewrite app_nil_r in Hx. apply negb_false_iff, memb_In, Hom, Hx. }
  assert (Hin12 : sf_inner terms mid = sf_inner terms out).
  { unfold sf_inner. apply filter_ext. intros x. f_equal.
    apply Bool.eq_iff_eq_true. rewrite !memb_In. symmetry. apply Hom. }
  apply tensor_ext.
  - apply einsum_ref_wf.
  - apply einsum_ref_wf.
  - rewrite !einsum_ref_shape. exact Hsh.
  - intros oidx Hv. rewrite einsum_ref_shape, Hsh in Hv.
    rewrite (tget_einsum_ref [mid] out [u]) by (rewrite Hsh; exact Hv).
    rewrite Hin0. cbn [map]. rewrite sf_all_idx_nil. cbn [map combine].
    rewrite sf_zsum_single, sf_zprodl_single. cbn [fst snd]. rewrite app_nil_r.
    assert (HLo : length oidx = length out).
    { rewrite (sf_valid_idx_length _ _ Hv), map_length. reflexivity. }
    unfold u. rewrite tget_einsum_ref.
    2:{ apply ff_valid_map. intros x Hx. apply (ff_elook_valid (elook sz) out oidx Hv).
        apply Hom, Hx. }
    rewrite (tget_einsum_ref terms out ops) by exact Hv.
    rewrite Hin12. f_equal. apply map_ext. intros iidx.
    f_equal. apply map_ext. intros to. f_equal. apply map_ext. intros x.
    destruct (in_dec Nat.eq_dec x out) as [Hin|Hnin].
    + rewrite !elook_app_l.
      * apply ff_elook_combine_map, Hom, Hin.
      * rewrite sf_map_fst_combine by exact HLo. exact Hin.
      * rewrite sf_map_fst_combine by (rewrite map_length; reflexivity). apply Hom, Hin.
    + rewrite !elook_app_r; [reflexivity| |].
      * intros Hc. apply sf_in_combine_fst in Hc. exact (Hnin Hc).
      * intros Hc. apply sf_in_combine_fst in Hc. apply Hom in Hc. exact (Hnin Hc).
Qed.

(* the two-operand instance, as requested (the side conditions NoDup mid, NoDup out,
   incl mid (ta ++ tb) are not needed) *)
Corollary cp_ref_out_perm ta tb a b mid out :
  (forall x, In x out <-> In x mid) ->
  einsum_ref [mid] out [einsum_ref [ta; tb] mid [a; b]] = einsum_ref [ta; tb] out [a; b].
Proof. apply cp_ref_out_perm_gen. Qed.

Corollary cp_transpose_of_ref_gen terms ops mid p :
  NoDup mid -> is_perm p (length mid) = true ->
  transpose (einsum_ref terms mid ops) p =
  Some (einsum_ref terms (map (fun q => nth q mid 0) p) ops).
Proof.
  intros ND Hp.
  rewrite (transpose_is_einsum (einsum_ref terms mid ops) mid p ND).
  - f_equal. apply cp_ref_out_perm_gen.
    destruct (sf_is_perm_elim _ _ Hp) as (HLp & NDp & Hpin).
    intros x. rewrite in_map_iff. split.
    + intros (q & <- & Hq). apply nth_In, Hpin, Hq.
    + intros Hx. destruct (In_nth mid x 0 Hx) as (q & Hq & <-).
      exists q. split; [reflexivity|apply Hpin, Hq].
  - rewrite einsum_ref_shape, map_length. reflexivity.
  - exact Hp.
Qed.

Corollary cp_transpose_of_ref ta tb a b mid p :
  NoDup mid -> is_perm p (length mid) = true ->
  transpose (einsum_ref [ta; tb] mid [a; b]) p =
  Some (einsum_ref [ta; tb] (map (fun q => nth q mid 0) p) [a; b]).
Proof. apply cp_transpose_of_ref_gen. Qed.

(* ================================================================== *)
(* P3. product of independent sums: labels private to one operand can be
   summed inside that operand first                                    *)

Lemma cp_Gn1 ta a r : cp_Gn [ta] [a] r = tget a (map r ta).
Proof. unfold cp_Gn. cbn [combine map fst snd]. apply sf_zprodl_single. Qed.

Lemma cp_Gn2 ta tb a b r :
  cp_Gn [ta; tb] [a; b] r = (tget a (map r ta) * tget b (map r tb))%Z.
Proof. unfold cp_Gn. cbn [combine map fst snd]. apply sf_zprodl_pair. Qed.

(* one pre-summed operand read at the current assignment *)
Lemma cp_tget_pre sz ta a da r :
  tshape a = map sz ta -> incl da ta ->
  (forall x, In x ta -> ~ In x (sf_inner [ta] da) -> In x da) ->
  (forall x, In x da -> r x < sz x) ->
  tget (einsum_ref [ta] da [a]) (map r da) = cp_lsum sz (sf_inner [ta] da) (cp_Gn [ta] [a]) r.
Proof.
  intros Ha Hi Hc Hb.
  rewrite (cp_tget_ref sz [ta] [a] da (map r da)).
  - apply (cp_lsum_dep sz (concat [ta]) _ (cp_Gn_dep [ta] [a])).
    intros y Hy Hn. cbn [concat] in Hy. rewrite app_nil_r in Hy.
    apply ff_elook_combine_map. apply Hc; assumption.
  - apply cp_sized1, Ha.
  - cbn [concat]. rewrite app_nil_r. exact Hi.
  - apply ff_valid_map, Hb.
Qed.

Theorem cp_pre_sum_compose sz ta tb out da db a b :
  incl out (ta ++ tb) ->
  tshape a = map sz ta -> tshape b = map sz tb ->
  (forall x, In x da <-> In x ta /\ (In x tb \/ In x out)) ->
  (forall x, In x db <-> In x tb /\ (In x ta \/ In x out)) ->
  einsum_ref [da; db] out [einsum_ref [ta] da [a]; einsum_ref [tb] db [b]] =
  einsum_ref [ta; tb] out [a; b].
Proof.
  intros Hio Ha Hb Hda Hdb.
  set (A' := einsum_ref [ta] da [a]). set (B' := einsum_ref [tb] db [b]).
  assert (Hia : incl da ta) by (intros x Hx; apply Hda in Hx; tauto).
  assert (Hib : incl db tb) by (intros x Hx; apply Hdb in Hx; tauto).
  assert (HsA : tshape A' = map sz da).
  { apply cp_ref_shape; [apply cp_sized1, Ha|]. cbn [concat]. rewrite app_nil_r. exact Hia. }
  assert (HsB : tshape B' = map sz db).
  { apply cp_ref_shape; [apply cp_sized1, Hb|]. cbn [concat]. rewrite app_nil_r. exact Hib. }
  assert (HS2 : cp_sized sz [ta; tb] [a; b]) by (apply cp_sized2; assumption).
  assert (HS2' : cp_sized sz [da; db] [A'; B']) by (apply cp_sized2; assumption).
  assert (Hio2 : incl out (concat [ta; tb])).
  { cbn [concat]. rewrite app_nil_r. exact Hio. }
  assert (Hio2' : incl out (concat [da; db])).
  { cbn [concat]. rewrite app_nil_r. intros x Hx. specialize (Hio x Hx).
    apply in_app_or in Hio. apply in_or_app. rewrite Hda, Hdb. tauto. }
  (* membership in the four inner-label lists *)
  set (I := sf_inner [ta; tb] out). set (I' := sf_inner [da; db] out).
  set (Pa := sf_inner [ta] da). set (Pb := sf_inner [tb] db).
  assert (HI : forall x, In x I <-> (In x ta \/ In x tb) /\ ~ In x out).
  { intros x. unfold I. rewrite cp_inner_in. cbn [concat]. rewrite app_nil_r, in_app_iff. reflexivity. }
  assert (HI' : forall x, In x I' <-> (In x da \/ In x db) /\ ~ In x out).
  { intros x. unfold I'. rewrite cp_inner_in. cbn [concat]. rewrite app_nil_r, in_app_iff. reflexivity. }
  assert (HPa : forall x, In x Pa <-> In x ta /\ ~ In x da).
  { intros x. unfold Pa. rewrite cp_inner_in. cbn [concat]. rewrite app_nil_r. reflexivity. }
  assert (HPb : forall x, In x Pb <-> In x tb /\ ~ In x db).
  { intros x. unfold Pb. rewrite cp_inner_in. cbn [concat]. rewrite app_nil_r. reflexivity. }
  assert (Hdec : forall (x : nat) (l : list nat), In x l \/ ~ In x l).
  { intros x l. destruct (in_dec Nat.eq_dec x l); tauto. }
  apply tensor_ext.
  - apply einsum_ref_wf.
  - apply einsum_ref_wf.
  - rewrite (cp_ref_shape sz _ _ _ HS2' Hio2'), (cp_ref_shape sz _ _ _ HS2 Hio2). reflexivity.
  - intros oidx Hv. rewrite (cp_ref_shape sz _ _ _ HS2' Hio2') in Hv.
    rewrite (cp_tget_ref sz _ _ _ _ HS2' Hio2' Hv), (cp_tget_ref sz _ _ _ _ HS2 Hio2 Hv).
    fold I I'.
    set (r0 := elook (combine out oidx)).
    (* right side: reorder the labels, then split the iterated sum *)
    assert (HP : Permutation I (I' ++ Pa ++ Pb)).
    { apply NoDup_Permutation.
      - apply cp_inner_nodup.
      - apply NoDup_app_intro; [apply cp_inner_nodup| |].
        + apply NoDup_app_intro; [apply cp_inner_nodup|apply cp_inner_nodup|].
          intros x Hx Hx'. apply HPa in Hx. apply HPb in Hx'.
          rewrite Hda in Hx. rewrite Hdb in Hx'. tauto.
        + intros x Hx Hx'. apply HI' in Hx. apply in_app_or in Hx'.
          rewrite HPa, HPb, Hda, Hdb in Hx'. rewrite Hda, Hdb in Hx. tauto.
      - intros x. rewrite !in_app_iff, HI, HI', HPa, HPb, !Hda, !Hdb.
        destruct (Hdec x ta), (Hdec x tb), (Hdec x out); tauto. }
    rewrite (cp_lsum_perm sz _ I (I' ++ Pa ++ Pb) (cp_Gn_ext _ _) HP (cp_inner_nodup _ _)).
    rewrite cp_lsum_app.
    apply cp_lsum_ext_bd. intros r Hbd Hout.
    assert (Hr : forall x, In x da \/ In x db -> r x < sz x).
    { intros x Hx. destruct (Hdec x out) as [Ho|Ho].
      - rewrite Hout by (intros Hc; apply HI' in Hc; tauto).
        apply (ff_elook_valid sz out oidx Hv x Ho).
      - apply Hbd, HI'. tauto. }
    rewrite cp_Gn2.
    unfold A', B'.
    rewrite (cp_tget_pre sz ta a da r Ha Hia), (cp_tget_pre sz tb b db r Hb Hib).
    + fold Pa Pb. symmetry.
      rewrite (cp_lsum_ext_G sz (Pa ++ Pb) _
                 (fun r' => (cp_Gn [ta] [a] r' * cp_Gn [tb] [b] r')%Z))
        by (intros r'; rewrite cp_Gn2, !cp_Gn1; reflexivity).
      apply (cp_lsum_prod sz (concat [ta]) (concat [tb])); try apply cp_Gn_dep.
      * intros y Hy Hc. cbn [concat] in Hy. rewrite app_nil_r in Hy.
        apply HPb in Hc. rewrite Hdb in Hc. tauto.
      * intros y Hy Hc. cbn [concat] in Hy. rewrite app_nil_r in Hy.
        apply HPa in Hc. rewrite Hda in Hc. tauto.
    + intros x Hx Hn. fold Pb in Hn. rewrite HPb in Hn. destruct (Hdec x db); tauto.
    + intros x Hx. apply Hr. tauto.
    + intros x Hx Hn. fold Pa in Hn. rewrite HPa in Hn. destruct (Hdec x da); tauto.
    + intros x Hx. apply Hr. tauto.
Qed.

(* the statement with the hypotheses as in the task description *)
Corollary cp_pre_sum_compose' ta tb out da db a b :
  NoDup ta -> NoDup tb -> NoDup out -> incl out (ta ++ tb) ->
  length ta = length (tshape a) -> length tb = length (tshape b) ->
  (exists sz : nat -> nat, tshape a = map sz ta /\ tshape b = map sz tb) ->
  NoDup da -> (forall x, In x da <-> In x ta /\ (In x tb \/ In x out)) ->
  NoDup db -> (forall x, In x db <-> In x tb /\ (In x ta \/ In x out)) ->
  einsum_ref [da; db] out [einsum_ref [ta] da [a]; einsum_ref [tb] db [b]] =
  einsum_ref [ta; tb] out [a; b].
Proof.
  intros _ _ _ Hio _ _ (sz & Ha & Hb) _ Hda _ Hdb.
  apply (cp_pre_sum_compose sz); assumption.
Qed.

(* special case: nothing is private, the pre-steps are pure transpositions *)
Corollary cp_pre_transpose_compose sz ta tb out da db a b :
  incl out (ta ++ tb) ->
  tshape a = map sz ta -> tshape b = map sz tb ->
  (forall x, In x ta -> In x tb \/ In x out) -> (forall x, In x tb -> In x ta \/ In x out) ->
  (forall x, In x da <-> In x ta) -> (forall x, In x db <-> In x tb) ->
  einsum_ref [da; db] out [einsum_ref [ta] da [a]; einsum_ref [tb] db [b]] =
  einsum_ref [ta; tb] out [a; b].
Proof.
  intros Hio Ha Hb Hna Hnb Hda Hdb.
  apply (cp_pre_sum_compose sz); try assumption.
  - intros x. rewrite Hda. split; [intros H; split; [exact H|apply Hna, H]|tauto].
  - intros x. rewrite Hdb. split; [intros H; split; [exact H|apply Hnb, H]|tauto].
Qed.

(* special case: only the first operand is pre-processed (b is used as it is) *)
Corollary cp_pre_sum_left sz ta tb out da a b :
  incl out (ta ++ tb) -> NoDup tb ->
  tshape a = map sz ta -> tshape b = map sz tb -> wf_tensor b = true ->
  (forall x, In x tb -> In x ta \/ In x out) ->
  (forall x, In x da <-> In x ta /\ (In x tb \/ In x out)) ->
  einsum_ref [da; tb] out [einsum_ref [ta] da [a]; b] = einsum_ref [ta; tb] out [a; b].
Proof.
  intros Hio NDb Ha Hb Hwf Hnb Hda.
  rewrite <- (cp_pre_sum_compose sz ta tb out da tb a b); try assumption.
  - rewrite (ff_einsum_ref_id tb b); [reflexivity|exact NDb| |exact Hwf].
    rewrite Hb, map_length. reflexivity.
  - intros x. split; [intros H; split; [exact H|apply Hnb, H]|tauto].
Qed.

Corollary cp_pre_sum_right sz ta tb out db a b :
  incl out (ta ++ tb) -> NoDup ta ->
  tshape a = map sz ta -> tshape b = map sz tb -> wf_tensor a = true ->
  (forall x, In x ta -> In x tb \/ In x out) ->
  (forall x, In x db <-> In x tb /\ (In x ta \/ In x out)) ->
  einsum_ref [ta; db] out [a; einsum_ref [tb] db [b]] = einsum_ref [ta; tb] out [a; b].
Proof.
  intros Hio NDa Ha Hb Hwf Hna Hdb.
  rewrite <- (cp_pre_sum_compose sz ta tb out ta db a b); try assumption.
  - rewrite (ff_einsum_ref_id ta a); [reflexivity|exact NDa| |exact Hwf].
    rewrite Ha, map_length. reflexivity.
  - intros x. split; [intros H; split; [exact H|apply Hna, H]|tauto].
Qed.

(* ================================================================== *)
(* PART 5 (PlanFacts): end-to-end correctness chain *)

(* ------------------------------------------------------------------ *)
(* L1: splitting the equation string                                   *)

Lemma pl_parse_bmm_split ta tb out sa sb :
  Forall (fun c => 4 <= c) ta -> Forall (fun c => 4 <= c) tb -> Forall (fun c => 4 <= c) out ->
  parse_bmm (eq2 ta tb out) sa sb = parse_bmm_terms ta sa tb sb out.
Proof. exact (ff_parse_bmm_eq2 ta tb out sa sb). Qed.

(* ------------------------------------------------------------------ *)
(* L2: classification when every dimension is >= 2                     *)

Definition pl_bat (ta tb out : str) : list nat := filter (fun x => memb x tb && memb x out) ta.
Definition pl_con (ta tb out : str) : list nat := filter (fun x => memb x tb && negb (memb x out)) ta.
Definition pl_ak (ta tb out : str) : list nat := filter (fun x => negb (memb x tb) && memb x out) ta.
Definition pl_bk (ta tb out : str) : list nat := filter (fun x => negb (memb x ta) && memb x out) tb.

Definition pl_upd (ix d : nat) (sizes : legs) : legs :=
  match lget ix sizes with Some _ => sizes | None => lset ix d sizes end.

Definition pl_szok (sz : nat -> nat) (sizes : legs) : Prop :=
  forall x v, lget x sizes = Some v -> v = sz x.

Lemma pl_upd_facts sz ix sizes :
  pl_szok sz sizes ->
  pl_szok sz (pl_upd ix (sz ix) sizes) /\
  lget ix (pl_upd ix (sz ix) sizes) = Some (sz ix) /\
  (forall x v, lget x sizes = Some v -> lget x (pl_upd ix (sz ix) sizes) = Some v).
Proof.
  intros Hok. unfold pl_upd.
  destruct (lget ix sizes) as [v|] eqn:E.
  - split; [exact Hok|]. split; [|auto].
    rewrite E. f_equal. apply Hok. exact E.
  - split; [|split].
    + intros x v Hx. destruct (Nat.eq_dec x ix) as [->|Hne].
      * rewrite lget_lset_same in Hx. congruence.
      * rewrite lget_lset_other in Hx by exact Hne. apply Hok. exact Hx.
    + apply lget_lset_same.
    + intros x v Hx. destruct (Nat.eq_dec x ix) as [->|Hne].
      * congruence.
      * rewrite lget_lset_other by exact Hne. exact Hx.
Qed.

Lemma pl_nonsing_big sz t : (forall x, 2 <= sz x) -> nonsing (combine t (map sz t)) = t.
Proof.
  intros Hsz. induction t as [|a t IH]; [reflexivity|].
  cbn [map combine]. rewrite nonsing_cons_big.
  - rewrite IH. reflexivity.
  - apply Nat.eqb_neq. specialize (Hsz a). lia.
Qed.

Lemma pl_scan_a_some sz b_term out : (forall x, 2 <= sz x) ->
  forall t bat con keep sizes sing seen,
  pl_szok sz sizes ->
  exists bat' con' keep' sizes',
    scan_a b_term out (combine t (map sz t)) bat con keep sizes sing seen
      = Some (bat', con', keep', sizes', sing) /\
    pl_szok sz sizes' /\
    (forall x, In x t -> lget x sizes' = Some (sz x)) /\
    (forall x v, lget x sizes = Some v -> lget x sizes' = Some v).
Proof.
  intros Hsz. induction t as [|a t IH]; intros bat con keep sizes sing seen Hok.
  - cbn [map combine scan_a]. exists bat, con, keep, sizes.
    split; [reflexivity|]. split; [exact Hok|]. split; [intros x []|auto].
  - cbn [map combine scan_a].
    assert (E1 : Nat.eqb (sz a) 1 = false) by (apply Nat.eqb_neq; specialize (Hsz a); lia).
    rewrite E1.
    fold (pl_upd a (sz a) sizes).
    destruct (pl_upd_facts sz a sizes Hok) as (Hok' & Hget & Hmono).
    assert (E2 : lget0 a (pl_upd a (sz a) sizes) = sz a) by (unfold lget0; rewrite Hget; reflexivity).
    rewrite E2, Nat.eqb_refl. cbn [negb].
    assert (K : forall bat1 con1 keep1 seen1,
      exists bat' con' keep' sizes',
        scan_a b_term out (combine t (map sz t)) bat1 con1 keep1 (pl_upd a (sz a) sizes) sing seen1
          = Some (bat', con', keep', sizes', sing) /\
        pl_szok sz sizes' /\
        (forall x, In x (a :: t) -> lget x sizes' = Some (sz x)) /\
        (forall x v, lget x sizes = Some v -> lget x sizes' = Some v)).
    { intros bat1 con1 keep1 seen1.
      destruct (IH bat1 con1 keep1 (pl_upd a (sz a) sizes) sing seen1 Hok')
        as (b' & c' & k' & s' & Hs & Hoks & Hin & Hm).
      exists b', c', k', s'. split; [exact Hs|]. split; [exact Hoks|]. split.
      - intros x [<-|Hx]; [apply Hm; exact Hget|apply Hin; exact Hx].
      - intros x v Hx. apply Hm. apply Hmono. exact Hx. }
    destruct (memb a seen); [apply K|].
    destruct (memb a b_term); destruct (memb a out); apply K.
Qed.

Lemma pl_scan_b_some sz a_term out : (forall x, 2 <= sz x) ->
  forall t keep sizes seen,
  pl_szok sz sizes ->
  exists keep' sizes',
    scan_b a_term out (combine t (map sz t)) keep sizes [] seen
      = Some (keep', sizes', []) /\
    pl_szok sz sizes' /\
    (forall x, In x t -> lget x sizes' = Some (sz x)) /\
    (forall x v, lget x sizes = Some v -> lget x sizes' = Some v).
Proof.
  intros Hsz. induction t as [|a t IH]; intros keep sizes seen Hok.
  - cbn [map combine scan_b]. exists keep, sizes.
    split; [reflexivity|]. split; [exact Hok|]. split; [intros x []|auto].
  - cbn [map combine scan_b].
    assert (E1 : Nat.eqb (sz a) 1 = false) by (apply Nat.eqb_neq; specialize (Hsz a); lia).
    rewrite E1.
    fold (pl_upd a (sz a) sizes).
    destruct (pl_upd_facts sz a sizes Hok) as (Hok' & Hget & Hmono).
    assert (E2 : lget0 a (pl_upd a (sz a) sizes) = sz a) by (unfold lget0; rewrite Hget; reflexivity).
    rewrite E2, Nat.eqb_refl. cbn [negb remove_all filter].
    assert (K : forall keep1 seen1,
      exists keep' sizes',
        scan_b a_term out (combine t (map sz t)) keep1 (pl_upd a (sz a) sizes) [] seen1
          = Some (keep', sizes', []) /\
        pl_szok sz sizes' /\
        (forall x, In x (a :: t) -> lget x sizes' = Some (sz x)) /\
        (forall x v, lget x sizes = Some v -> lget x sizes' = Some v)).
    { intros keep1 seen1.
      destruct (IH keep1 (pl_upd a (sz a) sizes) seen1 Hok')
        as (k' & s' & Hs & Hoks & Hin & Hm).
      exists k', s'. split; [exact Hs|]. split; [exact Hoks|]. split.
      - intros x [<-|Hx]; [apply Hm; exact Hget|apply Hin; exact Hx].
      - intros x v Hx. apply Hm. apply Hmono. exact Hx. }
    destruct (memb a seen); [apply K|].
    destruct (negb (memb a a_term) && memb a out); apply K.
Qed.

Theorem pl_classify sz ta tb out :
  (forall x, 2 <= sz x) -> NoDup ta -> NoDup tb ->
  exists c, classify ta (map sz ta) tb (map sz tb) out = Some c /\
    c_bat c = pl_bat ta tb out /\ c_con c = pl_con ta tb out /\
    c_akeep c = pl_ak ta tb out /\ c_bkeep c = pl_bk ta tb out /\
    c_sing c = [] /\
    (forall x, In x (ta ++ tb) -> lget0 x (c_sizes c) = sz x).
Proof.
  intros Hsz Hda Hdb.
  assert (Hnil : pl_szok sz []) by (intros x v H; discriminate H).
  destruct (pl_scan_a_some sz tb out Hsz ta [] [] [] [] [] [] Hnil)
    as (b' & c' & k' & s' & Hs & Hoks & Hin & _).
  destruct (pl_scan_b_some sz ta out Hsz tb [] s' [] Hoks)
    as (k2 & s2 & Hs2 & Hoks2 & Hin2 & Hm2).
  assert (Hc : classify ta (map sz ta) tb (map sz tb) out = Some (mkCls b' c' k' k2 s2 [])).
  { unfold classify. rewrite Hs, Hs2. reflexivity. }
  eexists. split; [exact Hc|].
  pose proof (classify_partition _ _ _ _ _ _ Hc) as Hp.
  cbv zeta in Hp. rewrite !pl_nonsing_big in Hp by exact Hsz.
  rewrite !sf_unique_id in Hp by assumption.
  destruct Hp as (P1 & P2 & P3 & P4).
  split; [exact P1|]. split; [exact P2|]. split; [exact P3|]. split; [exact P4|].
  split; [reflexivity|].
  intros x Hx. cbn [c_sizes]. unfold lget0.
  apply in_app_or in Hx. destruct Hx as [Hx|Hx].
  - rewrite (Hm2 x (sz x)); [reflexivity|]. apply Hin. exact Hx.
  - rewrite (Hin2 x Hx). reflexivity.
Qed.

(* ------------------------------------------------------------------ *)
(* L3: the plan                                                        *)

Definition pl_G (sz : nat -> nat) (l : list nat) : nat := nprod (map sz l).
Definition pl_ragged (groups : list (list nat)) : bool :=
  existsb (fun g => negb (Nat.eqb (length g) 1)) groups.
Definition pl_gshape (sz : nat -> nat) (groups : list (list nat)) : option (list nat) :=
  if pl_ragged groups then Some (map (pl_G sz) groups) else None.
Definition pl_oshape (sz : nat -> nat) (groups : list (list nat)) : option (list nat) :=
  if pl_ragged groups then Some (map sz (concat groups)) else None.
Definition pl_lgroups (bat ak con : list nat) : list (list nat) :=
  match bat with [] => [ak; con] | _ => [bat; ak; con] end.
Definition pl_rgroups (bat con bk : list nat) : list (list nat) :=
  match bat with [] => [con; bk] | _ => [bat; con; bk] end.
Definition pl_ogroups (bat ak bk : list nat) : list (list nat) :=
  match bat with [] => [ak; bk] | _ => [bat; ak; bk] end.
Definition pl_perm (p : list nat) : option (list nat) :=
  if eqb p (seq 0 (length p)) then None else Some p.

Lemma pl_group_shape_sz sz sizes groups :
  (forall x, In x (concat groups) -> lget0 x sizes = sz x) ->
  group_shape sizes groups = pl_gshape sz groups.
Proof.
  intros H. unfold group_shape, pl_gshape, pl_ragged.
  match goal with |- context [if ?b then _ else _] => destruct b end; [|reflexivity].
  f_equal. apply map_ext_in. intros g Hg. unfold pl_G. f_equal.
  apply map_ext_in. intros x Hx. apply H.
  apply in_concat. exists g. split; assumption.
Qed.

Lemma pl_filter_memb_nil (l : list nat) : filter (fun ix => memb ix []) l = [].
Proof. apply sf_filter_nil. intros x _. reflexivity. Qed.

Lemma pl_out_incl ta tb out :
  incl out (ta ++ tb) -> incl out (pl_bat ta tb out ++ pl_ak ta tb out ++ pl_bk ta tb out).
Proof.
  intros Hi x Hx. pose proof (Hi x Hx) as Hab.
  assert (Hmo : memb x out = true) by (apply memb_In; exact Hx).
  unfold pl_bat, pl_ak, pl_bk.
  destruct (memb x ta) eqn:Ea.
  - apply memb_In in Ea. destruct (memb x tb) eqn:Eb.
    + apply in_or_app. left. apply filter_In. split; [exact Ea|]. rewrite Eb, Hmo. reflexivity.
    + apply in_or_app. right. apply in_or_app. left.
      apply filter_In. split; [exact Ea|]. rewrite Eb, Hmo. reflexivity.
  - assert (Hb : In x tb).
    { apply in_app_or in Hab. destruct Hab as [Ha|Hb]; [|exact Hb].
      apply memb_In in Ha. congruence. }
    apply in_or_app. right. apply in_or_app. right.
    apply filter_In. split; [exact Hb|]. rewrite Ea, Hmo. reflexivity.
Qed.

Lemma pl_parts_incl ta tb out :
  incl (pl_bat ta tb out) ta /\ incl (pl_con ta tb out) ta /\
  incl (pl_ak ta tb out) ta /\ incl (pl_bk ta tb out) tb.
Proof.
  unfold pl_bat, pl_con, pl_ak, pl_bk.
  repeat split; intros x Hx; apply filter_In in Hx; tauto.
Qed.

Theorem pl_plan_terms sz ta tb out :
  (forall x, 2 <= sz x) -> NoDup ta -> NoDup tb -> incl out (ta ++ tb) ->
  let bat := pl_bat ta tb out in let con := pl_con ta tb out in
  let ak := pl_ak ta tb out in let bk := pl_bk ta tb out in
  con <> [] ->
  exists p, index_all (bat ++ ak ++ bk) out = Some p /\
    parse_bmm_terms ta (map sz ta) tb (map sz tb) out =
    Some (mk_pre ta (bat ++ ak ++ con),
         (mk_pre tb (bat ++ con ++ bk),
         (pl_gshape sz (pl_lgroups bat ak con),
         (pl_gshape sz (pl_rgroups bat con bk),
         (pl_oshape sz (pl_ogroups bat ak bk),
         (pl_perm p, false)))))).
Proof.
  intros Hsz Hda Hdb Hio bat con ak bk Hcon.
  destruct (pl_classify sz ta tb out Hsz Hda Hdb) as (c & Hc & Cb & Cc & Ca & Ck & Cs & Hsizes).
  destruct (index_all_total _ _ (pl_out_incl ta tb out Hio)) as (p & Hp).
  fold bat ak bk in Hp. fold bat in Cb. fold con in Cc. fold ak in Ca. fold bk in Ck.
  exists p. split; [exact Hp|].
  destruct (pl_parts_incl ta tb out) as (Ib & Ic & Ia & Ik).
  fold bat in Ib. fold con in Ic. fold ak in Ia. fold bk in Ik.
  assert (Sb : forall x, In x bat -> lget0 x (c_sizes c) = sz x)
    by (intros x Hx; apply Hsizes, in_or_app; left; apply Ib; exact Hx).
  assert (Sc : forall x, In x con -> lget0 x (c_sizes c) = sz x)
    by (intros x Hx; apply Hsizes, in_or_app; left; apply Ic; exact Hx).
  assert (Sa : forall x, In x ak -> lget0 x (c_sizes c) = sz x)
    by (intros x Hx; apply Hsizes, in_or_app; left; apply Ia; exact Hx).
  assert (Sk : forall x, In x bk -> lget0 x (c_sizes c) = sz x)
    by (intros x Hx; apply Hsizes, in_or_app; right; apply Ik; exact Hx).
  unfold parse_bmm_terms.
  rewrite !map_length, !Nat.eqb_refl. cbn [negb].
  rewrite Hc, Cb, Cc, Ca, Ck, Cs.
  destruct con as [|c0 con'] eqn:Econ; [congruence|]. rewrite <- Econ in *.
  rewrite pl_filter_memb_nil. cbn [length repeat app Nat.eqb negb].
  assert (Hl : group_shape (c_sizes c) (pl_lgroups bat ak con) = pl_gshape sz (pl_lgroups bat ak con)).
  { apply pl_group_shape_sz. unfold pl_lgroups. intros x Hx.
    destruct bat; cbn [concat] in Hx; rewrite ?app_nil_r in Hx;
      repeat (apply in_app_or in Hx; destruct Hx as [Hx|Hx]); auto. }
  assert (Hr : group_shape (c_sizes c) (pl_rgroups bat con bk) = pl_gshape sz (pl_rgroups bat con bk)).
  { apply pl_group_shape_sz. unfold pl_rgroups. intros x Hx.
    destruct bat; cbn [concat] in Hx; rewrite ?app_nil_r in Hx;
      repeat (apply in_app_or in Hx; destruct Hx as [Hx|Hx]); auto. }
  assert (Ho : map (fun ix => lget0 ix (c_sizes c)) (concat (pl_ogroups bat ak bk))
               = map sz (concat (pl_ogroups bat ak bk))).
  { apply map_ext_in. unfold pl_ogroups. intros x Hx.
    destruct bat; cbn [concat] in Hx; rewrite ?app_nil_r in Hx;
      repeat (apply in_app_or in Hx; destruct Hx as [Hx|Hx]); auto. }
  unfold pl_oshape, pl_perm, pl_ragged. rewrite <- Hl, <- Hr, <- Ho.
  unfold pl_lgroups, pl_rgroups, pl_ogroups.
  clearbody bat con ak bk.
  destruct bat; rewrite Hp, orb_false_r; reflexivity.
Qed.

Theorem pl_plan sz ta tb out :
  (forall x, 2 <= sz x) -> NoDup ta -> NoDup tb -> incl out (ta ++ tb) ->
  Forall (fun c => 4 <= c) ta -> Forall (fun c => 4 <= c) tb -> Forall (fun c => 4 <= c) out ->
  let bat := pl_bat ta tb out in let con := pl_con ta tb out in
  let ak := pl_ak ta tb out in let bk := pl_bk ta tb out in
  con <> [] ->
  exists p, index_all (bat ++ ak ++ bk) out = Some p /\
    parse_bmm (eq2 ta tb out) (map sz ta) (map sz tb) =
    Some (mk_pre ta (bat ++ ak ++ con),
         (mk_pre tb (bat ++ con ++ bk),
         (pl_gshape sz (pl_lgroups bat ak con),
         (pl_gshape sz (pl_rgroups bat con bk),
         (pl_oshape sz (pl_ogroups bat ak bk),
         (pl_perm p, false)))))).
Proof.
  intros Hsz Hda Hdb Hio Fa Fb Fo bat con ak bk Hcon.
  rewrite pl_parse_bmm_split by assumption.
  apply pl_plan_terms; assumption.
Qed.

(* ------------------------------------------------------------------ *)
(* L4: what the one-operand pre-steps compute                          *)

Lemma pl_index_all_map t : forall d, incl d t ->
  index_all t d = Some (map (fun ix => match find_pos ix t with Some p => p | None => 0 end) d).
Proof.
  induction d as [|a d IH]; intros Hi; [reflexivity|].
  cbn [index_all map].
  assert (Ha : In a t) by (apply Hi; left; reflexivity).
  destruct (pf_find_pos_in a t Ha) as (q & Hq). rewrite Hq.
  rewrite IH; [reflexivity|]. intros x Hx. apply Hi. right. exact Hx.
Qed.

Lemma pl_set_eqb_incl s t : set_eqb s t = true -> incl s t /\ incl t s.
Proof.
  unfold set_eqb. intros H. apply andb_true_iff in H. destruct H as [H1 H2].
  rewrite forallb_forall in H1, H2.
  split; intros x Hx; apply memb_In; auto.
Qed.

Theorem pl_exec_pre t d x :
  NoDup t -> Forall (fun c => 4 <= c) t -> NoDup d -> incl d t ->
  length t = length (tshape x) -> wf_tensor x = true ->
  exec_pre (mk_pre t d) x = Some (einsum_ref [t] d [x]).
Proof.
  intros Hdt Ft Hdd Hi Hlen Hwf. unfold mk_pre.
  match goal with |- exec_pre (if ?b then _ else _) _ = _ => destruct b eqn:E end.
  - apply pf_list_eqb_eq in E. subst d. cbn [exec_pre].
    rewrite ff_einsum_ref_id by assumption. reflexivity.
  - destruct (Nat.eqb (length t) (length d) && set_eqb t d) eqn:E2.
    + apply andb_true_iff in E2. destruct E2 as [_ Hs].
      apply pl_set_eqb_incl in Hs. destruct Hs as [Htd _].
      cbn [exec_pre].
      pose proof (pl_index_all_map t d Hi) as Hp.
      destruct (index_all_perm_full _ _ _ Hp Hdd Hdt Htd) as [Hmap Hperm].
      rewrite (transpose_is_einsum x t _ Hdt Hlen Hperm).
      rewrite Hmap. reflexivity.
    + cbn [exec_pre]. change (t ++ [ARROW] ++ d) with (eq1 t d).
      apply ff_einsum_single_nodup; assumption.
Qed.

(* ------------------------------------------------------------------ *)
(* L5: shape and well-formedness of the pre-stepped operand            *)

Lemma pl_einsum_ref_single_shape sz t d x :
  tshape x = map sz t -> incl d t ->
  tshape (einsum_ref [t] d [x]) = map sz d /\ wf_tensor (einsum_ref [t] d [x]) = true.
Proof.
  intros Hs Hi. split; [|apply einsum_ref_wf].
  rewrite einsum_ref_shape, sf_label_sizes_single, Hs.
  apply map_ext_in. intros a Ha. apply ff_elook_combine_map. apply Hi. exact Ha.
Qed.

Corollary pl_exec_pre_sz sz t d x :
  NoDup t -> Forall (fun c => 4 <= c) t -> NoDup d -> incl d t ->
  tshape x = map sz t -> wf_tensor x = true ->
  exists y, exec_pre (mk_pre t d) x = Some y /\ y = einsum_ref [t] d [x] /\
    tshape y = map sz d /\ wf_tensor y = true.
Proof.
  intros Hdt Ft Hdd Hi Hs Hwf.
  exists (einsum_ref [t] d [x]). split.
  - apply pl_exec_pre; try assumption. rewrite Hs, map_length. reflexivity.
  - split; [reflexivity|]. apply pl_einsum_ref_single_shape; assumption.
Qed.

(* ------------------------------------------------------------------ *)
(* side facts needed to apply L4/L5 to the two pre-steps of the plan,  *)
(* and the meaning of the final permutation                            *)

Lemma pl_desired_a ta tb out : NoDup ta ->
  NoDup (pl_bat ta tb out ++ pl_ak ta tb out ++ pl_con ta tb out) /\
  incl (pl_bat ta tb out ++ pl_ak ta tb out ++ pl_con ta tb out) ta.
Proof.
  intros Hd. unfold pl_bat, pl_ak, pl_con. split.
  - apply NoDup_app_intro; [apply NoDup_filter; exact Hd| |].
    + apply NoDup_app_intro; [apply NoDup_filter; exact Hd|apply NoDup_filter; exact Hd|].
      intros x H1 H2. apply filter_In in H1, H2. destruct H1 as [_ H1], H2 as [_ H2].
      destruct (memb x tb); cbn in H1, H2; congruence.
    + intros x H1 H2. apply filter_In in H1. destruct H1 as [_ H1].
      apply in_app_or in H2. destruct H2 as [H2|H2]; apply filter_In in H2; destruct H2 as [_ H2];
        destruct (memb x tb); destruct (memb x out); cbn in H1, H2; congruence.
  - intros x Hx. repeat (apply in_app_or in Hx; destruct Hx as [Hx|Hx]);
      apply filter_In in Hx; tauto.
Qed.

Lemma pl_desired_b ta tb out : NoDup ta -> NoDup tb ->
  NoDup (pl_bat ta tb out ++ pl_con ta tb out ++ pl_bk ta tb out) /\
  incl (pl_bat ta tb out ++ pl_con ta tb out ++ pl_bk ta tb out) tb.
Proof.
  intros Hda Hdb. unfold pl_bat, pl_bk, pl_con. split.
  - apply NoDup_app_intro; [apply NoDup_filter; exact Hda| |].
    + apply NoDup_app_intro; [apply NoDup_filter; exact Hda|apply NoDup_filter; exact Hdb|].
      intros x H1 H2. apply filter_In in H1, H2. destruct H1 as [H1 _], H2 as [_ H2].
      apply memb_In in H1. rewrite H1 in H2. cbn in H2. congruence.
    + intros x H1 H2. apply filter_In in H1. destruct H1 as [H1a H1].
      apply in_app_or in H2. destruct H2 as [H2|H2]; apply filter_In in H2; destruct H2 as [_ H2].
      * destruct (memb x tb); destruct (memb x out); cbn in H1, H2; congruence.
      * apply memb_In in H1a. rewrite H1a in H2. cbn in H2. congruence.
  - intros x Hx. repeat (apply in_app_or in Hx; destruct Hx as [Hx|Hx]);
      apply filter_In in Hx; destruct Hx as [Hx Hp].
    + apply andb_true_iff in Hp. apply memb_In. tauto.
    + apply andb_true_iff in Hp. apply memb_In. tauto.
    + exact Hx.
Qed.

Lemma pl_produced_nodup ta tb out : NoDup ta -> NoDup tb ->
  NoDup (pl_bat ta tb out ++ pl_ak ta tb out ++ pl_bk ta tb out) /\
  incl (pl_bat ta tb out ++ pl_ak ta tb out ++ pl_bk ta tb out) out.
Proof.
  intros Hda Hdb. unfold pl_bat, pl_bk, pl_ak. split.
  - apply NoDup_app_intro; [apply NoDup_filter; exact Hda| |].
    + apply NoDup_app_intro; [apply NoDup_filter; exact Hda|apply NoDup_filter; exact Hdb|].
      intros x H1 H2. apply filter_In in H1, H2. destruct H1 as [H1 _], H2 as [_ H2].
      apply memb_In in H1. rewrite H1 in H2. cbn in H2. congruence.
    + intros x H1 H2. apply filter_In in H1. destruct H1 as [H1a H1].
      apply in_app_or in H2. destruct H2 as [H2|H2]; apply filter_In in H2; destruct H2 as [_ H2].
      * destruct (memb x tb); destruct (memb x out); cbn in H1, H2; congruence.
      * apply memb_In in H1a. rewrite H1a in H2. cbn in H2. congruence.
  - intros x Hx. repeat (apply in_app_or in Hx; destruct Hx as [Hx|Hx]);
      apply filter_In in Hx; destruct Hx as [_ Hp];
      apply andb_true_iff in Hp; apply memb_In; tauto.
Qed.

(* the p of pl_plan is a permutation that reorders bat ++ ak ++ bk into out *)
Lemma pl_plan_perm_meaning ta tb out p :
  NoDup ta -> NoDup tb -> NoDup out ->
  index_all (pl_bat ta tb out ++ pl_ak ta tb out ++ pl_bk ta tb out) out = Some p ->
  map (fun k => nth k (pl_bat ta tb out ++ pl_ak ta tb out ++ pl_bk ta tb out) 0) p = out /\
  is_perm p (length (pl_bat ta tb out ++ pl_ak ta tb out ++ pl_bk ta tb out)) = true /\
  (pl_perm p = None -> pl_bat ta tb out ++ pl_ak ta tb out ++ pl_bk ta tb out = out).
Proof.
  intros Hda Hdb Hdo Hp.
  destruct (pl_produced_nodup ta tb out Hda Hdb) as [Hnd Hinc].
  destruct (index_all_perm_full _ _ _ Hp Hdo Hnd Hinc) as [Hmap Hperm].
  split; [exact Hmap|]. split; [exact Hperm|].
  unfold pl_perm. intros Hnone.
  destruct (eqb p (seq 0 (length p))) eqn:E; [|discriminate Hnone].
  apply pf_list_eqb_eq in E.
  apply sf_is_perm_elim in Hperm. destruct Hperm as [Hlen _].
  etransitivity; [|exact Hmap]. rewrite E, Hlen.
  symmetry. apply sf_map_nth_seq.
Qed.

(* L4 + L5 instantiated at the two pre-steps of the plan *)
Corollary pl_pre_a sz ta tb out a :
  NoDup ta -> Forall (fun c => 4 <= c) ta ->
  tshape a = map sz ta -> wf_tensor a = true ->
  let da := pl_bat ta tb out ++ pl_ak ta tb out ++ pl_con ta tb out in
  exec_pre (mk_pre ta da) a = Some (einsum_ref [ta] da [a]) /\
  tshape (einsum_ref [ta] da [a]) = map sz da /\ wf_tensor (einsum_ref [ta] da [a]) = true.
Proof.
  intros Hd Fa Hs Hwf da.
  destruct (pl_desired_a ta tb out Hd) as [Hnd Hinc]. fold da in Hnd, Hinc.
  split.
  - apply pl_exec_pre; try assumption. rewrite Hs, map_length. reflexivity.
  - apply pl_einsum_ref_single_shape; assumption.
Qed.

Corollary pl_pre_b sz ta tb out b :
  NoDup ta -> NoDup tb -> Forall (fun c => 4 <= c) tb ->
  tshape b = map sz tb -> wf_tensor b = true ->
  let db := pl_bat ta tb out ++ pl_con ta tb out ++ pl_bk ta tb out in
  exec_pre (mk_pre tb db) b = Some (einsum_ref [tb] db [b]) /\
  tshape (einsum_ref [tb] db [b]) = map sz db /\ wf_tensor (einsum_ref [tb] db [b]) = true.
Proof.
  intros Hda Hdb Fb Hs Hwf db.
  destruct (pl_desired_b ta tb out Hda Hdb) as [Hnd Hinc]. fold db in Hnd, Hinc.
  split.
  - apply pl_exec_pre; try assumption. rewrite Hs, map_length. reflexivity.
  - apply pl_einsum_ref_single_shape; assumption.
Qed.

(* ================================================================== *)
(* PART 5 (CoreFacts): end-to-end correctness chain *)
(* CoreFacts.v -- "fuse the index groups by reshape, (batched) matmul, un-fuse by
   reshape" computes the reference einsum: the executor core of
   _do_contraction_via_bmm, for arbitrary group lengths, sizes >= 1 and data. *)

(* ================================================================== *)
(* 0. valid indices of concatenated shapes                             *)

Lemma cf_valid_app s1 s2 i1 i2 :
  valid_idx s1 i1 -> valid_idx s2 i2 -> valid_idx (s1 ++ s2) (i1 ++ i2).
Proof. unfold valid_idx. intros H1 H2. apply Forall2_app; assumption. Qed.

Lemma cf_valid_split s1 s2 idx :
  valid_idx (s1 ++ s2) idx ->
  exists i1 i2, idx = i1 ++ i2 /\ valid_idx s1 i1 /\ valid_idx s2 i2.
Proof.
  unfold valid_idx. intros H. apply Forall2_app_inv_r in H.
  destruct H as (i1 & i2 & H1 & H2 & E). exists i1, i2. split; [exact E|]. split; assumption.
Qed.

Lemma cf_valid_split3 s1 s2 s3 idx :
  valid_idx (s1 ++ s2 ++ s3) idx ->
  exists i1 i2 i3, idx = i1 ++ i2 ++ i3 /\ valid_idx s1 i1 /\ valid_idx s2 i2 /\ valid_idx s3 i3.
Proof.
  intros H. destruct (cf_valid_split _ _ _ H) as (i1 & r & -> & H1 & Hr).
  destruct (cf_valid_split _ _ _ Hr) as (i2 & i3 & -> & H2 & H3).
  exists i1, i2, i3. repeat split; assumption.
Qed.

Lemma cf_nprod3 x y z : nprod [x; y; z] = x * y * z.
Proof. rewrite !nprod_cons, nprod_nil. lia. Qed.

Lemma cf_nprod2 x y : nprod [x; y] = x * y.
Proof. rewrite !nprod_cons, nprod_nil. lia. Qed.

(* ================================================================== *)
(* C1. reading a fused (reshaped) tensor                               *)

Lemma cf_ravel_fuse3 s1 s2 s3 i1 i2 i3 :
  length i1 = length s1 -> length i2 = length s2 ->
  ravel [nprod s1; nprod s2; nprod s3] [ravel s1 i1; ravel s2 i2; ravel s3 i3]
  = ravel (s1 ++ s2 ++ s3) (i1 ++ i2 ++ i3).
Proof.
  intros H1 H2. rewrite !ravel_app by assumption. rewrite nprod_app.
  cbn [ravel]. rewrite !nprod_cons, nprod_nil. lia.
Qed.

Lemma cf_ravel_fuse2 s1 s2 i1 i2 :
  length i1 = length s1 ->
  ravel [nprod s1; nprod s2] [ravel s1 i1; ravel s2 i2] = ravel (s1 ++ s2) (i1 ++ i2).
Proof.
  intros H1. rewrite !ravel_app by assumption.
  cbn [ravel]. rewrite !nprod_cons, nprod_nil. lia.
Qed.

(* raw-data forms (no well-formedness needed) *)
Lemma cf_tget_fuse3_raw s1 s2 s3 (d : list Z) i1 i2 i3 :
  length i1 = length s1 -> length i2 = length s2 ->
  tget ([nprod s1; nprod s2; nprod s3], d) [ravel s1 i1; ravel s2 i2; ravel s3 i3]
  = tget (s1 ++ s2 ++ s3, d) (i1 ++ i2 ++ i3).
Proof.
  intros H1 H2. unfold tget, tshape, tdata. cbn [fst snd].
  rewrite cf_ravel_fuse3 by assumption. reflexivity.
Qed.

Lemma cf_tget_fuse2_raw s1 s2 (d : list Z) i1 i2 :
  length i1 = length s1 ->
  tget ([nprod s1; nprod s2], d) [ravel s1 i1; ravel s2 i2] = tget (s1 ++ s2, d) (i1 ++ i2).
Proof.
  intros H1. unfold tget, tshape, tdata. cbn [fst snd].
  rewrite cf_ravel_fuse2 by assumption. reflexivity.
Qed.

Lemma cf_reshape_some t s :
  wf_tensor t = true -> nprod s = nprod (tshape t) -> reshape t s = Some (s, tdata t).
Proof.
  intros Hwf E. unfold reshape. unfold wf_tensor in Hwf. apply Nat.eqb_eq in Hwf.
  rewrite E, <- Hwf, Nat.eqb_refl. reflexivity.
Qed.

Theorem cf_fused_read3 t s1 s2 s3 :
  wf_tensor t = true -> tshape t = s1 ++ s2 ++ s3 ->
  reshape t [nprod s1; nprod s2; nprod s3] = Some ([nprod s1; nprod s2; nprod s3], tdata t) /\
  forall i1 i2 i3, valid_idx s1 i1 -> valid_idx s2 i2 -> valid_idx s3 i3 ->
    tget ([nprod s1; nprod s2; nprod s3], tdata t) [ravel s1 i1; ravel s2 i2; ravel s3 i3]
    = tget t (i1 ++ i2 ++ i3).
Proof.
  intros Hwf Hs. split.
  - apply cf_reshape_some; [exact Hwf|]. rewrite Hs, cf_nprod3, !nprod_app. lia.
  - intros i1 i2 i3 H1 H2 H3.
    rewrite cf_tget_fuse3_raw by (apply sf_valid_idx_length; assumption).
    rewrite <- Hs. destruct t as [s d]. reflexivity.
Qed.

Theorem cf_fused_read2 t s1 s2 :
  wf_tensor t = true -> tshape t = s1 ++ s2 ->
  reshape t [nprod s1; nprod s2] = Some ([nprod s1; nprod s2], tdata t) /\
  forall i1 i2, valid_idx s1 i1 -> valid_idx s2 i2 ->
    tget ([nprod s1; nprod s2], tdata t) [ravel s1 i1; ravel s2 i2] = tget t (i1 ++ i2).
Proof.
  intros Hwf Hs. split.
  - apply cf_reshape_some; [exact Hwf|]. rewrite Hs, cf_nprod2, !nprod_app. lia.
  - intros i1 i2 H1 H2.
    rewrite cf_tget_fuse2_raw by (apply sf_valid_idx_length; assumption).
    rewrite <- Hs. destruct t as [s d]. reflexivity.
Qed.

(* ================================================================== *)
(* C2. re-indexing a sum over a fused axis                             *)

Lemma cf_all_idx_unravel s : all_idx s = map (unravel s) (seq 0 (nprod s)).
Proof.
  apply (nth_ext _ _ [] (unravel s 0)).
  - rewrite map_length, seq_length. apply all_idx_length.
  - intros k Hk. rewrite all_idx_length in Hk.
    rewrite (nth_map_lt (unravel s) (seq 0 (nprod s)) k 0) by (rewrite seq_length; exact Hk).
    rewrite seq_nth by exact Hk. cbn [Nat.add]. apply all_idx_nth. exact Hk.
Qed.

Theorem cf_zsum_reindex (f : nat -> Z) s :
  zsum (map f (seq 0 (nprod s))) = zsum (map (fun idx => f (ravel s idx)) (all_idx s)).
Proof.
  f_equal. rewrite cf_all_idx_unravel, map_map.
  apply map_ext_in. intros k Hk. apply in_seq in Hk.
  rewrite ravel_unravel by lia. reflexivity.
Qed.

(* ================================================================== *)
(* C5. skipped reshapes                                                *)

Lemma cf_reshape_same t : wf_tensor t = true -> reshape t (tshape t) = Some t.
Proof.
  intros Hwf. rewrite cf_reshape_some by (try exact Hwf; reflexivity).
  destruct t as [s d]. reflexivity.
Qed.

Lemma cf_omaybe_reshape (o : option (list nat)) s t :
  wf_tensor t = true -> (o = None -> s = tshape t) -> (forall s', o = Some s' -> s' = s) ->
  omaybe o (fun s t => reshape t s) t = reshape t s.
Proof.
  intros Hwf H1 H2. destruct o as [s'|]; cbn [omaybe].
  - rewrite (H2 s' eq_refl). reflexivity.
  - rewrite (H1 eq_refl). symmetry. apply cf_reshape_same, Hwf.
Qed.

(* ================================================================== *)
(* unique on concatenations of duplicate-free lists                    *)

Lemma cf_unique_acc_seen_ext l : forall s1 s2, (forall x, memb x s1 = memb x s2) ->
  unique_acc s1 l = unique_acc s2 l.
Proof.
  induction l as [|x l IH]; intros s1 s2 H; cbn [unique_acc]; [reflexivity|].
  rewrite (H x). destruct (memb x s2); [apply IH, H|].
  f_equal. apply IH. intros y. cbn [memb existsb]. f_equal. apply H.
Qed.

Lemma cf_unique_acc_app l1 : forall seen l2, NoDup l1 -> (forall x, In x l1 -> ~ In x seen) ->
  unique_acc seen (l1 ++ l2) = l1 ++ unique_acc (l1 ++ seen) l2.
Proof.
  induction l1 as [|x l1 IH]; intros seen l2 ND Hd; cbn [app]; [reflexivity|].
  inversion ND as [|? ? Hn ND']; subst.
  cbn [unique_acc].
  assert (E : memb x seen = false) by (apply memb_false, Hd; left; reflexivity).
  rewrite E. f_equal. rewrite IH.
  - f_equal. apply cf_unique_acc_seen_ext. intros y.
    apply Bool.eq_iff_eq_true. rewrite !memb_In. cbn [In]. rewrite !in_app_iff. cbn [In]. tauto.
  - exact ND'.
  - intros y Hy [<-|Hs]; [exact (Hn Hy)|]. apply (Hd y); [right; exact Hy|exact Hs].
Qed.

Lemma cf_unique_acc_nodup l : forall seen, NoDup l ->
  unique_acc seen l = filter (fun x => negb (memb x seen)) l.
Proof.
  induction l as [|x l IH]; intros seen ND; cbn [unique_acc filter]; [reflexivity|].
  inversion ND as [|? ? Hn ND']; subst.
  destruct (memb x seen); cbn [negb]; [apply IH, ND'|].
  f_equal. rewrite IH by exact ND'. apply filter_ext_in. intros y Hy.
  cbn [memb existsb]. destruct (Nat.eqb_spec y x) as [->|Hne]; [tauto|reflexivity].
Qed.

Lemma cf_unique_app l1 l2 : NoDup l1 -> NoDup l2 ->
  unique (l1 ++ l2) = l1 ++ filter (fun x => negb (memb x l1)) l2.
Proof.
  intros N1 N2. unfold unique. rewrite cf_unique_acc_app by (try exact N1; intros x _ []).
  rewrite app_nil_r. rewrite cf_unique_acc_nodup by exact N2. reflexivity.
Qed.

(* environment lookups *)
Lemma cf_combine_app {A B} (k1 k2 : list A) (v1 v2 : list B) : length v1 = length k1 ->
  combine (k1 ++ k2) (v1 ++ v2) = combine k1 v1 ++ combine k2 v2.
Proof.
  revert v1. induction k1 as [|k k1 IH]; intros [|v v1] H; cbn [length] in H; try lia; cbn [app combine]; [reflexivity|].
  f_equal. apply IH. lia.
Qed.

Lemma cf_elook_hit k v e' : NoDup k -> length v = length k ->
  map (elook (combine k v ++ e')) k = v.
Proof.
  intros ND HL. rewrite <- (ff_map_elook_combine k v ND HL) at 2.
  apply map_ext_in. intros x Hx. apply elook_app_l.
  rewrite sf_map_fst_combine by exact HL. exact Hx.
Qed.

Lemma cf_elook_skip k v e' l : (forall x, In x l -> ~ In x k) ->
  map (elook (combine k v ++ e')) l = map (elook e') l.
Proof.
  intros Hd. apply map_ext_in. intros x Hx. apply elook_app_r.
  intros Hc. apply sf_in_combine_fst in Hc. exact (Hd x Hx Hc).
Qed.

(* ================================================================== *)
(* the setting                                                         *)

Section cf_core_section.
Variable sz : nat -> nat.
Variables bat ak con bk : list nat.
Hypothesis cf_ND : NoDup (bat ++ ak ++ con ++ bk).
Variables a b : tensor.
Hypothesis cf_wfa : wf_tensor a = true.
Hypothesis cf_wfb : wf_tensor b = true.
Hypothesis cf_sha : tshape a = map sz (bat ++ ak ++ con).
Hypothesis cf_shb : tshape b = map sz (bat ++ con ++ bk).

Local Notation P l := (nprod (map sz l)).
Let ta := bat ++ ak ++ con.
Let tb := bat ++ con ++ bk.
Let out := bat ++ ak ++ bk.

Lemma cf_disj :
  NoDup bat /\ NoDup ak /\ NoDup con /\ NoDup bk /\
  (forall x, In x bat -> ~ In x ak) /\ (forall x, In x bat -> ~ In x con) /\
  (forall x, In x bat -> ~ In x bk) /\ (forall x, In x ak -> ~ In x con) /\
  (forall x, In x ak -> ~ In x bk) /\ (forall x, In x con -> ~ In x bk).
Proof.
  destruct (NoDup_app_elim _ _ cf_ND) as (N1 & R1 & D1).
  destruct (NoDup_app_elim _ _ R1) as (N2 & R2 & D2).
  destruct (NoDup_app_elim _ _ R2) as (N3 & N4 & D3).
  repeat split; try assumption; intros x Hx Hy.
  - apply (D1 x Hx). rewrite !in_app_iff. tauto.
  - apply (D1 x Hx). rewrite !in_app_iff. tauto.
  - apply (D1 x Hx). rewrite !in_app_iff. tauto.
  - apply (D2 x Hx). rewrite !in_app_iff. tauto.
  - apply (D2 x Hx). rewrite !in_app_iff. tauto.
Qed.

Lemma cf_nodup_ta : NoDup ta.
Proof.
  destruct cf_disj as (N1 & N2 & N3 & N4 & D12 & D13 & D14 & D23 & D24 & D34).
  unfold ta. apply NoDup_app_intro; [exact N1|apply NoDup_app_intro; assumption|].
  intros x Hx. rewrite in_app_iff. intros [H|H]; [exact (D12 x Hx H)|exact (D13 x Hx H)].
Qed.

Lemma cf_nodup_tb : NoDup tb.
Proof.
  destruct cf_disj as (N1 & N2 & N3 & N4 & D12 & D13 & D14 & D23 & D24 & D34).
  unfold tb. apply NoDup_app_intro; [exact N1|apply NoDup_app_intro; assumption|].
  intros x Hx. rewrite in_app_iff. intros [H|H]; [exact (D13 x Hx H)|exact (D14 x Hx H)].
Qed.

Lemma cf_nodup_out : NoDup out.
Proof.
  destruct cf_disj as (N1 & N2 & N3 & N4 & D12 & D13 & D14 & D23 & D24 & D34).
  unfold out. apply NoDup_app_intro; [exact N1|apply NoDup_app_intro; assumption|].
  intros x Hx. rewrite in_app_iff. intros [H|H]; [exact (D12 x Hx H)|exact (D14 x Hx H)].
Qed.

(* label sizes *)
Lemma cf_label_sizes x : In x (ta ++ tb) -> elook (label_sizes [ta; tb] [a; b]) x = sz x.
Proof.
  intros Hx. unfold label_sizes. cbn [combine map fst snd concat]. rewrite app_nil_r.
  rewrite cf_sha, cf_shb. fold ta tb.
  destruct (in_dec Nat.eq_dec x ta) as [Hi|Hn].
  - rewrite elook_app_l by (rewrite sf_map_fst_combine by (rewrite map_length; reflexivity); exact Hi).
    apply ff_elook_combine_map, Hi.
  - rewrite elook_app_r by (intros Hc; apply sf_in_combine_fst in Hc; exact (Hn Hc)).
    apply ff_elook_combine_map. apply in_app_iff in Hx. tauto.
Qed.

Lemma cf_label_sizes_map l : incl l (ta ++ tb) ->
  map (elook (label_sizes [ta; tb] [a; b])) l = map sz l.
Proof. intros Hi. apply map_ext_in. intros x Hx. apply cf_label_sizes, Hi, Hx. Qed.

(* the summed labels are exactly con *)
Lemma cf_inner : sf_inner [ta; tb] out = con.
Proof.
  destruct cf_disj as (N1 & N2 & N3 & N4 & D12 & D13 & D14 & D23 & D24 & D34).
  unfold sf_inner. cbn [concat]. rewrite app_nil_r.
  rewrite cf_unique_app by (try apply cf_nodup_ta; apply cf_nodup_tb).
  unfold ta at 1, tb. rewrite !filter_app.
  assert (Hnil : forall (f : nat -> bool) l, (forall x, In x l -> f x = false) -> filter f l = [])
    by (intros; apply sf_filter_nil; assumption).
  assert (Hall : forall (f : nat -> bool) l, (forall x, In x l -> f x = true) -> filter f l = l)
    by (intros; apply sf_filter_all; assumption).
  rewrite (Hnil _ bat), (Hnil _ ak), (Hall _ con).
  - rewrite (Hnil (fun x => negb (memb x ta)) bat), (Hnil (fun x => negb (memb x ta)) con),
            (Hall (fun x => negb (memb x ta)) bk).
    + rewrite (Hnil _ bk); [cbn [app filter]; apply app_nil_r|].
      intros x Hx. apply negb_false_iff, memb_In. unfold out. rewrite !in_app_iff. tauto.
    + intros x Hx. apply negb_true_iff, memb_false. unfold ta. rewrite !in_app_iff.
      intros [H|[H|H]]; [exact (D14 x H Hx)|exact (D24 x H Hx)|exact (D34 x H Hx)].
    + intros x Hx. apply negb_false_iff, memb_In. unfold ta. rewrite !in_app_iff. tauto.
    + intros x Hx. apply negb_false_iff, memb_In. unfold ta. rewrite !in_app_iff. tauto.
  - intros x Hx. apply negb_true_iff, memb_false. unfold out. rewrite !in_app_iff.
    intros [H|[H|H]]; [exact (D13 x H Hx)|exact (D23 x H Hx)|exact (D34 x Hx H)].
  - intros x Hx. apply negb_false_iff, memb_In. unfold out. rewrite !in_app_iff. tauto.
  - intros x Hx. apply negb_false_iff, memb_In. unfold out. rewrite !in_app_iff. tauto.
Qed.

(* the semantic half: any well-formed c of the output shape whose entries are the
   contracted sums is the reference einsum *)
Lemma cf_core c :
  wf_tensor c = true -> tshape c = map sz out ->
  (forall ib im ik, valid_idx (map sz bat) ib -> valid_idx (map sz ak) im -> valid_idx (map sz bk) ik ->
     tget c (ib ++ im ++ ik) =
     zsum (map (fun cidx => (tget a (ib ++ im ++ cidx) * tget b (ib ++ cidx ++ ik))%Z)
               (all_idx (map sz con)))) ->
  c = einsum_ref [ta; tb] out [a; b].
Proof.
  intros Hwc Hsc Hpt.
  destruct cf_disj as (N1 & N2 & N3 & N4 & D12 & D13 & D14 & D23 & D24 & D34).
  assert (Hio : incl out (ta ++ tb)).
  { intros x. unfold out, ta, tb. rewrite !in_app_iff. tauto. }
  assert (Hic : incl con (ta ++ tb)).
  { intros x. unfold ta, tb. rewrite !in_app_iff. tauto. }
  apply tensor_ext.
  - exact Hwc.
  - apply einsum_ref_wf.
  - rewrite einsum_ref_shape, cf_label_sizes_map by exact Hio. exact Hsc.
  - intros idx Hv. rewrite Hsc in Hv.
    assert (Hv' := Hv). unfold out in Hv'. rewrite !map_app in Hv'.
    destruct (cf_valid_split3 _ _ _ _ Hv') as (ib & im & ik & -> & Hb & Hm & Hk).
    rewrite Hpt by assumption.
    rewrite tget_einsum_ref by (rewrite cf_label_sizes_map by exact Hio; exact Hv).
    rewrite cf_inner, cf_label_sizes_map by exact Hic.
    f_equal. apply map_ext_in. intros cidx Hc. apply in_all_idx in Hc.
    cbn [combine map fst snd]. rewrite sf_zprodl_pair.
    assert (Lb : length ib = length bat) by (rewrite (sf_valid_idx_length _ _ Hb); apply map_length).
    assert (Lm : length im = length ak) by (rewrite (sf_valid_idx_length _ _ Hm); apply map_length).
    assert (Lk : length ik = length bk) by (rewrite (sf_valid_idx_length _ _ Hk); apply map_length).
    assert (Lc : length cidx = length con) by (rewrite (sf_valid_idx_length _ _ Hc); apply map_length).
    unfold out. rewrite !cf_combine_app by assumption. rewrite <- !app_assoc.
    f_equal; f_equal; symmetry.
    + unfold ta. rewrite !map_app. f_equal; [apply cf_elook_hit; assumption|].
      f_equal.
      * rewrite cf_elook_skip by (intros x Hx Hy; exact (D12 x Hy Hx)). apply cf_elook_hit; assumption.
      * rewrite cf_elook_skip by (intros x Hx Hy; exact (D13 x Hy Hx)).
        rewrite cf_elook_skip by (intros x Hx Hy; exact (D23 x Hy Hx)).
        rewrite cf_elook_skip by (intros x Hx Hy; exact (D34 x Hx Hy)).
        apply ff_map_elook_combine; assumption.
    + unfold tb. rewrite !map_app. f_equal; [apply cf_elook_hit; assumption|].
      f_equal.
      * rewrite cf_elook_skip by (intros x Hx Hy; exact (D13 x Hy Hx)).
        rewrite cf_elook_skip by (intros x Hx Hy; exact (D23 x Hy Hx)).
        rewrite cf_elook_skip by (intros x Hx Hy; exact (D34 x Hx Hy)).
        apply ff_map_elook_combine; assumption.
      * rewrite cf_elook_skip by (intros x Hx Hy; exact (D14 x Hy Hx)).
        rewrite cf_elook_skip by (intros x Hx Hy; exact (D24 x Hy Hx)).
        apply cf_elook_hit; assumption.
Qed.

(* C3: the 3-D (batched) core; bat may be empty (P [] = 1) *)
Theorem cf_bmm3 :
  exists a3 b3 c3 c,
    reshape a [P bat; P ak; P con] = Some a3 /\
    reshape b [P bat; P con; P bk] = Some b3 /\
    matmul a3 b3 = Some c3 /\
    reshape c3 (map sz (bat ++ ak ++ bk)) = Some c /\
    c = einsum_ref [bat ++ ak ++ con; bat ++ con ++ bk] (bat ++ ak ++ bk) [a; b].
Proof.
  destruct (cf_fused_read3 a (map sz bat) (map sz ak) (map sz con) cf_wfa) as [Ra Ga].
  { rewrite cf_sha, !map_app. reflexivity. }
  destruct (cf_fused_read3 b (map sz bat) (map sz con) (map sz bk) cf_wfb) as [Rb Gb].
  { rewrite cf_shb, !map_app. reflexivity. }
  destruct (tget_matmul3 ([P bat; P ak; P con], tdata a) ([P bat; P con; P bk], tdata b)
                         (P bat) (P ak) (P con) (P bk) eq_refl eq_refl)
    as (c3 & Hmm & Hsc3 & Hwc3 & Hget).
  assert (Hre : reshape c3 (map sz (bat ++ ak ++ bk)) = Some (map sz (bat ++ ak ++ bk), tdata c3)).
  { apply cf_reshape_some; [exact Hwc3|]. rewrite Hsc3, cf_nprod3, !map_app, !nprod_app. lia. }
  destruct (reshape_wf _ _ _ Hre) as [Hwc Hsc].
  exists ([P bat; P ak; P con], tdata a), ([P bat; P con; P bk], tdata b), c3,
         (map sz (bat ++ ak ++ bk), tdata c3).
  split; [exact Ra|]. split; [exact Rb|]. split; [exact Hmm|]. split; [exact Hre|].
  apply cf_core; [exact Hwc|exact Hsc|].
  intros ib im ik Hb Hm Hk.
  rewrite !map_app.
  rewrite <- cf_tget_fuse3_raw by (apply sf_valid_idx_length; assumption).
  replace ([P bat; P ak; P bk], tdata c3) with c3
    by (destruct c3 as [s d]; cbn [tshape fst] in Hsc3; subst s; reflexivity).
  rewrite Hget by (apply ravel_lt; assumption).
  rewrite (cf_zsum_reindex _ (map sz con)).
  f_equal. apply map_ext_in. intros cidx Hc. apply in_all_idx in Hc.
  rewrite Ga, Gb by assumption. reflexivity.
Qed.

End cf_core_section.

(* C4: the 2-D core (no batch labels) *)
Theorem cf_mm2 (sz : nat -> nat) (ak con bk : list nat) (a b : tensor) :
  NoDup (ak ++ con ++ bk) ->
  wf_tensor a = true -> wf_tensor b = true ->
  tshape a = map sz (ak ++ con) -> tshape b = map sz (con ++ bk) ->
  exists a2 b2 c2 c,
    reshape a [nprod (map sz ak); nprod (map sz con)] = Some a2 /\
    reshape b [nprod (map sz con); nprod (map sz bk)] = Some b2 /\
    matmul a2 b2 = Some c2 /\
    reshape c2 (map sz (ak ++ bk)) = Some c /\
    c = einsum_ref [ak ++ con; con ++ bk] (ak ++ bk) [a; b].
Proof.
  intros ND Hwa Hwb Hsa Hsb.
  destruct (cf_fused_read2 a (map sz ak) (map sz con) Hwa) as [Ra Ga].
  { rewrite Hsa, !map_app. reflexivity. }
  destruct (cf_fused_read2 b (map sz con) (map sz bk) Hwb) as [Rb Gb].
  { rewrite Hsb, !map_app. reflexivity. }
  destruct (tget_matmul2 ([nprod (map sz ak); nprod (map sz con)], tdata a)
                         ([nprod (map sz con); nprod (map sz bk)], tdata b)
                         (nprod (map sz ak)) (nprod (map sz con)) (nprod (map sz bk)) eq_refl eq_refl)
    as (c2 & Hmm & Hsc2 & Hwc2 & Hget).
  assert (Hre : reshape c2 (map sz (ak ++ bk)) = Some (map sz (ak ++ bk), tdata c2)).
  { apply cf_reshape_some; [exact Hwc2|]. rewrite Hsc2, cf_nprod2, !map_app, !nprod_app. lia. }
  destruct (reshape_wf _ _ _ Hre) as [Hwc Hsc].
  exists ([nprod (map sz ak); nprod (map sz con)], tdata a),
         ([nprod (map sz con); nprod (map sz bk)], tdata b), c2,
         (map sz (ak ++ bk), tdata c2).
  split; [exact Ra|]. split; [exact Rb|]. split; [exact Hmm|]. split; [exact Hre|].
  apply (cf_core sz [] ak con bk ND a b Hsa Hsb); [exact Hwc|exact Hsc|].
  intros ib im ik Hb Hm Hk. apply sf_valid_idx_nil in Hb. subst ib. cbn [app].
  rewrite !map_app.
  rewrite <- cf_tget_fuse2_raw by (apply sf_valid_idx_length; assumption).
  replace ([nprod (map sz ak); nprod (map sz bk)], tdata c2) with c2
    by (destruct c2 as [s d]; cbn [tshape fst] in Hsc2; subst s; reflexivity).
  rewrite Hget by (apply ravel_lt; assumption).
  rewrite (cf_zsum_reindex _ (map sz con)).
  f_equal. apply map_ext_in. intros cidx Hc. apply in_all_idx in Hc.
  rewrite Ga, Gb by assumption. reflexivity.
Qed.

(* ================================================================== *)
(* C6. packaged for exec_bmm                                            *)

(* the fused shape the plan uses: 2-D when there is no batch label, else 3-D *)
Definition cf_G (sz : nat -> nat) (bat l1 l2 : list nat) : list nat :=
  match bat with
  | [] => [nprod (map sz l1); nprod (map sz l2)]
  | _ :: _ => [nprod (map sz bat); nprod (map sz l1); nprod (map sz l2)]
  end.

Theorem cf_exec_bmm (sz : nat -> nat) (bat ak con bk : list nat) (a b : tensor)
        (nsa nsb nsab : option (list nat)) :
  NoDup (bat ++ ak ++ con ++ bk) ->
  wf_tensor a = true -> wf_tensor b = true ->
  tshape a = map sz (bat ++ ak ++ con) -> tshape b = map sz (bat ++ con ++ bk) ->
  (nsa = None -> map sz (bat ++ ak ++ con) = cf_G sz bat ak con) ->
  (forall s, nsa = Some s -> s = cf_G sz bat ak con) ->
  (nsb = None -> map sz (bat ++ con ++ bk) = cf_G sz bat con bk) ->
  (forall s, nsb = Some s -> s = cf_G sz bat con bk) ->
  (nsab = None -> map sz (bat ++ ak ++ bk) = cf_G sz bat ak bk) ->
  (forall s, nsab = Some s -> s = map sz (bat ++ ak ++ bk)) ->
  exec_bmm (None, (None, (nsa, (nsb, (nsab, (None, false)))))) a b
  = Some (einsum_ref [bat ++ ak ++ con; bat ++ con ++ bk] (bat ++ ak ++ bk) [a; b]).
Proof.
  intros ND Hwa Hwb Hsa Hsb Ha0 Ha1 Hb0 Hb1 Hab0 Hab1.
  unfold exec_bmm. cbn [exec_pre obind].
  rewrite (cf_omaybe_reshape nsa (cf_G sz bat ak con) a Hwa)
    by (try exact Ha1; intros E; rewrite Hsa; symmetry; exact (Ha0 E)).
  assert (Hcore : exists a3 b3 c3 c,
            reshape a (cf_G sz bat ak con) = Some a3 /\
            reshape b (cf_G sz bat con bk) = Some b3 /\
            matmul a3 b3 = Some c3 /\ tshape c3 = cf_G sz bat ak bk /\ wf_tensor c3 = true /\
            reshape c3 (map sz (bat ++ ak ++ bk)) = Some c /\
            c = einsum_ref [bat ++ ak ++ con; bat ++ con ++ bk] (bat ++ ak ++ bk) [a; b]).
  { destruct bat as [|x bat'].
    - cbn [app] in *. unfold cf_G.
      destruct (cf_mm2 sz ak con bk a b ND Hwa Hwb Hsa Hsb) as (a2 & b2 & c2 & c & Ra & Rb & Hmm & Hre & Hc).
      exists a2, b2, c2, c. split; [exact Ra|]. split; [exact Rb|]. split; [exact Hmm|].
      destruct (reshape_wf _ _ _ Ra) as [_ Sa]. destruct (reshape_wf _ _ _ Rb) as [_ Sb].
      destruct (tget_matmul2 a2 b2 _ _ _ Sa Sb) as (t' & Hmm' & Hs' & Hw' & _).
      rewrite Hmm in Hmm'. inversion Hmm'; subst t'.
      split; [exact Hs'|]. split; [exact Hw'|]. split; [exact Hre|exact Hc].
    - unfold cf_G.
      destruct (cf_bmm3 sz (x :: bat') ak con bk ND a b Hwa Hwb Hsa Hsb) as (a3 & b3 & c3 & c & Ra & Rb & Hmm & Hre & Hc).
      exists a3, b3, c3, c. split; [exact Ra|]. split; [exact Rb|]. split; [exact Hmm|].
      destruct (reshape_wf _ _ _ Ra) as [_ Sa]. destruct (reshape_wf _ _ _ Rb) as [_ Sb].
      destruct (tget_matmul3 a3 b3 _ _ _ _ Sa Sb) as (t' & Hmm' & Hs' & Hw' & _).
      rewrite Hmm in Hmm'. inversion Hmm'; subst t'.
      split; [exact Hs'|]. split; [exact Hw'|]. split; [exact Hre|exact Hc]. }
  destruct Hcore as (a3 & b3 & c3 & c & Ra & Rb & Hmm & Hs3 & Hw3 & Hre & Hc).
  rewrite Ra. cbn [obind].
  rewrite (cf_omaybe_reshape nsb (cf_G sz bat con bk) b Hwb)
    by (try exact Hb1; intros E; rewrite Hsb; symmetry; exact (Hb0 E)).
  rewrite Rb. cbn [obind]. rewrite Hmm. cbn [obind].
  rewrite (cf_omaybe_reshape nsab (map sz (bat ++ ak ++ bk)) c3 Hw3)
    by (try exact Hab1; intros E; rewrite Hs3; exact (Hab0 E)).
  rewrite Hre. cbn [obind omaybe]. rewrite Hc. reflexivity.
Qed.

(* when every group is a single label the fused shape is the original shape,
   which is why the plan may skip the reshape (entry None) *)
Lemma cf_G_single3 sz x y z : map sz ([x] ++ [y] ++ [z]) = cf_G sz [x] [y] [z].
Proof. unfold cf_G. cbn [app map]. rewrite !nprod_cons, nprod_nil, !Nat.mul_1_r. reflexivity. Qed.

Lemma cf_G_single2 sz y z : map sz ([] ++ [y] ++ [z]) = cf_G sz [] [y] [z].
Proof. unfold cf_G. cbn [app map]. rewrite !nprod_cons, nprod_nil, !Nat.mul_1_r. reflexivity. Qed.

(* ================================================================== *)
(* PART 5 (DiagFacts): end-to-end correctness chain *)
(* DiagFacts.v -- one-operand einsum with REPEATED labels (diagonals, traces):
   the diagonal stage of _parse_einsum_single / _einsum_single, and the
   end-to-end theorem for every one-operand equation. *)

(* ================================================================== *)
(* A. counting                                                          *)

Lemma dg_count_app x l1 l2 : count x (l1 ++ l2) = count x l1 + count x l2.
Proof. unfold count. rewrite filter_app, app_length. reflexivity. Qed.

Lemma dg_count_in x l : In x l <-> 1 <= count x l.
Proof.
  induction l as [|y l IH]; [cbn; split; [tauto|lia]|].
  rewrite pf_count_cons. cbn [In]. destruct (Nat.eqb_spec x y) as [->|Hne].
  - split; [lia|auto].
  - cbn [Nat.add]. rewrite <- IH. split; [intros [H|H]; [congruence|exact H]|auto].
Qed.

Lemma dg_count_zero x l : count x l = 0 -> ~ In x l.
Proof. intros H Hin. apply dg_count_in in Hin. lia. Qed.

Lemma dg_count_repeat x k : count x (repeat x k) = k.
Proof.
  induction k as [|k IH]; [reflexivity|].
  cbn [repeat]. rewrite pf_count_cons, Nat.eqb_refl, IH. reflexivity.
Qed.

Lemma dg_count_le1_nodup l : (forall y, count y l <= 1) -> NoDup l.
Proof.
  induction l as [|z l IH]; intros H; constructor.
  - intros Hin. apply dg_count_in in Hin. specialize (H z).
    rewrite pf_count_cons, Nat.eqb_refl in H. lia.
  - apply IH. intros y. specialize (H y). rewrite pf_count_cons in H.
    destruct (Nat.eqb y z); lia.
Qed.

Lemma dg_count_remove_all y x l :
  count y (remove_all x l) = if Nat.eqb y x then 0 else count y l.
Proof.
  induction l as [|z l IH]; [destruct (Nat.eqb y x); reflexivity|].
  unfold remove_all in *. cbn [filter]. rewrite pf_count_cons.
  destruct (Nat.eqb_spec z x) as [->|Hzx]; cbn [negb].
  - rewrite IH. destruct (Nat.eqb_spec y x) as [->|Hyx]; [reflexivity|reflexivity].
  - rewrite pf_count_cons, IH.
    destruct (Nat.eqb_spec y x) as [->|Hyx]; [|reflexivity].
    destruct (Nat.eqb_spec x z) as [->|E]; [congruence|reflexivity].
Qed.

(* ================================================================== *)
(* B. insert_at / remove_at                                             *)

Lemma dg_firstn_app_len {A} (a b : list A) : firstn (length a) (a ++ b) = a.
Proof. induction a as [|z a IH]; [reflexivity|]. cbn [length app firstn]. rewrite IH. reflexivity. Qed.

Lemma dg_skipn_app_len {A} (a b : list A) : skipn (length a) (a ++ b) = b.
Proof. induction a as [|z a IH]; [reflexivity|]. cbn [length app skipn]. exact IH. Qed.

Lemma dg_insert_at_app {A} (a b : list A) x : insert_at (length a) x (a ++ b) = a ++ x :: b.
Proof. unfold insert_at. rewrite dg_firstn_app_len, dg_skipn_app_len. reflexivity. Qed.

Lemma dg_insert_at_map {A B} (f : A -> B) d x l :
  insert_at d (f x) (map f l) = map f (insert_at d x l).
Proof. unfold insert_at. rewrite firstn_map, skipn_map, map_app. reflexivity. Qed.

Lemma dg_remove_at_map {A B} (f : A -> B) d l :
  remove_at d (map f l) = map f (remove_at d l).
Proof. unfold remove_at. rewrite firstn_map, skipn_map, map_app. reflexivity. Qed.

Lemma dg_insert_at_split {A} d (x : A) l : d <= length l ->
  exists a b, l = a ++ b /\ length a = d /\ insert_at d x l = a ++ x :: b.
Proof.
  intros Hd. exists (firstn d l), (skipn d l). split; [symmetry; apply firstn_skipn|].
  split; [apply firstn_length_le, Hd|reflexivity].
Qed.

Lemma dg_nth_insert_at {A} d (x dflt : A) l : d <= length l -> nth d (insert_at d x l) dflt = x.
Proof.
  intros Hd. destruct (dg_insert_at_split d x l Hd) as (a & b & _ & Ha & ->).
  rewrite app_nth2 by lia. rewrite Ha, Nat.sub_diag. reflexivity.
Qed.

Lemma dg_remove_insert_at {A} d (x : A) l : d <= length l -> remove_at d (insert_at d x l) = l.
Proof.
  intros Hd. destruct (dg_insert_at_split d x l Hd) as (a & b & -> & Ha & ->).
  unfold remove_at. rewrite <- Ha.
  rewrite dg_firstn_app_len.
  change (a ++ x :: b) with (a ++ [x] ++ b). rewrite app_assoc.
  replace (S (length a)) with (length (a ++ [x])) by (rewrite app_length; cbn; lia).
  rewrite dg_skipn_app_len. reflexivity.
Qed.

Lemma dg_length_insert_at {A} d (x : A) l : length (insert_at d x l) = S (length l).
Proof.
  unfold insert_at. rewrite app_length. cbn [length].
  rewrite <- (firstn_skipn d l) at 3. rewrite app_length. lia.
Qed.

Lemma dg_in_insert_at {A} d (x y : A) l : In y (insert_at d x l) <-> y = x \/ In y l.
Proof.
  unfold insert_at. rewrite <- (firstn_skipn d l) at 3. rewrite !in_app_iff. cbn [In].
  split; [intros [H|[H|H]]; auto|intros [H|[H|H]]; auto].
Qed.

Lemma dg_count_insert_at d x y l :
  count y (insert_at d x l) = (if Nat.eqb y x then 1 else 0) + count y l.
Proof.
  unfold insert_at. rewrite <- (firstn_skipn d l) at 3.
  rewrite !dg_count_app, pf_count_cons. lia.
Qed.

(* ================================================================== *)
(* C. positions of a label; the contiguity test                         *)

Definition dg_pos (x : nat) (M : str) : list nat :=
  filter (fun j => Nat.eqb (nth j M 0) x) (seq 0 (length M)).
Definition dg_npos (x : nat) (M : str) : list nat :=
  filter (fun j => negb (Nat.eqb (nth j M 0) x)) (seq 0 (length M)).
Definition dg_dpos (x : nat) (M : str) : nat :=
  if eqb (dg_pos x M) (seq (hd 0 (dg_pos x M)) (length (dg_pos x M))) then hd 0 (dg_pos x M) else 0.

Lemma dg_filter_seq_S (f : nat -> bool) a n :
  filter f (seq (S a) n) = map S (filter (fun j => f (S j)) (seq a n)).
Proof. rewrite <- seq_shift. rewrite sf_filter_map. reflexivity. Qed.

Lemma dg_pos_cons x y M :
  dg_pos x (y :: M) = (if Nat.eqb y x then [0] else []) ++ map S (dg_pos x M).
Proof.
  unfold dg_pos. cbn [length seq filter]. rewrite dg_filter_seq_S. cbn [nth].
  destruct (Nat.eqb y x); reflexivity.
Qed.

Lemma dg_pos_length x M : length (dg_pos x M) = count x M.
Proof.
  induction M as [|y M IH]; [reflexivity|].
  rewrite dg_pos_cons, pf_count_cons, app_length, map_length, IH, (Nat.eqb_sym x y).
  destruct (Nat.eqb y x); reflexivity.
Qed.

Lemma dg_pos_in x M j : In j (dg_pos x M) <-> j < length M /\ nth j M 0 = x.
Proof.
  unfold dg_pos. rewrite filter_In, in_seq, Nat.eqb_eq. split; intros [H1 H2]; (split; [lia|exact H2]).
Qed.

Lemma dg_npos_in x M j : In j (dg_npos x M) <-> j < length M /\ nth j M 0 <> x.
Proof.
  unfold dg_npos. rewrite filter_In, in_seq, negb_true_iff, Nat.eqb_neq.
  split; intros [H1 H2]; (split; [lia|exact H2]).
Qed.

Lemma dg_npos_labels x M : map (fun q => nth q M 0) (dg_npos x M) = remove_all x M.
Proof. symmetry. unfold remove_all, dg_npos. apply sf_filter_labels. intros q _. reflexivity. Qed.

Lemma dg_pos_notin x b : ~ In x b -> dg_pos x b = [].
Proof.
  intros H. destruct (dg_pos x b) as [|j l] eqn:E; [reflexivity|]. exfalso.
  assert (Hj : In j (dg_pos x b)) by (rewrite E; left; reflexivity).
  apply dg_pos_in in Hj. destruct Hj as [Hj1 Hj2]. apply H. rewrite <- Hj2. apply nth_In, Hj1.
Qed.

Lemma dg_pos_run x k b : ~ In x b -> dg_pos x (repeat x k ++ b) = seq 0 k.
Proof.
  intros Hb. induction k as [|k IH]; [apply dg_pos_notin, Hb|].
  cbn [repeat app]. rewrite dg_pos_cons, Nat.eqb_refl, IH, seq_shift. reflexivity.
Qed.

Lemma dg_pos_block x a k b : ~ In x a -> ~ In x b ->
  dg_pos x (a ++ repeat x k ++ b) = seq (length a) k.
Proof.
  intros Ha Hb. induction a as [|z a IH]; [apply dg_pos_run, Hb|].
  cbn [app length]. rewrite dg_pos_cons.
  assert (E : Nat.eqb z x = false).
  { apply Nat.eqb_neq. intros ->. apply Ha. left; reflexivity. }
  rewrite E, IH by (intros H; apply Ha; right; exact H). cbn [app]. apply seq_shift.
Qed.

Lemma dg_map_S_inj l1 : forall l2, map S l1 = map S l2 -> l1 = l2.
Proof.
  induction l1 as [|a l1 IH]; intros [|b l2] H; cbn [map] in H; try discriminate H; [reflexivity|].
  injection H as H1 H2. subst b. f_equal. apply IH, H2.
Qed.

Lemma dg_pos_seq0_prefix x m : forall M, dg_pos x M = seq 0 m -> prefixb (repeat x m) M = true.
Proof.
  induction m as [|m IH]; intros M H; [reflexivity|].
  destruct M as [|z M]; [discriminate H|].
  rewrite dg_pos_cons in H. cbn [seq] in H.
  destruct (Nat.eqb_spec z x) as [->|Hne].
  - cbn [app] in H. injection H as H. rewrite <- seq_shift in H. apply dg_map_S_inj in H.
    cbn [repeat prefixb]. rewrite Nat.eqb_refl. cbn [andb]. apply IH, H.
  - cbn [app] in H. destruct (dg_pos x M); discriminate H.
Qed.

Lemma dg_pos_seq_infix x : forall M a0 k, 1 <= k -> dg_pos x M = seq a0 k ->
  infixb (repeat x k) M = true.
Proof.
  induction M as [|z M IH]; intros a0 k Hk H.
  - destruct k; [lia|discriminate H].
  - destruct k as [|k]; [lia|]. rewrite dg_pos_cons in H. cbn [seq] in H.
    cbn [infixb]. destruct (Nat.eqb_spec z x) as [->|Hne].
    + cbn [app] in H. injection H as Ha H. subst a0.
      rewrite <- seq_shift in H. apply dg_map_S_inj in H.
      apply dg_pos_seq0_prefix in H.
      cbn [repeat prefixb]. rewrite Nat.eqb_refl, H. reflexivity.
    + cbn [app] in H. destruct a0 as [|a0]; [destruct (dg_pos x M); discriminate H|].
      change (S a0 :: seq (S (S a0)) k) with (seq (S a0) (S k)) in H.
      rewrite <- seq_shift in H. apply dg_map_S_inj in H.
      rewrite (IH a0 (S k)) by (try exact H; lia). apply orb_true_r.
Qed.

Lemma dg_prefix_split pat : forall s, prefixb pat s = true -> exists b, s = pat ++ b.
Proof.
  induction pat as [|c pat IH]; intros s H; [exists s; reflexivity|].
  destruct s as [|z s]; [discriminate H|]. cbn [prefixb] in H.
  apply andb_true_iff in H. destruct H as [H1 H2]. apply Nat.eqb_eq in H1. subst z.
  destruct (IH s H2) as [b ->]. exists b. reflexivity.
Qed.

Lemma dg_infix_split pat : forall s, infixb pat s = true -> exists a b, s = a ++ pat ++ b.
Proof.
  induction s as [|z s IH]; intros H; cbn [infixb] in H.
  - rewrite orb_false_r in H. apply dg_prefix_split in H. destruct H as [b Hb].
    exists [], b. exact Hb.
  - apply orb_true_iff in H. destruct H as [H|H].
    + apply dg_prefix_split in H. destruct H as [b Hb]. exists [], b. exact Hb.
    + destruct (IH H) as (a & b & ->). exists (z :: a), b. reflexivity.
Qed.

Lemma dg_prefixb_app p b : prefixb p (p ++ b) = true.
Proof.
  induction p as [|c p IH]; [reflexivity|]. cbn [app prefixb]. rewrite Nat.eqb_refl, IH. reflexivity.
Qed.

(* ---------- str.replace on a single run ---------- *)

Lemma dg_replace_tail x pat rep : forall fuel b, ~ In x b ->
  str_replace_f fuel (x :: pat) rep b = b.
Proof.
  induction fuel as [|f IH]; intros b Hb; [reflexivity|].
  destruct b as [|z b]; [reflexivity|]. cbn [str_replace_f prefixb].
  assert (E : Nat.eqb x z = false).
  { apply Nat.eqb_neq. intros ->. apply Hb. left; reflexivity. }
  rewrite E. cbn [andb]. rewrite IH by (intros H; apply Hb; right; exact H). reflexivity.
Qed.

Lemma dg_replace_block x pat b : ~ In x b -> forall a fuel, length a < fuel -> ~ In x a ->
  str_replace_f fuel (x :: pat) [x] (a ++ (x :: pat) ++ b) = a ++ x :: b.
Proof.
  intros Hb. induction a as [|z a IH]; intros fuel Hf Ha.
  - destruct fuel as [|f]; [cbn in Hf; lia|].
    cbn [app]. change (x :: pat ++ b) with ((x :: pat) ++ b).
    assert (E : str_replace_f (S f) (x :: pat) [x] ((x :: pat) ++ b)
                = [x] ++ str_replace_f f (x :: pat) [x] (skipn (length (x :: pat)) ((x :: pat) ++ b))).
    { cbn [app]. cbn [str_replace_f]. change (x :: pat ++ b) with ((x :: pat) ++ b).
      rewrite dg_prefixb_app. reflexivity. }
    rewrite E, dg_skipn_app_len, dg_replace_tail by exact Hb. reflexivity.
  - destruct fuel as [|f]; [cbn in Hf; lia|].
    cbn [app length] in *. cbn [str_replace_f prefixb].
    assert (E : Nat.eqb x z = false).
    { apply Nat.eqb_neq. intros ->. apply Ha. left; reflexivity. }
    rewrite E. cbn [andb]. f_equal.
    apply IH; [lia|]. intros H; apply Ha; right; exact H.
Qed.

Lemma dg_remove_all_block x a k b : ~ In x a -> ~ In x b ->
  remove_all x (a ++ repeat x k ++ b) = a ++ b.
Proof.
  intros Ha Hb. unfold remove_all. rewrite !filter_app.
  fold (remove_all x a). fold (remove_all x b).
  rewrite !ff_remove_all_id by assumption.
  rewrite sf_filter_nil; [reflexivity|].
  intros y Hy. apply repeat_spec in Hy. subst y. rewrite Nat.eqb_refl. reflexivity.
Qed.

(* the label list after one diagonal step, in the form used by adv_index:
   the label x inserted at position dpos into the remaining labels *)
Lemma dg_diag_lhs_insert x M : 1 <= count x M ->
  dg_dpos x M <= length (remove_all x M) /\
  diag_lhs x M = insert_at (dg_dpos x M) x (remove_all x M).
Proof.
  intros Hc. unfold diag_lhs, dg_dpos.
  destruct (infixb (repeat x (count x M)) M) eqn:Ei.
  - apply dg_infix_split in Ei. destruct Ei as (a & b & HM).
    remember (count x M) as k eqn:Ek.
    assert (Hab : ~ In x a /\ ~ In x b).
    { rewrite HM in Ek. rewrite !dg_count_app, dg_count_repeat in Ek.
      split; apply dg_count_zero; lia. }
    destruct Hab as [Ha Hb].
    assert (HP : dg_pos x M = seq (length a) k).
    { rewrite HM at 1. apply dg_pos_block; assumption. }
    rewrite HP, seq_length.
    destruct k as [|k]; [lia|]. cbn [seq hd].
    change (length a :: seq (S (length a)) k) with (seq (length a) (S k)).
    rewrite ff_list_eqb_refl.
    assert (HR : remove_all x M = a ++ b).
    { rewrite HM at 1. apply dg_remove_all_block; assumption. }
    rewrite HR, app_length. split; [lia|].
    rewrite dg_insert_at_app. unfold str_replace.
    rewrite HM at 2. cbn [repeat].
    apply dg_replace_block; [exact Hb| |exact Ha].
    rewrite HM, app_length. lia.
  - assert (E : eqb (dg_pos x M) (seq (hd 0 (dg_pos x M)) (length (dg_pos x M))) = false).
    { destruct (eqb (dg_pos x M) (seq (hd 0 (dg_pos x M)) (length (dg_pos x M)))) eqn:E; [|reflexivity].
      apply pf_list_eqb_eq in E. rewrite dg_pos_length in E.
      rewrite (dg_pos_seq_infix x M _ _ Hc E) in Ei. discriminate Ei. }
    rewrite E. split; [lia|]. reflexivity.
Qed.

(* ================================================================== *)
(* D2. the dimension dictionary of the model                            *)

Lemma dg_dict_fold (sz : nat -> nat) x l : forall d0,
  lget x (fold_left (fun d kv => lset (fst kv) (snd kv) d) (combine l (map sz l)) d0)
  = if memb x l then Some (sz x) else lget x d0.
Proof.
  induction l as [|y l IH]; intros d0; [reflexivity|].
  cbn [map combine fold_left fst snd]. rewrite IH.
  unfold memb. cbn [existsb]. fold (memb x l).
  destruct (Nat.eqb_spec x y) as [->|Hne]; cbn [orb].
  - rewrite lget_lset_same. destruct (memb y l); reflexivity.
  - rewrite lget_lset_other by exact Hne. reflexivity.
Qed.

Theorem dg_dict_zip_lget (sz : nat -> nat) lhs x : In x lhs ->
  lget x (dict_zip lhs (map sz lhs)) = Some (sz x).
Proof.
  intros H. unfold dict_zip. rewrite dg_dict_fold.
  apply memb_In in H. rewrite H. reflexivity.
Qed.

(* ================================================================== *)
(* D1. one diagonal step                                                *)

Definition dg_sel (n x : nat) (M : str) : selector :=
  map (fun ix => if Nat.eqb ix x then Some n else None) M.

Lemma dg_sel_nth n x M j : j < length M ->
  nth j (dg_sel n x M) None = if Nat.eqb (nth j M 0) x then Some n else None.
Proof. intros Hj. unfold dg_sel. rewrite (nth_map_lt _ M j 0 None) by exact Hj. reflexivity. Qed.

Lemma dg_adv_positions n x M : adv_positions (dg_sel n x M) = dg_pos x M.
Proof.
  unfold adv_positions, dg_pos. unfold dg_sel at 2. rewrite map_length.
  apply filter_ext_in. intros j Hj. apply in_seq in Hj.
  rewrite dg_sel_nth by lia. destruct (Nat.eqb (nth j M 0) x); reflexivity.
Qed.

Lemma dg_slice_positions n x M : slice_positions (dg_sel n x M) = dg_npos x M.
Proof.
  unfold slice_positions, dg_npos. unfold dg_sel at 2. rewrite map_length.
  apply filter_ext_in. intros j Hj. apply in_seq in Hj.
  rewrite dg_sel_nth by lia. destruct (Nat.eqb (nth j M 0) x); reflexivity.
Qed.

Lemma dg_nth_map_sz (sz : nat -> nat) M j : j < length M -> nth j (map sz M) 0 = sz (nth j M 0).
Proof. intros Hj. apply nth_map_lt, Hj. Qed.

Lemma dg_adv_index_some (sz : nat -> nat) M u x :
  tshape u = map sz M -> 1 <= count x M ->
  adv_index u (dg_sel (sz x) x M) =
  Some (tbuild (insert_at (dg_dpos x M) (sz x) (dims_at (tshape u) (dg_npos x M)))
          (fun idx => tget u (map (fun j => if memb j (dg_pos x M) then nth (dg_dpos x M) idx 0
                                            else nth (pos_in j (dg_npos x M)) (remove_at (dg_dpos x M) idx) 0)
                                  (seq 0 (length (tshape u)))))).
Proof.
  intros Hsh Hc. unfold adv_index.
  assert (HL : length (dg_sel (sz x) x M) = length (tshape u)).
  { unfold dg_sel. rewrite Hsh, !map_length. reflexivity. }
  rewrite HL, Nat.eqb_refl. cbn [negb].
  rewrite dg_adv_positions, dg_slice_positions. unfold dg_dpos.
  pose proof (dg_pos_length x M) as HPL.
  assert (HPin : forall j, In j (dg_pos x M) -> j < length M /\ nth j M 0 = x).
  { intros j Hj. apply dg_pos_in, Hj. }
  destruct (dg_pos x M) as [|a0 adv'] eqn:EP; [cbn in HPL; lia|].
  assert (Hns : map (fun j => match nth j (dg_sel (sz x) x M) None with Some n => n | None => 0 end) (a0 :: adv')
                = map (fun _ => sz x) (a0 :: adv')).
  { apply map_ext_in. intros j Hj. destruct (HPin j Hj) as [H1 H2].
    rewrite dg_sel_nth by exact H1. rewrite H2, Nat.eqb_refl. reflexivity. }
  rewrite Hns. cbn [map hd].
  assert (E1 : forallb (Nat.eqb (sz x)) (sz x :: map (fun _ => sz x) adv') = true).
  { apply forallb_forall. intros y Hy. apply Nat.eqb_eq.
    destruct Hy as [Hy|Hy]; [auto|]. apply in_map_iff in Hy. destruct Hy as (? & Hy & _). auto. }
  rewrite E1. cbn [negb].
  assert (E2 : forallb (fun j => Nat.leb (sz x) (nth j (tshape u) 0)) (a0 :: adv') = true).
  { apply forallb_forall. intros j Hj. destruct (HPin j Hj) as [H1 H2].
    rewrite Hsh, dg_nth_map_sz by exact H1. rewrite H2. apply Nat.leb_refl. }
  rewrite E2. cbn [negb]. reflexivity.
Qed.

(* the invariant of the diagonal stage: u carries the labels M (repeats allowed),
   and on every index that is consistent with the labels it reads the input *)
Definition dg_inv (sz : nat -> nat) (lhs : str) (t : tensor) (M : str) (u : tensor) : Prop :=
  tshape u = map sz M /\ wf_tensor u = true /\
  forall e : nat -> nat, (forall y, In y M -> e y < sz y) -> tget u (map e M) = tget t (map e lhs).

Lemma dg_inv_init sz lhs t : tshape t = map sz lhs -> wf_tensor t = true -> dg_inv sz lhs t lhs t.
Proof. intros H1 H2. split; [exact H1|]. split; [exact H2|]. reflexivity. Qed.

Lemma dg_diag_lhs_in x M y : 1 <= count x M -> (In y (diag_lhs x M) <-> In y M).
Proof.
  intros Hc. destruct (dg_diag_lhs_insert x M Hc) as [_ ->].
  rewrite dg_in_insert_at. unfold remove_all. rewrite filter_In, negb_true_iff, Nat.eqb_neq.
  apply dg_count_in in Hc. destruct (Nat.eq_dec y x) as [->|Hne]; tauto.
Qed.

Lemma dg_diag_lhs_count x M y : 1 <= count x M ->
  count y (diag_lhs x M) = if Nat.eqb y x then 1 else count y M.
Proof.
  intros Hc. destruct (dg_diag_lhs_insert x M Hc) as [_ ->].
  rewrite dg_count_insert_at, dg_count_remove_all. destruct (Nat.eqb y x); reflexivity.
Qed.

Lemma dg_map_seq (e : nat -> nat) M : map e M = map (fun j => e (nth j M 0)) (seq 0 (length M)).
Proof. rewrite <- (sf_map_nth_seq M) at 1. rewrite map_map. reflexivity. Qed.

Theorem dg_step sz lhs t M u x :
  dg_inv sz lhs t M u -> 1 <= count x M ->
  exists u', adv_index u (dg_sel (sz x) x M) = Some u' /\ dg_inv sz lhs t (diag_lhs x M) u'.
Proof.
  intros (Hsh & Hwf & Hget) Hc.
  rewrite (dg_adv_index_some sz M u x Hsh Hc). eexists. split; [reflexivity|].
  destruct (dg_diag_lhs_insert x M Hc) as [Hd HM']. rewrite HM'.
  set (d := dg_dpos x M) in *. set (rest := remove_all x M) in *.
  assert (Hdims : dims_at (tshape u) (dg_npos x M) = map sz rest).
  { unfold rest. rewrite <- dg_npos_labels, map_map. unfold dims_at. apply map_ext_in.
    intros p Hp. apply dg_npos_in in Hp. rewrite Hsh. apply dg_nth_map_sz. tauto. }
  assert (Hshape : insert_at d (sz x) (dims_at (tshape u) (dg_npos x M)) = map sz (insert_at d x rest)).
  { rewrite Hdims. apply dg_insert_at_map. }
  split; [exact Hshape|]. split; [apply tbuild_wf|].
  intros e He. rewrite Hshape.
  rewrite tget_tbuild by (apply ff_valid_map; exact He).
  rewrite <- Hget.
  2:{ intros y Hy. apply He. rewrite <- HM'. apply dg_diag_lhs_in; assumption. }
  f_equal. rewrite (dg_map_seq e M). rewrite Hsh, map_length.
  apply map_ext_in. intros j Hj. apply in_seq in Hj.
  destruct (memb j (dg_pos x M)) eqn:Em.
  - apply memb_In, dg_pos_in in Em. destruct Em as [_ Em]. rewrite Em.
    rewrite (nth_map_lt e _ d 0 0) by (rewrite dg_length_insert_at; lia).
    rewrite dg_nth_insert_at by exact Hd. reflexivity.
  - apply memb_false in Em.
    assert (Hjn : In j (dg_npos x M)).
    { apply dg_npos_in. split; [lia|]. intros E. apply Em. apply dg_pos_in. split; [lia|exact E]. }
    destruct (sf_pos_in_lt j _ Hjn) as [Hq1 Hq2].
    rewrite dg_remove_at_map, dg_remove_insert_at by exact Hd.
    assert (HLr : length rest = length (dg_npos x M)).
    { unfold rest. rewrite <- dg_npos_labels, map_length. reflexivity. }
    rewrite (nth_map_lt e rest _ 0 0) by lia. f_equal.
    unfold rest. rewrite <- dg_npos_labels.
    rewrite (nth_map_lt (fun q => nth q M 0) _ _ 0 0) by exact Hq1. rewrite Hq2. reflexivity.
Qed.

(* ================================================================== *)
(* the invariant with duplicate-free labels IS the reference einsum     *)

Lemma dg_label_shape (sz : nat -> nat) lhs t l :
  tshape t = map sz lhs -> incl l lhs ->
  map (elook (label_sizes [lhs] [t])) l = map sz l.
Proof.
  intros Hsht Hi. rewrite sf_label_sizes_single, Hsht. apply map_ext_in.
  intros y Hy. apply ff_elook_combine_map, Hi, Hy.
Qed.

Lemma dg_inner_in lhs out y : In y (sf_inner [lhs] out) <-> In y lhs /\ ~ In y out.
Proof.
  unfold sf_inner. rewrite filter_In, sf_unique_in, negb_true_iff, memb_false.
  cbn [concat]. rewrite app_nil_r. tauto.
Qed.

Lemma dg_inv_ref sz lhs t L u :
  tshape t = map sz lhs -> dg_inv sz lhs t L u -> NoDup L -> (forall y, In y L <-> In y lhs) ->
  u = einsum_ref [lhs] L [t].
Proof.
  intros Hsht (Hsh & Hwf & Hget) ND Hset.
  assert (HiL : incl L lhs) by (intros y Hy; apply Hset, Hy).
  assert (Hin : sf_inner [lhs] L = []).
  { destruct (sf_inner [lhs] L) as [|y l] eqn:E; [reflexivity|]. exfalso.
    assert (Hy : In y (sf_inner [lhs] L)) by (rewrite E; left; reflexivity).
    apply dg_inner_in in Hy. destruct Hy as [H1 H2]. apply H2, Hset, H1. }
  apply tensor_ext.
  - exact Hwf.
  - apply einsum_ref_wf.
  - rewrite einsum_ref_shape, (dg_label_shape sz) by assumption. exact Hsh.
  - intros idx Hv. rewrite Hsh in Hv.
    rewrite tget_einsum_ref by (rewrite (dg_label_shape sz) by assumption; exact Hv).
    rewrite Hin. cbn [map]. rewrite sf_all_idx_nil. cbn [map combine].
    rewrite sf_zsum_single, sf_zprodl_single. cbn [fst snd]. rewrite app_nil_r.
    rewrite <- Hget.
    + f_equal. symmetry. apply ff_map_elook_combine; [exact ND|].
      rewrite (sf_valid_idx_length _ _ Hv), map_length. reflexivity.
    + intros y Hy. apply (ff_elook_valid sz L idx Hv y Hy).
Qed.

(* D1, as a statement about references: true when x is the only repeated label *)
Theorem dg_diag_step_is_einsum sz lhs t x :
  tshape t = map sz lhs -> wf_tensor t = true ->
  1 <= count x lhs -> NoDup (remove_all x lhs) ->
  adv_index t (map (fun ix => if Nat.eqb ix x then Some (sz x) else None) lhs)
  = Some (einsum_ref [lhs] (diag_lhs x lhs) [t]).
Proof.
  intros Hsht Hwf Hc ND.
  destruct (dg_step sz lhs t lhs t x (dg_inv_init sz lhs t Hsht Hwf) Hc) as (u' & Ha & Hinv).
  change (adv_index t (dg_sel (sz x) x lhs) = Some (einsum_ref [lhs] (diag_lhs x lhs) [t])).
  rewrite Ha. f_equal. apply (dg_inv_ref sz); try assumption.
  - apply dg_count_le1_nodup. intros y. rewrite dg_diag_lhs_count by exact Hc.
    destruct (Nat.eqb_spec y x) as [->|Hne]; [lia|].
    pose proof (ff_count_nodup y _ ND) as H. rewrite dg_count_remove_all in H.
    apply Nat.eqb_neq in Hne. rewrite Hne in H. exact H.
  - intros y. apply dg_diag_lhs_in, Hc.
Qed.

(* ================================================================== *)
(* D4. all the diagonal steps                                           *)

Definition dg_labels (l : list nat) (M : str) : str := fold_left (fun l ixd => diag_lhs ixd l) l M.

Lemma dg_labels_in l : forall M, (forall x, In x l -> In x M) ->
  forall y, In y (dg_labels l M) <-> In y M.
Proof.
  induction l as [|x l IH]; intros M Hl y; [reflexivity|].
  unfold dg_labels in *. cbn [fold_left].
  assert (Hc : 1 <= count x M) by (apply dg_count_in, Hl; left; reflexivity).
  rewrite IH; [apply dg_diag_lhs_in, Hc|].
  intros z Hz. apply dg_diag_lhs_in; [exact Hc|]. apply Hl. right; exact Hz.
Qed.

Lemma dg_labels_count l : forall M, (forall x, In x l -> In x M) ->
  forall y, count y (dg_labels l M) = if memb y l then 1 else count y M.
Proof.
  induction l as [|x l IH]; intros M Hl y; [reflexivity|].
  unfold dg_labels in *. cbn [fold_left].
  assert (Hc : 1 <= count x M) by (apply dg_count_in, Hl; left; reflexivity).
  rewrite IH.
  2:{ intros z Hz. apply dg_diag_lhs_in; [exact Hc|]. apply Hl. right; exact Hz. }
  rewrite dg_diag_lhs_count by exact Hc. unfold memb. cbn [existsb]. fold (memb y l).
  destruct (memb y l); [rewrite orb_true_r; reflexivity|]. rewrite orb_false_r. reflexivity.
Qed.

Theorem dg_labels_after_diag lhs out :
  NoDup (labels_after_diag lhs out) /\ forall y, In y (labels_after_diag lhs out) <-> In y lhs.
Proof.
  assert (Hl : forall x, In x (rev (fst (scan_single lhs out [] [] []))) -> In x lhs).
  { intros x Hx. apply in_rev, scan_single_diag_in in Hx. apply dg_count_in. lia. }
  change (labels_after_diag lhs out) with (dg_labels (rev (fst (scan_single lhs out [] [] []))) lhs).
  split; [|apply dg_labels_in, Hl].
  apply dg_count_le1_nodup. intros y. rewrite dg_labels_count by exact Hl.
  destruct (memb y (rev (fst (scan_single lhs out [] [] [])))) eqn:Em; [lia|].
  apply memb_false in Em. rewrite <- in_rev, scan_single_diag_in in Em. lia.
Qed.

Lemma dg_fold sz lhs t : tshape t = map sz lhs ->
  forall l sels0 M u, dg_inv sz lhs t M u -> (forall y, In y M <-> In y lhs) ->
  (forall x, In x l -> In x lhs) ->
  exists sels' u',
    fold_left (diag_step (dict_zip lhs (tshape t))) l (Some (sels0, M))
      = Some (sels0 ++ sels', dg_labels l M) /\
    fold_left (fun ox sel => obind ox (fun x => adv_index x sel)) sels' (Some u) = Some u' /\
    dg_inv sz lhs t (dg_labels l M) u'.
Proof.
  intros Hsht. induction l as [|x l IH]; intros sels0 M u Hinv Hset Hl.
  - exists [], u. cbn [fold_left dg_labels]. rewrite app_nil_r. unfold dg_labels. cbn [fold_left]. auto.
  - assert (Hx : In x lhs) by (apply Hl; left; reflexivity).
    assert (Hlg : lget x (dict_zip lhs (tshape t)) = Some (sz x)).
    { rewrite Hsht. apply dg_dict_zip_lget, Hx. }
    assert (Hc : 1 <= count x M) by (apply dg_count_in, Hset, Hx).
    destruct (dg_step sz lhs t M u x Hinv Hc) as (u1 & Ha & Hinv1).
    destruct (IH (sels0 ++ [dg_sel (sz x) x M]) (diag_lhs x M) u1 Hinv1) as (sels' & u' & H1 & H2 & H3).
    + intros y. rewrite dg_diag_lhs_in by exact Hc. apply Hset.
    + intros y Hy. apply Hl. right; exact Hy.
    + exists (dg_sel (sz x) x M :: sels'), u'. split; [|split].
      * cbn [fold_left diag_step]. rewrite Hlg. rewrite <- app_assoc in H1. exact H1.
      * cbn [fold_left obind]. rewrite Ha. exact H2.
      * exact H3.
Qed.

Lemma dg_diag_stage_inv sz lhs out t :
  tshape t = map sz lhs -> wf_tensor t = true ->
  exists sels u,
    fold_left (diag_step (dict_zip lhs (tshape t))) (rev (fst (scan_single lhs out [] [] []))) (Some ([], lhs))
      = Some (sels, labels_after_diag lhs out) /\
    fold_left (fun ox sel => obind ox (fun x => adv_index x sel)) sels (Some t) = Some u /\
    dg_inv sz lhs t (labels_after_diag lhs out) u.
Proof.
  intros Hsht Hwf.
  destruct (dg_fold sz lhs t Hsht (rev (fst (scan_single lhs out [] [] []))) [] lhs t
              (dg_inv_init sz lhs t Hsht Hwf)) as (sels & u & H1 & H2 & H3).
  - intros y; reflexivity.
  - intros x Hx. apply in_rev, scan_single_diag_in in Hx. apply dg_count_in. lia.
  - exists sels, u. cbn [app] in H1. auto.
Qed.

(* D4: the array after all the diagonal steps is the reference einsum onto the
   (duplicate-free) labels that remain *)
Theorem dg_diag_stage sz lhs out t :
  tshape t = map sz lhs -> wf_tensor t = true ->
  exists sels,
    fold_left (diag_step (dict_zip lhs (tshape t))) (rev (fst (scan_single lhs out [] [] []))) (Some ([], lhs))
      = Some (sels, labels_after_diag lhs out) /\
    fold_left (fun ox sel => obind ox (fun x => adv_index x sel)) sels (Some t)
      = Some (einsum_ref [lhs] (labels_after_diag lhs out) [t]).
Proof.
  intros Hsht Hwf. destruct (dg_diag_stage_inv sz lhs out t Hsht Hwf) as (sels & u & H1 & H2 & H3).
  exists sels. split; [exact H1|]. rewrite H2. f_equal.
  destruct (dg_labels_after_diag lhs out) as [ND Hset].
  apply (dg_inv_ref sz); assumption.
Qed.

(* ================================================================== *)
(* the sum stage on the duplicate-free labels L, read against the ORIGINAL term:
   the model sums the axes in the order of the inner labels of lhs, which is the
   order of the reference, so no reordering of sums is needed *)

Lemma dg_dims_at_sz (sz : nat -> nat) L ps : Forall (fun q => q < length L) ps ->
  dims_at (map sz L) ps = map sz (map (fun q => nth q L 0) ps).
Proof.
  intros HF. unfold dims_at. rewrite map_map. apply map_ext_in. intros p Hp.
  rewrite Forall_forall in HF. apply dg_nth_map_sz, HF, Hp.
Qed.

Lemma dg_sum_stage sz lhs out t L u ax :
  tshape t = map sz lhs -> dg_inv sz lhs t L u -> NoDup L -> (forall y, In y L <-> In y lhs) ->
  index_all L (sf_inner [lhs] out) = Some ax ->
  sum_axes u ax = Some (einsum_ref [lhs] (ff_mid L out) [t]).
Proof.
  intros Hsht (Hsh & Hwf & Hget) ND Hset Hax.
  set (sm := sf_inner [lhs] out) in *.
  set (mid := ff_mid L out).
  assert (NDsm : NoDup sm) by (apply NoDup_filter, sf_unique_nodup).
  pose proof (index_all_nodup _ _ _ Hax NDsm) as NDax.
  apply index_all_spec in Hax. destruct Hax as (HLax & HFax & Hmap).
  assert (Hr : length (tshape u) = length L) by (rewrite Hsh, map_length; reflexivity).
  rewrite sum_axes_some; [|apply sf_nodupb_NoDup, NDax|rewrite Hr; exact HFax].
  f_equal. rewrite Hr.
  set (kept := sf_kept (length L) ax).
  assert (HFk : Forall (fun q => q < length L) kept) by apply sf_kept_lt.
  assert (Hmid : mid = map (fun q => nth q L 0) kept).
  { unfold mid, ff_mid, kept, sf_kept. apply sf_filter_labels. intros q Hq.
    apply Bool.eq_iff_eq_true. rewrite negb_true_iff, memb_In, memb_false.
    pose proof (sf_in_map_nth L ax q ND Hq HFax) as Hiff. rewrite Hmap in Hiff.
    rewrite <- Hiff. unfold sm. rewrite dg_inner_in.
    assert (HqL : In (nth q L 0) lhs) by (apply Hset, nth_In, Hq).
    destruct (in_dec Nat.eq_dec (nth q L 0) out); tauto. }
  assert (Himid : incl mid lhs).
  { intros y Hy. apply ff_mid_in in Hy. apply Hset. tauto. }
  assert (Hism : incl sm lhs).
  { intros y Hy. apply dg_inner_in in Hy. tauto. }
  assert (Hinner : sf_inner [lhs] mid = sm).
  { unfold sm, sf_inner. apply filter_ext_in. intros y Hy. apply (proj1 (sf_unique_in _ _)) in Hy.
    cbn [concat] in Hy. rewrite app_nil_r in Hy. f_equal.
    apply Bool.eq_iff_eq_true. rewrite !memb_In. unfold mid. rewrite ff_mid_in.
    apply Hset in Hy. tauto. }
  assert (Hshk : dims_at (tshape u) kept = map sz mid).
  { rewrite Hsh, Hmid. apply dg_dims_at_sz, HFk. }
  assert (Hsha : dims_at (tshape u) ax = map sz sm).
  { rewrite Hsh, <- Hmap. apply dg_dims_at_sz, HFax. }
  apply tensor_ext.
  - apply tbuild_wf.
  - apply einsum_ref_wf.
  - rewrite einsum_ref_shape, (dg_label_shape sz) by assumption. exact Hshk.
  - intros oidx Hv. change (valid_idx (dims_at (tshape u) kept) oidx) in Hv.
    rewrite tget_tbuild by exact Hv. rewrite Hshk in Hv.
    rewrite tget_einsum_ref by (rewrite (dg_label_shape sz) by assumption; exact Hv).
    rewrite Hinner, (dg_label_shape sz) by assumption. rewrite Hsha.
    f_equal. apply map_ext_in. intros sidx Hs. apply in_all_idx in Hs.
    cbn [map combine]. rewrite sf_zprodl_single. cbn [fst snd].
    assert (HLo : length oidx = length mid).
    { rewrite (sf_valid_idx_length _ _ Hv), map_length. reflexivity. }
    assert (HLs : length sidx = length sm).
    { rewrite (sf_valid_idx_length _ _ Hs), map_length. reflexivity. }
    rewrite <- Hget.
    + f_equal. unfold assemble. rewrite (dg_map_seq _ L).
      apply map_ext_in. intros k Hk. apply in_seq in Hk. cbn [Nat.add] in Hk. destruct Hk as [_ Hk].
      destruct (in_dec Nat.eq_dec k kept) as [Hik|Hnk].
      * destruct (sf_find_pos_in k kept Hik) as [p Hp]. rewrite Hp.
        assert (Hkm : In (nth k L 0) mid) by (rewrite Hmid; apply sf_in_map_nth; assumption).
        rewrite elook_app_l by (rewrite sf_map_fst_combine by exact HLo; exact Hkm).
        rewrite elook_combine_pos by assumption.
        rewrite Hmid, sf_pos_in_map_nth by assumption.
        unfold pos_in. rewrite Hp. reflexivity.
      * rewrite (sf_find_pos_notin k kept Hnk).
        assert (Hia : In k ax).
        { destruct (in_dec Nat.eq_dec k ax) as [Hi|Hn]; [exact Hi|].
          exfalso. apply Hnk. apply sf_kept_in. split; assumption. }
        destruct (sf_find_pos_in k ax Hia) as [p Hp]. rewrite Hp.
        assert (Hks : In (nth k L 0) sm) by (rewrite <- Hmap; apply sf_in_map_nth; assumption).
        rewrite elook_app_r.
        2:{ intros Hc. apply sf_in_combine_fst in Hc. rewrite Hmid in Hc.
            apply sf_in_map_nth in Hc; try assumption. exact (Hnk Hc). }
        rewrite elook_combine_pos by assumption.
        rewrite <- Hmap, sf_pos_in_map_nth by assumption.
        unfold pos_in. rewrite Hp. reflexivity.
    + intros y Hy. destruct (in_dec Nat.eq_dec y out) as [Hyo|Hyo].
      * assert (Hym : In y mid) by (apply ff_mid_in; tauto).
        rewrite elook_app_l by (rewrite sf_map_fst_combine by exact HLo; exact Hym).
        apply (ff_elook_valid sz mid oidx Hv y Hym).
      * assert (Hys : In y sm) by (apply dg_inner_in; split; [apply Hset, Hy|exact Hyo]).
        rewrite elook_app_r.
        2:{ intros Hc. apply sf_in_combine_fst in Hc. apply ff_mid_in in Hc. tauto. }
        apply (ff_elook_valid sz sm sidx Hs y Hys).
Qed.

(* ================================================================== *)
(* the plan of parse_single_core when at least one label is repeated    *)

Lemma dg_parse_core lhs out shape dg sm sels L ax p :
  scan_single lhs out [] [] [] = (dg, sm) -> dg <> [] ->
  fold_left (diag_step (dict_zip lhs shape)) (rev dg) (Some ([], lhs)) = Some (sels, L) ->
  index_all L sm = Some ax ->
  index_all (fold_left (fun l ix => remove_all ix l) sm L) out = Some p ->
  parse_single_core lhs out shape =
  Some (Some sels, (match sm with [] => None | _ => Some ax end,
        if eqb (fold_left (fun l ix => remove_all ix l) sm L) out then None else Some p)).
Proof.
  intros Hs Hne Hf Hax Hp. unfold parse_single_core. rewrite Hs.
  destruct dg as [|d0 dg']; [congruence|]. cbv beta iota. rewrite Hf. cbv beta iota.
  destruct sm as [|s0 sm']; cbv beta iota.
  - cbn [fold_left] in Hp |- *. rewrite Hp.
    cbv [eqb Eqb_list Eqb_nat]. destruct (list_eqb Nat.eqb L out); reflexivity.
  - rewrite Hax. cbv beta iota. rewrite Hp.
    cbv [eqb Eqb_list Eqb_nat].
    match goal with |- context [if ?b then _ else _] => destruct b end; reflexivity.
Qed.

(* ================================================================== *)
(* D5. MAIN: every one-operand equation, repeated labels allowed        *)

Theorem dg_einsum_single (sz : nat -> nat) lhs out t :
  tshape t = map sz lhs -> wf_tensor t = true ->
  Forall (fun c => 4 <= c) lhs -> NoDup out -> incl out lhs ->
  einsum_single (eq1 lhs out) t = Some (einsum_ref [lhs] out [t]).
Proof.
  intros Hsht Hwf Hl NDo Hi.
  assert (HLl : length lhs = length (tshape t)) by (rewrite Hsht, map_length; reflexivity).
  assert (Ho : Forall (fun c => 4 <= c) out).
  { apply Forall_forall. intros x Hx. rewrite Forall_forall in Hl. apply Hl, Hi, Hx. }
  destruct (scan_single lhs out [] [] []) as [dg sm] eqn:Es.
  pose proof (scan_single_diag_in lhs out) as Hdg. rewrite Es in Hdg. cbn [fst] in Hdg.
  destruct dg as [|d0 dg'] eqn:Edg.
  { (* no repeated label *)
    apply ff_einsum_single_nodup; try assumption.
    apply dg_count_le1_nodup. intros y.
    destruct (le_lt_dec (count y lhs) 1) as [H|H]; [exact H|].
    exfalso. apply (proj2 (Hdg y)). lia. }
  rewrite <- Edg in *. assert (Hne : dg <> []) by (rewrite Edg; discriminate). clear Edg d0 dg'.
  assert (Hsm : sm = sf_inner [lhs] out).
  { pose proof (scan_single_sum lhs out) as H. rewrite Es in H. cbn [snd] in H.
    unfold sf_inner. cbn [concat]. rewrite app_nil_r. exact H. }
  destruct (dg_diag_stage_inv sz lhs out t Hsht Hwf) as (sels & u & Hfold & Hexec & Hinv).
  rewrite Es in Hfold. cbn [fst] in Hfold.
  destruct (dg_labels_after_diag lhs out) as [NDL Hset].
  set (L := labels_after_diag lhs out) in *.
  set (mid := ff_mid L out).
  assert (Hmid_in : forall x, In x mid <-> In x lhs /\ In x out).
  { intros x. unfold mid. rewrite ff_mid_in, Hset. tauto. }
  assert (Hl2 : fold_left (fun l ix => remove_all ix l) sm L = mid).
  { rewrite ff_fold_remove_all. unfold mid, ff_mid. apply filter_ext_in. intros y Hy.
    apply Bool.eq_iff_eq_true. rewrite negb_true_iff, memb_false, memb_In, Hsm, dg_inner_in.
    apply Hset in Hy. destruct (in_dec Nat.eq_dec y out); tauto. }
  destruct (index_all_total L sm) as [ax Hax].
  { intros y Hy. rewrite Hsm in Hy. apply dg_inner_in in Hy. apply Hset. tauto. }
  destruct (index_all_total mid out) as [p Hp].
  { intros y Hy. apply Hmid_in. split; [apply Hi, Hy|exact Hy]. }
  unfold einsum_single, parse_single. rewrite ff_sanitize_explicit by assumption.
  rewrite (dg_parse_core lhs out (tshape t) dg sm sels L ax p Es Hne Hfold Hax)
    by (rewrite Hl2; exact Hp).
  rewrite Hl2. cbn [obind]. unfold exec_single. rewrite Hexec. cbn [obind].
  assert (Hsum : omaybe (match sm with [] => None | _ => Some ax end) (fun ax t => sum_axes t ax) u
                 = Some (einsum_ref [lhs] mid [t])).
  { destruct sm as [|s0 sm'] eqn:Esm.
    - cbn [omaybe]. f_equal.
      assert (E : mid = L).
      { unfold mid, ff_mid. apply sf_filter_all. intros y Hy. apply memb_In.
        destruct (in_dec Nat.eq_dec y out) as [Hyo|Hyo]; [exact Hyo|]. exfalso.
        assert (Hys : In y (sf_inner [lhs] out)) by (apply dg_inner_in; split; [apply Hset, Hy|exact Hyo]).
        rewrite <- Hsm in Hys. destruct Hys. }
      rewrite E. apply (dg_inv_ref sz); assumption.
    - rewrite <- Esm in *. cbn [omaybe]. rewrite Hsm in Hax.
      apply (dg_sum_stage sz lhs out t L u ax); assumption. }
  rewrite Hsum. cbn [obind].
  assert (NDmid : NoDup mid) by (apply ff_mid_nodup, NDL).
  destruct (eqb mid out) eqn:Ee.
  - cbn [omaybe]. apply pf_list_eqb_eq in Ee. rewrite Ee. reflexivity.
  - cbn [omaybe].
    destruct (index_all_perm_full _ _ _ Hp NDo NDmid) as [Hm Hperm].
    { intros x Hx. apply Hmid_in in Hx. tauto. }
    pose proof (transpose_is_einsum (einsum_ref [lhs] mid [t]) mid p) as HT.
    rewrite Hm in HT. rewrite HT.
    + f_equal. apply ff_einsum_ref_compose; [exact Hmid_in|exact Hi].
    + exact NDmid.
    + rewrite einsum_ref_shape, map_length. reflexivity.
    + exact Hperm.
Qed.

(* the hypothesis on the sizes in existential form *)
Corollary dg_einsum_single_ex lhs out t :
  (exists sz : nat -> nat, tshape t = map sz lhs) -> wf_tensor t = true ->
  Forall (fun c => 4 <= c) lhs -> NoDup out -> incl out lhs ->
  einsum_single (eq1 lhs out) t = Some (einsum_ref [lhs] out [t]).
Proof. intros [sz Hsz]. apply (dg_einsum_single sz), Hsz. Qed.

(* D1 for an arbitrary term, in getter form (other labels may be repeated too) *)
Corollary dg_diag_step_general sz lhs t x :
  tshape t = map sz lhs -> wf_tensor t = true -> 1 <= count x lhs ->
  exists u, adv_index t (map (fun ix => if Nat.eqb ix x then Some (sz x) else None) lhs) = Some u /\
    tshape u = map sz (diag_lhs x lhs) /\ wf_tensor u = true /\
    forall e : nat -> nat, (forall y, In y lhs -> e y < sz y) ->
      tget u (map e (diag_lhs x lhs)) = tget t (map e lhs).
Proof.
  intros Hsht Hwf Hc.
  destruct (dg_step sz lhs t lhs t x (dg_inv_init sz lhs t Hsht Hwf) Hc) as (u & Ha & H1 & H2 & H3).
  exists u. split; [exact Ha|]. split; [exact H1|]. split; [exact H2|].
  intros e He. apply H3. intros y Hy. apply He. apply (dg_diag_lhs_in x lhs y Hc), Hy.
Qed.

(* D1 stated with the reference is FALSE as soon as another label is repeated:
   einsum_ref reads a repeated OUTPUT label at its first coordinate only *)
Example dg_diag_step_ref_refuted :
  let t : tensor := ([2; 2; 2; 2], map Z.of_nat (seq 1 16)) in
  let lhs := [4; 4; 5; 5] in
  tshape t = map (fun _ => 2) lhs /\ wf_tensor t = true /\ count 5 lhs = 2 /\
  adv_index t (map (fun ix => if Nat.eqb ix 5 then Some 2 else None) lhs)
  <> Some (einsum_ref [lhs] (diag_lhs 5 lhs) [t]).
Proof.
  cbv zeta. split; [reflexivity|]. split; [reflexivity|]. split; [reflexivity|].
  vm_compute. intros H. discriminate H.
Qed.

(* ================================================================== *)
(* PART 5 (AsmFacts): end-to-end correctness chain *)

(* ------------------------------------------------------------------ *)
(* A1: the four label groups are pairwise disjoint and duplicate-free  *)

Lemma as_nodup_groups ta tb out : NoDup ta -> NoDup tb ->
  NoDup (pl_bat ta tb out ++ pl_ak ta tb out ++ pl_con ta tb out ++ pl_bk ta tb out).
Proof.
  intros Hda Hdb. unfold pl_bat, pl_ak, pl_con, pl_bk.
  apply NoDup_app_intro; [apply NoDup_filter; exact Hda| |].
  - apply NoDup_app_intro; [apply NoDup_filter; exact Hda| |].
    + apply NoDup_app_intro; [apply NoDup_filter; exact Hda|apply NoDup_filter; exact Hdb|].
      intros x H1 H2. apply filter_In in H1, H2. destruct H1 as [H1 _], H2 as [_ H2].
      apply memb_In in H1. rewrite H1 in H2. cbn in H2. congruence.
    + intros x H1 H2. apply filter_In in H1. destruct H1 as [H1a H1].
      apply in_app_or in H2. destruct H2 as [H2|H2]; apply filter_In in H2; destruct H2 as [_ H2].
      * destruct (memb x tb); destruct (memb x out); cbn in H1, H2; congruence.
      * apply memb_In in H1a. rewrite H1a in H2. cbn in H2. congruence.
  - intros x H1 H2. apply filter_In in H1. destruct H1 as [H1a H1].
    apply in_app_or in H2. destruct H2 as [H2|H2]; [|apply in_app_or in H2; destruct H2 as [H2|H2]];
      apply filter_In in H2; destruct H2 as [_ H2].
    + destruct (memb x tb); destruct (memb x out); cbn in H1, H2; congruence.
    + destruct (memb x tb); destruct (memb x out); cbn in H1, H2; congruence.
    + apply memb_In in H1a. rewrite H1a in H2. cbn in H2. congruence.
Qed.

(* ------------------------------------------------------------------ *)
(* A2: membership in the desired operand orders                        *)

Ltac as_memb :=
  repeat match goal with
  | H : memb _ _ = true |- _ => apply (proj1 (memb_In _ _)) in H
  | H : memb _ _ = false |- _ => apply (proj1 (memb_false _ _)) in H
  end.

Lemma as_in_da ta tb out x :
  In x (pl_bat ta tb out ++ pl_ak ta tb out ++ pl_con ta tb out)
  <-> In x ta /\ (In x tb \/ In x out).
Proof.
  unfold pl_bat, pl_ak, pl_con. rewrite !in_app_iff, !filter_In.
  destruct (memb x tb) eqn:Eb; destruct (memb x out) eqn:Eo; cbn [andb negb];
    as_memb; intuition congruence.
Qed.

Lemma as_in_db ta tb out x :
  In x (pl_bat ta tb out ++ pl_con ta tb out ++ pl_bk ta tb out)
  <-> In x tb /\ (In x ta \/ In x out).
Proof.
  unfold pl_bat, pl_bk, pl_con. rewrite !in_app_iff, !filter_In.
  destruct (memb x tb) eqn:Eb; destruct (memb x out) eqn:Eo; destruct (memb x ta) eqn:Ea;
    cbn [andb negb];
    as_memb; intuition congruence.
Qed.

(* ------------------------------------------------------------------ *)
(* A3: the reshape targets of the plan are the fused shapes            *)

Lemma as_len1 (l : list nat) : negb (Nat.eqb (length l) 1) = false -> exists x, l = [x].
Proof.
  intros H. apply negb_false_iff, Nat.eqb_eq in H.
  destruct l as [|x [|y l]]; try discriminate H. exists x. reflexivity.
Qed.

Lemma as_gshape sz bat l1 l2 :
  (pl_gshape sz (pl_lgroups bat l1 l2) = None -> map sz (bat ++ l1 ++ l2) = cf_G sz bat l1 l2) /\
  (forall s, pl_gshape sz (pl_lgroups bat l1 l2) = Some s -> s = cf_G sz bat l1 l2).
Proof.
  unfold pl_gshape, pl_ragged, pl_lgroups.
  destruct bat as [|b0 bat'].
  - cbn [existsb].
    destruct (negb (Nat.eqb (length l1) 1)) eqn:E1; cbn [orb].
    + split; [discriminate|]. intros s Hs. inversion Hs. reflexivity.
    + destruct (negb (Nat.eqb (length l2) 1)) eqn:E2; cbn [orb].
      * split; [discriminate|]. intros s Hs. inversion Hs. reflexivity.
      * split; [|discriminate]. intros _.
        apply as_len1 in E1, E2. destruct E1 as (y & ->), E2 as (z & ->).
        apply cf_G_single2.
  - cbn [existsb].
    destruct (negb (Nat.eqb (length (b0 :: bat')) 1)) eqn:E0; cbn [orb].
    + split; [discriminate|]. intros s Hs. inversion Hs. reflexivity.
    + destruct (negb (Nat.eqb (length l1) 1)) eqn:E1; cbn [orb].
      * split; [discriminate|]. intros s Hs. inversion Hs. reflexivity.
      * destruct (negb (Nat.eqb (length l2) 1)) eqn:E2; cbn [orb].
        -- split; [discriminate|]. intros s Hs. inversion Hs. reflexivity.
        -- split; [|discriminate]. intros _.
           apply as_len1 in E0, E1, E2.
           destruct E0 as (x & E0), E1 as (y & ->), E2 as (z & ->). rewrite E0.
           apply cf_G_single3.
Qed.

Lemma as_concat_ogroups bat ak bk : concat (pl_ogroups bat ak bk) = bat ++ ak ++ bk.
Proof.
  unfold pl_ogroups. destruct bat; cbn [concat app]; rewrite app_nil_r; reflexivity.
Qed.

Lemma as_oshape sz bat ak bk :
  (pl_oshape sz (pl_ogroups bat ak bk) = None -> map sz (bat ++ ak ++ bk) = cf_G sz bat ak bk) /\
  (forall s, pl_oshape sz (pl_ogroups bat ak bk) = Some s -> s = map sz (bat ++ ak ++ bk)).
Proof.
  destruct (as_gshape sz bat ak bk) as [Hn _].
  unfold pl_oshape. unfold pl_gshape in Hn.
  change (pl_ogroups bat ak bk) with (pl_lgroups bat ak bk).
  destruct (pl_ragged (pl_lgroups bat ak bk)).
  - split; [discriminate|]. intros s Hs. inversion Hs.
    change (pl_lgroups bat ak bk) with (pl_ogroups bat ak bk).
    rewrite as_concat_ogroups. reflexivity.
  - split; [|discriminate]. intros _. apply Hn. reflexivity.
Qed.

(* ------------------------------------------------------------------ *)
(* A4: pre-steps and the final permutation factor out of exec_bmm      *)

Lemma as_exec_bmm_reduce pa pb nsa nsb nsab pm a b a' b' :
  exec_pre pa a = Some a' -> exec_pre pb b = Some b' ->
  exec_bmm (pa, (pb, (nsa, (nsb, (nsab, (pm, false)))))) a b =
  obind (exec_bmm (None, (None, (nsa, (nsb, (nsab, (None, false)))))) a' b')
        (fun t => omaybe pm (fun p t => transpose t p) t).
Proof.
  intros Ha Hb. unfold exec_bmm. rewrite Ha, Hb. cbn [exec_pre obind].
  destruct (omaybe nsa (fun s t => reshape t s) a') as [a2|]; cbn [obind]; [|reflexivity].
  destruct (omaybe nsb (fun s t => reshape t s) b') as [b2|]; cbn [obind]; [|reflexivity].
  destruct (matmul a2 b2) as [ab|]; cbn [obind]; [|reflexivity].
  destruct (omaybe nsab (fun s t => reshape t s) ab) as [ab1|]; cbn [obind omaybe]; reflexivity.
Qed.

(* ------------------------------------------------------------------ *)
(* A5: the end-to-end theorem                                          *)

Theorem as_einsum2_bmm sz ta tb out a b :
  (forall x, 2 <= sz x) -> NoDup ta -> NoDup tb -> NoDup out -> incl out (ta ++ tb) ->
  Forall (fun c => 4 <= c) ta -> Forall (fun c => 4 <= c) tb -> Forall (fun c => 4 <= c) out ->
  tshape a = map sz ta -> tshape b = map sz tb -> wf_tensor a = true -> wf_tensor b = true ->
  pl_con ta tb out <> [] ->
  einsum2 (eq2 ta tb out) a b = Some (einsum_ref [ta; tb] out [a; b]).
Proof.
  intros Hsz Hda Hdb Hdo Hio Fa Fb Fo Hsa Hsb Hwa Hwb Hcon.
  destruct (pl_plan sz ta tb out Hsz Hda Hdb Hio Fa Fb Fo Hcon) as (p & Hp & Hplan).
  destruct (pl_pre_a sz ta tb out a Hda Fa Hsa Hwa) as (Ea & Sa & Wa).
  destruct (pl_pre_b sz ta tb out b Hda Hdb Fb Hsb Hwb) as (Eb & Sb & Wb).
  destruct (pl_plan_perm_meaning ta tb out p Hda Hdb Hdo Hp) as (Hmap & Hperm & Hnone).
  destruct (pl_produced_nodup ta tb out Hda Hdb) as [Hnd _].
  pose proof (as_nodup_groups ta tb out Hda Hdb) as Hgr.
  set (bat := pl_bat ta tb out) in *. set (con := pl_con ta tb out) in *.
  set (ak := pl_ak ta tb out) in *. set (bk := pl_bk ta tb out) in *.
  set (a' := einsum_ref [ta] (bat ++ ak ++ con) [a]) in *.
  set (b' := einsum_ref [tb] (bat ++ con ++ bk) [b]) in *.
  assert (Hcomp : einsum_ref [bat ++ ak ++ con; bat ++ con ++ bk] out [a'; b']
                  = einsum_ref [ta; tb] out [a; b]).
  { apply (cp_pre_sum_compose sz); try assumption.
    - intros x. apply as_in_da.
    - intros x. apply as_in_db. }
  unfold einsum2. rewrite Hsa, Hsb, Hplan. cbn [obind].
  rewrite (as_exec_bmm_reduce _ _ _ _ _ _ a b a' b' Ea Eb).
  rewrite (cf_exec_bmm sz bat ak con bk a' b'); try assumption.
  - cbn [obind]. destruct (pl_perm p) as [q|] eqn:Epm.
    + assert (q = p).
      { unfold pl_perm in Epm. destruct (eqb p (seq 0 (length p))); [discriminate|].
        inversion Epm. reflexivity. }
      subst q. cbn [omaybe].
      rewrite cp_transpose_of_ref by assumption.
      rewrite Hmap. f_equal. exact Hcomp.
    + cbn [omaybe]. rewrite (Hnone eq_refl). f_equal. exact Hcomp.
  - apply (as_gshape sz bat ak con).
  - apply (as_gshape sz bat ak con).
  - apply (as_gshape sz bat con bk).
  - apply (as_gshape sz bat con bk).
  - apply (as_oshape sz bat ak bk).
  - apply (as_oshape sz bat ak bk).
Qed.

Corollary as_einsum2_bmm_consistent ta tb out a b :
  (exists sz : nat -> nat, (forall x, 2 <= sz x) /\ tshape a = map sz ta /\ tshape b = map sz tb) ->
  NoDup ta -> NoDup tb -> NoDup out -> incl out (ta ++ tb) ->
  Forall (fun c => 4 <= c) ta -> Forall (fun c => 4 <= c) tb -> Forall (fun c => 4 <= c) out ->
  wf_tensor a = true -> wf_tensor b = true ->
  pl_con ta tb out <> [] ->
  einsum2 (eq2 ta tb out) a b = Some (einsum_ref [ta; tb] out [a; b]).
Proof.
  intros (sz & Hsz & Hsa & Hsb) Hda Hdb Hdo Hio Fa Fb Fo Hwa Hwb Hcon.
  apply (as_einsum2_bmm sz); assumption.
Qed.

(* ------------------------------------------------------------------ *)
(* A6: the theorem is not vacuous: batch 5, contracted 6 7, kept 4 / 8, *)
(* output permuted, both operands need a transposition pre-step         *)

Definition as_ex_ta : str := [4; 5; 6; 7].
Definition as_ex_tb : str := [7; 5; 8; 6].
Definition as_ex_out : str := [8; 4; 5].
Definition as_ex_a : tensor := ([2; 2; 2; 2], map Z.of_nat (seq 1 16)).
Definition as_ex_b : tensor := ([2; 2; 2; 2], map (fun k => (Z.of_nat k * Z.of_nat k - 7)%Z) (seq 0 16)).

Example as_ex_hyps :
  NoDup as_ex_ta /\ NoDup as_ex_tb /\ NoDup as_ex_out /\ incl as_ex_out (as_ex_ta ++ as_ex_tb) /\
  Forall (fun c => 4 <= c) as_ex_ta /\ Forall (fun c => 4 <= c) as_ex_tb /\
  Forall (fun c => 4 <= c) as_ex_out /\
  tshape as_ex_a = map (fun _ => 2) as_ex_ta /\ tshape as_ex_b = map (fun _ => 2) as_ex_tb /\
  wf_tensor as_ex_a = true /\ wf_tensor as_ex_b = true /\
  pl_con as_ex_ta as_ex_tb as_ex_out = [6; 7] /\
  pl_bat as_ex_ta as_ex_tb as_ex_out = [5] /\
  pl_ak as_ex_ta as_ex_tb as_ex_out = [4] /\
  pl_bk as_ex_ta as_ex_tb as_ex_out = [8].
Proof.
  unfold as_ex_ta, as_ex_tb, as_ex_out.
  repeat split; try reflexivity.
  - repeat constructor; cbn; intuition lia.
  - repeat constructor; cbn; intuition lia.
  - repeat constructor; cbn; intuition lia.
  - intros x Hx. cbn in Hx |- *. intuition lia.
  - repeat constructor; lia.
  - repeat constructor; lia.
  - repeat constructor; lia.
Qed.

Example as_ex_instance :
  einsum2 (eq2 as_ex_ta as_ex_tb as_ex_out) as_ex_a as_ex_b
  = Some (einsum_ref [as_ex_ta; as_ex_tb] as_ex_out [as_ex_a; as_ex_b]).
Proof.
  destruct as_ex_hyps as (H1 & H2 & H3 & H4 & H5 & H6 & H7 & H8 & H9 & H10 & H11 & H12 & _).
  apply (as_einsum2_bmm (fun _ => 2)); try assumption.
  - intros _. lia.
  - rewrite H12. discriminate.
Qed.

(* independent check by evaluation: the plan really has two pre-steps, fused
   reshapes and a final permutation, and both sides evaluate to the same data *)
Example as_ex_plan :
  parse_bmm (eq2 as_ex_ta as_ex_tb as_ex_out) (tshape as_ex_a) (tshape as_ex_b)
  = Some (Some (true, [1; 0; 2; 3]), (Some (true, [1; 3; 0; 2]),
         (Some [2; 2; 4], (Some [2; 4; 2], (None, (Some [2; 1; 0], false)))))).
Proof. vm_compute. reflexivity. Qed.

Example as_ex_eval :
  einsum2 (eq2 as_ex_ta as_ex_tb as_ex_out) as_ex_a as_ex_b
  = Some ([2; 2; 2], [385; 2289; 1329; 4897; 645; 3317; 2293; 7141]%Z)
  /\ einsum_ref [as_ex_ta; as_ex_tb] as_ex_out [as_ex_a; as_ex_b]
  = ([2; 2; 2], [385; 2289; 1329; 4897; 645; 3317; 2293; 7141]%Z).
Proof. vm_compute. split; reflexivity. Qed.

(* ================================================================== *)
(* PART 5 (PureFacts): end-to-end correctness chain *)
(* PureFacts.v -- end-to-end correctness of the PURE MULTIPLICATION path of the
   two-operand einsum (no label contracted between the operands). *)

(* ------------------------------------------------------------------ *)
(* the labels / new shape the pure scan computes for one operand       *)
Definition pu_d (t out : str) : str := filter (fun x => memb x t) out.
Definition pu_n (sz : nat -> nat) (t out : str) : list nat :=
  map (fun x => if memb x t then sz x else 1) out.
(* the entries of idx at the positions of out whose label is in t *)
Fixpoint pu_sub (t out : str) (idx : list nat) : list nat :=
  match out, idx with
  | x :: o, i :: r => if memb x t then i :: pu_sub t o r else pu_sub t o r
  | _, _ => []
  end.

Lemma pu_memb_in x l : memb x l = true <-> In x l.
Proof.
  unfold memb. rewrite existsb_exists. split.
  - intros (y & Hy & E). apply Nat.eqb_eq in E. subst. exact Hy.
  - intros H. exists x. split; [exact H|apply Nat.eqb_refl].
Qed.

Lemma pu_memb_notin x l : memb x l = false <-> ~ In x l.
Proof.
  rewrite <- pu_memb_in. destruct (memb x l); split; intros; congruence.
Qed.

Lemma pu_find_pos_sz sz t x :
  match find_pos x t with
  | Some p => memb x t = true /\ nth p (map sz t) 0 = sz x
  | None => memb x t = false
  end.
Proof.
  destruct (find_pos x t) as [p|] eqn:E.
  - destruct (sf_find_pos_some _ _ _ E) as [Hl Hn]. split.
    + apply pu_memb_in. rewrite <- Hn. apply nth_In. exact Hl.
    + rewrite (nth_map_lt sz t p 0 0 Hl). rewrite Hn. reflexivity.
  - apply pu_memb_notin. apply sf_find_pos_none. exact E.
Qed.

Lemma pu_scan sz ta tb out :
  pure_scan ta (map sz ta) tb (map sz tb) out =
  ((pu_d ta out, pu_n sz ta out), (pu_d tb out, pu_n sz tb out)).
Proof.
  induction out as [|x o IH]; [reflexivity|].
  cbn [pure_scan]. rewrite IH. unfold pu_d, pu_n. cbn [filter map].
  pose proof (pu_find_pos_sz sz ta x) as Ha.
  pose proof (pu_find_pos_sz sz tb x) as Hb.
  destruct (find_pos x ta) as [p|]; destruct (find_pos x tb) as [q|].
  - destruct Ha as [Ha1 Ha2], Hb as [Hb1 Hb2]. rewrite Ha1, Hb1, Ha2, Hb2. reflexivity.
  - destruct Ha as [Ha1 Ha2]. rewrite Ha1, Hb, Ha2. reflexivity.
  - destruct Hb as [Hb1 Hb2]. rewrite Ha, Hb1, Hb2. reflexivity.
  - rewrite Ha, Hb. reflexivity.
Qed.

Definition pu_pre (t d : str) : pre :=
  if eqb d t then None else Some (false, eq1 t d).

Lemma pu_parse_pure sz ta tb out :
  parse_pure ta (map sz ta) tb (map sz tb) out =
  (pu_pre ta (pu_d ta out), (pu_pre tb (pu_d tb out),
   (Some (pu_n sz ta out), (Some (pu_n sz tb out), (None, (None, true)))))).
Proof.
  unfold parse_pure. rewrite pu_scan. reflexivity.
Qed.

Theorem pu_parse sz ta tb out :
  (forall x, 2 <= sz x) -> NoDup ta -> NoDup tb ->
  Forall (fun c => 4 <= c) ta -> Forall (fun c => 4 <= c) tb -> Forall (fun c => 4 <= c) out ->
  pl_con ta tb out = [] ->
  parse_bmm (eq2 ta tb out) (map sz ta) (map sz tb) =
  Some (pu_pre ta (pu_d ta out), (pu_pre tb (pu_d tb out),
   (Some (pu_n sz ta out), (Some (pu_n sz tb out), (None, (None, true)))))).
Proof.
  intros Hsz Hda Hdb Fa Fb Fo Hcon.
  rewrite pl_parse_bmm_split by assumption.
  destruct (pl_classify sz ta tb out Hsz Hda Hdb) as (c & Hc & _ & Cc & _).
  unfold parse_bmm_terms.
  rewrite !map_length, !Nat.eqb_refl. cbn [negb].
  rewrite Hc, Cc, Hcon. rewrite pu_parse_pure. reflexivity.
Qed.

(* ------------------------------------------------------------------ *)
(* basic facts on pu_d                                                  *)
Lemma pu_d_in t out x : In x (pu_d t out) <-> In x out /\ In x t.
Proof.
  unfold pu_d. rewrite filter_In, pu_memb_in. tauto.
Qed.

Lemma pu_d_nodup t out : NoDup out -> NoDup (pu_d t out).
Proof. intros H. apply NoDup_filter. exact H. Qed.

Lemma pu_d_incl t out : incl (pu_d t out) t.
Proof. intros x Hx. apply pu_d_in in Hx. tauto. Qed.

(* ------------------------------------------------------------------ *)
(* the reshape that inserts size-1 axes                                 *)
Lemma pu_nprod sz t out : nprod (pu_n sz t out) = nprod (map sz (pu_d t out)).
Proof.
  unfold pu_n, pu_d. induction out as [|x o IH]; [reflexivity|].
  cbn [map filter]. destruct (memb x t).
  - cbn [map]. rewrite !nprod_cons, IH. reflexivity.
  - rewrite nprod_cons, IH. lia.
Qed.

Lemma pu_ravel sz t : (forall x, 2 <= sz x) -> forall out idx,
  length idx = length out ->
  ravel (pu_n sz t out) (clip (pu_n sz t out) idx) =
  ravel (map sz (pu_d t out)) (pu_sub t out idx).
Proof.
  intros Hsz. induction out as [|x o IH]; intros idx Hl.
  - destruct idx; reflexivity.
  - destruct idx as [|i r]; [discriminate|]. cbn [length] in Hl.
    assert (Hl' : length r = length o) by lia.
    specialize (IH r Hl').
    unfold pu_n, pu_d in *. cbn [map filter clip pu_sub].
    destruct (memb x t) eqn:E.
    + assert (E1 : Nat.eqb (sz x) 1 = false)
        by (apply Nat.eqb_neq; specialize (Hsz x); lia).
      rewrite E1. cbn [map ravel]. rewrite IH.
      fold (pu_n sz t o). fold (pu_d t o). rewrite pu_nprod. reflexivity.
    + cbn [Nat.eqb ravel]. rewrite IH. lia.
Qed.

Lemma pu_tget_reshaped sz t out (x : tensor) idx :
  (forall y, 2 <= sz y) -> tshape x = map sz (pu_d t out) -> length idx = length out ->
  tget (pu_n sz t out, tdata x) (clip (pu_n sz t out) idx) = tget x (pu_sub t out idx).
Proof.
  intros Hsz Hs Hl. unfold tget. cbn [tshape tdata fst snd].
  rewrite (pu_ravel sz t Hsz out idx Hl).
  change (fst x) with (tshape x). rewrite Hs. reflexivity.
Qed.

Lemma pu_sub_elook t : forall out idx, NoDup out -> length idx = length out ->
  pu_sub t out idx = map (elook (combine out idx)) (pu_d t out).
Proof.
  induction out as [|x o IH]; intros idx Hnd Hl.
  - destruct idx; reflexivity.
  - destruct idx as [|i r]; [discriminate|]. cbn [length] in Hl.
    inversion Hnd as [|? ? Hx Hnd']; subst.
    assert (Hl' : length r = length o) by lia.
    assert (Hrest : map (elook (combine (x :: o) (i :: r))) (pu_d t o) =
                    map (elook (combine o r)) (pu_d t o)).
    { apply map_ext_in. intros y Hy. apply pu_d_in in Hy. destruct Hy as [Hy _].
      cbn [combine elook].
      assert (E : Nat.eqb x y = false) by (apply Nat.eqb_neq; intros ->; contradiction).
      rewrite E. reflexivity. }
    unfold pu_d in *. cbn [pu_sub filter].
    destruct (memb x t).
    + cbn [map]. rewrite Hrest. rewrite <- (IH r Hnd' Hl').
      cbn [combine elook]. rewrite Nat.eqb_refl. reflexivity.
    + rewrite Hrest. apply IH; assumption.
Qed.

(* ------------------------------------------------------------------ *)
(* broadcasting of the two reshaped operands                            *)
Lemma pu_bcast sz ta tb : (forall x, 2 <= sz x) -> forall out,
  incl out (ta ++ tb) ->
  bcast_shape (pu_n sz ta out) (pu_n sz tb out) = Some (map sz out).
Proof.
  intros Hsz. induction out as [|x o IH]; intros Hi; [reflexivity|].
  assert (Hi' : incl o (ta ++ tb)) by (intros y Hy; apply Hi; right; exact Hy).
  specialize (IH Hi').
  unfold pu_n in *. cbn [map bcast_shape]. rewrite IH.
  assert (E1 : Nat.eqb (sz x) 1 = false)
    by (apply Nat.eqb_neq; specialize (Hsz x); lia).
  assert (E2 : Nat.eqb 1 (sz x) = false)
    by (apply Nat.eqb_neq; specialize (Hsz x); lia).
  destruct (memb x ta) eqn:Ea; destruct (memb x tb) eqn:Eb.
  - rewrite Nat.eqb_refl. reflexivity.
  - rewrite E1. cbn [Nat.eqb]. reflexivity.
  - rewrite E2. cbn [Nat.eqb]. reflexivity.
  - exfalso. apply pu_memb_notin in Ea. apply pu_memb_notin in Eb.
    assert (H : In x (ta ++ tb)) by (apply Hi; left; reflexivity).
    apply in_app_or in H. tauto.
Qed.

(* ------------------------------------------------------------------ *)
(* the pre-steps                                                        *)
Lemma pu_exec_pre t d x :
  NoDup t -> Forall (fun c => 4 <= c) t -> NoDup d -> incl d t ->
  length t = length (tshape x) -> wf_tensor x = true ->
  exec_pre (pu_pre t d) x = Some (einsum_ref [t] d [x]).
Proof.
  intros Hdt Ft Hdd Hi Hlen Hwf. unfold pu_pre.
  match goal with |- exec_pre (if ?b then _ else _) _ = _ => destruct b eqn:E end.
  - apply pf_list_eqb_eq in E. subst d. cbn [exec_pre].
    rewrite ff_einsum_ref_id by assumption. reflexivity.
  - cbn [exec_pre]. apply ff_einsum_single_nodup; assumption.
Qed.

(* ------------------------------------------------------------------ *)
(* the broadcasting multiply of the reshaped operands is the reference
   with no inner labels                                                 *)
Lemma pu_inner_nil ta tb out :
  incl out (ta ++ tb) -> sf_inner [pu_d ta out; pu_d tb out] out = [].
Proof.
  intros Hi. unfold sf_inner. apply sf_filter_nil. intros x Hx.
  apply (proj1 (sf_unique_in _ _)) in Hx. cbn [concat] in Hx. rewrite app_nil_r in Hx.
  assert (Ho : In x out).
  { apply in_app_or in Hx. destruct Hx as [Hx|Hx]; apply pu_d_in in Hx; tauto. }
  apply pu_memb_in in Ho. rewrite Ho. reflexivity.
Qed.

Lemma pu_out_incl ta tb out :
  incl out (ta ++ tb) -> incl out (concat [pu_d ta out; pu_d tb out]).
Proof.
  intros Hi x Hx. cbn [concat]. rewrite app_nil_r.
  pose proof (Hi x Hx) as H. apply in_app_or in H. apply in_or_app.
  destruct H as [H|H]; [left|right]; apply pu_d_in; tauto.
Qed.

Theorem pu_multiply sz ta tb out (a1 b1 : tensor) :
  (forall x, 2 <= sz x) -> NoDup out -> incl out (ta ++ tb) ->
  tshape a1 = map sz (pu_d ta out) -> tshape b1 = map sz (pu_d tb out) ->
  multiply (pu_n sz ta out, tdata a1) (pu_n sz tb out, tdata b1) =
  Some (einsum_ref [pu_d ta out; pu_d tb out] out [a1; b1]).
Proof.
  intros Hsz Hnd Hi Ha Hb.
  unfold multiply. cbn [tshape fst]. rewrite (pu_bcast sz ta tb Hsz out Hi).
  f_equal.
  pose proof (cp_sized2 sz _ _ a1 b1 Ha Hb) as Hsized.
  pose proof (pu_out_incl ta tb out Hi) as Hoi.
  pose proof (cp_ref_shape sz _ _ out Hsized Hoi) as Hshape.
  apply tensor_ext.
  - apply tbuild_wf.
  - apply einsum_ref_wf.
  - exact (eq_sym Hshape).
  - intros idx Hv. change (tshape (tbuild (map sz out) _)) with (map sz out) in Hv.
    assert (Hl : length idx = length out)
      by (rewrite (sf_valid_idx_length _ _ Hv), map_length; reflexivity).
    rewrite tget_tbuild by exact Hv.
    rewrite (pu_tget_reshaped sz ta out a1 idx Hsz Ha Hl).
    rewrite (pu_tget_reshaped sz tb out b1 idx Hsz Hb Hl).
    symmetry. etransitivity; [exact (cp_tget_ref sz _ _ out idx Hsized Hoi Hv)|].
    match goal with |- context [cp_lsum sz ?l _ _] =>
      replace l with (@nil nat) by (symmetry; exact (pu_inner_nil ta tb out Hi)) end.
    cbn [cp_lsum].
    rewrite cp_Gn2.
    rewrite (pu_sub_elook ta out idx Hnd Hl), (pu_sub_elook tb out idx Hnd Hl).
    reflexivity.
Qed.

(* ------------------------------------------------------------------ *)
(* no contracted label: a label in both terms is an output label        *)
Lemma pu_con_nil ta tb out x :
  pl_con ta tb out = [] -> In x ta -> In x tb -> In x out.
Proof.
  intros Hc Ha Hb. destruct (memb x out) eqn:E; [apply pu_memb_in; exact E|].
  exfalso. assert (H : In x (pl_con ta tb out)).
  { unfold pl_con. apply filter_In. split; [exact Ha|].
    apply pu_memb_in in Hb. rewrite Hb, E. reflexivity. }
  rewrite Hc in H. exact H.
Qed.

Lemma pu_d_char ta tb out x :
  pl_con ta tb out = [] ->
  (In x (pu_d ta out) <-> In x ta /\ (In x tb \/ In x out)).
Proof.
  intros Hc. rewrite pu_d_in. split.
  - intros [Ho Ha]. tauto.
  - intros [Ha [Hb|Ho]]; [|tauto]. split; [|exact Ha].
    apply (pu_con_nil ta tb out x Hc Ha Hb).
Qed.

Lemma pu_con_sym ta tb out :
  pl_con ta tb out = [] -> pl_con tb ta out = [].
Proof.
  intros Hc. unfold pl_con. apply sf_filter_nil. intros x Hb.
  destruct (memb x ta) eqn:Ea; [|reflexivity].
  apply pu_memb_in in Ea.
  pose proof (pu_con_nil ta tb out x Hc Ea Hb) as Ho.
  apply pu_memb_in in Ho. rewrite Ho. reflexivity.
Qed.

(* ------------------------------------------------------------------ *)
(* execution of the pure plan                                           *)
Theorem pu_exec sz ta tb out a b :
  (forall x, 2 <= sz x) -> NoDup ta -> NoDup tb -> NoDup out -> incl out (ta ++ tb) ->
  Forall (fun c => 4 <= c) ta -> Forall (fun c => 4 <= c) tb ->
  tshape a = map sz ta -> tshape b = map sz tb -> wf_tensor a = true -> wf_tensor b = true ->
  pl_con ta tb out = [] ->
  exec_bmm (pu_pre ta (pu_d ta out), (pu_pre tb (pu_d tb out),
     (Some (pu_n sz ta out), (Some (pu_n sz tb out), (None, (None, true)))))) a b
  = Some (einsum_ref [ta; tb] out [a; b]).
Proof.
  intros Hsz Hda Hdb Hdo Hi Fa Fb Hsa Hsb Hwa Hwb Hc.
  assert (Hla : length ta = length (tshape a)) by (rewrite Hsa, map_length; reflexivity).
  assert (Hlb : length tb = length (tshape b)) by (rewrite Hsb, map_length; reflexivity).
  destruct (pl_einsum_ref_single_shape sz ta (pu_d ta out) a Hsa (pu_d_incl ta out)) as [Hsa1 Hwa1].
  destruct (pl_einsum_ref_single_shape sz tb (pu_d tb out) b Hsb (pu_d_incl tb out)) as [Hsb1 Hwb1].
  unfold exec_bmm.
  rewrite (pu_exec_pre ta (pu_d ta out) a Hda Fa (pu_d_nodup ta out Hdo) (pu_d_incl ta out) Hla Hwa).
  cbn [obind omaybe].
  rewrite (cf_reshape_some _ (pu_n sz ta out) Hwa1)
    by (rewrite Hsa1; apply pu_nprod).
  cbn [obind].
  rewrite (pu_exec_pre tb (pu_d tb out) b Hdb Fb (pu_d_nodup tb out Hdo) (pu_d_incl tb out) Hlb Hwb).
  cbn [obind omaybe].
  rewrite (cf_reshape_some _ (pu_n sz tb out) Hwb1)
    by (rewrite Hsb1; apply pu_nprod).
  cbn [obind].
  rewrite (pu_multiply sz ta tb out _ _ Hsz Hdo Hi Hsa1 Hsb1).
  f_equal.
  apply (cp_pre_sum_compose sz ta tb out); try assumption.
  - intros x. apply pu_d_char. exact Hc.
  - intros x. apply pu_d_char. apply pu_con_sym; assumption.
Qed.

(* ------------------------------------------------------------------ *)
(* MAIN THEOREM                                                         *)
Theorem pu_einsum2_pure sz ta tb out a b :
  (forall x, 2 <= sz x) -> NoDup ta -> NoDup tb -> NoDup out -> incl out (ta ++ tb) ->
  Forall (fun c => 4 <= c) ta -> Forall (fun c => 4 <= c) tb -> Forall (fun c => 4 <= c) out ->
  tshape a = map sz ta -> tshape b = map sz tb -> wf_tensor a = true -> wf_tensor b = true ->
  pl_con ta tb out = [] ->
  einsum2 (eq2 ta tb out) a b = Some (einsum_ref [ta; tb] out [a; b]).
Proof.
  intros Hsz Hda Hdb Hdo Hi Fa Fb Fo Hsa Hsb Hwa Hwb Hc.
  unfold einsum2. rewrite Hsa, Hsb.
  rewrite (pu_parse sz ta tb out Hsz Hda Hdb Fa Fb Fo Hc).
  cbn [obind].
  apply (pu_exec sz); assumption.
Qed.

(* ------------------------------------------------------------------ *)
(* non-vacuity: the theorem applies to concrete equations (labels a=4,
   b=5, c=6, d=7) and the executed results are the expected arrays       *)
Definition pu_sz (x : nat) : nat := match x with 5 => 3 | _ => 2 end.

Lemma pu_sz_ge2 x : 2 <= pu_sz x.
Proof. unfold pu_sz. do 6 (destruct x as [|x]; [lia|]). lia. Qed.

Ltac pu_side :=
  match goal with
  | |- forall x, 2 <= pu_sz x => exact pu_sz_ge2
  | |- NoDup _ => apply sf_nodupb_NoDup; reflexivity
  | |- incl _ _ => let x := fresh "x" in let H := fresh "H" in
                   intros x H; cbn [In app] in *; tauto
  | |- Forall _ _ => repeat constructor; lia
  | |- _ = _ => reflexivity
  end.

(* outer product  ab,cd->cadb *)
Example pu_ex_outer :
  let a : tensor := ([2; 3], [1; 2; 3; 4; 5; 6]%Z) in
  let b : tensor := ([2; 2], [7; 8; 9; 10]%Z) in
  einsum2 (eq2 [4; 5] [6; 7] [6; 4; 7; 5]) a b = Some (einsum_ref [[4; 5]; [6; 7]] [6; 4; 7; 5] [a; b]) /\
  einsum2 (eq2 [4; 5] [6; 7] [6; 4; 7; 5]) a b =
  Some ([2; 2; 2; 3],
        [7; 14; 21; 8; 16; 24; 28; 35; 42; 32; 40; 48;
         9; 18; 27; 10; 20; 30; 36; 45; 54; 40; 50; 60]%Z).
Proof.
  intros a b. split.
  - apply (pu_einsum2_pure pu_sz); pu_side.
  - vm_compute. reflexivity.
Qed.

(* Hadamard product with a transposed operand  ab,ba->ab *)
Example pu_ex_hadamard :
  let a : tensor := ([2; 3], [1; 2; 3; 4; 5; 6]%Z) in
  let b : tensor := ([3; 2], [7; 8; 9; 10; 11; 12]%Z) in
  einsum2 (eq2 [4; 5] [5; 4] [4; 5]) a b = Some (einsum_ref [[4; 5]; [5; 4]] [4; 5] [a; b]) /\
  einsum2 (eq2 [4; 5] [5; 4] [4; 5]) a b = Some ([2; 3], [7; 18; 33; 32; 50; 72]%Z).
Proof.
  intros a b. split.
  - apply (pu_einsum2_pure pu_sz); pu_side.
  - vm_compute. reflexivity.
Qed.

(* one-sided sum  abc,b->ba *)
Example pu_ex_onesided :
  let a : tensor := ([2; 3; 2], [1; 2; 3; 4; 5; 6; 7; 8; 9; 10; 11; 12]%Z) in
  let b : tensor := ([3], [1; 10; 100]%Z) in
  einsum2 (eq2 [4; 5; 6] [5] [5; 4]) a b = Some (einsum_ref [[4; 5; 6]; [5]] [5; 4] [a; b]) /\
  einsum2 (eq2 [4; 5; 6] [5] [5; 4]) a b = Some ([3; 2], [3; 15; 70; 190; 1100; 2300]%Z).
Proof.
  intros a b. split.
  - apply (pu_einsum2_pure pu_sz); pu_side.
  - vm_compute. reflexivity.
Qed.

(* ================================================================== *)
(* PART 5 (Plan2Facts): end-to-end correctness chain *)

(* ------------------------------------------------------------------ *)
(* the classes of labels for arbitrary terms and consistent sizes >= 1 *)

Definition p2_big (sz : nat -> nat) (x : nat) : bool := negb (Nat.eqb (sz x) 1).
Definition p2_uA (sz : nat -> nat) (ta : list nat) : list nat := unique (filter (p2_big sz) ta).
Definition p2_bat (sz : nat -> nat) (ta tb out : list nat) : list nat :=
  filter (fun x => memb x tb && memb x out) (p2_uA sz ta).
Definition p2_con (sz : nat -> nat) (ta tb out : list nat) : list nat :=
  filter (fun x => memb x tb && negb (memb x out)) (p2_uA sz ta).
Definition p2_ak (sz : nat -> nat) (ta tb out : list nat) : list nat :=
  filter (fun x => negb (memb x tb) && memb x out) (p2_uA sz ta).
Definition p2_bk (sz : nat -> nat) (ta tb out : list nat) : list nat :=
  filter (fun x => negb (memb x ta) && memb x out) (p2_uA sz tb).
Definition p2_sing (sz : nat -> nat) (out : list nat) : list nat :=
  filter (fun x => Nat.eqb (sz x) 1) out.

Lemma p2_big_true sz x : p2_big sz x = true <-> sz x <> 1.
Proof. unfold p2_big. rewrite negb_true_iff, Nat.eqb_neq. tauto. Qed.

Lemma p2_big_false sz x : p2_big sz x = false <-> sz x = 1.
Proof. unfold p2_big. rewrite negb_false_iff, Nat.eqb_eq. tauto. Qed.

(* ------------------------------------------------------------------ *)
(* G1 *)

Lemma p2_nonsing sz t : nonsing (combine t (map sz t)) = filter (p2_big sz) t.
Proof.
  induction t as [|a t IH]; [reflexivity|].
  cbn [map combine filter]. unfold p2_big at 1.
  destruct (Nat.eqb (sz a) 1) eqn:E; cbn [negb].
  - rewrite nonsing_cons_one by exact E. exact IH.
  - rewrite nonsing_cons_big by exact E. rewrite IH. reflexivity.
Qed.

(* ------------------------------------------------------------------ *)
(* the two scanning loops never fail under consistent sizes            *)

Lemma p2_scan_a_some sz b_term out :
  forall t bat con keep sizes sing seen,
  pl_szok sz sizes ->
  exists bat' con' keep' sizes' sing',
    scan_a b_term out (combine t (map sz t)) bat con keep sizes sing seen
      = Some (bat', con', keep', sizes', sing') /\
    pl_szok sz sizes' /\
    (forall x, In x t -> sz x <> 1 -> lget x sizes' = Some (sz x)) /\
    (forall x v, lget x sizes = Some v -> lget x sizes' = Some v) /\
    (forall x, In x sing' <-> In x sing \/ (In x t /\ sz x = 1)).
Proof.
  induction t as [|a t IH]; intros bat con keep sizes sing seen Hok.
  - cbn [map combine scan_a]. exists bat, con, keep, sizes, sing.
    split; [reflexivity|]. split; [exact Hok|]. split; [intros x []|].
    split; [auto|]. intros x. cbn [In]. tauto.
  - cbn [map combine scan_a].
    destruct (Nat.eqb (sz a) 1) eqn:E1.
    + apply Nat.eqb_eq in E1.
      destruct (IH bat con keep sizes (a :: sing) seen Hok)
        as (b' & c' & k' & s' & g' & Hs & Hoks & Hin & Hm & Hg).
      exists b', c', k', s', g'. split; [exact Hs|]. split; [exact Hoks|]. split; [|split].
      * intros x [<-|Hx] Hne; [congruence|]. apply Hin; assumption.
      * exact Hm.
      * intros x. rewrite Hg. cbn [In].
        destruct (Nat.eq_dec a x) as [->|Hne]; tauto.
    + apply Nat.eqb_neq in E1.
      fold (pl_upd a (sz a) sizes).
      destruct (pl_upd_facts sz a sizes Hok) as (Hok' & Hget & Hmono).
      assert (E2 : lget0 a (pl_upd a (sz a) sizes) = sz a) by (unfold lget0; rewrite Hget; reflexivity).
      rewrite E2, Nat.eqb_refl. cbn [negb].
      assert (K : forall bat1 con1 keep1 seen1,
        exists bat' con' keep' sizes' sing',
          scan_a b_term out (combine t (map sz t)) bat1 con1 keep1 (pl_upd a (sz a) sizes) sing seen1
            = Some (bat', con', keep', sizes', sing') /\
          pl_szok sz sizes' /\
          (forall x, In x (a :: t) -> sz x <> 1 -> lget x sizes' = Some (sz x)) /\
          (forall x v, lget x sizes = Some v -> lget x sizes' = Some v) /\
          (forall x, In x sing' <-> In x sing \/ (In x (a :: t) /\ sz x = 1))).
      { intros bat1 con1 keep1 seen1.
        destruct (IH bat1 con1 keep1 (pl_upd a (sz a) sizes) sing seen1 Hok')
          as (b' & c' & k' & s' & g' & Hs & Hoks & Hin & Hm & Hg).
        exists b', c', k', s', g'. split; [exact Hs|]. split; [exact Hoks|]. split; [|split].
        - intros x [<-|Hx] Hne; [apply Hm; exact Hget|apply Hin; assumption].
        - intros x v Hx. apply Hm. apply Hmono. exact Hx.
        - intros x. rewrite Hg. cbn [In].
          destruct (Nat.eq_dec a x) as [<-|Hne]; tauto. }
      destruct (memb a seen); [apply K|].
      destruct (memb a b_term); destruct (memb a out); apply K.
Qed.

Lemma p2_remove_all_in x c s : In x (remove_all c s) <-> In x s /\ x <> c.
Proof.
  unfold remove_all. rewrite filter_In, negb_true_iff, Nat.eqb_neq. tauto.
Qed.

Lemma p2_scan_b_some sz a_term out :
  forall t keep sizes sing seen,
  pl_szok sz sizes ->
  exists keep' sizes' sing',
    scan_b a_term out (combine t (map sz t)) keep sizes sing seen
      = Some (keep', sizes', sing') /\
    pl_szok sz sizes' /\
    (forall x, In x t -> sz x <> 1 -> lget x sizes' = Some (sz x)) /\
    (forall x v, lget x sizes = Some v -> lget x sizes' = Some v) /\
    (forall x, In x sing' <-> (In x sing /\ ~ (In x t /\ sz x <> 1)) \/ (In x t /\ sz x = 1)).
Proof.
  induction t as [|a t IH]; intros keep sizes sing seen Hok.
  - cbn [map combine scan_b]. exists keep, sizes, sing.
    split; [reflexivity|]. split; [exact Hok|]. split; [intros x []|].
    split; [auto|]. intros x. cbn [In]. tauto.
  - cbn [map combine scan_b].
    destruct (Nat.eqb (sz a) 1) eqn:E1.
    + apply Nat.eqb_eq in E1.
      destruct (IH keep sizes (a :: sing) seen Hok)
        as (k' & s' & g' & Hs & Hoks & Hin & Hm & Hg).
      exists k', s', g'. split; [exact Hs|]. split; [exact Hoks|]. split; [|split].
      * intros x [<-|Hx] Hne; [congruence|]. apply Hin; assumption.
      * exact Hm.
      * intros x. rewrite Hg. cbn [In].
        destruct (Nat.eq_dec a x) as [<-|Hne]; tauto.
    + apply Nat.eqb_neq in E1.
      fold (pl_upd a (sz a) sizes).
      destruct (pl_upd_facts sz a sizes Hok) as (Hok' & Hget & Hmono).
      assert (E2 : lget0 a (pl_upd a (sz a) sizes) = sz a) by (unfold lget0; rewrite Hget; reflexivity).
      rewrite E2, Nat.eqb_refl. cbn [negb].
      assert (K : forall keep1 seen1,
        exists keep' sizes' sing',
          scan_b a_term out (combine t (map sz t)) keep1 (pl_upd a (sz a) sizes) (remove_all a sing) seen1
            = Some (keep', sizes', sing') /\
          pl_szok sz sizes' /\
          (forall x, In x (a :: t) -> sz x <> 1 -> lget x sizes' = Some (sz x)) /\
          (forall x v, lget x sizes = Some v -> lget x sizes' = Some v) /\
          (forall x, In x sing' <->
             (In x sing /\ ~ (In x (a :: t) /\ sz x <> 1)) \/ (In x (a :: t) /\ sz x = 1))).
      { intros keep1 seen1.
        destruct (IH keep1 (pl_upd a (sz a) sizes) (remove_all a sing) seen1 Hok')
          as (k' & s' & g' & Hs & Hoks & Hin & Hm & Hg).
        exists k', s', g'. split; [exact Hs|]. split; [exact Hoks|]. split; [|split].
        - intros x [<-|Hx] Hne; [apply Hm; exact Hget|apply Hin; assumption].
        - intros x v Hx. apply Hm. apply Hmono. exact Hx.
        - intros x. rewrite Hg, p2_remove_all_in. cbn [In].
          destruct (Nat.eq_dec a x) as [<-|Hne]; [tauto|].
          assert (x <> a) by congruence. tauto. }
      destruct (memb a seen); [apply K|].
      destruct (negb (memb a a_term) && memb a out); apply K.
Qed.

(* ------------------------------------------------------------------ *)
(* G2: classification                                                  *)

Theorem p2_classify sz ta tb out :
  exists c, classify ta (map sz ta) tb (map sz tb) out = Some c /\
    c_bat c = p2_bat sz ta tb out /\ c_con c = p2_con sz ta tb out /\
    c_akeep c = p2_ak sz ta tb out /\ c_bkeep c = p2_bk sz ta tb out /\
    (forall x, In x (filter (p2_big sz) (ta ++ tb)) -> lget0 x (c_sizes c) = sz x) /\
    (forall x, In x (c_sing c) <-> (In x ta \/ In x tb) /\ sz x = 1).
Proof.
  assert (Hnil : pl_szok sz []) by (intros x v H; discriminate H).
  destruct (p2_scan_a_some sz tb out ta [] [] [] [] [] [] Hnil)
    as (b' & c' & k' & s' & g' & Hs & Hoks & Hin & _ & Hg).
  destruct (p2_scan_b_some sz ta out tb [] s' g' [] Hoks)
    as (k2 & s2 & g2 & Hs2 & Hoks2 & Hin2 & Hm2 & Hg2).
  assert (Hc : classify ta (map sz ta) tb (map sz tb) out = Some (mkCls b' c' k' k2 s2 g2)).
  { unfold classify. rewrite Hs, Hs2. reflexivity. }
  eexists. split; [exact Hc|].
  pose proof (classify_partition _ _ _ _ _ _ Hc) as Hp.
  cbv zeta in Hp. rewrite !p2_nonsing in Hp.
  destruct Hp as (P1 & P2 & P3 & P4).
  split; [exact P1|]. split; [exact P2|]. split; [exact P3|]. split; [exact P4|].
  split.
  - intros x Hx. cbn [c_sizes]. unfold lget0.
    apply filter_In in Hx. destruct Hx as [Hx Hb]. apply p2_big_true in Hb.
    apply in_app_or in Hx. destruct Hx as [Hx|Hx].
    + rewrite (Hm2 x (sz x)); [reflexivity|]. apply Hin; assumption.
    + rewrite (Hin2 x Hx Hb). reflexivity.
  - intros x. cbn [c_sing]. rewrite Hg2, Hg. cbn [In].
    destruct (Nat.eq_dec (sz x) 1); tauto.
Qed.

Lemma p2_sing_filter sz ta tb out sing :
  incl out (ta ++ tb) ->
  (forall x, In x sing <-> (In x ta \/ In x tb) /\ sz x = 1) ->
  filter (fun ix => memb ix sing) out = p2_sing sz out.
Proof.
  intros Hi Hg. unfold p2_sing. apply filter_ext_in. intros x Hx.
  apply Hi in Hx. apply in_app_or in Hx.
  destruct (Nat.eqb (sz x) 1) eqn:E.
  - apply Nat.eqb_eq in E. apply memb_In. apply Hg. tauto.
  - apply Nat.eqb_neq in E. apply memb_false. rewrite Hg. tauto.
Qed.

(* ------------------------------------------------------------------ *)
(* G5: membership facts                                                *)

Lemma p2_uA_in sz t x : In x (p2_uA sz t) <-> In x t /\ sz x <> 1.
Proof. unfold p2_uA. rewrite unique_in, filter_In, p2_big_true. tauto. Qed.

Lemma p2_bat_in sz ta tb out x :
  In x (p2_bat sz ta tb out) <-> In x ta /\ sz x <> 1 /\ In x tb /\ In x out.
Proof.
  unfold p2_bat. rewrite filter_In, p2_uA_in, andb_true_iff, !memb_In. tauto.
Qed.

Lemma p2_con_in sz ta tb out x :
  In x (p2_con sz ta tb out) <-> In x ta /\ sz x <> 1 /\ In x tb /\ ~ In x out.
Proof.
  unfold p2_con. rewrite filter_In, p2_uA_in, andb_true_iff, negb_true_iff, memb_In, memb_false. tauto.
Qed.

Lemma p2_ak_in sz ta tb out x :
  In x (p2_ak sz ta tb out) <-> In x ta /\ sz x <> 1 /\ ~ In x tb /\ In x out.
Proof.
  unfold p2_ak. rewrite filter_In, p2_uA_in, andb_true_iff, negb_true_iff, memb_In, memb_false. tauto.
Qed.

Lemma p2_bk_in sz ta tb out x :
  In x (p2_bk sz ta tb out) <-> In x tb /\ sz x <> 1 /\ ~ In x ta /\ In x out.
Proof.
  unfold p2_bk. rewrite filter_In, p2_uA_in, andb_true_iff, negb_true_iff, memb_In, memb_false. tauto.
Qed.

Lemma p2_sing_in sz out x : In x (p2_sing sz out) <-> In x out /\ sz x = 1.
Proof. unfold p2_sing. rewrite filter_In, Nat.eqb_eq. tauto. Qed.

Lemma p2_nodup_parts sz ta tb out :
  NoDup (p2_bat sz ta tb out) /\ NoDup (p2_con sz ta tb out) /\
  NoDup (p2_ak sz ta tb out) /\ NoDup (p2_bk sz ta tb out).
Proof.
  unfold p2_bat, p2_con, p2_ak, p2_bk, p2_uA.
  repeat split; apply NoDup_filter, unique_nodup.
Qed.

Lemma p2_nodup3 (a b c : list nat) :
  NoDup a -> NoDup b -> NoDup c ->
  (forall x, In x a -> ~ In x b) -> (forall x, In x a -> ~ In x c) -> (forall x, In x b -> ~ In x c) ->
  NoDup (a ++ b ++ c).
Proof.
  intros Na Nb Nc Hab Hac Hbc.
  apply NoDup_app_intro; [exact Na|apply NoDup_app_intro; assumption|].
  intros x Hx Hx'. apply in_app_or in Hx'. destruct Hx' as [Hx'|Hx'].
  - exact (Hab x Hx Hx').
  - exact (Hac x Hx Hx').
Qed.

Lemma p2_nodup_da sz ta tb out :
  NoDup (p2_bat sz ta tb out ++ p2_ak sz ta tb out ++ p2_con sz ta tb out).
Proof.
  destruct (p2_nodup_parts sz ta tb out) as (N1 & N2 & N3 & N4).
  apply p2_nodup3; try assumption; intros x;
    rewrite ?p2_bat_in, ?p2_con_in, ?p2_ak_in, ?p2_bk_in; tauto.
Qed.

Lemma p2_nodup_db sz ta tb out :
  NoDup (p2_bat sz ta tb out ++ p2_con sz ta tb out ++ p2_bk sz ta tb out).
Proof.
  destruct (p2_nodup_parts sz ta tb out) as (N1 & N2 & N3 & N4).
  apply p2_nodup3; try assumption; intros x;
    rewrite ?p2_bat_in, ?p2_con_in, ?p2_ak_in, ?p2_bk_in; tauto.
Qed.

Lemma p2_nodup_mid sz ta tb out :
  NoDup (p2_bat sz ta tb out ++ p2_ak sz ta tb out ++ p2_bk sz ta tb out).
Proof.
  destruct (p2_nodup_parts sz ta tb out) as (N1 & N2 & N3 & N4).
  apply p2_nodup3; try assumption; intros x;
    rewrite ?p2_bat_in, ?p2_con_in, ?p2_ak_in, ?p2_bk_in; tauto.
Qed.

Lemma p2_nodup_all sz ta tb out :
  NoDup (p2_bat sz ta tb out ++ p2_ak sz ta tb out ++ p2_con sz ta tb out ++ p2_bk sz ta tb out).
Proof.
  destruct (p2_nodup_parts sz ta tb out) as (N1 & N2 & N3 & N4).
  apply NoDup_app_intro; [exact N1| |].
  - apply p2_nodup3; try assumption; intros x;
      rewrite ?p2_bat_in, ?p2_con_in, ?p2_ak_in, ?p2_bk_in; tauto.
  - intros x. rewrite !in_app_iff, p2_bat_in, p2_con_in, p2_ak_in, p2_bk_in. tauto.
Qed.

Lemma p2_da_in sz ta tb out x :
  In x (p2_bat sz ta tb out ++ p2_ak sz ta tb out ++ p2_con sz ta tb out) <->
  In x ta /\ sz x <> 1 /\ (In x tb \/ In x out).
Proof.
  rewrite !in_app_iff, p2_bat_in, p2_con_in, p2_ak_in.
  destruct (in_dec Nat.eq_dec x tb); destruct (in_dec Nat.eq_dec x out); tauto.
Qed.

Lemma p2_db_in sz ta tb out x :
  In x (p2_bat sz ta tb out ++ p2_con sz ta tb out ++ p2_bk sz ta tb out) <->
  In x tb /\ sz x <> 1 /\ (In x ta \/ In x out).
Proof.
  rewrite !in_app_iff, p2_bat_in, p2_con_in, p2_bk_in.
  destruct (in_dec Nat.eq_dec x ta); destruct (in_dec Nat.eq_dec x out); tauto.
Qed.

Lemma p2_mid_in sz ta tb out x : incl out (ta ++ tb) ->
  (In x (p2_bat sz ta tb out ++ p2_ak sz ta tb out ++ p2_bk sz ta tb out) <->
   In x out /\ sz x <> 1).
Proof.
  intros Hi. rewrite !in_app_iff, p2_bat_in, p2_ak_in, p2_bk_in.
  specialize (Hi x). rewrite in_app_iff in Hi.
  destruct (in_dec Nat.eq_dec x ta); destruct (in_dec Nat.eq_dec x tb); tauto.
Qed.

Lemma p2_incl_da sz ta tb out :
  incl (p2_bat sz ta tb out ++ p2_ak sz ta tb out ++ p2_con sz ta tb out) ta.
Proof. intros x Hx. apply p2_da_in in Hx. tauto. Qed.

Lemma p2_incl_db sz ta tb out :
  incl (p2_bat sz ta tb out ++ p2_con sz ta tb out ++ p2_bk sz ta tb out) tb.
Proof. intros x Hx. apply p2_db_in in Hx. tauto. Qed.

Lemma p2_produced_nodup sz ta tb out : NoDup out ->
  NoDup (p2_sing sz out ++ p2_bat sz ta tb out ++ p2_ak sz ta tb out ++ p2_bk sz ta tb out).
Proof.
  intros Ho. apply NoDup_app_intro.
  - unfold p2_sing. apply NoDup_filter. exact Ho.
  - apply p2_nodup_mid.
  - intros x. rewrite p2_sing_in, !in_app_iff, p2_bat_in, p2_ak_in, p2_bk_in. tauto.
Qed.

Lemma p2_produced_in sz ta tb out x : incl out (ta ++ tb) ->
  (In x (p2_sing sz out ++ p2_bat sz ta tb out ++ p2_ak sz ta tb out ++ p2_bk sz ta tb out)
   <-> In x out).
Proof.
  intros Hi. rewrite in_app_iff, (p2_mid_in sz ta tb out x Hi), p2_sing_in.
  destruct (Nat.eq_dec (sz x) 1); tauto.
Qed.

(* ------------------------------------------------------------------ *)
(* G3: the matmul-path plan                                            *)

Definition p2_nsab (sz : nat -> nat) (sing bat ak bk : list nat) : option (list nat) :=
  if (pl_ragged (pl_ogroups bat ak bk) || negb (Nat.eqb (length sing) 0))
  then Some (repeat 1 (length sing) ++ map sz (concat (pl_ogroups bat ak bk)))
  else None.

Theorem p2_plan_terms sz ta tb out :
  incl out (ta ++ tb) ->
  let bat := p2_bat sz ta tb out in let con := p2_con sz ta tb out in
  let ak := p2_ak sz ta tb out in let bk := p2_bk sz ta tb out in
  let sing := p2_sing sz out in
  con <> [] ->
  exists p, index_all (sing ++ bat ++ ak ++ bk) out = Some p /\
    parse_bmm_terms ta (map sz ta) tb (map sz tb) out =
    Some (mk_pre ta (bat ++ ak ++ con),
         (mk_pre tb (bat ++ con ++ bk),
         (pl_gshape sz (pl_lgroups bat ak con),
         (pl_gshape sz (pl_rgroups bat con bk),
         (p2_nsab sz sing bat ak bk,
         (pl_perm p, false)))))).
Proof.
  intros Hio bat con ak bk sing Hcon.
  destruct (p2_classify sz ta tb out) as (c & Hc & Cb & Cc & Ca & Ck & Hsizes & Hsing).
  pose proof (p2_sing_filter sz ta tb out (c_sing c) Hio Hsing) as Cs.
  assert (Hinc : incl out (sing ++ bat ++ ak ++ bk)).
  { intros x Hx. apply (p2_produced_in sz ta tb out x Hio). exact Hx. }
  destruct (index_all_total _ _ Hinc) as (p & Hp).
  fold bat in Cb. fold con in Cc. fold ak in Ca. fold bk in Ck. fold sing in Cs.
  exists p. split; [exact Hp|].
  assert (Hbig : forall x, (In x ta \/ In x tb) -> sz x <> 1 -> lget0 x (c_sizes c) = sz x).
  { intros x Hx Hne. apply Hsizes. apply filter_In. split; [apply in_or_app; exact Hx|].
    apply p2_big_true. exact Hne. }
  assert (Sb : forall x, In x bat -> lget0 x (c_sizes c) = sz x)
    by (intros x Hx; apply p2_bat_in in Hx; apply Hbig; tauto).
  assert (Sc : forall x, In x con -> lget0 x (c_sizes c) = sz x)
    by (intros x Hx; apply p2_con_in in Hx; apply Hbig; tauto).
  assert (Sa : forall x, In x ak -> lget0 x (c_sizes c) = sz x)
    by (intros x Hx; apply p2_ak_in in Hx; apply Hbig; tauto).
  assert (Sk : forall x, In x bk -> lget0 x (c_sizes c) = sz x)
    by (intros x Hx; apply p2_bk_in in Hx; apply Hbig; tauto).
  unfold parse_bmm_terms.
  rewrite !map_length, !Nat.eqb_refl. cbn [negb].
  rewrite Hc, Cb, Cc, Ca, Ck, Cs.
  destruct con as [|c0 con'] eqn:Econ; [congruence|]. rewrite <- Econ in *.
  assert (Hl : group_shape (c_sizes c) (pl_lgroups bat ak con) = pl_gshape sz (pl_lgroups bat ak con)).
  { apply pl_group_shape_sz. unfold pl_lgroups. intros x Hx.
    destruct bat; cbn [concat] in Hx; rewrite ?app_nil_r in Hx;
      repeat (apply in_app_or in Hx; destruct Hx as [Hx|Hx]); auto. }
  assert (Hr : group_shape (c_sizes c) (pl_rgroups bat con bk) = pl_gshape sz (pl_rgroups bat con bk)).
  { apply pl_group_shape_sz. unfold pl_rgroups. intros x Hx.
    destruct bat; cbn [concat] in Hx; rewrite ?app_nil_r in Hx;
      repeat (apply in_app_or in Hx; destruct Hx as [Hx|Hx]); auto. }
  assert (Ho : map (fun ix => lget0 ix (c_sizes c)) (concat (pl_ogroups bat ak bk))
               = map sz (concat (pl_ogroups bat ak bk))).
  { apply map_ext_in. unfold pl_ogroups. intros x Hx.
    destruct bat; cbn [concat] in Hx; rewrite ?app_nil_r in Hx;
      repeat (apply in_app_or in Hx; destruct Hx as [Hx|Hx]); auto. }
  unfold p2_nsab, pl_perm, pl_ragged. rewrite <- Hl, <- Hr, <- Ho.
  unfold pl_lgroups, pl_rgroups, pl_ogroups.
  clearbody bat con ak bk sing.
  destruct bat; rewrite Hp; reflexivity.
Qed.

Theorem p2_plan sz ta tb out :
  incl out (ta ++ tb) ->
  Forall (fun c => 4 <= c) ta -> Forall (fun c => 4 <= c) tb -> Forall (fun c => 4 <= c) out ->
  let bat := p2_bat sz ta tb out in let con := p2_con sz ta tb out in
  let ak := p2_ak sz ta tb out in let bk := p2_bk sz ta tb out in
  let sing := p2_sing sz out in
  con <> [] ->
  exists p, index_all (sing ++ bat ++ ak ++ bk) out = Some p /\
    parse_bmm (eq2 ta tb out) (map sz ta) (map sz tb) =
    Some (mk_pre ta (bat ++ ak ++ con),
         (mk_pre tb (bat ++ con ++ bk),
         (pl_gshape sz (pl_lgroups bat ak con),
         (pl_gshape sz (pl_rgroups bat con bk),
         (p2_nsab sz sing bat ak bk,
         (pl_perm p, false)))))).
Proof.
  intros Hio Fa Fb Fo bat con ak bk sing Hcon.
  rewrite pl_parse_bmm_split by assumption.
  apply p2_plan_terms; assumption.
Qed.

(* the p of p2_plan is a permutation reordering sing ++ bat ++ ak ++ bk into out *)
Lemma p2_plan_perm_meaning sz ta tb out p :
  NoDup out -> incl out (ta ++ tb) ->
  let prod := p2_sing sz out ++ p2_bat sz ta tb out ++ p2_ak sz ta tb out ++ p2_bk sz ta tb out in
  index_all prod out = Some p ->
  map (fun k => nth k prod 0) p = out /\
  is_perm p (length prod) = true /\
  (pl_perm p = None -> prod = out).
Proof.
  intros Hdo Hio prod Hp.
  pose proof (p2_produced_nodup sz ta tb out Hdo) as Hnd. fold prod in Hnd.
  assert (Hinc : incl prod out).
  { intros x Hx. apply (p2_produced_in sz ta tb out x Hio). exact Hx. }
  destruct (index_all_perm_full _ _ _ Hp Hdo Hnd Hinc) as [Hmap Hperm].
  split; [exact Hmap|]. split; [exact Hperm|].
  unfold pl_perm. intros Hnone.
  destruct (eqb p (seq 0 (length p))) eqn:E; [|discriminate Hnone].
  apply pf_list_eqb_eq in E.
  apply sf_is_perm_elim in Hperm. destruct Hperm as [Hlen _].
  etransitivity; [|exact Hmap]. rewrite E, Hlen.
  symmetry. apply sf_map_nth_seq.
Qed.

(* ------------------------------------------------------------------ *)
(* G4: the pure path                                                   *)

Theorem p2_pure_terms sz ta tb out :
  p2_con sz ta tb out = [] ->
  parse_bmm_terms ta (map sz ta) tb (map sz tb) out =
  Some (parse_pure ta (map sz ta) tb (map sz tb) out).
Proof.
  intros Hcon.
  destruct (p2_classify sz ta tb out) as (c & Hc & _ & Cc & _).
  unfold parse_bmm_terms.
  rewrite !map_length, !Nat.eqb_refl. cbn [negb].
  rewrite Hc, Cc, Hcon. reflexivity.
Qed.

Theorem p2_pure sz ta tb out :
  Forall (fun c => 4 <= c) ta -> Forall (fun c => 4 <= c) tb -> Forall (fun c => 4 <= c) out ->
  p2_con sz ta tb out = [] ->
  parse_bmm (eq2 ta tb out) (map sz ta) (map sz tb) =
  Some (parse_pure ta (map sz ta) tb (map sz tb) out).
Proof.
  intros Fa Fb Fo Hcon.
  rewrite pl_parse_bmm_split by assumption.
  apply p2_pure_terms; assumption.
Qed.

(* ------------------------------------------------------------------ *)
(* packaged forms                                                      *)

(* G2 with the singleton set as used by the parser *)
Theorem p2_classify_full sz ta tb out :
  incl out (ta ++ tb) ->
  exists c, classify ta (map sz ta) tb (map sz tb) out = Some c /\
    c_bat c = p2_bat sz ta tb out /\ c_con c = p2_con sz ta tb out /\
    c_akeep c = p2_ak sz ta tb out /\ c_bkeep c = p2_bk sz ta tb out /\
    (forall x, In x (filter (p2_big sz) (ta ++ tb)) -> lget0 x (c_sizes c) = sz x) /\
    (forall x, In x (c_sing c) <-> (In x ta \/ In x tb) /\ sz x = 1) /\
    filter (fun ix => memb ix (c_sing c)) out = p2_sing sz out.
Proof.
  intros Hio.
  destruct (p2_classify sz ta tb out) as (c & Hc & Cb & Cc & Ca & Ck & Hsizes & Hsing).
  exists c. split; [exact Hc|]. split; [exact Cb|]. split; [exact Cc|]. split; [exact Ca|].
  split; [exact Ck|]. split; [exact Hsizes|]. split; [exact Hsing|].
  apply (p2_sing_filter sz ta tb out (c_sing c) Hio Hsing).
Qed.

(* G5 *)
Theorem p2_members sz ta tb out :
  incl out (ta ++ tb) ->
  let bat := p2_bat sz ta tb out in let con := p2_con sz ta tb out in
  let ak := p2_ak sz ta tb out in let bk := p2_bk sz ta tb out in
  let sing := p2_sing sz out in
  let mid := bat ++ ak ++ bk in let da := bat ++ ak ++ con in let db := bat ++ con ++ bk in
  NoDup da /\ NoDup db /\ NoDup mid /\ NoDup (bat ++ ak ++ con ++ bk) /\
  incl da ta /\ incl db tb /\
  (forall x, In x da <-> In x ta /\ sz x <> 1 /\ (In x tb \/ In x out)) /\
  (forall x, In x db <-> In x tb /\ sz x <> 1 /\ (In x ta \/ In x out)) /\
  (forall x, In x mid <-> In x out /\ sz x <> 1) /\
  (forall x, In x sing <-> In x out /\ sz x = 1).
Proof.
  intros Hio bat con ak bk sing mid da db.
  split; [apply p2_nodup_da|]. split; [apply p2_nodup_db|]. split; [apply p2_nodup_mid|].
  split; [apply p2_nodup_all|]. split; [apply p2_incl_da|]. split; [apply p2_incl_db|].
  split; [intros x; apply p2_da_in|]. split; [intros x; apply p2_db_in|].
  split; [intros x; apply p2_mid_in; exact Hio|]. intros x; apply p2_sing_in.
Qed.

(* ================================================================== *)
(* PART 5 (SingFacts): end-to-end correctness chain *)
(* SingFacts.v -- algebra of size-1 labels in the reference einsum. *)

(* ================================================================== *)
(* 0. small helpers                                                    *)

Definition sg_nz (sz : nat -> nat) (y : nat) : bool := negb (Nat.eqb (sz y) 1).

(* an assignment that is 0 on every label of size 1 *)
Definition sg_zero1 (sz r : nat -> nat) : Prop := forall y, sz y = 1 -> r y = 0.

Lemma sg_nz_in sz x l : In x (filter (sg_nz sz) l) <-> In x l /\ sz x <> 1.
Proof.
  rewrite filter_In. unfold sg_nz. rewrite negb_true_iff, Nat.eqb_neq. reflexivity.
Qed.

Lemma sg_filter_filter {A} (f g : A -> bool) l :
  filter f (filter g l) = filter (fun y => g y && f y) l.
Proof.
  induction l as [|a l IH]; cbn [filter]; [reflexivity|].
  destruct (g a); cbn [filter andb]; [destruct (f a)|]; rewrite IH; reflexivity.
Qed.

Lemma sg_flat_map_ext_in {A B} (f g : A -> list B) l :
  (forall a, In a l -> f a = g a) -> flat_map f l = flat_map g l.
Proof.
  induction l as [|a l IH]; intros H; cbn [flat_map]; [reflexivity|].
  rewrite H by (left; reflexivity). rewrite IH; [reflexivity|].
  intros b Hb. apply H. right. exact Hb.
Qed.

Lemma sg_elook_notin e j : ~ In j (map fst e) -> elook e j = 0.
Proof.
  intros H. rewrite <- (app_nil_r e). rewrite elook_app_r by exact H. reflexivity.
Qed.

Lemma sg_zero1_elook sz out oidx :
  valid_idx (map sz out) oidx -> sg_zero1 sz (elook (combine out oidx)).
Proof.
  intros Hv y Hy. destruct (in_dec Nat.eq_dec y out) as [Hin|Hnin].
  - pose proof (ff_elook_valid sz out oidx Hv y Hin). lia.
  - apply sg_elook_notin. intros Hc. apply sf_in_combine_fst in Hc. exact (Hnin Hc).
Qed.

Lemma sg_tbuild_tget t : wf_tensor t = true -> t = tbuild (tshape t) (tget t).
Proof.
  intros Hw. apply tensor_ext.
  - exact Hw.
  - apply tbuild_wf.
  - reflexivity.
  - intros idx Hv. rewrite tget_tbuild by exact Hv. reflexivity.
Qed.

(* ================================================================== *)
(* 1. a sum over a label of size 1 has one term                        *)

Lemma sg_lsum_one sz x G r : sz x = 1 -> cp_lsum sz [x] G r = G (cp_upd r x 0).
Proof. intros H. cbn [cp_lsum]. rewrite H. cbn [seq map]. apply sf_zsum_single. Qed.

Lemma sg_lsum_drop1 sz G : cp_ext G -> forall ls r, sg_zero1 sz r ->
  cp_lsum sz ls G r = cp_lsum sz (filter (sg_nz sz) ls) G r.
Proof.
  intros HG. induction ls as [|x ls IH]; intros r Hz; cbn [cp_lsum filter]; [reflexivity|].
  unfold sg_nz at 1. destruct (Nat.eqb_spec (sz x) 1) as [E|E]; cbn [negb].
  - rewrite E. cbn [seq map]. rewrite sf_zsum_single.
    rewrite <- IH by exact Hz. apply cp_lsum_ext_r; [exact HG|].
    intros y. unfold cp_upd. destruct (Nat.eqb_spec y x) as [->|Hne]; [|reflexivity].
    symmetry. apply Hz, E.
  - cbn [cp_lsum]. apply cp_zsum_map_ext. intros i _. apply IH.
    intros y Hy. unfold cp_upd. destruct (Nat.eqb_spec y x) as [->|Hne]; [contradiction|].
    apply Hz, Hy.
Qed.

(* two iterated sums agree when they agree after the size-1 labels are forgotten *)
Lemma sg_lsum_norm sz G l l' r r' : cp_ext G -> sg_zero1 sz r -> sg_zero1 sz r' ->
  filter (sg_nz sz) l = filter (sg_nz sz) l' -> (forall y, sz y <> 1 -> r y = r' y) ->
  cp_lsum sz l G r = cp_lsum sz l' G r'.
Proof.
  intros HG Hz Hz' Hf Hr.
  rewrite (sg_lsum_drop1 sz G HG l r Hz), (sg_lsum_drop1 sz G HG l' r' Hz'), Hf.
  apply cp_lsum_ext_r; [exact HG|]. intros y.
  destruct (Nat.eq_dec (sz y) 1) as [E|E]; [rewrite Hz, Hz' by exact E; reflexivity|apply Hr, E].
Qed.

(* ================================================================== *)
(* 2. S1: a size-1 output label is an extra axis of extent 1           *)

Lemma sg_all_idx_ins1 s1 s2 :
  all_idx (s1 ++ 1 :: s2) =
  flat_map (fun i1 => map (fun i2 => i1 ++ 0 :: i2) (all_idx s2)) (all_idx s1).
Proof.
  rewrite cp_all_idx_app. apply flat_map_ext. intros i1.
  cbn [all_idx seq flat_map]. rewrite app_nil_r, map_map. reflexivity.
Qed.

Lemma sg_tdata_ins1 s1 s2 (f1 f2 : list nat -> Z) :
  (forall i1 i2, valid_idx s1 i1 -> valid_idx s2 i2 -> f1 (i1 ++ 0 :: i2) = f2 (i1 ++ i2)) ->
  tdata (tbuild (s1 ++ 1 :: s2) f1) = tdata (tbuild (s1 ++ s2) f2).
Proof.
  intros H. unfold tbuild, tdata. cbn [snd].
  rewrite sg_all_idx_ins1, cp_all_idx_app, !cp_map_flat_map.
  apply sg_flat_map_ext_in. intros i1 Hi1. rewrite !map_map.
  apply map_ext_in. intros i2 Hi2. apply H; apply in_all_idx; assumption.
Qed.

Lemma sg_elook_ins x v y o2 i2 : y <> x -> forall o1 i1, length i1 = length o1 ->
  elook (combine (o1 ++ x :: o2) (i1 ++ v :: i2)) y = elook (combine (o1 ++ o2) (i1 ++ i2)) y.
Proof.
  intros Hne. induction o1 as [|k o1 IH]; intros i1 HL.
  - destruct i1; [|discriminate]. cbn [app combine elook].
    destruct (Nat.eqb_spec x y); [congruence|reflexivity].
  - destruct i1 as [|i i1]; [discriminate|]. cbn [app combine elook].
    destruct (Nat.eqb k y); [reflexivity|]. apply IH. cbn [length] in HL. lia.
Qed.

Lemma sg_inner_nz_ins sz terms o1 o2 x : sz x = 1 ->
  filter (sg_nz sz) (sf_inner terms (o1 ++ x :: o2)) = filter (sg_nz sz) (sf_inner terms (o1 ++ o2)).
Proof.
  intros Hx. unfold sf_inner. rewrite !sg_filter_filter. apply filter_ext. intros y.
  destruct (sg_nz sz y) eqn:E; [|rewrite !andb_false_r; reflexivity].
  rewrite !andb_true_r. f_equal.
  assert (Hne : y <> x).
  { intros ->. unfold sg_nz in E. rewrite Hx in E. discriminate. }
  apply Bool.eq_iff_eq_true. rewrite !memb_In, !in_app_iff. cbn [In].
  split; [intros [H|[H|H]]|intros [H|H]]; try tauto. congruence.
Qed.

Theorem sg_ref_ins1 sz terms ops o1 o2 x :
  cp_sized sz terms ops -> sz x = 1 -> In x (concat terms) -> incl (o1 ++ o2) (concat terms) ->
  einsum_ref terms (o1 ++ x :: o2) ops =
  (map sz o1 ++ 1 :: map sz o2, tdata (einsum_ref terms (o1 ++ o2) ops)).
Proof.
  intros Hs Hx Hin Hi.
  assert (Hi' : incl (o1 ++ x :: o2) (concat terms)).
  { intros y Hy. apply in_app_or in Hy. destruct Hy as [Hy|[<-|Hy]].
    - apply Hi, in_or_app. left. exact Hy.
    - exact Hin.
    - apply Hi, in_or_app. right. exact Hy. }
  set (T1 := einsum_ref terms (o1 ++ x :: o2) ops).
  set (T2 := einsum_ref terms (o1 ++ o2) ops).
  assert (Sh1 : tshape T1 = map sz o1 ++ 1 :: map sz o2).
  { unfold T1. rewrite (cp_ref_shape sz) by assumption. rewrite map_app. cbn [map].
    rewrite Hx. reflexivity. }
  assert (Sh2 : tshape T2 = map sz o1 ++ map sz o2).
  { unfold T2. rewrite (cp_ref_shape sz) by assumption. apply map_app. }
  rewrite (surjective_pairing T1). change (fst T1) with (tshape T1). change (snd T1) with (tdata T1).
  f_equal; [exact Sh1|].
  pose proof (sg_tbuild_tget T1 (einsum_ref_wf _ _ _)) as E1.
  pose proof (sg_tbuild_tget T2 (einsum_ref_wf _ _ _)) as E2.
  rewrite Sh1 in E1. rewrite Sh2 in E2.
  etransitivity; [exact (f_equal tdata E1)|].
  etransitivity; [|symmetry; exact (f_equal tdata E2)].
  apply sg_tdata_ins1. intros i1 i2 Hv1 Hv2.
  assert (HL : length i1 = length o1).
  { rewrite (sf_valid_idx_length _ _ Hv1), map_length. reflexivity. }
  assert (V1 : valid_idx (map sz (o1 ++ x :: o2)) (i1 ++ 0 :: i2)).
  { rewrite map_app. cbn [map]. rewrite Hx. unfold valid_idx in *.
    apply Forall2_app; [exact Hv1|]. constructor; [lia|exact Hv2]. }
  assert (V2 : valid_idx (map sz (o1 ++ o2)) (i1 ++ i2)).
  { rewrite map_app. unfold valid_idx in *. apply Forall2_app; assumption. }
  unfold T1, T2.
  rewrite (cp_tget_ref sz terms ops _ _ Hs Hi' V1), (cp_tget_ref sz terms ops _ _ Hs Hi V2).
  apply sg_lsum_norm.
  - apply cp_Gn_ext.
  - apply sg_zero1_elook, V1.
  - apply sg_zero1_elook, V2.
  - apply sg_inner_nz_ins, Hx.
  - intros y Hy. apply sg_elook_ins; [congruence|exact HL].
Qed.

(* several size-1 labels at the front *)
Lemma sg_map_sz_ones (sz : nat -> nat) (sing : list nat) : (forall x, In x sing -> sz x = 1) ->
  map sz sing = repeat 1 (length sing).
Proof.
  induction sing as [|x sing IH]; intros H; cbn [map length repeat]; [reflexivity|].
  rewrite H by (left; reflexivity). f_equal. apply IH. intros y Hy. apply H. right. exact Hy.
Qed.

Theorem sg_ref_sing_front sz terms ops sing mid :
  cp_sized sz terms ops -> (forall x, In x sing -> sz x = 1) ->
  incl sing (concat terms) -> incl mid (concat terms) ->
  einsum_ref terms (sing ++ mid) ops =
  (repeat 1 (length sing) ++ map sz mid, tdata (einsum_ref terms mid ops)).
Proof.
  intros Hs. induction sing as [|x sing IH]; intros H1 His Him.
  - cbn [app length repeat]. rewrite <- (cp_ref_shape sz terms ops mid Hs Him).
    apply surjective_pairing.
  - assert (Hx : sz x = 1) by (apply H1; left; reflexivity).
    assert (Hi : incl (sing ++ mid) (concat terms)).
    { intros y Hy. apply in_app_or in Hy. destruct Hy as [Hy|Hy]; [apply His; right|apply Him]; exact Hy. }
    change ((x :: sing) ++ mid) with ([] ++ x :: (sing ++ mid)).
    rewrite (sg_ref_ins1 sz terms ops [] (sing ++ mid) x Hs Hx (His x (or_introl eq_refl)) Hi).
    cbn [app map length repeat]. rewrite IH.
    + unfold tdata at 1. cbn [snd]. f_equal. f_equal. rewrite map_app. f_equal.
      apply sg_map_sz_ones. intros y Hy. apply H1. right. exact Hy.
    + intros y Hy. apply H1. right. exact Hy.
    + intros y Hy. apply His. right. exact Hy.
    + exact Him.
Qed.

Corollary sg_reshape_sing_front sz terms ops sing mid :
  cp_sized sz terms ops -> (forall x, In x sing -> sz x = 1) ->
  incl sing (concat terms) -> incl mid (concat terms) ->
  reshape (einsum_ref terms mid ops) (repeat 1 (length sing) ++ map sz mid) =
  Some (einsum_ref terms (sing ++ mid) ops).
Proof.
  intros Hs H1 His Him. rewrite (sg_ref_sing_front sz terms ops sing mid Hs H1 His Him).
  unfold reshape.
  assert (E : nprod (repeat 1 (length sing) ++ map sz mid) = length (tdata (einsum_ref terms mid ops))).
  { rewrite nprod_app, nprod_repeat_one, Nat.mul_1_l.
    rewrite <- (cp_ref_shape sz terms ops mid Hs Him).
    pose proof (einsum_ref_wf terms mid ops) as Hw. unfold wf_tensor in Hw.
    apply Nat.eqb_eq in Hw. symmetry. exact Hw. }
  rewrite E, Nat.eqb_refl. reflexivity.
Qed.

(* S3: all size-1 labels of the output can be dropped without changing the data *)
Lemma sg_ref_drop_ones_gen sz terms ops : cp_sized sz terms ops -> forall d o1,
  incl (o1 ++ d) (concat terms) ->
  tdata (einsum_ref terms (o1 ++ d) ops) =
  tdata (einsum_ref terms (o1 ++ filter (sg_nz sz) d) ops).
Proof.
  intros Hs. induction d as [|x d IH]; intros o1 Hi; [reflexivity|].
  cbn [filter]. unfold sg_nz at 1. destruct (Nat.eqb_spec (sz x) 1) as [E|E]; cbn [negb].
  - assert (Hi2 : incl (o1 ++ d) (concat terms)).
    { intros y Hy. apply Hi. apply in_app_or in Hy. apply in_or_app. cbn [In]. tauto. }
    rewrite (sg_ref_ins1 sz terms ops o1 d x Hs E); [|apply Hi, in_or_app; right; left; reflexivity|exact Hi2].
    unfold tdata at 1. cbn [snd]. apply IH, Hi2.
  - change (o1 ++ x :: d) with (o1 ++ [x] ++ d).
    change (o1 ++ x :: filter (sg_nz sz) d) with (o1 ++ [x] ++ filter (sg_nz sz) d).
    rewrite !app_assoc. apply IH. rewrite <- app_assoc. exact Hi.
Qed.

Theorem sg_ref_drop_ones sz terms ops d :
  cp_sized sz terms ops -> incl d (concat terms) ->
  tdata (einsum_ref terms d ops) = tdata (einsum_ref terms (filter (sg_nz sz) d) ops).
Proof. intros Hs Hi. apply (sg_ref_drop_ones_gen sz terms ops Hs d []). exact Hi. Qed.

Corollary sg_ref_drop_ones_single sz t x d :
  tshape x = map sz t -> incl d t ->
  tdata (einsum_ref [t] d [x]) =
  tdata (einsum_ref [t] (filter (fun y => negb (Nat.eqb (sz y) 1)) d) [x]).
Proof.
  intros Hx Hi. apply (sg_ref_drop_ones sz [t] [x] d).
  - apply cp_sized1, Hx.
  - cbn [concat]. rewrite app_nil_r. exact Hi.
Qed.

(* ================================================================== *)
(* 3. S2: pre-steps that sum private labels AND may drop shared size-1
   labels commute into the two-operand reference                       *)

Theorem sg_pre_sum_compose_gen sz ta tb o da db a b :
  incl o (ta ++ tb) ->
  tshape a = map sz ta -> tshape b = map sz tb ->
  (forall x, In x da -> In x ta) ->
  (forall x, In x ta -> In x o -> In x da) ->
  (forall x, In x ta -> In x tb -> sz x <> 1 -> In x da) ->
  (forall x, In x da -> In x o \/ In x tb) ->
  (forall x, In x db -> In x tb) ->
  (forall x, In x tb -> In x o -> In x db) ->
  (forall x, In x tb -> In x ta -> sz x <> 1 -> In x db) ->
  (forall x, In x db -> In x o \/ In x ta) ->
  einsum_ref [da; db] o [einsum_ref [ta] da [a]; einsum_ref [tb] db [b]] =
  einsum_ref [ta; tb] o [a; b].
Proof.
  intros Hio Ha Hb Hda1 Hda2 Hda3 Hda4 Hdb1 Hdb2 Hdb3 Hdb4.
  set (A' := einsum_ref [ta] da [a]). set (B' := einsum_ref [tb] db [b]).
  assert (HsA : tshape A' = map sz da).
  { apply cp_ref_shape; [apply cp_sized1, Ha|]. cbn [concat]. rewrite app_nil_r. exact Hda1. }
  assert (HsB : tshape B' = map sz db).
  { apply cp_ref_shape; [apply cp_sized1, Hb|]. cbn [concat]. rewrite app_nil_r. exact Hdb1. }
  assert (HS2 : cp_sized sz [ta; tb] [a; b]) by (apply cp_sized2; assumption).
  assert (HS2' : cp_sized sz [da; db] [A'; B']) by (apply cp_sized2; assumption).
  assert (Hio2 : incl o (concat [ta; tb])).
  { cbn [concat]. rewrite app_nil_r. exact Hio. }
  assert (Hio2' : incl o (concat [da; db])).
  { cbn [concat]. rewrite app_nil_r. intros x Hx. specialize (Hio x Hx).
    apply in_app_or in Hio. apply in_or_app.
    destruct Hio as [H|H]; [left; apply Hda2|right; apply Hdb2]; assumption. }
  set (I := sf_inner [ta; tb] o). set (I' := sf_inner [da; db] o).
  set (Pa := sf_inner [ta] da). set (Pb := sf_inner [tb] db).
  assert (HI : forall x, In x I <-> (In x ta \/ In x tb) /\ ~ In x o).
  { intros x. unfold I. rewrite cp_inner_in. cbn [concat]. rewrite app_nil_r, in_app_iff. reflexivity. }
  assert (HI' : forall x, In x I' <-> (In x da \/ In x db) /\ ~ In x o).
  { intros x. unfold I'. rewrite cp_inner_in. cbn [concat]. rewrite app_nil_r, in_app_iff. reflexivity. }
  assert (HPa : forall x, In x Pa <-> In x ta /\ ~ In x da).
  { intros x. unfold Pa. rewrite cp_inner_in. cbn [concat]. rewrite app_nil_r. reflexivity. }
  assert (HPb : forall x, In x Pb <-> In x tb /\ ~ In x db).
  { intros x. unfold Pb. rewrite cp_inner_in. cbn [concat]. rewrite app_nil_r. reflexivity. }
  assert (Hdec : forall (x : nat) (l : list nat), In x l \/ ~ In x l).
  { intros x l. destruct (in_dec Nat.eq_dec x l); tauto. }
  set (nz := sg_nz sz).
  assert (Hall : forall x,
            (In x da -> In x ta) /\ (In x ta -> In x o -> In x da) /\
            (In x ta -> In x tb -> sz x <> 1 -> In x da) /\ (In x da -> In x o \/ In x tb) /\
            (In x db -> In x tb) /\ (In x tb -> In x o -> In x db) /\
            (In x tb -> In x ta -> sz x <> 1 -> In x db) /\ (In x db -> In x o \/ In x ta)).
  { intros x. repeat split; intros; eauto. }
  apply tensor_ext.
  - apply einsum_ref_wf.
  - apply einsum_ref_wf.
  - rewrite (cp_ref_shape sz _ _ _ HS2' Hio2'), (cp_ref_shape sz _ _ _ HS2 Hio2). reflexivity.
  - intros oidx Hv. rewrite (cp_ref_shape sz _ _ _ HS2' Hio2') in Hv.
    rewrite (cp_tget_ref sz _ _ _ _ HS2' Hio2' Hv), (cp_tget_ref sz _ _ _ _ HS2 Hio2 Hv).
    fold I I'.
    set (r0 := elook (combine o oidx)).
    assert (Hz0 : sg_zero1 sz r0) by (apply sg_zero1_elook, Hv).
    rewrite (sg_lsum_drop1 sz _ (cp_Gn_ext _ _) I' r0 Hz0).
    rewrite (sg_lsum_drop1 sz _ (cp_Gn_ext _ _) I r0 Hz0).
    fold nz.
    assert (HP : Permutation (filter nz I) (filter nz I' ++ filter nz Pa ++ filter nz Pb)).
    { apply NoDup_Permutation.
      - apply NoDup_filter, cp_inner_nodup.
      - apply NoDup_app_intro; [apply NoDup_filter, cp_inner_nodup| |].
        + apply NoDup_app_intro; [apply NoDup_filter, cp_inner_nodup|apply NoDup_filter, cp_inner_nodup|].
          intros x Hx Hx'. unfold nz in *. rewrite sg_nz_in, HPa in Hx. rewrite sg_nz_in, HPb in Hx'.
          specialize (Hall x). tauto.
        + intros x Hx Hx'. unfold nz in *. rewrite sg_nz_in, HI' in Hx. apply in_app_or in Hx'.
          rewrite !sg_nz_in, HPa, HPb in Hx'. specialize (Hall x). tauto.
      - intros x. unfold nz. rewrite !in_app_iff, !sg_nz_in, HI, HI', HPa, HPb.
        specialize (Hall x).
        destruct (Hdec x ta), (Hdec x tb), (Hdec x o), (Hdec x da), (Hdec x db); tauto. }
    rewrite (cp_lsum_perm sz _ _ _ (cp_Gn_ext _ _) HP (NoDup_filter _ (cp_inner_nodup _ _))).
    rewrite cp_lsum_app.
    apply cp_lsum_ext_bd. intros r Hbd Hout.
    assert (Hz : sg_zero1 sz r).
    { intros y Hy. rewrite Hout; [apply Hz0, Hy|].
      unfold nz. rewrite sg_nz_in. tauto. }
    assert (Hr : forall x, In x da \/ In x db -> r x < sz x).
    { intros x Hx. destruct (Hdec x o) as [Ho|Ho].
      - rewrite Hout by (unfold nz; rewrite sg_nz_in, HI'; tauto).
        apply (ff_elook_valid sz o oidx Hv x Ho).
      - destruct (Nat.eq_dec (sz x) 1) as [E|E].
        + rewrite (Hz x E). lia.
        + apply Hbd. unfold nz. rewrite sg_nz_in, HI'. tauto. }
    rewrite cp_Gn2.
    unfold A', B'.
    rewrite (cp_tget_pre sz ta a da r Ha Hda1), (cp_tget_pre sz tb b db r Hb Hdb1).
    + fold Pa Pb. symmetry.
      rewrite (cp_lsum_ext_G sz (filter nz Pa ++ filter nz Pb) _
                 (fun r' => (cp_Gn [ta] [a] r' * cp_Gn [tb] [b] r')%Z))
        by (intros r'; rewrite cp_Gn2, !cp_Gn1; reflexivity).
      rewrite (sg_lsum_drop1 sz _ (cp_Gn_ext _ _) Pa r Hz).
      rewrite (sg_lsum_drop1 sz _ (cp_Gn_ext _ _) Pb r Hz).
      fold nz.
      apply (cp_lsum_prod sz (concat [ta]) (concat [tb])); try apply cp_Gn_dep.
      * intros y Hy Hc. cbn [concat] in Hy. rewrite app_nil_r in Hy.
        unfold nz in Hc. rewrite sg_nz_in, HPb in Hc. specialize (Hall y). tauto.
      * intros y Hy Hc. cbn [concat] in Hy. rewrite app_nil_r in Hy.
        unfold nz in Hc. rewrite sg_nz_in, HPa in Hc. specialize (Hall y). tauto.
    + intros x Hx Hn. fold Pb in Hn. rewrite HPb in Hn. destruct (Hdec x db); tauto.
    + intros x Hx. apply Hr. tauto.
    + intros x Hx Hn. fold Pa in Hn. rewrite HPa in Hn. destruct (Hdec x da); tauto.
    + intros x Hx. apply Hr. tauto.
Qed.

(* S2 as first stated: the pre-steps drop the private labels and ALL size-1 labels *)
Corollary sg_pre_sum_compose_mid sz ta tb mid da db a b :
  incl mid (ta ++ tb) -> (forall x, In x mid -> sz x <> 1) ->
  tshape a = map sz ta -> tshape b = map sz tb ->
  (forall x, In x da <-> In x ta /\ sz x <> 1 /\ (In x tb \/ In x mid)) ->
  (forall x, In x db <-> In x tb /\ sz x <> 1 /\ (In x ta \/ In x mid)) ->
  einsum_ref [da; db] mid [einsum_ref [ta] da [a]; einsum_ref [tb] db [b]] =
  einsum_ref [ta; tb] mid [a; b].
Proof.
  intros Hio Hm Ha Hb Hda Hdb.
  apply (sg_pre_sum_compose_gen sz); try assumption.
  - intros x Hx. apply Hda in Hx. tauto.
  - intros x Hx Ho. apply Hda. pose proof (Hm x Ho). tauto.
  - intros x Hx Hx' Hs. apply Hda. tauto.
  - intros x Hx. apply Hda in Hx. tauto.
  - intros x Hx. apply Hdb in Hx. tauto.
  - intros x Hx Ho. apply Hdb. pose proof (Hm x Ho). tauto.
  - intros x Hx Hx' Hs. apply Hdb. tauto.
  - intros x Hx. apply Hdb in Hx. tauto.
Qed.

(* the pure-multiplication path: every operand keeps exactly its output labels;
   shared labels that are not in the output all have size 1 *)
Corollary sg_pre_sum_compose_pure sz ta tb out da db a b :
  incl out (ta ++ tb) ->
  tshape a = map sz ta -> tshape b = map sz tb ->
  (forall x, In x da <-> In x ta /\ In x out) ->
  (forall x, In x db <-> In x tb /\ In x out) ->
  (forall x, In x ta -> In x tb -> ~ In x out -> sz x = 1) ->
  einsum_ref [da; db] out [einsum_ref [ta] da [a]; einsum_ref [tb] db [b]] =
  einsum_ref [ta; tb] out [a; b].
Proof.
  intros Hio Ha Hb Hda Hdb H1.
  apply (sg_pre_sum_compose_gen sz); try assumption.
  - intros x Hx. apply Hda in Hx. tauto.
  - intros x Hx Ho. apply Hda. tauto.
  - intros x Hx Hx' Hs. apply Hda. split; [exact Hx|].
    destruct (in_dec Nat.eq_dec x out) as [Hin|Hnin]; [exact Hin|].
    exfalso. apply Hs, H1; assumption.
  - intros x Hx. apply Hda in Hx. tauto.
  - intros x Hx. apply Hdb in Hx. tauto.
  - intros x Hx Ho. apply Hdb. tauto.
  - intros x Hx Hx' Hs. apply Hdb. split; [exact Hx|].
    destruct (in_dec Nat.eq_dec x out) as [Hin|Hnin]; [exact Hin|].
    exfalso. apply Hs, H1; assumption.
  - intros x Hx. apply Hdb in Hx. tauto.
Qed.

(* S1 / S1' with exactly the hypotheses of the request (the extra ones are not used) *)
Corollary sg_ref_ins1' sz terms ops o1 o2 x :
  cp_sized sz terms ops -> sz x = 1 -> In x (concat terms) -> ~ In x (o1 ++ o2) ->
  incl (o1 ++ o2) (concat terms) ->
  einsum_ref terms (o1 ++ x :: o2) ops =
  (map sz o1 ++ 1 :: map sz o2, tdata (einsum_ref terms (o1 ++ o2) ops)).
Proof. intros Hs Hx Hin _ Hi. apply sg_ref_ins1; assumption. Qed.

Corollary sg_ref_sing_front' sz terms ops sing mid :
  cp_sized sz terms ops -> NoDup sing -> (forall x, In x sing -> sz x = 1) ->
  incl sing (concat terms) -> (forall x, In x sing -> ~ In x mid) -> incl mid (concat terms) ->
  einsum_ref terms (sing ++ mid) ops =
  (repeat 1 (length sing) ++ map sz mid, tdata (einsum_ref terms mid ops)).
Proof. intros Hs _ H1 His _ Him. apply sg_ref_sing_front; assumption. Qed.

(* ================================================================== *)
(* PART 5 (Asm2Facts): end-to-end correctness chain *)

(* ------------------------------------------------------------------ *)
(* B1: the one-operand pre-step for an ARBITRARY term                  *)

Theorem a2_exec_pre sz t d x :
  tshape x = map sz t -> wf_tensor x = true ->
  Forall (fun c => 4 <= c) t -> NoDup d -> incl d t ->
  exec_pre (mk_pre t d) x = Some (einsum_ref [t] d [x]).
Proof.
  intros Hs Hwf Ft Hdd Hi.
  assert (Hlen : length t = length (tshape x)) by (rewrite Hs, map_length; reflexivity).
  unfold mk_pre.
  match goal with |- exec_pre (if ?b then _ else _) _ = _ => destruct b eqn:E end.
  - apply pf_list_eqb_eq in E. subst d. cbn [exec_pre].
    rewrite ff_einsum_ref_id by assumption. reflexivity.
  - destruct (Nat.eqb (length t) (length d) && set_eqb t d) eqn:E2.
    + apply andb_true_iff in E2. destruct E2 as [Hl Hse].
      apply Nat.eqb_eq in Hl.
      assert (Hdt : NoDup t).
      { apply (@NoDup_incl_NoDup nat d t); [exact Hdd|lia|exact Hi]. }
      assert (Hmk : mk_pre t d = Some (true, map (fun ix => match find_pos ix t with Some p => p | None => 0 end) d)).
      { unfold mk_pre. rewrite E, Hl, Nat.eqb_refl, Hse. reflexivity. }
      rewrite <- Hmk. apply pl_exec_pre; assumption.
    + cbn [exec_pre]. change (t ++ [ARROW] ++ d) with (eq1 t d).
      apply (dg_einsum_single sz); assumption.
Qed.

Corollary a2_exec_pre_sz sz t d x :
  tshape x = map sz t -> wf_tensor x = true ->
  Forall (fun c => 4 <= c) t -> NoDup d -> incl d t ->
  exec_pre (mk_pre t d) x = Some (einsum_ref [t] d [x]) /\
  tshape (einsum_ref [t] d [x]) = map sz d /\ wf_tensor (einsum_ref [t] d [x]) = true.
Proof.
  intros Hs Hwf Ft Hdd Hi. split; [apply (a2_exec_pre sz); assumption|].
  apply pl_einsum_ref_single_shape; assumption.
Qed.

(* ------------------------------------------------------------------ *)
(* B2: the output reshape target with / without singleton labels       *)

Lemma a2_nsab_nil sz bat ak bk :
  p2_nsab sz [] bat ak bk = pl_oshape sz (pl_ogroups bat ak bk).
Proof.
  unfold p2_nsab, pl_oshape. cbn [length Nat.eqb negb repeat app].
  rewrite orb_false_r. reflexivity.
Qed.

Lemma a2_nsab_cons sz x sing bat ak bk :
  p2_nsab sz (x :: sing) bat ak bk
  = Some (repeat 1 (length (x :: sing)) ++ map sz (bat ++ ak ++ bk)).
Proof.
  unfold p2_nsab. rewrite as_concat_ogroups. cbn [length Nat.eqb negb].
  rewrite orb_true_r. reflexivity.
Qed.

Lemma a2_nprod_ones k s : nprod (repeat 1 k ++ s) = nprod s.
Proof.
  induction k as [|k IH]; [reflexivity|].
  cbn [repeat app]. rewrite nprod_cons, IH. lia.
Qed.

(* ------------------------------------------------------------------ *)
(* B3: the core with an output reshape that prepends unit dimensions   *)

Theorem a2_exec_bmm_ones (sz : nat -> nat) (bat ak con bk : list nat) (a b : tensor)
        (nsa nsb : option (list nat)) (k : nat) :
  NoDup (bat ++ ak ++ con ++ bk) ->
  wf_tensor a = true -> wf_tensor b = true ->
  tshape a = map sz (bat ++ ak ++ con) -> tshape b = map sz (bat ++ con ++ bk) ->
  (nsa = None -> map sz (bat ++ ak ++ con) = cf_G sz bat ak con) ->
  (forall s, nsa = Some s -> s = cf_G sz bat ak con) ->
  (nsb = None -> map sz (bat ++ con ++ bk) = cf_G sz bat con bk) ->
  (forall s, nsb = Some s -> s = cf_G sz bat con bk) ->
  exec_bmm (None, (None, (nsa, (nsb, (Some (repeat 1 k ++ map sz (bat ++ ak ++ bk)), (None, false)))))) a b
  = Some (repeat 1 k ++ map sz (bat ++ ak ++ bk),
          tdata (einsum_ref [bat ++ ak ++ con; bat ++ con ++ bk] (bat ++ ak ++ bk) [a; b])).
Proof.
  intros ND Hwa Hwb Hsa Hsb Ha0 Ha1 Hb0 Hb1.
  unfold exec_bmm. cbn [exec_pre obind].
  rewrite (cf_omaybe_reshape nsa (cf_G sz bat ak con) a Hwa)
    by (try exact Ha1; intros E; rewrite Hsa; symmetry; exact (Ha0 E)).
  assert (Hcore : exists a3 b3 c3 c,
            reshape a (cf_G sz bat ak con) = Some a3 /\
            reshape b (cf_G sz bat con bk) = Some b3 /\
            matmul a3 b3 = Some c3 /\
            reshape c3 (map sz (bat ++ ak ++ bk)) = Some c /\
            c = einsum_ref [bat ++ ak ++ con; bat ++ con ++ bk] (bat ++ ak ++ bk) [a; b]).
  { destruct bat as [|x bat'].
    - cbn [app] in *. unfold cf_G.
      exact (cf_mm2 sz ak con bk a b ND Hwa Hwb Hsa Hsb).
    - unfold cf_G.
      exact (cf_bmm3 sz (x :: bat') ak con bk ND a b Hwa Hwb Hsa Hsb). }
  destruct Hcore as (a3 & b3 & c3 & c & Ra & Rb & Hmm & Hre & Hc).
  rewrite Ra. cbn [obind].
  rewrite (cf_omaybe_reshape nsb (cf_G sz bat con bk) b Hwb)
    by (try exact Hb1; intros E; rewrite Hsb; symmetry; exact (Hb0 E)).
  rewrite Rb. cbn [obind]. rewrite Hmm. cbn [obind omaybe].
  rewrite <- Hc. clear Hc.
  unfold reshape in Hre |- *. rewrite a2_nprod_ones.
  destruct (Nat.eqb (nprod (map sz (bat ++ ak ++ bk))) (length (tdata c3))); [|discriminate Hre].
  inversion Hre. reflexivity.
Qed.

(* ------------------------------------------------------------------ *)
(* B4: the end-to-end theorem for arbitrary terms and consistent sizes *)

Theorem a2_einsum2_bmm sz ta tb out a b :
  tshape a = map sz ta -> tshape b = map sz tb -> wf_tensor a = true -> wf_tensor b = true ->
  NoDup out -> incl out (ta ++ tb) ->
  Forall (fun c => 4 <= c) ta -> Forall (fun c => 4 <= c) tb -> Forall (fun c => 4 <= c) out ->
  p2_con sz ta tb out <> [] ->
  einsum2 (eq2 ta tb out) a b = Some (einsum_ref [ta; tb] out [a; b]).
Proof.
  intros Hsa Hsb Hwa Hwb Hdo Hio Fa Fb Fo Hcon.
  destruct (p2_plan sz ta tb out Hio Fa Fb Fo Hcon) as (p & Hp & Hplan).
  destruct (p2_plan_perm_meaning sz ta tb out p Hdo Hio Hp) as (Hmap & Hperm & Hnone).
  pose proof (p2_produced_nodup sz ta tb out Hdo) as Hnd.
  destruct (p2_members sz ta tb out Hio)
    as (Nda & Ndb & Nmid & Nall & Ida & Idb & Mda & Mdb & Mmid & Msing).
  set (bat := p2_bat sz ta tb out) in *. set (con := p2_con sz ta tb out) in *.
  set (ak := p2_ak sz ta tb out) in *. set (bk := p2_bk sz ta tb out) in *.
  set (sing := p2_sing sz out) in *.
  destruct (a2_exec_pre_sz sz ta (bat ++ ak ++ con) a Hsa Hwa Fa Nda Ida) as (Ea & Sa & Wa).
  destruct (a2_exec_pre_sz sz tb (bat ++ con ++ bk) b Hsb Hwb Fb Ndb Idb) as (Eb & Sb & Wb).
  set (a' := einsum_ref [ta] (bat ++ ak ++ con) [a]) in *.
  set (b' := einsum_ref [tb] (bat ++ con ++ bk) [b]) in *.
  assert (Imid : incl (bat ++ ak ++ bk) (ta ++ tb)).
  { intros x Hx. apply Hio. apply Mmid in Hx. tauto. }
  assert (Hcomp : einsum_ref [bat ++ ak ++ con; bat ++ con ++ bk] (bat ++ ak ++ bk) [a'; b']
                  = einsum_ref [ta; tb] (bat ++ ak ++ bk) [a; b]).
  { apply (sg_pre_sum_compose_mid sz); try assumption.
    - intros x Hx. apply Mmid in Hx. tauto.
    - intros x. rewrite Mda. specialize (Mmid x). tauto.
    - intros x. rewrite Mdb. specialize (Mmid x). tauto. }
  assert (Hcore :
    exec_bmm (None, (None, (pl_gshape sz (pl_lgroups bat ak con),
                           (pl_gshape sz (pl_rgroups bat con bk),
                           (p2_nsab sz sing bat ak bk, (None, false)))))) a' b'
    = Some (einsum_ref [ta; tb] (sing ++ bat ++ ak ++ bk) [a; b])).
  { destruct sing as [|s0 sing'] eqn:Esing.
    - rewrite a2_nsab_nil. cbn [app].
      rewrite (cf_exec_bmm sz bat ak con bk a' b'); try assumption.
      + rewrite Hcomp. reflexivity.
      + apply (as_gshape sz bat ak con).
      + apply (as_gshape sz bat ak con).
      + apply (as_gshape sz bat con bk).
      + apply (as_gshape sz bat con bk).
      + apply (as_oshape sz bat ak bk).
      + apply (as_oshape sz bat ak bk).
    - rewrite a2_nsab_cons.
      rewrite (a2_exec_bmm_ones sz bat ak con bk a' b'); try assumption.
      + rewrite Hcomp. apply f_equal. symmetry.
        apply (sg_ref_sing_front sz [ta; tb] [a; b] (s0 :: sing') (bat ++ ak ++ bk)).
        * apply cp_sized2; assumption.
        * intros x Hx. apply Msing in Hx. tauto.
        * cbn [concat]. rewrite app_nil_r. intros x Hx. apply Hio. apply Msing in Hx. tauto.
        * cbn [concat]. rewrite app_nil_r. exact Imid.
      + apply (as_gshape sz bat ak con).
      + apply (as_gshape sz bat ak con).
      + apply (as_gshape sz bat con bk).
      + apply (as_gshape sz bat con bk). }
  unfold einsum2. rewrite Hsa, Hsb, Hplan. cbn [obind].
  rewrite (as_exec_bmm_reduce _ _ _ _ _ _ a b a' b' Ea Eb).
  rewrite Hcore. cbn [obind].
  destruct (pl_perm p) as [q|] eqn:Epm.
  - assert (q = p).
    { unfold pl_perm in Epm. destruct (eqb p (seq 0 (length p))); [discriminate|].
      inversion Epm. reflexivity. }
    subst q. cbn [omaybe].
    rewrite cp_transpose_of_ref by assumption.
    rewrite Hmap. reflexivity.
  - cbn [omaybe]. rewrite (Hnone eq_refl). reflexivity.
Qed.

Corollary a2_einsum2_bmm_consistent ta tb out a b :
  (exists sz : nat -> nat, tshape a = map sz ta /\ tshape b = map sz tb /\ p2_con sz ta tb out <> []) ->
  wf_tensor a = true -> wf_tensor b = true ->
  NoDup out -> incl out (ta ++ tb) ->
  Forall (fun c => 4 <= c) ta -> Forall (fun c => 4 <= c) tb -> Forall (fun c => 4 <= c) out ->
  einsum2 (eq2 ta tb out) a b = Some (einsum_ref [ta; tb] out [a; b]).
Proof.
  intros (sz & Hsa & Hsb & Hcon) Hwa Hwb Hdo Hio Fa Fb Fo.
  apply (a2_einsum2_bmm sz); assumption.
Qed.

(* ------------------------------------------------------------------ *)
(* B5: non-vacuity: repeated labels (4 twice in a, 5 twice in b),      *)
(* size-1 labels 6 and 8 kept in the output, permuted output           *)

Definition a2_ex_sz (x : nat) : nat :=
  match x with 4 => 2 | 5 => 3 | 6 => 1 | 7 => 2 | 8 => 1 | 9 => 2 | _ => 1 end.
Definition a2_ex_ta : str := [4; 6; 5; 4; 7].
Definition a2_ex_tb : str := [8; 5; 9; 5; 7; 6].
Definition a2_ex_out : str := [9; 6; 7; 8; 4].
Definition a2_ex_a : tensor :=
  ([2; 1; 3; 2; 2], map (fun k => (Z.of_nat k * 3 - 20)%Z) (seq 1 24)).
Definition a2_ex_b : tensor :=
  ([1; 3; 2; 3; 2; 1], map (fun k => (Z.of_nat k * Z.of_nat k - 11 * Z.of_nat k + 5)%Z) (seq 0 36)).

Example a2_ex_hyps :
  tshape a2_ex_a = map a2_ex_sz a2_ex_ta /\ tshape a2_ex_b = map a2_ex_sz a2_ex_tb /\
  wf_tensor a2_ex_a = true /\ wf_tensor a2_ex_b = true /\
  NoDup a2_ex_out /\ incl a2_ex_out (a2_ex_ta ++ a2_ex_tb) /\
  Forall (fun c => 4 <= c) a2_ex_ta /\ Forall (fun c => 4 <= c) a2_ex_tb /\
  Forall (fun c => 4 <= c) a2_ex_out /\
  p2_con a2_ex_sz a2_ex_ta a2_ex_tb a2_ex_out = [5] /\
  p2_bat a2_ex_sz a2_ex_ta a2_ex_tb a2_ex_out = [7] /\
  p2_ak a2_ex_sz a2_ex_ta a2_ex_tb a2_ex_out = [4] /\
  p2_bk a2_ex_sz a2_ex_ta a2_ex_tb a2_ex_out = [9] /\
  p2_sing a2_ex_sz a2_ex_out = [6; 8].
Proof.
  unfold a2_ex_ta, a2_ex_tb, a2_ex_out.
  repeat split; try reflexivity.
  - repeat constructor; cbn; intuition lia.
  - intros x Hx. cbn in Hx |- *. intuition lia.
  - repeat constructor; lia.
  - repeat constructor; lia.
  - repeat constructor; lia.
Qed.

Example a2_ex_instance :
  einsum2 (eq2 a2_ex_ta a2_ex_tb a2_ex_out) a2_ex_a a2_ex_b
  = Some (einsum_ref [a2_ex_ta; a2_ex_tb] a2_ex_out [a2_ex_a; a2_ex_b]).
Proof.
  destruct a2_ex_hyps as (H1 & H2 & H3 & H4 & H5 & H6 & H7 & H8 & H9 & H10 & _).
  apply (a2_einsum2_bmm a2_ex_sz); try assumption.
  rewrite H10. discriminate.
Qed.

(* independent check by evaluation: the plan has two string pre-steps (diagonals),
   a unit-prepending output reshape and a final permutation; both sides evaluate
   to the same tensor *)
Example a2_ex_plan :
  parse_bmm (eq2 a2_ex_ta a2_ex_tb a2_ex_out) (tshape a2_ex_a) (tshape a2_ex_b)
  = Some (Some (false, eq1 a2_ex_ta [7; 4; 5]), (Some (false, eq1 a2_ex_tb [7; 5; 9]),
         (None, (None, (Some [1; 1; 2; 2; 2], (Some [4; 0; 2; 1; 3], false)))))).
Proof. vm_compute. reflexivity. Qed.

Example a2_ex_eval :
  exists r, einsum2 (eq2 a2_ex_ta a2_ex_tb a2_ex_out) a2_ex_a a2_ex_b = Some r
  /\ einsum_ref [a2_ex_ta; a2_ex_tb] a2_ex_out [a2_ex_a; a2_ex_b] = r
  /\ tshape r = [2; 1; 2; 1; 2] /\ existsb (fun z => negb (Z.eqb z 0)) (tdata r) = true.
Proof. eexists. vm_compute. repeat split; reflexivity. Qed.

(* ================================================================== *)
(* PART 5 (Pure2Facts): end-to-end correctness chain *)
(* Pure2Facts.v -- end-to-end correctness of the PURE MULTIPLICATION path of the
   two-operand einsum for ARBITRARY terms (repeated labels allowed) and
   arbitrary consistent sizes (size-1 dimensions allowed). *)

(* ------------------------------------------------------------------ *)
(* the pre-step for an arbitrary term                                  *)
Lemma q2_exec_pre (sz : nat -> nat) t d x :
  tshape x = map sz t -> wf_tensor x = true -> Forall (fun c => 4 <= c) t ->
  NoDup d -> incl d t ->
  exec_pre (pu_pre t d) x = Some (einsum_ref [t] d [x]).
Proof.
  intros Hs Hwf Ft Hdd Hi. unfold pu_pre.
  match goal with |- exec_pre (if ?b then _ else _) _ = _ => destruct b eqn:E end.
  - apply pf_list_eqb_eq in E. subst d. cbn [exec_pre].
    rewrite ff_einsum_ref_id; [reflexivity|exact Hdd| |exact Hwf].
    rewrite Hs, map_length. reflexivity.
  - cbn [exec_pre]. apply (dg_einsum_single sz); assumption.
Qed.

(* ------------------------------------------------------------------ *)
(* the reshape that inserts size-1 axes, read at VALID indices          *)
Lemma q2_ravel sz t : forall out idx,
  valid_idx (map sz out) idx ->
  ravel (pu_n sz t out) (clip (pu_n sz t out) idx) =
  ravel (map sz (pu_d t out)) (pu_sub t out idx).
Proof.
  induction out as [|x o IH]; intros idx Hv.
  - destruct idx; reflexivity.
  - cbn [map] in Hv. apply sf_valid_idx_cons in Hv.
    destruct Hv as (i & r & -> & Hi & Hv).
    specialize (IH r Hv).
    unfold pu_n, pu_d in *. cbn [map filter clip pu_sub].
    destruct (memb x t) eqn:E.
    + cbn [map ravel]. rewrite IH.
      fold (pu_n sz t o). fold (pu_d t o). rewrite pu_nprod.
      destruct (Nat.eqb (sz x) 1) eqn:E1; [|reflexivity].
      apply Nat.eqb_eq in E1. assert (i = 0) by lia. subst i. reflexivity.
    + cbn [Nat.eqb ravel]. rewrite IH. lia.
Qed.

Lemma q2_tget_reshaped sz t out (x : tensor) idx :
  tshape x = map sz (pu_d t out) -> valid_idx (map sz out) idx ->
  tget (pu_n sz t out, tdata x) (clip (pu_n sz t out) idx) = tget x (pu_sub t out idx).
Proof.
  intros Hs Hv. unfold tget. cbn [tshape tdata fst snd].
  rewrite (q2_ravel sz t out idx Hv).
  change (fst x) with (tshape x). rewrite Hs. reflexivity.
Qed.

(* ------------------------------------------------------------------ *)
(* broadcasting of the two reshaped operands                            *)
Lemma q2_bcast sz ta tb : forall out,
  incl out (ta ++ tb) ->
  bcast_shape (pu_n sz ta out) (pu_n sz tb out) = Some (map sz out).
Proof.
  induction out as [|x o IH]; intros Hi; [reflexivity|].
  assert (Hi' : incl o (ta ++ tb)) by (intros y Hy; apply Hi; right; exact Hy).
  specialize (IH Hi').
  unfold pu_n in *. cbn [map bcast_shape]. rewrite IH.
  destruct (memb x ta) eqn:Ea; destruct (memb x tb) eqn:Eb.
  - rewrite Nat.eqb_refl. reflexivity.
  - destruct (Nat.eqb (sz x) 1) eqn:E1; [reflexivity|]. cbn [Nat.eqb]. reflexivity.
  - destruct (Nat.eqb 1 (sz x)) eqn:E1.
    + apply Nat.eqb_eq in E1. rewrite <- E1. reflexivity.
    + cbn [Nat.eqb]. reflexivity.
  - exfalso. apply pu_memb_notin in Ea. apply pu_memb_notin in Eb.
    assert (H : In x (ta ++ tb)) by (apply Hi; left; reflexivity).
    apply in_app_or in H. tauto.
Qed.

(* ------------------------------------------------------------------ *)
(* the broadcasting multiply of the reshaped operands is the reference
   with no inner labels                                                 *)
Theorem q2_multiply sz ta tb out (a1 b1 : tensor) :
  NoDup out -> incl out (ta ++ tb) ->
  tshape a1 = map sz (pu_d ta out) -> tshape b1 = map sz (pu_d tb out) ->
  multiply (pu_n sz ta out, tdata a1) (pu_n sz tb out, tdata b1) =
  Some (einsum_ref [pu_d ta out; pu_d tb out] out [a1; b1]).
Proof.
  intros Hnd Hi Ha Hb.
  unfold multiply. cbn [tshape fst]. rewrite (q2_bcast sz ta tb out Hi).
  f_equal.
  pose proof (cp_sized2 sz _ _ a1 b1 Ha Hb) as Hsized.
  pose proof (pu_out_incl ta tb out Hi) as Hoi.
  pose proof (cp_ref_shape sz _ _ out Hsized Hoi) as Hshape.
  apply tensor_ext.
  - apply tbuild_wf.
  - apply einsum_ref_wf.
  - exact (eq_sym Hshape).
  - intros idx Hv. change (tshape (tbuild (map sz out) _)) with (map sz out) in Hv.
    assert (Hl : length idx = length out)
      by (rewrite (sf_valid_idx_length _ _ Hv), map_length; reflexivity).
    rewrite tget_tbuild by exact Hv.
    rewrite (q2_tget_reshaped sz ta out a1 idx Ha Hv).
    rewrite (q2_tget_reshaped sz tb out b1 idx Hb Hv).
    symmetry. etransitivity; [exact (cp_tget_ref sz _ _ out idx Hsized Hoi Hv)|].
    match goal with |- context [cp_lsum sz ?l _ _] =>
      replace l with (@nil nat) by (symmetry; exact (pu_inner_nil ta tb out Hi)) end.
    cbn [cp_lsum].
    rewrite cp_Gn2.
    rewrite (pu_sub_elook ta out idx Hnd Hl), (pu_sub_elook tb out idx Hnd Hl).
    reflexivity.
Qed.

(* ------------------------------------------------------------------ *)
(* no contracted label: a label in both terms and not in the output has
   size 1                                                               *)
Lemma q2_con_nil sz ta tb out x :
  p2_con sz ta tb out = [] -> In x ta -> In x tb -> ~ In x out -> sz x = 1.
Proof.
  intros Hc Ha Hb Ho. destruct (Nat.eq_dec (sz x) 1) as [E|E]; [exact E|].
  exfalso. assert (H : In x (p2_con sz ta tb out)) by (apply p2_con_in; tauto).
  rewrite Hc in H. exact H.
Qed.

(* ------------------------------------------------------------------ *)
(* execution of the pure plan                                           *)
Theorem q2_exec sz ta tb out a b :
  tshape a = map sz ta -> tshape b = map sz tb -> wf_tensor a = true -> wf_tensor b = true ->
  NoDup out -> incl out (ta ++ tb) ->
  Forall (fun c => 4 <= c) ta -> Forall (fun c => 4 <= c) tb ->
  p2_con sz ta tb out = [] ->
  exec_bmm (pu_pre ta (pu_d ta out), (pu_pre tb (pu_d tb out),
     (Some (pu_n sz ta out), (Some (pu_n sz tb out), (None, (None, true)))))) a b
  = Some (einsum_ref [ta; tb] out [a; b]).
Proof.
  intros Hsa Hsb Hwa Hwb Hdo Hi Fa Fb Hc.
  destruct (pl_einsum_ref_single_shape sz ta (pu_d ta out) a Hsa (pu_d_incl ta out)) as [Hsa1 Hwa1].
  destruct (pl_einsum_ref_single_shape sz tb (pu_d tb out) b Hsb (pu_d_incl tb out)) as [Hsb1 Hwb1].
  unfold exec_bmm.
  rewrite (q2_exec_pre sz ta (pu_d ta out) a Hsa Hwa Fa (pu_d_nodup ta out Hdo) (pu_d_incl ta out)).
  cbn [obind omaybe].
  rewrite (cf_reshape_some _ (pu_n sz ta out) Hwa1)
    by (rewrite Hsa1; apply pu_nprod).
  cbn [obind].
  rewrite (q2_exec_pre sz tb (pu_d tb out) b Hsb Hwb Fb (pu_d_nodup tb out Hdo) (pu_d_incl tb out)).
  cbn [obind omaybe].
  rewrite (cf_reshape_some _ (pu_n sz tb out) Hwb1)
    by (rewrite Hsb1; apply pu_nprod).
  cbn [obind].
  rewrite (q2_multiply sz ta tb out _ _ Hdo Hi Hsa1 Hsb1).
  f_equal.
  apply (sg_pre_sum_compose_pure sz ta tb out); try assumption.
  - intros x. rewrite pu_d_in. tauto.
  - intros x. rewrite pu_d_in. tauto.
  - intros x. apply q2_con_nil. exact Hc.
Qed.

(* ------------------------------------------------------------------ *)
(* MAIN THEOREM (the positivity of the sizes is not needed)             *)
Theorem q2_einsum2_pure_gen sz ta tb out a b :
  tshape a = map sz ta -> tshape b = map sz tb -> wf_tensor a = true -> wf_tensor b = true ->
  NoDup out -> incl out (ta ++ tb) ->
  Forall (fun c => 4 <= c) ta -> Forall (fun c => 4 <= c) tb -> Forall (fun c => 4 <= c) out ->
  p2_con sz ta tb out = [] ->
  einsum2 (eq2 ta tb out) a b = Some (einsum_ref [ta; tb] out [a; b]).
Proof.
  intros Hsa Hsb Hwa Hwb Hdo Hi Fa Fb Fo Hc.
  unfold einsum2. rewrite Hsa, Hsb.
  rewrite (p2_pure sz ta tb out Fa Fb Fo Hc).
  rewrite pu_parse_pure.
  cbn [obind].
  apply (q2_exec sz); assumption.
Qed.

Theorem q2_einsum2_pure sz ta tb out a b :
  (forall x, 1 <= sz x) ->
  tshape a = map sz ta -> tshape b = map sz tb -> wf_tensor a = true -> wf_tensor b = true ->
  NoDup out -> incl out (ta ++ tb) ->
  Forall (fun c => 4 <= c) ta -> Forall (fun c => 4 <= c) tb -> Forall (fun c => 4 <= c) out ->
  p2_con sz ta tb out = [] ->
  einsum2 (eq2 ta tb out) a b = Some (einsum_ref [ta; tb] out [a; b]).
Proof.
  intros _. apply q2_einsum2_pure_gen.
Qed.

(* ------------------------------------------------------------------ *)
(* non-vacuity: labels a=4, b=5, c=6 with sizes a->2, b->1, c->3        *)
Definition q2_sz (x : nat) : nat := match x with 4 => 2 | 6 => 3 | _ => 1 end.

Lemma q2_sz_ge1 x : 1 <= q2_sz x.
Proof. unfold q2_sz. do 7 (destruct x as [|x]; [lia|]). lia. Qed.

Ltac q2_side :=
  match goal with
  | |- forall x, 1 <= q2_sz x => exact q2_sz_ge1
  | |- NoDup _ => apply sf_nodupb_NoDup; reflexivity
  | |- incl _ _ => let x := fresh "x" in let H := fresh "H" in
                   intros x H; cbn [In app] in *; tauto
  | |- Forall _ _ => repeat constructor; lia
  | |- _ = _ => reflexivity
  end.

(* repeated label and size-1 dims:  aab,cb->bca *)
Example q2_ex_diag :
  let a : tensor := ([2; 2; 1], [1; 2; 3; 4]%Z) in
  let b : tensor := ([3; 1], [5; 6; 7]%Z) in
  einsum2 (eq2 [4; 4; 5] [6; 5] [5; 6; 4]) a b =
    Some (einsum_ref [[4; 4; 5]; [6; 5]] [5; 6; 4] [a; b]) /\
  einsum2 (eq2 [4; 4; 5] [6; 5] [5; 6; 4]) a b =
    Some ([1; 3; 2], [5; 20; 6; 24; 7; 28]%Z).
Proof.
  intros a b. split.
  - apply (q2_einsum2_pure q2_sz); q2_side.
  - vm_compute. reflexivity.
Qed.

(* a shared size-1 label absent from the output takes the pure path:  ab,bc->ac *)
Example q2_ex_shared1 :
  let a : tensor := ([2; 1], [2; 3]%Z) in
  let b : tensor := ([1; 3], [5; 6; 7]%Z) in
  p2_con q2_sz [4; 5] [5; 6] [4; 6] = [] /\
  einsum2 (eq2 [4; 5] [5; 6] [4; 6]) a b =
    Some (einsum_ref [[4; 5]; [5; 6]] [4; 6] [a; b]) /\
  einsum2 (eq2 [4; 5] [5; 6] [4; 6]) a b =
    Some ([2; 3], [10; 12; 14; 15; 18; 21]%Z).
Proof.
  intros a b. split; [reflexivity|]. split.
  - apply (q2_einsum2_pure q2_sz); q2_side.
  - vm_compute. reflexivity.
Qed.

(* the plan really is the pure one (last component true) *)
Example q2_ex_shared1_plan :
  parse_bmm (eq2 [4; 5] [5; 6] [4; 6]) [2; 1] [1; 3] =
  Some (Some (false, eq1 [4; 5] [4]), (Some (false, eq1 [5; 6] [6]),
        (Some [2; 1], (Some [1; 3], (None, (None, true)))))).
Proof. vm_compute. reflexivity. Qed.

(* ================================================================== *)
(* PART 5 (FinalFacts): end-to-end correctness chain *)
(* FinalFacts.v -- the two-operand einsum of the model computes the reference
   einsum for ARBITRARY terms (repeated labels, size-1 dimensions allowed):
   the matmul path (Asm2Facts) and the pure-multiplication path (Pure2Facts)
   combined by case analysis on the contracted labels. *)

(* the sizes need not even be positive *)
Theorem fin_einsum2_correct_gen sz ta tb out a b :
  tshape a = map sz ta -> tshape b = map sz tb -> wf_tensor a = true -> wf_tensor b = true ->
  NoDup out -> incl out (ta ++ tb) ->
  Forall (fun c => 4 <= c) ta -> Forall (fun c => 4 <= c) tb -> Forall (fun c => 4 <= c) out ->
  einsum2 (eq2 ta tb out) a b = Some (einsum_ref [ta; tb] out [a; b]).
Proof.
  intros Hsa Hsb Hwa Hwb Hdo Hi Fa Fb Fo.
  destruct (p2_con sz ta tb out) as [|c l] eqn:Hc.
  - apply (q2_einsum2_pure_gen sz); assumption.
  - apply (a2_einsum2_bmm sz); try assumption. rewrite Hc. discriminate.
Qed.

Theorem fin_einsum2_correct sz ta tb out a b :
  (forall x, 1 <= sz x) ->
  tshape a = map sz ta -> tshape b = map sz tb -> wf_tensor a = true -> wf_tensor b = true ->
  NoDup out -> incl out (ta ++ tb) ->
  Forall (fun c => 4 <= c) ta -> Forall (fun c => 4 <= c) tb -> Forall (fun c => 4 <= c) out ->
  einsum2 (eq2 ta tb out) a b = Some (einsum_ref [ta; tb] out [a; b]).
Proof.
  intros _. apply fin_einsum2_correct_gen.
Qed.

(* ================================================================== *)
(* PART 6 (TdotFacts): the tensordot -> equation conversion, all valid non-negative axes *)
(* TdotFacts.v -- tensordot: the equation built from an axes specification, and the
   reference einsum of that equation is the tensordot definition. *)
(* the libraries FullFacts ComposeFacts PlanFacts CoreFacts SingFacts FinalFacts are now part of Ctg.BMMFacts *)

(* ================================================================== *)
(* 1. bridges between the Z-level helpers and the nat-level ones        *)

Lemma td_zfind j l : zfind (Z.of_nat j) (zs l) = find_pos j l.
Proof.
  unfold zs. induction l as [|x l IH]; cbn [map zfind find_pos]; [reflexivity|].
  rewrite IH.
  destruct (Z.eqb_spec (Z.of_nat x) (Z.of_nat j)), (Nat.eqb_spec x j); try reflexivity; lia.
Qed.

Lemma td_nth_error_zs l k : k < length l -> nth_error (zs l) k = Some (Z.of_nat (nth k l 0)).
Proof.
  intros H. unfold zs. rewrite nth_error_map, (nth_error_nth' l 0 H). reflexivity.
Qed.

Lemma td_py_nth {A} (l : list A) j : py_nth l (Z.of_nat j) = nth_error l j.
Proof.
  unfold py_nth. destruct (Z.leb_spec 0 (Z.of_nat j)); [|lia]. rewrite Nat2Z.id. reflexivity.
Qed.

Lemma td_remove_first_app x A F : In x A -> NoDup A ->
  remove_first x (A ++ F) = Some (filter (fun y => negb (Nat.eqb y x)) A ++ F).
Proof.
  induction A as [|y A IH]; intros Hin ND; [destruct Hin|].
  inversion ND as [|? ? Hn ND']; subst. cbn [app remove_first filter].
  destruct (Nat.eqb_spec y x) as [E|E]; cbn [negb].
  - subst y. f_equal. f_equal. symmetry. apply sf_filter_all. intros z Hz.
    apply negb_true_iff, Nat.eqb_neq. intros ->. exact (Hn Hz).
  - destruct Hin as [Hin|Hin]; [congruence|]. rewrite IH by assumption. reflexivity.
Qed.

Lemma td_find_pos_nth l : NoDup l -> forall k, k < length l -> find_pos (nth k l 0) l = Some k.
Proof.
  intros ND k Hk. destruct (sf_find_pos_in (nth k l 0) l (nth_In l 0 Hk)) as [p Hp].
  rewrite Hp. f_equal. destruct (sf_find_pos_some _ _ _ Hp) as [H1 H2].
  rewrite (NoDup_nth l 0) in ND. apply ND; assumption.
Qed.

Lemma td_find_pos_memb j l : memb j l = match find_pos j l with Some _ => true | None => false end.
Proof.
  destruct (find_pos j l) as [p|] eqn:E.
  - apply memb_In. destruct (sf_find_pos_some _ _ _ E) as [H1 H2]. rewrite <- H2. apply nth_In, H1.
  - apply memb_false. apply sf_find_pos_none, E.
Qed.

Lemma td_seq_add c n : forall s, seq (c + s) n = map (fun j => c + j) (seq s n).
Proof.
  induction n as [|n IH]; intros s; cbn [seq map]; [reflexivity|].
  f_equal. rewrite <- IH. f_equal. lia.
Qed.

(* ================================================================== *)
(* 2. the expected labels                                              *)

(* free axes of an operand of rank r, contracted axes xs *)
Definition td_free (xs : list nat) (r : nat) : list nat :=
  filter (fun j => negb (memb j xs)) (seq 0 r).
(* number of free axes below axb *)
Definition td_cnt (xb : list nat) (axb : nat) : nat := length (td_free xb axb).
Definition td_lab_b (ra : nat) (xa xb : list nat) (axb : nat) : nat :=
  match find_pos axb xb with
  | Some k => 4 + nth k xa 0
  | None => 4 + ra + td_cnt xb axb
  end.
Definition td_ia (ra : nat) : str := seq 4 ra.
Definition td_ib (ra rb : nat) (xa xb : list nat) : str := map (td_lab_b ra xa xb) (seq 0 rb).
Definition td_fresh (ra rb : nat) (xb : list nat) : str :=
  map (fun axb => 4 + ra + td_cnt xb axb) (td_free xb rb).
Definition td_io (ra rb : nat) (xa xb : list nat) : str :=
  filter (fun l => negb (memb (l - 4) xa)) (td_ia ra) ++ td_fresh ra rb xb.

(* the loop, mirrored: labels of b, fresh labels, labels removed from inds_out *)
Fixpoint td_bl (xa xb axbs : list nat) (fresh : nat) : str :=
  match axbs with
  | [] => []
  | axb :: r =>
    match find_pos axb xb with
    | Some k => (4 + nth k xa 0) :: td_bl xa xb r fresh
    | None => fresh :: td_bl xa xb r (S fresh)
    end
  end.
Fixpoint td_fl (xb axbs : list nat) (fresh : nat) : str :=
  match axbs with
  | [] => []
  | axb :: r =>
    match find_pos axb xb with
    | Some _ => td_fl xb r fresh
    | None => fresh :: td_fl xb r (S fresh)
    end
  end.
Fixpoint td_rl (xa xb axbs : list nat) : str :=
  match axbs with
  | [] => []
  | axb :: r =>
    match find_pos axb xb with
    | Some k => (4 + nth k xa 0) :: td_rl xa xb r
    | None => td_rl xa xb r
    end
  end.

(* ================================================================== *)
(* 3. the loop invariant                                               *)

Lemma td_loop_gen sa sb xa xb :
  Forall (fun j => j < length sa) xa ->
  length xa = length xb ->
  (forall k, k < length xa -> nth (nth k xa 0) sa 0 = nth (nth k xb 0) sb 0) ->
  forall axbs ib0 A F fresh,
  Forall (fun j => j < length sb) axbs ->
  NoDup A -> NoDup (td_rl xa xb axbs) -> incl (td_rl xa xb axbs) A ->
  tdot_loop (zs xa) (zs xb) sa sb (seq 4 (length sa)) axbs ib0 (A ++ F) fresh =
  Some (ib0 ++ td_bl xa xb axbs fresh,
        filter (fun l => negb (memb l (td_rl xa xb axbs))) A ++ F ++ td_fl xb axbs fresh).
Proof.
  intros Hxa HL Hdim.
  induction axbs as [|axb r IH]; intros ib0 A F fresh Hlt NDA NDR Hincl.
  - cbn [tdot_loop td_bl td_fl td_rl]. rewrite !app_nil_r.
    rewrite sf_filter_all; [reflexivity|]. intros x _. reflexivity.
  - inversion Hlt as [|? ? Hlt1 Hlt2]; subst.
    cbn [tdot_loop td_bl td_fl td_rl] in *. rewrite td_zfind.
    destruct (find_pos axb xb) as [k|] eqn:Hf.
    + destruct (sf_find_pos_some _ _ _ Hf) as [Hk Hnth].
      assert (Hk' : k < length xa) by lia.
      rewrite (td_nth_error_zs xa k Hk'). rewrite !td_py_nth.
      assert (Hax : nth k xa 0 < length sa).
      { rewrite Forall_forall in Hxa. apply Hxa, nth_In, Hk'. }
      rewrite (nth_error_nth' sa 0 Hax), (nth_error_nth' sb 0 Hlt1).
      assert (Hs : nth_error (seq 4 (length sa)) (nth k xa 0) = Some (4 + nth k xa 0)).
      { rewrite (nth_error_nth' _ 0) by (rewrite seq_length; exact Hax).
        rewrite seq_nth by exact Hax. reflexivity. }
      rewrite Hs. rewrite (Hdim k Hk'), Hnth, Nat.eqb_refl. cbn [negb].
      inversion NDR as [|? ? Hn NDR']; subst.
      assert (HinA : In (4 + nth k xa 0) A) by (apply Hincl; left; reflexivity).
      rewrite td_remove_first_app by assumption.
      rewrite IH.
      * rewrite <- app_assoc. cbn [app]. f_equal. f_equal. f_equal.
        rewrite filter_filter_comm_and. apply filter_ext. intros l.
        cbn [memb existsb]. fold (memb l (td_rl xa xb r)).
        rewrite negb_orb. reflexivity.
      * exact Hlt2.
      * apply NoDup_filter, NDA.
      * exact NDR'.
      * intros x Hx. apply filter_In. split; [apply Hincl; right; exact Hx|].
        apply negb_true_iff, Nat.eqb_neq. intros ->. exact (Hn Hx).
    + rewrite <- app_assoc. rewrite IH by assumption.
      rewrite <- !app_assoc. reflexivity.
Qed.

(* ================================================================== *)
(* 4. closed forms of the mirrored loop                                *)

Lemma td_free_S xs s :
  td_free xs (S s) = td_free xs s ++ (if memb s xs then [] else [s]).
Proof.
  unfold td_free. rewrite seq_S, filter_app. cbn [plus filter].
  destruct (memb s xs); reflexivity.
Qed.

Lemma td_cnt_S xb s : td_cnt xb (S s) = td_cnt xb s + (if memb s xb then 0 else 1).
Proof.
  unfold td_cnt. rewrite td_free_S, app_length. destruct (memb s xb); reflexivity.
Qed.

Lemma td_bl_seq ra xa xb n : forall s,
  td_bl xa xb (seq s n) (4 + ra + td_cnt xb s) = map (td_lab_b ra xa xb) (seq s n).
Proof.
  induction n as [|n IH]; intros s; cbn [seq td_bl map]; [reflexivity|].
  unfold td_lab_b at 1. pose proof (td_cnt_S xb s) as HS. rewrite td_find_pos_memb in HS.
  destruct (find_pos s xb) as [k|] eqn:Hf.
  - f_equal. rewrite <- IH. f_equal. lia.
  - f_equal. rewrite <- IH. f_equal. lia.
Qed.

Lemma td_fl_seq ra xb n : forall s,
  td_fl xb (seq s n) (4 + ra + td_cnt xb s) =
  map (fun axb => 4 + ra + td_cnt xb axb) (filter (fun j => negb (memb j xb)) (seq s n)).
Proof.
  induction n as [|n IH]; intros s; cbn [seq td_fl filter map]; [reflexivity|].
  pose proof (td_cnt_S xb s) as HS. rewrite (td_find_pos_memb s xb) in *.
  destruct (find_pos s xb) as [k|] eqn:Hf; cbn [negb map].
  - rewrite <- IH. f_equal. lia.
  - f_equal. rewrite <- IH. f_equal. lia.
Qed.

Lemma td_cnt_0 xb : td_cnt xb 0 = 0.
Proof. reflexivity. Qed.

Lemma td_bl_seq0 ra xa xb n :
  td_bl xa xb (seq 0 n) (4 + ra) = map (td_lab_b ra xa xb) (seq 0 n).
Proof. rewrite <- td_bl_seq. rewrite td_cnt_0, Nat.add_0_r. reflexivity. Qed.

Lemma td_fl_seq0 ra xb n :
  td_fl xb (seq 0 n) (4 + ra) =
  map (fun axb => 4 + ra + td_cnt xb axb) (filter (fun j => negb (memb j xb)) (seq 0 n)).
Proof. rewrite <- td_fl_seq. rewrite td_cnt_0, Nat.add_0_r. reflexivity. Qed.

Lemma td_rl_in xa xb axbs l :
  In l (td_rl xa xb axbs) <->
  exists axb k, In axb axbs /\ find_pos axb xb = Some k /\ l = 4 + nth k xa 0.
Proof.
  induction axbs as [|axb r IH]; cbn [td_rl In].
  - split; [tauto|]. intros (a & k & [] & _).
  - destruct (find_pos axb xb) as [k|] eqn:Hf; cbn [In]; rewrite IH; split.
    + intros [H|(a & k' & H1 & H2 & H3)].
      * exists axb, k. auto.
      * exists a, k'. auto.
    + intros (a & k' & [H1|H1] & H2 & H3).
      * subst a. left. congruence.
      * right. exists a, k'. auto.
    + intros (a & k' & H1 & H2 & H3). exists a, k'. auto.
    + intros (a & k' & [H1|H1] & H2 & H3); [congruence|]. exists a, k'. auto.
Qed.

Lemma td_rl_nodup xa xb axbs : NoDup xa -> length xa = length xb -> NoDup axbs ->
  NoDup (td_rl xa xb axbs).
Proof.
  intros NDa HL. induction axbs as [|axb r IH]; intros ND; cbn [td_rl]; [constructor|].
  inversion ND as [|? ? Hn ND']; subst.
  destruct (find_pos axb xb) as [k|] eqn:Hf; [|apply IH, ND'].
  constructor; [|apply IH, ND'].
  intros Hin. apply td_rl_in in Hin. destruct Hin as (a & k' & H1 & H2 & H3).
  destruct (sf_find_pos_some _ _ _ Hf) as [Hk Hnth].
  destruct (sf_find_pos_some _ _ _ H2) as [Hk' Hnth'].
  assert (E : k = k').
  { rewrite (NoDup_nth xa 0) in NDa. apply NDa; lia. }
  subst k'. apply Hn. congruence.
Qed.

(* the set of removed labels, for the full loop *)
Lemma td_rl_full xa xb rb l : NoDup xb -> length xa = length xb ->
  Forall (fun j => j < rb) xb ->
  (In l (td_rl xa xb (seq 0 rb)) <-> exists j, In j xa /\ l = 4 + j).
Proof.
  intros NDb HL Hb. rewrite td_rl_in. split.
  - intros (a & k & H1 & H2 & H3). exists (nth k xa 0). split; [|exact H3].
    apply nth_In. destruct (sf_find_pos_some _ _ _ H2). lia.
  - intros (j & Hj & ->). destruct (In_nth xa j 0 Hj) as (k & Hk & Hnth).
    exists (nth k xb 0), k. split; [|split].
    + apply in_seq. rewrite Forall_forall in Hb. specialize (Hb (nth k xb 0)).
      assert (In (nth k xb 0) xb) by (apply nth_In; lia). apply Hb in H. lia.
    + apply td_find_pos_nth; [exact NDb|lia].
    + congruence.
Qed.

(* ================================================================== *)
(* 5. T1: the equation                                                 *)

Lemma td_norm_axis_zs nd l : map (norm_axis nd) (zs l) = zs l.
Proof.
  unfold zs. rewrite map_map. apply map_ext. intros j. unfold norm_axis.
  destruct (Z.of_nat j <? 0)%Z eqn:E; [apply Z.ltb_lt in E; lia|reflexivity].
Qed.
Lemma td_tdot_equation_pair xa xb sa sb :
  tdot_equation (AxPair (zs xa) (zs xb)) sa sb = tdot_equation_axes (zs xa) (zs xb) sa sb.
Proof. unfold tdot_equation. rewrite !td_norm_axis_zs. reflexivity. Qed.

Section td_setting.
Variables (sa sb xa xb : list nat).
Hypothesis NDa : NoDup xa.
Hypothesis NDb : NoDup xb.
Hypothesis Hxa : Forall (fun j => j < length sa) xa.
Hypothesis Hxb : Forall (fun j => j < length sb) xb.
Hypothesis HL : length xa = length xb.
Hypothesis Hdim : forall k, k < length xa -> nth (nth k xa 0) sa 0 = nth (nth k xb 0) sb 0.

Local Notation ra := (length sa).
Local Notation rb := (length sb).

Theorem td_equation :
  tdot_equation (AxPair (zs xa) (zs xb)) sa sb =
  Some (eq2 (td_ia ra) (td_ib ra rb xa xb) (td_io ra rb xa xb)).
Proof.
  rewrite td_tdot_equation_pair. unfold tdot_equation_axes. unfold zs at 1 2. rewrite !map_length.
  fold (zs xa) (zs xb). rewrite HL, Nat.eqb_refl. cbn [negb].
  unfold SYM0.
  pose proof (td_loop_gen sa sb xa xb Hxa HL Hdim (seq 0 rb) [] (seq 4 ra) [] (4 + ra)) as HG.
  rewrite app_nil_r in HG. rewrite HG.
  - cbn [app]. unfold eq2, td_ia, td_ib, td_io, td_fresh, td_free.
    rewrite td_bl_seq0, td_fl_seq0. cbn [app]. f_equal. f_equal. f_equal. f_equal. f_equal. f_equal.
    apply filter_ext_in. intros l Hl. apply in_seq in Hl. f_equal.
    apply eq_true_iff_eq. rewrite !memb_In, td_rl_full by assumption.
    split.
    + intros (j & Hj & ->). replace (4 + j - 4) with j by lia. exact Hj.
    + intros Hj. exists (l - 4). split; [exact Hj|lia].
  - apply Forall_forall. intros j Hj. apply in_seq in Hj. lia.
  - apply seq_NoDup.
  - apply td_rl_nodup; [exact NDa|exact HL|apply seq_NoDup].
  - intros l Hl. apply td_rl_full in Hl; try assumption. destruct Hl as (j & Hj & ->).
    apply in_seq. rewrite Forall_forall in Hxa. apply Hxa in Hj. lia.
Qed.

(* T3, unconditional part *)
Corollary td_parse :
  parse_tdot (AxPair (zs xa) (zs xb)) sa sb =
  parse_bmm (eq2 (td_ia ra) (td_ib ra rb xa xb) (td_io ra rb xa xb)) sa sb.
Proof. unfold parse_tdot. rewrite td_equation. reflexivity. Qed.

Corollary td_tensordot_einsum2 a b : tshape a = sa -> tshape b = sb ->
  tensordot (AxPair (zs xa) (zs xb)) a b =
  einsum2 (eq2 (td_ia ra) (td_ib ra rb xa xb) (td_io ra rb xa xb)) a b.
Proof. intros Ha Hb. unfold tensordot, einsum2. rewrite Ha, Hb, td_parse. reflexivity. Qed.

(* ------------------------------------------------------------------ *)
(* characterisations of the labels                                     *)

Lemma td_ia_add : td_ia ra = map (fun j => 4 + j) (seq 0 ra).
Proof. unfold td_ia. exact (td_seq_add 4 ra 0). Qed.

Lemma td_ia_nodup : NoDup (td_ia ra).
Proof. apply seq_NoDup. Qed.

Lemma td_free_in xs r j : In j (td_free xs r) <-> j < r /\ ~ In j xs.
Proof.
  unfold td_free. rewrite filter_In, in_seq, negb_true_iff, memb_false. split; intros [H1 H2]; split; try assumption; lia.
Qed.

Lemma td_free_nodup xs r : NoDup (td_free xs r).
Proof. apply NoDup_filter, seq_NoDup. Qed.

Lemma td_free_nth_cnt xs r j : j < r -> ~ In j xs ->
  td_cnt xs j < length (td_free xs r) /\ nth (td_cnt xs j) (td_free xs r) 0 = j.
Proof.
  intros Hj Hn. unfold td_cnt.
  assert (E : td_free xs r = td_free xs j ++ j :: filter (fun i => negb (memb i xs)) (seq (S j) (r - S j))).
  { unfold td_free. replace r with (j + S (r - S j)) at 1 by lia.
    rewrite seq_app, filter_app. cbn [plus seq filter].
    apply memb_false in Hn. rewrite Hn. reflexivity. }
  rewrite E. rewrite app_length. cbn [length]. split; [lia|].
  rewrite app_nth2 by lia. rewrite Nat.sub_diag. reflexivity.
Qed.

Lemma td_cnt_nth xs r p : p < length (td_free xs r) -> td_cnt xs (nth p (td_free xs r) 0) = p.
Proof.
  intros Hp. pose proof (nth_In (td_free xs r) 0 Hp) as Hin. apply td_free_in in Hin.
  destruct Hin as [H1 H2]. destruct (td_free_nth_cnt xs r _ H1 H2) as [H3 H4].
  pose proof (td_free_nodup xs r) as ND. rewrite (NoDup_nth _ 0) in ND. apply ND; assumption.
Qed.

Lemma td_io_a : filter (fun l => negb (memb (l - 4) xa)) (td_ia ra) = map (fun j => 4 + j) (td_free xa ra).
Proof.
  rewrite td_ia_add, sf_filter_map. unfold td_free. f_equal. apply filter_ext. intros j.
  replace (4 + j - 4) with j by lia. reflexivity.
Qed.

Lemma td_fresh_seq r : td_fresh ra r xb = seq (4 + ra) (length (td_free xb r)).
Proof.
  unfold td_fresh. induction r as [|r IH]; [reflexivity|].
  rewrite td_free_S, map_app, IH, app_length. destruct (memb r xb); cbn [map length].
  - rewrite app_nil_r, Nat.add_0_r. reflexivity.
  - rewrite seq_app. cbn [seq]. unfold td_cnt. reflexivity.
Qed.

(* io = free a-labels in axis order ++ free b-labels in axis order *)
Lemma td_io_eq :
  td_io ra rb xa xb = map (fun j => 4 + j) (td_free xa ra) ++ seq (4 + ra) (length (td_free xb rb)).
Proof. unfold td_io. rewrite td_io_a, td_fresh_seq. reflexivity. Qed.

Lemma td_nodup_map_add c l : NoDup l -> NoDup (map (fun j => c + j) l).
Proof.
  induction 1 as [|x l Hn ND IH]; cbn [map]; constructor; [|exact IH].
  rewrite in_map_iff. intros (y & E & Hy). assert (y = x) by lia. subst y. exact (Hn Hy).
Qed.

Lemma td_io_in l : In l (td_io ra rb xa xb) <->
  (exists j, j < ra /\ ~ In j xa /\ l = 4 + j) \/ (4 + ra <= l < 4 + ra + length (td_free xb rb)).
Proof.
  rewrite td_io_eq, in_app_iff, in_map_iff, in_seq. split; intros [H|H]; try (right; exact H); left.
  - destruct H as (j & E & Hj). apply td_free_in in Hj. exists j. split; [tauto|]. split; [tauto|]. lia.
  - destruct H as (j & H1 & H2 & E). exists j. split; [lia|]. apply td_free_in. tauto.
Qed.

Lemma td_io_nodup : NoDup (td_io ra rb xa xb).
Proof.
  rewrite td_io_eq. apply NoDup_app_intro.
  - apply td_nodup_map_add, td_free_nodup.
  - apply seq_NoDup.
  - intros x Hx Hs. apply in_map_iff in Hx. destruct Hx as (j & E & Hj).
    apply td_free_in in Hj. apply in_seq in Hs. lia.
Qed.

Lemma td_io_length : length (td_io ra rb xa xb) = length (td_free xa ra) + length (td_free xb rb).
Proof. rewrite td_io_eq, app_length, map_length, seq_length. reflexivity. Qed.

(* label of a contracted b axis = label of the partner a axis *)
Lemma td_lab_b_con k : k < length xb ->
  td_lab_b ra xa xb (nth k xb 0) = 4 + nth k xa 0.
Proof. intros Hk. unfold td_lab_b. rewrite td_find_pos_nth by assumption. reflexivity. Qed.

(* label of a free b axis = fresh, determined by its rank among the free axes *)
Lemma td_lab_b_free axb : ~ In axb xb ->
  td_lab_b ra xa xb axb = 4 + ra + td_cnt xb axb.
Proof. intros Hn. unfold td_lab_b. rewrite sf_find_pos_notin by exact Hn. reflexivity. Qed.

Lemma td_ib_nth axb : axb < rb -> nth axb (td_ib ra rb xa xb) 0 = td_lab_b ra xa xb axb.
Proof.
  intros H. unfold td_ib. rewrite (nth_map_lt _ _ _ 0) by (rewrite seq_length; exact H).
  rewrite seq_nth by exact H. reflexivity.
Qed.

Lemma td_ia_nth j : j < ra -> nth j (td_ia ra) 0 = 4 + j.
Proof. intros H. unfold td_ia. apply seq_nth, H. Qed.

(* fresh labels are not a-labels and are pairwise distinct *)
Lemma td_lab_b_free_notin_ia axb : ~ In axb xb -> ~ In (td_lab_b ra xa xb axb) (td_ia ra).
Proof. intros Hn. rewrite td_lab_b_free by exact Hn. unfold td_ia. rewrite in_seq. lia. Qed.

Lemma td_lab_b_free_inj axb axb' : axb < rb -> axb' < rb -> ~ In axb xb -> ~ In axb' xb ->
  td_lab_b ra xa xb axb = td_lab_b ra xa xb axb' -> axb = axb'.
Proof.
  intros H1 H2 N1 N2. rewrite !td_lab_b_free by assumption. intros E.
  destruct (td_free_nth_cnt xb rb axb H1 N1) as [_ E1].
  destruct (td_free_nth_cnt xb rb axb' H2 N2) as [_ E2].
  rewrite <- E1, <- E2. f_equal. lia.
Qed.

Lemma td_ia_ge4 : Forall (fun c => 4 <= c) (td_ia ra).
Proof. apply Forall_forall. intros l Hl. apply in_seq in Hl. lia. Qed.

Lemma td_ib_ge4 : Forall (fun c => 4 <= c) (td_ib ra rb xa xb).
Proof.
  apply Forall_forall. intros l Hl. apply in_map_iff in Hl. destruct Hl as (axb & E & _).
  subst l. unfold td_lab_b. destruct (find_pos axb xb); lia.
Qed.

Lemma td_io_ge4 : Forall (fun c => 4 <= c) (td_io ra rb xa xb).
Proof.
  apply Forall_forall. intros l Hl. apply td_io_in in Hl. destruct Hl as [(j & _ & _ & ->)|H]; lia.
Qed.

Lemma td_io_incl : incl (td_io ra rb xa xb) (td_ia ra ++ td_ib ra rb xa xb).
Proof.
  intros l Hl. apply td_io_in in Hl. apply in_app_iff. destruct Hl as [(j & H1 & H2 & ->)|H].
  - left. apply in_seq. lia.
  - right. set (p := l - 4 - ra). assert (Hp : p < length (td_free xb rb)) by (unfold p; lia).
    pose proof (nth_In (td_free xb rb) 0 Hp) as Hin. apply td_free_in in Hin. destruct Hin as [H1 H2].
    apply in_map_iff. exists (nth p (td_free xb rb) 0). split; [|apply in_seq; lia].
    rewrite td_lab_b_free by exact H2. rewrite td_cnt_nth by exact Hp. unfold p. lia.
Qed.

(* ------------------------------------------------------------------ *)
(* the size function                                                   *)

Definition td_sz (l : nat) : nat :=
  if l <? 4 + ra then nth (l - 4) sa 1
  else nth (nth (l - 4 - ra) (td_free xb rb) 0) sb 1.

Lemma td_sz_a j : j < ra -> td_sz (4 + j) = nth j sa 0.
Proof.
  intros H. unfold td_sz. destruct (Nat.ltb_spec (4 + j) (4 + ra)); [|lia].
  replace (4 + j - 4) with j by lia. apply nth_indep, H.
Qed.

Lemma td_sz_ia : map td_sz (td_ia ra) = sa.
Proof.
  rewrite td_ia_add, map_map. rewrite <- (sf_map_nth_seq sa) at 2.
  apply map_ext_in. intros j Hj. apply in_seq in Hj. apply td_sz_a. lia.
Qed.

Lemma td_sz_fresh p : p < length (td_free xb rb) ->
  td_sz (4 + ra + p) = nth (nth p (td_free xb rb) 0) sb 0.
Proof.
  intros Hp. unfold td_sz. destruct (Nat.ltb_spec (4 + ra + p) (4 + ra)); [lia|].
  replace (4 + ra + p - 4 - ra) with p by lia. apply nth_indep.
  pose proof (nth_In (td_free xb rb) 0 Hp) as Hin. apply td_free_in in Hin. tauto.
Qed.

Lemma td_sz_ib : map td_sz (td_ib ra rb xa xb) = sb.
Proof.
  unfold td_ib. rewrite map_map. rewrite <- (sf_map_nth_seq sb) at 2.
  apply map_ext_in. intros axb Hax. apply in_seq in Hax.
  destruct (find_pos axb xb) as [k|] eqn:Hf.
  - destruct (sf_find_pos_some _ _ _ Hf) as [Hk Hnth]. unfold td_lab_b. rewrite Hf.
    assert (Hk' : k < length xa) by lia.
    assert (Hj : nth k xa 0 < ra). { rewrite Forall_forall in Hxa. apply Hxa, nth_In, Hk'. }
    rewrite td_sz_a by exact Hj. rewrite (Hdim k Hk'), Hnth. reflexivity.
  - apply sf_find_pos_none in Hf. rewrite td_lab_b_free by exact Hf.
    destruct (td_free_nth_cnt xb rb axb) as [H1 H2]; [lia|exact Hf|].
    rewrite td_sz_fresh by exact H1. rewrite H2. reflexivity.
Qed.

Lemma td_sz_io :
  map td_sz (td_io ra rb xa xb) = dims_at sa (td_free xa ra) ++ dims_at sb (td_free xb rb).
Proof.
  rewrite td_io_eq, map_app, map_map. unfold dims_at. f_equal.
  - apply map_ext_in. intros j Hj. apply td_free_in in Hj. apply td_sz_a. tauto.
  - replace (4 + ra) with (4 + ra + 0) at 1 by lia. rewrite (td_seq_add (4 + ra) _ 0), map_map.
    rewrite <- (sf_map_nth_seq (td_free xb rb)) at 2. rewrite map_map.
    apply map_ext_in. intros p Hp. apply in_seq in Hp. apply td_sz_fresh. lia.
Qed.

Lemma td_sz_con : map td_sz (map (fun j => 4 + j) xa) = dims_at sa xa.
Proof.
  rewrite map_map. unfold dims_at. apply map_ext_in. intros j Hj. apply td_sz_a.
  rewrite Forall_forall in Hxa. apply Hxa, Hj.
Qed.

(* ------------------------------------------------------------------ *)
(* T2: the reference of the equation is tensordot_ref                  *)

Lemma td_nth_firstn {A} (d : A) : forall n p (l : list A), p < n -> nth p (firstn n l) d = nth p l d.
Proof.
  induction n as [|n IH]; intros p l Hp; [lia|].
  destruct l as [|x l]; cbn [firstn]; [reflexivity|].
  destruct p as [|p]; cbn [nth]; [reflexivity|]. apply IH. lia.
Qed.

Lemma td_nth_skipn {A} (d : A) : forall n p (l : list A), nth p (skipn n l) d = nth (n + p) l d.
Proof.
  induction n as [|n IH]; intros p l; [reflexivity|].
  destruct l as [|x l]; cbn [skipn plus nth]; [destruct p; reflexivity|]. apply IH.
Qed.

Lemma td_con_notin_io j : In j xa -> ~ In (4 + j) (td_io ra rb xa xb).
Proof.
  intros Hj Hin. apply td_io_in in Hin. destruct Hin as [(j' & H1 & H2 & E)|H].
  - assert (j' = j) by lia. subst j'. exact (H2 Hj).
  - rewrite Forall_forall in Hxa. apply Hxa in Hj. lia.
Qed.

(* reading the environment at an output label *)
Lemma td_env_out idx e p : length idx = length (td_io ra rb xa xb) -> p < length (td_io ra rb xa xb) ->
  elook (combine (td_io ra rb xa xb) idx ++ e) (nth p (td_io ra rb xa xb) 0) = nth p idx 0.
Proof.
  intros HLi Hp. rewrite elook_app_l.
  - apply elook_combine_nth; [apply td_io_nodup|exact Hp|exact HLi].
  - rewrite sf_map_fst_combine by exact HLi. apply nth_In, Hp.
Qed.

(* reading the environment at a contracted label *)
Lemma td_env_con idx c k : length c = length xa -> k < length xa ->
  elook (combine (td_io ra rb xa xb) idx ++ combine (map (fun j => 4 + j) xa) c) (4 + nth k xa 0) = nth k c 0.
Proof.
  intros HLc Hk. rewrite elook_app_r.
  - replace (4 + nth k xa 0) with (nth k (map (fun j => 4 + j) xa) 0)
      by (apply (nth_map_lt (fun j => 4 + j) xa k 0 0), Hk).
    apply elook_combine_nth.
    + apply td_nodup_map_add, NDa.
    + rewrite map_length. exact Hk.
    + rewrite map_length. exact HLc.
  - intros Hin. apply sf_in_combine_fst in Hin. revert Hin. apply td_con_notin_io, nth_In, Hk.
Qed.

Lemma td_io_nth_a p : p < length (td_free xa ra) ->
  nth p (td_io ra rb xa xb) 0 = 4 + nth p (td_free xa ra) 0.
Proof.
  intros Hp. rewrite td_io_eq, app_nth1 by (rewrite map_length; exact Hp).
  apply (nth_map_lt (fun j => 4 + j) _ p 0 0), Hp.
Qed.

Lemma td_io_nth_b p : p < length (td_free xb rb) ->
  nth (length (td_free xa ra) + p) (td_io ra rb xa xb) 0 = 4 + ra + p.
Proof.
  intros Hp. rewrite td_io_eq, app_nth2 by (rewrite map_length; lia).
  rewrite map_length. replace (length (td_free xa ra) + p - length (td_free xa ra)) with p by lia.
  apply seq_nth, Hp.
Qed.

Lemma td_read_a idx c :
  length idx = length (td_io ra rb xa xb) -> length c = length xa ->
  assemble ra (td_free xa ra) (firstn (length (td_free xa ra)) idx) xa c =
  map (elook (combine (td_io ra rb xa xb) idx ++ combine (map (fun j => 4 + j) xa) c)) (td_ia ra).
Proof.
  intros HLi HLc. unfold assemble. rewrite td_ia_add, map_map. apply map_ext_in.
  intros j Hj. apply in_seq in Hj.
  destruct (find_pos j (td_free xa ra)) as [p|] eqn:Hf.
  - destruct (sf_find_pos_some _ _ _ Hf) as [Hp Hnth].
    rewrite td_nth_firstn by exact Hp.
    rewrite <- Hnth. rewrite <- td_io_nth_a by exact Hp.
    rewrite td_env_out; [reflexivity|exact HLi|]. rewrite td_io_length. lia.
  - apply sf_find_pos_none in Hf.
    assert (Hin : In j xa).
    { destruct (in_dec Nat.eq_dec j xa) as [H|H]; [exact H|].
      exfalso. apply Hf, td_free_in. split; [lia|exact H]. }
    destruct (sf_find_pos_in j xa Hin) as [q Hq]. rewrite Hq.
    destruct (sf_find_pos_some _ _ _ Hq) as [Hq1 Hq2].
    rewrite <- Hq2. rewrite td_env_con by assumption. reflexivity.
Qed.

Lemma td_read_b idx c :
  length idx = length (td_io ra rb xa xb) -> length c = length xa ->
  assemble rb (td_free xb rb) (skipn (length (td_free xa ra)) idx) xb c =
  map (elook (combine (td_io ra rb xa xb) idx ++ combine (map (fun j => 4 + j) xa) c)) (td_ib ra rb xa xb).
Proof.
  intros HLi HLc. unfold assemble, td_ib. rewrite map_map. apply map_ext_in.
  intros axb Hax. apply in_seq in Hax.
  destruct (find_pos axb (td_free xb rb)) as [p|] eqn:Hf.
  - destruct (sf_find_pos_some _ _ _ Hf) as [Hp Hnth].
    assert (Hfree : ~ In axb xb).
    { pose proof (nth_In (td_free xb rb) 0 Hp) as Hin. rewrite Hnth in Hin.
      apply td_free_in in Hin. tauto. }
    rewrite td_lab_b_free by exact Hfree.
    rewrite <- Hnth. rewrite td_cnt_nth by exact Hp.
    rewrite td_nth_skipn. rewrite <- td_io_nth_b by exact Hp.
    rewrite td_env_out; [reflexivity|exact HLi|]. rewrite td_io_length. lia.
  - apply sf_find_pos_none in Hf.
    assert (Hin : In axb xb).
    { destruct (in_dec Nat.eq_dec axb xb) as [H|H]; [exact H|].
      exfalso. apply Hf, td_free_in. split; [lia|exact H]. }
    destruct (sf_find_pos_in axb xb Hin) as [k Hk]. rewrite Hk.
    destruct (sf_find_pos_some _ _ _ Hk) as [Hk1 Hk2].
    unfold td_lab_b. rewrite Hk. rewrite td_env_con; [reflexivity|exact HLc|lia].
Qed.

(* the labels summed by the reference are the contracted a-labels *)
Lemma td_inner_perm :
  Permutation (map (fun j => 4 + j) xa)
              (sf_inner [td_ia ra; td_ib ra rb xa xb] (td_io ra rb xa xb)).
Proof.
  apply NoDup_Permutation.
  - apply td_nodup_map_add, NDa.
  - apply cp_inner_nodup.
  - intros l. rewrite cp_inner_in. cbn [concat]. rewrite app_nil_r. split.
    + intros Hl. apply in_map_iff in Hl. destruct Hl as (j & <- & Hj). split.
      * apply in_app_iff. left. apply in_seq. rewrite Forall_forall in Hxa. apply Hxa in Hj. lia.
      * apply td_con_notin_io, Hj.
    + intros [Hin Hout]. apply in_map_iff. apply in_app_iff in Hin. destruct Hin as [Hin|Hin].
      * apply in_seq in Hin. exists (l - 4). split; [lia|].
        destruct (in_dec Nat.eq_dec (l - 4) xa) as [H|H]; [exact H|].
        exfalso. apply Hout, td_io_in. left. exists (l - 4). split; [lia|]. split; [exact H|lia].
      * apply in_map_iff in Hin. destruct Hin as (axb & E & Hax). apply in_seq in Hax.
        destruct (find_pos axb xb) as [k|] eqn:Hf.
        -- unfold td_lab_b in E. rewrite Hf in E. exists (nth k xa 0). split; [exact E|].
           apply nth_In. destruct (sf_find_pos_some _ _ _ Hf). lia.
        -- exfalso. apply Hout. apply sf_find_pos_none in Hf.
           rewrite td_lab_b_free in E by exact Hf. apply td_io_in. right.
           destruct (td_free_nth_cnt xb rb axb) as [H1 H2]; [lia|exact Hf|]. lia.
Qed.

Theorem td_ref_is_tensordot a b : tshape a = sa -> tshape b = sb ->
  einsum_ref [td_ia ra; td_ib ra rb xa xb] (td_io ra rb xa xb) [a; b] = tensordot_ref xa xb a b.
Proof.
  intros Ha Hb.
  assert (Hs : cp_sized td_sz [td_ia ra; td_ib ra rb xa xb] [a; b]).
  { apply cp_sized2; [rewrite td_sz_ia; exact Ha|rewrite td_sz_ib; exact Hb]. }
  assert (Hi : incl (td_io ra rb xa xb) (concat [td_ia ra; td_ib ra rb xa xb])).
  { cbn [concat]. rewrite app_nil_r. apply td_io_incl. }
  apply tensor_ext.
  - apply einsum_ref_wf.
  - unfold tensordot_ref. cbv zeta. apply tbuild_wf.
  - rewrite (cp_ref_shape td_sz _ _ _ Hs Hi), td_sz_io.
    unfold tensordot_ref. cbv zeta. rewrite Ha, Hb. reflexivity.
  - intros idx Hv. rewrite (cp_ref_shape td_sz _ _ _ Hs Hi) in Hv.
    rewrite (cp_tget_ref td_sz _ _ _ _ Hs Hi Hv).
    assert (HLi : length idx = length (td_io ra rb xa xb)).
    { apply sf_valid_idx_length in Hv. rewrite map_length in Hv. exact Hv. }
    unfold tensordot_ref. cbv zeta. rewrite Ha, Hb.
    rewrite tget_tbuild by (rewrite td_sz_io in Hv; exact Hv).
    rewrite <- (cp_lsum_perm td_sz _ _ _ (cp_Gn_ext _ _) td_inner_perm (td_nodup_map_add 4 xa NDa)).
    symmetry. apply cp_flat_lsum.
    + apply cp_Gn_ext.
    + apply td_nodup_map_add, NDa.
    + intros x Hx Hin. apply sf_in_combine_fst in Hin. apply in_map_iff in Hx.
      destruct Hx as (j & <- & Hj). revert Hin. apply td_con_notin_io, Hj.
    + symmetry. apply td_sz_con.
    + intros c Hc. apply sf_valid_idx_length in Hc. unfold dims_at in Hc. rewrite map_length in Hc.
      rewrite cp_Gn2. rewrite <- td_read_a, <- td_read_b by assumption. reflexivity.
Qed.

(* ------------------------------------------------------------------ *)
(* T3: the package                                                     *)

Theorem td_tensordot_conditional a b : tshape a = sa -> tshape b = sb ->
  einsum2 (eq2 (td_ia ra) (td_ib ra rb xa xb) (td_io ra rb xa xb)) a b =
    Some (einsum_ref [td_ia ra; td_ib ra rb xa xb] (td_io ra rb xa xb) [a; b]) ->
  tensordot (AxPair (zs xa) (zs xb)) a b = Some (tensordot_ref xa xb a b).
Proof.
  intros Ha Hb H. rewrite (td_tensordot_einsum2 a b Ha Hb), H.
  rewrite (td_ref_is_tensordot a b Ha Hb). reflexivity.
Qed.

(* the premise, from the general two-operand theorem *)
Lemma td_einsum2_ref a b : tshape a = sa -> tshape b = sb ->
  wf_tensor a = true -> wf_tensor b = true ->
  einsum2 (eq2 (td_ia ra) (td_ib ra rb xa xb) (td_io ra rb xa xb)) a b =
    Some (einsum_ref [td_ia ra; td_ib ra rb xa xb] (td_io ra rb xa xb) [a; b]).
Proof.
  intros Ha Hb Wa Wb. apply (fin_einsum2_correct_gen td_sz).
  - rewrite td_sz_ia. exact Ha.
  - rewrite td_sz_ib. exact Hb.
  - exact Wa.
  - exact Wb.
  - apply td_io_nodup.
  - apply td_io_incl.
  - apply td_ia_ge4.
  - apply td_ib_ge4.
  - apply td_io_ge4.
Qed.

Theorem td_tensordot_correct a b : tshape a = sa -> tshape b = sb ->
  wf_tensor a = true -> wf_tensor b = true ->
  tensordot (AxPair (zs xa) (zs xb)) a b = Some (tensordot_ref xa xb a b).
Proof.
  intros Ha Hb Wa Wb. apply td_tensordot_conditional; try assumption.
  apply td_einsum2_ref; assumption.
Qed.

End td_setting.

(* ================================================================== *)
(* 6. the integer form of the axes                                     *)

Lemma td_zrange_seq lo n : zrange (Z.of_nat lo) (Z.of_nat (lo + n)) = zs (seq lo n).
Proof.
  unfold zrange, zs.
  replace (Z.to_nat (Z.of_nat (lo + n) - Z.of_nat lo)) with n by lia.
  assert (E : seq lo n = map (fun j => lo + j) (seq 0 n)) by (rewrite <- td_seq_add; f_equal; lia).
  rewrite E, map_map.
  apply map_ext. intros k. lia.
Qed.

Theorem td_equation_int n sa sb : n <= length sa ->
  tdot_equation (AxInt n) sa sb =
  tdot_equation (AxPair (zs (seq (length sa - n) n)) (zs (seq 0 n))) sa sb.
Proof.
  intros Hn. rewrite td_tdot_equation_pair. unfold tdot_equation.
  assert (E1 : zrange (Z.of_nat (length sa) - Z.of_nat n) (Z.of_nat (length sa)) =
               zs (seq (length sa - n) n)).
  { rewrite <- td_zrange_seq. f_equal; lia. }
  assert (E2 : zrange 0 (Z.of_nat n) = zs (seq 0 n)) by exact (td_zrange_seq 0 n).
  rewrite E1, E2. reflexivity.
Qed.

Corollary td_tensordot_int n a b : n <= length (tshape a) ->
  tensordot (AxInt n) a b =
  tensordot (AxPair (zs (seq (length (tshape a) - n) n)) (zs (seq 0 n))) a b.
Proof.
  intros Hn. unfold tensordot, parse_tdot. rewrite td_equation_int by exact Hn. reflexivity.
Qed.

(* the integer form, end to end *)
Theorem td_tensordot_int_correct n a b :
  n <= length (tshape a) -> n <= length (tshape b) ->
  dims_at (tshape a) (seq (length (tshape a) - n) n) = dims_at (tshape b) (seq 0 n) ->
  wf_tensor a = true -> wf_tensor b = true ->
  tensordot (AxInt n) a b =
  Some (tensordot_ref (seq (length (tshape a) - n) n) (seq 0 n) a b).
Proof.
  intros Hna Hnb Hd Wa Wb. rewrite td_tensordot_int by exact Hna.
  apply (td_tensordot_correct (tshape a) (tshape b)); try reflexivity; try assumption.
  - apply seq_NoDup.
  - apply seq_NoDup.
  - apply Forall_forall. intros j Hj. apply in_seq in Hj. lia.
  - apply Forall_forall. intros j Hj. apply in_seq in Hj. lia.
  - rewrite !seq_length. reflexivity.
  - rewrite seq_length. intros k Hk. unfold dims_at in Hd.
    apply (f_equal (fun l => nth k l 0)) in Hd.
    rewrite !(nth_map_lt _ _ _ 0) in Hd by (rewrite seq_length; exact Hk). exact Hd.
Qed.

(* the pair form with the dimension hypothesis stated with dims_at *)
Theorem td_tensordot_correct_dims xa xb a b :
  NoDup xa -> NoDup xb ->
  Forall (fun j => j < length (tshape a)) xa -> Forall (fun j => j < length (tshape b)) xb ->
  length xa = length xb -> dims_at (tshape a) xa = dims_at (tshape b) xb ->
  wf_tensor a = true -> wf_tensor b = true ->
  tensordot (AxPair (zs xa) (zs xb)) a b = Some (tensordot_ref xa xb a b).
Proof.
  intros NDa NDb Ha Hb HL Hd Wa Wb.
  apply (td_tensordot_correct (tshape a) (tshape b)); try reflexivity; try assumption.
  intros k Hk. unfold dims_at in Hd. apply (f_equal (fun l => nth k l 0)) in Hd.
  rewrite !(nth_map_lt _ _ _ 0) in Hd by lia. exact Hd.
Qed.

(* ================================================================== *)
(* PART 7 (BridgeFacts): the theorems restated with the executable predicate `consistent` *)

(* Bridge: the full einsum theorems restated with the executable predicate
   [consistent] as the shape premise. *)

Lemma br_combine_map (f : nat -> nat) : forall (t s : list nat),
  (forall kv, In kv (combine t s) -> f (fst kv) = snd kv) ->
  length t = length s -> s = map f t.
Proof.
  induction t as [|x t IH]; intros [|y s] H HL; cbn [length] in HL; try discriminate.
  - reflexivity.
  - cbn [map]. f_equal.
    + symmetry. apply (H (x, y)). left. reflexivity.
    + apply IH; [|lia]. intros kv Hkv. apply H. right. exact Hkv.
Qed.

Lemma br_consistent2 ta tb out a b :
  consistent [ta; tb] out [a; b] = true ->
  let sz := elook (label_sizes [ta; tb] [a; b]) in
  tshape a = map sz ta /\ tshape b = map sz tb /\
  wf_tensor a = true /\ wf_tensor b = true /\
  NoDup out /\ incl out (ta ++ tb).
Proof.
  unfold consistent.
  cbn [combine map forallb fst snd length].
  intros H.
  apply andb_prop in H. destruct H as [H H0].
  apply andb_prop in H. destruct H as [H H1].
  apply andb_prop in H. destruct H as [H H2].
  apply andb_prop in H. destruct H as [_ H].
  apply andb_prop in H. destruct H as [Ha Hb].
  apply andb_prop in Ha. destruct Ha as [H5 H7].
  apply andb_prop in Hb. destruct Hb as [Hb _].
  apply andb_prop in Hb. destruct Hb as [H6 H4].
  cbn zeta.
  rewrite forallb_forall in H2, H1.
  apply Nat.eqb_eq in H5, H6.
  assert (E : label_sizes [ta; tb] [a; b] = combine ta (tshape a) ++ combine tb (tshape b)).
  { unfold label_sizes. cbn [combine map concat fst snd]. rewrite app_nil_r. reflexivity. }
  repeat split.
  - apply br_combine_map; [|exact H5].
    intros kv Hkv. specialize (H2 kv). rewrite E in H2 at 1.
    specialize (H2 (in_or_app _ _ _ (or_introl Hkv))).
    apply andb_prop in H2. destruct H2 as [H2 _]. apply Nat.eqb_eq in H2. exact H2.
  - apply br_combine_map; [|exact H6].
    intros kv Hkv. specialize (H2 kv). rewrite E in H2 at 1.
    specialize (H2 (in_or_app _ _ _ (or_intror Hkv))).
    apply andb_prop in H2. destruct H2 as [H2 _]. apply Nat.eqb_eq in H2. exact H2.
  - exact H7.
  - exact H4.
  - apply sf_nodupb_NoDup. exact H0.
  - intros x Hx. specialize (H1 x Hx). apply memb_In in H1.
    cbn [concat] in H1. rewrite app_nil_r in H1. exact H1.
Qed.

Theorem br_einsum2_consistent ta tb out a b :
  consistent [ta; tb] out [a; b] = true ->
  Forall (fun c => 4 <= c) ta -> Forall (fun c => 4 <= c) tb ->
  einsum2 (eq2 ta tb out) a b = Some (einsum_ref [ta; tb] out [a; b]).
Proof.
  intros HC Fa Fb.
  destruct (br_consistent2 _ _ _ _ _ HC) as (Hsa & Hsb & Hwa & Hwb & ND & Hi).
  apply (fin_einsum2_correct_gen (elook (label_sizes [ta; tb] [a; b]))); try assumption.
  apply Forall_forall. intros x Hx. apply Hi in Hx.
  rewrite Forall_forall in Fa, Fb.
  apply in_app_or in Hx. destruct Hx as [Hx|Hx]; [apply Fa|apply Fb]; exact Hx.
Qed.

Lemma br_consistent1 ta out a :
  consistent [ta] out [a] = true ->
  let sz := elook (label_sizes [ta] [a]) in
  tshape a = map sz ta /\ wf_tensor a = true /\ NoDup out /\ incl out ta.
Proof.
  unfold consistent.
  cbn [combine map forallb fst snd length].
  intros H.
  apply andb_prop in H. destruct H as [H H0].
  apply andb_prop in H. destruct H as [H H1].
  apply andb_prop in H. destruct H as [H H2].
  apply andb_prop in H. destruct H as [_ H].
  apply andb_prop in H. destruct H as [Ha _].
  apply andb_prop in Ha. destruct Ha as [H4 H5].
  cbn zeta.
  rewrite forallb_forall in H2, H1.
  apply Nat.eqb_eq in H4.
  assert (E : label_sizes [ta] [a] = combine ta (tshape a)).
  { unfold label_sizes. cbn [combine map concat fst snd]. rewrite app_nil_r. reflexivity. }
  repeat split.
  - apply br_combine_map; [|exact H4].
    intros kv Hkv. specialize (H2 kv). rewrite E in H2 at 1.
    specialize (H2 Hkv).
    apply andb_prop in H2. destruct H2 as [H2 _]. apply Nat.eqb_eq in H2. exact H2.
  - exact H5.
  - apply sf_nodupb_NoDup. exact H0.
  - intros x Hx. specialize (H1 x Hx). apply memb_In in H1.
    cbn [concat] in H1. rewrite app_nil_r in H1. exact H1.
Qed.

Theorem br_einsum1_consistent ta out a :
  consistent [ta] out [a] = true -> Forall (fun c => 4 <= c) ta ->
  einsum_single (eq1 ta out) a = Some (einsum_ref [ta] out [a]).
Proof.
  intros HC Fa.
  destruct (br_consistent1 _ _ _ HC) as (Hsa & Hwa & ND & Hi).
  apply (dg_einsum_single (elook (label_sizes [ta] [a]))); assumption.
Qed.


(* ================================================================== *)
(* PART 8 (ImplicitFacts): one-operand equations with implicit output and with blanks *)
(* Implicit-output and blank-insensitivity facts for the one-operand einsum. *)

(* ================================================================== *)
(* I1. implicit output: labels occurring exactly once, sorted          *)

Definition im_implicit_out (lhs : str) : str :=
  filter (fun s => Nat.eqb (count s lhs) 1) (sorted_set lhs).

Lemma im_in_sorted_set x s : In x (sorted_set s) <-> In x s.
Proof.
  unfold sorted_set. rewrite filter_In, memb_In, in_seq. split.
  - intros [_ H]; exact H.
  - intros H. split; [|exact H]. split; [lia|].
    cbn [plus]. apply Nat.lt_succ_r.
    pose proof (list_max_le s (list_max s)) as [HL _].
    specialize (HL (le_n _)). rewrite Forall_forall in HL. apply HL, H.
Qed.

Lemma im_implicit_out_in x lhs : In x (im_implicit_out lhs) <-> count x lhs = 1.
Proof.
  unfold im_implicit_out. rewrite filter_In, im_in_sorted_set, Nat.eqb_eq. split.
  - intros [_ H]; exact H.
  - intros H. split; [|exact H]. apply dg_count_in. lia.
Qed.

Lemma im_seq_ssorted n : forall a, StronglySorted lt (seq a n).
Proof.
  induction n as [|n IH]; intros a; cbn [seq]; constructor.
  - apply IH.
  - apply Forall_forall. intros x Hx. apply in_seq in Hx. lia.
Qed.

Lemma im_filter_ssorted (g : nat -> bool) l :
  StronglySorted lt l -> StronglySorted lt (filter g l).
Proof.
  induction 1 as [|a l Hs IH Hf]; cbn [filter]; [constructor|].
  destruct (g a); [|exact IH]. constructor; [exact IH|].
  apply Forall_forall. intros x Hx. apply filter_In in Hx. destruct Hx as [Hx _].
  rewrite Forall_forall in Hf. apply Hf, Hx.
Qed.

Lemma im_sorted_set_ssorted s : StronglySorted lt (sorted_set s).
Proof. unfold sorted_set. apply im_filter_ssorted, im_seq_ssorted. Qed.

Lemma im_implicit_out_ssorted lhs : StronglySorted lt (im_implicit_out lhs).
Proof. unfold im_implicit_out. apply im_filter_ssorted, im_sorted_set_ssorted. Qed.

Lemma im_implicit_out_sorted lhs : Sorted lt (im_implicit_out lhs).
Proof. apply StronglySorted_Sorted, im_implicit_out_ssorted. Qed.

Lemma im_ssorted_nodup l : StronglySorted lt l -> NoDup l.
Proof.
  induction 1 as [|a l Hs IH Hf]; constructor; [|exact IH].
  intros Hin. rewrite Forall_forall in Hf. specialize (Hf a Hin). lia.
Qed.

Lemma im_implicit_out_nodup lhs : NoDup (im_implicit_out lhs).
Proof. apply im_ssorted_nodup, im_implicit_out_ssorted. Qed.

Lemma im_implicit_out_incl lhs : incl (im_implicit_out lhs) lhs.
Proof.
  intros x Hx. apply im_implicit_out_in in Hx. apply dg_count_in. lia.
Qed.

Lemma im_implicit_out_labels lhs :
  Forall (fun c => 4 <= c) lhs -> Forall (fun c => 4 <= c) (im_implicit_out lhs).
Proof.
  intros Hl. apply Forall_forall. intros x Hx.
  rewrite Forall_forall in Hl. apply Hl, im_implicit_out_incl, Hx.
Qed.

Theorem im_sanitize_implicit lhs :
  Forall (fun c => 4 <= c) lhs ->
  sanitize lhs = Some (lhs, im_implicit_out lhs).
Proof.
  intros Hl. unfold sanitize.
  rewrite (ff_remove_all_id SPACE lhs)
    by (apply ff_labels_notin; [unfold SPACE; lia|exact Hl]).
  rewrite ff_has_ellipsis_false
    by (apply ff_labels_notin; [unfold DOT; lia|exact Hl]).
  assert (Em : memb ARROW lhs = false).
  { apply memb_false. apply ff_labels_notin; [unfold ARROW; lia|exact Hl]. }
  rewrite Em. cbn [negb].
  rewrite (ff_remove_all_id COMMA lhs)
    by (apply ff_labels_notin; [unfold COMMA; lia|exact Hl]).
  reflexivity.
Qed.

Lemma im_einsum_single_same_sanitize e1 e2 t :
  sanitize e1 = sanitize e2 -> einsum_single e1 t = einsum_single e2 t.
Proof.
  intros H. unfold einsum_single, parse_single. rewrite H. reflexivity.
Qed.

Theorem im_einsum_single_implicit (sz : nat -> nat) lhs t :
  tshape t = map sz lhs -> wf_tensor t = true ->
  Forall (fun c => 4 <= c) lhs ->
  einsum_single lhs t = Some (einsum_ref [lhs] (im_implicit_out lhs) [t]).
Proof.
  intros Hsh Hwf Hl.
  rewrite (im_einsum_single_same_sanitize lhs (eq1 lhs (im_implicit_out lhs)) t).
  - apply (dg_einsum_single sz); try assumption.
    + apply im_implicit_out_nodup.
    + apply im_implicit_out_incl.
  - rewrite im_sanitize_implicit by exact Hl.
    rewrite ff_sanitize_explicit;
      [reflexivity|exact Hl|apply im_implicit_out_labels, Hl].
Qed.

(* ================================================================== *)
(* I2. blanks are ignored                                              *)

Lemma im_filter_idem {A} (g : A -> bool) l : filter g (filter g l) = filter g l.
Proof.
  induction l as [|a l IH]; [reflexivity|]. cbn [filter].
  destruct (g a) eqn:E; [|exact IH]. cbn [filter]. rewrite E, IH. reflexivity.
Qed.

Lemma im_remove_all_idem c s : remove_all c (remove_all c s) = remove_all c s.
Proof. unfold remove_all. apply im_filter_idem. Qed.

Theorem im_sanitize_blanks e : sanitize e = sanitize (remove_all SPACE e).
Proof. unfold sanitize. rewrite im_remove_all_idem. reflexivity. Qed.

Theorem im_einsum_single_blanks e t :
  einsum_single e t = einsum_single (remove_all SPACE e) t.
Proof. apply im_einsum_single_same_sanitize, im_sanitize_blanks. Qed.

Theorem im_einsum_single_blanks_explicit (sz : nat -> nat) e lhs out t :
  remove_all SPACE e = eq1 lhs out ->
  tshape t = map sz lhs -> wf_tensor t = true ->
  Forall (fun c => 4 <= c) lhs -> NoDup out -> incl out lhs ->
  einsum_single e t = Some (einsum_ref [lhs] out [t]).
Proof.
  intros He Hsh Hwf Hl Hnd Hi.
  rewrite im_einsum_single_blanks, He.
  apply (dg_einsum_single sz); assumption.
Qed.

Theorem im_einsum_single_blanks_implicit (sz : nat -> nat) e lhs t :
  remove_all SPACE e = lhs ->
  tshape t = map sz lhs -> wf_tensor t = true ->
  Forall (fun c => 4 <= c) lhs ->
  einsum_single e t = Some (einsum_ref [lhs] (im_implicit_out lhs) [t]).
Proof.
  intros He Hsh Hwf Hl.
  rewrite im_einsum_single_blanks, He.
  apply (im_einsum_single_implicit sz); assumption.
Qed.



(* ================================================================== *)
(* PART 9: the two-operand path sanitises its equation (implicit output, blanks);
   tensordot normalises negative axes  (/repo 23dce6e, eebb3ef) *)

Lemma nb_parse_bmm_same_sanitize e1 e2 sa sb :
  sanitize e1 = sanitize e2 -> parse_bmm e1 sa sb = parse_bmm e2 sa sb.
Proof. intros H. unfold parse_bmm. rewrite H. reflexivity. Qed.

Theorem nb_einsum2_blanks e a b : einsum2 e a b = einsum2 (remove_all SPACE e) a b.
Proof.
  unfold einsum2. rewrite (nb_parse_bmm_same_sanitize e (remove_all SPACE e)); [reflexivity|].
  apply im_sanitize_blanks.
Qed.

Definition nb_lhs (ta tb : str) : str := ta ++ [COMMA] ++ tb.

Lemma nb_remove_comma ta tb :
  Forall (fun c => 4 <= c) ta -> Forall (fun c => 4 <= c) tb ->
  remove_all COMMA (nb_lhs ta tb) = ta ++ tb.
Proof.
  intros Ha Hb. unfold nb_lhs, remove_all. rewrite !filter_app. cbn [filter].
  change (filter (fun x => negb (Nat.eqb x COMMA)) ta) with (remove_all COMMA ta).
  change (filter (fun x => negb (Nat.eqb x COMMA)) tb) with (remove_all COMMA tb).
  rewrite !ff_remove_all_id by (apply ff_labels_notin; [unfold COMMA; lia|assumption]).
  rewrite Nat.eqb_refl. reflexivity.
Qed.

Lemma nb_lhs_codes ta tb :
  Forall (fun c => 4 <= c) ta -> Forall (fun c => 4 <= c) tb ->
  Forall (fun c => 4 <= c \/ c = COMMA) (nb_lhs ta tb).
Proof.
  intros Ha Hb. unfold nb_lhs. apply Forall_app. split.
  - eapply Forall_impl; [|exact Ha]. cbv beta. intros; left; assumption.
  - constructor; [right; reflexivity|].
    eapply Forall_impl; [|exact Hb]. cbv beta. intros; left; assumption.
Qed.

Theorem nb_sanitize_implicit2 ta tb :
  Forall (fun c => 4 <= c) ta -> Forall (fun c => 4 <= c) tb ->
  sanitize (nb_lhs ta tb) = Some (nb_lhs ta tb, im_implicit_out (ta ++ tb)).
Proof.
  intros Ha Hb. pose proof (nb_lhs_codes ta tb Ha Hb) as HA. rewrite Forall_forall in HA.
  unfold sanitize.
  rewrite ff_remove_all_id.
  2:{ intros Hin. destruct (HA _ Hin) as [H|H]; unfold SPACE, COMMA in *; lia. }
  rewrite ff_has_ellipsis_false.
  2:{ intros Hin. destruct (HA _ Hin) as [H|H]; unfold DOT, COMMA in *; lia. }
  assert (Em : memb ARROW (nb_lhs ta tb) = false).
  { apply memb_false. intros Hin. destruct (HA _ Hin) as [H|H]; unfold ARROW, COMMA in *; lia. }
  rewrite Em. cbn [negb]. rewrite nb_remove_comma by assumption. reflexivity.
Qed.

Lemma nb_eq2_eq1 ta tb out : eq2 ta tb out = eq1 (nb_lhs ta tb) out.
Proof. unfold eq1, eq2, nb_lhs. rewrite <- !app_assoc. reflexivity. Qed.

(* 'ab,bc' means 'ab,bc->ac': the implicit form is the explicit one with numpy's implicit output *)
Theorem nb_einsum2_implicit_is_explicit ta tb a b :
  Forall (fun c => 4 <= c) ta -> Forall (fun c => 4 <= c) tb ->
  einsum2 (nb_lhs ta tb) a b = einsum2 (eq2 ta tb (im_implicit_out (ta ++ tb))) a b.
Proof.
  intros Ha Hb. unfold einsum2.
  rewrite (nb_parse_bmm_same_sanitize (nb_lhs ta tb) (eq2 ta tb (im_implicit_out (ta ++ tb)))); [reflexivity|].
  rewrite nb_sanitize_implicit2 by assumption.
  rewrite nb_eq2_eq1, ff_sanitize_explicit_gen; [reflexivity| |].
  - apply nb_lhs_codes; assumption.
  - apply im_implicit_out_labels. apply Forall_app. split; assumption.
Qed.

Theorem nb_einsum2_implicit (sz : nat -> nat) ta tb a b :
  tshape a = map sz ta -> tshape b = map sz tb -> wf_tensor a = true -> wf_tensor b = true ->
  Forall (fun c => 4 <= c) ta -> Forall (fun c => 4 <= c) tb ->
  einsum2 (nb_lhs ta tb) a b = Some (einsum_ref [ta; tb] (im_implicit_out (ta ++ tb)) [a; b]).
Proof.
  intros Hsa Hsb Hwa Hwb Ha Hb.
  rewrite nb_einsum2_implicit_is_explicit by assumption.
  apply (fin_einsum2_correct_gen sz); try assumption.
  - apply im_implicit_out_nodup.
  - apply im_implicit_out_incl.
  - apply im_implicit_out_labels. apply Forall_app. split; assumption.
Qed.

(* blanks anywhere in an explicit two-operand equation *)
Theorem nb_einsum2_blanks_explicit (sz : nat -> nat) e ta tb out a b :
  remove_all SPACE e = eq2 ta tb out ->
  tshape a = map sz ta -> tshape b = map sz tb -> wf_tensor a = true -> wf_tensor b = true ->
  NoDup out -> incl out (ta ++ tb) ->
  Forall (fun c => 4 <= c) ta -> Forall (fun c => 4 <= c) tb -> Forall (fun c => 4 <= c) out ->
  einsum2 e a b = Some (einsum_ref [ta; tb] out [a; b]).
Proof.
  intros He Hsa Hsb Hwa Hwb Hnd Hi Ha Hb Ho.
  rewrite nb_einsum2_blanks, He. apply (fin_einsum2_correct_gen sz); assumption.
Qed.

(* ------------------------------------------------------------------ *)
(* negative axes *)
Definition nb_axes (nd : nat) (l : list Z) : list nat := map (fun z => Z.to_nat (norm_axis nd z)) l.
Definition nb_in_range (nd : nat) (l : list Z) : Prop :=
  Forall (fun z => (- Z.of_nat nd <= z < Z.of_nat nd)%Z) l.

Lemma nb_norm_axes nd l : nb_in_range nd l -> map (norm_axis nd) l = zs (nb_axes nd l).
Proof.
  intros H. unfold zs, nb_axes. rewrite map_map. apply map_ext_in. intros z Hz.
  unfold nb_in_range in H. rewrite Forall_forall in H. specialize (H z Hz).
  unfold norm_axis. destruct (z <? 0)%Z eqn:E.
  - apply Z.ltb_lt in E. rewrite Z2Nat.id by lia. reflexivity.
  - apply Z.ltb_ge in E. rewrite Z2Nat.id by lia. reflexivity.
Qed.

Lemma nb_axes_lt nd l : nb_in_range nd l -> Forall (fun j => j < nd) (nb_axes nd l).
Proof.
  intros H. unfold nb_axes. apply Forall_forall. intros j Hj. apply in_map_iff in Hj.
  destruct Hj as (z & <- & Hz). unfold nb_in_range in H. rewrite Forall_forall in H. specialize (H z Hz).
  unfold norm_axis. destruct (z <? 0)%Z eqn:E.
  - apply Z.ltb_lt in E. lia.
  - apply Z.ltb_ge in E. lia.
Qed.

Theorem nb_tensordot_normalises xa xb a b :
  nb_in_range (length (tshape a)) xa -> nb_in_range (length (tshape b)) xb ->
  tensordot (AxPair xa xb) a b =
  tensordot (AxPair (zs (nb_axes (length (tshape a)) xa)) (zs (nb_axes (length (tshape b)) xb))) a b.
Proof.
  intros Ha Hb. unfold tensordot, parse_tdot.
  rewrite td_tdot_equation_pair. unfold tdot_equation.
  rewrite (nb_norm_axes _ _ Ha), (nb_norm_axes _ _ Hb). reflexivity.
Qed.

(* every axes pair with entries in [-ndim, ndim): after normalisation it is the definition *)
Theorem nb_tensordot_signed_correct xa xb a b :
  let ra := length (tshape a) in let rb := length (tshape b) in
  nb_in_range ra xa -> nb_in_range rb xb ->
  NoDup (nb_axes ra xa) -> NoDup (nb_axes rb xb) -> length xa = length xb ->
  dims_at (tshape a) (nb_axes ra xa) = dims_at (tshape b) (nb_axes rb xb) ->
  wf_tensor a = true -> wf_tensor b = true ->
  tensordot (AxPair xa xb) a b = Some (tensordot_ref (nb_axes ra xa) (nb_axes rb xb) a b).
Proof.
  intros ra rb Ha Hb Na Nb HL Hd Wa Wb.
  rewrite nb_tensordot_normalises by assumption.
  apply td_tensordot_correct_dims; try assumption.
  - apply nb_axes_lt; exact Ha.
  - apply nb_axes_lt; exact Hb.
  - unfold nb_axes. rewrite !map_length. exact HL.
Qed.

(* the former counterexample now agrees with the definition *)
Example nb_ex_negative_axis :
  let a : tensor := ([2], [1%Z; 2%Z]) in let b : tensor := ([2], [3%Z; 4%Z]) in
  tensordot (AxPair [0%Z] [(-1)%Z]) a b = Some (tensordot_ref [0] [0] a b) /\
  nb_axes 1 [(-1)%Z] = [0] /\
  tensordot (AxPair [0%Z] [(-1)%Z]) a b = Some ([], [11%Z]).
Proof. vm_compute. repeat split. Qed.

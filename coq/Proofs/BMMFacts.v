(* BMMFacts.v -- lemmas about Model/BMM.v and Model/ArrayOps.v *)
From Coq Require Import Lia ZArith List Bool.
From Ctg Require Import Base BMM ArrayOps.

Lemma nprod_cons x l : nprod (x :: l) = x * nprod l.
Proof. reflexivity. Qed.
Lemma nprod_app l1 l2 : nprod (l1 ++ l2) = nprod l1 * nprod l2.
Proof.
  induction l1 as [|x l1 IH]; [cbn [app]; change (nprod []) with 1; lia|].
  cbn [app]. rewrite !nprod_cons, IH. lia.
Qed.

(* PathsOrdered.v -- C10: the model of ContractionTree._traverse_ordered (queue / scores /
   seen, bisect on the prefix scores[:i]) returns, for an ARBITRARY score function, an order
   of all internal nodes in which every child precedes its parent. *)
From Coq Require Import Lia Permutation.
From Ctg Require Import Base Net Paths BaseFacts PathsFacts PathsRoundtrip.
From Ctg Require ExecOrderFacts.
Module E := Ctg.ExecOrderFacts.

(* bisect never returns more than the length of the list it searched -- no sortedness needed *)
Lemma bisect_right_go_le a x : forall fuel lo hi, lo <= hi -> bisect_right_go fuel a x lo hi <= hi.
Proof.
  induction fuel as [|f IH]; intros lo hi H; cbn [bisect_right_go]; [exact H|].
  destruct (Nat.ltb_spec lo hi) as [Hlt|Hge]; [|exact H].
  pose proof (mid_bounds lo hi Hlt) as Hm.
  destruct (Nat.ltb x (nth ((lo + hi) / 2) a 0)).
  - etransitivity; [apply IH; lia|lia].
  - apply IH. lia.
Qed.
Lemma bisect_right_le a x : bisect_right a x <= length a.
Proof. unfold bisect_right. apply bisect_right_go_le. lia. Qed.

(* list.insert *)
Lemma insert_at_perm {A} k (x : A) : forall l, Permutation (insert_at k x l) (x :: l).
Proof.
  induction k as [|k IH]; intros [|y l]; cbn [insert_at]; try reflexivity.
  rewrite IH. apply perm_swap.
Qed.
Lemma in_insert_at {A} k (x y : A) l : In y (insert_at k x l) <-> y = x \/ In y l.
Proof.
  split; intros H.
  - apply (Permutation_in _ (insert_at_perm k x l)) in H. destruct H as [<-|H]; auto.
  - apply (Permutation_in _ (Permutation_sym (insert_at_perm k x l))). destruct H as [->|H]; [left|right]; auto.
Qed.
Lemma length_insert_at {A} k (x : A) l : length (insert_at k x l) = S (length l).
Proof. apply (Permutation_length (insert_at_perm k x l)). Qed.
Lemma nth_insert_at_after {A} k (x d : A) : forall l i, k <= i -> nth (S i) (insert_at k x l) d = nth i l d.
Proof.
  induction k as [|k IH]; intros l i Hk; [destruct l; reflexivity|].
  destruct l as [|y l]; cbn [insert_at].
  - destruct i as [|i]; [lia|]. cbn [nth]. destruct i; reflexivity.
  - destruct i as [|i]; [lia|]. cbn [nth]. apply IH. lia.
Qed.
Lemma skipn_insert_at_after {A} k (x : A) : forall l i, k <= i -> skipn (S i) (insert_at k x l) = skipn i l.
Proof.
  induction k as [|k IH]; intros l i Hk; [destruct l; reflexivity|].
  destruct l as [|y l]; cbn [insert_at].
  - destruct i as [|i]; [lia|]. cbn [skipn]. destruct i; reflexivity.
  - destruct i as [|i]; [lia|]. cbn [skipn]. apply IH. lia.
Qed.

Lemma nth_not_in_firstn {A} (l : list A) i ci d : NoDup l -> i < length l -> ci <= i -> ~ In (nth i l d) (firstn ci l).
Proof.
  intros Hnd Hi Hci Hin. rewrite <- (firstn_skipn ci l) in Hnd.
  assert (Hlen : length (firstn ci l) = ci) by (apply firstn_length_le; lia).
  assert (Hs : In (nth i l d) (skipn ci l)).
  { rewrite <- (firstn_skipn ci l) at 1. rewrite app_nth2 by lia. rewrite Hlen. apply nth_In. rewrite skipn_length. lia. }
  revert Hnd Hin Hs. generalize (firstn ci l) (skipn ci l) (nth i l d). clear.
  intros a b x Hnd Ha Hb. induction a as [|y a IH]; [destruct Ha|]. cbn [app] in Hnd. inversion Hnd as [|? ? Hn Hnd']; subst.
  destruct Ha as [->|Ha]; [apply Hn, in_or_app; right; exact Hb|apply IH; assumption].
Qed.

Lemma skipn_nth_cons {A} (l : list A) i d : i < length l -> skipn i l = nth i l d :: skipn (S i) l.
Proof.
  revert i. induction l as [|x l IH]; intros i Hi; cbn [length] in Hi; [lia|].
  destruct i as [|i]; [reflexivity|]. cbn [skipn nth]. apply IH. lia.
Qed.

Lemma is_internal_node c : is_internal c = true <-> E.is_node c.
Proof. destruct c; cbn; split; intros H; try discriminate; try destruct H; auto. Qed.

(* no element is followed by one of its children *)
Fixpoint cna (l : list tree) : Prop :=
  match l with [] => True | x :: l' => (forall q, E.child q x -> ~ In q l') /\ cna l' end.

Lemma cna_insert c p : forall ci l,
  cna l -> (forall q, E.child q c -> ~ In q l) -> (forall x, In x l -> E.child c x -> x = p) ->
  ~ In p (firstn ci l) -> cna (insert_at ci c l).
Proof.
  induction ci as [|ci IH]; intros l Hc Hch Hpar Hp.
  - destruct l; cbn [insert_at cna]; auto.
  - destruct l as [|x l]; cbn [insert_at].
    + cbn [cna]. split; [intros q _ []|exact I].
    + cbn [cna] in *. destruct Hc as [Hx Hc]. cbn [firstn] in Hp. split.
      * intros q Hq Hin. apply in_insert_at in Hin. destruct Hin as [->|Hin]; [|apply (Hx q Hq Hin)].
        apply Hp. left. apply Hpar; [left; reflexivity|exact Hq].
      * apply IH; [exact Hc| | |].
        -- intros q Hq Hin. apply (Hch q Hq). right; exact Hin.
        -- intros y Hy. apply Hpar. right; exact Hy.
        -- intros H. apply Hp. right; exact H.
Qed.

Lemma cna_split pre p suf : cna (pre ++ p :: suf) -> forall q, E.child q p -> ~ In q suf.
Proof.
  induction pre as [|x pre IH]; cbn [app cna]; intros [H1 H2] q Hq; [apply H1, Hq|apply IH; assumption].
Qed.

Section TO.
Variable order : tree -> nat.
Variable t : tree.
Hypothesis ND : NoDup (leaves t).
Let d := Leaf 0.

(* the loop invariant; pend = the node currently being processed (its children are being
   inserted, it is not yet in seen) *)
Record Jg (pend : list tree) (queue : list tree) (scores : list nat) (seen : list tree) : Prop := {
  j_nd : NoDup queue;
  j_in : forall p, In p queue -> In p (post_sub t);
  j_len : length scores = length queue;
  j_cna : cna queue;
  j_seen : forall p, In p seen -> In p queue /\ forall q, E.child q p -> E.is_node q -> In q queue;
  j_prov : forall q, In q queue -> q = t \/ exists p, (In p seen \/ In p pend) /\ E.child q p;
  j_snd : NoDup seen
}.

Lemma in_post_subs p : In p (post_sub t) -> In p (E.subs t).
Proof. intros H. apply E.post_sub_iff in H. apply H. Qed.

Lemma child_not_root q p : In p (post_sub t) -> E.child q p -> q <> t.
Proof.
  intros Hp Hc ->. pose proof (E.child_nleaves _ _ Hc). pose proof (E.subs_nleaves t p (in_post_subs p Hp)). lia.
Qed.

(* facts about the children of an unseen queue element, from the invariant with pend = [] *)
Lemma fresh_child queue scores seen p c : Jg [] queue scores seen -> In p queue -> ~ In p seen ->
  E.child c p -> ~ In c queue /\ (forall q, E.child q c -> ~ In q queue).
Proof.
  intros J Hp Hns Hc. pose proof (j_in _ _ _ _ J p Hp) as Hpt.
  assert (Hcq : ~ In c queue).
  { intros Hin. destruct (j_prov _ _ _ _ J c Hin) as [E0|(p' & [Hp'|[]] & Hc')]; [exact (child_not_root c p Hpt Hc E0)|].
    destruct (j_seen _ _ _ _ J p' Hp') as [Hp'q _].
    rewrite (E.unique_parent t ND c p p' (in_post_subs p Hpt) (in_post_subs p' (j_in _ _ _ _ J p' Hp'q)) Hc Hc') in Hns. contradiction. }
  split; [exact Hcq|]. intros q Hq Hin.
  destruct (j_prov _ _ _ _ J q Hin) as [E0|(p' & [Hp'|[]] & Hc')].
  - assert (Hcs : In c (E.subs t)) by (eapply E.child_in_subs; [apply in_post_subs, Hpt|exact Hc]).
    subst q. pose proof (E.child_nleaves _ _ Hq). pose proof (E.subs_nleaves t c Hcs). lia.
  - destruct (j_seen _ _ _ _ J p' Hp') as [Hp'q _].
    assert (Hcs : In c (E.subs t)) by (eapply E.child_in_subs; [apply in_post_subs, Hpt|exact Hc]).
    rewrite <- (E.unique_parent t ND q c p' Hcs (in_post_subs p' (j_in _ _ _ _ J p' Hp'q)) Hq Hc') in Hp'q. contradiction.
Qed.

(* one visit_child call *)
Lemma visit_ok pend queue scores seen i p c :
  Jg pend queue scores seen -> nth i queue d = p -> i < length queue -> E.child c p -> In p pend ->
  (E.is_node c -> In c (post_sub t) /\ ~ In c queue /\ forall q, E.child q c -> ~ In q queue) ->
  exists i' q' s', visit_child order (i, queue, scores) c = (i', q', s') /\
    Jg pend q' s' seen /\ nth i' q' d = p /\ i' < length q' /\ (E.is_node c -> In c q') /\
    (forall x, In x q' <-> In x queue \/ (E.is_node c /\ x = c)) /\ skipn (S i') q' = skipn (S i) queue.
Proof.
  intros J Hnth Hi Hc Hpend Hfresh. unfold visit_child.
  destruct (is_internal c) eqn:Eint.
  - apply is_internal_node in Eint. destruct (Hfresh Eint) as (Hct & Hcq & Hcc).
    set (ci := bisect_right (firstn i scores) (order c)).
    assert (Hci : ci <= i).
    { unfold ci. etransitivity; [apply bisect_right_le|]. rewrite firstn_length. lia. }
    exists (S i), (insert_at ci c queue), (insert_at ci (order c) scores). split; [reflexivity|].
    assert (Hpq : In p queue) by (rewrite <- Hnth; apply nth_In, Hi).
    split; [|split; [|split; [|split; [|split]]]].
    + constructor.
      * eapply Permutation_NoDup; [symmetry; apply insert_at_perm|]. constructor; [exact Hcq|apply (j_nd _ _ _ _ J)].
      * intros x Hx. apply in_insert_at in Hx. destruct Hx as [->|Hx]; [exact Hct|apply (j_in _ _ _ _ J), Hx].
      * rewrite !length_insert_at, (j_len _ _ _ _ J). reflexivity.
      * apply (cna_insert c p); [apply (j_cna _ _ _ _ J)|exact Hcc| |].
        -- intros x Hx Hcx. symmetry.
           apply (E.unique_parent t ND c p x); [apply in_post_subs, (j_in _ _ _ _ J), Hpq|apply in_post_subs, (j_in _ _ _ _ J), Hx|exact Hc|exact Hcx].
        -- rewrite <- Hnth. apply nth_not_in_firstn; [apply (j_nd _ _ _ _ J)|exact Hi|exact Hci].
      * intros x Hx. destruct (j_seen _ _ _ _ J x Hx) as [A B]. split; [apply in_insert_at; right; exact A|].
        intros q Hq Hn. apply in_insert_at. right. apply B; assumption.
      * intros q Hq. apply in_insert_at in Hq. destruct Hq as [->|Hq]; [|apply (j_prov _ _ _ _ J), Hq].
        right. exists p. split; [right; exact Hpend|exact Hc].
      * apply (j_snd _ _ _ _ J).
    + rewrite nth_insert_at_after by exact Hci. exact Hnth.
    + rewrite length_insert_at. lia.
    + intros _. apply in_insert_at. left; reflexivity.
    + intros x. rewrite in_insert_at. split; [intros [->|H]; auto|intros [H|[_ ->]]; auto].
    + apply skipn_insert_at_after. lia.
  - exists i, queue, scores. split; [reflexivity|]. split; [exact J|]. split; [exact Hnth|]. split; [exact Hi|].
    assert (Hn : ~ E.is_node c) by (intros H; apply is_internal_node in H; congruence).
    split; [intros H; contradiction|]. split; [|reflexivity]. intros x. split; [auto|intros [H|[H _]]; [exact H|contradiction]].
Qed.

Lemma Jg_weaken pend queue scores seen : Jg [] queue scores seen -> Jg pend queue scores seen.
Proof.
  intros J. constructor; try apply J.
  intros q Hq. destruct (j_prov _ _ _ _ J q Hq) as [H|(p & [H|[]] & Hc)]; [left; exact H|right; exists p; auto].
Qed.

Lemma child_node_in_post_sub p c : In p (post_sub t) -> E.child c p -> E.is_node c -> In c (post_sub t).
Proof.
  intros Hp Hc Hn. apply E.post_sub_iff. split; [|exact Hn]. eapply E.child_in_subs; [apply in_post_subs, Hp|exact Hc].
Qed.

(* processing one unseen queue element: both children visited, then the node joins seen *)
Lemma process_ok queue scores seen i l r :
  Jg [] queue scores seen -> i < length queue -> nth i queue d = Node l r -> ~ In (Node l r) seen ->
  exists i' q' s', fold_left (visit_child order) [l; r] (i, queue, scores) = (i', q', s') /\
    Jg [] q' s' (Node l r :: seen) /\ i' < length q' /\ (forall x, In x queue -> In x q') /\
    skipn (S i') q' = skipn (S i) queue.
Proof.
  intros J Hi Hnth Hns. set (p := Node l r) in *.
  assert (Hpq : In p queue) by (rewrite <- Hnth; apply nth_In, Hi).
  pose proof (j_in _ _ _ _ J p Hpq) as Hpt.
  assert (Hcl : E.child l p) by (left; reflexivity). assert (Hcr : E.child r p) by (right; reflexivity).
  destruct (fresh_child queue scores seen p l J Hpq Hns Hcl) as [Hlq Hlc].
  destruct (fresh_child queue scores seen p r J Hpq Hns Hcr) as [Hrq Hrc].
  assert (Hlr : l <> r).
  { intros E0. pose proof (subs_NoDup_leaves t ND p (in_post_subs p Hpt)) as Hn. cbn [leaves] in Hn.
    apply (E.subs_disjoint l r l r Hn (E.subs_self l) (E.subs_self r)). rewrite E0. reflexivity. }
  destruct (visit_ok [p] queue scores seen i p l (Jg_weaken [p] _ _ _ J) Hnth Hi Hcl (or_introl eq_refl))
    as (i1 & q1 & s1 & E1 & J1 & Hn1 & Hi1 & Hl1 & Hm1 & Hs1).
  { intros Hn. split; [apply (child_node_in_post_sub p l Hpt Hcl Hn)|split; assumption]. }
  destruct (visit_ok [p] q1 s1 seen i1 p r J1 Hn1 Hi1 Hcr (or_introl eq_refl))
    as (i2 & q2 & s2 & E2 & J2 & Hn2 & Hi2 & Hl2 & Hm2 & Hs2).
  { intros Hn. split; [apply (child_node_in_post_sub p r Hpt Hcr Hn)|]. split.
    - intros H. apply Hm1 in H. destruct H as [H|[_ H]]; [contradiction|congruence].
    - intros q Hq H. apply Hm1 in H. destruct H as [H|[_ H]]; [apply (Hrc q Hq H)|]. subst q.
      (* l would be a child of r and of p *)
      assert (Hrs : In r (E.subs t)) by (eapply E.child_in_subs; [apply in_post_subs, Hpt|exact Hcr]).
      pose proof (E.unique_parent t ND l p r (in_post_subs p Hpt) Hrs Hcl Hq) as E0.
      pose proof (E.child_nleaves _ _ Hcr) as Hlt. rewrite <- E0 in Hlt. lia. }
  exists i2, q2, s2. split; [cbn [fold_left]; rewrite E1, E2; reflexivity|].
  split; [|split; [exact Hi2|split]].
  - constructor; try apply J2.
    + intros x [<-|Hx].
      * split; [rewrite <- Hn2; apply nth_In, Hi2|].
        intros q [-> | ->] Hn; [apply Hm2; left; apply Hl1, Hn|apply Hl2, Hn].
      * apply (j_seen _ _ _ _ J2 x Hx).
    + intros q Hq. destruct (j_prov _ _ _ _ J2 q Hq) as [H|(p' & [H|[<-|[]]] & Hc)]; [left; exact H| |].
      * right. exists p'. split; [left; right; exact H|exact Hc].
      * right. exists p. split; [left; left; reflexivity|exact Hc].
    + constructor; [exact Hns|apply (j_snd _ _ _ _ J)].
  - intros x Hx. apply Hm2. left. apply Hm1. left. exact Hx.
  - rewrite Hs2, Hs1. reflexivity.
Qed.

(* one pass of the inner while loop, started at position i with enough fuel: the invariant is
   kept, seen only grows, and every element from position i on has been seen at the end *)
Lemma inner_ok : forall fuel i queue scores seen, Jg [] queue scores seen -> length queue - i < fuel ->
  exists q' s' sn', inner_loop order fuel i queue scores seen = (q', s', sn') /\ Jg [] q' s' sn' /\
    (forall x, In x seen -> In x sn') /\ (forall x, In x (skipn i queue) -> In x sn') /\
    (forall x, In x queue -> In x q').
Proof.
  induction fuel as [|f IH]; intros i queue scores seen J Hf; [lia|].
  cbn [inner_loop]. destruct (Nat.ltb_spec i (length queue)) as [Hi|Hi].
  - fold d. destruct (tmemb (nth i queue d) seen) eqn:Em.
    + apply tmemb_In in Em.
      destruct (IH (S i) queue scores seen J ltac:(lia)) as (q' & s' & sn' & E0 & J' & H1 & H2 & H3).
      exists q', s', sn'. split; [exact E0|]. split; [exact J'|]. split; [exact H1|]. split; [|exact H3].
      intros x Hx. rewrite (skipn_nth_cons queue i d Hi) in Hx. destruct Hx as [<-|Hx]; [apply H1, Em|apply H2, Hx].
    + assert (Hns : ~ In (nth i queue d) seen) by (intros H; apply tmemb_In in H; congruence).
      destruct (nth i queue d) as [k|l r] eqn:En.
      * exfalso. assert (H : In (Leaf k) queue) by (rewrite <- En; apply nth_In, Hi).
        apply (j_in _ _ _ _ J) in H. apply E.post_sub_iff in H. destruct H as [_ []].
      * destruct (process_ok queue scores seen i l r J Hi En Hns) as (i' & q1 & s1 & E1 & J1 & Hi' & Hm & Hs).
        rewrite E1.
        assert (Hmeasure : length q1 - S i' = length queue - S i).
        { pose proof (f_equal (@length tree) Hs) as HL. rewrite !skipn_length in HL. exact HL. }
        destruct (IH (S i') q1 s1 (Node l r :: seen) J1 ltac:(lia)) as (q' & s' & sn' & E0 & J' & H1 & H2 & H3).
        exists q', s', sn'. split; [exact E0|]. split; [exact J'|].
        split; [intros x Hx; apply H1; right; exact Hx|]. split; [|intros x Hx; apply H3, Hm, Hx].
        intros x Hx. rewrite (skipn_nth_cons queue i d Hi), En in Hx. destruct Hx as [<-|Hx]; [apply H1; left; reflexivity|].
        apply H2. rewrite Hs. exact Hx.
  - exists queue, scores, seen. split; [reflexivity|]. split; [exact J|]. split; [auto|]. split; [|auto].
    intros x Hx. rewrite skipn_all2 in Hx by lia. destruct Hx.
Qed.

Let n := count_internal t.

Lemma seen_le queue scores seen : Jg [] queue scores seen -> length seen <= length queue /\ length queue <= n.
Proof.
  intros J. split.
  - apply NoDup_incl_length; [apply (j_snd _ _ _ _ J)|]. intros x Hx. exact (proj1 (j_seen _ _ _ _ J x Hx)).
  - unfold n. rewrite <- post_sub_length. apply NoDup_incl_length; [apply (j_nd _ _ _ _ J)|]. intros x Hx. apply (j_in _ _ _ _ J x Hx).
Qed.

(* if every queued node has been seen, the queue already holds every internal node *)
Lemma closure queue scores seen : Jg [] queue scores seen -> In t queue ->
  (forall x, In x queue -> In x seen) -> forall u, In u queue -> forall p, In p (post_sub u) -> In p queue.
Proof.
  intros J Ht Hall. induction u as [k|l IHl r IHr]; intros Hu p Hp; [destruct Hp|].
  cbn [post_sub] in Hp. destruct (j_seen _ _ _ _ J _ (Hall _ Hu)) as [_ Hch].
  apply in_app_or in Hp. destruct Hp as [Hp|Hp]; [|apply in_app_or in Hp; destruct Hp as [Hp|[<-|[]]]; [|exact Hu]].
  - destruct l as [k|a b]; [destruct Hp|]. apply IHl; [|exact Hp]. apply Hch; [left; reflexivity|exact I].
  - destruct r as [k|a b]; [destruct Hp|]. apply IHr; [|exact Hp]. apply Hch; [right; reflexivity|exact I].
Qed.

Lemma outer_ok : forall fuel queue scores seen, Jg [] queue scores seen -> In t queue -> n - length seen < fuel ->
  exists s sn, Jg [] (outer_loop order fuel n queue scores seen) s sn /\ length sn = n.
Proof.
  induction fuel as [|f IH]; intros queue scores seen J Ht Hf; [lia|].
  cbn [outer_loop]. destruct (Nat.eqb_spec (length seen) n) as [E0|Hne]; [exists scores, seen; auto|].
  destruct (seen_le _ _ _ J) as [Hsq Hqn].
  destruct (inner_ok (2 * n + 2) 0 queue scores seen J ltac:(lia)) as (q' & s' & sn' & E1 & J' & H1 & H2 & H3).
  rewrite E1. cbn [skipn] in H2.
  (* some queued node was unseen, so seen grew strictly *)
  assert (Hex : exists x, In x queue /\ ~ In x seen).
  { destruct (existsb (fun x => negb (tmemb x seen)) queue) eqn:Ex.
    - apply existsb_exists in Ex. destruct Ex as (x & Hx & Hb). exists x. split; [exact Hx|].
      intros H. apply tmemb_In in H. rewrite H in Hb. discriminate.
    - exfalso. assert (Hall : forall x, In x queue -> In x seen).
      { intros x Hx. apply tmemb_In. destruct (tmemb x seen) eqn:Eb; [reflexivity|].
        assert (existsb (fun x => negb (tmemb x seen)) queue = true) by (apply existsb_exists; exists x; rewrite Eb; auto). congruence. }
      assert (Hfull : length (post_sub t) <= length queue).
      { apply NoDup_incl_length; [apply E.NoDup_post_sub, ND|]. intros p Hp. apply (closure queue scores seen J Ht Hall t Ht p Hp). }
      rewrite post_sub_length in Hfull. fold n in Hfull.
      assert (length queue <= length seen) by (apply NoDup_incl_length; [apply (j_nd _ _ _ _ J)|exact Hall]). lia. }
  destruct Hex as (x & Hxq & Hxs).
  assert (Hgrow : S (length seen) <= length sn').
  { change (S (length seen)) with (length (x :: seen)). apply NoDup_incl_length.
    - constructor; [exact Hxs|apply (j_snd _ _ _ _ J)].
    - intros y [<-|Hy]; [apply H2, Hxq|apply H1, Hy]. }
  apply (IH q' s' sn' J' (H3 t Ht)). lia.
Qed.

(* traverse_ordered_children_first, with coverage: for every score function the result lists
   every internal node exactly once and every internal child before its parent *)
Lemma traverse_ordered_node l r : t = Node l r -> ok_order t (traverse_ordered order t) /\
  Permutation (traverse_ordered order t) (post_sub t).
Proof.
  intros Et.
  - assert (Htr : traverse_ordered order t = outer_loop order (S n) n [t] [order t] []) by (unfold n; rewrite Et; reflexivity).
    rewrite Htr.
    assert (Htp : In t (post_sub t)) by (rewrite Et; cbn [post_sub]; rewrite !in_app_iff; right; right; left; rewrite <- Et; reflexivity).
    assert (J0 : Jg [] [t] [order t] []).
    { constructor.
      - repeat constructor. intros [].
      - intros p [<-|[]]. exact Htp.
      - reflexivity.
      - cbn [cna]. split; [intros q _ []|exact I].
      - intros p [].
      - intros q [<-|[]]. left; reflexivity.
      - constructor. }
    destruct (outer_ok (S n) [t] [order t] [] J0 (or_introl eq_refl) ltac:(cbn; lia)) as (s & sn & J & Hlen).
    set (q := outer_loop order (S n) n [t] [order t] []) in *.
    destruct (seen_le _ _ _ J) as [Hsq Hqn].
    assert (Hqlen : length q = n) by lia.
    assert (Hall : forall x, In x q -> In x sn).
    { apply NoDup_length_incl; [apply (j_snd _ _ _ _ J)|lia|]. intros x Hx. exact (proj1 (j_seen _ _ _ _ J x Hx)). }
    split.
    + split; [apply (j_nd _ _ _ _ J)|]. split; [apply (j_in _ _ _ _ J)|].
      intros pre p suf E0 c Hc. destruct c as [k|a b] eqn:Ec; [left; exact I|right]. rewrite <- Ec in *.
      assert (Hp : In p q) by (rewrite E0; apply in_or_app; right; left; reflexivity).
      destruct (j_seen _ _ _ _ J p (Hall p Hp)) as [_ Hch].
      assert (Hcq : In c q) by (apply Hch; [exact Hc|rewrite Ec; exact I]).
      rewrite E0 in Hcq. apply in_app_or in Hcq. destruct Hcq as [H|[H|H]]; [exact H| |].
      * exfalso. rewrite <- H in Hc. pose proof (E.child_nleaves _ _ Hc). lia.
      * exfalso. pose proof (j_cna _ _ _ _ J) as Hcna. rewrite E0 in Hcna. apply (cna_split pre p suf Hcna c Hc H).
    + apply NoDup_Permutation_bis; [apply (j_nd _ _ _ _ J)| |intros x Hx; apply (j_in _ _ _ _ J x Hx)].
      rewrite post_sub_length. fold n. lia.
Qed.
End TO.

Theorem traverse_ordered_ok order t : NoDup (leaves t) ->
  ok_order t (traverse_ordered order t) /\ Permutation (traverse_ordered order t) (post_sub t).
Proof.
  intros ND. destruct t as [k|l r] eqn:Et.
  - cbn. split; [|reflexivity]. split; [constructor|]. split; [intros p []|]. intros pre p suf E0. destruct pre; discriminate.
  - apply (traverse_ordered_node order (Node l r) ND l r eq_refl).
Qed.

(* BaseFacts.v -- characterising lemmas for the Python-dict association lists *)
From Coq Require Import Lia Permutation.
From Ctg Require Import Base.

Lemma memb_In j l : memb j l = true <-> In j l.
Proof.
  unfold memb. rewrite existsb_exists. split.
  - intros (x & Hx & E). apply Nat.eqb_eq in E. subst. exact Hx.
  - intros H. exists j. split; [exact H|apply Nat.eqb_refl].
Qed.

Lemma memb_false j l : memb j l = false <-> ~ In j l.
Proof. rewrite <- memb_In. destruct (memb j l); split; congruence. Qed.

(* ---------- lget / lset / ldel ---------- *)
Lemma lget_lset_same j v d : lget j (lset j v d) = Some v.
Proof.
  induction d as [|[k w] d IH]; cbn.
  - rewrite Nat.eqb_refl. reflexivity.
  - destruct (Nat.eqb_spec k j) as [->|Hn]; cbn.
    + rewrite Nat.eqb_refl. reflexivity.
    + destruct (Nat.eqb_spec k j); [contradiction|exact IH].
Qed.

Lemma lget_lset_other j i v d : i <> j -> lget i (lset j v d) = lget i d.
Proof.
  intros Hij. induction d as [|[k w] d IH]; cbn.
  - destruct (Nat.eqb_spec j i); [congruence|reflexivity].
  - destruct (Nat.eqb_spec k j) as [->|Hn]; cbn.
    + destruct (Nat.eqb_spec j i); [congruence|reflexivity].
    + destruct (Nat.eqb_spec k i); [reflexivity|exact IH].
Qed.

Lemma lget0_ladd_same j c d : lget0 j (ladd j c d) = lget0 j d + c.
Proof. unfold lget0, ladd. rewrite lget_lset_same. reflexivity. Qed.

Lemma lget0_ladd_other j i c d : i <> j -> lget0 i (ladd j c d) = lget0 i d.
Proof. intros H. unfold lget0, ladd. rewrite lget_lset_other by exact H. reflexivity. Qed.

Lemma lget0_ladd j i c d : lget0 i (ladd j c d) = lget0 i d + (if Nat.eqb i j then c else 0).
Proof.
  destruct (Nat.eqb_spec i j) as [->|H].
  - apply lget0_ladd_same.
  - rewrite lget0_ladd_other by exact H. lia.
Qed.

Lemma lkeys_lset_in j v d : In j (lkeys d) -> lkeys (lset j v d) = lkeys d.
Proof.
  unfold lkeys. induction d as [|[k w] d IH]; cbn; [tauto|].
  intros [->|H].
  - rewrite Nat.eqb_refl. reflexivity.
  - destruct (Nat.eqb_spec k j); cbn; [reflexivity|]. f_equal. apply IH, H.
Qed.

Lemma lkeys_lset_notin j v d : ~ In j (lkeys d) -> lkeys (lset j v d) = lkeys d ++ [j].
Proof.
  unfold lkeys. induction d as [|[k w] d IH]; cbn; [reflexivity|].
  intros H. destruct (Nat.eqb_spec k j); [subst; tauto|]. cbn. f_equal. apply IH. tauto.
Qed.

Lemma lget_in_keys j d : lget j d <> None <-> In j (lkeys d).
Proof.
  unfold lkeys. induction d as [|[k w] d IH]; cbn; [tauto|].
  destruct (Nat.eqb_spec k j) as [->|H].
  - split; [auto|congruence].
  - rewrite IH. split; [auto|intros [?|?]; [congruence|assumption]].
Qed.

Lemma lmem_in_keys j d : lmem j d = true <-> In j (lkeys d).
Proof.
  rewrite <- lget_in_keys. unfold lmem. destruct (lget j d); split; congruence.
Qed.

Lemma NoDup_lkeys_lset j v d : NoDup (lkeys d) -> NoDup (lkeys (lset j v d)).
Proof.
  intros ND. destruct (in_dec Nat.eq_dec j (lkeys d)) as [Hin|Hn].
  - rewrite lkeys_lset_in by exact Hin. exact ND.
  - rewrite lkeys_lset_notin by exact Hn.
    apply NoDup_rev in ND. rewrite <- (rev_involutive (lkeys d ++ [j])).
    apply NoDup_rev. rewrite rev_app_distr. cbn. constructor; [|exact ND].
    rewrite <- in_rev. exact Hn.
Qed.

Lemma in_lkeys_lset i j v d : In i (lkeys (lset j v d)) <-> i = j \/ In i (lkeys d).
Proof.
  destruct (in_dec Nat.eq_dec j (lkeys d)) as [Hin|Hn].
  - rewrite lkeys_lset_in by exact Hin. split; [auto|intros [->|?]; assumption].
  - rewrite lkeys_lset_notin by exact Hn. rewrite in_app_iff. cbn. split.
    + intros [?|[?|[]]]; auto.
    + intros [->|?]; auto.
Qed.

Lemma lget_in j v d : lget j d = Some v -> In (j, v) d.
Proof.
  induction d as [|[k w] d IH]; cbn; [congruence|].
  destruct (Nat.eqb_spec k j) as [->|H]; [intros [= ->]; auto|auto].
Qed.

Lemma in_lget j v d : NoDup (lkeys d) -> In (j, v) d -> lget j d = Some v.
Proof.
  unfold lkeys. induction d as [|[k w] d IH]; cbn; [tauto|].
  intros ND [E|H].
  - inversion E; subst. rewrite Nat.eqb_refl. reflexivity.
  - inversion ND as [|? ? Hn ND']; subst.
    destruct (Nat.eqb_spec k j) as [->|Hkj]; [|apply IH; assumption].
    exfalso. apply Hn. apply (in_map fst) in H. exact H.
Qed.

(* ---------- legs_of_term: counts occurrences ---------- *)
Definition occ (l : list ix) (j : ix) : nat := count_occ Nat.eq_dec l j.

Lemma fold_ladd1_get (t : list ix) : forall d j,
  lget0 j (fold_left (fun d j => ladd j 1 d) t d) = lget0 j d + occ t j.
Proof.
  induction t as [|x t IH]; intros d j; cbn [fold_left].
  - unfold occ. cbn. lia.
  - rewrite IH, lget0_ladd. unfold occ. cbn [count_occ].
    destruct (Nat.eq_dec x j) as [->|H].
    + rewrite Nat.eqb_refl. lia.
    + destruct (Nat.eqb_spec j x); [congruence|lia].
Qed.

Lemma legs_of_term_get t j : lget0 j (legs_of_term t) = occ t j.
Proof. unfold legs_of_term. rewrite fold_ladd1_get. reflexivity. Qed.

Lemma fold_ladd1_keys_nodup (t : list ix) : forall d, NoDup (lkeys d) ->
  NoDup (lkeys (fold_left (fun d j => ladd j 1 d) t d)).
Proof.
  induction t as [|x t IH]; intros d ND; cbn [fold_left]; [exact ND|].
  apply IH. unfold ladd. apply NoDup_lkeys_lset, ND.
Qed.

Lemma fold_ladd1_keys_in (t : list ix) : forall d i,
  In i (lkeys (fold_left (fun d j => ladd j 1 d) t d)) <-> In i t \/ In i (lkeys d).
Proof.
  induction t as [|x t IH]; intros d i; cbn [fold_left].
  - cbn. tauto.
  - rewrite IH. unfold ladd. rewrite in_lkeys_lset. cbn. intuition congruence.
Qed.

Lemma legs_of_term_nodup t : NoDup (lkeys (legs_of_term t)).
Proof. apply fold_ladd1_keys_nodup. constructor. Qed.
Lemma legs_of_term_in t i : In i (lkeys (legs_of_term t)) <-> In i t.
Proof. unfold legs_of_term. rewrite fold_ladd1_keys_in. cbn. tauto. Qed.
(* ---------- legs_union2 ---------- *)
Lemma fold_ladd_get (b : legs) : forall a j, NoDup (lkeys b) ->
  lget0 j (fold_left (fun d kv => ladd (fst kv) (snd kv) d) b a) = lget0 j a + lget0 j b.
Proof.
  induction b as [|[k w] b IH]; intros a j ND; cbn [fold_left].
  - unfold lget0 at 3. cbn. lia.
  - inversion ND as [|? ? Hn ND']; subst. rewrite IH by exact ND'. cbn [fst snd].
    rewrite lget0_ladd. unfold lget0 at 4. cbn [lget].
    destruct (Nat.eqb_spec k j) as [->|Hkj].
    + rewrite Nat.eqb_refl.
      assert (lget0 j b = 0).
      { unfold lget0. destruct (lget j b) eqn:E; [|reflexivity].
        exfalso. apply Hn. apply lget_in_keys. congruence. }
      lia.
    + destruct (Nat.eqb_spec j k); [congruence|]. unfold lget0. lia.
Qed.

Lemma legs_union2_get a b j : NoDup (lkeys b) ->
  lget0 j (legs_union2 a b) = lget0 j a + lget0 j b.
Proof. apply fold_ladd_get. Qed.

Lemma fold_ladd_keys_nodup (b : legs) : forall a, NoDup (lkeys a) ->
  NoDup (lkeys (fold_left (fun d kv => ladd (fst kv) (snd kv) d) b a)).
Proof.
  induction b as [|kv b IH]; intros a ND; cbn [fold_left]; [exact ND|].
  apply IH. unfold ladd. apply NoDup_lkeys_lset, ND.
Qed.
Lemma legs_union2_nodup a b : NoDup (lkeys a) -> NoDup (lkeys (legs_union2 a b)).
Proof. apply fold_ladd_keys_nodup. Qed.

Lemma fold_ladd_keys_in (b : legs) : forall a i,
  In i (lkeys (fold_left (fun d kv => ladd (fst kv) (snd kv) d) b a)) <-> In i (lkeys a) \/ In i (lkeys b).
Proof.
  induction b as [|[k w] b IH]; intros a i; cbn [fold_left].
  - cbn. tauto.
  - rewrite IH. unfold ladd. rewrite in_lkeys_lset. cbn. intuition congruence.
Qed.
Lemma legs_union2_in a b i : In i (lkeys (legs_union2 a b)) <-> In i (lkeys a) \/ In i (lkeys b).
Proof. apply fold_ladd_keys_in. Qed.


(* ---------- well-formed legs: distinct keys, strictly positive counts ---------- *)
Definition pos (d : legs) : Prop := forall kv, In kv d -> 0 < snd kv.
Definition wfl (d : legs) : Prop := NoDup (lkeys d) /\ pos d.

Lemma pos_lset j v d : 0 < v -> pos d -> pos (lset j v d).
Proof.
  intros Hv. induction d as [|[k w] d IH]; cbn; intros Hp kv.
  - intros [<-|[]]. exact Hv.
  - destruct (Nat.eqb_spec k j) as [->|H]; cbn.
    + intros [<-|Hin]; [exact Hv|apply Hp; right; exact Hin].
    + intros [<-|Hin]; [apply (Hp (k, w)); left; reflexivity|].
      apply IH; [|exact Hin]. intros kv' Hkv'. apply Hp. right; exact Hkv'.
Qed.

Lemma pos_ladd j c d : 0 < c -> pos d -> pos (ladd j c d).
Proof. intros Hc Hp. unfold ladd. apply pos_lset; [lia|exact Hp]. Qed.

Lemma wfl_ladd j c d : 0 < c -> wfl d -> wfl (ladd j c d).
Proof. intros Hc [ND Hp]. split; [apply NoDup_lkeys_lset, ND|apply pos_ladd; assumption]. Qed.

Lemma wfl_nil : wfl [].
Proof. split; [constructor|intros kv []]. Qed.

Lemma wfl_legs_of_term t : wfl (legs_of_term t).
Proof.
  unfold legs_of_term. generalize (@nil (ix * nat)) wfl_nil.
  induction t as [|x t IH]; intros d Hd; cbn [fold_left]; [exact Hd|].
  apply IH, wfl_ladd; [lia|exact Hd].
Qed.

Lemma wfl_legs_union2 a b : wfl a -> pos b -> wfl (legs_union2 a b).
Proof.
  unfold legs_union2. revert a. induction b as [|[k w] b IH]; intros a Ha Hb; cbn [fold_left]; [exact Ha|].
  apply IH.
  - apply wfl_ladd; [|exact Ha]. apply (Hb (k, w)). left; reflexivity.
  - intros kv Hkv. apply Hb. right; exact Hkv.
Qed.

Lemma wfl_filter f d : wfl d -> wfl (filter f d).
Proof.
  intros [ND Hp]. split.
  - unfold lkeys in *. induction d as [|[k w] d IH]; cbn; [constructor|].
    inversion ND as [|? ? Hn ND']; subst.
    assert (Hp' : pos d) by (intros kv Hkv; apply Hp; right; exact Hkv).
    destruct (f (k, w)); cbn; [|apply IH; assumption].
    constructor; [|apply IH; assumption].
    intros Hin. apply Hn. apply in_map_iff in Hin. destruct Hin as (x & E & Hx).
    apply filter_In in Hx. apply in_map_iff. exists x. tauto.
  - intros kv Hkv. apply filter_In in Hkv. apply Hp. tauto.
Qed.

Lemma wfl_key_pos j d : wfl d -> (In j (lkeys d) <-> 0 < lget0 j d).
Proof.
  intros [ND Hp]. unfold lget0. split.
  - intros Hin. apply lget_in_keys in Hin. destruct (lget j d) as [v|] eqn:E; [|congruence].
    apply lget_in in E. apply (Hp (j, v)), E.
  - destruct (lget j d) eqn:E; [|lia]. intros _. apply lget_in_keys. congruence.
Qed.

(* filter on a predicate of (key, stored value) *)
Lemma lget_filter f d j : NoDup (lkeys d) ->
  lget j (filter f d) = match lget j d with
                        | Some v => if f (j, v) then Some v else None
                        | None => None
                        end.
Proof.
  unfold lkeys. induction d as [|[k w] d IH]; cbn; intros ND; [reflexivity|].
  inversion ND as [|? ? Hn ND']; subst.
  destruct (Nat.eqb_spec k j) as [->|Hkj].
  - destruct (f (j, w)) eqn:Ef; cbn.
    + rewrite Nat.eqb_refl. reflexivity.
    + rewrite IH by exact ND'.
      destruct (lget j d) eqn:E; [|reflexivity].
      exfalso. apply Hn. apply lget_in in E. apply (in_map fst) in E. exact E.
  - destruct (f (k, w)); cbn.
    + destruct (Nat.eqb_spec k j); [congruence|]. apply IH, ND'.
    + apply IH, ND'.
Qed.

Lemma lget0_filter f d j : NoDup (lkeys d) ->
  lget0 j (filter f d) = match lget j d with
                         | Some v => if f (j, v) then v else 0
                         | None => 0
                         end.
Proof.
  intros ND. unfold lget0. rewrite lget_filter by exact ND.
  destruct (lget j d) as [v|]; [destruct (f (j, v))|]; reflexivity.
Qed.

(* ---------- products are invariant under permutation ---------- *)
Lemma zprod_acc l : forall a, fold_left Z.mul l a = (a * fold_left Z.mul l 1)%Z.
Proof.
  induction l as [|x l IH]; intros a; cbn [fold_left]; [lia|].
  rewrite IH, (IH (1 * x)%Z). lia.
Qed.
Lemma zprod_cons x l : zprod (x :: l) = (x * zprod l)%Z.
Proof. unfold zprod. cbn [fold_left]. rewrite zprod_acc. lia. Qed.
Lemma zprod_nil : zprod [] = 1%Z.
Proof. reflexivity. Qed.
Lemma zprod_app l1 l2 : zprod (l1 ++ l2) = (zprod l1 * zprod l2)%Z.
Proof. induction l1 as [|x l1 IH]; [cbn [app]; rewrite zprod_nil; lia|]. cbn [app]. rewrite !zprod_cons, IH. lia. Qed.
Lemma zprod_perm l1 l2 : Permutation l1 l2 -> zprod l1 = zprod l2.
Proof. induction 1; rewrite ?zprod_cons in *; try lia. Qed.

Lemma zsum_acc l : forall a, fold_left Z.add l a = (a + fold_left Z.add l 0)%Z.
Proof.
  induction l as [|x l IH]; intros a; cbn [fold_left]; [lia|].
  rewrite IH, (IH (0 + x)%Z). lia.
Qed.
Lemma zsum_cons x l : zsum (x :: l) = (x + zsum l)%Z.
Proof. unfold zsum. cbn [fold_left]. rewrite zsum_acc. lia. Qed.
Lemma zsum_app l1 l2 : zsum (l1 ++ l2) = (zsum l1 + zsum l2)%Z.
Proof. induction l1 as [|x l1 IH]; [reflexivity|]. cbn [app]. rewrite !zsum_cons, IH. lia. Qed.

Lemma size_of_perm sz l1 l2 : Permutation l1 l2 -> size_of sz l1 = size_of sz l2.
Proof. intros H. unfold size_of. apply zprod_perm, Permutation_map, H. Qed.

Lemma size_of_cons sz j l : size_of sz (j :: l) = (zget j sz * size_of sz l)%Z.
Proof. unfold size_of. cbn [map]. apply zprod_cons. Qed.

(* same keys, no duplicates => same product *)
Lemma size_of_same_set sz l1 l2 : NoDup l1 -> NoDup l2 -> (forall j, In j l1 <-> In j l2) ->
  size_of sz l1 = size_of sz l2.
Proof. intros N1 N2 H. apply size_of_perm, NoDup_Permutation; assumption. Qed.

Lemma zmax_list_acc l : forall d, zmax_list l d = Z.max d (zmax_list l d).
Proof.
  unfold zmax_list. induction l as [|x l IH]; intros d; cbn [fold_left]; [lia|].
  rewrite IH. specialize (IH d). lia.
Qed.
Lemma zmax_list_ge l : forall d x, In x l -> (x <= zmax_list l d)%Z.
Proof.
  unfold zmax_list. induction l as [|y l IH]; intros d x; cbn [fold_left]; [intros []|].
  intros [->|H]; [|apply IH, H].
  pose proof (zmax_list_acc l (Z.max d x)) as E. unfold zmax_list in E. lia.
Qed.
Lemma zmax_list_attained l : forall d, zmax_list l d = d \/ In (zmax_list l d) l.
Proof.
  unfold zmax_list. induction l as [|y l IH]; intros d; cbn [fold_left]; [auto|].
  destruct (IH (Z.max d y)) as [E|H]; [|right; right; exact H].
  rewrite E. destruct (Z.max_spec d y) as [[_ ->]|[_ ->]]; [right; left; reflexivity|left; reflexivity].
Qed.

Lemma filter_filter_comm_and {A} (f g : A -> bool) l :
  filter g (filter f l) = filter (fun a => f a && g a) l.
Proof.
  induction l as [|a l IH]; cbn; [reflexivity|].
  destruct (f a); cbn; [destruct (g a); rewrite IH; reflexivity|exact IH].
Qed.

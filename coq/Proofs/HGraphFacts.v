(* HGraphFacts.v -- the HyperGraph of Model/HGraph.v seen through its two views
   (node -> incident edges, edge -> incident nodes): a well-formedness invariant
   (the two dictionaries describe the same incidence relation) and the effect of every
   primitive (remove_node, add_node, contract, remove_edge, compress) on the views.
   (owner: builder c18c20) *)
From Coq Require Import Lia Permutation.
From Ctg Require Import Base Net HGraph BaseFacts.

(* ---------- Base.unique ---------- *)
Lemma hu_unique_acc_in l : forall seen x, In x (unique_acc seen l) <-> In x l /\ ~ In x seen.
Proof.
  induction l as [|y l IH]; intros seen x; cbn; [tauto|].
  destruct (memb y seen) eqn:E.
  - rewrite IH. apply memb_In in E. split; [tauto|]. intros [[<-|H] Hn]; [contradiction|tauto].
  - apply memb_false in E. cbn. rewrite IH. cbn. split.
    + intros [<-|[H Hn]]; [tauto|]. split; [tauto|]. intros Hs. apply Hn. right; exact Hs.
    + intros [[<-|H] Hn]; [left; reflexivity|]. destruct (Nat.eq_dec y x) as [->|Hne]; [left; reflexivity|].
      right. split; [exact H|]. intros [Hs|Hs]; [congruence|contradiction].
Qed.
Lemma hu_unique_acc_nodup l : forall seen, NoDup (unique_acc seen l).
Proof.
  induction l as [|y l IH]; intros seen; cbn; [constructor|].
  destruct (memb y seen); [apply IH|]. constructor; [|apply IH].
  rewrite hu_unique_acc_in. cbn. tauto.
Qed.
Lemma hu_unique_in x l : In x (unique l) <-> In x l.
Proof. unfold unique. rewrite hu_unique_acc_in. cbn. tauto. Qed.
Lemma hu_unique_nodup l : NoDup (unique l).
Proof. apply hu_unique_acc_nodup. Qed.

(* ---------- remove_nat ---------- *)
Lemma in_remove_nat x l y : In y (remove_nat x l) <-> In y l /\ y <> x.
Proof. unfold remove_nat. rewrite filter_In, negb_true_iff, Nat.eqb_neq. tauto. Qed.
Lemma remove_nat_notin x l : ~ In x l -> remove_nat x l = l.
Proof.
  unfold remove_nat. induction l as [|y l IH]; cbn; intros H; [reflexivity|].
  destruct (Nat.eqb_spec y x) as [->|]; [tauto|]. cbn. f_equal. apply IH. tauto.
Qed.
Lemma nodup_remove_nat x l : NoDup l -> NoDup (remove_nat x l).
Proof. apply NoDup_filter. Qed.
Lemma remove_nat_idem x l : remove_nat x (remove_nat x l) = remove_nat x l.
Proof. apply remove_nat_notin. rewrite in_remove_nat. tauto. Qed.

(* ---------- insertion-ordered dictionaries ---------- *)
Section DictFacts.
Context {A : Type}.
Implicit Types d : list (nat * A).

Lemma d_get_set k j (v : A) d : aget j (aset k v d) = if Nat.eqb j k then Some v else aget j d.
Proof.
  induction d as [|[k' w] d IH]; cbn.
  - destruct (Nat.eqb_spec k j) as [->|]; [rewrite Nat.eqb_refl; reflexivity|].
    destruct (Nat.eqb_spec j k); [congruence|reflexivity].
  - destruct (Nat.eqb_spec k' k) as [->|Hk]; cbn.
    + destruct (Nat.eqb_spec k j) as [->|]; [rewrite Nat.eqb_refl; reflexivity|].
      destruct (Nat.eqb_spec j k); [congruence|reflexivity].
    + destruct (Nat.eqb_spec k' j) as [->|].
      * destruct (Nat.eqb_spec j k); [congruence|reflexivity].
      * exact IH.
Qed.

Lemma d_get_del_ne k j d : j <> k -> aget j (adel k d) = aget j d.
Proof.
  intros H. induction d as [|[k' v] d IH]; cbn; [reflexivity|].
  destruct (Nat.eqb_spec k' k) as [->|Hk].
  - destruct (Nat.eqb_spec k j); [congruence|reflexivity].
  - cbn. destruct (k' =? j); [reflexivity|exact IH].
Qed.

Lemma d_get_none k d : aget k d = None <-> ~ In k (akeys d).
Proof.
  unfold akeys. induction d as [|[k' v] d IH]; cbn; [tauto|].
  destruct (Nat.eqb_spec k' k) as [->|Hk]; [split; [discriminate|tauto]|].
  rewrite IH. tauto.
Qed.
Lemma d_mem_in k d : amem k d = true <-> In k (akeys d).
Proof.
  unfold amem. destruct (aget k d) eqn:E.
  - split; [|reflexivity]. intros _. destruct (in_dec Nat.eq_dec k (akeys d)) as [H|H]; [exact H|].
    apply d_get_none in H. congruence.
  - apply d_get_none in E. split; [discriminate|contradiction].
Qed.
Lemma d_mem_false k d : amem k d = false <-> ~ In k (akeys d).
Proof. rewrite <- d_mem_in. destruct (amem k d); split; congruence. Qed.

Lemma d_get_del_eq k d : NoDup (akeys d) -> aget k (adel k d) = None.
Proof.
  unfold akeys. induction d as [|[k' v] d IH]; cbn; intros ND; [reflexivity|].
  inversion ND as [|? ? Hn ND']; subst.
  destruct (Nat.eqb_spec k' k) as [->|Hk].
  - apply d_get_none. exact Hn.
  - cbn. destruct (Nat.eqb_spec k' k); [contradiction|]. apply IH, ND'.
Qed.

Lemma d_keys_del_in k j d : In j (akeys (adel k d)) -> In j (akeys d).
Proof.
  unfold akeys. induction d as [|[k' v] d IH]; cbn; [tauto|].
  destruct (k' =? k); cbn; [tauto|]. intros [H|H]; [left; exact H|right; apply IH, H].
Qed.
Lemma d_nodup_del k d : NoDup (akeys d) -> NoDup (akeys (adel k d)).
Proof.
  unfold akeys. induction d as [|[k' v] d IH]; cbn; intros ND; [constructor|].
  inversion ND as [|? ? Hn ND']; subst. destruct (k' =? k); [exact ND'|].
  cbn. constructor; [|apply IH, ND']. intros H. apply Hn. apply (d_keys_del_in k k' d H).
Qed.

Lemma d_keys_set_in k (v : A) d : In k (akeys d) -> akeys (aset k v d) = akeys d.
Proof.
  unfold akeys. induction d as [|[k' w] d IH]; cbn; [tauto|].
  destruct (Nat.eqb_spec k' k) as [->|Hk]; [reflexivity|]. intros [H|H]; [congruence|]. cbn. f_equal. apply IH, H.
Qed.
Lemma d_keys_set_notin k (v : A) d : ~ In k (akeys d) -> akeys (aset k v d) = akeys d ++ [k].
Proof.
  unfold akeys. induction d as [|[k' w] d IH]; cbn; [reflexivity|].
  intros H. destruct (Nat.eqb_spec k' k); [subst; tauto|]. cbn. f_equal. apply IH. tauto.
Qed.
Lemma d_nodup_set k (v : A) d : NoDup (akeys d) -> NoDup (akeys (aset k v d)).
Proof.
  intros ND. destruct (in_dec Nat.eq_dec k (akeys d)) as [H|H].
  - rewrite d_keys_set_in by exact H. exact ND.
  - rewrite d_keys_set_notin by exact H.
    apply NoDup_rev in ND. rewrite <- (rev_involutive (akeys d ++ [k])). apply NoDup_rev.
    rewrite rev_app_distr. cbn. constructor; [|exact ND]. rewrite <- in_rev. exact H.
Qed.
Lemma d_in_keys_set j k (v : A) d : In j (akeys (aset k v d)) <-> j = k \/ In j (akeys d).
Proof.
  destruct (in_dec Nat.eq_dec k (akeys d)) as [H|H].
  - rewrite d_keys_set_in by exact H. split; [tauto|]. intros [->|?]; assumption.
  - rewrite d_keys_set_notin by exact H. rewrite in_app_iff. cbn. intuition.
Qed.
Lemma d_get_in k (v : A) d : aget k d = Some v -> In (k, v) d.
Proof.
  induction d as [|[k' w] d IH]; cbn; [discriminate|].
  destruct (Nat.eqb_spec k' k) as [->|]; [intros [= ->]; left; reflexivity|intros H; right; apply IH, H].
Qed.
Lemma d_in_get k (v : A) d : NoDup (akeys d) -> In (k, v) d -> aget k d = Some v.
Proof.
  unfold akeys. induction d as [|[k' w] d IH]; cbn; intros ND; [tauto|].
  inversion ND as [|? ? Hn ND']; subst. intros [E|H].
  - inversion E; subst. rewrite Nat.eqb_refl. reflexivity.
  - destruct (Nat.eqb_spec k' k) as [->|]; [|apply IH; assumption].
    exfalso. apply Hn. apply (in_map fst) in H. exact H.
Qed.
End DictFacts.

(* ---------- the two views ---------- *)
Definition getL {B} (d : list (nat * list B)) (k : nat) : list B :=
  match aget k d with Some l => l | None => [] end.

Lemma get_node_getL g k : get_node g k = getL (hnodes g) k.
Proof. reflexivity. Qed.
Lemma get_edge_getL g e : get_edge g e = getL (hedges g) e.
Proof. reflexivity. Qed.

Lemma getL_set {B} k j (v : list B) d : getL (aset k v d) j = if Nat.eqb j k then v else getL d j.
Proof. unfold getL. rewrite d_get_set. destruct (j =? k); reflexivity. Qed.
Lemma getL_del_ne {B} k j (d : list (nat * list B)) : j <> k -> getL (adel k d) j = getL d j.
Proof. intros H. unfold getL. rewrite d_get_del_ne by exact H. reflexivity. Qed.
Lemma getL_del_eq {B} k (d : list (nat * list B)) : NoDup (akeys d) -> getL (adel k d) k = [].
Proof. intros H. unfold getL. rewrite d_get_del_eq by exact H. reflexivity. Qed.
Lemma getL_in_mem {B} (d : list (nat * list B)) k x : In x (getL d k) -> amem k d = true.
Proof. unfold getL, amem. destruct (aget k d); [reflexivity|intros []]. Qed.

(* stored lists are never empty (edges dictionary) *)
Definition nonempty_vals {B} (d : list (nat * list B)) : Prop := forall k l, aget k d = Some l -> l <> [].
Lemma nonempty_mem {B} (d : list (nat * list B)) k : nonempty_vals d -> (amem k d = true <-> getL d k <> []).
Proof.
  intros H. unfold amem, getL. destruct (aget k d) as [l|] eqn:E.
  - split; [intros _; apply (H k l E)|reflexivity].
  - split; [discriminate|intros C; exfalso; apply C; reflexivity].
Qed.

Record wf_hg (g : hg) : Prop := {
  wf_nd_nodes : NoDup (akeys (hnodes g));
  wf_nd_edges : NoDup (akeys (hedges g));
  wf_node_nodup : forall k, NoDup (get_node g k);
  wf_edge_nodup : forall e, NoDup (get_edge g e);
  wf_edge_nonempty : nonempty_vals (hedges g);
  wf_inc : forall e k, In k (get_edge g e) <-> In e (get_node g k);
  wf_next : forall k, amem k (hnodes g) = true -> k < hnext g
}.

Lemma wf_intro nd ed out sz nx :
  NoDup (akeys nd) -> NoDup (akeys ed) -> (forall k, NoDup (getL nd k)) -> (forall e, NoDup (getL ed e)) ->
  nonempty_vals ed -> (forall e k, In k (getL ed e) <-> In e (getL nd k)) ->
  (forall k, amem k nd = true -> k < nx) -> wf_hg (mkHG nd ed out sz nx).
Proof. intros. constructor; assumption. Qed.

(* ---------- remove_node ---------- *)
Definition rm_step (i : nat) (ed : list (ix * list nat)) (e : ix) : list (ix * list nat) :=
  match aget e ed with
  | None => ed
  | Some l => let l' := remove_nat i l in match l' with [] => adel e ed | _ => aset e l' ed end
  end.

Lemma remove_node_unfold i g :
  remove_node i g = (mkHG (adel i (hnodes g)) (fold_left (rm_step i) (get_node g i) (hedges g)) (hout g) (hsz g) (hnext g),
                     get_node g i).
Proof. reflexivity. Qed.

Lemma rm_step_get i ed e0 e : NoDup (akeys ed) ->
  getL (rm_step i ed e0) e = if Nat.eqb e e0 then remove_nat i (getL ed e0) else getL ed e.
Proof.
  intros ND. unfold rm_step. destruct (aget e0 ed) as [l|] eqn:E0.
  - cbn zeta. destruct (remove_nat i l) as [|x l'] eqn:El.
    + destruct (Nat.eqb_spec e e0) as [->|Hne].
      * rewrite getL_del_eq by exact ND. unfold getL. rewrite E0. symmetry. exact El.
      * apply getL_del_ne, Hne.
    + rewrite getL_set. destruct (e =? e0); [|reflexivity]. unfold getL. rewrite E0. symmetry. exact El.
  - destruct (Nat.eqb_spec e e0) as [->|]; [|reflexivity]. unfold getL. rewrite E0. reflexivity.
Qed.
Lemma rm_step_nodup i ed e0 : NoDup (akeys ed) -> NoDup (akeys (rm_step i ed e0)).
Proof.
  intros ND. unfold rm_step. destruct (aget e0 ed) as [l|]; [|exact ND]. cbn zeta.
  destruct (remove_nat i l); [apply d_nodup_del, ND|apply d_nodup_set, ND].
Qed.
Lemma rm_step_nonempty i ed e0 : NoDup (akeys ed) -> nonempty_vals ed -> nonempty_vals (rm_step i ed e0).
Proof.
  intros ND H. unfold rm_step. destruct (aget e0 ed) as [l|] eqn:E0; [|exact H]. cbn zeta.
  destruct (remove_nat i l) as [|x l'] eqn:El; intros k v Hk.
  - destruct (Nat.eq_dec k e0) as [->|Hne]; [rewrite d_get_del_eq in Hk by exact ND; discriminate|].
    rewrite d_get_del_ne in Hk by exact Hne. apply (H k v Hk).
  - rewrite d_get_set in Hk. destruct (k =? e0); [inversion Hk; discriminate|apply (H k v Hk)].
Qed.

Lemma rm_fold i inds : forall ed, NoDup (akeys ed) -> nonempty_vals ed ->
  let ed' := fold_left (rm_step i) inds ed in
  NoDup (akeys ed') /\ nonempty_vals ed' /\
  forall e, getL ed' e = if memb e inds then remove_nat i (getL ed e) else getL ed e.
Proof.
  induction inds as [|e0 inds IH]; intros ed ND NE; cbn [fold_left].
  - cbn. repeat split; assumption.
  - destruct (IH (rm_step i ed e0) (rm_step_nodup i ed e0 ND) (rm_step_nonempty i ed e0 ND NE)) as (A & B & C).
    cbn zeta in *. split; [exact A|split; [exact B|]]. intros e. rewrite C, !rm_step_get by exact ND.
    cbn [memb existsb]. fold (memb e inds).
    destruct (Nat.eqb_spec e e0) as [->|Hne]; cbn [orb].
    + destruct (memb e0 inds); [apply remove_nat_idem|reflexivity].
    + reflexivity.
Qed.

Theorem remove_node_spec i g : wf_hg g ->
  let g' := fst (remove_node i g) in
  snd (remove_node i g) = get_node g i /\
  (forall k, get_node g' k = if Nat.eqb k i then [] else get_node g k) /\
  (forall k, amem k (hnodes g') = amem k (hnodes g) && negb (Nat.eqb k i)) /\
  (forall e, get_edge g' e = remove_nat i (get_edge g e)) /\
  hsz g' = hsz g /\ hout g' = hout g /\ hnext g' = hnext g /\ wf_hg g'.
Proof.
  intros W. rewrite remove_node_unfold. cbn [fst snd].
  destruct (rm_fold i (get_node g i) (hedges g) (wf_nd_edges g W) (wf_edge_nonempty g W)) as (A & B & C).
  cbn zeta in *.
  assert (HN : forall k, getL (adel i (hnodes g)) k = if k =? i then [] else get_node g k).
  { intros k. destruct (Nat.eqb_spec k i) as [->|Hne]; [apply getL_del_eq, (wf_nd_nodes g W)|apply getL_del_ne, Hne]. }
  assert (HM : forall k, amem k (adel i (hnodes g)) = amem k (hnodes g) && negb (k =? i)).
  { intros k. unfold amem. destruct (Nat.eqb_spec k i) as [->|Hne].
    - rewrite d_get_del_eq by apply (wf_nd_nodes g W). rewrite andb_false_r. reflexivity.
    - rewrite d_get_del_ne by exact Hne. rewrite andb_true_r. reflexivity. }
  assert (HE : forall e, getL (fold_left (rm_step i) (get_node g i) (hedges g)) e = remove_nat i (get_edge g e)).
  { intros e. rewrite C. change (getL (hedges g) e) with (get_edge g e).
    destruct (memb e (get_node g i)) eqn:E; [reflexivity|].
    symmetry. apply remove_nat_notin. intros Hin. apply (wf_inc g W) in Hin. apply memb_false in E. contradiction. }
  split; [reflexivity|]. split; [exact HN|]. split; [exact HM|]. split; [exact HE|].
  split; [reflexivity|]. split; [reflexivity|]. split; [reflexivity|].
  apply wf_intro.
  - apply d_nodup_del, (wf_nd_nodes g W).
  - exact A.
  - intros k. rewrite HN. destruct (k =? i); [constructor|apply (wf_node_nodup g W)].
  - intros e. rewrite HE. apply nodup_remove_nat, (wf_edge_nodup g W).
  - exact B.
  - intros e k. rewrite HE, HN, in_remove_nat, (wf_inc g W).
    destruct (Nat.eqb_spec k i) as [->|Hne]; cbn; tauto.
  - intros k Hk. rewrite HM in Hk. apply andb_true_iff in Hk. apply (wf_next g W), Hk.
Qed.

(* ---------- add_node ---------- *)
Lemma add_node_unfold inds g :
  add_node inds g =
  (mkHG (aset (next_node g) inds (hnodes g))
        (fold_left (fun ed e => edges_append e (next_node g) ed) inds (hedges g)) (hout g) (hsz g) (S (next_node g)),
   next_node g).
Proof. reflexivity. Qed.

Lemma next_node_fresh g : wf_hg g -> next_node g = hnext g.
Proof.
  intros W. unfold next_node. cbn [next_free].
  destruct (amem (hnext g) (hnodes g)) eqn:E; [|reflexivity].
  apply (wf_next g W) in E. lia.
Qed.

Lemma edges_append_get e k ed e' :
  getL (edges_append e k ed) e' = if Nat.eqb e' e then getL ed e ++ [k] else getL ed e'.
Proof.
  unfold edges_append. rewrite getL_set. destruct (e' =? e); [|reflexivity].
  unfold getL. destruct (aget e ed); reflexivity.
Qed.
Lemma edges_append_nonempty e k ed : nonempty_vals ed -> nonempty_vals (edges_append e k ed).
Proof.
  intros H e' l Hl. unfold edges_append in Hl. rewrite d_get_set in Hl.
  destruct (e' =? e); [|apply (H e' l Hl)]. inversion Hl. destruct (aget e ed) as [l0|]; [destruct l0|]; discriminate.
Qed.

Lemma append_fold k inds : forall ed, NoDup inds -> NoDup (akeys ed) -> nonempty_vals ed ->
  let ed' := fold_left (fun ed e => edges_append e k ed) inds ed in
  NoDup (akeys ed') /\ nonempty_vals ed' /\
  forall e, getL ed' e = if memb e inds then getL ed e ++ [k] else getL ed e.
Proof.
  induction inds as [|e0 inds IH]; intros ed NI ND NE; cbn [fold_left].
  - cbn. repeat split; assumption.
  - inversion NI as [|? ? Hn NI']; subst.
    destruct (IH (edges_append e0 k ed) NI' (d_nodup_set _ _ _ ND) (edges_append_nonempty e0 k ed NE)) as (A & B & C).
    cbn zeta in *. split; [exact A|split; [exact B|]]. intros e. rewrite C, !edges_append_get.
    cbn [memb existsb]. fold (memb e inds).
    destruct (Nat.eqb_spec e e0) as [->|Hne]; cbn [orb].
    + assert (E : memb e0 inds = false) by (apply memb_false, Hn). rewrite E. reflexivity.
    + reflexivity.
Qed.

Theorem add_node_spec inds g : wf_hg g -> NoDup inds ->
  let g' := fst (add_node inds g) in
  let k := snd (add_node inds g) in
  k = hnext g /\ amem k (hnodes g) = false /\
  (forall k', get_node g' k' = if Nat.eqb k' k then inds else get_node g k') /\
  (forall k', amem k' (hnodes g') = Nat.eqb k' k || amem k' (hnodes g)) /\
  (forall e, get_edge g' e = if memb e inds then get_edge g e ++ [k] else get_edge g e) /\
  hsz g' = hsz g /\ hout g' = hout g /\ wf_hg g' /\ hnext g' = S k.
Proof.
  intros W NI. rewrite add_node_unfold. cbn [fst snd]. rewrite (next_node_fresh g W).
  set (k := hnext g).
  assert (Hfresh : amem k (hnodes g) = false).
  { destruct (amem k (hnodes g)) eqn:E; [|reflexivity]. apply (wf_next g W) in E. unfold k in E. lia. }
  destruct (append_fold k inds (hedges g) NI (wf_nd_edges g W) (wf_edge_nonempty g W)) as (A & B & C). cbn zeta in *.
  assert (HN : forall k', getL (aset k inds (hnodes g)) k' = if k' =? k then inds else get_node g k') by (intros; apply getL_set).
  assert (HM : forall k', amem k' (aset k inds (hnodes g)) = (k' =? k) || amem k' (hnodes g)).
  { intros k'. unfold amem. rewrite d_get_set. destruct (k' =? k); reflexivity. }
  split; [reflexivity|]. split; [exact Hfresh|]. split; [exact HN|]. split; [exact HM|]. split; [exact C|].
  split; [reflexivity|]. split; [reflexivity|]. split; [|reflexivity].
  assert (Hk_noedge : forall e, ~ In k (get_edge g e)).
  { intros e Hin. apply (wf_inc g W) in Hin. apply getL_in_mem in Hin. congruence. }
  apply wf_intro.
  - apply d_nodup_set, (wf_nd_nodes g W).
  - exact A.
  - intros k'. rewrite HN. destruct (k' =? k); [exact NI|apply (wf_node_nodup g W)].
  - intros e. rewrite C. change (getL (hedges g) e) with (get_edge g e).
    destruct (memb e inds); [|apply (wf_edge_nodup g W)].
    pose proof (wf_edge_nodup g W e) as ND.
    apply NoDup_rev in ND. rewrite <- (rev_involutive (get_edge g e ++ [k])). apply NoDup_rev.
    rewrite rev_app_distr. cbn. constructor; [|exact ND]. rewrite <- in_rev. apply Hk_noedge.
  - exact B.
  - intros e k'. rewrite C, HN. change (getL (hedges g) e) with (get_edge g e).
    destruct (Nat.eqb_spec k' k) as [->|Hne].
    + destruct (memb e inds) eqn:E.
      * rewrite in_app_iff. cbn. apply memb_In in E. tauto.
      * apply memb_false in E. split; [intros H; exfalso; apply (Hk_noedge e H)|contradiction].
    + destruct (memb e inds).
      * rewrite in_app_iff, (wf_inc g W). cbn. split; [intros [H|[H|[]]]; [exact H|congruence]|tauto].
      * apply (wf_inc g W).
  - intros k' Hk'. rewrite HM in Hk'. apply orb_true_iff in Hk'. destruct Hk' as [Hk'|Hk'].
    + apply Nat.eqb_eq in Hk'. subst. unfold k. lia.
    + apply (wf_next g W) in Hk'. unfold k. lia.
Qed.

(* ---------- contract ---------- *)
Lemma hg_contract_unfold i j g :
  hg_contract i j g =
  let g1 := fst (remove_node i g) in
  let g2 := fst (remove_node j g1) in
  add_node (unique (filter (fun e => amem e (hedges g2) || memb e (hout g2)) (get_node g i ++ get_node g1 j))) g2.
Proof. reflexivity. Qed.

Lemma list_nonempty_ex (l : list nat) : l <> [] <-> exists x, In x l.
Proof. destruct l as [|x l]; split; [congruence|intros [x []]|intros _; exists x; left; reflexivity|discriminate]. Qed.

Theorem contract_spec i j g : wf_hg g -> i <> j ->
  let g' := fst (hg_contract i j g) in
  let k := snd (hg_contract i j g) in
  let inds := get_node g' k in
  k = hnext g /\ hnext g' = S k /\ wf_hg g' /\ hsz g' = hsz g /\ hout g' = hout g /\
  (forall k', get_node g' k' = if Nat.eqb k' k then inds
                               else if Nat.eqb k' i || Nat.eqb k' j then [] else get_node g k') /\
  (forall k', amem k' (hnodes g') = Nat.eqb k' k || (amem k' (hnodes g) && negb (Nat.eqb k' i) && negb (Nat.eqb k' j))) /\
  NoDup inds /\
  (forall e, In e inds <-> (In e (get_node g i) \/ In e (get_node g j)) /\
                           ((exists k', k' <> i /\ k' <> j /\ In k' (get_edge g e)) \/ In e (hout g))) /\
  (forall e, get_edge g' e = if memb e inds then remove_nat j (remove_nat i (get_edge g e)) ++ [k]
                             else remove_nat j (remove_nat i (get_edge g e))).
Proof.
  intros W Hij. rewrite hg_contract_unfold. cbn zeta.
  destruct (remove_node_spec i g W) as (_ & N1 & M1 & E1 & S1 & O1 & X1 & W1). cbn zeta in *.
  set (g1 := fst (remove_node i g)) in *.
  destruct (remove_node_spec j g1 W1) as (_ & N2 & M2 & E2 & S2 & O2 & X2 & W2). cbn zeta in *.
  set (g2 := fst (remove_node j g1)) in *.
  set (inds := unique (filter (fun e => amem e (hedges g2) || memb e (hout g2)) (get_node g i ++ get_node g1 j))).
  assert (NI : NoDup inds) by apply hu_unique_nodup.
  destruct (add_node_spec inds g2 W2 NI) as (K & Fr & N3 & M3 & E3 & S3 & O3 & W3 & X3). cbn zeta in *.
  set (g' := fst (add_node inds g2)) in *. set (k := snd (add_node inds g2)) in *.
  assert (Hj1 : get_node g1 j = get_node g j).
  { rewrite N1. destruct (Nat.eqb_spec j i); [congruence|reflexivity]. }
  assert (Hinds : get_node g' k = inds) by (rewrite N3, Nat.eqb_refl; reflexivity).
  rewrite Hinds.
  assert (HE2 : forall e, get_edge g2 e = remove_nat j (remove_nat i (get_edge g e))) by (intros e; rewrite E2, E1; reflexivity).
  split; [rewrite K, X2, X1; reflexivity|]. split; [exact X3|]. split; [exact W3|].
  split; [rewrite S3, S2, S1; reflexivity|]. split; [rewrite O3, O2, O1; reflexivity|].
  split; [|split; [|split; [exact NI|split]]].
  - intros k'. rewrite N3. destruct (k' =? k); [reflexivity|]. rewrite N2, N1.
    destruct (k' =? j), (k' =? i); reflexivity.
  - intros k'. rewrite M3, M2, M1. reflexivity.
  - intros e. unfold inds. rewrite hu_unique_in, filter_In, in_app_iff, Hj1, orb_true_iff, memb_In, O2, O1.
    rewrite (nonempty_mem (hedges g2) e (wf_edge_nonempty g2 W2)).
    change (getL (hedges g2) e) with (get_edge g2 e). rewrite HE2, list_nonempty_ex.
    split; intros [A [B|B]]; (split; [exact A|]); [left|right; exact B|left|right; exact B].
    + destruct B as (x & Hx). rewrite !in_remove_nat in Hx. exists x. tauto.
    + destruct B as (x & Hx). exists x. rewrite !in_remove_nat. tauto.
  - intros e. rewrite E3, HE2. reflexivity.
Qed.

(* ---------- hg_init ---------- *)
(* a boolean well-formedness checker, used for the initial graph *)
Definition nodup_nat_b (l : list nat) : bool := Nat.eqb (length (unique l)) (length l).
Definition wf_hg_b (g : hg) : bool :=
  nodup_nat_b (akeys (hnodes g)) && nodup_nat_b (akeys (hedges g)) &&
  forallb (fun kv => nodup_nat_b (snd kv)) (hnodes g) &&
  forallb (fun kv => nodup_nat_b (snd kv) && negb (Nat.eqb (length (snd kv)) 0)) (hedges g) &&
  forallb (fun kv => forallb (fun e => memb (fst kv) (get_edge g e)) (snd kv)) (hnodes g) &&
  forallb (fun kv => forallb (fun k => memb (fst kv) (get_node g k)) (snd kv)) (hedges g) &&
  forallb (fun kv => Nat.ltb (fst kv) (hnext g)) (hnodes g).

Lemma hu_unique_acc_len l : forall seen, length (unique_acc seen l) <= length l.
Proof. induction l as [|x l IH]; intros seen; cbn; [lia|]. destruct (memb x seen); cbn; [specialize (IH seen)|specialize (IH (x :: seen))]; lia. Qed.

Lemma nodup_nat_b_sound l : nodup_nat_b l = true -> NoDup l.
Proof.
  unfold nodup_nat_b, unique. intros H. apply Nat.eqb_eq in H.
  assert (G : forall l seen, length (unique_acc seen l) = length l -> NoDup l /\ forall x, In x l -> ~ In x seen).
  { clear. induction l as [|x l IH]; intros seen H; cbn in *; [split; [constructor|tauto]|].
    destruct (memb x seen) eqn:E.
    - pose proof (hu_unique_acc_len l seen). lia.
    - cbn in H. injection H as H. destruct (IH (x :: seen) H) as [ND Hd]. apply memb_false in E.
      split; [constructor; [|exact ND]|].
      + intros Hx. apply (Hd x Hx). left; reflexivity.
      + intros y [<-|Hy]; [exact E|]. intros Hs. apply (Hd y Hy). right; exact Hs. }
  apply (G l [] H).
Qed.

Theorem wf_hg_b_sound g : wf_hg_b g = true -> wf_hg g.
Proof.
  unfold wf_hg_b. rewrite !andb_true_iff. intros [[[[[[A B] C] D] E] F] G].
  apply nodup_nat_b_sound in A. apply nodup_nat_b_sound in B.
  rewrite forallb_forall in C, D, E, F, G.
  assert (GN : forall k l, aget k (hnodes g) = Some l -> In (k, l) (hnodes g)) by (intros; apply d_get_in; assumption).
  assert (GE : forall k l, aget k (hedges g) = Some l -> In (k, l) (hedges g)) by (intros; apply d_get_in; assumption).
  constructor.
  - exact A.
  - exact B.
  - intros k. unfold get_node. destruct (aget k (hnodes g)) as [l|] eqn:Ek; [|constructor].
    apply nodup_nat_b_sound. apply (C (k, l) (GN k l Ek)).
  - intros e. unfold get_edge. destruct (aget e (hedges g)) as [l|] eqn:Ee; [|constructor].
    specialize (D (e, l) (GE e l Ee)). cbn in D. apply andb_true_iff in D. apply nodup_nat_b_sound, D.
  - intros e l Ee. specialize (D (e, l) (GE e l Ee)). cbn in D. apply andb_true_iff in D. destruct D as [_ D].
    destruct l; [discriminate|discriminate].
  - intros e k. split.
    + intros Hk. unfold get_edge in Hk. destruct (aget e (hedges g)) as [l|] eqn:Ee; [|destruct Hk].
      specialize (F (e, l) (GE e l Ee)). cbn in F. rewrite forallb_forall in F. apply memb_In, (F k Hk).
    + intros He. unfold get_node in He. destruct (aget k (hnodes g)) as [l|] eqn:Ek; [|destruct He].
      specialize (E (k, l) (GN k l Ek)). cbn in E. rewrite forallb_forall in E. apply memb_In, (E e He).
  - intros k Hk. apply d_mem_in in Hk. unfold akeys in Hk. apply in_map_iff in Hk. destruct Hk as ([k' l] & <- & Hin).
    specialize (G (k', l) Hin). cbn in G. apply Nat.ltb_lt, G.
Qed.

(* hg_init is the empty graph with the inputs added one by one, hence well formed *)
Lemma aset_notin_app {A} k (v : A) d : ~ In k (akeys d) -> aset k v d = d ++ [(k, v)].
Proof.
  unfold akeys. induction d as [|[k' w] d IH]; cbn; intros H; [reflexivity|].
  destruct (Nat.eqb_spec k' k); [subst; tauto|]. f_equal. apply IH. tauto.
Qed.

Definition init_edges (its : list (nat * list ix)) (ed : list (ix * list nat)) : list (ix * list nat) :=
  fold_left (fun ed it => fold_left (fun ed e => edges_append e (fst it) ed) (snd it) ed) its ed.

Lemma init_from inputs : forall g, wf_hg g -> (forall t, In t inputs -> NoDup t) ->
  let g' := mkHG (hnodes g ++ combine (seq (hnext g) (length inputs)) inputs)
                 (init_edges (combine (seq (hnext g) (length inputs)) inputs) (hedges g))
                 (hout g) (hsz g) (hnext g + length inputs) in
  wf_hg g'.
Proof.
  induction inputs as [|t inputs IH]; intros g W HN; cbn zeta.
  - cbn. rewrite app_nil_r, Nat.add_0_r. destruct g; exact W.
  - assert (Nt : NoDup t) by (apply HN; left; reflexivity).
    destruct (add_node_spec t g W Nt) as (K & Fr & _ & _ & _ & S3 & O3 & W3 & X3). cbn zeta in *.
    rewrite add_node_unfold in *. cbn [fst snd] in *. rewrite (next_node_fresh g W) in *.
    specialize (IH _ W3 (fun t' Ht' => HN t' (or_intror Ht'))). cbn zeta in IH.
    cbn [hnodes hedges hout hsz hnext] in IH.
    rewrite (aset_notin_app (hnext g) t (hnodes g)) in IH by (apply d_mem_false, Fr).
    rewrite <- app_assoc in IH. cbn [length seq combine]. cbn [Datatypes.app] in IH.
    unfold init_edges in *. cbn [fold_left fst snd].
    replace (hnext g + S (length inputs)) with (S (hnext g) + length inputs) by lia. exact IH.
Qed.

Theorem hg_init_wf inputs out sz : (forall t, In t inputs -> NoDup t) -> wf_hg (hg_init inputs out sz).
Proof.
  intros HN.
  assert (W0 : wf_hg (mkHG [] [] out sz 0)).
  { apply wf_intro; cbn; try constructor; try tauto; try discriminate; intros; try constructor; discriminate. }
  pose proof (init_from inputs _ W0 HN) as W. cbn zeta in W. cbn [hnodes hedges hout hsz hnext Datatypes.app Nat.add] in W.
  exact W.
Qed.

(* HGraphFacts.v -- the HyperGraph of Model/HGraph.v seen through its two views
   (node -> incident edges, edge -> incident nodes): a well-formedness invariant
   (the two dictionaries describe the same incidence relation) and the effect of every
   primitive (remove_node, add_node, contract, remove_edge, compress) on the views.
   (owner: builder c18c20) *)
From Coq Require Import Lia Permutation.
From Ctg Require Import Base Net HGraph BaseFacts.

(* ---------- Base.unique ---------- *)
Lemma hu_unique_acc_in l : forall seen x, In x (unique_acc seen l) <-> In x l /\ ~ In x seen.
Proof.
  induction l as [|y l IH]; intros seen x; cbn; [tauto|].
  destruct (memb y seen) eqn:E.
  - rewrite IH. apply memb_In in E. split; [tauto|]. intros [[<-|H] Hn]; [contradiction|tauto].
  - apply memb_false in E. cbn. rewrite IH. cbn. split.
    + intros [<-|[H Hn]]; [tauto|]. split; [tauto|]. intros Hs. apply Hn. right; exact Hs.
    + intros [[<-|H] Hn]; [left; reflexivity|]. destruct (Nat.eq_dec y x) as [->|Hne]; [left; reflexivity|].
      right. split; [exact H|]. intros [Hs|Hs]; [congruence|contradiction].
Qed.
Lemma hu_unique_acc_nodup l : forall seen, NoDup (unique_acc seen l).
Proof.
  induction l as [|y l IH]; intros seen; cbn; [constructor|].
  destruct (memb y seen); [apply IH|]. constructor; [|apply IH].
  rewrite hu_unique_acc_in. cbn. tauto.
Qed.
Lemma hu_unique_in x l : In x (unique l) <-> In x l.
Proof. unfold unique. rewrite hu_unique_acc_in. cbn. tauto. Qed.
Lemma hu_unique_nodup l : NoDup (unique l).
Proof. apply hu_unique_acc_nodup. Qed.

(* ---------- remove_nat ---------- *)
Lemma in_remove_nat x l y : In y (remove_nat x l) <-> In y l /\ y <> x.
Proof. unfold remove_nat. rewrite filter_In, negb_true_iff, Nat.eqb_neq. tauto. Qed.
Lemma remove_nat_notin x l : ~ In x l -> remove_nat x l = l.
Proof.
  unfold remove_nat. induction l as [|y l IH]; cbn; intros H; [reflexivity|].
  destruct (Nat.eqb_spec y x) as [->|]; [tauto|]. cbn. f_equal. apply IH. tauto.
Qed.
Lemma nodup_remove_nat x l : NoDup l -> NoDup (remove_nat x l).
Proof. apply NoDup_filter. Qed.
Lemma remove_nat_idem x l : remove_nat x (remove_nat x l) = remove_nat x l.
Proof. apply remove_nat_notin. rewrite in_remove_nat. tauto. Qed.

(* ---------- insertion-ordered dictionaries ---------- *)
Section DictFacts.
Context {A : Type}.
Implicit Types d : list (nat * A).

Lemma d_get_set k j (v : A) d : aget j (aset k v d) = if Nat.eqb j k then Some v else aget j d.
Proof.
  induction d as [|[k' w] d IH]; cbn.
  - destruct (Nat.eqb_spec k j) as [->|]; [rewrite Nat.eqb_refl; reflexivity|].
    destruct (Nat.eqb_spec j k); [congruence|reflexivity].
  - destruct (Nat.eqb_spec k' k) as [->|Hk]; cbn.
    + destruct (Nat.eqb_spec k j) as [->|]; [rewrite Nat.eqb_refl; reflexivity|].
      destruct (Nat.eqb_spec j k); [congruence|reflexivity].
    + destruct (Nat.eqb_spec k' j) as [->|].
      * destruct (Nat.eqb_spec j k); [congruence|reflexivity].
      * exact IH.
Qed.

Lemma d_get_del_ne k j d : j <> k -> aget j (adel k d) = aget j d.
Proof.
  intros H. induction d as [|[k' v] d IH]; cbn; [reflexivity|].
  destruct (Nat.eqb_spec k' k) as [->|Hk].
  - destruct (Nat.eqb_spec k j); [congruence|reflexivity].
  - cbn. destruct (k' =? j); [reflexivity|exact IH].
Qed.

Lemma d_get_none k d : aget k d = None <-> ~ In k (akeys d).
Proof.
  unfold akeys. induction d as [|[k' v] d IH]; cbn; [tauto|].
  destruct (Nat.eqb_spec k' k) as [->|Hk]; [split; [discriminate|tauto]|].
  rewrite IH. tauto.
Qed.
Lemma d_mem_in k d : amem k d = true <-> In k (akeys d).
Proof.
  unfold amem. destruct (aget k d) eqn:E.
  - split; [|reflexivity]. intros _. destruct (in_dec Nat.eq_dec k (akeys d)) as [H|H]; [exact H|].
    apply d_get_none in H. congruence.
  - apply d_get_none in E. split; [discriminate|contradiction].
Qed.
Lemma d_mem_false k d : amem k d = false <-> ~ In k (akeys d).
Proof. rewrite <- d_mem_in. destruct (amem k d); split; congruence. Qed.

Lemma d_get_del_eq k d : NoDup (akeys d) -> aget k (adel k d) = None.
Proof.
  unfold akeys. induction d as [|[k' v] d IH]; cbn; intros ND; [reflexivity|].
  inversion ND as [|? ? Hn ND']; subst.
  destruct (Nat.eqb_spec k' k) as [->|Hk].
  - apply d_get_none. exact Hn.
  - cbn. destruct (Nat.eqb_spec k' k); [contradiction|]. apply IH, ND'.
Qed.

Lemma d_keys_del_in k j d : In j (akeys (adel k d)) -> In j (akeys d).
Proof.
  unfold akeys. induction d as [|[k' v] d IH]; cbn; [tauto|].
  destruct (k' =? k); cbn; [tauto|]. intros [H|H]; [left; exact H|right; apply IH, H].
Qed.
Lemma d_nodup_del k d : NoDup (akeys d) -> NoDup (akeys (adel k d)).
Proof.
  unfold akeys. induction d as [|[k' v] d IH]; cbn; intros ND; [constructor|].
  inversion ND as [|? ? Hn ND']; subst. destruct (k' =? k); [exact ND'|].
  cbn. constructor; [|apply IH, ND']. intros H. apply Hn. apply (d_keys_del_in k k' d H).
Qed.

Lemma d_keys_set_in k (v : A) d : In k (akeys d) -> akeys (aset k v d) = akeys d.
Proof.
  unfold akeys. induction d as [|[k' w] d IH]; cbn; [tauto|].
  destruct (Nat.eqb_spec k' k) as [->|Hk]; [reflexivity|]. intros [H|H]; [congruence|]. cbn. f_equal. apply IH, H.
Qed.
Lemma d_keys_set_notin k (v : A) d : ~ In k (akeys d) -> akeys (aset k v d) = akeys d ++ [k].
Proof.
  unfold akeys. induction d as [|[k' w] d IH]; cbn; [reflexivity|].
  intros H. destruct (Nat.eqb_spec k' k); [subst; tauto|]. cbn. f_equal. apply IH. tauto.
Qed.
Lemma d_nodup_set k (v : A) d : NoDup (akeys d) -> NoDup (akeys (aset k v d)).
Proof.
  intros ND. destruct (in_dec Nat.eq_dec k (akeys d)) as [H|H].
  - rewrite d_keys_set_in by exact H. exact ND.
  - rewrite d_keys_set_notin by exact H.
    apply NoDup_rev in ND. rewrite <- (rev_involutive (akeys d ++ [k])). apply NoDup_rev.
    rewrite rev_app_distr. cbn. constructor; [|exact ND]. rewrite <- in_rev. exact H.
Qed.
Lemma d_in_keys_set j k (v : A) d : In j (akeys (aset k v d)) <-> j = k \/ In j (akeys d).
Proof.
  destruct (in_dec Nat.eq_dec k (akeys d)) as [H|H].
  - rewrite d_keys_set_in by exact H. split; [tauto|]. intros [->|?]; assumption.
  - rewrite d_keys_set_notin by exact H. rewrite in_app_iff. cbn. intuition.
Qed.
Lemma d_get_in k (v : A) d : aget k d = Some v -> In (k, v) d.
Proof.
  induction d as [|[k' w] d IH]; cbn; [discriminate|].
  destruct (Nat.eqb_spec k' k) as [->|]; [intros [= ->]; left; reflexivity|intros H; right; apply IH, H].
Qed.
Lemma d_in_get k (v : A) d : NoDup (akeys d) -> In (k, v) d -> aget k d = Some v.
Proof.
  unfold akeys. induction d as [|[k' w] d IH]; cbn; intros ND; [tauto|].
  inversion ND as [|? ? Hn ND']; subst. intros [E|H].
  - inversion E; subst. rewrite Nat.eqb_refl. reflexivity.
  - destruct (Nat.eqb_spec k' k) as [->|]; [|apply IH; assumption].
    exfalso. apply Hn. apply (in_map fst) in H. exact H.
Qed.
End DictFacts.

(* ---------- the two views ---------- *)
Definition getL {B} (d : list (nat * list B)) (k : nat) : list B :=
  match aget k d with Some l => l | None => [] end.

Lemma get_node_getL g k : get_node g k = getL (hnodes g) k.
Proof. reflexivity. Qed.
Lemma get_edge_getL g e : get_edge g e = getL (hedges g) e.
Proof. reflexivity. Qed.

Lemma getL_set {B} k j (v : list B) d : getL (aset k v d) j = if Nat.eqb j k then v else getL d j.
Proof. unfold getL. rewrite d_get_set. destruct (j =? k); reflexivity. Qed.
Lemma getL_del_ne {B} k j (d : list (nat * list B)) : j <> k -> getL (adel k d) j = getL d j.
Proof. intros H. unfold getL. rewrite d_get_del_ne by exact H. reflexivity. Qed.
Lemma getL_del_eq {B} k (d : list (nat * list B)) : NoDup (akeys d) -> getL (adel k d) k = [].
Proof. intros H. unfold getL. rewrite d_get_del_eq by exact H. reflexivity. Qed.
Lemma getL_in_mem {B} (d : list (nat * list B)) k x : In x (getL d k) -> amem k d = true.
Proof. unfold getL, amem. destruct (aget k d); [reflexivity|intros []]. Qed.

(* stored lists are never empty (edges dictionary) *)
Definition nonempty_vals {B} (d : list (nat * list B)) : Prop := forall k l, aget k d = Some l -> l <> [].
Lemma nonempty_mem {B} (d : list (nat * list B)) k : nonempty_vals d -> (amem k d = true <-> getL d k <> []).
Proof.
  intros H. unfold amem, getL. destruct (aget k d) as [l|] eqn:E.
  - split; [intros _; apply (H k l E)|reflexivity].
  - split; [discriminate|intros C; exfalso; apply C; reflexivity].
Qed.

Record wf_hg (g : hg) : Prop := {
  wf_nd_nodes : NoDup (akeys (hnodes g));
  wf_nd_edges : NoDup (akeys (hedges g));
  wf_node_nodup : forall k, NoDup (get_node g k);
  wf_edge_nodup : forall e, NoDup (get_edge g e);
  wf_edge_nonempty : nonempty_vals (hedges g);
  wf_inc : forall e k, In k (get_edge g e) <-> In e (get_node g k);
  wf_next : forall k, amem k (hnodes g) = true -> k < hnext g
}.

Lemma wf_intro nd ed out sz nx :
  NoDup (akeys nd) -> NoDup (akeys ed) -> (forall k, NoDup (getL nd k)) -> (forall e, NoDup (getL ed e)) ->
  nonempty_vals ed -> (forall e k, In k (getL ed e) <-> In e (getL nd k)) ->
  (forall k, amem k nd = true -> k < nx) -> wf_hg (mkHG nd ed out sz nx).
Proof. intros. constructor; assumption. Qed.

(* ---------- remove_node ---------- *)
Definition rm_step (i : nat) (ed : list (ix * list nat)) (e : ix) : list (ix * list nat) :=
  match aget e ed with
  | None => ed
  | Some l => let l' := remove_nat i l in match l' with [] => adel e ed | _ => aset e l' ed end
  end.

Lemma remove_node_unfold i g :
  remove_node i g = (mkHG (adel i (hnodes g)) (fold_left (rm_step i) (get_node g i) (hedges g)) (hout g) (hsz g) (hnext g),
                     get_node g i).
Proof. reflexivity. Qed.

Lemma rm_step_get i ed e0 e : NoDup (akeys ed) ->
  getL (rm_step i ed e0) e = if Nat.eqb e e0 then remove_nat i (getL ed e0) else getL ed e.
Proof.
  intros ND. unfold rm_step. destruct (aget e0 ed) as [l|] eqn:E0.
  - cbn zeta. destruct (remove_nat i l) as [|x l'] eqn:El.
    + destruct (Nat.eqb_spec e e0) as [->|Hne].
      * rewrite getL_del_eq by exact ND. unfold getL. rewrite E0. symmetry. exact El.
      * apply getL_del_ne, Hne.
    + rewrite getL_set. destruct (e =? e0); [|reflexivity]. unfold getL. rewrite E0. symmetry. exact El.
  - destruct (Nat.eqb_spec e e0) as [->|]; [|reflexivity]. unfold getL. rewrite E0. reflexivity.
Qed.
Lemma rm_step_nodup i ed e0 : NoDup (akeys ed) -> NoDup (akeys (rm_step i ed e0)).
Proof.
  intros ND. unfold rm_step. destruct (aget e0 ed) as [l|]; [|exact ND]. cbn zeta.
  destruct (remove_nat i l); [apply d_nodup_del, ND|apply d_nodup_set, ND].
Qed.
Lemma rm_step_nonempty i ed e0 : NoDup (akeys ed) -> nonempty_vals ed -> nonempty_vals (rm_step i ed e0).
Proof.
  intros ND H. unfold rm_step. destruct (aget e0 ed) as [l|] eqn:E0; [|exact H]. cbn zeta.
  destruct (remove_nat i l) as [|x l'] eqn:El; intros k v Hk.
  - destruct (Nat.eq_dec k e0) as [->|Hne]; [rewrite d_get_del_eq in Hk by exact ND; discriminate|].
    rewrite d_get_del_ne in Hk by exact Hne. apply (H k v Hk).
  - rewrite d_get_set in Hk. destruct (k =? e0); [inversion Hk; discriminate|apply (H k v Hk)].
Qed.

Lemma rm_fold i inds : forall ed, NoDup (akeys ed) -> nonempty_vals ed ->
  let ed' := fold_left (rm_step i) inds ed in
  NoDup (akeys ed') /\ nonempty_vals ed' /\
  forall e, getL ed' e = if memb e inds then remove_nat i (getL ed e) else getL ed e.
Proof.
  induction inds as [|e0 inds IH]; intros ed ND NE; cbn [fold_left].
  - cbn. repeat split; assumption.
  - destruct (IH (rm_step i ed e0) (rm_step_nodup i ed e0 ND) (rm_step_nonempty i ed e0 ND NE)) as (A & B & C).
    cbn zeta in *. split; [exact A|split; [exact B|]]. intros e. rewrite C, !rm_step_get by exact ND.
    cbn [memb existsb]. fold (memb e inds).
    destruct (Nat.eqb_spec e e0) as [->|Hne]; cbn [orb].
    + destruct (memb e0 inds); [apply remove_nat_idem|reflexivity].
    + reflexivity.
Qed.

Theorem remove_node_spec i g : wf_hg g ->
  let g' := fst (remove_node i g) in
  snd (remove_node i g) = get_node g i /\
  (forall k, get_node g' k = if Nat.eqb k i then [] else get_node g k) /\
  (forall k, amem k (hnodes g') = amem k (hnodes g) && negb (Nat.eqb k i)) /\
  (forall e, get_edge g' e = remove_nat i (get_edge g e)) /\
  hsz g' = hsz g /\ hout g' = hout g /\ hnext g' = hnext g /\ wf_hg g'.
Proof.
  intros W. rewrite remove_node_unfold. cbn [fst snd].
  destruct (rm_fold i (get_node g i) (hedges g) (wf_nd_edges g W) (wf_edge_nonempty g W)) as (A & B & C).
  cbn zeta in *.
  assert (HN : forall k, getL (adel i (hnodes g)) k = if k =? i then [] else get_node g k).
  { intros k. destruct (Nat.eqb_spec k i) as [->|Hne]; [apply getL_del_eq, (wf_nd_nodes g W)|apply getL_del_ne, Hne]. }
  assert (HM : forall k, amem k (adel i (hnodes g)) = amem k (hnodes g) && negb (k =? i)).
  { intros k. unfold amem. destruct (Nat.eqb_spec k i) as [->|Hne].
    - rewrite d_get_del_eq by apply (wf_nd_nodes g W). rewrite andb_false_r. reflexivity.
    - rewrite d_get_del_ne by exact Hne. rewrite andb_true_r. reflexivity. }
  assert (HE : forall e, getL (fold_left (rm_step i) (get_node g i) (hedges g)) e = remove_nat i (get_edge g e)).
  { intros e. rewrite C. change (getL (hedges g) e) with (get_edge g e).
    destruct (memb e (get_node g i)) eqn:E; [reflexivity|].
    symmetry. apply remove_nat_notin. intros Hin. apply (wf_inc g W) in Hin. apply memb_false in E. contradiction. }
  split; [reflexivity|]. split; [exact HN|]. split; [exact HM|]. split; [exact HE|].
  split; [reflexivity|]. split; [reflexivity|]. split; [reflexivity|].
  apply wf_intro.
  - apply d_nodup_del, (wf_nd_nodes g W).
  - exact A.
  - intros k. rewrite HN. destruct (k =? i); [constructor|apply (wf_node_nodup g W)].
  - intros e. rewrite HE. apply nodup_remove_nat, (wf_edge_nodup g W).
  - exact B.
  - intros e k. rewrite HE, HN, in_remove_nat, (wf_inc g W).
    destruct (Nat.eqb_spec k i) as [->|Hne]; cbn; tauto.
  - intros k Hk. rewrite HM in Hk. apply andb_true_iff in Hk. apply (wf_next g W), Hk.
Qed.

(* ---------- add_node ---------- *)
Lemma add_node_unfold inds g :
  add_node inds g =
  (mkHG (aset (next_node g) inds (hnodes g))
        (fold_left (fun ed e => edges_append e (next_node g) ed) inds (hedges g)) (hout g) (hsz g) (S (next_node g)),
   next_node g).
Proof. reflexivity. Qed.

Lemma next_node_fresh g : wf_hg g -> next_node g = hnext g.
Proof.
  intros W. unfold next_node. cbn [next_free].
  destruct (amem (hnext g) (hnodes g)) eqn:E; [|reflexivity].
  apply (wf_next g W) in E. lia.
Qed.

Lemma edges_append_get e k ed e' :
  getL (edges_append e k ed) e' = if Nat.eqb e' e then getL ed e ++ [k] else getL ed e'.
Proof.
  unfold edges_append. rewrite getL_set. destruct (e' =? e); [|reflexivity].
  unfold getL. destruct (aget e ed); reflexivity.
Qed.
Lemma edges_append_nonempty e k ed : nonempty_vals ed -> nonempty_vals (edges_append e k ed).
Proof.
  intros H e' l Hl. unfold edges_append in Hl. rewrite d_get_set in Hl.
  destruct (e' =? e); [|apply (H e' l Hl)]. inversion Hl. destruct (aget e ed) as [l0|]; [destruct l0|]; discriminate.
Qed.

Lemma append_fold k inds : forall ed, NoDup inds -> NoDup (akeys ed) -> nonempty_vals ed ->
  let ed' := fold_left (fun ed e => edges_append e k ed) inds ed in
  NoDup (akeys ed') /\ nonempty_vals ed' /\
  forall e, getL ed' e = if memb e inds then getL ed e ++ [k] else getL ed e.
Proof.
  induction inds as [|e0 inds IH]; intros ed NI ND NE; cbn [fold_left].
  - cbn. repeat split; assumption.
  - inversion NI as [|? ? Hn NI']; subst.
    destruct (IH (edges_append e0 k ed) NI' (d_nodup_set _ _ _ ND) (edges_append_nonempty e0 k ed NE)) as (A & B & C).
    cbn zeta in *. split; [exact A|split; [exact B|]]. intros e. rewrite C, !edges_append_get.
    cbn [memb existsb]. fold (memb e inds).
    destruct (Nat.eqb_spec e e0) as [->|Hne]; cbn [orb].
    + assert (E : memb e0 inds = false) by (apply memb_false, Hn). rewrite E. reflexivity.
    + reflexivity.
Qed.

Theorem add_node_spec inds g : wf_hg g -> NoDup inds ->
  let g' := fst (add_node inds g) in
  let k := snd (add_node inds g) in
  k = hnext g /\ amem k (hnodes g) = false /\
  (forall k', get_node g' k' = if Nat.eqb k' k then inds else get_node g k') /\
  (forall k', amem k' (hnodes g') = Nat.eqb k' k || amem k' (hnodes g)) /\
  (forall e, get_edge g' e = if memb e inds then get_edge g e ++ [k] else get_edge g e) /\
  hsz g' = hsz g /\ hout g' = hout g /\ wf_hg g' /\ hnext g' = S k.
Proof.
  intros W NI. rewrite add_node_unfold. cbn [fst snd]. rewrite (next_node_fresh g W).
  set (k := hnext g).
  assert (Hfresh : amem k (hnodes g) = false).
  { destruct (amem k (hnodes g)) eqn:E; [|reflexivity]. apply (wf_next g W) in E. unfold k in E. lia. }
  destruct (append_fold k inds (hedges g) NI (wf_nd_edges g W) (wf_edge_nonempty g W)) as (A & B & C). cbn zeta in *.
  assert (HN : forall k', getL (aset k inds (hnodes g)) k' = if k' =? k then inds else get_node g k') by (intros; apply getL_set).
  assert (HM : forall k', amem k' (aset k inds (hnodes g)) = (k' =? k) || amem k' (hnodes g)).
  { intros k'. unfold amem. rewrite d_get_set. destruct (k' =? k); reflexivity. }
  split; [reflexivity|]. split; [exact Hfresh|]. split; [exact HN|]. split; [exact HM|]. split; [exact C|].
  split; [reflexivity|]. split; [reflexivity|]. split; [|reflexivity].
  assert (Hk_noedge : forall e, ~ In k (get_edge g e)).
  { intros e Hin. apply (wf_inc g W) in Hin. apply getL_in_mem in Hin. congruence. }
  apply wf_intro.
  - apply d_nodup_set, (wf_nd_nodes g W).
  - exact A.
  - intros k'. rewrite HN. destruct (k' =? k); [exact NI|apply (wf_node_nodup g W)].
  - intros e. rewrite C. change (getL (hedges g) e) with (get_edge g e).
    destruct (memb e inds); [|apply (wf_edge_nodup g W)].
    pose proof (wf_edge_nodup g W e) as ND.
    apply NoDup_rev in ND. rewrite <- (rev_involutive (get_edge g e ++ [k])). apply NoDup_rev.
    rewrite rev_app_distr. cbn. constructor; [|exact ND]. rewrite <- in_rev. apply Hk_noedge.
  - exact B.
  - intros e k'. rewrite C, HN. change (getL (hedges g) e) with (get_edge g e).
    destruct (Nat.eqb_spec k' k) as [->|Hne].
    + destruct (memb e inds) eqn:E.
      * rewrite in_app_iff. cbn. apply memb_In in E. tauto.
      * apply memb_false in E. split; [intros H; exfalso; apply (Hk_noedge e H)|contradiction].
    + destruct (memb e inds).
      * rewrite in_app_iff, (wf_inc g W). cbn. split; [intros [H|[H|[]]]; [exact H|congruence]|tauto].
      * apply (wf_inc g W).
  - intros k' Hk'. rewrite HM in Hk'. apply orb_true_iff in Hk'. destruct Hk' as [Hk'|Hk'].
    + apply Nat.eqb_eq in Hk'. subst. unfold k. lia.
    + apply (wf_next g W) in Hk'. unfold k. lia.
Qed.

(* ---------- contract ---------- *)
Lemma hg_contract_unfold i j g :
  hg_contract i j g =
  let g1 := fst (remove_node i g) in
  let g2 := fst (remove_node j g1) in
  add_node (unique (filter (fun e => amem e (hedges g2) || memb e (hout g2)) (get_node g i ++ get_node g1 j))) g2.
Proof. reflexivity. Qed.

Lemma list_nonempty_ex (l : list nat) : l <> [] <-> exists x, In x l.
Proof. destruct l as [|x l]; split; [congruence|intros [x []]|intros _; exists x; left; reflexivity|discriminate]. Qed.

Theorem contract_spec i j g : wf_hg g -> i <> j ->
  let g' := fst (hg_contract i j g) in
  let k := snd (hg_contract i j g) in
  let inds := get_node g' k in
  k = hnext g /\ hnext g' = S k /\ wf_hg g' /\ hsz g' = hsz g /\ hout g' = hout g /\
  (forall k', get_node g' k' = if Nat.eqb k' k then inds
                               else if Nat.eqb k' i || Nat.eqb k' j then [] else get_node g k') /\
  (forall k', amem k' (hnodes g') = Nat.eqb k' k || (amem k' (hnodes g) && negb (Nat.eqb k' i) && negb (Nat.eqb k' j))) /\
  NoDup inds /\
  (forall e, In e inds <-> (In e (get_node g i) \/ In e (get_node g j)) /\
                           ((exists k', k' <> i /\ k' <> j /\ In k' (get_edge g e)) \/ In e (hout g))) /\
  (forall e, get_edge g' e = if memb e inds then remove_nat j (remove_nat i (get_edge g e)) ++ [k]
                             else remove_nat j (remove_nat i (get_edge g e))).
Proof.
  intros W Hij. rewrite hg_contract_unfold. cbn zeta.
  destruct (remove_node_spec i g W) as (_ & N1 & M1 & E1 & S1 & O1 & X1 & W1). cbn zeta in *.
  set (g1 := fst (remove_node i g)) in *.
  destruct (remove_node_spec j g1 W1) as (_ & N2 & M2 & E2 & S2 & O2 & X2 & W2). cbn zeta in *.
  set (g2 := fst (remove_node j g1)) in *.
  set (inds := unique (filter (fun e => amem e (hedges g2) || memb e (hout g2)) (get_node g i ++ get_node g1 j))).
  assert (NI : NoDup inds) by apply hu_unique_nodup.
  destruct (add_node_spec inds g2 W2 NI) as (K & Fr & N3 & M3 & E3 & S3 & O3 & W3 & X3). cbn zeta in *.
  set (g' := fst (add_node inds g2)) in *. set (k := snd (add_node inds g2)) in *.
  assert (Hj1 : get_node g1 j = get_node g j).
  { rewrite N1. destruct (Nat.eqb_spec j i); [congruence|reflexivity]. }
  assert (Hinds : get_node g' k = inds) by (rewrite N3, Nat.eqb_refl; reflexivity).
  rewrite Hinds.
  assert (HE2 : forall e, get_edge g2 e = remove_nat j (remove_nat i (get_edge g e))) by (intros e; rewrite E2, E1; reflexivity).
  split; [rewrite K, X2, X1; reflexivity|]. split; [exact X3|]. split; [exact W3|].
  split; [rewrite S3, S2, S1; reflexivity|]. split; [rewrite O3, O2, O1; reflexivity|].
  split; [|split; [|split; [exact NI|split]]].
  - intros k'. rewrite N3. destruct (k' =? k); [reflexivity|]. rewrite N2, N1.
    destruct (k' =? j), (k' =? i); reflexivity.
  - intros k'. rewrite M3, M2, M1. reflexivity.
  - intros e. unfold inds. rewrite hu_unique_in, filter_In, in_app_iff, Hj1, orb_true_iff, memb_In, O2, O1.
    rewrite (nonempty_mem (hedges g2) e (wf_edge_nonempty g2 W2)).
    change (getL (hedges g2) e) with (get_edge g2 e). rewrite HE2, list_nonempty_ex.
    split; intros [A [B|B]]; (split; [exact A|]); [left|right; exact B|left|right; exact B].
    + destruct B as (x & Hx). rewrite !in_remove_nat in Hx. exists x. tauto.
    + destruct B as (x & Hx). exists x. rewrite !in_remove_nat. tauto.
  - intros e. rewrite E3, HE2. reflexivity.
Qed.

(* ---------- hg_init ---------- *)
(* a boolean well-formedness checker, used for the initial graph *)
Definition nodup_nat_b (l : list nat) : bool := Nat.eqb (length (unique l)) (length l).
Definition wf_hg_b (g : hg) : bool :=
  nodup_nat_b (akeys (hnodes g)) && nodup_nat_b (akeys (hedges g)) &&
  forallb (fun kv => nodup_nat_b (snd kv)) (hnodes g) &&
  forallb (fun kv => nodup_nat_b (snd kv) && negb (Nat.eqb (length (snd kv)) 0)) (hedges g) &&
  forallb (fun kv => forallb (fun e => memb (fst kv) (get_edge g e)) (snd kv)) (hnodes g) &&
  forallb (fun kv => forallb (fun k => memb (fst kv) (get_node g k)) (snd kv)) (hedges g) &&
  forallb (fun kv => Nat.ltb (fst kv) (hnext g)) (hnodes g).

Lemma hu_unique_acc_len l : forall seen, length (unique_acc seen l) <= length l.
Proof. induction l as [|x l IH]; intros seen; cbn; [lia|]. destruct (memb x seen); cbn; [specialize (IH seen)|specialize (IH (x :: seen))]; lia. Qed.

Lemma nodup_nat_b_sound l : nodup_nat_b l = true -> NoDup l.
Proof.
  unfold nodup_nat_b, unique. intros H. apply Nat.eqb_eq in H.
  assert (G : forall l seen, length (unique_acc seen l) = length l -> NoDup l /\ forall x, In x l -> ~ In x seen).
  { clear. induction l as [|x l IH]; intros seen H; cbn in *; [split; [constructor|tauto]|].
    destruct (memb x seen) eqn:E.
    - pose proof (hu_unique_acc_len l seen). lia.
    - cbn in H. injection H as H. destruct (IH (x :: seen) H) as [ND Hd]. apply memb_false in E.
      split; [constructor; [|exact ND]|].
      + intros Hx. apply (Hd x Hx). left; reflexivity.
      + intros y [<-|Hy]; [exact E|]. intros Hs. apply (Hd y Hy). right; exact Hs. }
  apply (G l [] H).
Qed.

Theorem wf_hg_b_sound g : wf_hg_b g = true -> wf_hg g.
Proof.
  unfold wf_hg_b. rewrite !andb_true_iff. intros [[[[[[A B] C] D] E] F] G].
  apply nodup_nat_b_sound in A. apply nodup_nat_b_sound in B.
  rewrite forallb_forall in C, D, E, F, G.
  assert (GN : forall k l, aget k (hnodes g) = Some l -> In (k, l) (hnodes g)) by (intros; apply d_get_in; assumption).
  assert (GE : forall k l, aget k (hedges g) = Some l -> In (k, l) (hedges g)) by (intros; apply d_get_in; assumption).
  constructor.
  - exact A.
  - exact B.
  - intros k. unfold get_node. destruct (aget k (hnodes g)) as [l|] eqn:Ek; [|constructor].
    apply nodup_nat_b_sound. apply (C (k, l) (GN k l Ek)).
  - intros e. unfold get_edge. destruct (aget e (hedges g)) as [l|] eqn:Ee; [|constructor].
    specialize (D (e, l) (GE e l Ee)). cbn in D. apply andb_true_iff in D. apply nodup_nat_b_sound, D.
  - intros e l Ee. specialize (D (e, l) (GE e l Ee)). cbn in D. apply andb_true_iff in D. destruct D as [_ D].
    destruct l; [discriminate|discriminate].
  - intros e k. split.
    + intros Hk. unfold get_edge in Hk. destruct (aget e (hedges g)) as [l|] eqn:Ee; [|destruct Hk].
      specialize (F (e, l) (GE e l Ee)). cbn in F. rewrite forallb_forall in F. apply memb_In, (F k Hk).
    + intros He. unfold get_node in He. destruct (aget k (hnodes g)) as [l|] eqn:Ek; [|destruct He].
      specialize (E (k, l) (GN k l Ek)). cbn in E. rewrite forallb_forall in E. apply memb_In, (E e He).
  - intros k Hk. apply d_mem_in in Hk. unfold akeys in Hk. apply in_map_iff in Hk. destruct Hk as ([k' l] & <- & Hin).
    specialize (G (k', l) Hin). cbn in G. apply Nat.ltb_lt, G.
Qed.

(* hg_init is the empty graph with the inputs added one by one, hence well formed *)
Lemma aset_notin_app {A} k (v : A) d : ~ In k (akeys d) -> aset k v d = d ++ [(k, v)].
Proof.
  unfold akeys. induction d as [|[k' w] d IH]; cbn; intros H; [reflexivity|].
  destruct (Nat.eqb_spec k' k); [subst; tauto|]. f_equal. apply IH. tauto.
Qed.

Definition init_edges (its : list (nat * list ix)) (ed : list (ix * list nat)) : list (ix * list nat) :=
  fold_left (fun ed it => fold_left (fun ed e => edges_append e (fst it) ed) (snd it) ed) its ed.

Lemma init_from inputs : forall g, wf_hg g -> (forall t, In t inputs -> NoDup t) ->
  let g' := mkHG (hnodes g ++ combine (seq (hnext g) (length inputs)) inputs)
                 (init_edges (combine (seq (hnext g) (length inputs)) inputs) (hedges g))
                 (hout g) (hsz g) (hnext g + length inputs) in
  wf_hg g'.
Proof.
  induction inputs as [|t inputs IH]; intros g W HN; cbn zeta.
  - cbn. rewrite app_nil_r, Nat.add_0_r. destruct g; exact W.
  - assert (Nt : NoDup t) by (apply HN; left; reflexivity).
    destruct (add_node_spec t g W Nt) as (K & Fr & _ & _ & _ & S3 & O3 & W3 & X3). cbn zeta in *.
    rewrite add_node_unfold in *. cbn [fst snd] in *. rewrite (next_node_fresh g W) in *.
    specialize (IH _ W3 (fun t' Ht' => HN t' (or_intror Ht'))). cbn zeta in IH.
    cbn [hnodes hedges hout hsz hnext] in IH.
    rewrite (aset_notin_app (hnext g) t (hnodes g)) in IH by (apply d_mem_false, Fr).
    rewrite <- app_assoc in IH. cbn [length seq combine]. cbn [Datatypes.app] in IH.
    unfold init_edges in *. cbn [fold_left fst snd].
    replace (hnext g + S (length inputs)) with (S (hnext g) + length inputs) by lia. exact IH.
Qed.

Theorem hg_init_wf inputs out sz : (forall t, In t inputs -> NoDup t) -> wf_hg (hg_init inputs out sz).
Proof.
  intros HN.
  assert (W0 : wf_hg (mkHG [] [] out sz 0)).
  { apply wf_intro; cbn; try constructor; try tauto; try discriminate; intros; try constructor; discriminate. }
  pose proof (init_from inputs _ W0 HN) as W. cbn zeta in W. cbn [hnodes hedges hout hsz hnext Datatypes.app Nat.add] in W.
  exact W.
Qed.

(* ---------- remove_edge ---------- *)
Definition re_step (e0 : ix) (nd : list (nat * list ix)) (i : nat) : list (nat * list ix) :=
  match aget i nd with None => nd | Some l => aset i (remove_nat e0 l) nd end.

Lemma remove_edge_unfold e g :
  remove_edge e g = mkHG (fold_left (re_step e) (get_edge g e) (hnodes g)) (adel e (hedges g)) (hout g) (hsz g) (hnext g).
Proof. reflexivity. Qed.

Lemma re_fold e0 ks : forall nd,
  let nd' := fold_left (re_step e0) ks nd in
  akeys nd' = akeys nd /\
  forall k, getL nd' k = if memb k ks then remove_nat e0 (getL nd k) else getL nd k.
Proof.
  induction ks as [|i ks IH]; intros nd; cbn [fold_left]; [cbn; split; reflexivity|].
  destruct (IH (re_step e0 nd i)) as [A B]. cbn zeta in *.
  assert (Hk : akeys (re_step e0 nd i) = akeys nd).
  { unfold re_step. destruct (aget i nd) as [l|] eqn:E; [|reflexivity].
    apply d_keys_set_in. destruct (in_dec Nat.eq_dec i (akeys nd)) as [H|H]; [exact H|].
    apply d_get_none in H. congruence. }
  assert (Hg : forall k, getL (re_step e0 nd i) k = if k =? i then remove_nat e0 (getL nd i) else getL nd k).
  { intros k. unfold re_step. destruct (aget i nd) as [l|] eqn:E.
    - rewrite getL_set. destruct (k =? i); [|reflexivity]. unfold getL. rewrite E. reflexivity.
    - destruct (Nat.eqb_spec k i) as [->|]; [|reflexivity]. unfold getL. rewrite E. reflexivity. }
  split; [rewrite A; exact Hk|]. intros k. rewrite B, !Hg. cbn [memb existsb]. fold (memb k ks).
  destruct (Nat.eqb_spec k i) as [->|Hne]; cbn [orb].
  - destruct (memb i ks); [apply remove_nat_idem|reflexivity].
  - reflexivity.
Qed.

Lemma nonempty_del {B} k (d : list (nat * list B)) : NoDup (akeys d) -> nonempty_vals d -> nonempty_vals (adel k d).
Proof.
  intros ND H k' l Hl. destruct (Nat.eq_dec k' k) as [->|Hne].
  - rewrite d_get_del_eq in Hl by exact ND. discriminate.
  - rewrite d_get_del_ne in Hl by exact Hne. apply (H k' l Hl).
Qed.

Theorem remove_edge_spec e0 g : wf_hg g ->
  let g' := remove_edge e0 g in
  akeys (hnodes g') = akeys (hnodes g) /\
  (forall k, get_node g' k = remove_nat e0 (get_node g k)) /\
  (forall e, get_edge g' e = if Nat.eqb e e0 then [] else get_edge g e) /\
  hsz g' = hsz g /\ hout g' = hout g /\ hnext g' = hnext g /\ wf_hg g'.
Proof.
  intros W. rewrite remove_edge_unfold. cbn zeta.
  destruct (re_fold e0 (get_edge g e0) (hnodes g)) as [A B]. cbn zeta in *.
  set (nd' := fold_left (re_step e0) (get_edge g e0) (hnodes g)) in *.
  assert (HN : forall k, getL nd' k = remove_nat e0 (get_node g k)).
  { intros k. rewrite B. change (getL (hnodes g) k) with (get_node g k).
    destruct (memb k (get_edge g e0)) eqn:E; [reflexivity|].
    symmetry. apply remove_nat_notin. intros Hin. apply (wf_inc g W) in Hin. apply memb_false in E. contradiction. }
  assert (HE : forall e, getL (adel e0 (hedges g)) e = if e =? e0 then [] else get_edge g e).
  { intros e. destruct (Nat.eqb_spec e e0) as [->|Hne]; [apply getL_del_eq, (wf_nd_edges g W)|apply getL_del_ne, Hne]. }
  split; [exact A|]. split; [exact HN|]. split; [exact HE|]. split; [reflexivity|]. split; [reflexivity|]. split; [reflexivity|].
  apply wf_intro.
  - pose proof (wf_nd_nodes g W) as ND. rewrite <- A in ND. exact ND.
  - apply d_nodup_del, (wf_nd_edges g W).
  - intros k. rewrite HN. apply nodup_remove_nat, (wf_node_nodup g W).
  - intros e. rewrite HE. destruct (e =? e0); [constructor|apply (wf_edge_nodup g W)].
  - apply nonempty_del; [apply (wf_nd_edges g W)|apply (wf_edge_nonempty g W)].
  - intros e k. rewrite HE, HN, in_remove_nat.
    destruct (Nat.eqb_spec e e0) as [->|Hne]; [cbn; tauto|]. rewrite (wf_inc g W). tauto.
  - intros k Hk. apply (wf_next g W). apply d_mem_in.
    assert (Hin : In k (akeys nd')) by (apply d_mem_in, Hk). rewrite A in Hin. exact Hin.
Qed.

(* removing a list of edges *)
Definition remove_all (dels : list ix) (l : list ix) : list ix := filter (fun e => negb (memb e dels)) l.

Lemma remove_all_cons d dels l : remove_all (d :: dels) l = remove_all dels (remove_nat d l).
Proof.
  unfold remove_all, remove_nat. rewrite filter_filter_comm_and. apply filter_ext. intros e.
  cbn [memb existsb]. fold (memb e dels). destruct (e =? d), (memb e dels); reflexivity.
Qed.
Lemma in_remove_all dels l e : In e (remove_all dels l) <-> In e l /\ ~ In e dels.
Proof. unfold remove_all. rewrite filter_In, negb_true_iff, memb_false. tauto. Qed.

Lemma remove_all_nil l : remove_all [] l = l.
Proof. unfold remove_all. cbn. induction l as [|x l IHl]; cbn; [reflexivity|]. f_equal. exact IHl. Qed.

Theorem remove_edges_spec dels : forall g, wf_hg g ->
  let g' := fold_left (fun g e => remove_edge e g) dels g in
  akeys (hnodes g') = akeys (hnodes g) /\
  (forall k, get_node g' k = remove_all dels (get_node g k)) /\
  (forall e, get_edge g' e = if memb e dels then [] else get_edge g e) /\
  hsz g' = hsz g /\ hout g' = hout g /\ hnext g' = hnext g /\ wf_hg g'.
Proof.
  induction dels as [|d dels IH]; intros g W; cbn [fold_left].
  - cbn zeta. split; [reflexivity|]. split; [intros k; symmetry; apply remove_all_nil|].
    split; [intros e; reflexivity|]. split; [reflexivity|]. split; [reflexivity|]. split; [reflexivity|exact W].
  - destruct (remove_edge_spec d g W) as (A1 & N1 & E1 & S1 & O1 & X1 & W1). cbn zeta in *.
    destruct (IH (remove_edge d g) W1) as (A2 & N2 & E2 & S2 & O2 & X2 & W2). cbn zeta in *.
    split; [rewrite A2; exact A1|]. split; [|split; [|split; [rewrite S2; exact S1|split; [rewrite O2; exact O1|split; [rewrite X2; exact X1|exact W2]]]]].
    + intros k. rewrite N2, N1, remove_all_cons. reflexivity.
    + intros e. rewrite E2, E1. cbn [memb existsb]. fold (memb e dels).
      destruct (e =? d), (memb e dels); reflexivity.
Qed.

Lemma wf_set_sz g sz : wf_hg g -> wf_hg (mkHG (hnodes g) (hedges g) (hout g) sz (hnext g)).
Proof. intros W. destruct W. constructor; assumption. Qed.

(* ---------- compress ---------- *)
Lemma zget_zset_hg k v d e : zget e (zset k v d) = if Nat.eqb e k then v else zget e d.
Proof.
  induction d as [|[k' w] d IH]; cbn.
  - destruct (Nat.eqb_spec k e) as [->|]; [rewrite Nat.eqb_refl; reflexivity|].
    destruct (Nat.eqb_spec e k); [congruence|reflexivity].
  - destruct (Nat.eqb_spec k' k) as [->|Hk]; cbn.
    + destruct (Nat.eqb_spec k e) as [->|]; [rewrite Nat.eqb_refl; reflexivity|].
      destruct (Nat.eqb_spec e k); [congruence|reflexivity].
    + destruct (Nat.eqb_spec k' e) as [->|].
      * destruct (Nat.eqb_spec e k); [congruence|reflexivity].
      * exact IH.
Qed.

Lemma compress_group_spec chi es g : wf_hg g ->
  let g' := compress_group chi g es in
  akeys (hnodes g') = akeys (hnodes g) /\
  (forall k, get_node g' k = remove_all (tl es) (get_node g k)) /\
  (forall e, get_edge g' e = if memb e (tl es) then [] else get_edge g e) /\
  hout g' = hout g /\ hnext g' = hnext g /\ wf_hg g' /\
  (forall e, zget e (hsz g') = match es with
                               | e_keep :: _ :: _ => if Nat.eqb e e_keep then Z.min (edges_size g es) chi else zget e (hsz g)
                               | _ => zget e (hsz g)
                               end).
Proof.
  intros W.
  assert (Triv : forall l : list ix, remove_all [] l = l).
  { intros l. unfold remove_all. cbn. induction l as [|x l IHl]; cbn; [reflexivity|]. f_equal. exact IHl. }
  destruct es as [|e_keep [|e2 es]].
  - cbn [compress_group tl]. cbn zeta. split; [reflexivity|]. split; [intros k; symmetry; apply Triv|].
    split; [intros e; reflexivity|]. split; [reflexivity|]. split; [reflexivity|]. split; [exact W|reflexivity].
  - cbn [compress_group tl]. cbn zeta. split; [reflexivity|]. split; [intros k; symmetry; apply Triv|].
    split; [intros e; reflexivity|]. split; [reflexivity|]. split; [reflexivity|]. split; [exact W|reflexivity].
  - unfold compress_group. cbn [tl].
    destruct (remove_edges_spec (e2 :: es) g W) as (A & N & E & S & O & X & W'). cbn zeta in *.
    set (g1 := fold_left (fun g e => remove_edge e g) (e2 :: es) g) in *.
    split; [exact A|]. split; [exact N|]. split; [exact E|]. split; [exact O|]. split; [exact X|].
    split; [apply (wf_set_sz g1 _ W')|].
    intros e. cbn [hsz]. rewrite zget_zset_hg. rewrite S. reflexivity.
Qed.

(* ---------- groups of parallel edges ---------- *)
Definition gdels (GL : list (list ix)) : list ix := flat_map (@tl ix) GL.

Lemma memb_app x l1 l2 : memb x (l1 ++ l2) = memb x l1 || memb x l2.
Proof. unfold memb. apply existsb_app. Qed.
Lemma remove_all_app d1 d2 l : remove_all (d1 ++ d2) l = remove_all d2 (remove_all d1 l).
Proof.
  unfold remove_all. rewrite filter_filter_comm_and. apply filter_ext. intros e.
  rewrite memb_app. destruct (memb e d1), (memb e d2); reflexivity.
Qed.

Theorem compress_groups_spec chi (GL : list (list ix)) : forall g, wf_hg g ->
  let g' := fold_left (fun g es => compress_group chi g es) GL g in
  akeys (hnodes g') = akeys (hnodes g) /\
  (forall k, get_node g' k = remove_all (gdels GL) (get_node g k)) /\
  (forall e, get_edge g' e = if memb e (gdels GL) then [] else get_edge g e) /\
  hout g' = hout g /\ hnext g' = hnext g /\ wf_hg g'.
Proof.
  induction GL as [|es GL IH]; intros g W; cbn [fold_left].
  - cbn zeta. split; [reflexivity|]. split; [intros k; symmetry; apply remove_all_nil|].
    split; [intros e; reflexivity|]. split; [reflexivity|]. split; [reflexivity|exact W].
  - destruct (compress_group_spec chi es g W) as (A1 & N1 & E1 & O1 & X1 & W1 & _). cbn zeta in *.
    destruct (IH (compress_group chi g es) W1) as (A2 & N2 & E2 & O2 & X2 & W2). cbn zeta in *.
    split; [rewrite A2; exact A1|]. split; [|split; [|split; [rewrite O2; exact O1|split; [rewrite X2; exact X1|exact W2]]]].
    + intros k. rewrite N2, N1. unfold gdels. cbn [flat_map]. rewrite remove_all_app. reflexivity.
    + intros e. rewrite E2, E1. unfold gdels. cbn [flat_map]. rewrite memb_app.
      destruct (memb e (tl es)), (memb e (flat_map (@tl ix) GL)); reflexivity.
Qed.

(* sizes: only the first edge of a group with at least two edges is rewritten *)
Definition is_head (GL : list (list ix)) (e : ix) : Prop :=
  exists es, In es GL /\ 2 <= length es /\ hd 0 es = e.

Lemma compress_groups_sz_other chi GL : forall g e, ~ is_head GL e ->
  zget e (hsz (fold_left (fun g es => compress_group chi g es) GL g)) = zget e (hsz g).
Proof.
  induction GL as [|es GL IH]; intros g e Hh; cbn [fold_left]; [reflexivity|].
  rewrite IH.
  - destruct es as [|e1 [|e2 es]]; [reflexivity|reflexivity|].
    unfold compress_group. cbn [hsz]. rewrite zget_zset_hg.
    destruct (Nat.eqb_spec e e1) as [->|]; [|].
    + exfalso. apply Hh. exists (e1 :: e2 :: es). split; [left; reflexivity|]. split; [cbn; lia|reflexivity].
    + clear. generalize (e2 :: es) as dels. intros dels. revert g. induction dels as [|d dels IHd]; intros g; cbn [fold_left]; [reflexivity|].
      rewrite IHd. reflexivity.
  - intros (es' & Hin & Hl & Hd). apply Hh. exists es'. split; [right; exact Hin|split; assumption].
Qed.

Lemma nodup_app_disj {A} (a b : list A) : NoDup (a ++ b) -> NoDup a /\ NoDup b /\ forall x, In x a -> ~ In x b.
Proof.
  induction a as [|x a IH]; cbn; intros H; [split; [constructor|split; [exact H|tauto]]|].
  inversion H as [|? ? Hn H']; subst. destruct (IH H') as (Na & Nb & Hd).
  split; [constructor; [|exact Na]|split; [exact Nb|]].
  - intros Hx. apply Hn, in_app_iff. left; exact Hx.
  - intros y [<-|Hy]; [intros Hb; apply Hn, in_app_iff; right; exact Hb|apply Hd, Hy].
Qed.

Lemma size_of_ext s1 s2 es : (forall e, In e es -> zget e s1 = zget e s2) -> size_of s1 es = size_of s2 es.
Proof. intros H. unfold size_of. f_equal. apply map_ext_in. exact H. Qed.

Lemma compress_groups_sz_head chi GL : forall g, NoDup (concat GL) ->
  forall es, In es GL -> 2 <= length es ->
  zget (hd 0 es) (hsz (fold_left (fun g es => compress_group chi g es) GL g)) = Z.min (size_of (hsz g) es) chi.
Proof.
  induction GL as [|es0 GL IH]; intros g ND es Hin Hl; [destruct Hin|].
  cbn [fold_left]. cbn [concat] in ND. destruct (nodup_app_disj _ _ ND) as (N0 & NG & Hd).
  destruct Hin as [->|Hin].
  - rewrite compress_groups_sz_other.
    + destruct es as [|e1 [|e2 es]]; [cbn in Hl; lia|cbn in Hl; lia|].
      unfold compress_group. cbn [hsz hd]. rewrite zget_zset_hg, Nat.eqb_refl. reflexivity.
    + intros (es' & Hin' & Hl' & Hd'). destruct es as [|e1 es]; [cbn in Hl; lia|]. cbn [hd] in *.
      apply (Hd e1); [left; reflexivity|]. apply in_concat. exists es'. split; [exact Hin'|].
      destruct es' as [|x es']; [cbn in Hl'; lia|]. cbn in Hd'. subst x. left; reflexivity.
  - rewrite (IH (compress_group chi g es0) NG es Hin Hl). f_equal.
    apply size_of_ext. intros e He.
    destruct es0 as [|e1 [|e2 es0]]; [reflexivity|reflexivity|].
    unfold compress_group. cbn [hsz]. rewrite zget_zset_hg.
    destruct (Nat.eqb_spec e e1) as [->|].
    + exfalso. apply (Hd e1); [left; reflexivity|]. apply in_concat. exists es. split; assumption.
    + clear. generalize (e2 :: es0) as dels. intros dels. revert g. induction dels as [|d dels IHd]; intros g; cbn [fold_left]; [reflexivity|].
      rewrite IHd. reflexivity.
Qed.

(* incidences: a partition of the non-output edges into groups with equal node sets *)
Definition gflat (gr : list (list nat * list ix)) : list ix := flat_map snd gr.

Lemma hg_list_nat_eqb_eq a b : list_nat_eqb a b = true <-> a = b.
Proof.
  unfold list_nat_eqb. revert b. induction a as [|x a IH]; intros [|y b]; cbn; split; try discriminate; try reflexivity.
  - intros H. apply andb_true_iff in H. destruct H as [H1 H2]. apply Nat.eqb_eq in H1. apply IH in H2. congruence.
  - intros H. inversion H; subst. rewrite Nat.eqb_refl. apply IH. reflexivity.
Qed.

Lemma group_add_perm key e gr : Permutation (gflat (group_add key e gr)) (e :: gflat gr).
Proof.
  induction gr as [|[k es] gr IH]; cbn [group_add].
  - cbn. reflexivity.
  - destruct (list_nat_eqb k key).
    + unfold gflat. cbn [flat_map snd]. rewrite <- app_assoc. cbn [Datatypes.app].
      symmetry. apply Permutation_middle.
    + unfold gflat in *. cbn [flat_map snd]. rewrite IH. symmetry. apply Permutation_middle.
Qed.

Lemma group_add_keys (P : list nat -> ix -> Prop) key e gr :
  (forall kv x, In kv gr -> In x (snd kv) -> P (fst kv) x) -> P key e ->
  forall kv x, In kv (group_add key e gr) -> In x (snd kv) -> P (fst kv) x.
Proof.
  induction gr as [|[k es] gr IH]; cbn [group_add]; intros H He kv x Hin Hx.
  - destruct Hin as [<-|[]]. cbn in *. destruct Hx as [<-|[]]. exact He.
  - destruct (list_nat_eqb k key) eqn:Ek.
    + apply hg_list_nat_eqb_eq in Ek. subst k. destruct Hin as [<-|Hin].
      * cbn [fst snd] in *. apply in_app_iff in Hx. destruct Hx as [Hx|[<-|[]]]; [|exact He].
        apply (H (key, es) x); [left; reflexivity|exact Hx].
      * apply (H kv x); [right; exact Hin|exact Hx].
    + destruct Hin as [<-|Hin].
      * apply (H (k, es) x); [left; reflexivity|exact Hx].
      * apply IH; try assumption. intros kv' x' Hin' Hx'. apply (H kv' x'); [right; exact Hin'|exact Hx'].
Qed.

Definition inc_step (g : hg) (gr : list (list nat * list ix)) (e : ix) :=
  if memb e (hout g) then gr else group_add (fset (get_edge g e)) e gr.

Lemma incidences_fold g (L : list ix) : forall gr,
  (forall kv x, In kv gr -> In x (snd kv) -> fst kv = fset (get_edge g x)) ->
  let gs := fold_left (inc_step g) L gr in
  Permutation (gflat gs) (rev (filter (fun e => negb (memb e (hout g))) L) ++ gflat gr) /\
  (forall kv x, In kv gs -> In x (snd kv) -> fst kv = fset (get_edge g x)).
Proof.
  induction L as [|e L IH]; intros gr H; cbn [fold_left filter].
  - cbn. split; [reflexivity|exact H].
  - assert (H' : forall kv x, In kv (inc_step g gr e) -> In x (snd kv) -> fst kv = fset (get_edge g x)).
    { unfold inc_step. destruct (memb e (hout g)); [exact H|].
      apply (group_add_keys (fun key x => key = fset (get_edge g x))); [exact H|reflexivity]. }
    destruct (IH (inc_step g gr e) H') as [A B]. cbn zeta in *. split; [|exact B].
    rewrite A. unfold inc_step. destruct (memb e (hout g)); cbn [negb]; [reflexivity|].
    cbn [rev]. rewrite group_add_perm, <- app_assoc. cbn [Datatypes.app]. reflexivity.
Qed.

Theorem incidences_spec g (L : list ix) : NoDup L ->
  let gs := incidences g L in
  NoDup (gflat gs) /\
  (forall x, In x (gflat gs) <-> In x L /\ ~ In x (hout g)) /\
  (forall kv x, In kv gs -> In x (snd kv) -> fst kv = fset (get_edge g x)).
Proof.
  intros ND. cbn zeta.
  destruct (incidences_fold g L [] (fun kv x H => match H with end)) as [A B]. cbn zeta in *.
  change (fold_left (inc_step g) L []) with (incidences g L) in *.
  rewrite app_nil_r in A.
  split; [|split; [|exact B]].
  - apply (Permutation_NoDup (Permutation_sym A)). apply NoDup_rev, NoDup_filter, ND.
  - intros x. split.
    + intros H. apply (Permutation_in _ A) in H. rewrite <- in_rev, filter_In, negb_true_iff, memb_false in H. exact H.
    + intros H. apply (Permutation_in _ (Permutation_sym A)). rewrite <- in_rev, filter_In, negb_true_iff, memb_false. exact H.
Qed.

Lemma gflat_concat gs : gflat gs = concat (map snd gs).
Proof. unfold gflat. induction gs as [|kv gs IH]; cbn; [reflexivity|]. rewrite IH. reflexivity. Qed.

Lemma hg_compress_unfold chi edges g :
  hg_compress chi edges g =
  fold_left (fun g es => compress_group chi g es) (map snd (incidences g (unique edges))) g.
Proof.
  unfold hg_compress. generalize (incidences g (unique edges)) as gs. intros gs. revert g.
  induction gs as [|kv gs IH]; intros g; cbn [fold_left map]; [reflexivity|apply IH].
Qed.

(* fset: same elements *)
Lemma in_insert_by (le : nat -> nat -> bool) x l y : In y (insert_by le x l) <-> y = x \/ In y l.
Proof.
  induction l as [|z l IH]; cbn; [intuition|]. destruct (le z x); cbn; [rewrite IH|]; intuition.
Qed.
Lemma in_sort_by (le : nat -> nat -> bool) l y : In y (sort_by le l) <-> In y l.
Proof.
  unfold sort_by. assert (G : forall l acc, In y (fold_left (fun acc x => insert_by le x acc) l acc) <-> In y l \/ In y acc).
  { clear l. induction l as [|x l IH]; intros acc; cbn [fold_left]; [cbn; tauto|].
    rewrite IH, in_insert_by. cbn. intuition. }
  rewrite G. cbn. tauto.
Qed.
Lemma in_fset l y : In y (fset l) <-> In y l.
Proof. unfold fset. rewrite hu_unique_in. apply in_sort_by. Qed.
Lemma fset_eq_in l1 l2 : fset l1 = fset l2 -> forall y, In y l1 <-> In y l2.
Proof. intros E y. rewrite <- (in_fset l1), <- (in_fset l2), E. reflexivity. Qed.

(* ---------- compress, top level ---------- *)
Theorem compress_spec chi edges g : wf_hg g ->
  let GL := map snd (incidences g (unique edges)) in
  let D := gdels GL in
  let g' := hg_compress chi edges g in
  akeys (hnodes g') = akeys (hnodes g) /\
  (forall k, get_node g' k = remove_all D (get_node g k)) /\
  (forall e, get_edge g' e = if memb e D then [] else get_edge g e) /\
  hout g' = hout g /\ hnext g' = hnext g /\ wf_hg g' /\
  NoDup (concat GL) /\
  (forall es e, In es GL -> In e es -> In e edges /\ ~ In e (hout g)) /\
  (forall es e1 e2, In es GL -> In e1 es -> In e2 es -> forall k, In k (get_edge g e1) <-> In k (get_edge g e2)) /\
  (forall e, ~ is_head GL e -> zget e (hsz g') = zget e (hsz g)) /\
  (forall es, In es GL -> 2 <= length es -> zget (hd 0 es) (hsz g') = Z.min (size_of (hsz g) es) chi).
Proof.
  intros W. cbn zeta. rewrite hg_compress_unfold.
  destruct (incidences_spec g (unique edges) (hu_unique_nodup edges)) as (ND & Hin & Hkey). cbn zeta in *.
  set (gs := incidences g (unique edges)) in *.
  destruct (compress_groups_spec chi (map snd gs) g W) as (A & N & E & O & X & W').
  cbn zeta in *.
  split; [exact A|]. split; [exact N|]. split; [exact E|]. split; [exact O|]. split; [exact X|]. split; [exact W'|].
  rewrite gflat_concat in ND. split; [exact ND|].
  assert (Hmem : forall es e, In es (map snd gs) -> In e es -> In e (gflat gs)).
  { intros es e Hes He. rewrite gflat_concat. apply in_concat. exists es. split; assumption. }
  split; [|split; [|split]].
  - intros es e Hes He. pose proof (Hmem es e Hes He) as Hm. apply Hin in Hm. rewrite hu_unique_in in Hm. exact Hm.
  - intros es e1 e2 Hes H1 H2 k. apply in_map_iff in Hes. destruct Hes as (kv & <- & Hkv).
    apply fset_eq_in. rewrite <- (Hkey kv e1 Hkv H1), <- (Hkey kv e2 Hkv H2). reflexivity.
  - intros e He. apply compress_groups_sz_other, He.
  - intros es Hes Hl. apply compress_groups_sz_head; assumption.
Qed.

(* a removed edge has a keeper with the same node set that is not removed *)
Lemma head_not_del GL : NoDup (concat GL) -> forall es, In es GL -> forall h, hd_error es = Some h -> ~ In h (gdels GL).
Proof.
  induction GL as [|es0 GL IH]; intros ND es Hin h Hh; [destruct Hin|].
  cbn [concat] in ND. destruct (nodup_app_disj _ _ ND) as (N0 & NG & Hd).
  unfold gdels. cbn [flat_map]. rewrite in_app_iff. fold (gdels GL). intros [H|H].
  - (* h in tl es0 *)
    destruct Hin as [->|Hin].
    + destruct es as [|x es]; [discriminate|]. cbn in Hh. inversion Hh; subst x. cbn [tl] in H.
      inversion N0; contradiction.
    + assert (In h es0) by (destruct es0; [destruct H|right; exact H]).
      apply (Hd h H0). apply in_concat. exists es. split; [exact Hin|].
      destruct es; [discriminate|]. cbn in Hh. inversion Hh; subst. left; reflexivity.
  - destruct Hin as [->|Hin].
    + assert (In h es) by (destruct es; [discriminate|cbn in Hh; inversion Hh; subst; left; reflexivity]).
      apply (Hd h H0). unfold gdels in H. apply in_flat_map in H. destruct H as (es' & Hes' & Ht).
      apply in_concat. exists es'. split; [exact Hes'|]. destruct es'; [destruct Ht|right; exact Ht].
    + apply (IH NG es Hin h Hh H).
Qed.

Lemma del_has_keeper GL d : In d (gdels GL) ->
  exists es h, In es GL /\ hd_error es = Some h /\ In d (tl es) /\ In d es /\ In h es /\ 2 <= length es.
Proof.
  unfold gdels. intros H. apply in_flat_map in H. destruct H as (es & Hes & Ht).
  destruct es as [|h es]; [destruct Ht|]. exists (h :: es), h. cbn [tl] in Ht.
  split; [exact Hes|]. split; [reflexivity|]. split; [exact Ht|]. split; [right; exact Ht|]. split; [left; reflexivity|].
  destruct es; [destruct Ht|cbn; lia].
Qed.

(* TdotFacts.v -- the tensordot (+ transpose) path of Contractor.__call__ computes
   the same array as the einsum path:
   (T1) numpy.tensordot(l, r, get_tensordot_axes) is the two-operand einsum whose
        output lists the unshared indices of l, then those of r;
   (T2) get_tensordot_perm + numpy.transpose turn that into the einsum with the
        node's declared axis order;
   (T3) hence an ITdot instruction and the IEinsum instruction of the same node
        store the same array (same shape, same entry at every position). *)
From Coq Require Import Lia Permutation.
From Ctg Require Import Base Net Einsum Program BaseFacts NetFacts SumOver TreeEval ProgramFacts.
Open Scope Z_scope.

(* ------------------------------------------------------------------ *)
(* find_pos                                                            *)
Definition posn (l : list nat) (x : nat) : nat :=
  match find_pos x l with Some p => p | None => 0%nat end.

Lemma find_pos_some x l : forall p, find_pos x l = Some p -> (p < length l)%nat /\ nth p l 0%nat = x.
Proof.
  induction l as [|y l IH]; cbn [find_pos]; intros p H; [discriminate|].
  destruct (Nat.eqb_spec y x) as [->|Hne].
  - injection H as <-. cbn. split; [lia|reflexivity].
  - destruct (find_pos x l) as [q|] eqn:E; [|discriminate]. injection H as <-.
    destruct (IH q eq_refl) as [H1 H2]. cbn. split; [lia|exact H2].
Qed.

Lemma find_pos_none x l : find_pos x l = None <-> ~ In x l.
Proof.
  induction l as [|y l IH]; cbn [find_pos In]; [tauto|].
  destruct (Nat.eqb_spec y x) as [->|Hne].
  - split; [discriminate|]. intros H; exfalso; apply H; left; reflexivity.
  - destruct (find_pos x l) as [q|] eqn:E.
    + split; [discriminate|]. intros H. exfalso. apply H. right.
      destruct (in_dec Nat.eq_dec x l) as [Hin|Hn]; [exact Hin|]. apply IH in Hn. discriminate.
    + split; [|reflexivity]. intros _ [H|H]; [congruence|]. apply (proj1 IH eq_refl H).
Qed.

Lemma find_pos_in x l : In x l -> exists p, find_pos x l = Some p.
Proof.
  intros H. destruct (find_pos x l) as [p|] eqn:E; [exists p; reflexivity|].
  apply find_pos_none in E. contradiction.
Qed.

Lemma find_pos_memb x l : memb x l = true -> exists p, find_pos x l = Some p.
Proof. intros H. apply find_pos_in, memb_In, H. Qed.

Lemma find_pos_memb_false x l : memb x l = false -> find_pos x l = None.
Proof. intros H. apply find_pos_none, memb_false, H. Qed.

Lemma find_pos_mid pre x suf : ~ In x pre -> find_pos x (pre ++ x :: suf) = Some (length pre).
Proof.
  induction pre as [|y pre IH]; intros Hn; cbn [app find_pos length].
  - rewrite Nat.eqb_refl. reflexivity.
  - destruct (Nat.eqb_spec y x) as [->|Hne]; [exfalso; apply Hn; left; reflexivity|].
    rewrite IH; [reflexivity|]. intros H; apply Hn; right; exact H.
Qed.

Lemma NoDup_mid_notin {A} (pre : list A) x suf : NoDup (pre ++ x :: suf) -> ~ In x pre.
Proof.
  intros ND Hin. apply NoDup_remove_2 in ND. apply ND. apply in_app_iff. left; exact Hin.
Qed.

Lemma posn_in x l : In x l -> (posn l x < length l)%nat /\ nth (posn l x) l 0%nat = x.
Proof.
  intros H. unfold posn. destruct (find_pos_in x l H) as [p E]. rewrite E.
  apply find_pos_some, E.
Qed.

(* find_pos in a mapped list *)
Lemma find_pos_map_some (g : nat -> nat) i S : forall k, find_pos i (map g S) = Some k ->
  (k < length S)%nat /\ g (nth k S 0%nat) = i.
Proof.
  induction S as [|x S IH]; cbn [map find_pos]; intros k H; [discriminate|].
  destruct (Nat.eqb_spec (g x) i) as [E|Hne].
  - injection H as <-. cbn. split; [lia|exact E].
  - destruct (find_pos i (map g S)) as [q|] eqn:Eq; [|discriminate]. injection H as <-.
    destruct (IH q eq_refl) as [H1 H2]. cbn. split; [lia|exact H2].
Qed.
Lemma find_pos_map_none (g : nat -> nat) i S : find_pos i (map g S) = None ->
  forall x, In x S -> g x <> i.
Proof.
  intros H x Hx E. apply find_pos_none in H. apply H. apply in_map_iff. exists x. tauto.
Qed.

(* ------------------------------------------------------------------ *)
(* get_tensordot_axes: the contracted axes are the positions, in l and in r, of
   the shared indices taken in l-order                                  *)
Definition shared (li ri : list ix) : list ix := filter (fun j => memb j ri) li.

Lemma tdot_axes_snd li ri : forall i,
  snd (tdot_axes_from i li ri) = map (posn ri) (shared li ri).
Proof.
  induction li as [|x li IH]; intros i; cbn [tdot_axes_from shared filter]; [reflexivity|].
  specialize (IH (S i)). destruct (tdot_axes_from (S i) li ri) as [la ra]. cbn [snd] in IH.
  destruct (memb x ri) eqn:E.
  - destruct (find_pos_memb x ri E) as [p Ep]. rewrite Ep. cbn [snd map]. unfold posn at 1. rewrite Ep.
    f_equal. exact IH.
  - rewrite (find_pos_memb_false x ri E). cbn [snd]. exact IH.
Qed.

Lemma tdot_axes_fst li ri : forall i, NoDup li ->
  fst (tdot_axes_from i li ri) = map (fun x => (i + posn li x)%nat) (shared li ri).
Proof.
  induction li as [|x li IH]; intros i ND; cbn [tdot_axes_from shared filter]; [reflexivity|].
  inversion ND as [|? ? Hnin ND']; subst.
  specialize (IH (S i) ND'). destruct (tdot_axes_from (S i) li ri) as [la ra]. cbn [fst] in IH.
  assert (Htail : map (fun y => (S i + posn li y)%nat) (filter (fun j => memb j ri) li)
                = map (fun y => (i + posn (x :: li) y)%nat) (filter (fun j => memb j ri) li)).
  { apply map_ext_in. intros y Hy. apply filter_In in Hy. destruct Hy as [Hy _].
    unfold posn. cbn [find_pos]. destruct (Nat.eqb_spec x y) as [->|Hne]; [contradiction|].
    destruct (find_pos_in y li Hy) as [p Ep]. rewrite Ep. lia. }
  destruct (memb x ri) eqn:E.
  - destruct (find_pos_memb x ri E) as [p Ep]. rewrite Ep. cbn [fst map].
    f_equal.
    + unfold posn. cbn [find_pos]. rewrite Nat.eqb_refl. lia.
    + rewrite IH. exact Htail.
  - rewrite (find_pos_memb_false x ri E). cbn [fst]. rewrite IH. exact Htail.
Qed.

Lemma tdot_axes_spec li ri : NoDup li ->
  tdot_axes_from 0 li ri = (map (posn li) (shared li ri), map (posn ri) (shared li ri)).
Proof.
  intros ND. rewrite (surjective_pairing (tdot_axes_from 0 li ri)).
  rewrite tdot_axes_snd, tdot_axes_fst by exact ND. reflexivity.
Qed.

(* ------------------------------------------------------------------ *)
(* an operand with index list xs whose contracted axes are the positions of the
   indices S (all of them in xs): the position numpy.tensordot reads          *)
Section Operand.
Variable xs cs : list ix.
Hypothesis NDx : NoDup xs.
Hypothesis Sin : forall x, In x cs -> In x xs.
Let ax := map (posn xs) cs.
Let fr := fun x => negb (memb x cs).

Lemma ax_some pre y suf k : xs = pre ++ y :: suf ->
  find_pos (length pre) ax = Some k -> (k < length cs)%nat /\ nth k cs 0%nat = y.
Proof.
  intros E H. destruct (find_pos_map_some _ _ _ _ H) as [Hk Hp]. split; [exact Hk|].
  assert (Hin : In (nth k cs 0%nat) xs) by (apply Sin, nth_In, Hk).
  destruct (posn_in _ _ Hin) as [_ Hn].
  assert (Hn' : nth (length pre) xs 0%nat = nth k cs 0%nat) by (rewrite <- Hp; exact Hn).
  rewrite <- Hn'. rewrite E. rewrite app_nth2 by lia. rewrite Nat.sub_diag. reflexivity.
Qed.
Lemma ax_none pre y suf : xs = pre ++ y :: suf ->
  find_pos (length pre) ax = None -> ~ In y cs.
Proof.
  intros E H Hin. apply (find_pos_map_none _ _ _ H y Hin).
  unfold posn. rewrite E. rewrite find_pos_mid; [reflexivity|].
  apply (NoDup_mid_notin pre y suf). rewrite <- E. exact NDx.
Qed.

Lemma build_from_operand (e : env) : forall suf pre, xs = pre ++ suf ->
  build_from (length pre) (length suf) ax (map e cs) (map e (filter fr suf)) = map e suf.
Proof.
  induction suf as [|y suf IH]; intros pre E; cbn [length build_from map]; [reflexivity|].
  assert (E' : xs = (pre ++ [y]) ++ suf) by (rewrite <- app_assoc; exact E).
  specialize (IH (pre ++ [y]) E'). rewrite app_length in IH. cbn [length] in IH.
  replace (length pre + 1)%nat with (Datatypes.S (length pre)) in IH by lia.
  cbn [filter]. change (fr y) with (negb (memb y cs)).
  destruct (find_pos (length pre) ax) as [k|] eqn:Ek.
  - destruct (ax_some pre y suf k E Ek) as [Hk Hy].
    assert (M : memb y cs = true) by (apply memb_In; rewrite <- Hy; apply nth_In, Hk).
    rewrite M. cbn [negb]. f_equal; [|exact IH].
    rewrite <- Hy. rewrite (nth_indep _ 0%nat (e 0%nat)) by (rewrite map_length; exact Hk).
    apply map_nth.
  - pose proof (ax_none pre y suf E Ek) as Hn.
    assert (M : memb y cs = false) by (apply memb_false, Hn).
    rewrite M. cbn [negb map]. f_equal. exact IH.
Qed.

Lemma free_shape_operand (d : ix -> nat) : forall suf pre, xs = pre ++ suf ->
  map snd (filter (fun iv => negb (memb (fst iv) ax))
                  (combine (seq (length pre) (length suf)) (map d suf))) = map d (filter fr suf).
Proof.
  induction suf as [|y suf IH]; intros pre E; cbn [length seq map combine filter]; [reflexivity|].
  assert (E' : xs = (pre ++ [y]) ++ suf) by (rewrite <- app_assoc; exact E).
  specialize (IH (pre ++ [y]) E'). rewrite app_length in IH. cbn [length] in IH.
  replace (length pre + 1)%nat with (Datatypes.S (length pre)) in IH by lia.
  cbn [fst]. change (fr y) with (negb (memb y cs)).
  destruct (memb (length pre) ax) eqn:Em.
  - destruct (find_pos_memb _ _ Em) as [k Ek].
    destruct (ax_some pre y suf k E Ek) as [Hk Hy].
    assert (M : memb y cs = true) by (apply memb_In; rewrite <- Hy; apply nth_In, Hk).
    rewrite M. cbn [negb]. exact IH.
  - pose proof (ax_none pre y suf E (find_pos_memb_false _ _ Em)) as Hn.
    assert (M : memb y cs = false) by (apply memb_false, Hn).
    rewrite M. cbn [negb map snd]. f_equal. exact IH.
Qed.

Lemma free_shape_op (d : ix -> nat) : free_shape (map d xs) ax = map d (filter fr xs).
Proof.
  unfold free_shape. rewrite map_length. apply (free_shape_operand d xs []). reflexivity.
Qed.
Lemma build_from_op (e : env) :
  build_from 0 (length xs) ax (map e cs) (map e (filter fr xs)) = map e xs.
Proof. apply (build_from_operand e xs []). reflexivity. Qed.
End Operand.

(* ------------------------------------------------------------------ *)
(* tuples <-> assignments                                              *)
Lemma sum_tuples_sum_over (size : ix -> nat) S : NoDup S -> forall (e : env) (f : list nat -> Z),
  sum_tuples (map size S) f = sum_over size S e (fun e' => f (map e' S)).
Proof.
  induction S as [|x S IH]; intros ND e f; cbn [map sum_tuples sum_over]; [reflexivity|].
  inversion ND as [|? ? Hnin ND']; subst.
  apply sumn_ext. intros v _.
  rewrite (IH ND' (upd e x v) (fun c => f (v :: c))).
  apply sum_over_ext_on. intros e' He'. f_equal. f_equal.
  rewrite (He' x Hnin). unfold upd. rewrite Nat.eqb_refl. reflexivity.
Qed.

(* ------------------------------------------------------------------ *)
(* env_of on a duplicate-free index list reads the position list back  *)
Lemma env_of_map bg is_ : NoDup is_ -> forall pos, length pos = length is_ ->
  map (env_of bg is_ pos) is_ = pos.
Proof.
  induction is_ as [|x is_ IH]; intros ND pos HL.
  - destruct pos; [reflexivity|discriminate].
  - destruct pos as [|v pos]; [discriminate|]. cbn [length] in HL.
    inversion ND as [|? ? Hnin ND']; subst.
    cbn [env_of map]. f_equal.
    + unfold upd. rewrite Nat.eqb_refl. reflexivity.
    + rewrite <- (IH ND' pos) at 2 by lia. apply map_ext_in. intros j Hj.
      unfold upd. destruct (Nat.eqb_spec j x) as [->|]; [contradiction|reflexivity].
Qed.

Lemma env_of_nth bg is_ pos k : NoDup is_ -> length pos = length is_ -> (k < length is_)%nat ->
  env_of bg is_ pos (nth k is_ 0%nat) = nth k pos 0%nat.
Proof.
  intros ND HL Hk.
  transitivity (nth k (map (env_of bg is_ pos) is_) 0%nat); [|rewrite env_of_map by assumption; reflexivity].
  rewrite (nth_indep (map (env_of bg is_ pos) is_) 0%nat (env_of bg is_ pos 0%nat)) by (rewrite map_length; exact Hk).
  symmetry. apply map_nth.
Qed.

(* ------------------------------------------------------------------ *)
(* symdiff                                                             *)
Lemma in_symdiff li ri j : In j (symdiff li ri) <-> (In j li /\ ~ In j ri) \/ (In j ri /\ ~ In j li).
Proof.
  unfold symdiff. rewrite in_app_iff, !filter_In, !negb_true_iff, !memb_false. tauto.
Qed.

Lemma NoDup_filter {A} (f : A -> bool) l : NoDup l -> NoDup (filter f l).
Proof.
  induction 1 as [|x l Hn ND IH]; cbn [filter]; [constructor|].
  destruct (f x); [|exact IH]. constructor; [|exact IH]. intros H. apply filter_In in H. tauto.
Qed.

Lemma NoDup_app_intro {A} (a b : list A) : NoDup a -> NoDup b -> (forall x, In x a -> ~ In x b) -> NoDup (a ++ b).
Proof.
  induction 1 as [|x a Hn ND IH]; intros NDb Hd; cbn [app]; [exact NDb|].
  constructor.
  - rewrite in_app_iff. intros [H|H]; [contradiction|]. apply (Hd x); [left; reflexivity|exact H].
  - apply IH; [exact NDb|]. intros y Hy. apply Hd. right; exact Hy.
Qed.

Lemma NoDup_symdiff li ri : NoDup li -> NoDup ri -> NoDup (symdiff li ri).
Proof.
  intros NDl NDr. unfold symdiff. apply NoDup_app_intro; try (apply NoDup_filter; assumption).
  intros x H1 H2. apply filter_In in H1, H2. destruct H1 as [H1 _]. destruct H2 as [_ H2].
  apply negb_true_iff, memb_false in H2. contradiction.
Qed.

Lemma in_shared li ri j : In j (shared li ri) <-> In j li /\ In j ri.
Proof. unfold shared. rewrite filter_In, memb_In. tauto. Qed.

(* the free indices of each operand, as tensordot sees them (not contracted) and
   as symdiff lists them (absent from the other operand) *)
Lemma free_left li ri :
  filter (fun x => negb (memb x (shared li ri))) li = filter (fun j => negb (memb j ri)) li.
Proof.
  apply filter_ext_in. intros x Hx. f_equal.
  destruct (memb x ri) eqn:E.
  - apply memb_In, in_shared. split; [exact Hx|apply memb_In, E].
  - apply memb_false. rewrite in_shared. apply memb_false in E. tauto.
Qed.
Lemma free_right li ri :
  filter (fun x => negb (memb x (shared li ri))) ri = filter (fun j => negb (memb j li)) ri.
Proof.
  apply filter_ext_in. intros x Hx. f_equal.
  destruct (memb x li) eqn:E.
  - apply memb_In, in_shared. split; [apply memb_In, E|exact Hx].
  - apply memb_false. rewrite in_shared. apply memb_false in E. tauto.
Qed.

Lemma length_filter_split {A} (f : A -> bool) l :
  (length l = length (filter f l) + length (filter (fun x => negb (f x)) l))%nat.
Proof. induction l as [|x l IH]; cbn [filter length]; [reflexivity|]. destruct (f x); cbn [negb length]; lia. Qed.

Lemma firstn_map_app (f : nat -> nat) (a b : list nat) :
  firstn (length a) (map f a ++ map f b) = map f a.
Proof.
  rewrite <- (map_length f a). rewrite firstn_app, Nat.sub_diag, firstn_all. cbn [firstn]. apply app_nil_r.
Qed.
Lemma skipn_map_app (f : nat -> nat) (a b : list nat) :
  skipn (length a) (map f a ++ map f b) = map f b.
Proof.
  rewrite <- (map_length f a). rewrite skipn_app, Nat.sub_diag, skipn_all. reflexivity.
Qed.

(* ------------------------------------------------------------------ *)
(* (T1) numpy.tensordot with get_tensordot_axes is the einsum onto symdiff *)
Section T1.
Variable n : net.
Notation dim := (dim n).

Lemma esummed2_perm li ri pi : NoDup li ->
  (forall j, In j pi <-> In j (symdiff li ri)) ->
  Permutation (esummed2 li ri pi) (shared li ri).
Proof.
  intros NDl Hpi. apply NoDup_Permutation; [apply NoDup_unique|apply NoDup_filter, NDl|].
  intros j. unfold esummed2. rewrite in_unique, filter_In, in_app_iff, negb_true_iff, memb_false, Hpi.
  rewrite in_symdiff, in_shared.
  destruct (in_dec Nat.eq_dec j li), (in_dec Nat.eq_dec j ri); tauto.
Qed.

Lemma prod_respects li ri (A B : ptensor) : respects (fun e : env => A (map e li) * B (map e ri)).
Proof.
  intros e1 e2 He. f_equal; f_equal; apply map_ext; intros; apply He.
Qed.

Theorem tdot_is_einsum (bg : env) li ri (A B : ptensor) : NoDup li -> NoDup ri ->
  let la := fst (tdot_axes_from 0 li ri) in
  let ra := snd (tdot_axes_from 0 li ri) in
  let td := symdiff li ri in
  let X := tdot (map dim li, A) (map dim ri, B) la ra in
  fst X = map dim td /\
  forall pos, length pos = length td -> snd X pos = einsum2 n bg li ri td A B pos.
Proof.
  intros NDl NDr la ra td X.
  set (S := shared li ri).
  assert (Ela : la = map (posn li) S) by (unfold la; rewrite tdot_axes_spec by exact NDl; reflexivity).
  assert (Era : ra = map (posn ri) S) by (unfold ra; rewrite tdot_axes_spec by exact NDl; reflexivity).
  assert (SinL : forall x, In x S -> In x li) by (intros x Hx; apply in_shared in Hx; tauto).
  assert (SinR : forall x, In x S -> In x ri) by (intros x Hx; apply in_shared in Hx; tauto).
  assert (NDS : NoDup S) by (apply NoDup_filter, NDl).
  set (fl := filter (fun j => negb (memb j ri)) li).
  set (fr := filter (fun j => negb (memb j li)) ri).
  assert (Etd : td = fl ++ fr) by reflexivity.
  unfold X, tdot. cbn [fst snd]. split.
  - rewrite Ela, Era. rewrite (free_shape_op li S NDl SinL dim), (free_shape_op ri S NDr SinR dim).
    unfold S. rewrite free_left, free_right. rewrite Etd, map_app. reflexivity.
  - intros pos HL.
    assert (Ecd : map (fun i => nth i (map dim li) 0%nat) la = map dim S).
    { rewrite Ela, map_map. apply map_ext_in. intros x Hx.
      destruct (posn_in x li (SinL x Hx)) as [Hlt Hn].
      rewrite (nth_indep _ 0%nat (dim 0%nat)) by (rewrite map_length; exact Hlt).
      rewrite map_nth. f_equal. exact Hn. }
    rewrite Ecd.
    assert (Enfa : (length (map dim li) - length la)%nat = length fl).
    { rewrite Ela, !map_length.
      pose proof (length_filter_split (fun j => memb j ri) li) as H. cbv beta in H.
      apply Nat.add_sub_eq_l. symmetry. exact H. }
    rewrite Enfa, !map_length.
    unfold einsum2.
    set (env := env_of bg td pos).
    rewrite (sum_over_perm dim _ _ (esummed2_perm li ri td NDl (fun j => iff_refl _)) (NoDup_unique _)
               env _ (prod_respects li ri A B)).
    fold S.
    rewrite (sum_tuples_sum_over dim S NDS env).
    apply sum_over_ext_on. intros e' He'.
    assert (NDtd : NoDup td) by (apply NoDup_symdiff; assumption).
    assert (Hmap : map e' td = pos).
    { rewrite <- (env_of_map bg td NDtd pos HL). apply map_ext_in. intros j Hj.
      apply He'. unfold S. rewrite in_shared. apply in_symdiff in Hj. tauto. }
    rewrite Etd, map_app in Hmap.
    assert (Hf : firstn (length fl) pos = map e' fl).
    { rewrite <- Hmap. apply firstn_map_app. }
    assert (Hs : skipn (length fl) pos = map e' fr).
    { rewrite <- Hmap. apply skipn_map_app. }
    rewrite Hf, Hs. unfold fl, fr. rewrite <- (free_left li ri), <- (free_right li ri). fold S.
    rewrite Ela, Era.
    rewrite (build_from_op li S NDl SinL e'), (build_from_op ri S NDr SinR e'). reflexivity.
Qed.
End T1.

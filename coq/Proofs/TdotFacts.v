(* TdotFacts.v -- the tensordot (+ transpose) path of Contractor.__call__ computes
   the same array as the einsum path:
   (T1) numpy.tensordot(l, r, get_tensordot_axes) is the two-operand einsum whose
        output lists the unshared indices of l, then those of r;
   (T2) get_tensordot_perm + numpy.transpose turn that into the einsum with the
        node's declared axis order;
   (T3) hence an ITdot instruction and the IEinsum instruction of the same node
        store the same array (same shape, same entry at every position). *)
From Coq Require Import Lia Permutation.
From Ctg Require Import Base Net Einsum Program BaseFacts NetFacts SumOver TreeEval ProgramFacts.
Open Scope Z_scope.

(* ------------------------------------------------------------------ *)
(* find_pos                                                            *)
Definition posn (l : list nat) (x : nat) : nat :=
  match find_pos x l with Some p => p | None => 0%nat end.

Lemma find_pos_some x l : forall p, find_pos x l = Some p -> (p < length l)%nat /\ nth p l 0%nat = x.
Proof.
  induction l as [|y l IH]; cbn [find_pos]; intros p H; [discriminate|].
  destruct (Nat.eqb_spec y x) as [->|Hne].
  - injection H as <-. cbn. split; [lia|reflexivity].
  - destruct (find_pos x l) as [q|] eqn:E; [|discriminate]. injection H as <-.
    destruct (IH q eq_refl) as [H1 H2]. cbn. split; [lia|exact H2].
Qed.

Lemma find_pos_none x l : find_pos x l = None <-> ~ In x l.
Proof.
  induction l as [|y l IH]; cbn [find_pos In]; [tauto|].
  destruct (Nat.eqb_spec y x) as [->|Hne].
  - split; [discriminate|]. intros H; exfalso; apply H; left; reflexivity.
  - destruct (find_pos x l) as [q|] eqn:E.
    + split; [discriminate|]. intros H. exfalso. apply H. right.
      destruct (in_dec Nat.eq_dec x l) as [Hin|Hn]; [exact Hin|]. apply IH in Hn. discriminate.
    + split; [|reflexivity]. intros _ [H|H]; [congruence|]. apply (proj1 IH eq_refl H).
Qed.

Lemma find_pos_in x l : In x l -> exists p, find_pos x l = Some p.
Proof.
  intros H. destruct (find_pos x l) as [p|] eqn:E; [exists p; reflexivity|].
  apply find_pos_none in E. contradiction.
Qed.

Lemma find_pos_memb x l : memb x l = true -> exists p, find_pos x l = Some p.
Proof. intros H. apply find_pos_in, memb_In, H. Qed.

Lemma find_pos_memb_false x l : memb x l = false -> find_pos x l = None.
Proof. intros H. apply find_pos_none, memb_false, H. Qed.

Lemma find_pos_mid pre x suf : ~ In x pre -> find_pos x (pre ++ x :: suf) = Some (length pre).
Proof.
  induction pre as [|y pre IH]; intros Hn; cbn [app find_pos length].
  - rewrite Nat.eqb_refl. reflexivity.
  - destruct (Nat.eqb_spec y x) as [->|Hne]; [exfalso; apply Hn; left; reflexivity|].
    rewrite IH; [reflexivity|]. intros H; apply Hn; right; exact H.
Qed.

Lemma NoDup_mid_notin {A} (pre : list A) x suf : NoDup (pre ++ x :: suf) -> ~ In x pre.
Proof.
  intros ND Hin. apply NoDup_remove_2 in ND. apply ND. apply in_app_iff. left; exact Hin.
Qed.

Lemma posn_in x l : In x l -> (posn l x < length l)%nat /\ nth (posn l x) l 0%nat = x.
Proof.
  intros H. unfold posn. destruct (find_pos_in x l H) as [p E]. rewrite E.
  apply find_pos_some, E.
Qed.

(* find_pos in a mapped list *)
Lemma find_pos_map_some (g : nat -> nat) i S : forall k, find_pos i (map g S) = Some k ->
  (k < length S)%nat /\ g (nth k S 0%nat) = i.
Proof.
  induction S as [|x S IH]; cbn [map find_pos]; intros k H; [discriminate|].
  destruct (Nat.eqb_spec (g x) i) as [E|Hne].
  - injection H as <-. cbn. split; [lia|exact E].
  - destruct (find_pos i (map g S)) as [q|] eqn:Eq; [|discriminate]. injection H as <-.
    destruct (IH q eq_refl) as [H1 H2]. cbn. split; [lia|exact H2].
Qed.
Lemma find_pos_map_none (g : nat -> nat) i S : find_pos i (map g S) = None ->
  forall x, In x S -> g x <> i.
Proof.
  intros H x Hx E. apply find_pos_none in H. apply H. apply in_map_iff. exists x. tauto.
Qed.

(* ------------------------------------------------------------------ *)
(* get_tensordot_axes: the contracted axes are the positions, in l and in r, of
   the shared indices taken in l-order                                  *)
Definition shared (li ri : list ix) : list ix := filter (fun j => memb j ri) li.

Lemma tdot_axes_snd li ri : forall i,
  snd (tdot_axes_from i li ri) = map (posn ri) (shared li ri).
Proof.
  induction li as [|x li IH]; intros i; cbn [tdot_axes_from shared filter]; [reflexivity|].
  specialize (IH (S i)). destruct (tdot_axes_from (S i) li ri) as [la ra]. cbn [snd] in IH.
  destruct (memb x ri) eqn:E.
  - destruct (find_pos_memb x ri E) as [p Ep]. rewrite Ep. cbn [snd map]. unfold posn at 1. rewrite Ep.
    f_equal. exact IH.
  - rewrite (find_pos_memb_false x ri E). cbn [snd]. exact IH.
Qed.

Lemma tdot_axes_fst li ri : forall i, NoDup li ->
  fst (tdot_axes_from i li ri) = map (fun x => (i + posn li x)%nat) (shared li ri).
Proof.
  induction li as [|x li IH]; intros i ND; cbn [tdot_axes_from shared filter]; [reflexivity|].
  inversion ND as [|? ? Hnin ND']; subst.
  specialize (IH (S i) ND'). destruct (tdot_axes_from (S i) li ri) as [la ra]. cbn [fst] in IH.
  assert (Htail : map (fun y => (S i + posn li y)%nat) (filter (fun j => memb j ri) li)
                = map (fun y => (i + posn (x :: li) y)%nat) (filter (fun j => memb j ri) li)).
  { apply map_ext_in. intros y Hy. apply filter_In in Hy. destruct Hy as [Hy _].
    unfold posn. cbn [find_pos]. destruct (Nat.eqb_spec x y) as [->|Hne]; [contradiction|].
    destruct (find_pos_in y li Hy) as [p Ep]. rewrite Ep. lia. }
  destruct (memb x ri) eqn:E.
  - destruct (find_pos_memb x ri E) as [p Ep]. rewrite Ep. cbn [fst map].
    f_equal.
    + unfold posn. cbn [find_pos]. rewrite Nat.eqb_refl. lia.
    + rewrite IH. exact Htail.
  - rewrite (find_pos_memb_false x ri E). cbn [fst]. rewrite IH. exact Htail.
Qed.

Lemma tdot_axes_spec li ri : NoDup li ->
  tdot_axes_from 0 li ri = (map (posn li) (shared li ri), map (posn ri) (shared li ri)).
Proof.
  intros ND. rewrite (surjective_pairing (tdot_axes_from 0 li ri)).
  rewrite tdot_axes_snd, tdot_axes_fst by exact ND. reflexivity.
Qed.

(* ------------------------------------------------------------------ *)
(* an operand with index list xs whose contracted axes are the positions of the
   indices S (all of them in xs): the position numpy.tensordot reads          *)
Section Operand.
Variable xs cs : list ix.
Hypothesis NDx : NoDup xs.
Hypothesis Sin : forall x, In x cs -> In x xs.
Let ax := map (posn xs) cs.
Let fr := fun x => negb (memb x cs).

Lemma ax_some pre y suf k : xs = pre ++ y :: suf ->
  find_pos (length pre) ax = Some k -> (k < length cs)%nat /\ nth k cs 0%nat = y.
Proof.
  intros E H. destruct (find_pos_map_some _ _ _ _ H) as [Hk Hp]. split; [exact Hk|].
  assert (Hin : In (nth k cs 0%nat) xs) by (apply Sin, nth_In, Hk).
  destruct (posn_in _ _ Hin) as [_ Hn].
  assert (Hn' : nth (length pre) xs 0%nat = nth k cs 0%nat) by (rewrite <- Hp; exact Hn).
  rewrite <- Hn'. rewrite E. rewrite app_nth2 by lia. rewrite Nat.sub_diag. reflexivity.
Qed.
Lemma ax_none pre y suf : xs = pre ++ y :: suf ->
  find_pos (length pre) ax = None -> ~ In y cs.
Proof.
  intros E H Hin. apply (find_pos_map_none _ _ _ H y Hin).
  unfold posn. rewrite E. rewrite find_pos_mid; [reflexivity|].
  apply (NoDup_mid_notin pre y suf). rewrite <- E. exact NDx.
Qed.

Lemma build_from_operand (e : env) : forall suf pre, xs = pre ++ suf ->
  build_from (length pre) (length suf) ax (map e cs) (map e (filter fr suf)) = map e suf.
Proof.
  induction suf as [|y suf IH]; intros pre E; cbn [length build_from map]; [reflexivity|].
  assert (E' : xs = (pre ++ [y]) ++ suf) by (rewrite <- app_assoc; exact E).
  specialize (IH (pre ++ [y]) E'). rewrite app_length in IH. cbn [length] in IH.
  replace (length pre + 1)%nat with (Datatypes.S (length pre)) in IH by lia.
  cbn [filter]. change (fr y) with (negb (memb y cs)).
  destruct (find_pos (length pre) ax) as [k|] eqn:Ek.
  - destruct (ax_some pre y suf k E Ek) as [Hk Hy].
    assert (M : memb y cs = true) by (apply memb_In; rewrite <- Hy; apply nth_In, Hk).
    rewrite M. cbn [negb]. f_equal; [|exact IH].
    rewrite <- Hy. rewrite (nth_indep _ 0%nat (e 0%nat)) by (rewrite map_length; exact Hk).
    apply map_nth.
  - pose proof (ax_none pre y suf E Ek) as Hn.
    assert (M : memb y cs = false) by (apply memb_false, Hn).
    rewrite M. cbn [negb map]. f_equal. exact IH.
Qed.

Lemma free_shape_operand (d : ix -> nat) : forall suf pre, xs = pre ++ suf ->
  map snd (filter (fun iv => negb (memb (fst iv) ax))
                  (combine (seq (length pre) (length suf)) (map d suf))) = map d (filter fr suf).
Proof.
  induction suf as [|y suf IH]; intros pre E; cbn [length seq map combine filter]; [reflexivity|].
  assert (E' : xs = (pre ++ [y]) ++ suf) by (rewrite <- app_assoc; exact E).
  specialize (IH (pre ++ [y]) E'). rewrite app_length in IH. cbn [length] in IH.
  replace (length pre + 1)%nat with (Datatypes.S (length pre)) in IH by lia.
  cbn [fst]. change (fr y) with (negb (memb y cs)).
  destruct (memb (length pre) ax) eqn:Em.
  - destruct (find_pos_memb _ _ Em) as [k Ek].
    destruct (ax_some pre y suf k E Ek) as [Hk Hy].
    assert (M : memb y cs = true) by (apply memb_In; rewrite <- Hy; apply nth_In, Hk).
    rewrite M. cbn [negb]. exact IH.
  - pose proof (ax_none pre y suf E (find_pos_memb_false _ _ Em)) as Hn.
    assert (M : memb y cs = false) by (apply memb_false, Hn).
    rewrite M. cbn [negb map snd]. f_equal. exact IH.
Qed.

Lemma free_shape_op (d : ix -> nat) : free_shape (map d xs) ax = map d (filter fr xs).
Proof.
  unfold free_shape. rewrite map_length. apply (free_shape_operand d xs []). reflexivity.
Qed.
Lemma build_from_op (e : env) :
  build_from 0 (length xs) ax (map e cs) (map e (filter fr xs)) = map e xs.
Proof. apply (build_from_operand e xs []). reflexivity. Qed.
End Operand.

(* ------------------------------------------------------------------ *)
(* tuples <-> assignments                                              *)
Lemma sum_tuples_sum_over (size : ix -> nat) S : NoDup S -> forall (e : env) (f : list nat -> Z),
  sum_tuples (map size S) f = sum_over size S e (fun e' => f (map e' S)).
Proof.
  induction S as [|x S IH]; intros ND e f; cbn [map sum_tuples sum_over]; [reflexivity|].
  inversion ND as [|? ? Hnin ND']; subst.
  apply sumn_ext. intros v _.
  rewrite (IH ND' (upd e x v) (fun c => f (v :: c))).
  apply sum_over_ext_on. intros e' He'. f_equal. f_equal.
  rewrite (He' x Hnin). unfold upd. rewrite Nat.eqb_refl. reflexivity.
Qed.

(* ------------------------------------------------------------------ *)
(* env_of on a duplicate-free index list reads the position list back  *)
Lemma env_of_map bg is_ : NoDup is_ -> forall pos, length pos = length is_ ->
  map (env_of bg is_ pos) is_ = pos.
Proof.
  induction is_ as [|x is_ IH]; intros ND pos HL.
  - destruct pos; [reflexivity|discriminate].
  - destruct pos as [|v pos]; [discriminate|]. cbn [length] in HL.
    inversion ND as [|? ? Hnin ND']; subst.
    cbn [env_of map]. f_equal.
    + unfold upd. rewrite Nat.eqb_refl. reflexivity.
    + rewrite <- (IH ND' pos) at 2 by lia. apply map_ext_in. intros j Hj.
      unfold upd. destruct (Nat.eqb_spec j x) as [->|]; [contradiction|reflexivity].
Qed.

Lemma env_of_nth bg is_ pos k : NoDup is_ -> length pos = length is_ -> (k < length is_)%nat ->
  env_of bg is_ pos (nth k is_ 0%nat) = nth k pos 0%nat.
Proof.
  intros ND HL Hk.
  transitivity (nth k (map (env_of bg is_ pos) is_) 0%nat); [|rewrite env_of_map by assumption; reflexivity].
  rewrite (nth_indep (map (env_of bg is_ pos) is_) 0%nat (env_of bg is_ pos 0%nat)) by (rewrite map_length; exact Hk).
  symmetry. apply map_nth.
Qed.

(* ------------------------------------------------------------------ *)
(* symdiff                                                             *)
Lemma in_symdiff li ri j : In j (symdiff li ri) <-> (In j li /\ ~ In j ri) \/ (In j ri /\ ~ In j li).
Proof.
  unfold symdiff. rewrite in_app_iff, !filter_In, !negb_true_iff, !memb_false. tauto.
Qed.

Lemma NoDup_filter {A} (f : A -> bool) l : NoDup l -> NoDup (filter f l).
Proof.
  induction 1 as [|x l Hn ND IH]; cbn [filter]; [constructor|].
  destruct (f x); [|exact IH]. constructor; [|exact IH]. intros H. apply filter_In in H. tauto.
Qed.

Lemma NoDup_app_intro {A} (a b : list A) : NoDup a -> NoDup b -> (forall x, In x a -> ~ In x b) -> NoDup (a ++ b).
Proof.
  induction 1 as [|x a Hn ND IH]; intros NDb Hd; cbn [app]; [exact NDb|].
  constructor.
  - rewrite in_app_iff. intros [H|H]; [contradiction|]. apply (Hd x); [left; reflexivity|exact H].
  - apply IH; [exact NDb|]. intros y Hy. apply Hd. right; exact Hy.
Qed.

Lemma NoDup_symdiff li ri : NoDup li -> NoDup ri -> NoDup (symdiff li ri).
Proof.
  intros NDl NDr. unfold symdiff. apply NoDup_app_intro; try (apply NoDup_filter; assumption).
  intros x H1 H2. apply filter_In in H1, H2. destruct H1 as [H1 _]. destruct H2 as [_ H2].
  apply negb_true_iff, memb_false in H2. contradiction.
Qed.

Lemma in_shared li ri j : In j (shared li ri) <-> In j li /\ In j ri.
Proof. unfold shared. rewrite filter_In, memb_In. tauto. Qed.

(* the free indices of each operand, as tensordot sees them (not contracted) and
   as symdiff lists them (absent from the other operand) *)
Lemma free_left li ri :
  filter (fun x => negb (memb x (shared li ri))) li = filter (fun j => negb (memb j ri)) li.
Proof.
  apply filter_ext_in. intros x Hx. f_equal.
  destruct (memb x ri) eqn:E.
  - apply memb_In, in_shared. split; [exact Hx|apply memb_In, E].
  - apply memb_false. rewrite in_shared. apply memb_false in E. tauto.
Qed.
Lemma free_right li ri :
  filter (fun x => negb (memb x (shared li ri))) ri = filter (fun j => negb (memb j li)) ri.
Proof.
  apply filter_ext_in. intros x Hx. f_equal.
  destruct (memb x li) eqn:E.
  - apply memb_In, in_shared. split; [apply memb_In, E|exact Hx].
  - apply memb_false. rewrite in_shared. apply memb_false in E. tauto.
Qed.

Lemma length_filter_split {A} (f : A -> bool) l :
  (length l = length (filter f l) + length (filter (fun x => negb (f x)) l))%nat.
Proof. induction l as [|x l IH]; cbn [filter length]; [reflexivity|]. destruct (f x); cbn [negb length]; lia. Qed.

Lemma firstn_map_app (f : nat -> nat) (a b : list nat) :
  firstn (length a) (map f a ++ map f b) = map f a.
Proof.
  rewrite <- (map_length f a). rewrite firstn_app, Nat.sub_diag, firstn_all. cbn [firstn]. apply app_nil_r.
Qed.
Lemma skipn_map_app (f : nat -> nat) (a b : list nat) :
  skipn (length a) (map f a ++ map f b) = map f b.
Proof.
  rewrite <- (map_length f a). rewrite skipn_app, Nat.sub_diag, skipn_all. reflexivity.
Qed.

(* ------------------------------------------------------------------ *)
(* (T1) numpy.tensordot with get_tensordot_axes is the einsum onto symdiff *)
Section T1.
Variable n : net.
Notation dim := (dim n).

Lemma esummed2_perm li ri pi : NoDup li ->
  (forall j, In j pi <-> In j (symdiff li ri)) ->
  Permutation (esummed2 li ri pi) (shared li ri).
Proof.
  intros NDl Hpi. apply NoDup_Permutation; [apply NoDup_unique|apply NoDup_filter, NDl|].
  intros j. unfold esummed2. rewrite in_unique, filter_In, in_app_iff, negb_true_iff, memb_false, Hpi.
  rewrite in_symdiff, in_shared.
  destruct (in_dec Nat.eq_dec j li), (in_dec Nat.eq_dec j ri); tauto.
Qed.

Lemma prod_respects li ri (A B : ptensor) : respects (fun e : env => A (map e li) * B (map e ri)).
Proof.
  intros e1 e2 He. f_equal; f_equal; apply map_ext; intros; apply He.
Qed.

Theorem tdot_is_einsum (bg : env) li ri (A B : ptensor) : NoDup li -> NoDup ri ->
  let la := fst (tdot_axes_from 0 li ri) in
  let ra := snd (tdot_axes_from 0 li ri) in
  let td := symdiff li ri in
  let X := tdot (map dim li, A) (map dim ri, B) la ra in
  fst X = map dim td /\
  forall pos, length pos = length td -> snd X pos = einsum2 n bg li ri td A B pos.
Proof.
  intros NDl NDr la ra td X.
  set (S := shared li ri).
  assert (Ela : la = map (posn li) S) by (unfold la; rewrite tdot_axes_spec by exact NDl; reflexivity).
  assert (Era : ra = map (posn ri) S) by (unfold ra; rewrite tdot_axes_spec by exact NDl; reflexivity).
  assert (SinL : forall x, In x S -> In x li) by (intros x Hx; apply in_shared in Hx; tauto).
  assert (SinR : forall x, In x S -> In x ri) by (intros x Hx; apply in_shared in Hx; tauto).
  assert (NDS : NoDup S) by (apply NoDup_filter, NDl).
  set (fl := filter (fun j => negb (memb j ri)) li).
  set (fr := filter (fun j => negb (memb j li)) ri).
  assert (Etd : td = fl ++ fr) by reflexivity.
  unfold X, tdot. cbn [fst snd]. split.
  - rewrite Ela, Era. rewrite (free_shape_op li S NDl SinL dim), (free_shape_op ri S NDr SinR dim).
    unfold S. rewrite free_left, free_right. rewrite Etd, map_app. reflexivity.
  - intros pos HL.
    assert (Ecd : map (fun i => nth i (map dim li) 0%nat) la = map dim S).
    { rewrite Ela, map_map. apply map_ext_in. intros x Hx.
      destruct (posn_in x li (SinL x Hx)) as [Hlt Hn].
      rewrite (nth_indep _ 0%nat (dim 0%nat)) by (rewrite map_length; exact Hlt).
      rewrite map_nth. f_equal. exact Hn. }
    rewrite Ecd.
    assert (Enfa : (length (map dim li) - length la)%nat = length fl).
    { rewrite Ela, !map_length.
      pose proof (length_filter_split (fun j => memb j ri) li) as H. cbv beta in H.
      apply Nat.add_sub_eq_l. symmetry. exact H. }
    rewrite Enfa, !map_length.
    unfold einsum2.
    set (env := env_of bg td pos).
    rewrite (sum_over_perm dim _ _ (esummed2_perm li ri td NDl (fun j => iff_refl _)) (NoDup_unique _)
               env _ (prod_respects li ri A B)).
    fold S.
    rewrite (sum_tuples_sum_over dim S NDS env).
    apply sum_over_ext_on. intros e' He'.
    assert (NDtd : NoDup td) by (apply NoDup_symdiff; assumption).
    assert (Hmap : map e' td = pos).
    { rewrite <- (env_of_map bg td NDtd pos HL). apply map_ext_in. intros j Hj.
      apply He'. unfold S. rewrite in_shared. apply in_symdiff in Hj. tauto. }
    rewrite Etd, map_app in Hmap.
    assert (Hf : firstn (length fl) pos = map e' fl).
    { rewrite <- Hmap. apply firstn_map_app. }
    assert (Hs : skipn (length fl) pos = map e' fr).
    { rewrite <- Hmap. apply skipn_map_app. }
    rewrite Hf, Hs. unfold fl, fr. rewrite <- (free_left li ri), <- (free_right li ri). fold S.
    rewrite Ela, Era.
    rewrite (build_from_op li S NDl SinL e'), (build_from_op ri S NDr SinR e'). reflexivity.
Qed.
End T1.

(* ------------------------------------------------------------------ *)
(* sorted(key=...) : the stable insertion sort of Base.v                *)
Lemma insert_by_perm {A} (le : A -> A -> bool) x l : Permutation (insert_by le x l) (x :: l).
Proof.
  induction l as [|y l IH]; cbn [insert_by]; [apply Permutation_refl|].
  destruct (le y x); [|apply Permutation_refl].
  eapply perm_trans; [apply perm_skip, IH|apply perm_swap].
Qed.

Lemma sort_by_perm_acc {A} (le : A -> A -> bool) l : forall acc,
  Permutation (fold_left (fun acc x => insert_by le x acc) l acc) (l ++ acc).
Proof.
  induction l as [|x l IH]; intros acc; cbn [fold_left app]; [apply Permutation_refl|].
  eapply perm_trans; [apply IH|].
  eapply perm_trans; [apply Permutation_app_head, insert_by_perm|].
  apply Permutation_sym, Permutation_middle.
Qed.

Lemma sort_by_perm {A} (le : A -> A -> bool) l : Permutation (sort_by le l) l.
Proof. unfold sort_by. eapply perm_trans; [apply sort_by_perm_acc|]. rewrite app_nil_r. apply Permutation_refl. Qed.

Fixpoint zsorted (l : list (Z * ix)) : Prop :=
  match l with
  | [] => True
  | x :: l' => (forall y, In y l' -> fst x <= fst y) /\ zsorted l'
  end.

Lemma insert_by_sorted x l : zsorted l -> zsorted (insert_by z_le x l).
Proof.
  induction l as [|y l IH]; cbn [insert_by zsorted]; intros H.
  - split; [intros ? []|exact I].
  - destruct H as [H1 H2]. destruct (z_le y x) eqn:E; unfold z_le in E; cbn [zsorted].
    + apply Z.leb_le in E. split; [|apply IH, H2].
      intros z Hz. apply (Permutation_in _ (insert_by_perm z_le x l)) in Hz.
      destruct Hz as [<-|Hz]; [exact E|apply H1, Hz].
    + apply Z.leb_gt in E. split; [|split; assumption].
      intros z [<-|Hz]; [lia|]. specialize (H1 z Hz). lia.
Qed.

Lemma sort_by_sorted l : zsorted (sort_by z_le l).
Proof.
  unfold sort_by. assert (G : forall acc, zsorted acc -> zsorted (fold_left (fun acc x => insert_by z_le x acc) l acc)).
  { induction l as [|x l IH]; intros acc H; cbn [fold_left]; [exact H|]. apply IH, insert_by_sorted, H. }
  apply G. exact I.
Qed.

Fixpoint ksorted (key : ix -> Z) (l : list ix) : Prop :=
  match l with
  | [] => True
  | x :: l' => (forall y, In y l' -> key x <= key y) /\ ksorted key l'
  end.

Lemma zsorted_map_snd key l : (forall p, In p l -> fst p = key (snd p)) -> zsorted l -> ksorted key (map snd l).
Proof.
  induction l as [|p l IH]; cbn [map zsorted ksorted]; intros Hk H; [exact I|].
  destruct H as [H1 H2]. split.
  - intros y Hy. apply in_map_iff in Hy. destruct Hy as (q & <- & Hq).
    rewrite <- (Hk p), <- (Hk q); [apply H1, Hq|right; exact Hq|left; reflexivity].
  - apply IH; [|exact H2]. intros q Hq. apply Hk. right; exact Hq.
Qed.

Lemma ksorted_mono key key' l :
  (forall x y, In x l -> In y l -> key x <= key y -> key' x <= key' y) -> ksorted key l -> ksorted key' l.
Proof.
  induction l as [|x l IH]; cbn [ksorted]; intros Hm H; [exact I|]. destruct H as [H1 H2]. split.
  - intros y Hy. apply Hm; [left; reflexivity|right; exact Hy|apply H1, Hy].
  - apply IH; [|exact H2]. intros a b Ha Hb. apply Hm; right; assumption.
Qed.

Lemma ksorted_filter key f l : ksorted key l -> ksorted key (filter f l).
Proof.
  induction l as [|x l IH]; cbn [ksorted filter]; intros H; [exact I|]. destruct H as [H1 H2].
  destruct (f x); [|apply IH, H2]. cbn [ksorted]. split; [|apply IH, H2].
  intros y Hy. apply filter_In in Hy. apply H1, Hy.
Qed.

Lemma ksorted_app key a b : ksorted key a -> ksorted key b ->
  (forall x y, In x a -> In y b -> key x <= key y) -> ksorted key (a ++ b).
Proof.
  induction a as [|x a IH]; cbn [ksorted app]; intros Ha Hb Hc; [exact Hb|]. destruct Ha as [H1 H2]. split.
  - intros y Hy. apply in_app_iff in Hy. destruct Hy as [Hy|Hy]; [apply H1, Hy|apply Hc; [left; reflexivity|exact Hy]].
  - apply IH; [exact H2|exact Hb|]. intros a' b' Ha' Hb'. apply Hc; [right; exact Ha'|exact Hb'].
Qed.

(* two sorted arrangements of the same elements under an injective key coincide *)
Lemma ksorted_unique key l1 : forall l2, Permutation l1 l2 -> ksorted key l1 -> ksorted key l2 ->
  (forall a b, In a l1 -> In b l1 -> key a = key b -> a = b) -> l1 = l2.
Proof.
  induction l1 as [|a l1 IH]; intros l2 HP S1 S2 Hinj.
  - apply Permutation_nil in HP. subst. reflexivity.
  - destruct l2 as [|b l2]; [apply Permutation_sym, Permutation_nil in HP; discriminate|].
    assert (E : a = b).
    { destruct (Nat.eq_dec a b) as [E|NE]; [exact E|].
      assert (Ha : In a (b :: l2)) by (apply (Permutation_in _ HP); left; reflexivity).
      assert (Hb : In b (a :: l1)) by (apply (Permutation_in _ (Permutation_sym HP)); left; reflexivity).
      destruct Ha as [Ha|Ha]; [congruence|]. destruct Hb as [Hb|Hb]; [congruence|].
      cbn [ksorted] in S1, S2. destruct S1 as [S1 _]. destruct S2 as [S2 _].
      specialize (S1 b Hb). specialize (S2 a Ha).
      apply Hinj; [left; reflexivity|right; exact Hb|lia]. }
    subst b. f_equal. cbn [ksorted] in S1, S2. apply IH.
    + apply (Permutation_cons_inv HP).
    + tauto.
    + tauto.
    + intros x y Hx Hy. apply Hinj; right; assumption.
Qed.

(* ---- the key of get_tensordot_perm: position in l_inds + r_inds ---- *)
Lemma find_pos_app_l x a b : In x a -> find_pos x (a ++ b) = find_pos x a.
Proof.
  induction a as [|y a IH]; cbn [app find_pos]; [intros []|]. intros H.
  destruct (Nat.eqb_spec y x) as [->|Hne]; [reflexivity|].
  rewrite IH; [reflexivity|]. destruct H as [H|H]; [congruence|exact H].
Qed.
Lemma find_pos_app_r x a b : ~ In x a ->
  find_pos x (a ++ b) = match find_pos x b with Some p => Some (length a + p)%nat | None => None end.
Proof.
  induction a as [|y a IH]; cbn [app find_pos length]; intros H.
  - destruct (find_pos x b); reflexivity.
  - destruct (Nat.eqb_spec y x) as [->|Hne]; [exfalso; apply H; left; reflexivity|].
    rewrite IH by (intros Hin; apply H; right; exact Hin).
    destruct (find_pos x b); reflexivity.
Qed.

Lemma find_z_inj L a b : In a L -> find_z a L = find_z b L -> a = b.
Proof.
  intros Ha. unfold find_z. destruct (find_pos_in a L Ha) as [p Ep]. rewrite Ep.
  destruct (find_pos b L) as [q|] eqn:Eq; [|lia].
  intros H. assert (p = q) by lia. subst q.
  apply find_pos_some in Ep, Eq. destruct Ep as [_ <-]. destruct Eq as [_ <-]. reflexivity.
Qed.

Lemma NoDup_app_disj {A} (a b : list A) x : NoDup (a ++ b) -> In x a -> In x b -> False.
Proof.
  induction a as [|y a IH]; cbn [app]; intros ND Ha Hb; [destruct Ha|].
  inversion ND as [|? ? Hn ND']; subst. destruct Ha as [->|Ha].
  - apply Hn, in_app_iff. right; exact Hb.
  - apply (IH ND' Ha Hb).
Qed.

Lemma ksorted_self_gen suf : forall pre, NoDup (pre ++ suf) ->
  ksorted (fun j => find_z j (pre ++ suf)) suf.
Proof.
  induction suf as [|x suf IH]; intros pre ND; cbn [ksorted]; [exact I|]. split.
  - intros y Hy. unfold find_z.
    rewrite (find_pos_mid pre x suf (NoDup_mid_notin pre x suf ND)).
    assert (Hyp : ~ In y pre).
    { intros Hin. apply (NoDup_app_disj pre (x :: suf) y ND Hin). right; exact Hy. }
    rewrite (find_pos_app_r y pre (x :: suf) Hyp).
    destruct (find_pos y (x :: suf)) as [p|] eqn:E; [lia|].
    apply find_pos_none in E. exfalso. apply E. right; exact Hy.
  - specialize (IH (pre ++ [x])). rewrite <- app_assoc in IH. apply IH, ND.
Qed.

Lemma ksorted_symdiff li ri : NoDup li -> NoDup ri ->
  ksorted (fun j => find_z j (li ++ ri)) (symdiff li ri).
Proof.
  intros NDl NDr. unfold symdiff.
  assert (KL : forall x, In x li -> find_z x (li ++ ri) = find_z x li).
  { intros x Hx. unfold find_z. rewrite find_pos_app_l by exact Hx. reflexivity. }
  assert (KR : forall x, In x ri -> ~ In x li ->
               find_z x (li ++ ri) = Z.of_nat (length li) + find_z x ri).
  { intros x Hx Hn. unfold find_z. rewrite find_pos_app_r by exact Hn.
    destruct (find_pos_in x ri Hx) as [p ->]. lia. }
  apply ksorted_app.
  - apply ksorted_filter. apply (ksorted_mono (fun j => find_z j li)).
    + intros x y Hx Hy H. rewrite !KL by assumption. exact H.
    + apply (ksorted_self_gen li []). exact NDl.
  - apply (ksorted_mono (fun j => find_z j ri)).
    + intros x y Hx Hy H. apply filter_In in Hx, Hy.
      destruct Hx as [Hx Hx']. destruct Hy as [Hy Hy']. apply negb_true_iff, memb_false in Hx', Hy'.
      rewrite !KR by assumption. lia.
    + apply ksorted_filter. apply (ksorted_self_gen ri []). exact NDr.
  - intros x y Hx Hy. apply filter_In in Hx, Hy.
    destruct Hx as [Hx _]. destruct Hy as [Hy Hy']. apply negb_true_iff, memb_false in Hy'.
    rewrite (KL x Hx), (KR y Hy Hy'). unfold find_z.
    destruct (find_pos_in x li Hx) as [p Ep]. rewrite Ep. apply find_pos_some in Ep.
    destruct (find_pos_in y ri Hy) as [q ->]. lia.
Qed.

(* get_tensordot_perm's td_inds is the order numpy.tensordot produces *)
Theorem td_inds_is_symdiff li ri pi : NoDup li -> NoDup ri -> NoDup pi ->
  (forall j, In j pi <-> In j (symdiff li ri)) ->
  td_inds li ri pi = symdiff li ri.
Proof.
  intros NDl NDr NDp Hpi. unfold td_inds.
  set (key := fun j => find_z j (li ++ ri)).
  set (sp := sort_by z_le (map (fun j => (key j, j)) pi)).
  assert (HP : Permutation sp (map (fun j => (key j, j)) pi)) by apply sort_by_perm.
  apply (ksorted_unique key).
  - eapply perm_trans; [apply Permutation_map, HP|].
    rewrite map_map. cbn [snd]. rewrite map_id.
    apply NoDup_Permutation; [exact NDp|apply NoDup_symdiff; assumption|exact Hpi].
  - apply zsorted_map_snd; [|apply sort_by_sorted].
    intros p Hp. apply (Permutation_in _ HP) in Hp. apply in_map_iff in Hp.
    destruct Hp as (j & <- & _). reflexivity.
  - apply ksorted_symdiff; assumption.
  - intros a b Ha _ H. apply (find_z_inj (li ++ ri)); [|exact H].
    assert (Ha' : In a pi).
    { apply (Permutation_in _ (Permutation_map snd HP)) in Ha. rewrite map_map in Ha. cbn [snd] in Ha.
      rewrite map_id in Ha. exact Ha. }
    apply Hpi, in_symdiff in Ha'. apply in_app_iff. tauto.
Qed.

Lemma list_eqb_nat_eq a : forall b, list_eqb Nat.eqb a b = true -> a = b.
Proof.
  induction a as [|x a IH]; intros [|y b]; cbn [list_eqb]; intros H; try discriminate; [reflexivity|].
  apply andb_true_iff in H. destruct H as [H1 H2]. apply Nat.eqb_eq in H1. subst y. f_equal. apply IH, H2.
Qed.

Lemma memb_ext a b j : (forall x, In x a <-> In x b) -> memb j a = memb j b.
Proof.
  intros H. destruct (memb j b) eqn:E.
  - apply memb_In, H, memb_In, E.
  - apply memb_false. rewrite H. apply memb_false, E.
Qed.

Lemma nth_posn_map (d : ix -> nat) l x : In x l -> nth (posn l x) (map d l) 0%nat = d x.
Proof.
  intros Hx. destruct (posn_in x l Hx) as [Hlt Hn].
  rewrite (nth_indep (map d l) 0%nat (d 0%nat)) by (rewrite map_length; exact Hlt).
  rewrite map_nth. f_equal. exact Hn.
Qed.

Lemma nth_map_seq (g : nat -> nat) m i : (i < m)%nat -> nth i (map g (seq 0 m)) 0%nat = g i.
Proof.
  intros H. rewrite (nth_indep (map g (seq 0 m)) 0%nat (g 0%nat)) by (rewrite map_length, seq_length; exact H).
  rewrite map_nth, seq_nth by exact H. reflexivity.
Qed.

(* ------------------------------------------------------------------ *)
(* (T2) tensordot followed by the transpose of get_tensordot_perm is the einsum
   with the declared axis order pi                                          *)
Section T2.
Variable n : net.
Notation dim := (dim n).

(* Program.tensordot_perm, with the three index lists as arguments *)
Definition td_perm (li ri pi : list ix) : option (list nat) :=
  let td := td_inds li ri pi in
  if list_eqb Nat.eqb td pi then None
  else Some (map (fun j => match find_pos j td with Some p => p | None => 0%nat end) pi).

Lemma td_perm_is_program_perm sl isroot l r :
  tensordot_perm n sl isroot (Node l r)
  = td_perm (inds_sub n sl l) (inds_sub n sl r) (inds n sl isroot (Node l r)).
Proof. reflexivity. Qed.

Lemma esummed2_ext li ri pi pi' : (forall j, In j pi <-> In j pi') -> esummed2 li ri pi = esummed2 li ri pi'.
Proof.
  intros H. unfold esummed2. f_equal. apply filter_ext. intros j. f_equal. apply memb_ext, H.
Qed.

Theorem transpose_is_einsum (bg : env) li ri pi (A B : ptensor) :
  NoDup li -> NoDup ri -> NoDup pi -> (forall j, In j pi <-> In j (symdiff li ri)) ->
  forall pm X, (forall pos, length pos = length (symdiff li ri) ->
                  snd X pos = einsum2 n bg li ri (symdiff li ri) A B pos) ->
  fst X = map dim (symdiff li ri) ->
  pm = map (posn (symdiff li ri)) pi ->
  fst (transpose X pm) = map dim pi /\
  forall pos, length pos = length pi -> snd (transpose X pm) pos = einsum2 n bg li ri pi A B pos.
Proof.
  intros NDl NDr NDp Hpi pm X Hv Hs Epm.
  set (td := symdiff li ri) in *.
  assert (NDtd : NoDup td) by (apply NoDup_symdiff; assumption).
  destruct X as [sa fa]. cbn [fst snd] in Hv, Hs. subst sa. unfold transpose. cbn [fst snd]. split.
  - rewrite Epm, map_map. apply map_ext_in. intros j Hj. apply nth_posn_map, Hpi, Hj.
  - intros pos HL. rewrite map_length.
    set (q := map _ (seq 0 (length td))).
    assert (Hq : length q = length td) by (unfold q; rewrite map_length, seq_length; reflexivity).
    rewrite (Hv q Hq). unfold einsum2.
    rewrite (esummed2_ext li ri td pi) by (intros j; symmetry; apply Hpi).
    apply sum_over_env; [apply prod_respects|].
    intros k. destruct (in_dec Nat.eq_dec k td) as [Hk|Hk].
    + destruct (posn_in k td Hk) as [Hlt Hn].
      set (i := posn td k) in *.
      assert (E1 : env_of bg td q k = nth i q 0%nat).
      { rewrite <- Hn at 1. apply env_of_nth; assumption. }
      rewrite E1. unfold q. rewrite nth_map_seq by exact Hlt.
      assert (Hkp : In k pi) by (apply Hpi, Hk).
      assert (Hi : In i pm) by (rewrite Epm; apply in_map_iff; exists k; split; [reflexivity|exact Hkp]).
      destruct (find_pos_in i pm Hi) as [k' Ek']. rewrite Ek'.
      rewrite Epm in Ek'. destruct (find_pos_map_some _ _ _ _ Ek') as [Hk' Hp'].
      assert (Hin' : In (nth k' pi 0%nat) td) by (apply Hpi, nth_In, Hk').
      destruct (posn_in _ _ Hin') as [_ Hn'].
      assert (Ek : nth k' pi 0%nat = k).
      { rewrite <- Hn, <- Hn'. f_equal. exact Hp'. }
      rewrite <- Ek at 1. symmetry. apply env_of_nth; assumption.
    + rewrite !env_of_notin; [reflexivity| |exact Hk]. intros H. apply Hk, Hpi, H.
Qed.

Theorem tdot_transpose_is_einsum (bg : env) li ri pi (A B : ptensor) :
  NoDup li -> NoDup ri -> NoDup pi -> (forall j, In j pi <-> In j (symdiff li ri)) ->
  let la := fst (tdot_axes_from 0 li ri) in
  let ra := snd (tdot_axes_from 0 li ri) in
  let X := tdot (map dim li, A) (map dim ri, B) la ra in
  let X' := match td_perm li ri pi with Some pm => transpose X pm | None => X end in
  fst X' = map dim pi /\
  forall pos, length pos = length pi -> snd X' pos = einsum2 n bg li ri pi A B pos.
Proof.
  intros NDl NDr NDp Hpi la ra X X'.
  destruct (tdot_is_einsum n bg li ri A B NDl NDr) as [Hs Hv]. fold la ra X in Hs, Hv.
  unfold X', td_perm. rewrite (td_inds_is_symdiff li ri pi NDl NDr NDp Hpi).
  destruct (list_eqb Nat.eqb (symdiff li ri) pi) eqn:E.
  - apply list_eqb_nat_eq in E. rewrite <- E. split; [exact Hs|exact Hv].
  - apply (transpose_is_einsum bg li ri pi A B NDl NDr NDp Hpi _ X Hv Hs). reflexivity.
Qed.
End T2.

(* ------------------------------------------------------------------ *)
(* (T3) one tree node: the ITdot instruction and the IEinsum instruction store
   the same array.  "Same" = sarr_eq: equal shapes, and equal entries at every
   position list whose length is the rank.                                   *)
Definition sarr_eq (X Y : sarr) : Prop :=
  fst X = fst Y /\ forall pos, length pos = length (fst X) -> snd X pos = snd Y pos.

Section T3.
Variable n : net.
Variable sl : list slinfo.
Variable e0 : env.
Notation dim := (dim n).

Lemma can_dot_inds isroot l r : inrange n (leaves l ++ leaves r) ->
  can_dot n sl isroot (Node l r) = true ->
  forall j, In j (inds n sl isroot (Node l r)) <-> In j (symdiff (inds_sub n sl l) (inds_sub n sl r)).
Proof.
  intros HR Hc j. unfold can_dot in Hc. pose proof (set_eqb_sound _ _ Hc j) as H.
  pose proof (inrange_app_l n _ _ HR) as HL. pose proof (inrange_app_r n _ _ HR) as HRr.
  destruct (inds_sub_spec n sl l HL) as [_ Hl]. destruct (inds_sub_spec n sl r HRr) as [_ Hr].
  rewrite in_symdiff in *. rewrite Hl, Hr, <- H.
  destruct isroot; cbn [inds node_legs]; [tauto|].
  apply (inds_sub_spec n sl (Node l r)). exact HR.
Qed.

Theorem node_tdot_eq_einsum isroot l r (tm : temps) :
  inrange n (leaves l ++ leaves r) ->
  NoDup (inds n sl isroot (Node l r)) ->
  can_dot n sl isroot (Node l r) = true ->
  fst (tget (leaves l) tm) = map dim (inds_sub n sl l) ->
  fst (tget (leaves r) tm) = map dim (inds_sub n sl r) ->
  let t := Node l r in
  let li := inds_sub n sl l in let ri := inds_sub n sl r in let pi := inds n sl isroot t in
  let L := tget (leaves l) tm in let R := tget (leaves r) tm in
  let rest := tdel (leaves r) (tdel (leaves l) tm) in
  let Y := (map dim pi, einsum2 n e0 li ri pi (snd L) (snd R)) in
  exists X,
    fold_left (exec_instr n e0) (node_instr n sl false (isroot, t)) tm = tset (leaves t) X rest /\
    fold_left (exec_instr n e0) (node_instr n sl true (isroot, t)) tm = tset (leaves t) Y rest /\
    sarr_eq X Y.
Proof.
  intros HR NDp Hc HsL HsR t li ri pi L R rest Y.
  pose proof (inrange_app_l n _ _ HR) as HL. pose proof (inrange_app_r n _ _ HR) as HRr.
  destruct (inds_sub_spec n sl l HL) as [NDl _]. destruct (inds_sub_spec n sl r HRr) as [NDr _].
  pose proof (can_dot_inds isroot l r HR Hc) as Hpi.
  unfold t, node_instr. cbn [snd fst]. rewrite Hc. cbn [orb negb fold_left exec_instr].
  fold L R rest li ri pi.
  eexists. split; [reflexivity|]. split; [reflexivity|].
  cbn [tensordot_axes]. rewrite td_perm_is_program_perm. fold li ri pi.
  assert (EL : L = (map dim li, snd L)) by (unfold li; rewrite <- HsL; apply surjective_pairing).
  assert (ER : R = (map dim ri, snd R)) by (unfold ri; rewrite <- HsR; apply surjective_pairing).
  assert (Et : forall la ra, tdot L R la ra = tdot (map dim li, snd L) (map dim ri, snd R) la ra)
    by (intros; rewrite <- EL, <- ER; reflexivity).
  rewrite !Et. fold t pi.
  destruct (tdot_transpose_is_einsum n e0 li ri pi (snd L) (snd R) NDl NDr NDp Hpi) as [Hs Hv].
  cbv zeta in Hs, Hv.
  split.
  - cbn [fst Y]. exact Hs.
  - intros pos Hp. rewrite Hs, map_length in Hp. cbn [snd Y]. apply Hv, Hp.
Qed.

Lemma inds_nodup_sub l r : inrange n (leaves l ++ leaves r) -> NoDup (inds n sl false (Node l r)).
Proof. intros H. apply (inds_sub_spec n sl (Node l r)). exact H. Qed.
Lemma inds_nodup_root l r : NoDup (output n) -> NoDup (inds n sl true (Node l r)).
Proof.
  intros NDo. cbn [inds]. change (lkeys (root_legs n sl)) with (out_inds n sl). rewrite out_inds_eq.
  apply NoDup_filter, NDo.
Qed.

(* the two cases of `inds`: a proper subtree needs nothing more; the root needs a
   duplicate-free declared output *)
Corollary node_tdot_eq_einsum_sub l r (tm : temps) :
  inrange n (leaves l ++ leaves r) ->
  can_dot n sl false (Node l r) = true ->
  fst (tget (leaves l) tm) = map dim (inds_sub n sl l) ->
  fst (tget (leaves r) tm) = map dim (inds_sub n sl r) ->
  exists X,
    fold_left (exec_instr n e0) (node_instr n sl false (false, Node l r)) tm
      = tset (leaves (Node l r)) X (tdel (leaves r) (tdel (leaves l) tm)) /\
    fold_left (exec_instr n e0) (node_instr n sl true (false, Node l r)) tm
      = tset (leaves (Node l r))
             (map dim (inds_sub n sl (Node l r)),
              einsum2 n e0 (inds_sub n sl l) (inds_sub n sl r) (inds_sub n sl (Node l r))
                      (snd (tget (leaves l) tm)) (snd (tget (leaves r) tm)))
             (tdel (leaves r) (tdel (leaves l) tm)) /\
    sarr_eq X (map dim (inds_sub n sl (Node l r)),
               einsum2 n e0 (inds_sub n sl l) (inds_sub n sl r) (inds_sub n sl (Node l r))
                       (snd (tget (leaves l) tm)) (snd (tget (leaves r) tm))).
Proof.
  intros HR Hc HsL HsR.
  apply (node_tdot_eq_einsum false l r tm HR); try assumption.
  apply (inds_sub_spec n sl (Node l r)). exact HR.
Qed.

Corollary node_tdot_eq_einsum_root l r (tm : temps) :
  inrange n (leaves l ++ leaves r) -> NoDup (output n) ->
  can_dot n sl true (Node l r) = true ->
  fst (tget (leaves l) tm) = map dim (inds_sub n sl l) ->
  fst (tget (leaves r) tm) = map dim (inds_sub n sl r) ->
  exists X,
    fold_left (exec_instr n e0) (node_instr n sl false (true, Node l r)) tm
      = tset (leaves (Node l r)) X (tdel (leaves r) (tdel (leaves l) tm)) /\
    fold_left (exec_instr n e0) (node_instr n sl true (true, Node l r)) tm
      = tset (leaves (Node l r))
             (map dim (out_inds n sl),
              einsum2 n e0 (inds_sub n sl l) (inds_sub n sl r) (out_inds n sl)
                      (snd (tget (leaves l) tm)) (snd (tget (leaves r) tm)))
             (tdel (leaves r) (tdel (leaves l) tm)) /\
    sarr_eq X (map dim (out_inds n sl),
               einsum2 n e0 (inds_sub n sl l) (inds_sub n sl r) (out_inds n sl)
                       (snd (tget (leaves l) tm)) (snd (tget (leaves r) tm))).
Proof.
  intros HR NDo Hc HsL HsR.
  apply (node_tdot_eq_einsum true l r tm HR); try assumption.
  cbn [inds]. change (lkeys (root_legs n sl)) with (out_inds n sl). rewrite out_inds_eq.
  apply NoDup_filter, NDo.
Qed.
End T3.

(* ------------------------------------------------------------------ *)
(* (T4) the whole tree, executed with the einsum-vs-tensordot choice of
   extract_contractions at every node (prefer_einsum arbitrary): same arrays as
   the pure einsum path, hence the mathematical einsum in the declared order.  *)
Lemma einsum2_cong n bg li ri pi (A A' B B' : ptensor) :
  (forall pos, length pos = length li -> A pos = A' pos) ->
  (forall pos, length pos = length ri -> B pos = B' pos) ->
  forall pos, einsum2 n bg li ri pi A B pos = einsum2 n bg li ri pi A' B' pos.
Proof.
  intros HA HB pos. unfold einsum2. apply sum_over_ext. intros e'.
  rewrite HA, HB by apply map_length. reflexivity.
Qed.

Lemma sarr_eq_trans X Y Z : sarr_eq X Y -> sarr_eq Y Z -> sarr_eq X Z.
Proof.
  intros [H1 H2] [H3 H4]. split; [congruence|]. intros pos Hp. rewrite H2 by exact Hp. apply H4. rewrite <- H1. exact Hp.
Qed.

Section T4.
Variable n : net.
Variable sl : list slinfo.
Variable arr : nat -> ptensor.
Variable e0 : env.
Variable pe : bool.                      (* prefer_einsum *)
Notation dim := (dim n).

(* what the instruction(s) of node_instr store for the node, given the operands *)
Definition node_exec (isroot : bool) (l r : tree) (L R : sarr) : sarr :=
  let t := Node l r in
  if pe || negb (can_dot n sl isroot t)
  then (map dim (inds n sl isroot t),
        einsum2 n e0 (inds_sub n sl l) (inds_sub n sl r) (inds n sl isroot t) (snd L) (snd R))
  else let X := tdot L R (fst (tensordot_axes n sl t)) (snd (tensordot_axes n sl t)) in
       match tensordot_perm n sl isroot t with Some pm => transpose X pm | None => X end.

Lemma node_instr_exec isroot l r (tm : temps) :
  fold_left (exec_instr n e0) (node_instr n sl pe (isroot, Node l r)) tm
  = tset (leaves (Node l r))
         (node_exec isroot l r (tget (leaves l) tm) (tget (leaves r) tm))
         (tdel (leaves r) (tdel (leaves l) tm)).
Proof.
  unfold node_instr, node_exec. cbn [snd fst].
  destruct (pe || negb (can_dot n sl isroot (Node l r))); reflexivity.
Qed.

Lemma node_exec_is_einsum isroot l r (L R : sarr) :
  inrange n (leaves l ++ leaves r) ->
  NoDup (inds n sl isroot (Node l r)) ->
  fst L = map dim (inds_sub n sl l) -> fst R = map dim (inds_sub n sl r) ->
  sarr_eq (node_exec isroot l r L R)
          (map dim (inds n sl isroot (Node l r)),
           einsum2 n e0 (inds_sub n sl l) (inds_sub n sl r) (inds n sl isroot (Node l r)) (snd L) (snd R)).
Proof.
  intros HR NDp HsL HsR. unfold node_exec.
  destruct (can_dot n sl isroot (Node l r)) eqn:Hc; destruct pe; cbn [orb negb];
    try (split; [reflexivity|intros; reflexivity]).
  pose proof (inrange_app_l n _ _ HR) as HL. pose proof (inrange_app_r n _ _ HR) as HRr.
  destruct (inds_sub_spec n sl l HL) as [NDl _]. destruct (inds_sub_spec n sl r HRr) as [NDr _].
  pose proof (can_dot_inds n sl isroot l r HR Hc) as Hpi.
  cbn [tensordot_axes]. rewrite td_perm_is_program_perm.
  assert (EL : L = (map dim (inds_sub n sl l), snd L)) by (rewrite <- HsL; apply surjective_pairing).
  assert (ER : R = (map dim (inds_sub n sl r), snd R)) by (rewrite <- HsR; apply surjective_pairing).
  assert (Et : forall la ra, tdot L R la ra
             = tdot (map dim (inds_sub n sl l), snd L) (map dim (inds_sub n sl r), snd R) la ra)
    by (intros; rewrite <- EL, <- ER; reflexivity).
  rewrite !Et.
  destruct (tdot_transpose_is_einsum n e0 _ _ _ (snd L) (snd R) NDl NDr NDp Hpi) as [Hs Hv].
  cbv zeta in Hs, Hv. split.
  - cbn [fst]. exact Hs.
  - intros pos Hp. rewrite Hs, map_length in Hp. cbn [snd]. apply Hv, Hp.
Qed.

(* a leaf as the interpreter holds it after the pre-processing instructions *)
Definition leaf_sarr (k : nat) : sarr :=
  match leaf_preproc n sl k with
  | Some (term, kept) => (map dim kept, einsum1 n e0 term kept (sliced_arr n sl arr e0 k))
  | None => (map dim (term_sl n sl k), sliced_arr n sl arr e0 k)
  end.

Lemma leaf_sarr_spec k :
  leaf_sarr k = (map dim (inds_sub n sl (Leaf k)), leaf_tensor n sl arr e0 k).
Proof.
  unfold leaf_sarr, leaf_tensor, leaf_preproc. cbn [inds_sub].
  destruct (leaf_simplifiable n sl k) eqn:Es; [reflexivity|].
  unfold leaf_legs. rewrite Es.
  unfold leaf_simplifiable in Es. apply orb_false_iff in Es. destruct Es as [Elen _].
  apply negb_false_iff, Nat.eqb_eq in Elen.
  rewrite (legs_of_term_keys_nodup _ Elen). reflexivity.
Qed.

Fixpoint run_sub_x (t : tree) : sarr :=
  match t with
  | Leaf k => leaf_sarr k
  | Node l r => node_exec false l r (run_sub_x l) (run_sub_x r)
  end.
Definition run_root_x (t : tree) : sarr :=
  match t with
  | Leaf k => leaf_sarr k
  | Node l r => node_exec true l r (run_sub_x l) (run_sub_x r)
  end.

Theorem run_sub_x_eq t : inrange n (leaves t) ->
  sarr_eq (run_sub_x t) (map dim (inds_sub n sl t), run_sub n sl arr e0 t).
Proof.
  induction t as [k|l IHl r IHr]; intros HR.
  - cbn [run_sub_x run_sub]. rewrite leaf_sarr_spec. split; [reflexivity|intros; reflexivity].
  - cbn [leaves] in HR.
    pose proof (inrange_app_l n _ _ HR) as HL. pose proof (inrange_app_r n _ _ HR) as HRr.
    destruct (IHl HL) as [HsL HvL]. destruct (IHr HRr) as [HsR HvR]. cbn [fst snd] in HsL, HvL, HsR, HvR.
    cbn [run_sub_x run_sub].
    eapply sarr_eq_trans.
    + apply (node_exec_is_einsum false l r _ _ HR); [|exact HsL|exact HsR].
      apply (inds_sub_spec n sl (Node l r)). exact HR.
    + split; [reflexivity|]. intros pos _. cbn [snd inds]. apply einsum2_cong.
      * intros p Hp. apply HvL. rewrite HsL, map_length. exact Hp.
      * intros p Hp. apply HvR. rewrite HsR, map_length. exact Hp.
Qed.

Theorem run_root_x_eq l r : inrange n (leaves l ++ leaves r) -> NoDup (output n) ->
  sarr_eq (run_root_x (Node l r)) (map dim (out_inds n sl), run_root n sl arr e0 (Node l r)).
Proof.
  intros HR NDo.
  pose proof (inrange_app_l n _ _ HR) as HL. pose proof (inrange_app_r n _ _ HR) as HRr.
  destruct (run_sub_x_eq l HL) as [HsL HvL]. destruct (run_sub_x_eq r HRr) as [HsR HvR].
  cbn [fst snd] in HsL, HvL, HsR, HvR.
  cbn [run_root_x run_root].
  eapply sarr_eq_trans.
  - apply (node_exec_is_einsum true l r _ _ HR); [|exact HsL|exact HsR].
    cbn [inds]. change (lkeys (root_legs n sl)) with (out_inds n sl). rewrite out_inds_eq.
    apply NoDup_filter, NDo.
  - split; [reflexivity|]. intros pos _. cbn [snd inds]. apply einsum2_cong.
    + intros p Hp. apply HvL. rewrite HsL, map_length. exact Hp.
    + intros p Hp. apply HvR. rewrite HsR, map_length. exact Hp.
Qed.

(* value AND axis order of the mixed tensordot/einsum execution *)
Theorem run_root_x_correct l r : wf_net n -> full_tree n (Node l r) ->
  fst (run_root_x (Node l r)) = map dim (out_inds n sl) /\
  forall e, agree_removed sl e0 e ->
    snd (run_root_x (Node l r)) (map e (out_inds n sl)) = einsum_spec n sl arr e.
Proof.
  intros WF HF. pose proof (full_tree_inrange n _ HF) as HR. cbn [leaves] in HR.
  destruct (run_root_x_eq l r HR (proj1 WF)) as [Hs Hv]. cbn [fst snd] in Hs, Hv.
  split; [exact Hs|]. intros e Ha.
  rewrite Hv by (rewrite Hs, !map_length; reflexivity).
  apply run_root_correct; assumption.
Qed.
End T4.

(* ------------------------------------------------------------------ *)
(* (T5) the interpreter itself (exec_program over the `temps` dictionary) on the
   program extract_contractions emits for the default depth-first order returns
   exactly run_root_x.                                                        *)
Lemma list_eqb_nat_refl k : list_eqb Nat.eqb k k = true.
Proof. induction k as [|x k IH]; cbn [list_eqb]; [reflexivity|]. rewrite Nat.eqb_refl. exact IH. Qed.
Lemma list_eqb_nat_neq k k' : k <> k' -> list_eqb Nat.eqb k k' = false.
Proof.
  intros H. destruct (list_eqb Nat.eqb k k') eqn:E; [|reflexivity]. apply list_eqb_nat_eq in E. contradiction.
Qed.

Lemma tget_tdel_other k k' (tm : temps) : k' <> k -> tget k' (tdel k tm) = tget k' tm.
Proof.
  intros H. induction tm as [|[k0 v] tm IH]; cbn [tdel tget]; [reflexivity|].
  destruct (list_eqb Nat.eqb k0 k) eqn:E.
  - apply list_eqb_nat_eq in E. subst k0. rewrite (list_eqb_nat_neq k k') by congruence. reflexivity.
  - cbn [tget]. rewrite IH. reflexivity.
Qed.
Lemma tget_tset_same k v (tm : temps) : tget k (tset k v tm) = v.
Proof. unfold tset. cbn [tget]. rewrite list_eqb_nat_refl. reflexivity. Qed.
Lemma tget_tset_other k k' v (tm : temps) : k' <> k -> tget k' (tset k v tm) = tget k' tm.
Proof.
  intros H. unfold tset. cbn [tget]. rewrite (list_eqb_nat_neq k k') by congruence.
  apply tget_tdel_other, H.
Qed.

Lemma leaves_nonempty t : exists x, In x (leaves t).
Proof.
  induction t as [k|l [x Hx] r _]; cbn [leaves]; [exists k; left; reflexivity|].
  exists x. apply in_app_iff. left; exact Hx.
Qed.

Section T5.
Variable n : net.
Variable sl : list slinfo.
Variable arr : nat -> ptensor.
Variable e0 : env.
Variable pe : bool.
Notation dim := (dim n).
Notation exec := (exec_instr n e0).
Notation run_sub_x := (run_sub_x n sl arr e0 pe).
Notation leaf_sarr := (leaf_sarr n sl arr e0).

Definition outside (K s : list nat) : Prop := exists x, In x K /\ ~ In x s.

(* state after executing the instructions of all internal nodes of s (children first) *)
Definition sub_done (s : tree) : Prop := forall tm : temps,
  (forall k, In k (leaves s) -> tget [k] tm = leaf_sarr k) ->
  let tm' := fold_left exec (flat_map (node_instr n sl pe) (map (pair false) (post_sub s))) tm in
  tget (leaves s) tm' = run_sub_x s /\
  forall K, outside K (leaves s) -> tget K tm' = tget K tm.

Lemma children_then_node isroot l r : sub_done l -> sub_done r -> NoDup (leaves l ++ leaves r) ->
  forall tm : temps, (forall k, In k (leaves l ++ leaves r) -> tget [k] tm = leaf_sarr k) ->
  let tm' := fold_left exec
               (flat_map (node_instr n sl pe) (map (pair false) (post_sub l ++ post_sub r) ++ [(isroot, Node l r)])) tm in
  tget (leaves l ++ leaves r) tm' = node_exec n sl e0 pe isroot l r (run_sub_x l) (run_sub_x r) /\
  forall K, outside K (leaves l ++ leaves r) -> tget K tm' = tget K tm.
Proof.
  intros Pl Pr ND tm Hleaf.
  rewrite map_app, !flat_map_app, !fold_left_app. cbn [flat_map]. rewrite app_nil_r.
  set (tm1 := fold_left exec (flat_map (node_instr n sl pe) (map (pair false) (post_sub l))) tm).
  set (tm2 := fold_left exec (flat_map (node_instr n sl pe) (map (pair false) (post_sub r))) tm1).
  destruct (Pl tm) as [Vl Fl].
  { intros k Hk. apply Hleaf, in_app_iff. left; exact Hk. }
  fold tm1 in Vl, Fl.
  destruct (Pr tm1) as [Vr Fr].
  { intros k Hk. rewrite Fl.
    - apply Hleaf, in_app_iff. right; exact Hk.
    - exists k. split; [left; reflexivity|]. intros Hin. apply (NoDup_app_disj _ _ k ND Hin Hk). }
  fold tm2 in Vr, Fr.
  assert (Vl2 : tget (leaves l) tm2 = run_sub_x l).
  { rewrite Fr; [exact Vl|]. destruct (leaves_nonempty l) as [x Hx]. exists x. split; [exact Hx|].
    intros Hin. apply (NoDup_app_disj _ _ x ND Hx Hin). }
  rewrite node_instr_exec. cbn [leaves]. split.
  - rewrite tget_tset_same, Vl2, Vr. reflexivity.
  - intros K [x [HxK Hx]]. rewrite in_app_iff in Hx.
    assert (N1 : K <> leaves l ++ leaves r) by (intros ->; apply Hx, in_app_iff, HxK).
    assert (N2 : K <> leaves l) by (intros ->; tauto).
    assert (N3 : K <> leaves r) by (intros ->; tauto).
    rewrite tget_tset_other, !tget_tdel_other by assumption.
    rewrite Fr by (exists x; tauto). apply Fl. exists x; tauto.
Qed.

Lemma sub_done_all s : NoDup (leaves s) -> sub_done s.
Proof.
  induction s as [k|l IHl r IHr]; intros ND.
  - intros tm Hleaf. cbn [post_sub map flat_map fold_left leaves]. split; [|intros; reflexivity].
    apply Hleaf. left; reflexivity.
  - cbn [leaves] in ND. destruct (NoDup_app_elim _ _ ND) as [NDl NDr].
    intros tm Hleaf. cbn [post_sub run_sub_x TdotFacts.run_sub_x leaves].
    replace (map (pair false) (post_sub l ++ post_sub r ++ [Node l r]))
      with (map (pair false) (post_sub l ++ post_sub r) ++ [(false, Node l r)])
      by (rewrite (app_assoc (post_sub l) (post_sub r) [Node l r]),
                  (map_app (pair false) (post_sub l ++ post_sub r) [Node l r]); reflexivity).
    apply (children_then_node false l r (IHl NDl) (IHr NDr) ND tm Hleaf).
Qed.

(* ---- the pre-processing instructions ---- *)
Definition pre_of (k : nat) (A : sarr) : sarr :=
  match leaf_preproc n sl k with
  | Some (term, kept) => (map dim kept, einsum1 n e0 term kept (snd A))
  | None => A
  end.
Definition pre_of_leaf (k : nat) : list instr :=
  match leaf_preproc n sl k with
  | Some (term, kept) => [IPre k term kept]
  | None => []
  end.

Lemma singleton_neq (a b : nat) : a <> b -> [a] <> [b].
Proof. intros H E. injection E. exact H. Qed.

Lemma exec_pre ks : NoDup ks -> forall tm : temps,
  let tm' := fold_left exec (flat_map pre_of_leaf ks) tm in
  (forall k, In k ks -> tget [k] tm' = pre_of k (tget [k] tm)) /\
  (forall K, (forall k, In k ks -> K <> [k]) -> tget K tm' = tget K tm).
Proof.
  induction 1 as [|k ks Hn ND IH]; intros tm; cbn [flat_map].
  - cbn [fold_left]. split; [intros k []|intros; reflexivity].
  - rewrite fold_left_app.
    set (tm1 := fold_left exec (pre_of_leaf k) tm).
    assert (S1 : tget [k] tm1 = pre_of k (tget [k] tm)).
    { unfold tm1, pre_of_leaf, pre_of. destruct (leaf_preproc n sl k) as [[term kept]|]; cbn [fold_left exec_instr]; [|reflexivity].
      apply tget_tset_same. }
    assert (F1 : forall K, K <> [k] -> tget K tm1 = tget K tm).
    { intros K HK. unfold tm1, pre_of_leaf. destruct (leaf_preproc n sl k) as [[term kept]|]; cbn [fold_left exec_instr]; [|reflexivity].
      apply tget_tset_other, HK. }
    destruct (IH tm1) as [V F]. split.
    + intros k' [<-|Hk'].
      * rewrite F; [exact S1|]. intros k' Hk'. apply singleton_neq. intros ->. contradiction.
      * rewrite (V k' Hk'). rewrite F1; [reflexivity|]. apply singleton_neq. intros ->. contradiction.
    + intros K HK. rewrite F by (intros k' Hk'; apply HK; right; exact Hk').
      apply F1, HK. left; reflexivity.
Qed.

Lemma tget_init ks k : In k ks ->
  tget [k] (map (fun k => ([k], (map dim (term_sl n sl k), sliced_arr n sl arr e0 k))) ks)
  = (map dim (term_sl n sl k), sliced_arr n sl arr e0 k).
Proof.
  induction ks as [|k0 ks IH]; [intros []|]. intros H. cbn [map tget list_eqb].
  destruct (Nat.eqb_spec k0 k) as [->|Hne]; [reflexivity|]. cbn [andb].
  apply IH. destruct H as [H|H]; [congruence|exact H].
Qed.

Theorem exec_program_dfs l r : NoDup (leaves l ++ leaves r) ->
  exec_program n sl arr e0 (program n sl pe (Node l r) (traverse_dfs (Node l r))) (Node l r)
  = run_root_x n sl arr e0 pe (Node l r).
Proof.
  intros ND. unfold exec_program, program, pre_instrs. rewrite fold_left_app.
  change (flat_map _ (leaves (Node l r))) with (flat_map pre_of_leaf (leaves (Node l r))).
  cbn [leaves] in *.
  destruct (exec_pre _ ND (init_temps n sl arr e0 (Node l r))) as [V _].
  set (tm0 := fold_left exec (flat_map pre_of_leaf (leaves l ++ leaves r)) (init_temps n sl arr e0 (Node l r))) in *.
  assert (Hleaf : forall k, In k (leaves l ++ leaves r) -> tget [k] tm0 = leaf_sarr k).
  { intros k Hk. rewrite (V k Hk). unfold init_temps. cbn [leaves]. rewrite (tget_init _ k Hk).
    unfold pre_of, TdotFacts.leaf_sarr. destruct (leaf_preproc n sl k) as [[term kept]|]; reflexivity. }
  destruct (NoDup_app_elim _ _ ND) as [NDl NDr].
  cbn [traverse_dfs].
  destruct (children_then_node true l r (sub_done_all l NDl) (sub_done_all r NDr) ND tm0 Hleaf) as [Hv _].
  exact Hv.
Qed.

(* hence: the interpreter's result for the default order, any prefer_einsum *)
Theorem exec_program_dfs_correct l r : wf_net n -> full_tree n (Node l r) ->
  let res := exec_program n sl arr e0 (program n sl pe (Node l r) (traverse_dfs (Node l r))) (Node l r) in
  fst res = map dim (out_inds n sl) /\
  forall e, agree_removed sl e0 e -> snd res (map e (out_inds n sl)) = einsum_spec n sl arr e.
Proof.
  intros WF HF res. pose proof (full_tree_inrange n _ HF) as HR. cbn [leaves] in HR.
  unfold res. rewrite (exec_program_dfs l r (proj1 HR)).
  apply run_root_x_correct; assumption.
Qed.
End T5.

(* ------------------------------------------------------------------ *)
(* (T6) ANY traversal order.  An order is checked by replaying it on a frontier of
   available subtrees (initially the leaves): each step takes two distinct available
   subtrees a, b and makes Node a b available instead; the last step is flagged as the
   root and produces t.  sched_b is that check as a boolean function (a verified
   checker: the harness can evaluate it on the order the real traverse() produced). *)
Fixpoint tree_eqb (s t : tree) : bool :=
  match s, t with
  | Leaf a, Leaf b => Nat.eqb a b
  | Node a b, Node c d => tree_eqb a c && tree_eqb b d
  | _, _ => false
  end.
Definition tmem (a : tree) (F : list tree) : bool := existsb (tree_eqb a) F.
Definition tremove (a : tree) (F : list tree) : list tree := filter (fun s => negb (tree_eqb s a)) F.

Fixpoint sched_b (t : tree) (F : list tree) (order : list (bool * tree)) : bool :=
  match order with
  | [] => false
  | (flag, s) :: rest =>
      match s with
      | Leaf _ => false
      | Node a b =>
          tmem a F && tmem b F && negb (tree_eqb a b) &&
          match rest with
          | [] => flag && tree_eqb s t
          | _ :: _ => negb flag && sched_b t (s :: tremove a (tremove b F)) rest
          end
      end
  end.
Definition valid_order_b (t : tree) (order : list (bool * tree)) : bool :=
  sched_b t (map Leaf (leaves t)) order.

Lemma tree_eqb_eq s : forall t, tree_eqb s t = true <-> s = t.
Proof.
  induction s as [a|a IHa b IHb]; intros [c|c d]; cbn [tree_eqb]; try (split; [discriminate|intros H; discriminate H]).
  - rewrite Nat.eqb_eq. split; [intros ->; reflexivity|intros H; injection H; auto].
  - rewrite andb_true_iff, IHa, IHb. split; [intros [-> ->]; reflexivity|intros H; injection H; auto].
Qed.
Lemma tmem_In a F : tmem a F = true -> In a F.
Proof.
  unfold tmem. rewrite existsb_exists. intros (s & Hs & E). apply tree_eqb_eq in E. subst s. exact Hs.
Qed.
Lemma in_tremove s a F : In s (tremove a F) <-> In s F /\ s <> a.
Proof.
  unfold tremove. rewrite filter_In, negb_true_iff. split; intros [H1 H2]; split; try exact H1.
  - intros E. apply tree_eqb_eq in E. congruence.
  - destruct (tree_eqb s a) eqn:E; [apply tree_eqb_eq in E; contradiction|reflexivity].
Qed.

Lemma sched_b_node t order : forall F, sched_b t F order = true -> exists a b, t = Node a b.
Proof.
  induction order as [|[flag s] rest IH]; intros F H; cbn [sched_b] in H; [discriminate|].
  destruct s as [k|a b]; [discriminate|].
  apply andb_true_iff in H. destruct H as [_ Hrest].
  destruct rest as [|p rest'].
  - apply andb_true_iff in Hrest. destruct Hrest as [_ Ht]. apply tree_eqb_eq in Ht. exists a, b. congruence.
  - apply andb_true_iff in Hrest. destruct Hrest as [_ Hs]. apply (IH _ Hs).
Qed.

Section T6.
Variable n : net.
Variable sl : list slinfo.
Variable arr : nat -> ptensor.
Variable e0 : env.
Variable pe : bool.
Notation dim := (dim n).
Notation exec := (exec_instr n e0).
Notation run_sub_x := (run_sub_x n sl arr e0 pe).
Notation leaf_sarr := (leaf_sarr n sl arr e0).

(* the available subtrees have pairwise disjoint leaves and the interpreter holds the
   recursive value of each under its key *)
Definition frontier_inv (F : list tree) (tm : temps) : Prop :=
  (forall s1 s2, In s1 F -> In s2 F -> s1 <> s2 -> forall x, In x (leaves s1) -> ~ In x (leaves s2)) /\
  (forall s, In s F -> tget (leaves s) tm = run_sub_x s).

Lemma disjoint_keys_neq (a b : list nat) : (exists x, In x a) ->
  (forall x, In x a -> ~ In x b) -> b <> a.
Proof. intros [x Hx] Hd E. subst b. apply (Hd x Hx Hx). Qed.

Lemma frontier_step F (tm : temps) a b : frontier_inv F tm -> In a F -> In b F -> a <> b ->
  frontier_inv (Node a b :: tremove a (tremove b F))
               (fold_left exec (node_instr n sl pe (false, Node a b)) tm).
Proof.
  intros [Hd Hv] Ha Hb Hab. rewrite node_instr_exec.
  assert (Hold : forall s, In s (tremove a (tremove b F)) -> In s F /\ s <> a /\ s <> b).
  { intros s Hs. apply in_tremove in Hs. destruct Hs as [Hs N1]. apply in_tremove in Hs. tauto. }
  split.
  - intros s1 s2 H1 H2 Hne x Hx1 Hx2.
    destruct H1 as [<-|H1]; destruct H2 as [<-|H2].
    + congruence.
    + destruct (Hold s2 H2) as (H2F & N2a & N2b). cbn [leaves] in Hx1. apply in_app_iff in Hx1.
      destruct Hx1 as [Hx1|Hx1]; [apply (Hd a s2 Ha H2F (not_eq_sym N2a) x Hx1 Hx2)|apply (Hd b s2 Hb H2F (not_eq_sym N2b) x Hx1 Hx2)].
    + destruct (Hold s1 H1) as (H1F & N1a & N1b). cbn [leaves] in Hx2. apply in_app_iff in Hx2.
      destruct Hx2 as [Hx2|Hx2]; [apply (Hd s1 a H1F Ha N1a x Hx1 Hx2)|apply (Hd s1 b H1F Hb N1b x Hx1 Hx2)].
    + destruct (Hold s1 H1) as (H1F & _). destruct (Hold s2 H2) as (H2F & _).
      apply (Hd s1 s2 H1F H2F Hne x Hx1 Hx2).
  - intros s [<-|Hs].
    + rewrite tget_tset_same. cbn [TdotFacts.run_sub_x]. rewrite (Hv a Ha), (Hv b Hb). reflexivity.
    + destruct (Hold s Hs) as (HsF & Na & Nb).
      assert (K1 : leaves s <> leaves a).
      { apply disjoint_keys_neq; [apply leaves_nonempty|]. intros x Hx. apply (Hd a s Ha HsF (not_eq_sym Na) x Hx). }
      assert (K2 : leaves s <> leaves b).
      { apply disjoint_keys_neq; [apply leaves_nonempty|]. intros x Hx. apply (Hd b s Hb HsF (not_eq_sym Nb) x Hx). }
      assert (K3 : leaves s <> leaves (Node a b)).
      { destruct (leaves_nonempty a) as [x Hx]. intros E.
        apply (Hd a s Ha HsF (not_eq_sym Na) x Hx). rewrite E. cbn [leaves]. apply in_app_iff. left; exact Hx. }
      rewrite tget_tset_other, !tget_tdel_other by assumption. apply Hv, HsF.
Qed.

Lemma sched_exec t order : forall F (tm : temps), frontier_inv F tm -> sched_b t F order = true ->
  tget (leaves t) (fold_left exec (flat_map (node_instr n sl pe) order) tm) = run_root_x n sl arr e0 pe t.
Proof.
  induction order as [|[flag s] rest IH]; intros F tm Inv H; cbn [sched_b] in H; [discriminate|].
  destruct s as [k|a b]; [discriminate|].
  apply andb_true_iff in H. destruct H as [H Hrest].
  apply andb_true_iff in H. destruct H as [H Hab].
  apply andb_true_iff in H. destruct H as [Ha Hb].
  apply tmem_In in Ha, Hb.
  assert (Nab : a <> b).
  { apply negb_true_iff in Hab. intros E. apply tree_eqb_eq in E. congruence. }
  cbn [flat_map]. rewrite fold_left_app.
  destruct rest as [|p rest'].
  - apply andb_true_iff in Hrest. destruct Hrest as [Hf Ht]. apply tree_eqb_eq in Ht. subst flag t.
    cbn [flat_map fold_left]. rewrite node_instr_exec, tget_tset_same.
    destruct Inv as [_ Hv]. rewrite (Hv a Ha), (Hv b Hb). reflexivity.
  - apply andb_true_iff in Hrest. destruct Hrest as [Hf Hs]. apply negb_true_iff in Hf. subst flag.
    apply (IH (Node a b :: tremove a (tremove b F))); [|exact Hs].
    apply frontier_step; assumption.
Qed.

Theorem exec_program_any_order t order : NoDup (leaves t) -> valid_order_b t order = true ->
  exec_program n sl arr e0 (program n sl pe t order) t = run_root_x n sl arr e0 pe t.
Proof.
  intros ND Hs. unfold exec_program, program, pre_instrs. rewrite fold_left_app.
  change (flat_map _ (leaves t)) with (flat_map (pre_of_leaf n sl) (leaves t)).
  destruct (exec_pre n sl e0 _ ND (init_temps n sl arr e0 t)) as [V _].
  set (tm0 := fold_left exec (flat_map (pre_of_leaf n sl) (leaves t)) (init_temps n sl arr e0 t)) in *.
  apply (sched_exec t order (map Leaf (leaves t)) tm0); [|exact Hs].
  split.
  - intros s1 s2 H1 H2 Hne x Hx1 Hx2. apply in_map_iff in H1, H2.
    destruct H1 as (k1 & <- & _). destruct H2 as (k2 & <- & _). cbn [leaves In] in Hx1, Hx2.
    apply Hne. destruct Hx1 as [<-|[]]. destruct Hx2 as [<-|[]]. reflexivity.
  - intros s Hs'. apply in_map_iff in Hs'. destruct Hs' as (k & <- & Hk). cbn [leaves TdotFacts.run_sub_x].
    rewrite (V k Hk). unfold init_temps. rewrite (tget_init n sl arr e0 _ k Hk).
    unfold pre_of, TdotFacts.leaf_sarr. destruct (leaf_preproc n sl k) as [[term kept]|]; reflexivity.
Qed.

Theorem exec_program_any_order_correct t order : wf_net n -> full_tree n t ->
  valid_order_b t order = true ->
  let res := exec_program n sl arr e0 (program n sl pe t order) t in
  fst res = map dim (out_inds n sl) /\
  forall e, agree_removed sl e0 e -> snd res (map e (out_inds n sl)) = einsum_spec n sl arr e.
Proof.
  intros WF HF Hs res. pose proof (full_tree_inrange n _ HF) as HR.
  unfold res. rewrite (exec_program_any_order t order (proj1 HR) Hs).
  destruct (sched_b_node _ _ _ Hs) as (l & r & E). subst t.
  apply run_root_x_correct; assumption.
Qed.
End T6.

(* ------------------------------------------------------------------ *)
(* the default depth-first order passes the order check, for every tree with
   distinct leaves (so (T5) is an instance of (T6))                         *)
Lemma tree_eqb_refl s : tree_eqb s s = true.
Proof. apply tree_eqb_eq. reflexivity. Qed.
Lemma tmem_iff a F : tmem a F = true <-> In a F.
Proof.
  split; [apply tmem_In|]. intros H. unfold tmem. apply existsb_exists. exists a. split; [exact H|apply tree_eqb_refl].
Qed.
Lemma tmem_ext a F F' : (forall s, In s F <-> In s F') -> tmem a F = tmem a F'.
Proof.
  intros H. destruct (tmem a F') eqn:E.
  - apply tmem_iff, H, tmem_iff, E.
  - destruct (tmem a F) eqn:E2; [|reflexivity]. apply tmem_iff, H, tmem_iff in E2. congruence.
Qed.

Lemma sched_b_ext t order : forall F F', (forall s, In s F <-> In s F') ->
  sched_b t F order = sched_b t F' order.
Proof.
  induction order as [|[flag s] rest IH]; intros F F' H; cbn [sched_b]; [reflexivity|].
  destruct s as [k|a b]; [reflexivity|].
  rewrite (tmem_ext a F F' H), (tmem_ext b F F' H). f_equal.
  destruct rest as [|p rest']; [reflexivity|]. f_equal.
  apply IH. intros s. cbn [In]. rewrite !in_tremove, H. tauto.
Qed.

Lemma sched_b_step t F a b p rest :
  sched_b t F ((false, Node a b) :: p :: rest)
  = tmem a F && tmem b F && negb (tree_eqb a b) && sched_b t (Node a b :: tremove a (tremove b F)) (p :: rest).
Proof. reflexivity. Qed.
Lemma sched_b_last t F a b :
  sched_b t F [(true, Node a b)] = tmem a F && tmem b F && negb (tree_eqb a b) && tree_eqb (Node a b) t.
Proof. reflexivity. Qed.

Definition keep_outside (s : tree) (u : tree) : bool :=
  match u with Leaf k => negb (memb k (leaves s)) | Node _ _ => true end.
Definition drop (s : tree) (F : list tree) : list tree := filter (keep_outside s) F.
(* the internal nodes in F have nothing in common with s *)
Definition clean (F : list tree) (s : tree) : Prop :=
  forall a b, In (Node a b) F -> forall x, In x (leaves (Node a b)) -> ~ In x (leaves s).

Lemma in_drop s u F : In u (drop s F) <-> In u F /\ keep_outside s u = true.
Proof. unfold drop. apply filter_In. Qed.

Lemma not_in_drop_self s F : clean F s -> ~ In s (drop s F).
Proof.
  intros Hc H. apply in_drop in H. destruct H as [HF Hk]. destruct s as [k|a b].
  - cbn [keep_outside leaves memb existsb] in Hk. rewrite Nat.eqb_refl in Hk. discriminate.
  - destruct (leaves_nonempty (Node a b)) as [x Hx]. apply (Hc a b HF x Hx Hx).
Qed.

Lemma dfs_sub t s : forall F rest, rest <> [] -> NoDup (leaves s) ->
  (forall k, In k (leaves s) -> In (Leaf k) F) -> clean F s ->
  sched_b t F (map (pair false) (post_sub s) ++ rest) = sched_b t (s :: drop s F) rest.
Proof.
  induction s as [k|l IHl r IHr]; intros F rest Hne ND Hleaf Hclean.
  - cbn [post_sub map app]. apply sched_b_ext. intros u. cbn [In]. rewrite in_drop.
    split.
    + intros Hu. destruct (tree_eqb (Leaf k) u) eqn:E; [left; apply tree_eqb_eq, E|right]. split; [exact Hu|].
      destruct u as [k'|a b]; [|reflexivity]. cbn [keep_outside leaves memb existsb]. rewrite orb_false_r.
      apply negb_true_iff. destruct (Nat.eqb_spec k' k) as [->|]; [|reflexivity].
      cbn [tree_eqb] in E. rewrite Nat.eqb_refl in E. discriminate.
    + intros [<-|[Hu _]]; [apply Hleaf; left; reflexivity|exact Hu].
  - cbn [leaves] in ND, Hleaf. destruct (NoDup_app_elim _ _ ND) as [NDl NDr].
    assert (Hdisj : forall x, In x (leaves l) -> In x (leaves r) -> False)
      by (intros x; apply (NoDup_app_disj _ _ x ND)).
    cbn [post_sub]. rewrite !map_app, <- !app_assoc. cbn [map app].
    (* left subtree *)
    rewrite (IHl F); [|destruct (map (pair false) (post_sub r)); discriminate|exact NDl| |].
    2:{ intros k Hk. apply Hleaf, in_app_iff. left; exact Hk. }
    2:{ intros a b Hab x Hx Hxl. apply (Hclean a b Hab x Hx). cbn [leaves]. apply in_app_iff. left; exact Hxl. }
    (* right subtree *)
    set (F1 := l :: drop l F).
    rewrite (IHr F1); [|discriminate|exact NDr| |].
    2:{ intros k Hk. right. apply in_drop. split; [apply Hleaf, in_app_iff; right; exact Hk|].
        cbn [keep_outside]. apply negb_true_iff, memb_false. intros Hin. apply (Hdisj k Hin Hk). }
    2:{ intros a b [E|Hab] x Hx Hxr.
        - rewrite <- E in Hx. apply (Hdisj x Hx Hxr).
        - apply in_drop in Hab. apply (Hclean a b (proj1 Hab) x Hx). cbn [leaves]. apply in_app_iff. right; exact Hxr. }
    (* the node itself *)
    set (F2 := r :: drop r F1).
    destruct rest as [|p rest']; [contradiction|].
    rewrite sched_b_step.
    assert (Hlr : l <> r).
    { intros E. destruct (leaves_nonempty l) as [x Hx]. apply (Hdisj x Hx). rewrite <- E. exact Hx. }
    assert (Ml : tmem l F2 = true).
    { apply tmem_iff. right. apply in_drop. split; [left; reflexivity|].
      destruct l as [k|a b]; [|reflexivity]. cbn [keep_outside]. apply negb_true_iff, memb_false.
      intros Hin. apply (Hdisj k); [left; reflexivity|exact Hin]. }
    assert (Mr : tmem r F2 = true) by (apply tmem_iff; left; reflexivity).
    assert (Nlr : tree_eqb l r = false).
    { destruct (tree_eqb l r) eqn:E; [apply tree_eqb_eq in E; contradiction|reflexivity]. }
    rewrite Ml, Mr, Nlr. cbn [negb andb].
    apply sched_b_ext. intros u. cbn [In]. rewrite !in_tremove.
    assert (Hl_clean : clean F l).
    { intros a b Hab x Hx Hxl. apply (Hclean a b Hab x Hx). cbn [leaves]. apply in_app_iff. left; exact Hxl. }
    assert (Hr_clean : clean F r).
    { intros a b Hab x Hx Hxr. apply (Hclean a b Hab x Hx). cbn [leaves]. apply in_app_iff. right; exact Hxr. }
    assert (Hkeep : keep_outside (Node l r) u = keep_outside l u && keep_outside r u).
    { destruct u as [k|a b]; [|reflexivity]. cbn [keep_outside leaves]. unfold memb. rewrite existsb_app.
      rewrite negb_orb. reflexivity. }
    split.
    + intros [E|[[Hu Nr] Nl]]; [left; exact E|right].
      destruct Hu as [E|Hu]; [congruence|]. apply in_drop in Hu. destruct Hu as [[E|Hu] Kr]; [congruence|].
      apply in_drop in Hu. destruct Hu as [Hu Kl].
      apply in_drop. split; [exact Hu|]. rewrite Hkeep, Kl, Kr. reflexivity.
    + intros [E|Hu]; [left; exact E|right].
      apply in_drop in Hu. destruct Hu as [Hu K]. rewrite Hkeep in K. apply andb_true_iff in K. destruct K as [Kl Kr].
      assert (Nl : u <> l).
      { intros ->. apply (not_in_drop_self l F Hl_clean). apply in_drop. tauto. }
      assert (Nr : u <> r).
      { intros ->. apply (not_in_drop_self r F Hr_clean). apply in_drop. tauto. }
      split; [|exact Nl]. split; [|exact Nr].
      right. apply in_drop. split; [|exact Kr]. right. apply in_drop. tauto.
Qed.

Theorem dfs_order_valid l r : NoDup (leaves l ++ leaves r) ->
  valid_order_b (Node l r) (traverse_dfs (Node l r)) = true.
Proof.
  intros ND. unfold valid_order_b. cbn [traverse_dfs leaves].
  set (F0 := map Leaf (leaves l ++ leaves r)).
  destruct (NoDup_app_elim _ _ ND) as [NDl NDr].
  assert (Hdisj : forall x, In x (leaves l) -> In x (leaves r) -> False)
    by (intros x; apply (NoDup_app_disj _ _ x ND)).
  assert (Hclean0 : forall s, clean F0 s).
  { intros s a b Hab. apply in_map_iff in Hab. destruct Hab as (k & E & _). discriminate. }
  rewrite map_app, <- app_assoc.
  rewrite (dfs_sub (Node l r) l F0); [|destruct (map (pair false) (post_sub r)); discriminate|exact NDl| |apply Hclean0].
  2:{ intros k Hk. apply in_map, in_app_iff. left; exact Hk. }
  set (F1 := l :: drop l F0).
  rewrite (dfs_sub (Node l r) r F1); [|discriminate|exact NDr| |].
  2:{ intros k Hk. right. apply in_drop. split; [apply in_map, in_app_iff; right; exact Hk|].
      cbn [keep_outside]. apply negb_true_iff, memb_false. intros Hin. apply (Hdisj k Hin Hk). }
  2:{ intros a b [E|Hab] x Hx Hxr.
      - rewrite <- E in Hx. apply (Hdisj x Hx Hxr).
      - apply in_drop in Hab. apply (Hclean0 r a b (proj1 Hab) x Hx Hxr). }
  rewrite sched_b_last.
  assert (Ml : tmem l (r :: drop r F1) = true).
  { apply tmem_iff. right. apply in_drop. split; [left; reflexivity|].
    destruct l as [k|a b]; [|reflexivity]. cbn [keep_outside]. apply negb_true_iff, memb_false.
    intros Hin. apply (Hdisj k); [left; reflexivity|exact Hin]. }
  assert (Mr : tmem r (r :: drop r F1) = true) by (apply tmem_iff; left; reflexivity).
  assert (Nlr : tree_eqb l r = false).
  { destruct (tree_eqb l r) eqn:E; [|reflexivity]. apply tree_eqb_eq in E.
    destruct (leaves_nonempty l) as [x Hx]. exfalso. apply (Hdisj x Hx). rewrite <- E. exact Hx. }
  rewrite Ml, Mr, Nlr. cbn [negb andb]. apply tree_eqb_refl.
Qed.

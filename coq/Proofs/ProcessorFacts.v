(* ProcessorFacts.v -- the abstract machine of ContractionProcessor produces valid SSA paths;
   build_agglom's termination argument fails (finding 17) *)
From Coq Require Import Lia Permutation.
From Ctg Require Import Base Net PathValid Processor BaseFacts PathValidFacts.

Lemma ssa_run_app okl : forall p q av nx,
  ssa_run okl av nx (p ++ q) =
  match ssa_run okl av nx p with Some (av', nx') => ssa_run okl av' nx' q | None => None end.
Proof.
  induction p as [|s p IH]; intros q av nx; cbn; [reflexivity|].
  destruct (ssa_step_ok okl av s); [apply IH|reflexivity].
Qed.

(* invariant: the recorded ssa_path is valid and leaves exactly the present ids *)
Definition AInv (n : nat) (a : amach) : Prop :=
  ssa_run any_len (seq 0 n) n (a_path a) = Some (a_present a, a_ssa a) /\
  NoDup (a_present a) /\ (forall k, In k (a_present a) -> k < a_ssa a).

Lemma AInv_init n : AInv n (a_init n).
Proof.
  repeat split; cbn; [apply seq_NoDup|]. intros k Hk. apply in_seq in Hk. lia.
Qed.

Lemma remove_all_in s l x : In x (remove_all s l) <-> In x l /\ ~ In x s.
Proof.
  unfold remove_all. rewrite filter_In. split; intros [H1 H2]; split; auto.
  - apply negb_true_iff, memb_false in H2. exact H2.
  - apply negb_true_iff, memb_false. exact H2.
Qed.

Lemma AInv_push n a s : AInv n a -> s <> [] -> NoDup s -> (forall i, In i s -> In i (a_present a)) ->
  AInv n (mkA (remove_all s (a_present a) ++ [a_ssa a]) (S (a_ssa a)) (a_path a ++ [s])).
Proof.
  intros (R & ND & LT) Hne Hnd Hin. repeat split; cbn [a_present a_ssa a_path].
  - rewrite ssa_run_app, R. cbn [ssa_run].
    replace (ssa_step_ok any_len (a_present a) s) with true; [reflexivity|].
    symmetry. unfold ssa_step_ok. rewrite NoDup_nodup_b by assumption.
    replace (any_len (length s)) with true by (destruct s; [congruence|reflexivity]).
    cbn. apply forallb_forall. intros i Hi. apply memb_In. auto.
  - apply NoDup_app_intro.
    + now apply NoDup_filter.
    + repeat constructor. intros [].
    + intros x Hx [<-|[]]. apply remove_all_in in Hx as [Hx _]. specialize (LT _ Hx). lia.
  - intros k Hk. apply in_app_or in Hk as [Hk|[<-|[]]]; [|lia].
    apply remove_all_in in Hk as [Hk _]. specialize (LT _ Hk). lia.
Qed.

Lemma a_step_inv n a o a' : AInv n a -> a_step a o = Some a' -> AInv n a'.
Proof.
  intros I H. destruct o as [i j|i]; cbn in H.
  - destruct (memb i (a_present a)) eqn:Ei; [|discriminate].
    destruct (memb j (a_present a)) eqn:Ej; [|discriminate].
    destruct (Nat.eqb i j) eqn:Eij; [discriminate|]. cbn in H. injection H as <-.
    apply memb_In in Ei, Ej. apply Nat.eqb_neq in Eij.
    apply AInv_push; try assumption.
    + discriminate.
    + repeat constructor; cbn; intuition.
    + intros k [<-|[<-|[]]]; assumption.
  - destruct (memb i (a_present a)) eqn:Ei; [|discriminate]. injection H as <-.
    apply memb_In in Ei. apply AInv_push; try assumption.
    + discriminate.
    + repeat constructor. intros [].
    + intros k [<-|[]]; assumption.
Qed.

Lemma a_run_inv n : forall os a a', AInv n a -> a_run a os = Some a' -> AInv n a'.
Proof.
  induction os as [|o os IH]; intros a a' I H; cbn in H.
  - injection H as <-. assumption.
  - destruct (a_step a o) as [a1|] eqn:E; [|discriminate]. eapply IH; [|eassumption]. eapply a_step_inv; eassumption.
Qed.

(* the choice oracle of optimize_remaining_by_size: two distinct present ids *)
Definition choose_ok (choose : list nat -> nat * nat) : Prop :=
  forall l, 2 <= length l -> In (fst (choose l)) l /\ In (snd (choose l)) l /\ fst (choose l) <> snd (choose l).

Lemma remove_one_length i : forall l, NoDup l -> In i l -> S (length (remove_all [i] l)) = length l.
Proof.
  unfold remove_all. induction l as [|x l IH]; intros ND Hin; [destruct Hin|].
  inversion ND as [|? ? Hx ND']; subst. cbn [filter memb existsb].
  destruct (Nat.eqb x i) eqn:E; cbn [orb negb].
  - apply Nat.eqb_eq in E. subst x. cbn. f_equal.
    rewrite filter_all_true; [reflexivity|]. intros y Hy. apply negb_true_iff.
    unfold memb. cbn. rewrite orb_false_r. apply Nat.eqb_neq. intros ->. contradiction.
  - destruct Hin as [->|Hin]; [rewrite Nat.eqb_refl in E; discriminate|].
    cbn [length]. f_equal. now apply IH.
Qed.

Lemma remove_two_length i j l : NoDup l -> In i l -> In j l -> i <> j ->
  S (S (length (remove_all [i; j] l))) = length l.
Proof.
  intros ND Hi Hj Hij.
  assert (E : remove_all [i; j] l = remove_all [j] (remove_all [i] l)).
  { rewrite <- (remove_all_cons i [j] l). f_equal. unfold remove_all. apply filter_ext.
    intros k. unfold memb. cbn. now rewrite orb_false_r. }
  rewrite E. rewrite (remove_one_length j).
  - now apply remove_one_length.
  - now apply NoDup_filter.
  - apply remove_all_in. split; [assumption|]. intros [->|[]]. congruence.
Qed.

Lemma a_remaining_ok n choose : choose_ok choose -> forall fuel a, AInv n a ->
  length (a_present a) <= S fuel -> a_present a <> [] ->
  exists a', a_remaining choose fuel a = Some a' /\ AInv n a' /\ length (a_present a') = 1.
Proof.
  intros Hc. induction fuel as [|f IH]; intros a I L Hne.
  - destruct (a_present a) as [|x [|y l]] eqn:E; [congruence| |cbn in L; lia].
    exists a. cbn. rewrite E. repeat split; try apply I.
  - destruct (a_present a) as [|x [|y l]] eqn:E; [congruence| |].
    + exists a. cbn. rewrite E. repeat split; try apply I.
    + cbn [a_remaining]. rewrite E. rewrite <- E.
      destruct (choose (a_present a)) as [i j] eqn:Ech.
      destruct (Hc (a_present a)) as (Hi & Hj & Hij); [rewrite E; cbn; lia|].
      rewrite Ech in Hi, Hj, Hij. cbn [fst snd] in Hi, Hj, Hij.
      assert (Es : a_step a (AContract i j) =
                   Some (mkA (remove_all [i; j] (a_present a) ++ [a_ssa a]) (S (a_ssa a)) (a_path a ++ [[i; j]]))).
      { cbn. rewrite (proj2 (memb_In i _) Hi), (proj2 (memb_In j _) Hj).
        rewrite (proj2 (Nat.eqb_neq i j) Hij). reflexivity. }
      rewrite Es. apply IH.
      * eapply a_step_inv; eassumption.
      * cbn [a_present]. rewrite app_length. cbn.
        pose proof (remove_two_length i j (a_present a) (proj1 (proj2 I)) Hi Hj Hij) as HL.
        rewrite <- E in L. lia.
      * cbn [a_present]. intros Hc2. apply app_eq_nil in Hc2 as [_ Hc2]. discriminate.
Qed.

(* processor_paths_valid (SSA part): ANY sequence of contract_nodes / single-term steps on
   present nodes, followed by optimize_remaining_by_size with ANY choice of two distinct
   present nodes, leaves one node and has recorded a valid complete SSA path *)
Theorem processor_ssa_path_valid n os a choose fuel : 1 <= n ->
  a_run (a_init n) os = Some a -> choose_ok choose -> length (a_present a) <= S fuel ->
  exists a', a_remaining choose fuel a = Some a' /\ length (a_present a') = 1 /\
             ssa_path_valid n (a_path a') = true.
Proof.
  intros Hn R Hc L.
  pose proof (a_run_inv n os _ _ (AInv_init n) R) as I.
  assert (Hne : a_present a <> []).
  { destruct I as (Rn & _). intros Hc2.
    eapply ssa_run_nonempty; [exact Rn| |exact Hc2]. destruct n; [lia|discriminate]. }
  destruct (a_remaining_ok n choose Hc fuel a I L Hne) as (a' & E & I' & L').
  exists a'. repeat split; try assumption.
  unfold ssa_path_valid. destruct I' as (Rn & _). rewrite Rn. now apply Nat.eqb_eq.
Qed.

(* ------------------------------------------------------------------ *)
(* the OLD build_agglom loop (before /repo commit 001d170) does not terminate when the
   partition function merges nothing *)
Definition id_membership (l : list nset) : list nat := seq 0 (length l).

Lemma agglom_round_id5 : agglom_round (sub_of_table []) id_membership (leaf_forest 5) = Some (leaf_forest 5).
Proof. vm_compute. reflexivity. Qed.

Theorem old_build_agglom_terminates_refuted :
  exists (memb_fn : list nset -> list nat) (n groupsize : nat),
    (forall l, length (memb_fn l) = length l) /\ groupsize >= 2 /\
    forall fuel, build_agglom_old (sub_of_table []) memb_fn groupsize fuel n = None.
Proof.
  exists id_membership, 5, 4. split; [|split; [lia|]].
  - intros l. unfold id_membership. apply seq_length.
  - assert (H : forall fuel, agglom_loop_old (sub_of_table []) id_membership 4 fuel (leaf_forest 5) = None).
    { induction fuel as [|f IH]; [reflexivity|].
      cbn [agglom_loop_old]. rewrite agglom_round_id5.
      change (Nat.ltb 4 (length (leaf_forest 5))) with true. cbn iota. exact IH. }
    intros fuel. unfold build_agglom_old. now rewrite H.
Qed.

(* TreeStateReady.v -- C02 step 3, the corollary: a boolean-checked primitive trace from a fresh tree
   that ends with a recipe reset followed only by queries, then extract_contractions, reaches a state
   that passes the readiness check contractible_b -- hence (TreeStateValue.state_value) contracts to
   einsum_spec in the declared output order -- and in which every cached equation is the step that
   semantics uses. *)
From Coq Require Import Lia ZifyBool Permutation.
From Ctg Require Import Base Net Einsum Program BaseFacts NetFacts ProgramFacts TreeState TreeStateFacts TreeStateInv
                        TreeStatePre TreeStateMon TreeStateProg TreeStateValue TreeStateRec TreeStateRecipes.

Open Scope nat_scope.

Section Ready.
Variable n : net.
Notation N := (NN n).
Hypothesis HN : 2 <= N.
Hypothesis Hout : NoDup (output n).

(* ---- A. soundness of the boolean preconditions ---- *)
Lemma pairA_pre_b_sound s x y lg : pairA_pre_b n s x y lg = true -> pairA_pre n s x y lg.
Proof.
  unfold pairA_pre_b, pairA_pre. intros H l -> EN. rewrite EN, Nat.eqb_refl in H. apply list_eqb_nat_eq, H.
Qed.
Theorem primA_pre_b_sound p s : primA_pre_b n p s = true -> primA_pre n p s.
Proof.
  unfold primA_pre_b, primA_pre. intros H. apply andb_true_iff in H. destruct H as [H1 H2].
  split; [apply (prim_pre_b_sound n Hout), H1|]. destruct p; try exact I. apply pairA_pre_b_sound, H2.
Qed.
Theorem preA_trace_b_sound tr : forall s, preA_trace_b n tr s = true -> preA_trace n tr s.
Proof.
  induction tr as [|p tr IH]; intros s H; cbn in *; [exact I|].
  apply andb_true_iff in H. destruct H as [H1 H2]. split; [apply primA_pre_b_sound, H1|apply IH, H2].
Qed.
Theorem checked_run_QA tr s : QA n s -> preA_trace_b n tr s = true -> QA n (run n tr s).
Proof. intros HQ H. apply (run_preserves_QA n HN Hout tr s HQ), preA_trace_b_sound, H. Qed.
Theorem checked_trace_QA tr : preA_trace_b n tr (init_state n) = true -> QA n (run n tr (init_state n)).
Proof. apply checked_run_QA, init_state_QA; assumption. Qed.

(* ---- B. (B) holds at the end of a trace whose tail is reset + queries ---- *)
Lemma run_app tr1 tr2 s : run n (tr1 ++ tr2) s = run n tr2 (run n tr1 s).
Proof. unfold run. apply fold_left_app. Qed.
Lemma preA_trace_b_app tr1 : forall tr2 s, preA_trace_b n (tr1 ++ tr2) s = preA_trace_b n tr1 s && preA_trace_b n tr2 (run n tr1 s).
Proof.
  induction tr1 as [|p tr1 IH]; intros tr2 s; cbn [app preA_trace_b]; [reflexivity|].
  rewrite IH, andb_assoc. reflexivity.
Qed.
Lemma PBe_same s s' : info s' = info s -> children s' = children s -> err s' = err s -> PBe s -> PBe s'.
Proof.
  intros E1 E2 E3 HP He nd i Hi. rewrite E1 in Hi. apply (entB_ext s); [exact E2| | |apply HP; [congruence|exact Hi]];
    intros q; unfold rd; rewrite E1; reflexivity.
Qed.
Lemma PB_init : PB (init_state n).
Proof.
  intros nd i Hi. apply entB_norec. apply nget_In in Hi. cbn [init_state info] in Hi. apply in_app_iff in Hi.
  assert (Ei : i = noinfo).
  { destruct Hi as [Hi|[Hi|[]]]; [|congruence]. apply in_map_iff in Hi. destruct Hi as (j & Hj & _). congruence. }
  subst i. unfold norec. cbn. auto.
Qed.
Theorem tail_PBe rtr : preA_trace_b n (rev rtr) (init_state n) = true -> tail_ok_rev rtr = true ->
  PBe (run n (rev rtr) (init_state n)).
Proof.
  induction rtr as [|p r IH]; intros Hpre Htail; [intros _; apply PB_init|].
  cbn [rev] in *. rewrite run_app. rewrite preA_trace_b_app in Hpre. apply andb_true_iff in Hpre. destruct Hpre as [Hpre Hp].
  cbn [preA_trace_b] in Hp. rewrite andb_true_r in Hp. apply primA_pre_b_sound in Hp. destruct Hp as [Hp _].
  set (s := run n (rev r) (init_state n)) in *. cbn [run fold_left].
  destruct (checked_trace_QA (rev r) Hpre) as [HI HA]. fold s in HI, HA.
  pose proof (InvC_chok n s HI) as Hc.
  cbn [tail_ok_rev] in Htail. destruct (is_query_b p) eqn:Eq.
  - specialize (IH Hpre Htail).
    destruct p as [nd|nd|x y lg c z|g nd|f| | | | | |pr a b c|ind pj|ind| |k]; try discriminate; cbn [step].
    + cbn [prim_pre prim_preN prim_pre1 prim_pre0] in Hp.
      apply (getter_preserves_PBe n HN Hout); try assumption. destruct g; try exact Hp. apply Hp.
    + apply (PBe_crel n s); [exact IH|apply contract_stats_crel; assumption].
    + apply (PBe_crel n s); [exact IH|apply total_flops_crel; assumption].
    + apply (PBe_crel n s); [exact IH|apply total_write_crel; assumption].
    + apply (PBe_crel n s); [exact IH|apply max_size_crel; assumption].
    + apply (PBe_same s); auto.
    + destruct (memb k (cores s)); [exact IH|apply (PBe_same s); auto].
  - destruct p as [nd|nd|x y lg c z|g nd|f| | | | | |pr a b c|ind pj|ind| |k]; try discriminate; cbn [step].
    + intros _. apply PB_reset_inds.
    + intros _. apply PB_reset_recipes.
    + apply PBe_sort_inds.
    + apply PBe_remove_ind.
    + apply PBe_restore_ind.
Qed.

(* ---- C. extract_contractions ---- *)
Definition filled3 (s : tstate) (p l r : node) : Prop :=
  rd i_inds s p <> None /\ rd i_inds s l <> None /\ rd i_inds s r <> None.
Lemma mrl_inds s s' nd : mrl n s s' -> rd i_inds s nd <> None -> rd i_inds s' nd <> None.
Proof.
  intros (A1&_) H. destruct (rd i_inds s nd) as [v|] eqn:E; [|congruence]. destruct (rd_Some _ _ _ _ E) as (i & Hi & Hv).
  destruct (irel_nget _ _ _ A1 nd i Hi) as (i' & Hi' & (_&_&_&_&Hm&_)). unfold rd. rewrite Hi', (Hm v Hv). discriminate.
Qed.
Lemma mrl_filled s s' p l r : mrl n s s' -> filled3 s p l r -> filled3 s' p l r.
Proof. intros H (A&B&C). repeat split; apply (mrl_inds s s'); assumption. Qed.
Lemma rd_upd_keep {A} (fld : ninfo -> option A) nd f s : (forall i, fld (f i) = fld i) -> forall q, rd fld (upd_info nd f s) q = rd fld s q.
Proof.
  intros Hfld q. destruct (node_eq_dec q nd) as [->|Hq]; [|apply rd_upd_other, Hq].
  destruct (nget nd (info s)) as [i|] eqn:E.
  - rewrite (rd_upd_same fld nd f s i E). unfold rd. rewrite E. apply Hfld.
  - unfold upd_info. rewrite E. reflexivity.
Qed.
Lemma g_eq_fill s nd l r : InvC n s -> PAe n s -> PBe s -> good_node n nd -> nget nd (children s) = Some (l, r) ->
  err (fst (g_eq n s nd)) = false -> filled3 (fst (g_eq n s nd)) nd l r.
Proof.
  intros HI HA HP HG E. unfold g_eq. destruct (rd i_eq s nd) as [e|] eqn:Er.
  - cbn [fst]. intros He. destruct (rd_Some _ _ _ _ Er) as (i & Hi & Hv).
    destruct (HP He nd i Hi l r E) as (_&B2&_). destruct (B2 e Hv) as (li & ri & pi & Hl & Hr & Hp & _).
    unfold filled3, rd at 1. rewrite Hi, Hp, Hl, Hr. repeat split; discriminate.
  - rewrite E. pose proof (inds3_A n HN Hout s nd l r HI HA HG E) as H.
    destruct (g_inds n s l) as [s1 li]. destruct (g_inds n s1 r) as [s2 ri]. destruct (g_inds n s2 nd) as [s3 pi].
    destruct H as (_&_&_&_&_&_&_&C3). cbn [fst]. intros He. destruct (upd_err _ _ _ He) as [He3 _].
    destruct (C3 He3) as (Cl & Cr & Cp). unfold filled3. rewrite !(rd_upd_keep i_inds) by (intros; reflexivity).
    rewrite Cl, Cr, Cp. repeat split; discriminate.
Qed.
Lemma g_tdperm_fill s nd l r : InvC n s -> PAe n s -> PBe s -> good_node n nd -> nget nd (children s) = Some (l, r) ->
  err (fst (g_tdperm n s nd)) = false -> filled3 (fst (g_tdperm n s nd)) nd l r.
Proof.
  intros HI HA HP HG E. unfold g_tdperm. destruct (rd i_tdperm s nd) as [e|] eqn:Er.
  - cbn [fst]. intros He. destruct (rd_Some _ _ _ _ Er) as (i & Hi & Hv).
    destruct (HP He nd i Hi l r E) as (_&_&B3&_). destruct (B3 e Hv) as (li & ri & pi & Hl & Hr & Hp & _).
    unfold filled3, rd at 1. rewrite Hi, Hp, Hl, Hr. repeat split; discriminate.
  - rewrite E. pose proof (inds3_A n HN Hout s nd l r HI HA HG E) as H.
    destruct (g_inds n s l) as [s1 li]. destruct (g_inds n s1 r) as [s2 ri]. destruct (g_inds n s2 nd) as [s3 pi].
    destruct H as (_&_&_&_&_&_&_&C3). cbn [fst]. intros He. destruct (upd_err _ _ _ He) as [He3 _].
    destruct (C3 He3) as (Cl & Cr & Cp). unfold filled3. rewrite !(rd_upd_keep i_inds) by (intros; reflexivity).
    rewrite Cl, Cr, Cp. repeat split; discriminate.
Qed.

Definition GoodSt (s : tstate) : Prop := InvC n s /\ PAe n s /\ PBe s.
Lemma extract_step_ok pe s p lr l r : GoodSt s -> nget p (children s) = Some (l, r) ->
  GoodSt (extract_step n pe s (p, lr)) /\ mrl n s (extract_step n pe s (p, lr)) /\
  (err (extract_step n pe s (p, lr)) = false -> filled3 (extract_step n pe s (p, lr)) p l r).
Proof.
  intros (HI&HA&HP) E. destruct (entry_good n s p l r HI E) as (Gp&_&_). unfold extract_step. cbn [fst].
  assert (Heq : forall s0, GoodSt s0 -> nget p (children s0) = Some (l, r) ->
            GoodSt (fst (g_eq n s0 p)) /\ mrl n s0 (fst (g_eq n s0 p)) /\ (err (fst (g_eq n s0 p)) = false -> filled3 (fst (g_eq n s0 p)) p l r)).
  { intros s0 (I0&A0&P0) E0. destruct (g_eq_A n HN Hout s0 p I0 A0 Gp) as [A1 M1].
    split; [split; [apply inv_g_eq; assumption|split; [exact A1|apply g_eq_B; assumption]]|].
    split; [exact M1|apply g_eq_fill; assumption]. }
  destruct pe; [apply Heq; [split; [|split]; assumption|exact E]|].
  destruct (g_can_dot_A n HN s p HI HA Gp) as [A1 M1]. pose proof (inv_g_can_dot n HN Hout s p HI Gp) as I1.
  pose proof (g_can_dot_B n HN s p HI HP) as P1. destruct (g_can_dot n s p) as [s1 cd]. cbn [fst] in *.
  assert (E1 : nget p (children s1) = Some (l, r)) by (destruct M1 as (_&Ec&_); rewrite Ec; exact E).
  destruct (negb cd).
  - destruct (Heq s1 (conj I1 (conj A1 P1)) E1) as (G2&M2&F2). split; [exact G2|]. split; [eapply mrl_trans; eassumption|exact F2].
  - destruct (g_tdaxes_A n HN Hout s1 p I1 A1 Gp) as [A2 M2]. pose proof (inv_g_tdaxes n HN Hout s1 p I1 Gp) as I2.
    pose proof (g_tdaxes_B n HN Hout s1 p I1 A1 P1 Gp) as P2. set (s2 := fst (g_tdaxes n s1 p)) in *.
    assert (E2 : nget p (children s2) = Some (l, r)) by (destruct M2 as (_&Ec&_); rewrite Ec; exact E1).
    destruct (g_tdperm_A n HN Hout s2 p I2 A2 Gp) as [A3 M3].
    split; [split; [apply inv_g_tdperm; assumption|split; [exact A3|apply g_tdperm_B; assumption]]|].
    split; [eapply mrl_trans; [exact M1|eapply mrl_trans; eassumption]|apply g_tdperm_fill; assumption].
Qed.
Lemma extract_ok pe nodes : forall s, GoodSt s -> (forall e, In e nodes -> nget (fst e) (children s) <> None) ->
  GoodSt (extract n pe nodes s) /\ mrl n s (extract n pe nodes s) /\
  (err (extract n pe nodes s) = false ->
   forall e l r, In e nodes -> nget (fst e) (children s) = Some (l, r) -> filled3 (extract n pe nodes s) (fst e) l r).
Proof.
  unfold extract. induction nodes as [|[p lr] nodes IH]; intros s HG Hn; cbn [fold_left].
  { split; [exact HG|]. split; [apply mrl_refl|intros _ e l r []]. }
  pose proof (Hn _ (or_introl eq_refl)) as Hp. cbn [fst] in Hp.
  destruct (nget p (children s)) as [[l r]|] eqn:E; [|congruence].
  destruct (extract_step_ok pe s p lr l r HG E) as (G1&M1&F1). set (s1 := extract_step n pe s (p, lr)) in *.
  assert (Ec1 : children s1 = children s) by apply M1.
  destruct (IH s1 G1) as (G2&M2&F2).
  { intros e He. rewrite Ec1. apply Hn. right. exact He. }
  split; [exact G2|]. split; [eapply mrl_trans; eassumption|].
  intros He e l' r' [<-|Hin] El.
  - cbn [fst] in El. rewrite E in El. injection El as <- <-. apply (mrl_filled s1 _ p l r M2), F1, (mrl_err n _ _ M2 He).
  - apply F2; [exact He|exact Hin|rewrite Ec1; exact El].
Qed.

(* ---- D. a state satisfying (A) whose orders are all cached is ready ---- *)
Fixpoint ss (l : list nat) : Prop := match l with [] => True | x :: l' => (forall y, In y l' -> x < y) /\ ss l' end.
Lemma ssorted_b_sound l : ssorted_b l = true -> ss l.
Proof.
  induction l as [|x l IH]; [intros _; exact I|]. destruct l as [|y l'].
  - intros _. split; [intros y []|exact I].
  - intros H. change (Nat.ltb x y && ssorted_b (y :: l') = true) in H. apply andb_true_iff in H. destruct H as [H1 H2].
    apply Nat.ltb_lt in H1. pose proof (IH H2) as [Hy Hs]. split; [|split; assumption].
    intros z [<-|Hz]; [exact H1|]. specialize (Hy z Hz). lia.
Qed.
Lemma ins_sorted_ss x l : ss l -> ss (ins_sorted x l).
Proof.
  induction l as [|y l IH]; cbn [ins_sorted]; [intros _; split; [intros ? []|exact I]|]. intros [Hy Hs].
  destruct (Nat.ltb_spec x y) as [Hlt|Hge].
  - split; [|split; assumption]. intros z [<-|Hz]; [exact Hlt|]. specialize (Hy z Hz). lia.
  - destruct (Nat.eqb_spec x y) as [->|Hne]; [split; assumption|].
    split; [|apply IH, Hs]. intros z Hz. apply in_ins_sorted in Hz. destruct Hz as [->|Hz]; [lia|apply Hy, Hz].
Qed.
Lemma fold_ins_ss l : forall acc, ss acc -> ss (fold_left (fun acc x => ins_sorted x acc) l acc).
Proof. induction l as [|x l IH]; intros acc H; cbn [fold_left]; [exact H|apply IH, ins_sorted_ss, H]. Qed.
Lemma fold_ins_in x l : forall acc, In x (fold_left (fun acc x => ins_sorted x acc) l acc) <-> In x l \/ In x acc.
Proof.
  induction l as [|y l IH]; intros acc; cbn [fold_left In]; [tauto|]. rewrite IH, in_ins_sorted. intuition.
Qed.
Lemma nsort_ss l : ss (nsort l).
Proof. apply fold_ins_ss. exact I. Qed.
Lemma in_nsort x l : In x (nsort l) <-> In x l.
Proof. unfold nsort. rewrite fold_ins_in. cbn [In]. tauto. Qed.
Lemma ss_unique a : forall b, ss a -> ss b -> (forall x, In x a <-> In x b) -> a = b.
Proof.
  induction a as [|x a IH]; intros [|y b] Ha Hb H; [reflexivity| | |].
  - exfalso. apply (H y). left. reflexivity.
  - exfalso. apply (H x). left. reflexivity.
  - destruct Ha as [Hx Ha], Hb as [Hy Hb].
    assert (E : x = y).
    { assert (H1 : In x (y :: b)) by (apply H; left; reflexivity). assert (H2 : In y (x :: a)) by (apply H; left; reflexivity).
      destruct H1 as [H1|H1]; [congruence|]. destruct H2 as [H2|H2]; [congruence|]. specialize (Hx y H2). specialize (Hy x H1). lia. }
    subst y. f_equal. apply IH; [exact Ha|exact Hb|]. intros z. split; intros Hz.
    + assert (H1 : In z (x :: b)) by (apply H; right; exact Hz). destruct H1 as [<-|H1]; [specialize (Hx x Hz); lia|exact H1].
    + assert (H1 : In z (x :: a)) by (apply H; right; exact Hz). destruct H1 as [<-|H1]; [specialize (Hy x Hz); lia|exact H1].
Qed.
Lemma node_of_eq t nd : ss nd -> Permutation (leaves t) nd -> node_of t = nd.
Proof.
  intros Hs HP. unfold node_of. apply ss_unique; [apply nsort_ss|exact Hs|]. intros x. rewrite in_nsort.
  split; apply Permutation_in; [exact HP|apply Permutation_sym, HP].
Qed.
Lemma ss_seq m : forall a, ss (seq a m).
Proof. induction m as [|m IH]; intros a; cbn; [exact I|]. split; [intros y Hy; apply in_seq in Hy; lia|apply IH]. Qed.

Lemma tree_of_perm s : InvC n s -> forall f nd t, tree_of f (children s) nd = Some t -> Permutation (leaves t) nd.
Proof.
  intros HI. induction f as [|f IH]; intros nd t H; [discriminate|]. cbn [tree_of] in H.
  destruct (Nat.eqb_spec (length nd) 1) as [E1|E1].
  - injection H as <-. cbn [leaves]. rewrite <- (len1 nd E1). reflexivity.
  - destruct (nget nd (children s)) as [[l r]|] eqn:E; [|discriminate].
    destruct (tree_of f (children s) l) as [a|] eqn:Ea; [|discriminate].
    destruct (tree_of f (children s) r) as [b|] eqn:Eb; [|discriminate]. injection H as <-. cbn [leaves].
    destruct HI as [((_&Hc)&_) _]. destruct (Hc nd l r E) as (_&_&_&HP).
    rewrite HP. apply Permutation_app; [apply IH, Ea|apply IH, Eb].
Qed.
Lemma remove1_complete x : forall b, In x b -> exists b', remove1 x b = Some b'.
Proof.
  induction b as [|y b IH]; cbn; [tauto|]. intros H. destruct (Nat.eqb_spec x y); [eauto|].
  destruct H as [H|H]; [congruence|]. destruct (IH H) as (b' & ->). eauto.
Qed.
Lemma permb_complete a : forall b, Permutation a b -> permb a b = true.
Proof.
  induction a as [|x a IH]; intros b HP; cbn.
  - apply Permutation_nil in HP. subst. reflexivity.
  - destruct (remove1_complete x b) as (b' & E); [apply (Permutation_in _ HP); left; reflexivity|]. rewrite E.
    apply IH. apply (Permutation_cons_inv (a := x)). rewrite HP. apply remove1_perm, E.
Qed.
Lemma tree_eqb_refl t : tree_eqb t t = true.
Proof. induction t as [k|a IHa b IHb]; cbn; [apply Nat.eqb_refl|rewrite IHa, IHb; reflexivity]. Qed.
Lemma list_eqb_nat_refl l : list_eqb Nat.eqb l l = true.
Proof. induction l as [|x l IH]; cbn; [reflexivity|rewrite Nat.eqb_refl, IH; reflexivity]. Qed.
Lemma nodup_b_complete l : NoDup l -> nodup_b l = true.
Proof.
  induction 1 as [|x l Hx ND IH]; cbn; [reflexivity|]. rewrite IH, andb_true_r. apply negb_true_iff, memb_false, Hx.
Qed.
Lemma pset_eqb_complete a b : (forall j, In j a <-> In j b) -> Program.set_eqb a b = true.
Proof.
  intros H. unfold Program.set_eqb. apply andb_true_iff. split; apply forallb_forall; intros j Hj; apply memb_In, H, Hj.
Qed.

Section OneState.
Variable s : tstate.
Hypothesis HI : InvC n s.
Hypothesis HA : PA n s.
Hypothesis Hsorted : sorted_keys_b s = true.
Hypothesis Hfilled : forall p l r, nget p (children s) = Some (l, r) -> filled3 s p l r.

Lemma sorted_entry p l r : nget p (children s) = Some (l, r) -> ss p /\ ss l /\ ss r.
Proof.
  intros E. unfold sorted_keys_b in Hsorted. rewrite forallb_forall in Hsorted.
  specialize (Hsorted _ (nget_In _ _ _ E)). cbn [fst snd] in Hsorted.
  apply andb_true_iff in Hsorted. destruct Hsorted as [H H3]. apply andb_true_iff in H. destruct H as [H1 H2].
  repeat split; apply ssorted_b_sound; assumption.
Qed.
Lemma subtree_ready : forall f nd t, tree_of f (children s) nd = Some t -> ss nd -> length nd < N ->
  rd i_inds s nd <> None -> good_node n nd ->
  node_of t = nd /\ orders_ok_b n s false t = true /\ admissible_b n (sliced s) (cinds s) t = true.
Proof.
  induction f as [|f IH]; intros nd t H Hs HlN Hinds HG; [discriminate|].
  pose proof (tree_of_perm s HI (S f) nd t H) as HPm. pose proof (node_of_eq t nd Hs HPm) as Eno.
  split; [exact Eno|]. cbn [tree_of] in H.
  destruct (rd i_inds s nd) as [x|] eqn:Ex; [|congruence]. destruct (rd_Some _ _ _ _ Ex) as (i & Hi & Hx).
  destruct (HA nd i Hi) as [A1 A2]. destruct (A2 eq_refl x Hx) as (lg & El & Hen).
  destruct (Nat.eqb_spec (length nd) 1) as [E1|E1].
  - injection H as <-. cbn [orders_ok_b admissible_b]. split; [|reflexivity].
    rewrite (len1 nd E1) in Ex. rewrite Ex.
    unfold enum_ok, is_lr in Hen. apply Nat.eqb_eq in E1. rewrite E1 in Hen. cbn [orb] in Hen. subst x.
    destruct (A1 lg El) as [B1 _]. apply Nat.eqb_eq in E1. rewrite (B1 E1). apply list_eqb_nat_refl.
  - destruct (nget nd (children s)) as [[l r]|] eqn:E; [|discriminate].
    destruct (tree_of f (children s) l) as [a|] eqn:Ea; [|discriminate].
    destruct (tree_of f (children s) r) as [b|] eqn:Eb; [|discriminate]. injection H as <-.
    destruct (sorted_entry nd l r E) as (_ & Sl & Sr). destruct (Hfilled nd l r E) as (_ & Fl & Fr).
    destruct (entry_good n s nd l r HI E) as (_ & Gl & Gr).
    destruct (chok_dec n HN _ _ _ _ (InvC_chok n s HI) E) as [Ll Lr].
    destruct (IH l a Ea Sl ltac:(lia) Fl Gl) as (_ & Oa & Aa). destruct (IH r b Eb Sr ltac:(lia) Fr Gr) as (_ & Ob & Ab).
    cbn [orders_ok_b admissible_b]. rewrite Oa, Ob, Aa, Ab, !andb_true_r. unfold cinds. rewrite Eno, Ex.
    split; [reflexivity|].
    unfold enum_ok, is_lr in Hen. apply Nat.eqb_neq in E1. rewrite E1 in Hen.
    assert (EN : (length nd =? N) = false) by (apply Nat.eqb_neq; lia). rewrite EN in Hen. cbn [orb] in Hen.
    destruct Hen as [NDx Hx']. apply andb_true_iff. split; [apply nodup_b_complete, NDx|].
    apply pset_eqb_complete. intros j. rewrite Hx'.
    destruct (cached_legs_are_net n s nd i lg (Node a b) HI Hi El ltac:(lia) HPm) as [W G].
    destruct (sub_legs_slegs_ok n (sliced s) nd (Node a b) HG HPm) as [W' _].
    apply wfl_keys_same; assumption.
Qed.

Theorem ready_state l r : err s = false -> wf_net_b n = true -> preproc_complete_b n s = true ->
  tree_of (tfuel s) (children s) (seq 0 N) = Some (Node l r) -> contractible_b n s (Node l r) = true.
Proof.
  intros He Hwf Hpre Ht. unfold contractible_b. rewrite Hwf, Hpre, Ht, tree_eqb_refl, He. cbn [negb andb].
  pose proof (tree_of_perm s HI _ _ _ Ht) as HPm.
  assert (Efull : full_tree_b n (Node l r) = true) by (unfold full_tree_b; apply permb_complete, HPm).
  rewrite Efull. cbn [andb].
  pose proof (node_of_eq (Node l r) (seq 0 N) (ss_seq N 0) HPm) as Eno.
  unfold tfuel in Ht. replace (length (children s) + 2) with (S (length (children s) + 1)) in Ht by lia.
  cbn [tree_of] in Ht. rewrite seq_length in Ht. destruct (Nat.eqb_spec N 1) as [E1|_]; [lia|].
  destruct (nget (seq 0 N) (children s)) as [[lc rc]|] eqn:E; [|discriminate].
  destruct (tree_of _ (children s) lc) as [a|] eqn:Ea; [|discriminate].
  destruct (tree_of _ (children s) rc) as [b|] eqn:Eb; [|discriminate]. injection Ht as <- <-.
  destruct (sorted_entry _ lc rc E) as (_ & Sl & Sr). destruct (Hfilled _ lc rc E) as (Fp & Fl & Fr).
  destruct (entry_good n s _ lc rc HI E) as (_ & Gl & Gr).
  destruct (chok_dec n HN _ _ _ _ (InvC_chok n s HI) E) as [Ll Lr]. rewrite seq_length in Ll, Lr.
  destruct (subtree_ready _ lc a Ea Sl Ll Fl Gl) as (_ & Oa & Aa). destruct (subtree_ready _ rc b Eb Sr Lr Fr Gr) as (_ & Ob & Ab).
  rewrite Aa, Ab, !andb_true_r. cbn [orders_ok_b]. rewrite Oa, Ob, !andb_true_r. rewrite Eno.
  destruct (rd i_inds s (seq 0 N)) as [x|] eqn:Ex; [|congruence]. destruct (rd_Some _ _ _ _ Ex) as (i & Hi & Hx).
  destruct (HA _ i Hi) as [A1 A2]. destruct (A2 eq_refl x Hx) as (lg & El & Hen).
  unfold enum_ok, is_lr in Hen. rewrite seq_length, Nat.eqb_refl, orb_true_r in Hen. subst x.
  destruct (A1 lg El) as [_ B2]. rewrite B2 by apply seq_length. apply list_eqb_nat_refl.
Qed.
End OneState.

(* ---- E. the corollary ---- *)
Theorem checked_history_ready tr pe nodes l r :
  wf_net_b n = true ->
  preA_trace_b n tr (init_state n) = true -> tail_ok_b tr = true ->
  let s1 := run n tr (init_state n) in
  let s := extract n pe nodes s1 in
  nodes_ok_b s1 nodes = true -> sorted_keys_b s = true -> preproc_complete_b n s = true -> err s = false ->
  tree_of (tfuel s) (children s) (seq 0 N) = Some (Node l r) ->
  contractible_b n s (Node l r) = true /\ PB s.
Proof.
  intros Hwf Hpre Htail s1 s Hnodes Hsorted Hpp He Ht.
  destruct (checked_trace_QA tr Hpre) as [I1 A1]. fold s1 in I1, A1.
  assert (P1 : PBe s1).
  { unfold s1. rewrite <- (rev_involutive tr). apply tail_PBe; [rewrite rev_involutive; exact Hpre|exact Htail]. }
  unfold nodes_ok_b in Hnodes. apply andb_true_iff in Hnodes. destruct Hnodes as [Hn1 Hn2].
  rewrite forallb_forall in Hn1, Hn2.
  destruct (extract_ok pe nodes s1 (conj I1 (conj A1 P1))) as ((I2&A2&P2)&M2&F2).
  { intros e Hin. apply nmem_true, Hn1, Hin. }
  fold s in I2, A2, P2, M2, F2. split; [|apply P2, He].
  assert (Ec : children s = children s1) by apply M2.
  apply (ready_state s I2 (A2 He) Hsorted); try assumption.
  intros p l' r' E. rewrite Ec in E. specialize (Hn2 _ (nget_In _ _ _ E)). cbn [fst] in Hn2.
  apply existsb_exists in Hn2. destruct Hn2 as (e & Hin & Heq). apply node_eqb_eq in Heq.
  rewrite <- Heq. apply (F2 He e l' r' Hin). rewrite Heq. exact E.
Qed.
End Ready.

(* the value: no per-state readiness hypothesis about index orders or recipes is left *)
Theorem checked_history_value n tr pe nodes l r arr e0 :
  2 <= NN n -> wf_net_b n = true ->
  preA_trace_b n tr (init_state n) = true -> tail_ok_b tr = true ->
  let s := extract n pe nodes (run n tr (init_state n)) in
  nodes_ok_b (run n tr (init_state n)) nodes = true -> sorted_keys_b s = true -> preproc_complete_b n s = true ->
  err s = false -> tree_of (tfuel s) (children s) (seq 0 (NN n)) = Some (Node l r) ->
  forall e, agree_removed (sliced s) e0 e ->
  srun_root n s arr e0 (Node l r) (map e (filter (fun j => negb (memb j (removed (sliced s)))) (output n)))
  = einsum_spec n (sliced s) arr e.
Proof.
  intros HN Hwf Hpre Htail s Hnodes Hsorted Hpp He Ht.
  assert (Hout : NoDup (output n)) by apply (wf_net_b_sound n Hwf).
  apply state_value. apply (checked_history_ready n HN Hout tr pe nodes l r Hwf Hpre Htail Hnodes Hsorted Hpp He Ht).
Qed.
(* (B) read at one node: the cached equation is the canonical renaming of the cached index triple *)
Theorem PB_equation_is_step s nd i l r e : PB s -> nget nd (info s) = Some i -> nget nd (children s) = Some (l, r) ->
  i_eq i = Some e ->
  exists li ri pi, rd i_inds s l = Some li /\ rd i_inds s r = Some ri /\ i_inds i = Some pi /\ e = einsum_eq_of li ri pi.
Proof. intros HP Hi Hch He. destruct (HP nd i Hi l r Hch) as (_&B2&_). apply B2, He. Qed.

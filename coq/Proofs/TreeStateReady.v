(* TreeStateReady.v -- C02 step 3, the corollary: a boolean-checked primitive trace from a fresh tree
   that ends with a recipe reset followed only by queries, then extract_contractions, reaches a state
   that passes the readiness check contractible_b -- hence (TreeStateValue.state_value) contracts to
   einsum_spec in the declared output order -- and in which every cached equation is the step that
   semantics uses. *)
From Coq Require Import Lia ZifyBool Permutation.
From Ctg Require Import Base Net Einsum Program BaseFacts NetFacts ProgramFacts TreeState TreeStateFacts TreeStateInv
                        TreeStatePre TreeStateMon TreeStateProg TreeStateValue TreeStateRec TreeStateRecipes.

Open Scope nat_scope.

Section Ready.
Variable n : net.
Notation N := (NN n).
Hypothesis HN : 2 <= N.
Hypothesis Hout : NoDup (output n).

(* ---- A. soundness of the boolean preconditions ---- *)
Lemma pairA_pre_b_sound s x y lg : pairA_pre_b n s x y lg = true -> pairA_pre n s x y lg.
Proof.
  unfold pairA_pre_b, pairA_pre. intros H l -> EN. rewrite EN, Nat.eqb_refl in H. apply list_eqb_nat_eq, H.
Qed.
Theorem primA_pre_b_sound p s : primA_pre_b n p s = true -> primA_pre n p s.
Proof.
  unfold primA_pre_b, primA_pre. intros H. apply andb_true_iff in H. destruct H as [H1 H2].
  split; [apply (prim_pre_b_sound n Hout), H1|]. destruct p; try exact I. apply pairA_pre_b_sound, H2.
Qed.
Theorem preA_trace_b_sound tr : forall s, preA_trace_b n tr s = true -> preA_trace n tr s.
Proof.
  induction tr as [|p tr IH]; intros s H; cbn in *; [exact I|].
  apply andb_true_iff in H. destruct H as [H1 H2]. split; [apply primA_pre_b_sound, H1|apply IH, H2].
Qed.
Theorem checked_run_QA tr s : QA n s -> preA_trace_b n tr s = true -> QA n (run n tr s).
Proof. intros HQ H. apply (run_preserves_QA n HN Hout tr s HQ), preA_trace_b_sound, H. Qed.
Theorem checked_trace_QA tr : preA_trace_b n tr (init_state n) = true -> QA n (run n tr (init_state n)).
Proof. apply checked_run_QA, init_state_QA; assumption. Qed.

(* ---- B. (B) holds at the end of a trace whose tail is reset + queries ---- *)
Lemma run_app tr1 tr2 s : run n (tr1 ++ tr2) s = run n tr2 (run n tr1 s).
Proof. unfold run. apply fold_left_app. Qed.
Lemma preA_trace_b_app tr1 : forall tr2 s, preA_trace_b n (tr1 ++ tr2) s = preA_trace_b n tr1 s && preA_trace_b n tr2 (run n tr1 s).
Proof.
  induction tr1 as [|p tr1 IH]; intros tr2 s; cbn [app preA_trace_b]; [reflexivity|].
  rewrite IH, andb_assoc. reflexivity.
Qed.
Lemma PBe_same s s' : info s' = info s -> children s' = children s -> err s' = err s -> PBe s -> PBe s'.
Proof.
  intros E1 E2 E3 HP He nd i Hi. rewrite E1 in Hi. apply (entB_ext s); [exact E2| | |apply HP; [congruence|exact Hi]];
    intros q; unfold rd; rewrite E1; reflexivity.
Qed.
Lemma PB_init : PB (init_state n).
Proof.
  intros nd i Hi. apply entB_norec. apply nget_In in Hi. cbn [init_state info] in Hi. apply in_app_iff in Hi.
  assert (Ei : i = noinfo).
  { destruct Hi as [Hi|[Hi|[]]]; [|congruence]. apply in_map_iff in Hi. destruct Hi as (j & Hj & _). congruence. }
  subst i. unfold norec. cbn. auto.
Qed.
Theorem tail_PBe rtr : preA_trace_b n (rev rtr) (init_state n) = true -> tail_ok_rev rtr = true ->
  PBe (run n (rev rtr) (init_state n)).
Proof.
  induction rtr as [|p r IH]; intros Hpre Htail; [intros _; apply PB_init|].
  cbn [rev] in *. rewrite run_app. rewrite preA_trace_b_app in Hpre. apply andb_true_iff in Hpre. destruct Hpre as [Hpre Hp].
  cbn [preA_trace_b] in Hp. rewrite andb_true_r in Hp. apply primA_pre_b_sound in Hp. destruct Hp as [Hp _].
  set (s := run n (rev r) (init_state n)) in *. cbn [run fold_left].
  destruct (checked_trace_QA (rev r) Hpre) as [HI HA]. fold s in HI, HA.
  pose proof (InvC_chok n s HI) as Hc.
  cbn [tail_ok_rev] in Htail. destruct (is_query_b p) eqn:Eq.
  - specialize (IH Hpre Htail).
    destruct p as [nd|nd|x y lg c z|g nd|f| | | | | |pr a b c|ind pj|ind| |k]; try discriminate; cbn [step].
    + cbn [prim_pre prim_preN prim_pre1 prim_pre0] in Hp.
      apply (getter_preserves_PBe n HN Hout); try assumption. destruct g; try exact Hp. apply Hp.
    + apply (PBe_crel n s); [exact IH|apply contract_stats_crel; assumption].
    + apply (PBe_crel n s); [exact IH|apply total_flops_crel; assumption].
    + apply (PBe_crel n s); [exact IH|apply total_write_crel; assumption].
    + apply (PBe_crel n s); [exact IH|apply max_size_crel; assumption].
    + apply (PBe_same s); auto.
    + destruct (memb k (cores s)); [exact IH|apply (PBe_same s); auto].
  - destruct p as [nd|nd|x y lg c z|g nd|f| | | | | |pr a b c|ind pj|ind| |k]; try discriminate; cbn [step].
    + intros _. apply PB_reset_inds.
    + intros _. apply PB_reset_recipes.
    + apply PBe_sort_inds.
    + apply PBe_remove_ind.
    + apply PBe_restore_ind.
Qed.

(* ---- C. extract_contractions ---- *)
Definition filled3 (s : tstate) (p l r : node) : Prop :=
  rd i_inds s p <> None /\ rd i_inds s l <> None /\ rd i_inds s r <> None.
Lemma mrl_inds s s' nd : mrl n s s' -> rd i_inds s nd <> None -> rd i_inds s' nd <> None.
Proof.
  intros (A1&_) H. destruct (rd i_inds s nd) as [v|] eqn:E; [|congruence]. destruct (rd_Some _ _ _ _ E) as (i & Hi & Hv).
  destruct (irel_nget _ _ _ A1 nd i Hi) as (i' & Hi' & (_&_&_&_&Hm&_)). unfold rd. rewrite Hi', (Hm v Hv). discriminate.
Qed.
Lemma mrl_filled s s' p l r : mrl n s s' -> filled3 s p l r -> filled3 s' p l r.
Proof. intros H (A&B&C). repeat split; apply (mrl_inds s s'); assumption. Qed.
Lemma rd_upd_keep {A} (fld : ninfo -> option A) nd f s : (forall i, fld (f i) = fld i) -> forall q, rd fld (upd_info nd f s) q = rd fld s q.
Proof.
  intros Hfld q. destruct (node_eq_dec q nd) as [->|Hq]; [|apply rd_upd_other, Hq].
  destruct (nget nd (info s)) as [i|] eqn:E.
  - rewrite (rd_upd_same fld nd f s i E). unfold rd. rewrite E. apply Hfld.
  - unfold upd_info. rewrite E. reflexivity.
Qed.
Lemma g_eq_fill s nd l r : InvC n s -> PAe n s -> PBe s -> good_node n nd -> nget nd (children s) = Some (l, r) ->
  err (fst (g_eq n s nd)) = false -> filled3 (fst (g_eq n s nd)) nd l r.
Proof.
  intros HI HA HP HG E. unfold g_eq. destruct (rd i_eq s nd) as [e|] eqn:Er.
  - cbn [fst]. intros He. destruct (rd_Some _ _ _ _ Er) as (i & Hi & Hv).
    destruct (HP He nd i Hi l r E) as (_&B2&_). destruct (B2 e Hv) as (li & ri & pi & Hl & Hr & Hp & _).
    unfold filled3, rd at 1. rewrite Hi, Hp, Hl, Hr. repeat split; discriminate.
  - rewrite E. pose proof (inds3_A n HN Hout s nd l r HI HA HG E) as H.
    destruct (g_inds n s l) as [s1 li]. destruct (g_inds n s1 r) as [s2 ri]. destruct (g_inds n s2 nd) as [s3 pi].
    destruct H as (_&_&_&_&_&_&_&C3). cbn [fst]. intros He. destruct (upd_err _ _ _ He) as [He3 _].
    destruct (C3 He3) as (Cl & Cr & Cp). unfold filled3. rewrite !(rd_upd_keep i_inds) by (intros; reflexivity).
    rewrite Cl, Cr, Cp. repeat split; discriminate.
Qed.
Lemma g_tdperm_fill s nd l r : InvC n s -> PAe n s -> PBe s -> good_node n nd -> nget nd (children s) = Some (l, r) ->
  err (fst (g_tdperm n s nd)) = false -> filled3 (fst (g_tdperm n s nd)) nd l r.
Proof.
  intros HI HA HP HG E. unfold g_tdperm. destruct (rd i_tdperm s nd) as [e|] eqn:Er.
  - cbn [fst]. intros He. destruct (rd_Some _ _ _ _ Er) as (i & Hi & Hv).
    destruct (HP He nd i Hi l r E) as (_&_&B3&_). destruct (B3 e Hv) as (li & ri & pi & Hl & Hr & Hp & _).
    unfold filled3, rd at 1. rewrite Hi, Hp, Hl, Hr. repeat split; discriminate.
  - rewrite E. pose proof (inds3_A n HN Hout s nd l r HI HA HG E) as H.
    destruct (g_inds n s l) as [s1 li]. destruct (g_inds n s1 r) as [s2 ri]. destruct (g_inds n s2 nd) as [s3 pi].
    destruct H as (_&_&_&_&_&_&_&C3). cbn [fst]. intros He. destruct (upd_err _ _ _ He) as [He3 _].
    destruct (C3 He3) as (Cl & Cr & Cp). unfold filled3. rewrite !(rd_upd_keep i_inds) by (intros; reflexivity).
    rewrite Cl, Cr, Cp. repeat split; discriminate.
Qed.

Definition GoodSt (s : tstate) : Prop := InvC n s /\ PAe n s /\ PBe s.
Lemma extract_step_ok pe s p lr l r : GoodSt s -> nget p (children s) = Some (l, r) ->
  GoodSt (extract_step n pe s (p, lr)) /\ mrl n s (extract_step n pe s (p, lr)) /\
  (err (extract_step n pe s (p, lr)) = false -> filled3 (extract_step n pe s (p, lr)) p l r).
Proof.
  intros (HI&HA&HP) E. destruct (entry_good n s p l r HI E) as (Gp&_&_). unfold extract_step. cbn [fst].
  assert (Heq : forall s0, GoodSt s0 -> nget p (children s0) = Some (l, r) ->
            GoodSt (fst (g_eq n s0 p)) /\ mrl n s0 (fst (g_eq n s0 p)) /\ (err (fst (g_eq n s0 p)) = false -> filled3 (fst (g_eq n s0 p)) p l r)).
  { intros s0 (I0&A0&P0) E0. destruct (g_eq_A n HN Hout s0 p I0 A0 Gp) as [A1 M1].
    split; [split; [apply inv_g_eq; assumption|split; [exact A1|apply g_eq_B; assumption]]|].
    split; [exact M1|apply g_eq_fill; assumption]. }
  destruct pe; [apply Heq; [split; [|split]; assumption|exact E]|].
  destruct (g_can_dot_A n HN s p HI HA Gp) as [A1 M1]. pose proof (inv_g_can_dot n HN Hout s p HI Gp) as I1.
  pose proof (g_can_dot_B n HN s p HI HP) as P1. destruct (g_can_dot n s p) as [s1 cd]. cbn [fst] in *.
  assert (E1 : nget p (children s1) = Some (l, r)) by (destruct M1 as (_&Ec&_); rewrite Ec; exact E).
  destruct (negb cd).
  - destruct (Heq s1 (conj I1 (conj A1 P1)) E1) as (G2&M2&F2). split; [exact G2|]. split; [eapply mrl_trans; eassumption|exact F2].
  - destruct (g_tdaxes_A n HN Hout s1 p I1 A1 Gp) as [A2 M2]. pose proof (inv_g_tdaxes n HN Hout s1 p I1 Gp) as I2.
    pose proof (g_tdaxes_B n HN Hout s1 p I1 A1 P1 Gp) as P2. set (s2 := fst (g_tdaxes n s1 p)) in *.
    assert (E2 : nget p (children s2) = Some (l, r)) by (destruct M2 as (_&Ec&_); rewrite Ec; exact E1).
    destruct (g_tdperm_A n HN Hout s2 p I2 A2 Gp) as [A3 M3].
    split; [split; [apply inv_g_tdperm; assumption|split; [exact A3|apply g_tdperm_B; assumption]]|].
    split; [eapply mrl_trans; [exact M1|eapply mrl_trans; eassumption]|apply g_tdperm_fill; assumption].
Qed.
Lemma extract_ok pe nodes : forall s, GoodSt s -> (forall e, In e nodes -> nget (fst e) (children s) <> None) ->
  GoodSt (extract n pe nodes s) /\ mrl n s (extract n pe nodes s) /\
  (err (extract n pe nodes s) = false ->
   forall e l r, In e nodes -> nget (fst e) (children s) = Some (l, r) -> filled3 (extract n pe nodes s) (fst e) l r).
Proof.
  unfold extract. induction nodes as [|[p lr] nodes IH]; intros s HG Hn; cbn [fold_left].
  { split; [exact HG|]. split; [apply mrl_refl|intros _ e l r []]. }
  pose proof (Hn _ (or_introl eq_refl)) as Hp. cbn [fst] in Hp.
  destruct (nget p (children s)) as [[l r]|] eqn:E; [|congruence].
  destruct (extract_step_ok pe s p lr l r HG E) as (G1&M1&F1). set (s1 := extract_step n pe s (p, lr)) in *.
  assert (Ec1 : children s1 = children s) by apply M1.
  destruct (IH s1 G1) as (G2&M2&F2).
  { intros e He. rewrite Ec1. apply Hn. right. exact He. }
  split; [exact G2|]. split; [eapply mrl_trans; eassumption|].
  intros He e l' r' [<-|Hin] El.
  - cbn [fst] in El. rewrite E in El. injection El as <- <-. apply (mrl_filled s1 _ p l r M2), F1, (mrl_err n _ _ M2 He).
  - apply F2; [exact He|exact Hin|rewrite Ec1; exact El].
Qed.
End Ready.

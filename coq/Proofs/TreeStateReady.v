(* TreeStateReady.v -- C02 step 3, the corollary: a boolean-checked primitive trace from a fresh tree
   that ends with a recipe reset followed only by queries, then extract_contractions, reaches a state
   that passes the readiness check contractible_b -- hence (TreeStateValue.state_value) contracts to
   einsum_spec in the declared output order -- and in which every cached equation is the step that
   semantics uses. *)
From Coq Require Import Lia ZifyBool Permutation.
From Ctg Require Import Base Net Einsum Program BaseFacts NetFacts ProgramFacts TreeState TreeStateFacts TreeStateInv
                        TreeStatePre TreeStateMon TreeStateProg TreeStateValue TreeStateRec TreeStateRecipes.

Open Scope nat_scope.

Section Ready.
Variable n : net.
Notation N := (NN n).
Hypothesis HN : 2 <= N.
Hypothesis Hout : NoDup (output n).

(* ---- A. soundness of the boolean preconditions ---- *)
Lemma pairA_pre_b_sound s x y lg : pairA_pre_b n s x y lg = true -> pairA_pre n s x y lg.
Proof.
  unfold pairA_pre_b, pairA_pre. intros H l -> EN. rewrite EN, Nat.eqb_refl in H. apply list_eqb_nat_eq, H.
Qed.
Theorem primA_pre_b_sound p s : primA_pre_b n p s = true -> primA_pre n p s.
Proof.
  unfold primA_pre_b, primA_pre. intros H. apply andb_true_iff in H. destruct H as [H1 H2].
  split; [apply (prim_pre_b_sound n Hout), H1|]. destruct p; try exact I. apply pairA_pre_b_sound, H2.
Qed.
Theorem preA_trace_b_sound tr : forall s, preA_trace_b n tr s = true -> preA_trace n tr s.
Proof.
  induction tr as [|p tr IH]; intros s H; cbn in *; [exact I|].
  apply andb_true_iff in H. destruct H as [H1 H2]. split; [apply primA_pre_b_sound, H1|apply IH, H2].
Qed.
Theorem checked_run_QA tr s : QA n s -> preA_trace_b n tr s = true -> QA n (run n tr s).
Proof. intros HQ H. apply (run_preserves_QA n HN Hout tr s HQ), preA_trace_b_sound, H. Qed.
Theorem checked_trace_QA tr : preA_trace_b n tr (init_state n) = true -> QA n (run n tr (init_state n)).
Proof. apply checked_run_QA, init_state_QA; assumption. Qed.

(* ---- B. (B) holds at the end of a trace whose tail is reset + queries ---- *)
Lemma run_app tr1 tr2 s : run n (tr1 ++ tr2) s = run n tr2 (run n tr1 s).
Proof. unfold run. apply fold_left_app. Qed.
Lemma preA_trace_b_app tr1 : forall tr2 s, preA_trace_b n (tr1 ++ tr2) s = preA_trace_b n tr1 s && preA_trace_b n tr2 (run n tr1 s).
Proof.
  induction tr1 as [|p tr1 IH]; intros tr2 s; cbn [app preA_trace_b]; [reflexivity|].
  rewrite IH, andb_assoc. reflexivity.
Qed.
Lemma PBe_same s s' : info s' = info s -> children s' = children s -> err s' = err s -> PBe s -> PBe s'.
Proof.
  intros E1 E2 E3 HP He nd i Hi. rewrite E1 in Hi. apply (entB_ext s); [exact E2| | |apply HP; [congruence|exact Hi]];
    intros q; unfold rd; rewrite E1; reflexivity.
Qed.
Lemma PB_init : PB (init_state n).
Proof.
  intros nd i Hi. apply entB_norec. apply nget_In in Hi. cbn [init_state info] in Hi. apply in_app_iff in Hi.
  assert (Ei : i = noinfo).
  { destruct Hi as [Hi|[Hi|[]]]; [|congruence]. apply in_map_iff in Hi. destruct Hi as (j & Hj & _). congruence. }
  subst i. unfold norec. cbn. auto.
Qed.
Theorem tail_PBe rtr : preA_trace_b n (rev rtr) (init_state n) = true -> tail_ok_rev rtr = true ->
  PBe (run n (rev rtr) (init_state n)).
Proof.
  induction rtr as [|p r IH]; intros Hpre Htail; [intros _; apply PB_init|].
  cbn [rev] in *. rewrite run_app. rewrite preA_trace_b_app in Hpre. apply andb_true_iff in Hpre. destruct Hpre as [Hpre Hp].
  cbn [preA_trace_b] in Hp. rewrite andb_true_r in Hp. apply primA_pre_b_sound in Hp. destruct Hp as [Hp _].
  set (s := run n (rev r) (init_state n)) in *. cbn [run fold_left].
  destruct (checked_trace_QA (rev r) Hpre) as [HI HA]. fold s in HI, HA.
  pose proof (InvC_chok n s HI) as Hc.
  cbn [tail_ok_rev] in Htail. destruct (is_query_b p) eqn:Eq.
  - specialize (IH Hpre Htail).
    destruct p as [nd|nd|x y lg c z|g nd|f| | | | | |pr a b c|ind pj|ind| |k]; try discriminate; cbn [step].
    + cbn [prim_pre prim_preN prim_pre1 prim_pre0] in Hp.
      apply (getter_preserves_PBe n HN Hout); try assumption. destruct g; try exact Hp. apply Hp.
    + apply (PBe_crel n s); [exact IH|apply contract_stats_crel; assumption].
    + apply (PBe_crel n s); [exact IH|apply total_flops_crel; assumption].
    + apply (PBe_crel n s); [exact IH|apply total_write_crel; assumption].
    + apply (PBe_crel n s); [exact IH|apply max_size_crel; assumption].
    + apply (PBe_same s); auto.
    + destruct (memb k (cores s)); [exact IH|apply (PBe_same s); auto].
  - destruct p as [nd|nd|x y lg c z|g nd|f| | | | | |pr a b c|ind pj|ind| |k]; try discriminate; cbn [step].
    + intros _. apply PB_reset_inds.
    + intros _. apply PB_reset_recipes.
    + apply PBe_sort_inds.
    + apply PBe_remove_ind.
    + apply PBe_restore_ind.
Qed.
End Ready.

(* ReusableFacts.v -- facts about Model/Reusable.v (fingerprints, the cache state machine). *)
From Coq Require Import Lia Permutation ZArith List Bool.
From Ctg Require Import Base Net DiskFS Reusable BaseFacts NetFacts.

(* ---- hash_method='b' is NOT sound: two witnesses ---------------------------------- *)
(* (1) the number of tensors is not part of the fingerprint: a scalar tensor is invisible *)
Definition b1_x : net := mkNet [[0;1]; [0;1]; []] [] [(0, 2%Z); (1, 3%Z)].
Definition b1_y : net := mkNet [[0;1]; [0;1]] [] [(0, 2%Z); (1, 3%Z)].
(* (2) sizes are kept by LABEL while the edges are canonicalised by POSITION *)
Definition b2_x : net := mkNet [[0]; [0;1]; [1]] [] [(0, 2%Z); (1, 7%Z)].
Definition b2_y : net := mkNet [[1]; [1;0]; [0]] [] [(0, 2%Z); (1, 7%Z)].
Definition b2_t : tree := Node (Node (Leaf 0) (Leaf 1)) (Leaf 2).

Lemma fp_b_ignores_tensor_count :
  fp_b b1_x = fp_b b1_y /\ NN b1_x <> NN b1_y /\
  path_to_tree (NN b1_x) [(0,1); (0,1)] <> None /\ path_to_tree (NN b1_y) [(0,1); (0,1)] = None.
Proof. vm_compute. repeat split; congruence. Qed.

Lemma fp_b_sizes_by_label :
  fp_b b2_x = fp_b b2_y /\ NN b2_x = NN b2_y /\ inrange b2_x (leaves b2_t) /\
  total_flops b2_x [] b2_t = 21%Z /\ total_flops b2_y [] b2_t = 16%Z.
Proof.
  split; [vm_compute; reflexivity|]. split; [reflexivity|]. split; [|split; vm_compute; reflexivity].
  split; [repeat constructor; cbn; intuition congruence|].
  intros k Hk. cbn in Hk. unfold NN. cbn. intuition lia.
Qed.

(* =====================================================================================
   fingerprint 'a' is sound (uses Proofs/FingerprintFacts.v)
   ===================================================================================== *)
From Ctg Require Import FingerprintFacts DiskFSFacts.

Lemma firstn_skipn_inj {A} n (a b : list A) : firstn n a = firstn n b -> skipn n a = skipn n b -> a = b.
Proof. intros E1 E2. rewrite <- (firstn_skipn n a), <- (firstn_skipn n b), E1, E2. reflexivity. Qed.

(* equal cache keys come from equal fingerprints, when sha1 o pickle separates them *)
Lemma key_of_inj (H : fpr -> name) c q1 q2 :
  (forall f g, H f = H g -> f = g) ->
  key_of H c q1 = key_of H c q2 -> fingerprint (method_b c) q1 = fingerprint (method_b c) q2.
Proof.
  intros Hinj. unfold key_of. destruct (split c); intros E; inversion E as [E1]; apply Hinj.
  - apply (firstn_skipn_inj 2); assumption.
  - exact E1.
Qed.

(* Two contractions with the same 'a' fingerprint differ only by the order of indices within
   each tensor and within the output (and the order of the size_dict items); then every tree
   (hence every path) over one is a tree over the other with the same per-node index counts,
   the same flops / write / max size -- also after slicing any list of indices -- the same
   number of tensors, so the same paths are valid, and the same indices exist in both. *)
Theorem fingerprint_a_sound n1 n2 : fp_a n1 = fp_a n2 -> NoDup (map fst (szd n1)) ->
  equiv_a n1 n2 /\ NN n1 = NN n2 /\
  (forall p, path_to_tree (NN n1) p = path_to_tree (NN n2) p) /\
  (forall j, In j (all_indices n1) <-> In j (all_indices n2)) /\
  (forall sl t, inrange n1 (leaves t) ->
     inrange n2 (leaves t) /\ costs n1 sl t = costs n2 sl t /\
     (forall t', In t' (t :: post_sub t) -> forall j, lget0 j (sub_legs n1 sl t') = lget0 j (sub_legs n2 sl t'))).
Proof.
  intros E ND. pose proof (fp_a_equiv n1 n2 E) as EQ.
  pose proof (equiv_a_same_counts n1 n2 EQ ND) as SC.
  pose proof (sc_NN n1 n2 SC) as ENN.
  split; [exact EQ|]. split; [exact ENN|]. split; [intros p; rewrite ENN; reflexivity|].
  split; [intros j; apply equiv_a_same_indices; exact EQ|].
  intros sl t HR. destruct (cost_perm_invariant n1 n2 sl t EQ ND HR) as (HR2 & (Cf & Cw & Cm) & L).
  split; [exact HR2|]. split; [unfold costs; rewrite Cf, Cw, Cm; reflexivity|exact L].
Qed.

(* consequently a cache hit under the default fingerprint rebuilds, for the QUERIED
   contraction, a tree with exactly the figures the stored one had for the contraction
   that was searched *)
Corollary hit_view_same_under_a n1 n2 c : fp_a n1 = fp_a n2 -> NoDup (map fst (szd n1)) ->
  match reconstruct n1 c, reconstruct n2 c with
  | Some (t1, sl1), Some (t2, sl2) =>
      t1 = t2 /\ sl1 = sl2 /\ (inrange n1 (leaves t1) -> costs n1 sl1 t1 = costs n2 sl2 t2)
  | None, None => True
  | _, _ => False
  end.
Proof.
  intros E ND. destruct (fingerprint_a_sound n1 n2 E ND) as (_ & _ & HP & HI & HC).
  unfold reconstruct. rewrite <- HP.
  destruct (path_to_tree (NN n1) (c_path c)) as [t|]; [|exact I].
  assert (F : forallb (fun j => memb j (all_indices n1)) (c_sliced c) =
              forallb (fun j => memb j (all_indices n2)) (c_sliced c)).
  { induction (c_sliced c) as [|j l IHl]; cbn; [reflexivity|]. rewrite IHl. f_equal.
    destruct (memb j (all_indices n1)) eqn:M1; destruct (memb j (all_indices n2)) eqn:M2; try reflexivity.
    - apply memb_In in M1. apply HI in M1. apply memb_In in M1. congruence.
    - apply memb_In in M2. apply HI in M2. apply memb_In in M2. congruence. }
  rewrite <- F. destruct (forallb (fun j => memb j (all_indices n1)) (c_sliced c)); [|exact I].
  split; [reflexivity|]. split; [reflexivity|]. intros HR. apply (HC _ t HR).
Qed.

(* =====================================================================================
   the cache state machine (_maybe_run_optimizer) over an abstractly specified store
   ===================================================================================== *)
(* What the machine needs from a DiskDict implementation: an invariant, an abstraction
   view : state -> key -> option entry, and the three operations behaving as a map on
   the keys that hash_query produces. *)
Definition store_spec (ops : ddops con) (Inv : dd con -> Prop)
           (view : dd con -> dkey -> option con) (good : dkey -> Prop) : Prop :=
  (forall d k, Inv d -> good k ->
     fst (o_contains ops d k) = (match view d k with Some _ => true | None => false end) /\
     Inv (snd (o_contains ops d k)) /\ (forall k', view (snd (o_contains ops d k)) k' = view d k')) /\
  (forall d k, Inv d -> good k ->
     fst (o_getitem ops d k) = (match view d k with Some c => Ok c | None => KeyErr end) /\
     Inv (snd (o_getitem ops d k)) /\ (forall k', view (snd (o_getitem ops d k)) k' = view d k')) /\
  (forall d k c, Inv d -> good k ->
     Inv (o_setitem ops d k c) /\ view (o_setitem ops d k c) k = Some c /\
     (forall k', good k' -> k' <> k -> view (o_setitem ops d k c) k' = view d k')).

(* one step of the machine on the abstract entry of the query's key:
   (result, Some c = the entry becomes c | None = unchanged, was the sub-optimizer run) *)
Definition spec_step (c : cfg) (cur : option con) (new : con) : res (bool * con) * (option con * bool) :=
  match cur, overwrite c with
  | Some old, OvFalse => (Ok (false, old), (None, false))
  | _, _ =>
      if cache_only c then (KeyErr, (None, false)) else
      match cur, overwrite c with
      | Some old, OvImproved =>
          if (c_score new <? c_score old)%Z then (Ok (true, new), (Some new, true))
          else (Ok (false, old), (None, true))
      | _, _ => (Ok (true, new), (Some new, true))
      end
  end.

Section MachineFacts.
Variable H : fpr -> name.
Variable ops : ddops con.
Variable orc : nat -> net -> con.
Variable Inv : dd con -> Prop.
Variable view : dd con -> dkey -> option con.
Variable good : dkey -> Prop.
Hypothesis SP : store_spec ops Inv view good.
Hypothesis key_good : forall c q, good (key_of H c q).

Notation mrun := (maybe_run H ops orc).

(* the refinement lemma: the machine implements spec_step on the store's abstraction *)
Theorem maybe_run_refines c d ns q : Inv d ->
  let k := key_of H c q in
  let st' := snd (mrun c (d, ns) q) in
  let sp := spec_step c (view d k) (orc ns q) in
  fst (mrun c (d, ns) q) = fst sp /\
  snd st' = (if snd (snd sp) then S ns else ns) /\
  Inv (fst st') /\
  view (fst st') k = (match fst (snd sp) with Some x => Some x | None => view d k end) /\
  (forall k', good k' -> k' <> k -> view (fst st') k' = view d k').
Proof.
  intros HI k st' sp. destruct SP as (SC & SG & SS).
  pose proof (key_good c q) as Gk. fold k in Gk.
  destruct (SC d k HI Gk) as (C1 & C2 & C3).
  unfold st', sp, maybe_run. fold k.
  destruct (o_contains ops d k) as [present d1] eqn:EC. cbn [fst snd] in C1, C2, C3.
  destruct (SG d1 k C2 Gk) as (G1 & G2 & G3).
  assert (V1 : view d1 k = view d k) by apply C3.
  unfold spec_step.
  destruct (view d k) as [old|] eqn:EV.
  - (* present *)
    subst present. cbn [negb orb].
    rewrite V1 in G1.
    destruct (overwrite c) eqn:EO.
    + (* OvFalse: plain hit *)
      destruct (o_getitem ops d1 k) as [r d2] eqn:EG. cbn [fst snd] in *. subst r. cbn [fst snd].
      repeat split; try assumption; try reflexivity.
      * rewrite G3. exact V1.
      * intros k' _ _. rewrite G3. apply C3.
    + (* OvTrue *)
      destruct (cache_only c); cbn [fst snd].
      * repeat split; try assumption; try reflexivity. intros k' _ _. apply C3.
      * destruct (SS d1 k (orc ns q) C2 Gk) as (S1 & S2 & S3).
        repeat split; try assumption; try reflexivity.
        intros k' Gk' Hne. rewrite S3 by assumption. apply C3.
    + (* OvImproved *)
      destruct (cache_only c); cbn [fst snd].
      * repeat split; try assumption; try reflexivity. intros k' _ _. apply C3.
      * destruct (o_getitem ops d1 k) as [r d2] eqn:EG. cbn [fst snd] in *. subst r.
        destruct (c_score (orc ns q) <? c_score old)%Z; cbn [fst snd].
        -- destruct (SS d2 k (orc ns q) G2 Gk) as (S1 & S2 & S3).
           repeat split; try assumption; try reflexivity.
           intros k' Gk' Hne. rewrite S3 by assumption. rewrite G3. apply C3.
        -- repeat split; try assumption; try reflexivity.
           ++ rewrite G3. exact V1.
           ++ intros k' _ _. rewrite G3. apply C3.
  - (* missing *)
    subst present. cbn [negb orb].
    assert (E : (match overwrite c with OvFalse => (if cache_only c then (KeyErr, (None, false)) else (Ok (true, orc ns q), (Some (orc ns q), true)))
                 | _ => (if cache_only c then (KeyErr, (None, false)) else (Ok (true, orc ns q), (Some (orc ns q), true))) end)
                = (if cache_only c then (@KeyErr (bool * con), (@None con, false)) else (Ok (true, orc ns q), (Some (orc ns q), true))))
      by (destruct (overwrite c); reflexivity).
    destruct (cache_only c); cbn [fst snd].
    + destruct (overwrite c); cbn [fst snd]; repeat split; try assumption; try reflexivity; intros k' _ _; apply C3.
    + destruct (SS d1 k (orc ns q) C2 Gk) as (S1 & S2 & S3).
      destruct (overwrite c); cbn [fst snd]; repeat split; try assumption; try reflexivity;
        intros k' Gk' Hne; (rewrite S3 by assumption); apply C3.
Qed.
End MachineFacts.

Section MachineCorollaries.
Variable H : fpr -> name.
Variable ops : ddops con.
Variable orc : nat -> net -> con.
Variable Inv : dd con -> Prop.
Variable view : dd con -> dkey -> option con.
Variable good : dkey -> Prop.
Hypothesis SP : store_spec ops Inv view good.
Hypothesis key_good : forall c q, good (key_of H c q).

Notation mrun := (maybe_run H ops orc).
Notation refines := (maybe_run_refines H ops orc Inv view good SP key_good).

(* whatever is handed out is, afterwards, the entry stored under the QUERY's own key;
   an answer given without running the sub-optimizer was that entry already *)
Theorem answer_is_stored c d ns q b cn : Inv d ->
  fst (mrun c (d, ns) q) = Ok (b, cn) ->
  view (fst (snd (mrun c (d, ns) q))) (key_of H c q) = Some cn /\
  (b = false -> view d (key_of H c q) = Some cn).
Proof.
  intros HI E. destruct (refines c d ns q HI) as (R1 & _ & _ & R4 & _).
  rewrite E in R1. rewrite R4. clear R4. unfold spec_step in *.
  destruct (view d (key_of H c q)) as [old|]; destruct (overwrite c); destruct (cache_only c); cbn in *;
    try discriminate;
    try (destruct (c_score (orc ns q) <? c_score old)%Z; cbn in * );
    inversion R1; subst; split; try reflexivity; try discriminate; intros _; reflexivity.
Qed.

(* with overwrite=False an entry, once present, never changes ... *)
Theorem ovfalse_entry_stable c d ns q k0 cn : Inv d -> overwrite c = OvFalse -> good k0 ->
  view d k0 = Some cn -> view (fst (snd (mrun c (d, ns) q))) k0 = Some cn.
Proof.
  intros HI EO G0 V. destruct (refines c d ns q HI) as (_ & _ & _ & R4 & R5).
  destruct (dkey_eqb k0 (key_of H c q)) eqn:E.
  - apply dkey_eqb_eq in E. subst k0. rewrite R4. unfold spec_step. rewrite V, EO. reflexivity.
  - rewrite R5; [exact V|exact G0|]. intros ->.
    assert (T : dkey_eqb (key_of H c q) (key_of H c q) = true) by (apply dkey_eqb_eq; reflexivity). congruence.
Qed.

(* ... so repeating a query returns the same record and does not search again *)
Theorem repeat_query_no_search_same_path c d ns q b cn : Inv d -> overwrite c = OvFalse ->
  fst (mrun c (d, ns) q) = Ok (b, cn) ->
  let st1 := snd (mrun c (d, ns) q) in
  fst (mrun c st1 q) = Ok (false, cn) /\ snd (snd (mrun c st1 q)) = snd st1.
Proof.
  intros HI EO E st1. destruct (answer_is_stored c d ns q b cn HI E) as [V _].
  destruct (refines c d ns q HI) as (_ & _ & I1 & _ & _). fold st1 in V, I1.
  destruct st1 as [d1 ns1]. cbn [fst snd] in *.
  destruct (refines c d1 ns1 q I1) as (R1 & R2 & _). rewrite R1, R2.
  unfold spec_step. rewrite V, EO. split; reflexivity.
Qed.

(* overwrite='improved': the stored score of any entry never gets worse *)
Theorem improved_monotone c d ns q k0 old : Inv d -> overwrite c = OvImproved -> good k0 ->
  view d k0 = Some old ->
  exists new, view (fst (snd (mrun c (d, ns) q))) k0 = Some new /\ (c_score new <= c_score old)%Z.
Proof.
  intros HI EO G0 V. destruct (refines c d ns q HI) as (_ & _ & _ & R4 & R5).
  destruct (dkey_eqb k0 (key_of H c q)) eqn:E.
  - apply dkey_eqb_eq in E. subst k0. rewrite R4. unfold spec_step. rewrite V, EO.
    destruct (cache_only c); cbn [fst snd]; [exists old; split; [reflexivity|lia]|].
    destruct (c_score (orc ns q) <? c_score old)%Z eqn:L; cbn [fst snd].
    + exists (orc ns q). split; [reflexivity|]. apply Z.ltb_lt in L. lia.
    + exists old. split; [reflexivity|lia].
  - exists old. split; [|lia]. rewrite R5; [exact V|exact G0|]. intros ->.
    assert (T : dkey_eqb (key_of H c q) (key_of H c q) = true) by (apply dkey_eqb_eq; reflexivity). congruence.
Qed.

(* cache_only: the sub-optimizer is never run and no entry changes *)
Theorem cache_only_never_searches c d ns q : Inv d -> cache_only c = true ->
  snd (snd (mrun c (d, ns) q)) = ns /\
  (forall k, good k -> view (fst (snd (mrun c (d, ns) q))) k = view d k) /\
  (forall b cn, fst (mrun c (d, ns) q) = Ok (b, cn) -> b = false /\ view d (key_of H c q) = Some cn).
Proof.
  intros HI EC. destruct (refines c d ns q HI) as (R1 & R2 & _ & R4 & R5).
  assert (SPEC : spec_step c (view d (key_of H c q)) (orc ns q) =
                 match view d (key_of H c q), overwrite c with
                 | Some old, OvFalse => (Ok (false, old), (None, false))
                 | _, _ => (KeyErr, (None, false)) end).
  { unfold spec_step. rewrite EC. destruct (view d (key_of H c q)); destruct (overwrite c); reflexivity. }
  rewrite SPEC in *. split; [|split].
  - rewrite R2. destruct (view d (key_of H c q)); destruct (overwrite c); reflexivity.
  - intros k Gk. destruct (dkey_eqb k (key_of H c q)) eqn:E.
    + apply dkey_eqb_eq in E. subst k. rewrite R4.
      destruct (view d (key_of H c q)); destruct (overwrite c); reflexivity.
    + apply R5; [exact Gk|]. intros ->.
      assert (T : dkey_eqb (key_of H c q) (key_of H c q) = true) by (apply dkey_eqb_eq; reflexivity). congruence.
  - intros b cn E. rewrite E in R1.
    destruct (view d (key_of H c q)); destruct (overwrite c); cbn in R1; inversion R1; subst; split; reflexivity.
Qed.

(* the behaviour depends on the store only through its abstraction: two states that hold the
   same entries (e.g. the writer's process and a fresh process over the same directory)
   answer every query alike and keep holding the same entries *)
Theorem view_determines_behaviour c d1 d2 ns q : Inv d1 -> Inv d2 ->
  (forall k, good k -> view d1 k = view d2 k) ->
  fst (mrun c (d1, ns) q) = fst (mrun c (d2, ns) q) /\
  snd (snd (mrun c (d1, ns) q)) = snd (snd (mrun c (d2, ns) q)) /\
  (forall k, good k -> view (fst (snd (mrun c (d1, ns) q))) k = view (fst (snd (mrun c (d2, ns) q))) k).
Proof.
  intros I1 I2 EV.
  destruct (refines c d1 ns q I1) as (A1 & A2 & _ & A4 & A5).
  destruct (refines c d2 ns q I2) as (B1 & B2 & _ & B4 & B5).
  pose proof (EV _ (key_good c q)) as Ek. rewrite Ek in A1, A2, A4.
  split; [congruence|]. split; [congruence|].
  intros k Gk. destruct (dkey_eqb k (key_of H c q)) eqn:E.
  - apply dkey_eqb_eq in E. subst k. rewrite A4, B4. reflexivity.
  - assert (Hne : k <> key_of H c q).
    { intros ->. assert (T : dkey_eqb (key_of H c q) (key_of H c q) = true) by (apply dkey_eqb_eq; reflexivity). congruence. }
    rewrite A5, B5 by assumption. apply EV, Gk.
Qed.

(* ---- whole sessions ------------------------------------------------------------------ *)
Lemma run_queries_cons c st q qs :
  run_queries H ops orc c st (q :: qs) =
  (fst (mrun c st q) :: fst (run_queries H ops orc c (snd (mrun c st q)) qs),
   snd (run_queries H ops orc c (snd (mrun c st q)) qs)).
Proof.
  cbn [run_queries]. destruct (mrun c st q) as [r st1]. cbn [fst snd].
  destruct (run_queries H ops orc c st1 qs) as [rs st2]. reflexivity.
Qed.

Theorem session_inv c qs : forall d ns, Inv d -> Inv (fst (snd (run_queries H ops orc c (d, ns) qs))).
Proof.
  induction qs as [|q qs IH]; intros d ns HI; [exact HI|].
  rewrite run_queries_cons. cbn [snd].
  destruct (refines c d ns q HI) as (_ & _ & I1 & _).
  destruct (snd (mrun c (d, ns) q)) as [d1 ns1]. apply IH. exact I1.
Qed.

Theorem session_cache_only_never_searches c qs : cache_only c = true -> forall d ns, Inv d ->
  snd (snd (run_queries H ops orc c (d, ns) qs)) = ns /\
  (forall k, good k -> view (fst (snd (run_queries H ops orc c (d, ns) qs))) k = view d k).
Proof.
  intros EC. induction qs as [|q qs IH]; intros d ns HI; [split; reflexivity|].
  rewrite run_queries_cons. cbn [snd].
  destruct (cache_only_never_searches c d ns q HI EC) as (N1 & V1 & _).
  destruct (refines c d ns q HI) as (_ & _ & I1 & _).
  destruct (snd (mrun c (d, ns) q)) as [d1 ns1]. cbn [fst snd] in *. subst ns1.
  destruct (IH d1 ns I1) as (N2 & V2). split; [exact N2|].
  intros k Gk. rewrite V2 by exact Gk. apply V1, Gk.
Qed.

Theorem session_improved_monotone c qs : overwrite c = OvImproved -> forall d ns k0 old, Inv d -> good k0 ->
  view d k0 = Some old ->
  exists new, view (fst (snd (run_queries H ops orc c (d, ns) qs))) k0 = Some new /\ (c_score new <= c_score old)%Z.
Proof.
  intros EO. induction qs as [|q qs IH]; intros d ns k0 old HI G0 V; [exists old; split; [exact V|lia]|].
  rewrite run_queries_cons. cbn [snd].
  destruct (improved_monotone c d ns q k0 old HI EO G0 V) as (mid & Vm & Lm).
  destruct (refines c d ns q HI) as (_ & _ & I1 & _).
  destruct (snd (mrun c (d, ns) q)) as [d1 ns1]. cbn [fst snd] in *.
  destruct (IH d1 ns1 k0 mid I1 G0 Vm) as (new & Vn & Ln). exists new. split; [exact Vn|lia].
Qed.

Theorem session_ovfalse_stable c qs : overwrite c = OvFalse -> forall d ns k0 cn, Inv d -> good k0 ->
  view d k0 = Some cn -> view (fst (snd (run_queries H ops orc c (d, ns) qs))) k0 = Some cn.
Proof.
  intros EO. induction qs as [|q qs IH]; intros d ns k0 cn HI G0 V; [exact V|].
  rewrite run_queries_cons. cbn [snd].
  pose proof (ovfalse_entry_stable c d ns q k0 cn HI EO G0 V) as V1.
  destruct (refines c d ns q HI) as (_ & _ & I1 & _).
  destruct (snd (mrun c (d, ns) q)) as [d1 ns1]. cbn [fst snd] in *. apply IH; assumption.
Qed.

End MachineCorollaries.

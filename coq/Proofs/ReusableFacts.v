(* ReusableFacts.v -- facts about Model/Reusable.v (fingerprints, the cache state machine). *)
From Coq Require Import Lia Permutation ZArith List Bool.
From Ctg Require Import Base Net DiskFS Reusable BaseFacts NetFacts.

(* ---- hash_method='b' is NOT sound: two witnesses ---------------------------------- *)
(* (1) the number of tensors is not part of the fingerprint: a scalar tensor is invisible *)
Definition b1_x : net := mkNet [[0;1]; [0;1]; []] [] [(0, 2%Z); (1, 3%Z)].
Definition b1_y : net := mkNet [[0;1]; [0;1]] [] [(0, 2%Z); (1, 3%Z)].
(* (2) sizes are kept by LABEL while the edges are canonicalised by POSITION *)
Definition b2_x : net := mkNet [[0]; [0;1]; [1]] [] [(0, 2%Z); (1, 7%Z)].
Definition b2_y : net := mkNet [[1]; [1;0]; [0]] [] [(0, 2%Z); (1, 7%Z)].
Definition b2_t : tree := Node (Node (Leaf 0) (Leaf 1)) (Leaf 2).

Lemma fp_b_ignores_tensor_count :
  fp_b b1_x = fp_b b1_y /\ NN b1_x <> NN b1_y /\
  path_to_tree (NN b1_x) [(0,1); (0,1)] <> None /\ path_to_tree (NN b1_y) [(0,1); (0,1)] = None.
Proof. vm_compute. repeat split; congruence. Qed.

Lemma fp_b_sizes_by_label :
  fp_b b2_x = fp_b b2_y /\ NN b2_x = NN b2_y /\ inrange b2_x (leaves b2_t) /\
  total_flops b2_x [] b2_t = 21%Z /\ total_flops b2_y [] b2_t = 16%Z.
Proof.
  split; [vm_compute; reflexivity|]. split; [reflexivity|]. split; [|split; vm_compute; reflexivity].
  split; [repeat constructor; cbn; intuition congruence|].
  intros k Hk. cbn in Hk. unfold NN. cbn. intuition lia.
Qed.

(* =====================================================================================
   fingerprint 'a' is sound (uses Proofs/FingerprintFacts.v)
   ===================================================================================== *)
From Ctg Require Import FingerprintFacts DiskFSFacts.

Lemma firstn_skipn_inj {A} n (a b : list A) : firstn n a = firstn n b -> skipn n a = skipn n b -> a = b.
Proof. intros E1 E2. rewrite <- (firstn_skipn n a), <- (firstn_skipn n b), E1, E2. reflexivity. Qed.

(* equal cache keys come from equal fingerprints, when sha1 o pickle separates them *)
Lemma key_of_inj (H : fpr -> name) c q1 q2 :
  (forall f g, H f = H g -> f = g) ->
  key_of H c q1 = key_of H c q2 -> fingerprint (method_b c) q1 = fingerprint (method_b c) q2.
Proof.
  intros Hinj. unfold key_of. destruct (split c); intros E; inversion E as [E1]; apply Hinj.
  - apply (firstn_skipn_inj 2); assumption.
  - exact E1.
Qed.

(* Two contractions with the same 'a' fingerprint differ only by the order of indices within
   each tensor and within the output (and the order of the size_dict items); then every tree
   (hence every path) over one is a tree over the other with the same per-node index counts,
   the same flops / write / max size -- also after slicing any list of indices -- the same
   number of tensors, so the same paths are valid, and the same indices exist in both. *)
Theorem fingerprint_a_sound n1 n2 : fp_a n1 = fp_a n2 -> NoDup (map fst (szd n1)) ->
  equiv_a n1 n2 /\ NN n1 = NN n2 /\
  (forall p, path_to_tree (NN n1) p = path_to_tree (NN n2) p) /\
  (forall j, In j (all_indices n1) <-> In j (all_indices n2)) /\
  (forall sl t, inrange n1 (leaves t) ->
     inrange n2 (leaves t) /\ costs n1 sl t = costs n2 sl t /\
     (forall t', In t' (t :: post_sub t) -> forall j, lget0 j (sub_legs n1 sl t') = lget0 j (sub_legs n2 sl t'))).
Proof.
  intros E ND. pose proof (fp_a_equiv n1 n2 E) as EQ.
  pose proof (equiv_a_same_counts n1 n2 EQ ND) as SC.
  pose proof (sc_NN n1 n2 SC) as ENN.
  split; [exact EQ|]. split; [exact ENN|]. split; [intros p; rewrite ENN; reflexivity|].
  split; [intros j; apply equiv_a_same_indices; exact EQ|].
  intros sl t HR. destruct (cost_perm_invariant n1 n2 sl t EQ ND HR) as (HR2 & (Cf & Cw & Cm) & L).
  split; [exact HR2|]. split; [unfold costs; rewrite Cf, Cw, Cm; reflexivity|exact L].
Qed.

(* consequently a cache hit under the default fingerprint rebuilds, for the QUERIED
   contraction, a tree with exactly the figures the stored one had for the contraction
   that was searched *)
Corollary hit_view_same_under_a n1 n2 c : fp_a n1 = fp_a n2 -> NoDup (map fst (szd n1)) ->
  match reconstruct n1 c, reconstruct n2 c with
  | Some (t1, sl1), Some (t2, sl2) =>
      t1 = t2 /\ sl1 = sl2 /\ (inrange n1 (leaves t1) -> costs n1 sl1 t1 = costs n2 sl2 t2)
  | None, None => True
  | _, _ => False
  end.
Proof.
  intros E ND. destruct (fingerprint_a_sound n1 n2 E ND) as (_ & _ & HP & HI & HC).
  unfold reconstruct. rewrite <- HP.
  destruct (path_to_tree (NN n1) (c_path c)) as [t|]; [|exact I].
  assert (F : forallb (fun j => memb j (all_indices n1)) (c_sliced c) =
              forallb (fun j => memb j (all_indices n2)) (c_sliced c)).
  { induction (c_sliced c) as [|j l IHl]; cbn; [reflexivity|]. rewrite IHl. f_equal.
    destruct (memb j (all_indices n1)) eqn:M1; destruct (memb j (all_indices n2)) eqn:M2; try reflexivity.
    - apply memb_In in M1. apply HI in M1. apply memb_In in M1. congruence.
    - apply memb_In in M2. apply HI in M2. apply memb_In in M2. congruence. }
  rewrite <- F. destruct (forallb (fun j => memb j (all_indices n1)) (c_sliced c)); [|exact I].
  split; [reflexivity|]. split; [reflexivity|]. intros HR. apply (HC _ t HR).
Qed.

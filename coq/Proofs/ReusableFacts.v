(* ReusableFacts.v -- facts about Model/Reusable.v (fingerprints, the cache state machine). *)
From Coq Require Import Lia Permutation ZArith List Bool.
From Ctg Require Import Base Net DiskFS Reusable BaseFacts NetFacts.

(* ---- hash_method='b' is NOT sound: two witnesses ---------------------------------- *)
(* (1) the number of tensors is not part of the fingerprint: a scalar tensor is invisible *)
Definition b1_x : net := mkNet [[0;1]; [0;1]; []] [] [(0, 2%Z); (1, 3%Z)].
Definition b1_y : net := mkNet [[0;1]; [0;1]] [] [(0, 2%Z); (1, 3%Z)].
(* (2) sizes are kept by LABEL while the edges are canonicalised by POSITION *)
Definition b2_x : net := mkNet [[0]; [0;1]; [1]] [] [(0, 2%Z); (1, 7%Z)].
Definition b2_y : net := mkNet [[1]; [1;0]; [0]] [] [(0, 2%Z); (1, 7%Z)].
Definition b2_t : tree := Node (Node (Leaf 0) (Leaf 1)) (Leaf 2).

Lemma fp_b_ignores_tensor_count :
  fp_b b1_x = fp_b b1_y /\ NN b1_x <> NN b1_y /\
  path_to_tree (NN b1_x) [(0,1); (0,1)] <> None /\ path_to_tree (NN b1_y) [(0,1); (0,1)] = None.
Proof. vm_compute. repeat split; congruence. Qed.

Lemma fp_b_sizes_by_label :
  fp_b b2_x = fp_b b2_y /\ NN b2_x = NN b2_y /\ inrange b2_x (leaves b2_t) /\
  total_flops b2_x [] b2_t = 21%Z /\ total_flops b2_y [] b2_t = 16%Z.
Proof.
  split; [vm_compute; reflexivity|]. split; [reflexivity|]. split; [|split; vm_compute; reflexivity].
  split; [repeat constructor; cbn; intuition congruence|].
  intros k Hk. cbn in Hk. unfold NN. cbn. intuition lia.
Qed.

(* ---- the repaired 'b' fingerprint (number of tensors hashed, sizes attached to the edges):
        the two witnesses above no longer collide, and equal fingerprints have equally many
        tensors, so a stored path is a complete path for both ---- *)
Lemma fp_b2_separates_witnesses : fp_b2 b1_x <> fp_b2 b1_y /\ fp_b2 b2_x <> fp_b2 b2_y.
Proof. split; vm_compute; discriminate. Qed.

Lemma fp_b2_tensor_count n1 n2 : fp_b2 n1 = fp_b2 n2 ->
  NN n1 = NN n2 /\ forall p, path_to_tree (NN n1) p = path_to_tree (NN n2) p.
Proof. unfold fp_b2, NN. intros E. injection E as E1 E2. split; [exact E1|intros p; rewrite E1; reflexivity]. Qed.

(* a true relabelling (here: b and z exchanged, all else equal) still shares an entry -- as 'b' is
   meant to -- but a stored sliced index is a LABEL and need not exist in the other contraction:
   what remains of the finding (hash-b-relabel-sliced) *)
Definition b3_x : net := mkNet [[0;1]; [1;2]] [0;2] [(0, 1%Z); (1, 2%Z); (2, 1%Z); (25, 2%Z)].
Definition b3_y : net := mkNet [[0;25]; [25;2]] [0;2] [(0, 1%Z); (1, 2%Z); (2, 1%Z); (25, 2%Z)].
Lemma fp_b_relabel_sliced :
  fp_b b3_x = fp_b b3_y /\ fp_b2 b3_x = fp_b2 b3_y /\
  reconstruct b3_x (mkCon [(0,1)] 0%Z [1]) <> None /\ reconstruct b3_y (mkCon [(0,1)] 0%Z [1]) = None.
Proof. vm_compute. repeat split; congruence. Qed.

(* =====================================================================================
   fingerprint 'a' is sound (uses Proofs/FingerprintFacts.v)
   ===================================================================================== *)
From Ctg Require Import FingerprintFacts DiskFSFacts.

Lemma firstn_skipn_inj {A} n (a b : list A) : firstn n a = firstn n b -> skipn n a = skipn n b -> a = b.
Proof. intros E1 E2. rewrite <- (firstn_skipn n a), <- (firstn_skipn n b), E1, E2. reflexivity. Qed.

(* equal cache keys come from equal fingerprints, when sha1 o pickle separates them *)
Lemma key_of_inj (H : fpr -> name) c q1 q2 :
  (forall f g, H f = H g -> f = g) ->
  key_of H c q1 = key_of H c q2 -> fingerprint_c c q1 = fingerprint_c c q2.
Proof.
  intros Hinj. unfold key_of. destruct (split c); intros E; inversion E as [E1]; apply Hinj.
  - apply (firstn_skipn_inj 2); assumption.
  - exact E1.
Qed.

(* Two contractions with the same 'a' fingerprint differ only by the order of indices within
   each tensor and within the output (and the order of the size_dict items); then every tree
   (hence every path) over one is a tree over the other with the same per-node index counts,
   the same flops / write / max size -- also after slicing any list of indices -- the same
   number of tensors, so the same paths are valid, and the same indices exist in both. *)
Theorem fingerprint_a_sound n1 n2 : fp_a n1 = fp_a n2 -> NoDup (map fst (szd n1)) ->
  equiv_a n1 n2 /\ NN n1 = NN n2 /\
  (forall p, path_to_tree (NN n1) p = path_to_tree (NN n2) p) /\
  (forall j, In j (all_indices n1) <-> In j (all_indices n2)) /\
  (forall sl t, inrange n1 (leaves t) ->
     inrange n2 (leaves t) /\ costs n1 sl t = costs n2 sl t /\
     (forall t', In t' (t :: post_sub t) -> forall j, lget0 j (sub_legs n1 sl t') = lget0 j (sub_legs n2 sl t'))).
Proof.
  intros E ND. pose proof (fp_a_equiv n1 n2 E) as EQ.
  pose proof (equiv_a_same_counts n1 n2 EQ ND) as SC.
  pose proof (sc_NN n1 n2 SC) as ENN.
  split; [exact EQ|]. split; [exact ENN|]. split; [intros p; rewrite ENN; reflexivity|].
  split; [intros j; apply equiv_a_same_indices; exact EQ|].
  intros sl t HR. destruct (cost_perm_invariant n1 n2 sl t EQ ND HR) as (HR2 & (Cf & Cw & Cm) & L).
  split; [exact HR2|]. split; [unfold costs; rewrite Cf, Cw, Cm; reflexivity|exact L].
Qed.

(* consequently a cache hit under the default fingerprint rebuilds, for the QUERIED
   contraction, a tree with exactly the figures the stored one had for the contraction
   that was searched *)
Corollary hit_view_same_under_a n1 n2 c : fp_a n1 = fp_a n2 -> NoDup (map fst (szd n1)) ->
  match reconstruct n1 c, reconstruct n2 c with
  | Some (t1, sl1), Some (t2, sl2) =>
      t1 = t2 /\ sl1 = sl2 /\ (inrange n1 (leaves t1) -> costs n1 sl1 t1 = costs n2 sl2 t2)
  | None, None => True
  | _, _ => False
  end.
Proof.
  intros E ND. destruct (fingerprint_a_sound n1 n2 E ND) as (_ & _ & HP & HI & HC).
  unfold reconstruct. rewrite <- HP.
  destruct (path_to_tree (NN n1) (c_path c)) as [t|]; [|exact I].
  assert (F : forallb (fun j => memb j (all_indices n1)) (c_sliced c) =
              forallb (fun j => memb j (all_indices n2)) (c_sliced c)).
  { induction (c_sliced c) as [|j l IHl]; cbn; [reflexivity|]. rewrite IHl. f_equal.
    destruct (memb j (all_indices n1)) eqn:M1; destruct (memb j (all_indices n2)) eqn:M2; try reflexivity.
    - apply memb_In in M1. apply HI in M1. apply memb_In in M1. congruence.
    - apply memb_In in M2. apply HI in M2. apply memb_In in M2. congruence. }
  rewrite <- F. destruct (forallb (fun j => memb j (all_indices n1)) (c_sliced c)); [|exact I].
  split; [reflexivity|]. split; [reflexivity|]. intros HR. apply (HC _ t HR).
Qed.

(* =====================================================================================
   the cache state machine (_maybe_run_optimizer) over an abstractly specified store
   ===================================================================================== *)
(* What the machine needs from a DiskDict implementation: an invariant, an abstraction
   view : state -> key -> option entry, and the three operations behaving as a map on
   the keys that hash_query produces. *)
Definition store_spec (ops : ddops con) (Inv : dd con -> Prop)
           (view : dd con -> dkey -> option con) (good : dkey -> Prop) : Prop :=
  (forall d k, Inv d -> good k ->
     fst (o_contains ops d k) = (match view d k with Some _ => true | None => false end) /\
     Inv (snd (o_contains ops d k)) /\ (forall k', good k' -> view (snd (o_contains ops d k)) k' = view d k')) /\
  (forall d k, Inv d -> good k ->
     fst (o_getitem ops d k) = (match view d k with Some c => Ok c | None => KeyErr end) /\
     Inv (snd (o_getitem ops d k)) /\ (forall k', good k' -> view (snd (o_getitem ops d k)) k' = view d k')) /\
  (forall d k c, Inv d -> good k ->
     Inv (o_setitem ops d k c) /\ view (o_setitem ops d k c) k = Some c /\
     (forall k', good k' -> k' <> k -> view (o_setitem ops d k c) k' = view d k')).

(* one step of the machine on the abstract entry of the query's key:
   (result, Some c = the entry becomes c | None = unchanged, was the sub-optimizer run) *)
Definition spec_step (c : cfg) (cur : option con) (new : con) : res (bool * con) * (option con * bool) :=
  match cur, overwrite c with
  | Some old, OvFalse => (Ok (false, old), (None, false))
  | _, _ =>
      if cache_only c then (KeyErr, (None, false)) else
      match cur, overwrite c with
      | Some old, OvImproved =>
          if (c_score new <? c_score old)%Z then (Ok (true, new), (Some new, true))
          else (Ok (false, old), (None, true))
      | _, _ => (Ok (true, new), (Some new, true))
      end
  end.

Section MachineFacts.
Variable H : fpr -> name.
Variable ops : ddops con.
Variable orc : nat -> net -> con.
Variable Inv : dd con -> Prop.
Variable view : dd con -> dkey -> option con.
Variable good : dkey -> Prop.
Variable okcfg : cfg -> Prop.      (* the configurations whose keys the store is specified for *)
Hypothesis SP : store_spec ops Inv view good.
Hypothesis key_good : forall c q, okcfg c -> good (key_of H c q).

Notation mrun := (maybe_run H ops orc).

(* the refinement lemma: the machine implements spec_step on the store's abstraction *)
Theorem maybe_run_refines c d ns q : okcfg c -> Inv d ->
  let k := key_of H c q in
  let st' := snd (mrun c (d, ns) q) in
  let sp := spec_step c (view d k) (orc ns q) in
  fst (mrun c (d, ns) q) = fst sp /\
  snd st' = (if snd (snd sp) then S ns else ns) /\
  Inv (fst st') /\
  view (fst st') k = (match fst (snd sp) with Some x => Some x | None => view d k end) /\
  (forall k', good k' -> k' <> k -> view (fst st') k' = view d k').
Proof.
  intros OK HI k st' sp. destruct SP as (SC & SG & SS).
  pose proof (key_good c q OK) as Gk. fold k in Gk.
  destruct (SC d k HI Gk) as (C1 & C2 & C3).
  unfold st', sp, maybe_run. fold k.
  destruct (o_contains ops d k) as [present d1] eqn:EC. cbn [fst snd] in C1, C2, C3.
  destruct (SG d1 k C2 Gk) as (G1 & G2 & G3).
  assert (V1 : view d1 k = view d k) by (apply C3; exact Gk).
  unfold spec_step.
  destruct (view d k) as [old|] eqn:EV.
  - (* present *)
    subst present. cbn [negb orb].
    rewrite V1 in G1.
    destruct (overwrite c) eqn:EO.
    + (* OvFalse: plain hit *)
      destruct (o_getitem ops d1 k) as [r d2] eqn:EG. cbn [fst snd] in *. subst r. cbn [fst snd].
      repeat split; try assumption; try reflexivity.
      * rewrite G3 by exact Gk. exact V1.
      * intros k' Gk' _. rewrite G3 by exact Gk'. apply C3, Gk'.
    + (* OvTrue *)
      destruct (cache_only c); cbn [fst snd].
      * repeat split; try assumption; try reflexivity. intros k' Gk' _. apply C3, Gk'.
      * destruct (SS d1 k (orc ns q) C2 Gk) as (S1 & S2 & S3).
        repeat split; try assumption; try reflexivity.
        intros k' Gk' Hne. rewrite S3 by assumption. apply C3, Gk'.
    + (* OvImproved *)
      destruct (cache_only c); cbn [fst snd].
      * repeat split; try assumption; try reflexivity. intros k' Gk' _. apply C3, Gk'.
      * destruct (o_getitem ops d1 k) as [r d2] eqn:EG. cbn [fst snd] in *. subst r.
        destruct (c_score (orc ns q) <? c_score old)%Z; cbn [fst snd].
        -- destruct (SS d2 k (orc ns q) G2 Gk) as (S1 & S2 & S3).
           repeat split; try assumption; try reflexivity.
           intros k' Gk' Hne. rewrite S3 by assumption. rewrite G3 by exact Gk'. apply C3, Gk'.
        -- repeat split; try assumption; try reflexivity.
           ++ rewrite G3 by exact Gk. exact V1.
           ++ intros k' Gk' _. rewrite G3 by exact Gk'. apply C3, Gk'.
  - (* missing *)
    subst present. cbn [negb orb].
    assert (E : (match overwrite c with OvFalse => (if cache_only c then (KeyErr, (None, false)) else (Ok (true, orc ns q), (Some (orc ns q), true)))
                 | _ => (if cache_only c then (KeyErr, (None, false)) else (Ok (true, orc ns q), (Some (orc ns q), true))) end)
                = (if cache_only c then (@KeyErr (bool * con), (@None con, false)) else (Ok (true, orc ns q), (Some (orc ns q), true))))
      by (destruct (overwrite c); reflexivity).
    destruct (cache_only c); cbn [fst snd].
    + destruct (overwrite c); cbn [fst snd]; repeat split; try assumption; try reflexivity; intros k' Gk' _; apply C3, Gk'.
    + destruct (SS d1 k (orc ns q) C2 Gk) as (S1 & S2 & S3).
      destruct (overwrite c); cbn [fst snd]; repeat split; try assumption; try reflexivity;
        intros k' Gk' Hne; (rewrite S3 by assumption); apply C3, Gk'.
Qed.
End MachineFacts.

Section MachineCorollaries.
Variable H : fpr -> name.
Variable ops : ddops con.
Variable orc : nat -> net -> con.
Variable Inv : dd con -> Prop.
Variable view : dd con -> dkey -> option con.
Variable good : dkey -> Prop.
Variable okcfg : cfg -> Prop.
Hypothesis SP : store_spec ops Inv view good.
Hypothesis key_good : forall c q, okcfg c -> good (key_of H c q).
Variable c : cfg.
Hypothesis OK : okcfg c.

Notation mrun := (maybe_run H ops orc).
Notation refines := (fun d ns q HI => maybe_run_refines H ops orc Inv view good okcfg SP key_good c d ns q OK HI).

(* whatever is handed out is, afterwards, the entry stored under the QUERY's own key;
   an answer given without running the sub-optimizer was that entry already *)
Theorem answer_is_stored d ns q b cn : Inv d ->
  fst (mrun c (d, ns) q) = Ok (b, cn) ->
  view (fst (snd (mrun c (d, ns) q))) (key_of H c q) = Some cn /\
  (b = false -> view d (key_of H c q) = Some cn).
Proof.
  intros HI E. destruct (refines d ns q HI) as (R1 & _ & _ & R4 & _).
  rewrite E in R1. rewrite R4. clear R4. unfold spec_step in *.
  destruct (view d (key_of H c q)) as [old|]; destruct (overwrite c); destruct (cache_only c); cbn in *;
    try discriminate;
    try (destruct (c_score (orc ns q) <? c_score old)%Z; cbn in * );
    inversion R1; subst; split; try reflexivity; try discriminate; intros _; reflexivity.
Qed.

(* a cache hit is READ-ONLY: an answer given without running the sub-optimizer leaves every entry
   of the store exactly as it was (the entry handed out included) *)
Theorem hit_is_read_only d ns q cn : Inv d ->
  fst (mrun c (d, ns) q) = Ok (false, cn) ->
  forall k, good k -> view (fst (snd (mrun c (d, ns) q))) k = view d k.
Proof.
  intros HI E k Gk. destruct (refines d ns q HI) as (R1 & _ & _ & R4 & R5).
  rewrite E in R1.
  destruct (dkey_eqb k (key_of H c q)) eqn:EK.
  - apply dkey_eqb_eq in EK. subst k. rewrite R4. clear R4 R5. unfold spec_step in *.
    destruct (view d (key_of H c q)) as [old|]; destruct (overwrite c); destruct (cache_only c); cbn in *;
      try discriminate; try reflexivity;
      destruct (c_score (orc ns q) <? c_score old)%Z; cbn in *; try discriminate; reflexivity.
  - apply R5; [exact Gk|]. intros ->.
    assert (T : dkey_eqb (key_of H c q) (key_of H c q) = true) by (apply dkey_eqb_eq; reflexivity). congruence.
Qed.

(* with overwrite=False an entry, once present, never changes ... *)
Theorem ovfalse_entry_stable d ns q k0 cn : Inv d -> overwrite c = OvFalse -> good k0 ->
  view d k0 = Some cn -> view (fst (snd (mrun c (d, ns) q))) k0 = Some cn.
Proof.
  intros HI EO G0 V. destruct (refines d ns q HI) as (_ & _ & _ & R4 & R5).
  destruct (dkey_eqb k0 (key_of H c q)) eqn:E.
  - apply dkey_eqb_eq in E. subst k0. rewrite R4. unfold spec_step. rewrite V, EO. reflexivity.
  - rewrite R5; [exact V|exact G0|]. intros ->.
    assert (T : dkey_eqb (key_of H c q) (key_of H c q) = true) by (apply dkey_eqb_eq; reflexivity). congruence.
Qed.

(* ... so repeating a query returns the same record and does not search again *)
Theorem repeat_query_no_search_same_path d ns q b cn : Inv d -> overwrite c = OvFalse ->
  fst (mrun c (d, ns) q) = Ok (b, cn) ->
  let st1 := snd (mrun c (d, ns) q) in
  fst (mrun c st1 q) = Ok (false, cn) /\ snd (snd (mrun c st1 q)) = snd st1.
Proof.
  intros HI EO E st1. destruct (answer_is_stored d ns q b cn HI E) as [V _].
  destruct (refines d ns q HI) as (_ & _ & I1 & _ & _). fold st1 in V, I1.
  destruct st1 as [d1 ns1]. cbn [fst snd] in *.
  destruct (refines d1 ns1 q I1) as (R1 & R2 & _). rewrite R1, R2.
  unfold spec_step. rewrite V, EO. split; reflexivity.
Qed.

(* overwrite='improved': the stored score of any entry never gets worse *)
Theorem improved_monotone d ns q k0 old : Inv d -> overwrite c = OvImproved -> good k0 ->
  view d k0 = Some old ->
  exists new, view (fst (snd (mrun c (d, ns) q))) k0 = Some new /\ (c_score new <= c_score old)%Z.
Proof.
  intros HI EO G0 V. destruct (refines d ns q HI) as (_ & _ & _ & R4 & R5).
  destruct (dkey_eqb k0 (key_of H c q)) eqn:E.
  - apply dkey_eqb_eq in E. subst k0. rewrite R4. unfold spec_step. rewrite V, EO.
    destruct (cache_only c); cbn [fst snd]; [exists old; split; [reflexivity|lia]|].
    destruct (c_score (orc ns q) <? c_score old)%Z eqn:L; cbn [fst snd].
    + exists (orc ns q). split; [reflexivity|]. apply Z.ltb_lt in L. lia.
    + exists old. split; [reflexivity|lia].
  - exists old. split; [|lia]. rewrite R5; [exact V|exact G0|]. intros ->.
    assert (T : dkey_eqb (key_of H c q) (key_of H c q) = true) by (apply dkey_eqb_eq; reflexivity). congruence.
Qed.

(* cache_only: the sub-optimizer is never run and no entry changes *)
Theorem cache_only_never_searches d ns q : Inv d -> cache_only c = true ->
  snd (snd (mrun c (d, ns) q)) = ns /\
  (forall k, good k -> view (fst (snd (mrun c (d, ns) q))) k = view d k) /\
  (forall b cn, fst (mrun c (d, ns) q) = Ok (b, cn) -> b = false /\ view d (key_of H c q) = Some cn).
Proof.
  intros HI EC. destruct (refines d ns q HI) as (R1 & R2 & _ & R4 & R5).
  assert (SPEC : spec_step c (view d (key_of H c q)) (orc ns q) =
                 match view d (key_of H c q), overwrite c with
                 | Some old, OvFalse => (Ok (false, old), (None, false))
                 | _, _ => (KeyErr, (None, false)) end).
  { unfold spec_step. rewrite EC. destruct (view d (key_of H c q)); destruct (overwrite c); reflexivity. }
  rewrite SPEC in *. split; [|split].
  - rewrite R2. destruct (view d (key_of H c q)); destruct (overwrite c); reflexivity.
  - intros k Gk. destruct (dkey_eqb k (key_of H c q)) eqn:E.
    + apply dkey_eqb_eq in E. subst k. rewrite R4.
      destruct (view d (key_of H c q)); destruct (overwrite c); reflexivity.
    + apply R5; [exact Gk|]. intros ->.
      assert (T : dkey_eqb (key_of H c q) (key_of H c q) = true) by (apply dkey_eqb_eq; reflexivity). congruence.
  - intros b cn E. rewrite E in R1.
    destruct (view d (key_of H c q)); destruct (overwrite c); cbn in R1; inversion R1; subst; split; reflexivity.
Qed.

(* the behaviour depends on the store only through its abstraction: two states that hold the
   same entries (e.g. the writer's process and a fresh process over the same directory)
   answer every query alike and keep holding the same entries *)
Theorem view_determines_behaviour d1 d2 ns q : Inv d1 -> Inv d2 ->
  (forall k, good k -> view d1 k = view d2 k) ->
  fst (mrun c (d1, ns) q) = fst (mrun c (d2, ns) q) /\
  snd (snd (mrun c (d1, ns) q)) = snd (snd (mrun c (d2, ns) q)) /\
  (forall k, good k -> view (fst (snd (mrun c (d1, ns) q))) k = view (fst (snd (mrun c (d2, ns) q))) k).
Proof.
  intros I1 I2 EV.
  destruct (refines d1 ns q I1) as (A1 & A2 & _ & A4 & A5).
  destruct (refines d2 ns q I2) as (B1 & B2 & _ & B4 & B5).
  pose proof (EV _ (key_good c q OK)) as Ek. rewrite Ek in A1, A2, A4.
  split; [congruence|]. split; [congruence|].
  intros k Gk. destruct (dkey_eqb k (key_of H c q)) eqn:E.
  - apply dkey_eqb_eq in E. subst k. rewrite A4, B4. reflexivity.
  - assert (Hne : k <> key_of H c q).
    { intros ->. assert (T : dkey_eqb (key_of H c q) (key_of H c q) = true) by (apply dkey_eqb_eq; reflexivity). congruence. }
    rewrite A5, B5 by assumption. apply EV, Gk.
Qed.

(* ---- whole sessions ------------------------------------------------------------------ *)
Lemma run_queries_cons st q qs :
  run_queries H ops orc c st (q :: qs) =
  (fst (mrun c st q) :: fst (run_queries H ops orc c (snd (mrun c st q)) qs),
   snd (run_queries H ops orc c (snd (mrun c st q)) qs)).
Proof.
  cbn [run_queries]. destruct (mrun c st q) as [r st1]. cbn [fst snd].
  destruct (run_queries H ops orc c st1 qs) as [rs st2]. reflexivity.
Qed.

Theorem session_inv qs : forall d ns, Inv d -> Inv (fst (snd (run_queries H ops orc c (d, ns) qs))).
Proof.
  induction qs as [|q qs IH]; intros d ns HI; [exact HI|].
  rewrite run_queries_cons. cbn [snd].
  destruct (refines d ns q HI) as (_ & _ & I1 & _).
  destruct (snd (mrun c (d, ns) q)) as [d1 ns1]. apply IH. exact I1.
Qed.

Theorem session_cache_only_never_searches qs : cache_only c = true -> forall d ns, Inv d ->
  snd (snd (run_queries H ops orc c (d, ns) qs)) = ns /\
  (forall k, good k -> view (fst (snd (run_queries H ops orc c (d, ns) qs))) k = view d k).
Proof.
  intros EC. induction qs as [|q qs IH]; intros d ns HI; [split; reflexivity|].
  rewrite run_queries_cons. cbn [snd].
  destruct (cache_only_never_searches d ns q HI EC) as (N1 & V1 & _).
  destruct (refines d ns q HI) as (_ & _ & I1 & _).
  destruct (snd (mrun c (d, ns) q)) as [d1 ns1]. cbn [fst snd] in *. subst ns1.
  destruct (IH d1 ns I1) as (N2 & V2). split; [exact N2|].
  intros k Gk. rewrite V2 by exact Gk. apply V1, Gk.
Qed.

Theorem session_improved_monotone qs : overwrite c = OvImproved -> forall d ns k0 old, Inv d -> good k0 ->
  view d k0 = Some old ->
  exists new, view (fst (snd (run_queries H ops orc c (d, ns) qs))) k0 = Some new /\ (c_score new <= c_score old)%Z.
Proof.
  intros EO. induction qs as [|q qs IH]; intros d ns k0 old HI G0 V; [exists old; split; [exact V|lia]|].
  rewrite run_queries_cons. cbn [snd].
  destruct (improved_monotone d ns q k0 old HI EO G0 V) as (mid & Vm & Lm).
  destruct (refines d ns q HI) as (_ & _ & I1 & _).
  destruct (snd (mrun c (d, ns) q)) as [d1 ns1]. cbn [fst snd] in *.
  destruct (IH d1 ns1 k0 mid I1 G0 Vm) as (new & Vn & Ln). exists new. split; [exact Vn|lia].
Qed.

Theorem session_ovfalse_stable qs : overwrite c = OvFalse -> forall d ns k0 cn, Inv d -> good k0 ->
  view d k0 = Some cn -> view (fst (snd (run_queries H ops orc c (d, ns) qs))) k0 = Some cn.
Proof.
  intros EO. induction qs as [|q qs IH]; intros d ns k0 cn HI G0 V; [exact V|].
  rewrite run_queries_cons. cbn [snd].
  pose proof (ovfalse_entry_stable d ns q k0 cn HI EO G0 V) as V1.
  destruct (refines d ns q HI) as (_ & _ & I1 & _).
  destruct (snd (mrun c (d, ns) q)) as [d1 ns1]. cbn [fst snd] in *. apply IH; assumption.
Qed.

End MachineCorollaries.

(* =====================================================================================
   the DiskDict of Model/DiskFS.v meets the store specification
   ===================================================================================== *)
Lemma mem_get_set_other {V} (k k' : dkey) (c : V) m : k' <> k -> mem_get k' (mem_set k c m) = mem_get k' m.
Proof.
  intros Hne. induction m as [|[q w] m IH]; cbn.
  - destruct (dkey_eqb k k') eqn:E; [apply dkey_eqb_eq in E; congruence|reflexivity].
  - destruct (dkey_eqb q k) eqn:E; cbn.
    + apply dkey_eqb_eq in E. subst q.
      destruct (dkey_eqb k k') eqn:E'; [apply dkey_eqb_eq in E'; congruence|reflexivity].
    + destruct (dkey_eqb q k'); [reflexivity|exact IH].
Qed.

Section Instances.
Variable encode : con -> bytes.
Variable decode : bytes -> option con.
Variable mr : nat.

(* (i) directory=None: a plain dictionary *)
Theorem mem_store_spec :
  store_spec (ops_cur encode decode mr) (fun d => dd_dir d = false)
             (fun d k => mem_get k (dd_mem d)) (fun _ => True).
Proof.
  unfold store_spec, ops_cur. cbn [o_contains o_getitem o_setitem]. repeat split.
  - unfold contains_cur. cbn [fst]. rewrite H. destruct (mem_get k (dd_mem d)); reflexivity.
  - exact H.
  - unfold getitem_cur. rewrite H. cbn [negb]. destruct (mem_get k (dd_mem d)); reflexivity.
  - unfold getitem_cur. rewrite H. cbn [negb]. destruct (mem_get k (dd_mem d)); exact H.
  - intros k' _. unfold getitem_cur. rewrite H. cbn [negb]. destruct (mem_get k (dd_mem d)); reflexivity.
  - exact H.
  - cbn. apply mem_get_set_same.
  - intros k' _ Hne. cbn. apply mem_get_set_other, Hne.
Qed.

(* the same for the fixed DiskDict (proposed_fixes/C15_diskdict-torn-write.patch) *)
Theorem mem_store_spec_fix :
  store_spec (ops_fix encode decode mr) (fun d => dd_dir d = false)
             (fun d k => mem_get k (dd_mem d)) (fun _ => True).
Proof.
  unfold store_spec, ops_fix. cbn [o_contains o_getitem o_setitem]. split; [|split].
  - intros d k Hd _. unfold contains_fix, getitem_fix. rewrite Hd. cbn [negb].
    destruct (mem_get k (dd_mem d)); cbn [fst snd]; repeat split; try assumption; reflexivity.
  - intros d k Hd _. unfold getitem_fix. rewrite Hd. cbn [negb].
    destruct (mem_get k (dd_mem d)); cbn [fst snd]; repeat split; try assumption; reflexivity.
  - intros d k c Hd _. cbn. split; [exact Hd|]. split; [apply mem_get_set_same|].
    intros k' _ Hne. apply mem_get_set_other, Hne.
Qed.

(* (ii) a directory, directory_split=False (keys are plain strings), the code as it stands.
   Invariant: the root exists; every top-level node is a complete entry file; what the
   memory cache holds for a key is what the file holds. *)
Hypothesis RT : forall c, decode (encode c) = Some c.

Definition flat_inv (d : dd con) : Prop :=
  dd_dir d = true /\ is_dir [] (dd_fs d) = true /\
  (forall h, fs_get [h] (dd_fs d) = None \/ exists c, fs_get [h] (dd_fs d) = Some (FFile (encode c))) /\
  (forall h c, mem_get (KS h) (dd_mem d) = Some c -> fs_get [h] (dd_fs d) = Some (FFile (encode c))).
Definition flat_view (d : dd con) (k : dkey) : option con :=
  match mem_get k (dd_mem d) with
  | Some c => Some c
  | None => match fs_get (kpath k) (dd_fs d) with Some (FFile b) => decode b | _ => None end
  end.
Definition flat_key (k : dkey) : Prop := exists h, k = KS h.

Theorem flat_store_spec_cur :
  store_spec (ops_cur encode decode (S mr)) flat_inv flat_view flat_key.
Proof.
  unfold store_spec, ops_cur. cbn [o_contains o_getitem o_setitem]. split; [|split].
  - intros d k (Hd & Hr & Hf & Hm) [h ->]. unfold contains_cur, flat_view. cbn [fst snd kpath].
    split; [|split; [repeat split; assumption|reflexivity]].
    destruct (mem_get (KS h) (dd_mem d)); [reflexivity|]. rewrite Hd. unfold fs_exists.
    destruct (Hf h) as [E|[c E]]; rewrite E; [reflexivity|]. rewrite RT. reflexivity.
  - intros d k (Hd & Hr & Hf & Hm) [h ->]. unfold getitem_cur, flat_view. cbn [kpath].
    destruct (mem_get (KS h) (dd_mem d)) as [c0|] eqn:M; cbn [fst snd].
    + split; [reflexivity|]. split; [repeat split; assumption|reflexivity].
    + rewrite Hd. cbn [negb]. unfold fs_exists, is_dir.
      destruct (Hf h) as [E|[c E]]; rewrite E; cbn [negb fst snd].
      * split; [reflexivity|]. split; [repeat split; assumption|reflexivity].
      * cbn [retry]. unfold try_load. rewrite E, RT. cbn [fst snd dd_mem dd_dir dd_fs].
        split; [reflexivity|]. split.
        -- repeat split; try assumption. cbn [dd_mem]. intros h' c' M'.
           rewrite mem_get_set_other in M' by (unfold tup; discriminate). apply Hm, M'.
        -- intros k' [h' ->]. cbn [dd_mem]. rewrite mem_get_set_other by (unfold tup; discriminate). reflexivity.
  - intros d k c (Hd & Hr & Hf & Hm) [h ->]. unfold setitem_cur, flat_inv, flat_view. cbn [dd_mem dd_dir dd_fs kpath].
    rewrite Hd. unfold setitem_ops_cur, mkdir_ops. cbn [kpath length Nat.ltb Nat.leb app].
    set (f1 := run_ops (OpenTrunc [h] :: map (fun b => Append [h] [b]) (encode c)) (dd_fs d)).
    assert (ND : is_dir [h] (dd_fs d) = false).
    { unfold is_dir. destruct (Hf h) as [E|[c0 E]]; rewrite E; reflexivity. }
    assert (G : fs_get [h] f1 = Some (FFile (encode c))).
    { unfold f1. change (OpenTrunc [h] :: ?l) with ([OpenTrunc [h]] ++ l). rewrite run_ops_app.
      change (encode c) with ([] ++ encode c) at 2. apply appends_content.
      cbn [run_ops fold_left]. unfold run_op. cbn [op_ok parent removelast]. rewrite Hr, ND. cbn [negb andb].
      apply fs_get_set_same. }
    assert (O : forall q, q <> [h] -> fs_get q f1 = fs_get q (dd_fs d)).
    { intros q Hq. unfold f1. apply run_ops_untouched. intros o [<-|Ho]; [cbn; congruence|].
      apply in_map_iff in Ho. destruct Ho as (b & <- & _). cbn. congruence. }
    split; [|split].
    + split; [reflexivity|]. split; [unfold is_dir; rewrite O by congruence; exact Hr|]. split.
      * intros h'. destruct (list_eq_dec Nat.eq_dec h' h) as [->|Hne].
        -- right. exists c. exact G.
        -- rewrite O by congruence. apply Hf.
      * intros h' c' M'. destruct (list_eq_dec Nat.eq_dec h' h) as [->|Hne].
        -- rewrite mem_get_set_same in M'. inversion M'; subst. exact G.
        -- rewrite mem_get_set_other in M' by congruence. rewrite O by congruence. apply Hm, M'.
    + rewrite mem_get_set_same. reflexivity.
    + intros k' [h' ->] Hne. rewrite mem_get_set_other by exact Hne. cbn [kpath].
      rewrite O by congruence. reflexivity.
Qed.

(* (iii) a directory with directory_split=True (the default): keys are pairs (h[:2], h[2:]),
   entries live one level down, the sub-directory is created on demand *)
Definition split_inv (d : dd con) : Prop :=
  dd_dir d = true /\ is_dir [] (dd_fs d) = true /\
  (forall a, fs_get [a] (dd_fs d) = None \/ fs_get [a] (dd_fs d) = Some FDir) /\
  (forall a b, fs_get [a; b] (dd_fs d) = None \/ exists c, fs_get [a; b] (dd_fs d) = Some (FFile (encode c))) /\
  (forall a b c, mem_get (KT [a; b]) (dd_mem d) = Some c -> fs_get [a; b] (dd_fs d) = Some (FFile (encode c))).
Definition split_key (k : dkey) : Prop := exists a b, k = KT [a; b].

Theorem split_store_spec_cur :
  store_spec (ops_cur encode decode (S mr)) split_inv flat_view split_key.
Proof.
  unfold store_spec, ops_cur. cbn [o_contains o_getitem o_setitem]. split; [|split].
  - intros d k (Hd & Hr & Hs & Hf & Hm) (a & b & ->). unfold contains_cur, flat_view. cbn [fst snd kpath].
    split; [|split; [repeat split; assumption|reflexivity]].
    destruct (mem_get (KT [a; b]) (dd_mem d)); [reflexivity|]. rewrite Hd. unfold fs_exists.
    destruct (Hf a b) as [E|[c E]]; rewrite E; [reflexivity|]. rewrite RT. reflexivity.
  - intros d k (Hd & Hr & Hs & Hf & Hm) (a & b & ->). unfold getitem_cur, flat_view. cbn [kpath].
    destruct (mem_get (KT [a; b]) (dd_mem d)) as [c0|] eqn:M; cbn [fst snd].
    + split; [reflexivity|]. split; [repeat split; assumption|reflexivity].
    + rewrite Hd. cbn [negb]. unfold fs_exists, is_dir.
      destruct (Hf a b) as [E|[c E]]; rewrite E; cbn [negb fst snd].
      * split; [reflexivity|]. split; [repeat split; assumption|reflexivity].
      * cbn [retry]. unfold try_load. rewrite E, RT. cbn [fst snd dd_mem dd_dir dd_fs].
        unfold tup. cbn [kpath].
        split; [reflexivity|]. split.
        -- repeat split; try assumption. cbn [dd_mem]. intros a' b' c' M'.
           destruct (dkey_eqb (KT [a'; b']) (KT [a; b])) eqn:EK.
           ++ apply dkey_eqb_eq in EK. inversion EK; subst. rewrite mem_get_set_same in M'. inversion M'; subst. exact E.
           ++ rewrite mem_get_set_other in M'; [apply Hm, M'|].
              intros EQ. rewrite EQ in EK. assert (T : dkey_eqb (KT [a; b]) (KT [a; b]) = true) by (apply dkey_eqb_eq; reflexivity). congruence.
        -- intros k' (a' & b' & ->). cbn [dd_mem kpath].
           destruct (dkey_eqb (KT [a'; b']) (KT [a; b])) eqn:EK.
           ++ apply dkey_eqb_eq in EK. inversion EK; subst. rewrite mem_get_set_same, M, E, RT. reflexivity.
           ++ rewrite mem_get_set_other; [reflexivity|].
              intros EQ. rewrite EQ in EK. assert (T : dkey_eqb (KT [a; b]) (KT [a; b]) = true) by (apply dkey_eqb_eq; reflexivity). congruence.
  - intros d k c (Hd & Hr & Hs & Hf & Hm) (a & b & ->). unfold setitem_cur, split_inv, flat_view. cbn [dd_mem dd_dir dd_fs kpath].
    rewrite Hd. unfold setitem_ops_cur, mkdir_ops. cbn [kpath length Nat.ltb Nat.leb prefixes_from map app].
    set (f0 := run_ops [Mkdir [a]] (dd_fs d)).
    set (f1 := run_ops (Mkdir [a] :: OpenTrunc [a; b] :: map (fun x => Append [a; b] [x]) (encode c)) (dd_fs d)).
    assert (A0 : fs_get [a] f0 = Some FDir /\ forall q, q <> [a] -> fs_get q f0 = fs_get q (dd_fs d)).
    { unfold f0. cbn [run_ops fold_left]. unfold run_op. cbn [op_ok parent removelast].
      destruct (Hs a) as [E|E]; rewrite E.
      - rewrite Hr. cbn [negb]. split; [apply fs_get_set_same|]. intros q Hq. apply fs_get_set_other. congruence.
      - cbn [negb]. split; [exact E|reflexivity]. }
    destruct A0 as [A0 A0'].
    assert (ND : is_dir [a; b] f0 = false).
    { unfold is_dir. rewrite A0' by congruence. destruct (Hf a b) as [E|[c0 E]]; rewrite E; reflexivity. }
    assert (G : fs_get [a; b] f1 = Some (FFile (encode c))).
    { unfold f1. change (Mkdir [a] :: OpenTrunc [a; b] :: ?l) with ([Mkdir [a]] ++ [OpenTrunc [a; b]] ++ l).
      rewrite !run_ops_app. fold f0.
      change (encode c) with ([] ++ encode c) at 2. apply appends_content.
      cbn [run_ops fold_left]. unfold run_op. cbn [op_ok parent removelast].
      unfold is_dir at 1. rewrite A0, ND. cbn [negb andb]. apply fs_get_set_same. }
    assert (O : forall q, q <> [a; b] -> q <> [a] -> fs_get q f1 = fs_get q (dd_fs d)).
    { intros q Hq Hq'. unfold f1. apply run_ops_untouched. intros o [<-|[<-|Ho]]; [cbn; congruence|cbn; congruence|].
      apply in_map_iff in Ho. destruct Ho as (x & <- & _). cbn. congruence. }
    assert (OA : fs_get [a] f1 = Some FDir).
    { unfold f1. change (Mkdir [a] :: ?l) with ([Mkdir [a]] ++ l). rewrite run_ops_app. fold f0.
      rewrite run_ops_untouched; [exact A0|]. intros o [<-|Ho]; [cbn; congruence|].
      apply in_map_iff in Ho. destruct Ho as (x & <- & _). cbn. congruence. }
    split; [|split].
    + split; [reflexivity|]. split; [unfold is_dir; rewrite O by congruence; exact Hr|]. split; [|split].
      * intros a'. destruct (list_eq_dec Nat.eq_dec a' a) as [->|Hne]; [right; exact OA|].
        rewrite O by congruence. apply Hs.
      * intros a' b'. destruct (list_eq_dec (list_eq_dec Nat.eq_dec) [a'; b'] [a; b]) as [EQ|Hne].
        -- inversion EQ; subst. right. exists c. exact G.
        -- rewrite O by congruence. apply Hf.
      * intros a' b' c' M'. destruct (list_eq_dec (list_eq_dec Nat.eq_dec) [a'; b'] [a; b]) as [EQ|Hne].
        -- inversion EQ; subst. rewrite mem_get_set_same in M'. inversion M'; subst. exact G.
        -- rewrite mem_get_set_other in M' by congruence. rewrite O by congruence. apply Hm, M'.
    + rewrite mem_get_set_same. reflexivity.
    + intros k' (a' & b' & ->) Hne. rewrite mem_get_set_other by exact Hne. cbn [kpath].
      rewrite O; [reflexivity| |congruence]. intros EQ. apply Hne. rewrite EQ. reflexivity.
Qed.

Theorem fresh_view_split d k : split_inv d -> split_key k ->
  split_inv (fresh d) /\ flat_view (fresh d) k = flat_view d k.
Proof.
  intros (Hd & Hr & Hs & Hf & Hm) (a & b & ->). split.
  - unfold fresh, split_inv. cbn [dd_mem dd_dir dd_fs mem_get]. repeat split; try assumption. discriminate.
  - unfold flat_view, fresh. cbn [dd_mem dd_fs mem_get kpath].
    destruct (mem_get (KT [a; b]) (dd_mem d)) as [c|] eqn:M; [|reflexivity].
    rewrite (Hm a b c M), RT. reflexivity.
Qed.

Theorem fresh_process_equiv_split (H : fpr -> name) orc c d ns q :
  split c = true -> split_inv d ->
  let ops := ops_cur encode decode (S mr) in
  fst (maybe_run H ops orc c (fresh d, ns) q) = fst (maybe_run H ops orc c (d, ns) q) /\
  snd (snd (maybe_run H ops orc c (fresh d, ns) q)) = snd (snd (maybe_run H ops orc c (d, ns) q)) /\
  (forall k, split_key k -> flat_view (fst (snd (maybe_run H ops orc c (fresh d, ns) q))) k =
                            flat_view (fst (snd (maybe_run H ops orc c (d, ns) q))) k).
Proof.
  intros ES HI ops.
  assert (KG : forall c' q', split c' = true -> split_key (key_of H c' q')).
  { intros c' q' E. unfold key_of. rewrite E. eexists; eexists; reflexivity. }
  apply (view_determines_behaviour H ops orc split_inv flat_view split_key (fun c' => split c' = true)
           split_store_spec_cur KG c ES (fresh d) d ns q).
  - apply (fresh_view_split d (KT [[]; []])); [exact HI|eexists; eexists; reflexivity].
  - exact HI.
  - intros k Gk. apply fresh_view_split; assumption.
Qed.

(* a fresh process over the same directory holds the same entries ... *)
Theorem fresh_view d k : flat_inv d -> flat_key k ->
  flat_inv (fresh d) /\ flat_view (fresh d) k = flat_view d k.
Proof.
  intros (Hd & Hr & Hf & Hm) [h ->]. split.
  - unfold fresh, flat_inv. cbn [dd_mem dd_dir dd_fs mem_get]. repeat split; try assumption. discriminate.
  - unfold flat_view, fresh. cbn [dd_mem dd_fs mem_get kpath].
    destruct (mem_get (KS h) (dd_mem d)) as [c|] eqn:M; [|reflexivity].
    rewrite (Hm h c M), RT. reflexivity.
Qed.

(* ... hence answers every query exactly as the old process and keeps holding the same entries *)
Theorem fresh_process_equiv (H : fpr -> name) orc c d ns q :
  split c = false -> flat_inv d ->
  let ops := ops_cur encode decode (S mr) in
  fst (maybe_run H ops orc c (fresh d, ns) q) = fst (maybe_run H ops orc c (d, ns) q) /\
  snd (snd (maybe_run H ops orc c (fresh d, ns) q)) = snd (snd (maybe_run H ops orc c (d, ns) q)) /\
  (forall k, flat_key k -> flat_view (fst (snd (maybe_run H ops orc c (fresh d, ns) q))) k =
                           flat_view (fst (snd (maybe_run H ops orc c (d, ns) q))) k).
Proof.
  intros ES HI ops.
  assert (KG : forall c' q', split c' = false -> flat_key (key_of H c' q')).
  { intros c' q' E. unfold key_of. rewrite E. eexists; reflexivity. }
  apply (view_determines_behaviour H ops orc flat_inv flat_view flat_key (fun c' => split c' = false)
           flat_store_spec_cur KG c ES (fresh d) d ns q).
  - apply (fresh_view d (KS [])); [exact HI|eexists; reflexivity].
  - exact HI.
  - intros k Gk. apply fresh_view; assumption.
Qed.
End Instances.

(* =====================================================================================
   C15 end to end: with the fixed DiskDict, _maybe_run_optimizer never fails on whatever a
   crashed writer left behind -- it answers, or (cache_only) raises the documented KeyError
   ===================================================================================== *)
Theorem maybe_run_fix_never_poisoned (H : fpr -> name) enc dec mr orc c st q :
  let r := fst (maybe_run H (ops_fix enc dec mr) orc c st q) in
  r <> UnboundErr /\ r <> OtherErr /\ (cache_only c = false -> exists b cn, r = Ok (b, cn)).
Proof.
  destruct st as [d ns]. unfold maybe_run. cbn [ops_fix o_contains o_getitem o_setitem].
  destruct (contains_fix con dec mr d (key_of H c q)) as [present d1] eqn:EC.
  destruct present.
  - destruct (contains_fix_then_getitem _ _ _ _ _ _ EC) as (c0 & G & _).
    cbn [negb orb].
    destruct (getitem_fix con dec mr d1 (key_of H c q)) as [r d2] eqn:EG. cbn [fst] in G. subst r.
    destruct (overwrite c); destruct (cache_only c); cbn;
      try (destruct (c_score (orc ns q) <? c_score c0)%Z; cbn);
      repeat split; try discriminate; try (intros _; eexists; eexists; reflexivity); intros X; discriminate X.
  - cbn [negb orb]. destruct (cache_only c); destruct (overwrite c); cbn;
      repeat split; try discriminate; try (intros _; eexists; eexists; reflexivity); intros X; discriminate X.
Qed.

(* and on the code as it stands the opposite holds: after the crash of Proofs/DiskFSFacts.v
   crash_cur_poisons, a default (overwrite=False) query of that contraction raises
   UnboundLocalError in every later process *)
Theorem maybe_run_cur_poisoned (H : fpr -> name) enc dec mr orc c q v f ns :
  dec [] = None -> is_dir [] f = true -> split c = false -> overwrite c = OvFalse ->
  is_dir (kpath (key_of H c q)) f = false ->
  let f1 := crash_at 1 (setitem_ops_cur con enc (key_of H c q) v) f in
  fst (maybe_run H (ops_cur enc dec (S mr)) orc c (mkDD [] true f1, ns) q) = UnboundErr.
Proof.
  intros Hd Hr ES EO Hnd f1.
  assert (EK : key_of H c q = KS (H (fingerprint_c c q))) by (unfold key_of; rewrite ES; reflexivity).
  unfold f1 in *. clear f1. rewrite EK in *. cbn [kpath] in Hnd.
  destruct (crash_cur_poisons con enc dec (H (fingerprint_c c q)) v f mr Hd Hr Hnd) as [C G].
  set (d0 := mkDD [] true (crash_at 1 (setitem_ops_cur con enc (KS (H (fingerprint_c c q))) v) f)) in *.
  unfold maybe_run. rewrite EK. cbn [ops_cur o_contains o_getitem o_setitem].
  unfold contains_cur in *. cbn [fst] in C. rewrite C. cbn [negb orb]. rewrite EO.
  destruct (getitem_cur con dec (S mr) d0 (KS (H (fingerprint_c c q)))) as [r d2] eqn:EG.
  cbn [fst] in G. subst r. reflexivity.
Qed.

(* =====================================================================================
   directory_split="auto" (the constructor's default) after a crash: what the fixed writer can
   leave behind -- an orphan temporary file NEXT TO the entry, inside the sub-directory for a
   split key -- never changes the layout a later process detects
   ===================================================================================== *)
Definition top_all_dirs (f : fs) : Prop := Forall (fun e => length (fst e) = 1 -> snd e = FDir) f.
Definition top_all_files (f : fs) : Prop := Forall (fun e => length (fst e) = 1 -> exists b, snd e = FFile b) f.

Lemma split_auto_dirs f : top_all_dirs f -> split_auto f = true.
Proof.
  unfold split_auto, top_all_dirs. induction f as [|[q x] f IH]; intros HF; [reflexivity|].
  cbn [filter fst]. destruct (Nat.eqb (length q) 1) eqn:E.
  - apply Nat.eqb_eq in E. pose proof (Forall_inv HF E) as Hx. cbn [snd] in Hx. subst x. reflexivity.
  - apply IH. exact (Forall_inv_tail HF).
Qed.

Lemma split_auto_files f p nd : top_all_files f -> length p = 1 -> fs_get p f = Some nd -> split_auto f = false.
Proof.
  unfold split_auto, top_all_files. induction f as [|[q x] f IH]; intros HF Lp G; [discriminate|].
  cbn [filter fst]. destruct (Nat.eqb (length q) 1) eqn:E.
  - apply Nat.eqb_eq in E. destruct (Forall_inv HF E) as [b Hb]. cbn [snd] in Hb. subst x. reflexivity.
  - apply IH; [exact (Forall_inv_tail HF)|exact Lp|].
    cbn [fs_get] in G. destruct (path_eqb q p) eqn:EP; [|exact G].
    apply path_eqb_eq in EP. subst q. apply Nat.eqb_neq in E. contradiction.
Qed.

Lemma fs_set_forall (P : path * fnode -> Prop) p nd f : P (p, nd) -> Forall P f -> Forall P (fs_set p nd f).
Proof.
  intros Hp. induction f as [|[q x] f IH]; intros HF; cbn [fs_set]; [constructor; [exact Hp|constructor]|].
  destruct (path_eqb q p) eqn:E.
  - apply path_eqb_eq in E. subst q. constructor; [exact Hp|exact (Forall_inv_tail HF)].
  - constructor; [exact (Forall_inv HF)|apply IH, (Forall_inv_tail HF)].
Qed.
Lemma fs_del_forall (P : path * fnode -> Prop) p f : Forall P f -> Forall P (fs_del p f).
Proof.
  induction f as [|[q x] f IH]; intros HF; cbn [fs_del]; [constructor|].
  destruct (path_eqb q p); [exact (Forall_inv_tail HF)|].
  constructor; [exact (Forall_inv HF)|apply IH, (Forall_inv_tail HF)].
Qed.

(* operations that write nothing but directories at the top level *)
Definition deep_op (o : op) : Prop :=
  match o with
  | Mkdir _ => True
  | OpenTrunc p => length p <> 1
  | Append p _ => length p <> 1
  | Rename _ d => length d <> 1
  end.
(* operations that create no directory at the top level *)
Definition flat_op (o : op) : Prop := match o with Mkdir p => length p <> 1 | _ => True end.

Lemma run_op_dirs o f : deep_op o -> top_all_dirs f -> top_all_dirs (run_op f o).
Proof.
  intros HD HF. unfold run_op. destruct (negb (op_ok o f)); [exact HF|].
  destruct o as [p|p|p b|s d]; cbn [deep_op] in HD.
  - destruct (fs_get p f); [exact HF|]. apply fs_set_forall; [intros _; reflexivity|exact HF].
  - apply fs_set_forall; [cbn; intros L; contradiction|exact HF].
  - destruct (fs_get p f) as [[|c]|]; try exact HF. apply fs_set_forall; [cbn; intros L; contradiction|exact HF].
  - destruct (fs_get s f) as [nd|]; [|exact HF]. apply fs_del_forall, fs_set_forall; [cbn; intros L; contradiction|exact HF].
Qed.

Lemma run_op_files o f : flat_op o -> top_all_files f -> top_all_files (run_op f o).
Proof.
  intros HD HF. unfold run_op. destruct (op_ok o f) eqn:OK; cbn [negb]; [|exact HF].
  destruct o as [p|p|p b|s d]; cbn [flat_op] in HD.
  - destruct (fs_get p f); [exact HF|]. apply fs_set_forall; [cbn; intros L; contradiction|exact HF].
  - apply fs_set_forall; [cbn; intros _; eexists; reflexivity|exact HF].
  - destruct (fs_get p f) as [[|c]|]; try exact HF. apply fs_set_forall; [cbn; intros _; eexists; reflexivity|exact HF].
  - cbn [op_ok] in OK. destruct (fs_get s f) as [[|c]|]; try discriminate.
    apply fs_del_forall, fs_set_forall; [cbn; intros _; eexists; reflexivity|exact HF].
Qed.

Lemma run_ops_inv (P : fs -> Prop) (Q : op -> Prop) :
  (forall o f, Q o -> P f -> P (run_op f o)) ->
  forall ops f, (forall o, In o ops -> Q o) -> P f -> P (run_ops ops f).
Proof.
  intros Hstep. unfold run_ops. induction ops as [|o ops IH]; intros f HQ HP; [exact HP|].
  cbn [fold_left]. apply IH; [intros o' Ho'; apply HQ; right; exact Ho'|].
  apply Hstep; [apply HQ; left; reflexivity|exact HP].
Qed.

Section AutoLayout.
Variable V : Type.
Variable encode : V -> bytes.

(* split layout: whatever the crash point, the top level still holds directories only *)
Theorem auto_layout_stable_split a b v f n : top_all_dirs f ->
  let g := crash_at n (setitem_ops_fix V encode (KT [a; b]) v) f in
  top_all_dirs g /\ split_auto g = true /\ split_auto f = true.
Proof.
  intros HF g.
  assert (HG : top_all_dirs g).
  { unfold g, crash_at. apply (run_ops_inv top_all_dirs deep_op run_op_dirs); [|exact HF].
    intros o Ho. apply firstn_In in Ho. unfold setitem_ops_fix, mkdir_ops in Ho.
    cbn [kpath length Nat.ltb Nat.leb prefixes_from map app] in Ho.
    destruct Ho as [<-|[<-|Ho]]; [exact I|cbn; discriminate|].
    apply in_app_iff in Ho. destruct Ho as [Ho|[<-|[]]]; [|cbn; discriminate].
    apply in_map_iff in Ho. destruct Ho as (x & <- & _). cbn. discriminate. }
  split; [exact HG|]. split; apply split_auto_dirs; assumption.
Qed.

(* flat layout: the top level holds files only (orphans included), and an older entry is still
   there, so the layout is still detected as flat *)
Theorem auto_layout_stable_flat h v f n h0 nd0 : top_all_files f ->
  fs_get [h0] f = Some nd0 -> h0 <> h -> h0 <> TMPMARK :: h ->
  let g := crash_at n (setitem_ops_fix V encode (KS h) v) f in
  top_all_files g /\ split_auto g = false /\ split_auto f = false.
Proof.
  intros HF G0 N1 N2 g.
  assert (HG : top_all_files g).
  { unfold g, crash_at. apply (run_ops_inv top_all_files flat_op run_op_files); [|exact HF].
    intros o Ho. apply firstn_In in Ho. unfold setitem_ops_fix, mkdir_ops in Ho.
    cbn [kpath length Nat.ltb Nat.leb app] in Ho.
    destruct Ho as [<-|Ho]; [exact I|].
    apply in_app_iff in Ho. destruct Ho as [Ho|[<-|[]]]; [|exact I].
    apply in_map_iff in Ho. destruct Ho as (x & <- & _). exact I. }
  assert (GG : fs_get [h0] g = Some nd0).
  { unfold g. rewrite (crash_fix_others V encode (KS h) v f n [h0]); [exact G0| | |].
    - cbn. congruence.
    - unfold tmp_of. cbn. congruence.
    - unfold mkdir_ops. cbn. tauto. }
  split; [exact HG|]. split.
  - apply (split_auto_files g [h0] nd0 HG eq_refl GG).
  - apply (split_auto_files f [h0] nd0 HF eq_refl G0).
Qed.
End AutoLayout.

(* the converse design is unsafe: one file at the top level of a split cache flips a
   "no file at top level" detection -- and even the first-child detection when it comes first *)
Example orphan_at_top_level_flips_layout :
  let f := [([], FDir); ([[1;2]], FDir); ([[1;2]; [3;4]], FFile [7;0])] in
  split_auto f = true /\ split_auto (fs_set [[46; 3; 4]] (FFile []) (fs_del [[1;2]] f)) = false.
Proof. vm_compute. split; reflexivity. Qed.

(* =====================================================================================
   store_spec for the FIXED DiskDict (the code in /repo since 40262ad: temporary file +
   os.replace, unreadable => missing, __contains__ = loadable, memoisation under the caller's
   key) on disk, flat and split layout; crash-free executions.
   The file system is an association list, so the invariants that must survive the
   `fs_del tmp` of a rename are stated on the LIST (every entry at the given depth is a
   file / a directory), not only on what fs_get sees.
   ===================================================================================== *)
Definition lvl_files (L : nat) (f : fs) : Prop :=
  Forall (fun e => length (fst e) = L -> exists b, snd e = FFile b) f.
Definition nomkdir (L : nat) (o : op) : Prop := match o with Mkdir p => length p <> L | _ => True end.

Lemma run_op_lvl L o f : nomkdir L o -> lvl_files L f -> lvl_files L (run_op f o).
Proof.
  intros HD HF. unfold run_op. destruct (op_ok o f) eqn:OK; cbn [negb]; [|exact HF].
  destruct o as [p|p|p b|s d]; cbn [nomkdir] in HD.
  - destruct (fs_get p f); [exact HF|]. apply fs_set_forall; [cbn; intros L'; contradiction|exact HF].
  - apply fs_set_forall; [cbn; intros _; eexists; reflexivity|exact HF].
  - destruct (fs_get p f) as [[|c]|]; try exact HF. apply fs_set_forall; [cbn; intros _; eexists; reflexivity|exact HF].
  - cbn [op_ok] in OK. destruct (fs_get s f) as [[|c]|]; try discriminate.
    apply fs_del_forall, fs_set_forall; [cbn; intros _; eexists; reflexivity|exact HF].
Qed.

Lemma lvl_files_get L f p nd : lvl_files L f -> length p = L -> fs_get p f = Some nd -> exists b, nd = FFile b.
Proof.
  unfold lvl_files. induction f as [|[q x] f IH]; intros HF Lp G; [discriminate|].
  cbn [fs_get] in G. destruct (path_eqb q p) eqn:E.
  - apply path_eqb_eq in E. subst q. inversion G; subst x. exact (Forall_inv HF Lp).
  - apply IH; [exact (Forall_inv_tail HF)|exact Lp|exact G].
Qed.
Lemma lvl_files_not_dir L f p : lvl_files L f -> length p = L -> is_dir p f = false.
Proof.
  intros HF Lp. unfold is_dir. destruct (fs_get p f) as [nd|] eqn:G; [|reflexivity].
  destruct (lvl_files_get L f p nd HF Lp G) as [b ->]. reflexivity.
Qed.
Lemma top_dirs_get f a nd : top_all_dirs f -> fs_get [a] f = Some nd -> nd = FDir.
Proof.
  unfold top_all_dirs. induction f as [|[q x] f IH]; intros HF G; [discriminate|].
  cbn [fs_get] in G. destruct (path_eqb q [a]) eqn:E.
  - apply path_eqb_eq in E. subst q. inversion G; subst x. exact (Forall_inv HF eq_refl).
  - apply IH; [exact (Forall_inv_tail HF)|exact G].
Qed.

Lemma is_tmp_cons h : is_tmp_name (TMPMARK :: h) = true.
Proof. reflexivity. Qed.

Section FixInstances.
Variable encode : con -> bytes.
Variable decode : bytes -> option con.
Variable mr : nat.
Hypothesis RT : forall c, decode (encode c) = Some c.

(* an uninterrupted run of the fixed writer *)
Lemma fix_full_run k v f : key_shape k -> dir_ready k f ->
  let g := run_ops (setitem_ops_fix con encode k v) f in
  fs_get (kpath k) g = Some (FFile (encode v)) /\
  (forall q, q <> kpath k -> q <> tmp_of (kpath k) -> ~ In (Mkdir q) (mkdir_ops (kpath k)) ->
             fs_get q g = fs_get q f).
Proof.
  intros Hs Hr g.
  assert (E : g = crash_at (length (setitem_ops_fix con encode k v)) (setitem_ops_fix con encode k v) f)
    by (unfold g, crash_at; rewrite firstn_all; reflexivity).
  split.
  - rewrite E. apply (crash_fix_target con encode k v f _ Hs Hr). apply Nat.le_refl.
  - intros q H1 H2 H3. rewrite E. apply crash_fix_others; assumption.
Qed.

(* what the fixed reader does on a node that is absent or a complete entry *)
Lemma getitem_fix_spec (d : dd con) k :
  dd_dir d = true -> is_dir (kpath k) (dd_fs d) = false ->
  (fs_get (kpath k) (dd_fs d) = None \/ exists c, fs_get (kpath k) (dd_fs d) = Some (FFile (encode c))) ->
  getitem_fix con decode (S mr) d k =
    match mem_get k (dd_mem d) with
    | Some c => (Ok c, d)
    | None => match fs_get (kpath k) (dd_fs d) with
              | Some (FFile b) => match decode b with
                                  | Some c => (Ok c, mkDD (mem_set k c (dd_mem d)) (dd_dir d) (dd_fs d))
                                  | None => (KeyErr, d) end
              | _ => (KeyErr, d)
              end
    end.
Proof.
  intros Hd Hnd Hf. unfold getitem_fix. destruct (mem_get k (dd_mem d)); [reflexivity|].
  rewrite Hd, Hnd. cbn [negb]. unfold fs_exists.
  destruct Hf as [E|[c E]]; rewrite E; cbn [negb]; [reflexivity|].
  cbn [retry]. unfold try_load. rewrite E, RT. reflexivity.
Qed.

(* ---------------- flat layout ---------------- *)
Definition fkey (k : dkey) : Prop := exists h, k = KS h /\ is_tmp_name h = false.
Definition finv (d : dd con) : Prop :=
  dd_dir d = true /\ is_dir [] (dd_fs d) = true /\ lvl_files 1 (dd_fs d) /\
  (forall h, is_tmp_name h = false ->
     fs_get [h] (dd_fs d) = None \/ exists c, fs_get [h] (dd_fs d) = Some (FFile (encode c))) /\
  (forall h c, is_tmp_name h = false -> mem_get (KS h) (dd_mem d) = Some c ->
     fs_get [h] (dd_fs d) = Some (FFile (encode c))).

Lemma finv_getitem d h : finv d -> is_tmp_name h = false ->
  fst (getitem_fix con decode (S mr) d (KS h)) =
    (match flat_view decode d (KS h) with Some c => Ok c | None => KeyErr end) /\
  finv (snd (getitem_fix con decode (S mr) d (KS h))) /\
  (forall k', fkey k' -> flat_view decode (snd (getitem_fix con decode (S mr) d (KS h))) k' = flat_view decode d k').
Proof.
  intros (Hd & Hr & HL & Hf & Hm) Ht.
  rewrite (getitem_fix_spec d (KS h) Hd (lvl_files_not_dir 1 _ [h] HL eq_refl) (Hf h Ht)).
  unfold flat_view. cbn [kpath].
  destruct (mem_get (KS h) (dd_mem d)) as [c0|] eqn:M; cbn [fst snd].
  - split; [reflexivity|]. split; [repeat split; assumption|reflexivity].
  - destruct (Hf h Ht) as [E|[c E]]; rewrite E; cbn [fst snd].
    + split; [reflexivity|]. split; [repeat split; assumption|reflexivity].
    + rewrite RT. cbn [fst snd dd_mem dd_dir dd_fs].
      split; [reflexivity|]. split.
      * repeat split; try assumption. cbn [dd_mem]. intros h' c' Ht' M'.
        destruct (list_eq_dec Nat.eq_dec h' h) as [->|Hne].
        -- rewrite mem_get_set_same in M'. inversion M'; subst. exact E.
        -- rewrite mem_get_set_other in M' by congruence. apply Hm; assumption.
      * intros k' (h' & -> & Ht'). cbn [dd_mem kpath].
        destruct (list_eq_dec Nat.eq_dec h' h) as [->|Hne].
        -- rewrite mem_get_set_same, M, E, RT. reflexivity.
        -- rewrite mem_get_set_other by congruence. reflexivity.
Qed.

Theorem flat_store_spec_fix : store_spec (ops_fix encode decode (S mr)) finv (flat_view decode) fkey.
Proof.
  unfold store_spec, ops_fix. cbn [o_contains o_getitem o_setitem]. split; [|split].
  - intros d k HI (h & -> & Ht). destruct (finv_getitem d h HI Ht) as (G1 & G2 & G3).
    unfold contains_fix. destruct (getitem_fix con decode (S mr) d (KS h)) as [r d'].
    cbn [fst snd] in *. subst r.
    destruct (flat_view decode d (KS h)); cbn [fst snd]; (split; [reflexivity|split; [exact G2|exact G3]]).
  - intros d k HI (h & -> & Ht). apply finv_getitem; assumption.
  - intros d k c (Hd & Hr & HL & Hf & Hm) (h & -> & Ht).
    unfold setitem_fix, finv, flat_view. cbn [dd_mem dd_dir dd_fs]. rewrite Hd.
    assert (DR : dir_ready (KS h) (dd_fs d)).
    { unfold dir_ready. cbn [kpath]. repeat split; try assumption.
      - apply (lvl_files_not_dir 1); [exact HL|reflexivity].
      - apply (lvl_files_not_dir 1); [exact HL|reflexivity]. }
    destruct (fix_full_run (KS h) c (dd_fs d) (shape_flat h) DR) as [G O]. cbn [kpath] in G, O.
    set (f1 := run_ops (setitem_ops_fix con encode (KS h) c) (dd_fs d)) in *.
    assert (O' : forall h', h' <> h -> is_tmp_name h' = false -> fs_get [h'] f1 = fs_get [h'] (dd_fs d)).
    { intros h' Hne Ht'. apply O; [congruence| |unfold mkdir_ops; cbn; tauto].
      unfold tmp_of. cbn. intros EQ. inversion EQ; subst h'. discriminate. }
    split; [|split].
    + split; [reflexivity|]. split.
      { unfold is_dir. rewrite O; [exact Hr|discriminate|unfold tmp_of; cbn; discriminate|unfold mkdir_ops; cbn; tauto]. }
      split.
      { unfold f1. apply (run_ops_inv (lvl_files 1) (nomkdir 1) (run_op_lvl 1)); [|exact HL].
        intros o Ho. unfold setitem_ops_fix, mkdir_ops in Ho. cbn [kpath length Nat.ltb Nat.leb app] in Ho.
        destruct Ho as [<-|Ho]; [exact I|].
        apply in_app_iff in Ho. destruct Ho as [Ho|[<-|[]]]; [|exact I].
        apply in_map_iff in Ho. destruct Ho as (x & <- & _). exact I. }
      split.
      * intros h' Ht'. destruct (list_eq_dec Nat.eq_dec h' h) as [->|Hne].
        -- right. exists c. exact G.
        -- rewrite O' by assumption. apply Hf, Ht'.
      * intros h' c' Ht' M'. destruct (list_eq_dec Nat.eq_dec h' h) as [->|Hne].
        -- rewrite mem_get_set_same in M'. inversion M'; subst. exact G.
        -- rewrite mem_get_set_other in M' by congruence. rewrite O' by assumption. apply Hm; assumption.
    + rewrite mem_get_set_same. reflexivity.
    + intros k' (h' & -> & Ht') Hne. rewrite mem_get_set_other by exact Hne. cbn [kpath].
      rewrite O'; [reflexivity| |exact Ht']. intros ->. apply Hne. reflexivity.
Qed.

Theorem fresh_view_fix_flat d k : finv d -> fkey k ->
  finv (fresh d) /\ flat_view decode (fresh d) k = flat_view decode d k.
Proof.
  intros (Hd & Hr & HL & Hf & Hm) (h & -> & Ht). split.
  - unfold fresh, finv. cbn [dd_mem dd_dir dd_fs mem_get]. repeat split; try assumption. discriminate.
  - unfold flat_view, fresh. cbn [dd_mem dd_fs mem_get kpath].
    destruct (mem_get (KS h) (dd_mem d)) as [c|] eqn:M; [|reflexivity].
    rewrite (Hm h c Ht M), RT. reflexivity.
Qed.

(* ---------------- split layout ---------------- *)
Definition skey (k : dkey) : Prop := exists a b, k = KT [a; b] /\ is_tmp_name b = false.
Definition sinv (d : dd con) : Prop :=
  dd_dir d = true /\ is_dir [] (dd_fs d) = true /\ top_all_dirs (dd_fs d) /\ lvl_files 2 (dd_fs d) /\
  (forall a b, is_tmp_name b = false ->
     fs_get [a; b] (dd_fs d) = None \/ exists c, fs_get [a; b] (dd_fs d) = Some (FFile (encode c))) /\
  (forall a b c, is_tmp_name b = false -> mem_get (KT [a; b]) (dd_mem d) = Some c ->
     fs_get [a; b] (dd_fs d) = Some (FFile (encode c))).

Lemma sinv_getitem d a b : sinv d -> is_tmp_name b = false ->
  fst (getitem_fix con decode (S mr) d (KT [a; b])) =
    (match flat_view decode d (KT [a; b]) with Some c => Ok c | None => KeyErr end) /\
  sinv (snd (getitem_fix con decode (S mr) d (KT [a; b]))) /\
  (forall k', skey k' -> flat_view decode (snd (getitem_fix con decode (S mr) d (KT [a; b]))) k' = flat_view decode d k').
Proof.
  intros (Hd & Hr & HT & HL & Hf & Hm) Ht.
  rewrite (getitem_fix_spec d (KT [a; b]) Hd (lvl_files_not_dir 2 _ [a; b] HL eq_refl) (Hf a b Ht)).
  unfold flat_view. cbn [kpath].
  destruct (mem_get (KT [a; b]) (dd_mem d)) as [c0|] eqn:M; cbn [fst snd].
  - split; [reflexivity|]. split; [repeat split; assumption|reflexivity].
  - destruct (Hf a b Ht) as [E|[c E]]; rewrite E; cbn [fst snd].
    + split; [reflexivity|]. split; [repeat split; assumption|reflexivity].
    + rewrite RT. cbn [fst snd dd_mem dd_dir dd_fs].
      split; [reflexivity|]. split.
      * repeat split; try assumption. cbn [dd_mem]. intros a' b' c' Ht' M'.
        destruct (list_eq_dec (list_eq_dec Nat.eq_dec) [a'; b'] [a; b]) as [EQ|Hne].
        -- inversion EQ; subst. rewrite mem_get_set_same in M'. inversion M'; subst. exact E.
        -- rewrite mem_get_set_other in M' by congruence. apply Hm; assumption.
      * intros k' (a' & b' & -> & Ht'). cbn [dd_mem kpath].
        destruct (list_eq_dec (list_eq_dec Nat.eq_dec) [a'; b'] [a; b]) as [EQ|Hne].
        -- inversion EQ; subst. rewrite mem_get_set_same, M, E, RT. reflexivity.
        -- rewrite mem_get_set_other by congruence. reflexivity.
Qed.

Theorem split_store_spec_fix : store_spec (ops_fix encode decode (S mr)) sinv (flat_view decode) skey.
Proof.
  unfold store_spec, ops_fix. cbn [o_contains o_getitem o_setitem]. split; [|split].
  - intros d k HI (a & b & -> & Ht). destruct (sinv_getitem d a b HI Ht) as (G1 & G2 & G3).
    unfold contains_fix. destruct (getitem_fix con decode (S mr) d (KT [a; b])) as [r d'].
    cbn [fst snd] in *. subst r.
    destruct (flat_view decode d (KT [a; b])); cbn [fst snd]; (split; [reflexivity|split; [exact G2|exact G3]]).
  - intros d k HI (a & b & -> & Ht). apply sinv_getitem; assumption.
  - intros d k c (Hd & Hr & HT & HL & Hf & Hm) (a & b & -> & Ht).
    unfold setitem_fix, sinv, flat_view. cbn [dd_mem dd_dir dd_fs]. rewrite Hd.
    assert (DR : dir_ready (KT [a; b]) (dd_fs d)).
    { unfold dir_ready. cbn [kpath]. split; [exact Hr|]. split; [apply (lvl_files_not_dir 2); [exact HL|reflexivity]|].
      split; [apply (lvl_files_not_dir 2); [exact HL|reflexivity]|].
      destruct (fs_get [a] (dd_fs d)) as [nd|] eqn:EA; [right|left; reflexivity].
      rewrite (top_dirs_get _ a nd HT EA). reflexivity. }
    destruct (fix_full_run (KT [a; b]) c (dd_fs d) (shape_split a b) DR) as [G O]. cbn [kpath] in G, O.
    set (f1 := run_ops (setitem_ops_fix con encode (KT [a; b]) c) (dd_fs d)) in *.
    assert (OPS : forall o, In o (setitem_ops_fix con encode (KT [a; b]) c) ->
                  o = Mkdir [a] \/ o = OpenTrunc (tmp_of [a; b]) \/ (exists x, o = Append (tmp_of [a; b]) [x]) \/
                  o = Rename (tmp_of [a; b]) [a; b]).
    { intros o Ho. unfold setitem_ops_fix, mkdir_ops in Ho.
      cbn [kpath length Nat.ltb Nat.leb prefixes_from map app] in Ho.
      destruct Ho as [<-|[<-|Ho]]; [tauto|tauto|].
      apply in_app_iff in Ho. destruct Ho as [Ho|[<-|[]]]; [|tauto].
      apply in_map_iff in Ho. destruct Ho as (x & <- & _). right; right; left. eexists; reflexivity. }
    assert (O' : forall a' b', [a'; b'] <> [a; b] -> is_tmp_name b' = false ->
                 fs_get [a'; b'] f1 = fs_get [a'; b'] (dd_fs d)).
    { intros a' b' Hne Ht'. apply O; [exact Hne| |].
      - unfold tmp_of. cbn. intros EQ. inversion EQ; subst. discriminate.
      - unfold mkdir_ops. cbn. intros [EQ|[]]. discriminate. }
    split; [|split].
    + split; [reflexivity|]. split.
      { unfold is_dir. rewrite O; [exact Hr|discriminate|unfold tmp_of; cbn; discriminate|].
        unfold mkdir_ops. cbn. intros [EQ|[]]. discriminate. }
      split.
      { unfold f1. apply (run_ops_inv top_all_dirs deep_op run_op_dirs); [|exact HT].
        intros o Ho. destruct (OPS o Ho) as [E|[E|[[x E]|E]]]; subst o; cbn; try exact I; discriminate. }
      split.
      { unfold f1. apply (run_ops_inv (lvl_files 2) (nomkdir 2) (run_op_lvl 2)); [|exact HL].
        intros o Ho. destruct (OPS o Ho) as [E|[E|[[x E]|E]]]; subst o; cbn; try exact I. discriminate. }
      split.
      * intros a' b' Ht'. destruct (list_eq_dec (list_eq_dec Nat.eq_dec) [a'; b'] [a; b]) as [EQ|Hne].
        -- inversion EQ; subst. right. exists c. exact G.
        -- rewrite O' by assumption. apply Hf, Ht'.
      * intros a' b' c' Ht' M'. destruct (list_eq_dec (list_eq_dec Nat.eq_dec) [a'; b'] [a; b]) as [EQ|Hne].
        -- inversion EQ; subst. rewrite mem_get_set_same in M'. inversion M'; subst. exact G.
        -- rewrite mem_get_set_other in M' by congruence. rewrite O' by assumption. apply Hm; assumption.
    + rewrite mem_get_set_same. reflexivity.
    + intros k' (a' & b' & -> & Ht') Hne. rewrite mem_get_set_other by exact Hne. cbn [kpath].
      rewrite O'; [reflexivity| |exact Ht']. intros EQ. apply Hne. rewrite EQ. reflexivity.
Qed.

Theorem fresh_view_fix_split d k : sinv d -> skey k ->
  sinv (fresh d) /\ flat_view decode (fresh d) k = flat_view decode d k.
Proof.
  intros (Hd & Hr & HT & HL & Hf & Hm) (a & b & -> & Ht). split.
  - unfold fresh, sinv. cbn [dd_mem dd_dir dd_fs mem_get]. repeat split; try assumption. discriminate.
  - unfold flat_view, fresh. cbn [dd_mem dd_fs mem_get kpath].
    destruct (mem_get (KT [a; b]) (dd_mem d)) as [c|] eqn:M; [|reflexivity].
    rewrite (Hm a b c Ht M), RT. reflexivity.
Qed.

(* ---- a fresh process over the same directory, for the code that exists ---- *)
(* digests are hexadecimal: no name derived from them starts with the '.' of a temporary file *)
Definition hex_names (H : fpr -> name) : Prop :=
  forall f, is_tmp_name (H f) = false /\ is_tmp_name (skipn 2 (H f)) = false.

Theorem fresh_process_equiv_fix (H : fpr -> name) orc c d ns q :
  hex_names H ->
  (if split c then sinv d else finv d) ->
  let ops := ops_fix encode decode (S mr) in
  fst (maybe_run H ops orc c (fresh d, ns) q) = fst (maybe_run H ops orc c (d, ns) q) /\
  snd (snd (maybe_run H ops orc c (fresh d, ns) q)) = snd (snd (maybe_run H ops orc c (d, ns) q)) /\
  (forall k, (if split c then skey k else fkey k) ->
     flat_view decode (fst (snd (maybe_run H ops orc c (fresh d, ns) q))) k =
     flat_view decode (fst (snd (maybe_run H ops orc c (d, ns) q))) k).
Proof.
  intros HH HI ops. destruct (split c) eqn:ES.
  - assert (KG : forall c' q', split c' = true -> skey (key_of H c' q')).
    { intros c' q' E. unfold key_of. rewrite E. eexists; eexists. split; [reflexivity|apply HH]. }
    apply (view_determines_behaviour H ops orc sinv (flat_view decode) skey (fun c' => split c' = true)
             split_store_spec_fix KG c ES (fresh d) d ns q).
    + apply (fresh_view_fix_split d (KT [[]; []])); [exact HI|]. eexists; eexists. split; reflexivity.
    + exact HI.
    + intros k Gk. apply fresh_view_fix_split; assumption.
  - assert (KG : forall c' q', split c' = false -> fkey (key_of H c' q')).
    { intros c' q' E. unfold key_of. rewrite E. eexists. split; [reflexivity|apply HH]. }
    apply (view_determines_behaviour H ops orc finv (flat_view decode) fkey (fun c' => split c' = false)
             flat_store_spec_fix KG c ES (fresh d) d ns q).
    + apply (fresh_view_fix_flat d (KS [])); [exact HI|]. eexists. split; reflexivity.
    + exact HI.
    + intros k Gk. apply fresh_view_fix_flat; assumption.
Qed.

(* the cache directory right after DiskDict.__init__ satisfies both invariants *)
Lemma finv_init : finv (mkDD [] true fs0).
Proof.
  unfold finv, fs0. cbn [dd_mem dd_dir dd_fs]. split; [reflexivity|]. split; [reflexivity|].
  split; [repeat constructor; cbn; discriminate|]. split; [intros h _; left; reflexivity|intros h c _ M; discriminate].
Qed.
Lemma sinv_init : sinv (mkDD [] true fs0).
Proof.
  unfold sinv, fs0. cbn [dd_mem dd_dir dd_fs]. split; [reflexivity|]. split; [reflexivity|].
  split; [repeat constructor; cbn; discriminate|]. split; [repeat constructor; cbn; discriminate|].
  split; [intros a b _; left; reflexivity|intros a b c _ M; discriminate].
Qed.
End FixInstances.

(* ---- all layouts at once, and the session-level consequences instantiated for the code that
        exists (fixed DiskDict on disk) ---- *)
Section RealCode.
Variable encode : con -> bytes.
Variable decode : bytes -> option con.
Variable mr : nat.
Hypothesis RT : forall c, decode (encode c) = Some c.
Variable H : fpr -> name.
Hypothesis HH : hex_names H.

Definition rinv (sp : bool) : dd con -> Prop := if sp then sinv encode else finv encode.
Definition rkey (sp : bool) : dkey -> Prop := if sp then skey else fkey.

Theorem fix_store_spec_all_layouts sp :
  store_spec (ops_fix encode decode (S mr)) (rinv sp) (flat_view decode) (rkey sp) /\
  (forall c q, split c = sp -> rkey sp (key_of H c q)).
Proof.
  destruct sp; cbn [rinv rkey]; split.
  - apply split_store_spec_fix, RT.
  - intros c q E. unfold key_of. rewrite E. eexists; eexists. split; [reflexivity|apply HH].
  - apply flat_store_spec_fix, RT.
  - intros c q E. unfold key_of. rewrite E. eexists. split; [reflexivity|apply HH].
Qed.

Theorem fix_session_facts orc c qs d ns : rinv (split c) d ->
  let ops := ops_fix encode decode (S mr) in
  let d' := fst (snd (run_queries H ops orc c (d, ns) qs)) in
  rinv (split c) d' /\
  (cache_only c = true ->
     snd (snd (run_queries H ops orc c (d, ns) qs)) = ns /\
     forall k, rkey (split c) k -> flat_view decode d' k = flat_view decode d k) /\
  (overwrite c = OvImproved -> forall k0 old, rkey (split c) k0 -> flat_view decode d k0 = Some old ->
     exists new, flat_view decode d' k0 = Some new /\ (c_score new <= c_score old)%Z) /\
  (overwrite c = OvFalse -> forall k0 cn, rkey (split c) k0 -> flat_view decode d k0 = Some cn ->
     flat_view decode d' k0 = Some cn).
Proof.
  intros HI ops d'. destruct (fix_store_spec_all_layouts (split c)) as [SP KG].
  assert (KG' : forall c' q', split c' = split c -> rkey (split c) (key_of H c' q')) by exact KG.
  split; [|split; [|split]].
  - apply (session_inv H ops orc (rinv (split c)) (flat_view decode) (rkey (split c))
             (fun c' => split c' = split c) SP KG' c eq_refl qs d ns HI).
  - intros EC. apply (session_cache_only_never_searches H ops orc (rinv (split c)) (flat_view decode)
             (rkey (split c)) (fun c' => split c' = split c) SP KG' c eq_refl qs EC d ns HI).
  - intros EO k0 old G0 V. apply (session_improved_monotone H ops orc (rinv (split c)) (flat_view decode)
             (rkey (split c)) (fun c' => split c' = split c) SP KG' c eq_refl qs EO d ns k0 old HI G0 V).
  - intros EO k0 cn G0 V. apply (session_ovfalse_stable H ops orc (rinv (split c)) (flat_view decode)
             (rkey (split c)) (fun c' => split c' = split c) SP KG' c eq_refl qs EO d ns k0 cn HI G0 V).
Qed.
End RealCode.

(* ReusableFacts.v -- facts about Model/Reusable.v (fingerprints, the cache state machine). *)
From Coq Require Import Lia Permutation ZArith List Bool.
From Ctg Require Import Base Net DiskFS Reusable BaseFacts NetFacts.

(* ---- hash_method='b' is NOT sound: two witnesses ---------------------------------- *)
(* (1) the number of tensors is not part of the fingerprint: a scalar tensor is invisible *)
Definition b1_x : net := mkNet [[0;1]; [0;1]; []] [] [(0, 2%Z); (1, 3%Z)].
Definition b1_y : net := mkNet [[0;1]; [0;1]] [] [(0, 2%Z); (1, 3%Z)].
(* (2) sizes are kept by LABEL while the edges are canonicalised by POSITION *)
Definition b2_x : net := mkNet [[0]; [0;1]; [1]] [] [(0, 2%Z); (1, 7%Z)].
Definition b2_y : net := mkNet [[1]; [1;0]; [0]] [] [(0, 2%Z); (1, 7%Z)].
Definition b2_t : tree := Node (Node (Leaf 0) (Leaf 1)) (Leaf 2).

Lemma fp_b_ignores_tensor_count :
  fp_b b1_x = fp_b b1_y /\ NN b1_x <> NN b1_y /\
  path_to_tree (NN b1_x) [(0,1); (0,1)] <> None /\ path_to_tree (NN b1_y) [(0,1); (0,1)] = None.
Proof. vm_compute. repeat split; congruence. Qed.

Lemma fp_b_sizes_by_label :
  fp_b b2_x = fp_b b2_y /\ NN b2_x = NN b2_y /\ inrange b2_x (leaves b2_t) /\
  total_flops b2_x [] b2_t = 21%Z /\ total_flops b2_y [] b2_t = 16%Z.
Proof.
  split; [vm_compute; reflexivity|]. split; [reflexivity|]. split; [|split; vm_compute; reflexivity].
  split; [repeat constructor; cbn; intuition congruence|].
  intros k Hk. cbn in Hk. unfold NN. cbn. intuition lia.
Qed.

(* GoodFacts.v -- the well-formedness invariant of the concrete ContractionProcessor
   (nodes / edges consistent, as ContractionProcessor.check() asserts) is preserved by every
   primitive, no KeyError is ever flagged, and the pipelines end with exactly one node *)
From Coq Require Import Lia Permutation.
From Ctg Require Import Base Net PathValid Processor BaseFacts PathValidFacts ProcessorFacts SsaLinearFacts RefineFacts BuilderFacts.

(* ------------------------------------------------------------------ *)
(* association lists                                                    *)
Section Assoc.
Context {V : Type}.
Implicit Types d : list (nat * V).

Lemma nget_ndel_other k i : forall d, k <> i -> nget k (ndel i d) = nget k d.
Proof.
  induction d as [|[a v] d IH]; intros H; [reflexivity|]. cbn [ndel].
  destruct (Nat.eqb a i) eqn:E.
  - apply Nat.eqb_eq in E. subst a. cbn [nget]. replace (Nat.eqb i k) with false; [reflexivity|].
    symmetry. apply Nat.eqb_neq. congruence.
  - cbn [nget]. destruct (Nat.eqb a k); [reflexivity|]. now apply IH.
Qed.
Lemma nget_ndel_same i : forall d, NoDup (map fst d) -> nget i (ndel i d) = None.
Proof.
  induction d as [|[a v] d IH]; intros ND; [reflexivity|]. cbn [ndel]. inversion ND as [|? ? Ha ND']; subst.
  destruct (Nat.eqb a i) eqn:E.
  - apply Nat.eqb_eq in E. subst a. destruct (nget i d) eqn:G; [|reflexivity].
    exfalso. apply Ha. eapply nget_in; exact G.
  - cbn [nget]. rewrite E. now apply IH.
Qed.
Lemma nget_nset_same i v : forall d, nget i (nset_ i v d) = Some v.
Proof.
  induction d as [|[a w] d IH]; cbn [nset_ nget]; [now rewrite Nat.eqb_refl|].
  destruct (Nat.eqb a i) eqn:E; cbn [nget]; rewrite E; [reflexivity|exact IH].
Qed.
Lemma nget_nset_other k i v : forall d, k <> i -> nget k (nset_ i v d) = nget k d.
Proof.
  induction d as [|[a w] d IH]; intros H; cbn [nset_ nget].
  - replace (Nat.eqb i k) with false; [reflexivity|]. symmetry. apply Nat.eqb_neq. congruence.
  - destruct (Nat.eqb a i) eqn:E; cbn [nget].
    + apply Nat.eqb_eq in E. subst a. replace (Nat.eqb i k) with false; [reflexivity|].
      symmetry. apply Nat.eqb_neq. congruence.
    + destruct (Nat.eqb a k); [reflexivity|]. now apply IH.
Qed.
Lemma nget_app k : forall d e, nget k (d ++ e) = match nget k d with Some x => Some x | None => nget k e end.
Proof.
  induction d as [|[a w] d IH]; intros e; [reflexivity|]. cbn [app nget].
  destruct (Nat.eqb a k); [reflexivity|apply IH].
Qed.
Lemma nset_keys_new i v : forall d, ~ In i (map fst d) -> map fst (nset_ i v d) = map fst d ++ [i].
Proof.
  induction d as [|[a w] d IH]; intros H; [reflexivity|]. cbn [nset_].
  destruct (Nat.eqb a i) eqn:E.
  - apply Nat.eqb_eq in E. subst a. exfalso. apply H. now left.
  - cbn [map fst app]. f_equal. apply IH. intros Hc. apply H. now right.
Qed.
Lemma nset_keys_nodup i v d : NoDup (map fst d) -> NoDup (map fst (nset_ i v d)).
Proof.
  intros ND. destruct (in_dec Nat.eq_dec i (map fst d)) as [Hin|Hn].
  - now rewrite nset_keys.
  - rewrite nset_keys_new by assumption. apply NoDup_app_intro; [assumption|repeat constructor; intros []|].
    intros x Hx [<-|[]]. contradiction.
Qed.
Lemma ndel_keys_nodup i d : NoDup (map fst d) -> NoDup (map fst (ndel i d)).
Proof. intros ND. rewrite ndel_keys by assumption. now apply NoDup_filter. Qed.
Lemma nget_some_in_iff k d : In k (map fst d) <-> nget k d <> None.
Proof.
  split.
  - intros Hin Hc. now apply nget_none in Hc.
  - intros H. destruct (nget k d) eqn:G; [eapply nget_in; exact G|congruence].
Qed.
Lemma in_nget k v : forall d, NoDup (map fst d) -> In (k, v) d -> nget k d = Some v.
Proof.
  induction d as [|[a w] d IH]; intros ND Hin; [destruct Hin|]. inversion ND as [|? ? Ha ND']; subst. cbn [nget].
  destruct Hin as [Heq|Hin].
  - injection Heq as -> ->. now rewrite Nat.eqb_refl.
  - destruct (Nat.eqb a k) eqn:E; [|now apply IH].
    apply Nat.eqb_eq in E. subst a. exfalso. apply Ha. apply in_map_iff. exists (k, v). auto.
Qed.
Lemma nget_in_pair k v : forall d, nget k d = Some v -> In (k, v) d.
Proof.
  induction d as [|[a w] d IH]; intros H; cbn in H; [discriminate|].
  destruct (Nat.eqb a k) eqn:E; [apply Nat.eqb_eq in E; injection H as ->; subst; now left|right; auto].
Qed.
End Assoc.

(* ------------------------------------------------------------------ *)
(* edges updates in closed form                                         *)
Definition rm1 (i : nat) (l : list nat) : list nat := filter (fun k => negb (Nat.eqb k i)) l.
Definition dropi (i : nat) (o : option (list nat)) : option (list nat) :=
  match o with
  | Some ns => match rm1 i ns with [] => None | l => Some l end
  | None => None
  end.
Definition oget (E : list (nat * list nat)) (ix : nat) : list nat := match nget ix E with Some ns => ns | None => [] end.
Definition addi (i : nat) (l : list nat) : list nat := if memb i l then l else l ++ [i].

Lemma rm1_idem i l : rm1 i (rm1 i l) = rm1 i l.
Proof.
  unfold rm1. induction l as [|x l IH]; [reflexivity|]. cbn. destruct (Nat.eqb x i) eqn:E; cbn; [exact IH|].
  rewrite E. cbn. now rewrite IH.
Qed.
Lemma dropi_idem i o : dropi i (dropi i o) = dropi i o.
Proof.
  destruct o as [ns|]; [|reflexivity]. destruct (rm1 i ns) as [|x l] eqn:E.
  - assert (H : dropi i (Some ns) = None) by (unfold dropi; now rewrite E). now rewrite H.
  - assert (H : dropi i (Some ns) = Some (x :: l)) by (unfold dropi; now rewrite E). rewrite H.
    assert (H2 : rm1 i (x :: l) = x :: l) by (rewrite <- E; apply rm1_idem).
    unfold dropi. now rewrite H2.
Qed.
Lemma addi_idem i l : addi i (addi i l) = addi i l.
Proof.
  unfold addi. destruct (memb i l) eqn:E; [now rewrite E|].
  replace (memb i (l ++ [i])) with true; [reflexivity|]. symmetry. apply memb_In, in_or_app. right. now left.
Qed.

Lemma edges_drop_spec i E ix : NoDup (map fst E) ->
  NoDup (map fst (edges_drop i E ix)) /\
  forall ix2, nget ix2 (edges_drop i E ix) = if Nat.eqb ix2 ix then dropi i (nget ix E) else nget ix2 E.
Proof.
  intros ND. unfold edges_drop. destruct (nget ix E) as [ns|] eqn:G.
  - fold (rm1 i ns). destruct (rm1 i ns) as [|x l] eqn:Er.
    + split; [now apply ndel_keys_nodup|]. intros ix2. destruct (Nat.eqb ix2 ix) eqn:E2.
      * apply Nat.eqb_eq in E2. subst. cbn. rewrite Er. now apply nget_ndel_same.
      * apply Nat.eqb_neq in E2. now apply nget_ndel_other.
    + split; [now apply nset_keys_nodup|]. intros ix2. destruct (Nat.eqb ix2 ix) eqn:E2.
      * apply Nat.eqb_eq in E2. subst. cbn. rewrite Er. apply nget_nset_same.
      * apply Nat.eqb_neq in E2. now apply nget_nset_other.
  - split; [assumption|]. intros ix2. destruct (Nat.eqb ix2 ix) eqn:E2; [|reflexivity].
    apply Nat.eqb_eq in E2. subst. now rewrite G.
Qed.

Lemma edges_drop_fold i : forall L E, NoDup (map fst E) ->
  NoDup (map fst (fold_left (edges_drop i) L E)) /\
  forall ix2, nget ix2 (fold_left (edges_drop i) L E) = if memb ix2 L then dropi i (nget ix2 E) else nget ix2 E.
Proof.
  induction L as [|ix L IH]; intros E ND; [split; [assumption|reflexivity]|]. cbn [fold_left].
  destruct (edges_drop_spec i E ix ND) as [ND1 S1]. destruct (IH _ ND1) as [ND2 S2].
  split; [assumption|]. intros ix2. rewrite S2, S1. unfold memb. cbn [existsb].
  destruct (Nat.eqb ix2 ix) eqn:E2; cbn [orb].
  - apply Nat.eqb_eq in E2. subst ix2. destruct (existsb (Nat.eqb ix) L); [apply dropi_idem|reflexivity].
  - reflexivity.
Qed.

Lemma edges_add_spec i E ix : NoDup (map fst E) ->
  NoDup (map fst (edges_add i E ix)) /\
  forall ix2, nget ix2 (edges_add i E ix) = if Nat.eqb ix2 ix then Some (addi i (oget E ix)) else nget ix2 E.
Proof.
  intros ND. unfold edges_add, oget, addi. destruct (nget ix E) as [ns|] eqn:G.
  - destruct (memb i ns) eqn:M.
    + split; [assumption|]. intros ix2. destruct (Nat.eqb ix2 ix) eqn:E2; [|reflexivity].
      apply Nat.eqb_eq in E2. subst. exact G.
    + split; [now apply nset_keys_nodup|]. intros ix2. destruct (Nat.eqb ix2 ix) eqn:E2.
      * apply Nat.eqb_eq in E2. subst. apply nget_nset_same.
      * apply Nat.eqb_neq in E2. now apply nget_nset_other.
  - cbn [memb existsb app]. split.
    + rewrite map_app. cbn. apply NoDup_app_intro; [assumption|repeat constructor; intros []|].
      intros x Hx [<-|[]]. now apply nget_none in G.
    + intros ix2. rewrite nget_app. cbn [nget]. destruct (Nat.eqb ix2 ix) eqn:E2.
      * apply Nat.eqb_eq in E2. subst. rewrite G. now rewrite Nat.eqb_refl.
      * rewrite (Nat.eqb_sym ix ix2), E2. now destruct (nget ix2 E).
Qed.

Lemma oget_add i E ix ix2 : NoDup (map fst E) ->
  oget (edges_add i E ix) ix2 = if Nat.eqb ix2 ix then addi i (oget E ix) else oget E ix2.
Proof.
  intros ND. unfold oget at 1. rewrite (proj2 (edges_add_spec i E ix ND)).
  destruct (Nat.eqb ix2 ix); reflexivity.
Qed.

Lemma edges_add_fold i : forall L E, NoDup (map fst E) ->
  NoDup (map fst (fold_left (edges_add i) L E)) /\
  forall ix2, nget ix2 (fold_left (edges_add i) L E) = if memb ix2 L then Some (addi i (oget E ix2)) else nget ix2 E.
Proof.
  induction L as [|ix L IH]; intros E ND; [split; [assumption|reflexivity]|]. cbn [fold_left].
  destruct (edges_add_spec i E ix ND) as [ND1 S1]. destruct (IH _ ND1) as [ND2 S2].
  split; [assumption|]. intros ix2. rewrite S2, S1, oget_add by assumption. unfold memb. cbn [existsb].
  destruct (Nat.eqb ix2 ix) eqn:E2; cbn [orb].
  - apply Nat.eqb_eq in E2. subst ix2. destruct (existsb (Nat.eqb ix) L); [now rewrite addi_idem|reflexivity].
  - reflexivity.
Qed.

(* ------------------------------------------------------------------ *)
(* the invariant                                                        *)
Definition EW (c : cproc) : Prop :=
  NoDup (map fst (cp_edges c)) /\
  forall ix ns, nget ix (cp_edges c) = Some ns ->
    NoDup ns /\ forall j, In j ns -> exists lg, nget j (cp_nodes c) = Some lg /\ In ix (map fst lg).
Definition Good (c : cproc) : Prop := cp_ok c = true /\ KInv c /\ EW c /\ keys c <> [].

Lemma rm1_in i l x : In x (rm1 i l) <-> In x l /\ x <> i.
Proof. unfold rm1. rewrite filter_In, negb_true_iff, Nat.eqb_neq. tauto. Qed.

Lemma edge_member_present c ix ns j : EW c -> nget ix (cp_edges c) = Some ns -> In j ns -> In j (keys c).
Proof.
  intros [_ H] G Hj. destruct (H ix ns G) as [_ Hm]. destruct (Hm j Hj) as (lg & Gj & _).
  eapply nget_in; exact Gj.
Qed.

(* pop_node of a present node *)
Lemma pop_node_good i c lg : Good c -> nget i (cp_nodes c) = Some lg ->
  let c1 := fst (pop_node i c) in
  cp_ok c1 = true /\ KInv c1 /\ EW c1 /\ snd (pop_node i c) = lg /\
  keys c1 = remove_all [i] (keys c) /\ cp_ssa c1 = cp_ssa c /\ cp_path c1 = cp_path c /\
  cp_nodes c1 = ndel i (cp_nodes c).
Proof.
  intros (O & K & [NE HE] & _) G. unfold pop_node. rewrite G. cbn [fst snd cp_ok cp_nodes cp_edges cp_ssa cp_path].
  assert (Hk : keys {| cp_nodes := ndel i (cp_nodes c); cp_edges := fold_left (edges_drop i) (map fst lg) (cp_edges c);
                       cp_app := cp_app c; cp_sizes := cp_sizes c; cp_ssa := cp_ssa c; cp_path := cp_path c; cp_ok := cp_ok c |}
               = remove_all [i] (keys c)) by (unfold keys; cbn [cp_nodes]; apply ndel_keys, K).
  split; [assumption|]. split.
  { unfold KInv. rewrite Hk. cbn [cp_ssa]. split; [apply NoDup_filter, K|].
    intros k Hin. apply remove_all_in in Hin as [Hin _]. now apply K. }
  split.
  { destruct (edges_drop_fold i (map fst lg) (cp_edges c) NE) as [ND2 S2]. split; [exact ND2|].
    cbn [cp_edges cp_nodes]. intros ix ns2 G2. rewrite S2 in G2.
    destruct (memb ix (map fst lg)) eqn:M.
    - destruct (nget ix (cp_edges c)) as [ns|] eqn:Gx; [|discriminate]. cbn [dropi] in G2.
      destruct (rm1 i ns) as [|x l] eqn:Er; [discriminate|]. injection G2 as <-. rewrite <- Er.
      destruct (HE ix ns Gx) as [NDn Hm]. split; [apply NoDup_filter, NDn|].
      intros j Hj. apply rm1_in in Hj as [Hj Hne]. destruct (Hm j Hj) as (lgj & Gj & Hix).
      exists lgj. split; [|assumption]. now rewrite nget_ndel_other.
    - destruct (HE ix ns2 G2) as [NDn Hm]. split; [assumption|].
      intros j Hj. destruct (Hm j Hj) as (lgj & Gj & Hix). exists lgj. split; [|assumption].
      rewrite nget_ndel_other; [assumption|]. intros ->. rewrite G in Gj. injection Gj as <-.
      apply memb_false in M. contradiction. }
  repeat split; try reflexivity. exact Hk.
Qed.

(* add_node *)
Lemma add_node_good lg c : cp_ok c = true -> KInv c -> EW c ->
  let c1 := fst (add_node lg c) in
  Good c1 /\ keys c1 = keys c ++ [cp_ssa c] /\ cp_ssa c1 = S (cp_ssa c) /\ cp_path c1 = cp_path c /\
  snd (add_node lg c) = cp_ssa c /\ cp_nodes c1 = cp_nodes c ++ [(cp_ssa c, lg)].
Proof.
  intros O K [NE HE]. unfold add_node. cbn [fst snd].
  set (i := cp_ssa c).
  assert (Hfresh : ~ In i (keys c)) by (intros Hc; apply K in Hc; unfold i in Hc; lia).
  assert (Hk : keys {| cp_nodes := cp_nodes c ++ [(i, lg)]; cp_edges := fold_left (edges_add i) (map fst lg) (cp_edges c);
                       cp_app := cp_app c; cp_sizes := cp_sizes c; cp_ssa := S i; cp_path := cp_path c; cp_ok := cp_ok c |}
               = keys c ++ [i]) by (unfold keys; cbn [cp_nodes]; now rewrite map_app).
  split; [|repeat split; try reflexivity; exact Hk].
  split; [exact O|]. split.
  { unfold KInv. rewrite Hk. cbn [cp_ssa]. split.
    - apply NoDup_app_intro; [apply K|repeat constructor; intros []|]. intros x Hx [<-|[]]. contradiction.
    - intros k Hin. apply in_app_or in Hin as [Hin|[<-|[]]]; [apply K in Hin; unfold i; lia|lia]. }
  split.
  { destruct (edges_add_fold i (map fst lg) (cp_edges c) NE) as [ND2 S2]. split; [exact ND2|].
    cbn [cp_edges cp_nodes]. intros ix ns2 G2. rewrite S2 in G2.
    assert (Hold : forall ns j, nget ix (cp_edges c) = Some ns -> In j ns ->
                   exists lgj, nget j (cp_nodes c ++ [(i, lg)]) = Some lgj /\ In ix (map fst lgj)).
    { intros ns j Gx Hj. destruct (HE ix ns Gx) as [_ Hm]. destruct (Hm j Hj) as (lgj & Gj & Hix).
      exists lgj. split; [|assumption]. now rewrite nget_app, Gj. }
    destruct (memb ix (map fst lg)) eqn:M.
    - injection G2 as <-. unfold oget, addi. destruct (nget ix (cp_edges c)) as [ns|] eqn:Gx.
      + assert (Hni : ~ In i ns).
        { intros Hc. apply Hfresh. eapply edge_member_present; [split; eassumption|exact Gx|exact Hc]. }
        replace (memb i ns) with false by (symmetry; now apply memb_false).
        destruct (HE ix ns Gx) as [NDn _]. split.
        * apply NoDup_app_intro; [assumption|repeat constructor; intros []|]. intros x Hx [<-|[]]. contradiction.
        * intros j Hj. apply in_app_or in Hj as [Hj|[<-|[]]]; [eapply Hold; eauto|].
          exists lg. split; [|now apply memb_In].
          rewrite nget_app. replace (nget i (cp_nodes c)) with (@None clegs).
          -- cbn. now rewrite Nat.eqb_refl.
          -- symmetry. destruct (nget i (cp_nodes c)) eqn:Gi; [|reflexivity]. exfalso. apply Hfresh. eapply nget_in; exact Gi.
      + cbn. split; [repeat constructor; intros []|]. intros j [<-|[]].
        exists lg. split; [|now apply memb_In].
        rewrite nget_app. replace (nget i (cp_nodes c)) with (@None clegs).
        * cbn. now rewrite Nat.eqb_refl.
        * symmetry. destruct (nget i (cp_nodes c)) eqn:Gi; [|reflexivity]. exfalso. apply Hfresh. eapply nget_in; exact Gi.
    - destruct (HE ix ns2 G2) as [NDn _]. split; [assumption|]. intros j Hj. eapply Hold; eauto. }
  rewrite Hk. intros Hc. apply app_eq_nil in Hc as [_ Hc]. discriminate.
Qed.

Lemma push_path_good s c : Good c -> Good (push_path s c).
Proof. intros H. exact H. Qed.

(* contract_nodes on two distinct present nodes *)
Lemma contract_nodes_good i j nl c : Good c -> In i (keys c) -> In j (keys c) -> i <> j ->
  let c' := fst (contract_nodes i j nl c) in
  Good c' /\ keys c' = remove_all [i; j] (keys c) ++ [cp_ssa c] /\ cp_ssa c' = S (cp_ssa c) /\
  snd (contract_nodes i j nl c) = cp_ssa c /\
  (forall lg0 x, x <> i -> x <> j -> nget x (cp_nodes c) = Some lg0 -> nget x (cp_nodes c') = Some lg0) /\
  (exists lgk, nget (cp_ssa c) (cp_nodes c') = Some lgk).
Proof.
  intros G Hi Hj Hij. unfold contract_nodes.
  destruct (nget i (cp_nodes c)) as [li|] eqn:Gi; [|exfalso; now apply nget_none in Gi].
  pose proof (pop_node_good i c li G Gi) as P1.
  destruct (pop_node i c) as [c1 il] eqn:E1. cbn [fst snd] in P1.
  destruct P1 as (O1 & K1 & W1 & -> & Hk1 & Hs1 & Hp1 & Hn1).
  assert (Hj1 : In j (keys c1)) by (rewrite Hk1; apply remove_all_in; split; [assumption|intros [->|[]]; congruence]).
  destruct (nget j (cp_nodes c1)) as [lj|] eqn:Gj; [|exfalso; now apply nget_none in Gj].
  assert (G1 : Good c1).
  { split; [exact O1|]. split; [exact K1|]. split; [exact W1|]. intros Hc. rewrite Hc in Hj1. destruct Hj1. }
  pose proof (pop_node_good j c1 lj G1 Gj) as P2.
  destruct (pop_node j c1) as [c2 jl] eqn:E2. cbn [fst snd] in P2.
  destruct P2 as (O2 & K2 & W2 & -> & Hk2 & Hs2 & Hp2 & Hn2).
  set (nl' := match nl with Some l => l | None => compute_contracted (app_of c) li lj end).
  pose proof (add_node_good nl' c2 O2 K2 W2) as P3.
  destruct (add_node nl' c2) as [c3 k] eqn:E3. cbn [fst snd] in P3.
  destruct P3 as (G3 & Hk3 & Hs3 & Hp3 & -> & Hn3). cbn [fst snd].
  assert (Hkeys : keys (push_path [i; j] c3) = remove_all [i; j] (keys c) ++ [cp_ssa c]).
  { change (keys (push_path [i; j] c3)) with (keys c3). rewrite Hk3, Hk2, Hk1, Hs2, Hs1. f_equal.
    rewrite (remove_all_single i). apply remove_all_cons. }
  split; [apply push_path_good, G3|]. split; [exact Hkeys|]. split; [cbn; congruence|]. split; [congruence|]. split.
  - intros lg0 x Hxi Hxj Gx. cbn [push_path cp_nodes]. rewrite Hn3, nget_app, Hn2, nget_ndel_other, Hn1, nget_ndel_other, Gx by congruence.
    reflexivity.
  - exists nl'. cbn [push_path cp_nodes]. rewrite Hn3, nget_app.
    replace (nget (cp_ssa c) (cp_nodes c2)) with (@None clegs).
    + rewrite Hs2, Hs1. cbn. now rewrite Nat.eqb_refl.
    + symmetry. destruct (nget (cp_ssa c) (cp_nodes c2)) eqn:Gs; [|reflexivity]. exfalso.
      apply nget_in in Gs. fold (keys c2) in Gs. apply K2 in Gs. lia.
Qed.

(* the single-term step *)
Lemma single_good i f c : Good c -> In i (keys c) ->
  let c' := (let '(c1, lg1) := pop_node i c in let '(c2, _) := add_node (f lg1) c1 in push_path [i] c2) in
  Good c' /\ keys c' = remove_all [i] (keys c) ++ [cp_ssa c] /\ cp_ssa c' = S (cp_ssa c).
Proof.
  intros G Hi.
  destruct (nget i (cp_nodes c)) as [li|] eqn:Gi; [|exfalso; now apply nget_none in Gi].
  pose proof (pop_node_good i c li G Gi) as P1.
  destruct (pop_node i c) as [c1 il] eqn:E1. cbn [fst snd] in P1.
  destruct P1 as (O1 & K1 & W1 & -> & Hk1 & Hs1 & Hp1 & Hn1).
  pose proof (add_node_good (f li) c1 O1 K1 W1) as P3.
  destruct (add_node (f li) c1) as [c2 k] eqn:E3. cbn [fst snd] in P3.
  destruct P3 as (G3 & Hk3 & Hs3 & Hp3 & _ & Hn3).
  split; [exact G3|]. split; [|cbn; congruence].
  change (keys (push_path [i] c2)) with (keys c2). now rewrite Hk3, Hk1, Hs1.
Qed.

(* ------------------------------------------------------------------ *)
(* remove_ix / simplify_batch                                           *)
Definition keeps (ix : nat) (lg lg' : clegs) : Prop := forall ix2, ix2 <> ix -> In ix2 (map fst lg) -> In ix2 (map fst lg').
Definition upd_node (ix : nat) (nd : list (nat * clegs)) (node : nat) : list (nat * clegs) :=
  match nget node nd with
  | Some lg => nset_ node (filter (fun kv => negb (Nat.eqb (fst kv) ix)) lg) nd
  | None => nd
  end.

Lemma filter_keeps ix lg : keeps ix lg (filter (fun kv => negb (Nat.eqb (fst kv) ix)) lg).
Proof.
  intros ix2 Hne Hin. apply in_map_iff in Hin as ([a b] & <- & Hp). apply in_map_iff. exists (a, b). split; [reflexivity|].
  apply filter_In. split; [assumption|]. cbn. apply negb_true_iff, Nat.eqb_neq. exact Hne.
Qed.

Lemma upd_fold_spec ix : forall ns nd,
  map fst (fold_left (upd_node ix) ns nd) = map fst nd /\
  forall j lg, nget j nd = Some lg -> exists lg', nget j (fold_left (upd_node ix) ns nd) = Some lg' /\ keeps ix lg lg'.
Proof.
  induction ns as [|node ns IH]; intros nd; cbn [fold_left].
  - split; [reflexivity|]. intros j lg G. exists lg. split; [assumption|]. intros ? ? H. exact H.
  - destruct (IH (upd_node ix nd node)) as [Hk Hs]. split.
    + rewrite Hk. unfold upd_node. apply (upd_keys (filter (fun kv : nat * nat => negb (Nat.eqb (fst kv) ix)))).
    + intros j lg G.
      assert (H1 : exists lg1, nget j (upd_node ix nd node) = Some lg1 /\ keeps ix lg lg1).
      { unfold upd_node. destruct (nget node nd) as [lgn|] eqn:Gn; [|exists lg; split; [assumption|intros ? ? H; exact H]].
        destruct (Nat.eq_dec j node) as [->|Hne].
        - rewrite G in Gn. injection Gn as <-. eexists. split; [apply nget_nset_same|apply filter_keeps].
        - exists lg. split; [now rewrite nget_nset_other|intros ? ? H; exact H]. }
      destruct H1 as (lg1 & G1 & K1). destruct (Hs j lg1 G1) as (lg' & G' & K').
      exists lg'. split; [assumption|]. intros ix2 Hne Hin. apply K', K1; assumption.
Qed.

Lemma remove_ix_good ix c ns : Good c -> nget ix (cp_edges c) = Some ns ->
  Good (remove_ix ix c) /\ keys (remove_ix ix c) = keys c /\ cp_ssa (remove_ix ix c) = cp_ssa c /\
  cp_edges (remove_ix ix c) = ndel ix (cp_edges c).
Proof.
  intros (O & K & [NE HE] & Hne) G. unfold remove_ix. rewrite G.
  destruct (upd_fold_spec ix ns (cp_nodes c)) as [Hk Hs].
  match goal with |- Good ?x /\ _ => set (c' := x) end.
  assert (Hkeys : keys c' = keys c) by exact Hk.
  assert (Hssa : cp_ssa c' = cp_ssa c) by reflexivity.
  assert (Hedges : cp_edges c' = ndel ix (cp_edges c)) by reflexivity.
  assert (Hnodes : cp_nodes c' = fold_left (upd_node ix) ns (cp_nodes c)) by reflexivity.
  assert (Hok : cp_ok c' = true).
  { unfold c'. cbn [cp_ok]. rewrite O. cbn. apply forallb_forall. intros node Hn.
    destruct (HE ix ns G) as [_ Hm]. destruct (Hm node Hn) as (lg & Gn & _). now rewrite Gn. }
  clearbody c'.
  split; [|repeat split; assumption].
  split; [exact Hok|]. split; [unfold KInv; rewrite Hkeys, Hssa; exact K|]. split; [|rewrite Hkeys; exact Hne].
  split; [rewrite Hedges; now apply ndel_keys_nodup|].
  rewrite Hedges, Hnodes. intros ix2 ns2 G2.
  assert (Hix : ix2 <> ix) by (intros ->; rewrite nget_ndel_same in G2 by assumption; discriminate).
  rewrite nget_ndel_other in G2 by assumption. destruct (HE ix2 ns2 G2) as [NDn Hm]. split; [assumption|].
  intros j Hj. destruct (Hm j Hj) as (lg & Gj & Hin). destruct (Hs j lg Gj) as (lg' & G' & Kp).
  exists lg'. split; [assumption|]. now apply Kp.
Qed.

Lemma batch_fold_good : forall rm c, Good c -> NoDup rm -> (forall ix, In ix rm -> nget ix (cp_edges c) <> None) ->
  Good (fold_left (fun c' ix => remove_ix ix c') rm c).
Proof.
  induction rm as [|ix rm IH]; intros c G ND Hin; cbn [fold_left]; [assumption|].
  inversion ND as [|? ? Hx ND']; subst.
  destruct (nget ix (cp_edges c)) as [ns|] eqn:Gx; [|exfalso; apply (Hin ix); [now left|assumption]].
  destruct (remove_ix_good ix c ns G Gx) as (G1 & _ & _ & He). apply IH; [assumption|assumption|].
  intros ix2 H2. rewrite He, nget_ndel_other; [apply Hin; now right|]. intros ->. contradiction.
Qed.

Lemma NoDup_map_fst_filter {V} (f : nat * V -> bool) d : NoDup (map fst d) -> NoDup (map fst (filter f d)).
Proof.
  induction d as [|[a v] d IH]; intros ND; [constructor|]. inversion ND as [|? ? Ha ND']; subst. cbn [filter].
  destruct (f (a, v)); [|now apply IH]. cbn [map fst]. constructor; [|now apply IH].
  intros Hc. apply Ha. apply in_map_iff in Hc as (p & Hp & Hin). apply filter_In in Hin as [Hin _].
  apply in_map_iff. exists p. auto.
Qed.

Lemma simplify_batch_good c : Good c -> Good (simplify_batch c).
Proof.
  intros G. unfold simplify_batch. apply batch_fold_good; [assumption| |].
  - apply NoDup_map_fst_filter. apply G.
  - intros ix Hin. apply in_map_iff in Hin as ([a ns] & <- & Hp). apply filter_In in Hp as [Hp _].
    cbn [fst]. rewrite (in_nget a ns (cp_edges c)); [discriminate|apply G|assumption].
Qed.

(* ------------------------------------------------------------------ *)
(* simplify_single_terms                                                *)
Lemma single_terms_fold_good app0 : forall R c, Good c -> NoDup (map fst R) -> (forall i, In i (map fst R) -> In i (keys c)) ->
  Good (fold_left (fun c' (il : nat * clegs) =>
                     let '(i, lg) := il in
                     if is_simplifiable app0 lg then
                       let '(c1, lg1) := pop_node i c' in
                       let '(c2, _) := add_node (compute_simplified app0 lg1) c1 in push_path [i] c2
                     else c') R c).
Proof.
  induction R as [|[i lg] R IH]; intros c G ND Hin; cbn [fold_left]; [assumption|].
  cbn [map fst] in ND, Hin. inversion ND as [|? ? Hi ND']; subst.
  destruct (is_simplifiable app0 lg).
  - destruct (single_good i (compute_simplified app0) c G (Hin i (or_introl eq_refl))) as (G1 & Hk & _).
    apply IH; [exact G1|assumption|]. intros x Hx. rewrite Hk. apply in_or_app. left.
    apply remove_all_in. split; [apply Hin; now right|]. intros [->|[]]. contradiction.
  - apply IH; [assumption|assumption|]. intros x Hx. apply Hin. now right.
Qed.

Lemma simplify_single_terms_good c : Good c -> Good (simplify_single_terms c).
Proof.
  intros G. unfold simplify_single_terms. apply single_terms_fold_good; [assumption|apply G|]. intros i Hi. exact Hi.
Qed.

(* ------------------------------------------------------------------ *)
(* simplify_scalars                                                     *)
Lemma NoDup_app_r {B} (a b : list B) : NoDup (a ++ b) -> NoDup b.
Proof. induction a as [|x a IH]; cbn; intros H; [assumption|]. inversion H; subst. auto. Qed.
Lemma NoDup_drop_mid {B} (a b c : list B) : NoDup (a ++ b ++ c) -> NoDup (a ++ c).
Proof.
  intros H. assert (P : Permutation (a ++ b ++ c) (b ++ a ++ c)).
  { rewrite !app_assoc. apply Permutation_app_tail, Permutation_app_comm. }
  eapply Permutation_NoDup in H; [|exact P]. now apply NoDup_app_r in H.
Qed.

Lemma NoDup_app_l {B} (a b : list B) : NoDup (a ++ b) -> NoDup a.
Proof.
  induction a as [|x a IH]; cbn; intros H; [constructor|]. inversion H as [|? ? Hx Hn]; subst. constructor; [|auto].
  intros Hc. apply Hx. apply in_or_app. now left.
Qed.
Lemma NoDup_app_disjoint {B} (a b : list B) : NoDup (a ++ b) -> forall x, In x a -> In x b -> False.
Proof.
  induction a as [|y a IH]; cbn; intros H x Ha Hb; [destruct Ha|]. inversion H as [|? ? Hy Hn]; subst.
  destruct Ha as [->|Ha]; [apply Hy, in_or_app; now right|eauto].
Qed.

Definition jid (j : option (nat * nat)) : list nat := match j with Some (x, _) => [x] | None => [] end.

Lemma scalars_scan_spec : forall nodes sc j,
  NoDup (sc ++ jid j ++ map fst nodes) ->
  let r := scalars_scan nodes sc j in
  NoDup (fst r ++ jid (snd r)) /\ incl (fst r ++ jid (snd r)) (sc ++ jid j ++ map fst nodes) /\
  (sc <> [] -> fst r <> []).
Proof.
  induction nodes as [|[i lg] nodes IH]; intros sc j ND; cbn [scalars_scan].
  - cbn [map app] in *. rewrite app_nil_r in ND. cbn [fst snd]. split; [assumption|]. split; [|auto].
    rewrite app_nil_r. apply incl_refl.
  - cbn [map fst] in ND.
    assert (P1 : Permutation (sc ++ jid j ++ i :: map fst nodes) ((sc ++ [i]) ++ jid j ++ map fst nodes)).
    { rewrite <- app_assoc. apply Permutation_app_head. cbn [app]. apply Permutation_sym, Permutation_middle. }
    destruct (Nat.eqb (length lg) 0).
    + destruct (IH (sc ++ [i]) j) as (A & B & C); [eapply Permutation_NoDup; [exact P1|exact ND]|].
      split; [exact A|]. split.
      * intros x Hx. eapply Permutation_in; [apply Permutation_sym; exact P1|]. now apply B.
      * intros _. apply C. intros Hc. apply app_eq_nil in Hc as [_ Hc]. discriminate.
    + assert (Hsub : forall v, NoDup (sc ++ jid (Some (i, v)) ++ map fst nodes)).
      { intros v. cbn [jid app]. now apply NoDup_drop_mid in ND. }
      assert (Hincl : forall v, incl (sc ++ jid (Some (i, v)) ++ map fst nodes) (sc ++ jid j ++ i :: map fst nodes)).
      { intros v x Hx. cbn [jid app] in Hx. apply in_or_app. apply in_app_or in Hx as [Hx|Hx]; [now left|].
        right. apply in_or_app. now right. }
      assert (Hskip : NoDup (sc ++ jid j ++ map fst nodes) /\ incl (sc ++ jid j ++ map fst nodes) (sc ++ jid j ++ i :: map fst nodes)).
      { split.
        - rewrite app_assoc in *. eapply NoDup_remove_1; exact ND.
        - intros x Hx. rewrite app_assoc in *. apply in_app_or in Hx as [Hx|Hx]; apply in_or_app; [now left|right; now right]. }
      destruct j as [[jn jl]|].
      * destruct (Nat.ltb (length lg) jl).
        -- destruct (IH sc (Some (i, length lg)) (Hsub _)) as (A & B & C). split; [exact A|]. split; [|exact C].
           intros x Hx. apply (Hincl (length lg)). now apply B.
        -- destruct Hskip as [S1 S2]. destruct (IH sc (Some (jn, jl)) S1) as (A & B & C). split; [exact A|]. split; [|exact C].
           intros x Hx. apply S2. now apply B.
      * destruct (IH sc (Some (i, length lg)) (Hsub _)) as (A & B & C). split; [exact A|]. split; [|exact C].
        intros x Hx. apply (Hincl (length lg)). now apply B.
Qed.

Lemma contract_fold_good : forall rest c a, Good c -> In a (keys c) -> NoDup rest -> ~ In a rest ->
  (forall x, In x rest -> In x (keys c)) ->
  Good (fst (fold_left (fun st s => let '(c', acc) := st in contract_nodes acc s None c') rest (c, a))).
Proof.
  induction rest as [|s rest IH]; intros c a G Ha ND Hna Hin; cbn [fold_left]; [exact G|].
  inversion ND as [|? ? Hs ND']; subst.
  assert (Has : a <> s) by (intros ->; apply Hna; now left).
  destruct (contract_nodes_good a s None c G Ha (Hin s (or_introl eq_refl)) Has) as (G1 & Hk & Hs1 & Hr & _).
  destruct (contract_nodes a s None c) as [c1 k] eqn:E. cbn [fst snd] in *. subst k.
  apply IH; [exact G1| |assumption| |].
  - rewrite Hk. apply in_or_app. right. now left.
  - intros Hc. assert (In (cp_ssa c) (keys c)) by (apply Hin; now right). apply G in H. lia.
  - intros x Hx. rewrite Hk. apply in_or_app. left. apply remove_all_in. split; [apply Hin; now right|].
    intros [->|[->|[]]]; [apply Hna; now right|contradiction].
Qed.

Lemma simplify_scalars_good c : Good c -> Good (simplify_scalars c).
Proof.
  intros G. unfold simplify_scalars.
  pose proof (scalars_scan_spec (cp_nodes c) [] None) as S. cbn [app jid] in S. specialize (S (proj1 (proj1 (proj2 G)))).
  destruct (scalars_scan (cp_nodes c) [] None) as [sc j]. cbn [fst snd] in S. destruct S as (ND & Hincl & _).
  destruct sc as [|s0 sc']; [exact G|].
  assert (Hall : (match j with Some (jn, _) => (s0 :: sc') ++ [jn] | None => s0 :: sc' end) = (s0 :: sc') ++ jid j).
  { destruct j as [[jn jl]|]; [reflexivity|]. cbn [jid]. now rewrite app_nil_r. }
  rewrite Hall. destruct ((s0 :: sc') ++ jid j) as [|a rest] eqn:Eall; [exact G|].
  inversion ND as [|? ? Ha ND']; subst.
  apply contract_fold_good; [exact G| |assumption|assumption|].
  - apply Hincl. now left.
  - intros x Hx. apply Hincl. now right.
Qed.

(* ------------------------------------------------------------------ *)
(* simplify_hadamard                                                    *)
Lemma list_eqb_nat_eq : forall a b : list nat, list_eqb Nat.eqb a b = true -> a = b.
Proof.
  induction a as [|x a IH]; intros [|y b] H; cbn in H; try discriminate; [reflexivity|].
  apply andb_prop in H as [H1 H2]. apply Nat.eqb_eq in H1. f_equal; auto.
Qed.

Lemma hadamard_group_good : forall fuel grp c, Good c -> NoDup grp -> (forall x, In x grp -> In x (keys c)) ->
  Good (hadamard_group fuel grp c) /\
  forall x, In x (keys c) -> ~ In x grp -> In x (keys (hadamard_group fuel grp c)).
Proof.
  induction fuel as [|f IH]; intros grp c G ND Hin; cbn [hadamard_group]; [split; [assumption|auto]|].
  destruct (rev grp) as [|i [|j rest]] eqn:Er; [split; [assumption|auto]|split; [assumption|auto]|].
  assert (Eg : grp = rev rest ++ [j; i]).
  { rewrite <- (rev_involutive grp), Er. cbn. now rewrite <- app_assoc. }
  assert (NDr : NoDup (rev rest ++ [j; i])) by now rewrite <- Eg.
  assert (Hi : In i (keys c)) by (apply Hin; rewrite Eg; apply in_or_app; right; right; now left).
  assert (Hj : In j (keys c)) by (apply Hin; rewrite Eg; apply in_or_app; right; now left).
  assert (Hij : i <> j).
  { apply NoDup_app_r in NDr. inversion NDr as [|? ? Hn _]; subst. intros ->. apply Hn. now left. }
  destruct (contract_nodes_good i j None c G Hi Hj Hij) as (G1 & Hk & Hs1 & Hr & _).
  destruct (contract_nodes i j None c) as [c1 k] eqn:E. cbn [fst snd] in *. subst k.
  assert (Hrest : forall x, In x (rev rest) -> In x (keys c) /\ x <> i /\ x <> j).
  { intros x Hx. split; [apply Hin; rewrite Eg; apply in_or_app; now left|].
    split; intros ->; eapply (NoDup_app_disjoint (rev rest) [j; i]); try exact NDr; try exact Hx; cbn; auto. }
  destruct (IH (rev rest ++ [cp_ssa c]) c1 G1) as (G2 & Hp).
  - apply NoDup_app_intro; [now apply NoDup_app_l in NDr|repeat constructor; intros []|].
    intros x Hx [<-|[]]. apply Hrest in Hx as [Hx _]. apply G in Hx. lia.
  - intros x Hx. rewrite Hk. apply in_app_or in Hx as [Hx|[<-|[]]]; apply in_or_app; [left|right; now left].
    destruct (Hrest x Hx) as (H1 & H2 & H3). apply remove_all_in. split; [assumption|]. intros [->|[->|[]]]; congruence.
  - split; [exact G2|]. intros x Hx Hng. apply Hp.
    + rewrite Hk. apply in_or_app. left. apply remove_all_in. split; [assumption|].
      intros [->|[->|[]]]; apply Hng; rewrite Eg; apply in_or_app; right; cbn; auto.
    + intros Hc. apply in_app_or in Hc as [Hc|[<-|[]]].
      * apply Hng. rewrite Eg. apply in_or_app. now left.
      * apply G in Hx. lia.
Qed.

Definition hgrp (nodes0 : list (nat * clegs)) (key : list nat) : list nat :=
  map fst (filter (fun il => list_eqb Nat.eqb (keyset (snd il)) key) nodes0).

Lemma hgrp_in nodes0 key x : In x (hgrp nodes0 key) -> exists lg, In (x, lg) nodes0 /\ keyset lg = key.
Proof.
  unfold hgrp. intros H. apply in_map_iff in H as ([a lg] & <- & Hp). apply filter_In in Hp as [Hp He].
  exists lg. split; [assumption|]. now apply list_eqb_nat_eq.
Qed.

Lemma hadamard_fold_good nodes0 : NoDup (map fst nodes0) -> forall order c, Good c -> NoDup order ->
  (forall key x, In key order -> In x (hgrp nodes0 key) -> In x (keys c)) ->
  Good (fold_left (fun c' key =>
                     let grp := map fst (filter (fun il => list_eqb Nat.eqb (keyset (snd il)) key) nodes0) in
                     if Nat.ltb 1 (length grp) then hadamard_group (length grp) grp c' else c') order c).
Proof.
  intros ND0. induction order as [|K order IH]; intros c G ND Hin; cbn [fold_left]; [assumption|].
  inversion ND as [|? ? HK ND']; subst. fold (hgrp nodes0 K).
  destruct (Nat.ltb 1 (length (hgrp nodes0 K))).
  - destruct (hadamard_group_good (length (hgrp nodes0 K)) (hgrp nodes0 K) c G) as (G2 & Hp).
    + unfold hgrp. now apply NoDup_map_fst_filter.
    + intros x Hx. apply (Hin K x); [now left|assumption].
    + apply IH; [exact G2|assumption|]. intros key x Hkey Hx. apply Hp; [apply (Hin key x); [now right|assumption]|].
      intros Hc. apply hgrp_in in Hx as (lg1 & H1 & E1). apply hgrp_in in Hc as (lg2 & H2 & E2).
      apply (in_nget _ _ _ ND0) in H1. apply (in_nget _ _ _ ND0) in H2. rewrite H1 in H2. injection H2 as ->.
      apply HK. congruence.
  - apply IH; [assumption|assumption|]. intros key x Hkey Hx. apply (Hin key x); [now right|assumption].
Qed.

Lemma simplify_hadamard_good order c : Good c -> NoDup order -> Good (simplify_hadamard order c).
Proof.
  intros G ND. unfold simplify_hadamard. apply hadamard_fold_good; [apply G|assumption|assumption|].
  intros key x _ Hx. apply hgrp_in in Hx as (lg & H & _). unfold keys. apply in_map_iff. exists (x, lg). auto.
Qed.

Lemma simplify_loop_good : forall orders c, Good c -> Forall (fun o => NoDup o) orders -> Good (simplify_loop orders c).
Proof.
  induction orders as [|o orders IH]; intros c G F; cbn [simplify_loop].
  - now apply simplify_scalars_good, simplify_single_terms_good.
  - inversion F as [|? ? Ho F']; subst.
    assert (G1 : Good (simplify_scalars (simplify_single_terms c))) by now apply simplify_scalars_good, simplify_single_terms_good.
    assert (G2 : Good (simplify_hadamard o (simplify_scalars (simplify_single_terms c)))) by now apply simplify_hadamard_good.
    destruct (Nat.eqb _ _); [exact G2|now apply IH].
Qed.

Lemma cp_simplify_good orders c : Good c -> Forall (fun o => NoDup o) orders -> Good (cp_simplify orders c).
Proof. intros G F. unfold cp_simplify. apply simplify_loop_good; [now apply simplify_batch_good|assumption]. Qed.

(* ------------------------------------------------------------------ *)
(* optimize_remaining_by_size                                           *)
Lemma heap_min_in : forall l x, In (heap_min x l) (x :: l).
Proof.
  induction l as [|y l IH]; intros x; cbn [heap_min]; [now left|].
  destruct (IH (if zn_lt y x then y else x)) as [H|H]; [|right; now right].
  rewrite <- H. destruct (zn_lt y x); [right; now left|now left].
Qed.

Lemma heap_remove_perm a : forall h, In a h -> Permutation (a :: heap_remove a h) h.
Proof.
  induction h as [|y h IH]; intros Hin; [destruct Hin|]. cbn [heap_remove].
  destruct ((fst y =? fst a)%Z && Nat.eqb (snd y) (snd a)) eqn:E.
  - apply andb_prop in E as [E1 E2]. apply Z.eqb_eq in E1. apply Nat.eqb_eq in E2.
    assert (y = a) by (destruct y, a; cbn in *; congruence). subst. apply Permutation_refl.
  - destruct Hin as [->|Hin].
    + rewrite Z.eqb_refl, Nat.eqb_refl in E. discriminate.
    + eapply perm_trans; [apply perm_swap|]. apply perm_skip. now apply IH.
Qed.

Lemma filter_perm {B} (f : B -> bool) l l' : Permutation l l' -> Permutation (filter f l) (filter f l').
Proof.
  induction 1; cbn; try constructor.
  - destruct (f x); [now apply perm_skip|assumption].
  - destruct (f x), (f y); try apply Permutation_refl. apply perm_swap.
  - eapply perm_trans; eassumption.
Qed.

Lemma remove_two_perm i j l m : NoDup l -> Permutation l (i :: j :: m) -> Permutation (remove_all [i; j] l) m.
Proof.
  intros ND P. unfold remove_all. eapply perm_trans; [apply filter_perm; exact P|].
  assert (ND2 : NoDup (i :: j :: m)) by (eapply Permutation_NoDup; eassumption).
  inversion ND2 as [|? ? Hi ND3]; subst. inversion ND3 as [|? ? Hj ND4]; subst.
  cbn [filter].
  replace (memb i [i; j]) with true by (symmetry; apply memb_In; now left).
  replace (memb j [i; j]) with true by (symmetry; apply memb_In; right; now left). cbn [negb].
  rewrite filter_all_true; [apply Permutation_refl|].
  intros x Hx. apply negb_true_iff, memb_false. intros [->|[->|[]]]; [apply Hi; now right|contradiction].
Qed.

Lemma remaining_loop_good : forall fuel h c, Good c -> Permutation (map snd h) (keys c) ->
  1 <= length h -> length h <= S fuel ->
  Good (remaining_loop fuel h c) /\ length (cp_nodes (remaining_loop fuel h c)) = 1.
Proof.
  induction fuel as [|f IH]; intros h c G P L1 L2.
  - cbn [remaining_loop]. split; [assumption|]. apply Permutation_length in P. rewrite map_length in P.
    unfold keys in P. rewrite map_length in P. lia.
  - cbn [remaining_loop]. destruct h as [|x0 [|x1 rest]].
    + cbn in L1. lia.
    + split; [assumption|]. apply Permutation_length in P. unfold keys in P. rewrite !map_length in P. cbn in P. lia.
    + set (h := x0 :: x1 :: rest) in *.
      set (a := heap_min x0 (x1 :: rest)).
      assert (Ha : In a h) by apply heap_min_in.
      pose proof (heap_remove_perm a h Ha) as Pa.
      destruct (heap_remove a h) as [|y0 rest1] eqn:Eh1.
      { apply Permutation_length in Pa. cbn in Pa. lia. }
      set (b := heap_min y0 rest1).
      assert (Hb : In b (y0 :: rest1)) by apply heap_min_in.
      pose proof (heap_remove_perm b (y0 :: rest1) Hb) as Pb.
      set (h2 := heap_remove b (y0 :: rest1)) in *.
      assert (Pk : Permutation (keys c) (snd a :: snd b :: map snd h2)).
      { eapply perm_trans; [apply Permutation_sym; exact P|].
        eapply perm_trans; [apply Permutation_map, Permutation_sym; exact Pa|]. cbn [map]. apply perm_skip.
        apply (Permutation_map snd) in Pb. cbn [map] in Pb. now apply Permutation_sym. }
      assert (NDk : NoDup (snd a :: snd b :: map snd h2)) by (eapply Permutation_NoDup; [exact Pk|apply G]).
      assert (Hia : In (snd a) (keys c)) by (eapply Permutation_in; [apply Permutation_sym; exact Pk|now left]).
      assert (Hib : In (snd b) (keys c)) by (eapply Permutation_in; [apply Permutation_sym; exact Pk|right; now left]).
      assert (Hab : snd a <> snd b) by (inversion NDk as [|? ? Hn _]; subst; intros Hc; apply Hn; rewrite Hc; now left).
      destruct (contract_nodes_good (snd a) (snd b) None c G Hia Hib Hab) as (G1 & Hk & Hs1 & Hr & _ & (lgk & Gk)).
      destruct (contract_nodes (snd a) (snd b) None c) as [c1 k] eqn:E. cbn [fst snd] in G1, Hk, Hs1, Hr, Gk. subst k.
      apply IH; [exact G1| | |].
      * cbn [map snd]. rewrite Hk. eapply perm_trans; [|apply Permutation_app_comm]. cbn [app]. apply perm_skip.
        apply Permutation_sym, remove_two_perm; [apply G|exact Pk].
      * cbn. lia.
      * apply Permutation_length in Pa, Pb. cbn [length] in *. fold h2 in Pb. lia.
Qed.

Lemma cp_remaining_good c : Good c -> Good (cp_remaining c) /\ length (cp_nodes (cp_remaining c)) = 1.
Proof.
  intros G. unfold cp_remaining. destruct (cp_nodes c) as [|[i li] [|[j lj] [|n3 rest]]] eqn:En.
  - exfalso. destruct G as (_ & _ & _ & Hne). apply Hne. unfold keys. now rewrite En.
  - split; [assumption|]. now rewrite En.
  - assert (Hk0 : keys c = [i; j]) by (unfold keys; now rewrite En).
    assert (Hij : i <> j).
    { destruct G as (_ & [ND _] & _). rewrite Hk0 in ND. inversion ND as [|? ? Hn _]; subst. intros ->. apply Hn. now left. }
    destruct (contract_nodes_good i j None c G) as (G1 & Hk & _); [rewrite Hk0; now left|rewrite Hk0; right; now left|assumption|].
    split; [exact G1|].
    assert (HL : length (keys (fst (contract_nodes i j None c))) = 1).
    { rewrite Hk, Hk0. unfold remove_all. cbn [filter].
      replace (memb i [i; j]) with true by (symmetry; apply memb_In; now left).
      replace (memb j [i; j]) with true by (symmetry; apply memb_In; right; now left). reflexivity. }
    unfold keys in HL. now rewrite map_length in HL.
  - rewrite <- En. apply remaining_loop_good; [assumption| | |].
    + rewrite map_map. cbn [snd]. apply Permutation_refl.
    + rewrite map_length, En. cbn. lia.
    + rewrite map_length. lia.
Qed.

(* ------------------------------------------------------------------ *)
(* optimize_greedy                                                      *)
Definition GInv (st : gstate) : Prop :=
  Good (gs_c st) /\
  (forall i, In i (keys (gs_c st)) -> nget i (gs_sizes st) <> None) /\
  (forall cnt g, In (cnt, g) (gs_cands st) -> g_i g <> g_j g).

Lemma g_push_good sco i j st : GInv st -> In i (keys (gs_c st)) -> In j (keys (gs_c st)) -> i <> j ->
  GInv (g_push sco i j st) /\ gs_c (g_push sco i j st) = gs_c st.
Proof.
  intros (G & HS & HC) Hi Hj Hij. unfold g_push.
  destruct (nget i (cp_nodes (gs_c st))) as [il|] eqn:Gi; [|exfalso; now apply nget_none in Gi].
  destruct (nget j (cp_nodes (gs_c st))) as [jl|] eqn:Gj; [|exfalso; now apply nget_none in Gj].
  destruct (nget i (gs_sizes st)) as [si|] eqn:Si; [|exfalso; now apply (HS i)].
  destruct (nget j (gs_sizes st)) as [sj|] eqn:Sj; [|exfalso; now apply (HS j)].
  split; [|reflexivity]. split; [exact G|]. split; [exact HS|]. cbn [gs_cands].
  intros cnt g Hin. apply in_app_or in Hin as [Hin|[Heq|[]]]; [eapply HC; eassumption|].
  injection Heq as _ <-. exact Hij.
Qed.

Lemma g_push_fold_good {X} sco (f : X -> nat * nat) : forall l st, GInv st ->
  (forall x, In x l -> In (fst (f x)) (keys (gs_c st)) /\ In (snd (f x)) (keys (gs_c st)) /\ fst (f x) <> snd (f x)) ->
  GInv (fold_left (fun s x => g_push sco (fst (f x)) (snd (f x)) s) l st) /\
  gs_c (fold_left (fun s x => g_push sco (fst (f x)) (snd (f x)) s) l st) = gs_c st.
Proof.
  induction l as [|x l IH]; intros st I H; cbn [fold_left]; [split; [assumption|reflexivity]|].
  destruct (H x (or_introl eq_refl)) as (H1 & H2 & H3).
  destruct (g_push_good sco _ _ st I H1 H2 H3) as (I1 & Ec).
  destruct (IH _ I1) as (I2 & Ec2); [intros y Hy; rewrite Ec; apply H; now right|].
  split; [exact I2|congruence].
Qed.

Lemma ndel_incl {V} i : forall (d : list (nat * V)) p, In p (ndel i d) -> In p d.
Proof.
  induction d as [|[a v] d IH]; intros p H; [destruct H|]. cbn [ndel] in H.
  destruct (Nat.eqb a i); [now right|]. destruct H as [H|H]; [now left|right; auto].
Qed.

Lemma neighbors_spec c k l : EW c -> In l (neighbors c k) -> In l (keys c) /\ l <> k.
Proof.
  intros W H. unfold neighbors in H. destruct (nget k (cp_nodes c)) as [lg|]; [|destruct H].
  apply in_flat_map in H as ([ix cnt] & _ & H). cbn [fst] in H.
  destruct (nget ix (cp_edges c)) as [ns|] eqn:Gx; [|destruct H].
  apply filter_In in H as [H Hne]. apply negb_true_iff, Nat.eqb_neq in Hne.
  split; [eapply edge_member_present; eassumption|assumption].
Qed.

Lemma greedy_loop_good sco : forall fuel st, GInv st -> Good (gs_c (greedy_loop sco fuel st)).
Proof.
  induction fuel as [|f IH]; intros st I; cbn [greedy_loop]; [apply I|].
  destruct (gs_queue st) as [|x0 rest]; [apply I|].
  destruct (nget (snd (heap_min x0 rest)) (gs_cands st)) as [g|] eqn:Gc; [|apply I].
  destruct I as (G & HS & HC).
  assert (Hg : g_i g <> g_j g) by (eapply HC; eapply nget_in_pair; exact Gc).
  assert (HC1 : forall cnt g0, In (cnt, g0) (ndel (snd (heap_min x0 rest)) (gs_cands st)) -> g_i g0 <> g_j g0).
  { intros cnt g0 Hin. eapply HC. eapply ndel_incl; exact Hin. }
  destruct (nget (g_i g) (cp_nodes (gs_c st))) as [li|] eqn:Gi;
    [destruct (nget (g_j g) (cp_nodes (gs_c st))) as [lj|] eqn:Gj|].
  - assert (Hi : In (g_i g) (keys (gs_c st))) by (eapply nget_in; exact Gi).
    assert (Hj : In (g_j g) (keys (gs_c st))) by (eapply nget_in; exact Gj).
    destruct (contract_nodes_good (g_i g) (g_j g) (Some (g_klegs g)) (gs_c st) G Hi Hj Hg) as (G1 & Hk & Hs1 & Hr & _).
    destruct (contract_nodes (g_i g) (g_j g) (Some (g_klegs g)) (gs_c st)) as [c' k] eqn:E.
    cbn [fst snd] in G1, Hk, Hs1, Hr. subst k.
    set (st1 := mkGS c' (gs_sizes st ++ [(cp_ssa (gs_c st), g_ksize g)])
                     (heap_remove (heap_min x0 rest) (x0 :: rest)) (ndel (snd (heap_min x0 rest)) (gs_cands st)) (gs_cnt st)).
    assert (I1 : GInv st1).
    { split; [exact G1|]. split; [|exact HC1]. cbn [gs_c gs_sizes st1]. intros i Hin. rewrite Hk in Hin. rewrite nget_app.
      apply in_app_or in Hin as [Hin|[<-|[]]].
      - apply remove_all_in in Hin as [Hin _]. specialize (HS i Hin). destruct (nget i (gs_sizes st)); [discriminate|congruence].
      - destruct (nget (cp_ssa (gs_c st)) (gs_sizes st)); [discriminate|]. cbn. now rewrite Nat.eqb_refl. }
    destruct (g_push_fold_good sco (fun l => (cp_ssa (gs_c st), l)) (neighbors c' (cp_ssa (gs_c st))) st1 I1) as (I2 & _).
    + intros l Hl. cbn [fst snd gs_c st1]. destruct (neighbors_spec c' _ l (proj1 (proj2 (proj2 G1))) Hl) as [H1 H2].
      split; [rewrite Hk; apply in_or_app; right; now left|]. split; [assumption|congruence].
    + apply IH. exact I2.
  - apply IH. split; [exact G|]. split; [exact HS|exact HC1].
  - apply IH. split; [exact G|]. split; [exact HS|exact HC1].
Qed.

Lemma combinations2_spec : forall l x y, In (x, y) (combinations2 l) -> In x l /\ In y l /\ (NoDup l -> x <> y).
Proof.
  induction l as [|a l IH]; intros x y H; [destruct H|]. cbn [combinations2] in H.
  apply in_app_or in H as [H|H].
  - apply in_map_iff in H as (b & Heq & Hb). injection Heq as <- <-.
    split; [now left|]. split; [now right|]. intros ND. inversion ND; subst. intros ->. contradiction.
  - destruct (IH x y H) as (H1 & H2 & H3). split; [now right|]. split; [now right|].
    intros ND. inversion ND; subst. auto.
Qed.

Lemma cp_greedy_sc_good sco c : Good c -> Good (cp_greedy_sc sco c).
Proof.
  intros G. unfold cp_greedy_sc.
  set (st0 := mkGS c (map (fun il => (fst il, compute_size c (snd il))) (cp_nodes c)) [] [] 0).
  assert (I0 : GInv st0).
  { split; [exact G|]. split; [|intros cnt g []]. cbn [gs_c gs_sizes st0]. intros i Hi.
    apply nget_some_in_iff. rewrite map_map. cbn [fst]. exact Hi. }
  destruct (g_push_fold_good sco (fun p => p) (flat_map (fun e => combinations2 (snd e)) (cp_edges c)) st0 I0) as (I1 & _).
  - intros [x y] Hin. cbn [fst snd gs_c st0]. apply in_flat_map in Hin as ([ix ns] & He & Hp). cbn [snd] in Hp.
    destruct (combinations2_spec ns x y Hp) as (H1 & H2 & H3).
    destruct G as (_ & _ & W & _). assert (Gx : nget ix (cp_edges c) = Some ns) by (apply in_nget; [apply W|assumption]).
    split; [eapply edge_member_present; eassumption|]. split; [eapply edge_member_present; eassumption|].
    apply H3. destruct W as [_ HE]. now destruct (HE ix ns Gx).
  - apply greedy_loop_good. exact I1.
Qed.

(* ------------------------------------------------------------------ *)
(* a fresh processor is well formed                                     *)
Lemma ins_leg_perm x l : Permutation (ins_leg x l) (x :: l).
Proof.
  induction l as [|y l IH]; cbn; [apply Permutation_refl|]. destruct (Nat.leb (fst x) (fst y)); [apply Permutation_refl|].
  eapply perm_trans; [apply perm_skip, IH|apply perm_swap].
Qed.
Lemma sort_legs_in ix t : In ix (map fst (sort_legs t)) <-> In ix t.
Proof.
  unfold sort_legs.
  assert (P : Permutation (fold_right ins_leg [] (map (fun ix0 => (ix0, 1)) t)) (map (fun ix0 => (ix0, 1)) t)).
  { induction (map (fun ix0 : nat => (ix0, 1)) t) as [|x l IH]; cbn; [constructor|].
    eapply perm_trans; [apply ins_leg_perm|now apply perm_skip]. }
  apply (Permutation_map fst) in P. rewrite map_map in P. cbn [fst] in P. rewrite map_id in P.
  split; apply Permutation_in; [exact P|apply Permutation_sym; exact P].
Qed.
Lemma nget_enumerate {V} (l : list V) d : forall k j, j < length l -> nget (k + j) (enumerate_from k l) = Some (nth j l d).
Proof.
  induction l as [|x l IH]; intros k j H; [cbn in H; lia|]. cbn [enumerate_from nget].
  destruct j as [|j].
  - rewrite Nat.add_0_r, Nat.eqb_refl. reflexivity.
  - replace (Nat.eqb k (k + S j)) with false by (symmetry; apply Nat.eqb_neq; lia).
    replace (k + S j) with (S k + j) by lia. cbn [nth]. apply IH. cbn in H. lia.
Qed.

Lemma cp_init_good inputs output sizes : inputs <> [] ->
  Good (cp_init inputs output sizes) /\ cp_initial (length inputs) (cp_init inputs output sizes).
Proof.
  intros Hne. set (n := length inputs).
  assert (Hkeys : keys (cp_init inputs output sizes) = seq 0 n).
  { unfold keys, cp_init. cbn [cp_nodes]. now rewrite enumerate_keys, map_length. }
  split; [|repeat split; try reflexivity; exact Hkeys].
  split; [reflexivity|]. split.
  { unfold KInv. rewrite Hkeys. cbn [cp_init cp_ssa]. split; [apply seq_NoDup|]. intros k Hk. apply in_seq in Hk. unfold n in *. lia. }
  split.
  { unfold EW, cp_init. cbn [cp_edges cp_nodes]. split.
    - rewrite map_map. cbn [fst]. rewrite map_id. apply uniq_nodup.
    - intros ix ns G. apply nget_in_pair in G. apply in_map_iff in G as (ix' & Heq & _). injection Heq as -> <-.
      split; [apply NoDup_filter, seq_NoDup|]. intros j Hj. apply filter_In in Hj as [Hj Hm]. apply in_seq in Hj.
      exists (sort_legs (nth j inputs [])). split.
      + pose proof (nget_enumerate (map sort_legs inputs) (sort_legs []) 0 j) as E. rewrite map_length in E.
        cbn [plus] in E. rewrite E by lia. f_equal. apply (map_nth sort_legs).
      + apply sort_legs_in. now apply memb_In. }
  rewrite Hkeys. destruct inputs; [congruence|discriminate].
Qed.

(* ------------------------------------------------------------------ *)
(* THE UNCONDITIONAL PIPELINE THEOREMS                                  *)
Definition orders_ok (orders : list (list (list nat))) : Prop := Forall (fun o => NoDup o) orders.

Theorem greedy_pipeline_total inputs output sizes orders sco : inputs <> [] -> orders_ok orders ->
  let c' := cp_remaining (cp_greedy_sc sco (cp_simplify orders (cp_init inputs output sizes))) in
  cp_ok c' = true /\ length (cp_nodes c') = 1.
Proof.
  intros Hne Ho c'. destruct (cp_init_good inputs output sizes Hne) as [G0 _].
  destruct (cp_remaining_good (cp_greedy_sc sco (cp_simplify orders (cp_init inputs output sizes)))) as [G L].
  - apply cp_greedy_sc_good, cp_simplify_good; assumption.
  - split; [apply G|exact L].
Qed.

Theorem greedy_pipeline_valid inputs output sizes orders sco : inputs <> [] -> orders_ok orders ->
  let n := length inputs in
  let c' := cp_remaining (cp_greedy_sc sco (cp_simplify orders (cp_init inputs output sizes))) in
  ssa_path_valid n (cp_path c') = true /\
  exists q, ssa_to_linear n (cp_path c') = Some q /\ linear_path_valid n q = true.
Proof.
  intros Hne Ho n c'. destruct (cp_init_good inputs output sizes Hne) as [_ Hi].
  destruct (greedy_pipeline_total inputs output sizes orders sco Hne Ho) as [O L]. fold c' in O, L.
  assert (R : Ref (cp_init inputs output sizes) c').
  { eapply Ref_trans; [apply cp_simplify_Ref|]. eapply Ref_trans; [apply cp_greedy_sc_Ref|apply cp_remaining_Ref]. }
  pose proof (Ref_valid n _ c' Hi R O) as V.
  assert (Vb : ssa_path_valid n (cp_path c') = true).
  { unfold ssa_path_valid. rewrite V. unfold keys. rewrite map_length, L. reflexivity. }
  split; [exact Vb|]. now apply ssa_to_linear_complete.
Qed.

(* simplify only / remaining only (optimize_simplify; leftovers without greedy) *)
Theorem remaining_pipeline_valid inputs output sizes orders (simp : bool) : inputs <> [] -> orders_ok orders ->
  let n := length inputs in
  let c0 := cp_init inputs output sizes in
  let c' := cp_remaining (if simp then cp_simplify orders c0 else c0) in
  cp_ok c' = true /\ length (cp_nodes c') = 1 /\ ssa_path_valid n (cp_path c') = true.
Proof.
  intros Hne Ho n c0 c'. destruct (cp_init_good inputs output sizes Hne) as [G0 Hi].
  assert (G1 : Good (if simp then cp_simplify orders c0 else c0)) by (destruct simp; [now apply cp_simplify_good|exact G0]).
  destruct (cp_remaining_good _ G1) as [G L]. fold c' in G, L.
  assert (R : Ref c0 c').
  { destruct simp; [eapply Ref_trans; [apply cp_simplify_Ref|apply cp_remaining_Ref]|apply cp_remaining_Ref]. }
  pose proof (Ref_valid n c0 c' Hi R (proj1 G)) as V.
  split; [apply G|]. split; [exact L|]. unfold ssa_path_valid. rewrite V. unfold keys. now rewrite map_length, L.
Qed.

(* ------------------------------------------------------------------ *)
(* optimize_optimal: replaying the DP's tree of each component            *)
Definition tids (wh : list nat) (t : tree) : list nat := map (fun p => nth p wh 0) (leaves t).

Lemma apply_tree_Ref wh : forall t c, Ref c (fst (cp_apply_tree wh t c)).
Proof.
  induction t as [p|l IHl r IHr]; intros c; cbn [cp_apply_tree]; [apply Ref_refl|].
  destruct (cp_apply_tree wh l c) as [c1 i] eqn:E1. destruct (cp_apply_tree wh r c1) as [c2 j] eqn:E2.
  pose proof (IHl c) as R1. rewrite E1 in R1. pose proof (IHr c1) as R2. rewrite E2 in R2. cbn [fst] in *.
  eapply Ref_trans; [exact R1|]. eapply Ref_trans; [exact R2|apply contract_nodes_Ref].
Qed.

Lemma apply_tree_good wh : forall t c, Good c -> (forall x, In x (tids wh t) -> In x (keys c)) -> NoDup (tids wh t) ->
  let r := cp_apply_tree wh t c in
  Good (fst r) /\ In (snd r) (keys (fst r)) /\ (In (snd r) (tids wh t) \/ cp_ssa c <= snd r) /\
  cp_ssa c <= cp_ssa (fst r) /\
  (forall x, In x (keys c) -> ~ In x (tids wh t) -> In x (keys (fst r))).
Proof.
  induction t as [p|l IHl r IHr]; intros c G Hin ND.
  - cbn [cp_apply_tree fst snd]. unfold tids in *. cbn [leaves map] in *.
    split; [assumption|]. split; [apply Hin; now left|]. split; [left; now left|]. split; [lia|auto].
  - unfold tids in *. cbn [leaves] in *. rewrite map_app in *. fold (tids wh l) in *. fold (tids wh r) in *.
    cbn [cp_apply_tree].
    specialize (IHl c G (fun x Hx => Hin x (in_or_app _ _ _ (or_introl Hx))) (NoDup_app_l _ _ ND)).
    destruct (cp_apply_tree wh l c) as [c1 i] eqn:E1. cbn [fst snd] in IHl. destruct IHl as (G1 & Hi1 & Hio & Hs1 & Hp1).
    assert (Hr_in : forall x, In x (tids wh r) -> In x (keys c1)).
    { intros x Hx. apply Hp1; [apply Hin, in_or_app; now right|]. intros Hc. eapply NoDup_app_disjoint; eassumption. }
    specialize (IHr c1 G1 Hr_in (NoDup_app_r _ _ ND)).
    destruct (cp_apply_tree wh r c1) as [c2 j] eqn:E2. cbn [fst snd] in IHr. destruct IHr as (G2 & Hj2 & Hjo & Hs2 & Hp2).
    assert (Hlt : forall x, In x (tids wh r) -> x < cp_ssa c) by (intros x Hx; apply G; apply Hin, in_or_app; now right).
    assert (Hi_nr : ~ In i (tids wh r)).
    { intros Hc. destruct Hio as [Hio|Hio]; [eapply NoDup_app_disjoint; eassumption|]. apply Hlt in Hc. lia. }
    assert (Hi2 : In i (keys c2)) by (apply Hp2; assumption).
    assert (Hij : i <> j).
    { intros ->. destruct Hjo as [Hjo|Hjo]; [contradiction|]. apply G1 in Hi1. lia. }
    destruct (contract_nodes_good i j None c2 G2 Hi2 Hj2 Hij) as (G3 & Hk & Hs3 & Hr3 & _).
    destruct (contract_nodes i j None c2) as [c3 k] eqn:E3. cbn [fst snd] in *. subst k.
    split; [exact G3|]. split; [rewrite Hk; apply in_or_app; right; now left|]. split; [right; lia|]. split; [lia|].
    intros x Hx Hn. rewrite Hk. apply in_or_app. left. apply remove_all_in.
    assert (Hxl : ~ In x (tids wh l)) by (intros Hc; apply Hn, in_or_app; now left).
    assert (Hxr : ~ In x (tids wh r)) by (intros Hc; apply Hn, in_or_app; now right).
    split; [apply Hp2; [apply Hp1; assumption|assumption]|].
    assert (Hxs : x < cp_ssa c) by (now apply G).
    intros [->|[->|[]]].
    + destruct Hio as [Hio|Hio]; [contradiction|lia].
    + destruct Hjo as [Hjo|Hjo]; [contradiction|lia].
Qed.

Definition comps_ok (c : cproc) (comps : list (list nat * tree)) : Prop :=
  NoDup (concat (map fst comps)) /\ incl (concat (map fst comps)) (keys c) /\
  forall wh t, In (wh, t) comps -> Permutation (leaves t) (seq 0 (length wh)).

Lemma tids_perm wh t : Permutation (leaves t) (seq 0 (length wh)) -> Permutation (tids wh t) wh.
Proof.
  intros P. unfold tids. eapply perm_trans; [apply Permutation_map; exact P|].
  assert (E : map (fun p => nth p wh 0) (seq 0 (length wh)) = wh).
  { clear. induction wh as [|x wh IH]; [reflexivity|]. cbn [length seq map nth]. f_equal.
    rewrite <- seq_shift, map_map. exact IH. }
  rewrite E. apply Permutation_refl.
Qed.

Lemma cp_optimal_good : forall comps c, Good c -> comps_ok c comps -> Good (cp_optimal comps c).
Proof.
  unfold cp_optimal. induction comps as [|[wh t] comps IH]; intros c G (ND & Hincl & Ht); cbn [fold_left]; [assumption|].
  cbn [map fst concat] in ND, Hincl.
  pose proof (tids_perm wh t (Ht wh t (or_introl eq_refl))) as Pt.
  destruct (apply_tree_good wh t c G) as (G1 & _ & _ & _ & Hp).
  - intros x Hx. apply Hincl, in_or_app. left. eapply Permutation_in; eassumption.
  - eapply Permutation_NoDup; [apply Permutation_sym; exact Pt|]. now apply NoDup_app_l in ND.
  - cbn [fst snd]. apply IH; [exact G1|]. split; [now apply NoDup_app_r in ND|]. split.
    + intros x Hx. apply Hp; [apply Hincl, in_or_app; now right|].
      intros Hc. eapply (NoDup_app_disjoint _ _ ND x); [eapply Permutation_in; eassumption|assumption].
    + intros wh' t' Hin. apply Ht. now right.
Qed.

Lemma cp_optimal_Ref : forall comps c, Ref c (cp_optimal comps c).
Proof.
  unfold cp_optimal. induction comps as [|[wh t] comps IH]; intros c; cbn [fold_left]; [apply Ref_refl|].
  eapply Ref_trans; [apply apply_tree_Ref|apply IH].
Qed.

(* optimal pipeline: simplify; optimize_optimal on the components (DP = oracle returning a tree
   over all positions of its component); leftovers by size *)
Theorem optimal_pipeline_valid inputs output sizes orders comps (simp : bool) : inputs <> [] -> orders_ok orders ->
  let n := length inputs in
  let c0 := cp_init inputs output sizes in
  let c1 := if simp then cp_simplify orders c0 else c0 in
  comps_ok c1 comps ->
  let c' := cp_remaining (cp_optimal comps c1) in
  cp_ok c' = true /\ length (cp_nodes c') = 1 /\ ssa_path_valid n (cp_path c') = true /\
  exists q, ssa_to_linear n (cp_path c') = Some q /\ linear_path_valid n q = true.
Proof.
  intros Hne Ho n c0 c1 Hc c'. destruct (cp_init_good inputs output sizes Hne) as [G0 Hi].
  assert (G1 : Good c1) by (unfold c1; destruct simp; [now apply cp_simplify_good|exact G0]).
  destruct (cp_remaining_good _ (cp_optimal_good comps c1 G1 Hc)) as [G L]. fold c' in G, L.
  assert (R : Ref c0 c').
  { eapply Ref_trans; [|eapply Ref_trans; [apply cp_optimal_Ref|apply cp_remaining_Ref]].
    unfold c1. destruct simp; [apply cp_simplify_Ref|apply Ref_refl]. }
  pose proof (Ref_valid n c0 c' Hi R (proj1 G)) as V.
  assert (Vb : ssa_path_valid n (cp_path c') = true).
  { unfold ssa_path_valid. rewrite V. unfold keys. now rewrite map_length, L. }
  split; [apply G|]. split; [exact L|]. split; [exact Vb|]. now apply ssa_to_linear_complete.
Qed.

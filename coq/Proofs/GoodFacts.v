(* GoodFacts.v -- the well-formedness invariant of the concrete ContractionProcessor
   (nodes / edges consistent, as ContractionProcessor.check() asserts) is preserved by every
   primitive, no KeyError is ever flagged, and the pipelines end with exactly one node *)
From Coq Require Import Lia Permutation.
From Ctg Require Import Base Net PathValid Processor BaseFacts PathValidFacts ProcessorFacts SsaLinearFacts RefineFacts.

(* ------------------------------------------------------------------ *)
(* association lists                                                    *)
Section Assoc.
Context {V : Type}.
Implicit Types d : list (nat * V).

Lemma nget_ndel_other k i : forall d, k <> i -> nget k (ndel i d) = nget k d.
Proof.
  induction d as [|[a v] d IH]; intros H; [reflexivity|]. cbn [ndel].
  destruct (Nat.eqb a i) eqn:E.
  - apply Nat.eqb_eq in E. subst a. cbn [nget]. replace (Nat.eqb i k) with false; [reflexivity|].
    symmetry. apply Nat.eqb_neq. congruence.
  - cbn [nget]. destruct (Nat.eqb a k); [reflexivity|]. now apply IH.
Qed.
Lemma nget_ndel_same i : forall d, NoDup (map fst d) -> nget i (ndel i d) = None.
Proof.
  induction d as [|[a v] d IH]; intros ND; [reflexivity|]. cbn [ndel]. inversion ND as [|? ? Ha ND']; subst.
  destruct (Nat.eqb a i) eqn:E.
  - apply Nat.eqb_eq in E. subst a. destruct (nget i d) eqn:G; [|reflexivity].
    exfalso. apply Ha. eapply nget_in; exact G.
  - cbn [nget]. rewrite E. now apply IH.
Qed.
Lemma nget_nset_same i v : forall d, nget i (nset_ i v d) = Some v.
Proof.
  induction d as [|[a w] d IH]; cbn [nset_ nget]; [now rewrite Nat.eqb_refl|].
  destruct (Nat.eqb a i) eqn:E; cbn [nget]; rewrite E; [reflexivity|exact IH].
Qed.
Lemma nget_nset_other k i v : forall d, k <> i -> nget k (nset_ i v d) = nget k d.
Proof.
  induction d as [|[a w] d IH]; intros H; cbn [nset_ nget].
  - replace (Nat.eqb i k) with false; [reflexivity|]. symmetry. apply Nat.eqb_neq. congruence.
  - destruct (Nat.eqb a i) eqn:E; cbn [nget].
    + apply Nat.eqb_eq in E. subst a. replace (Nat.eqb i k) with false; [reflexivity|].
      symmetry. apply Nat.eqb_neq. congruence.
    + destruct (Nat.eqb a k); [reflexivity|]. now apply IH.
Qed.
Lemma nget_app k : forall d e, nget k (d ++ e) = match nget k d with Some x => Some x | None => nget k e end.
Proof.
  induction d as [|[a w] d IH]; intros e; [reflexivity|]. cbn [app nget].
  destruct (Nat.eqb a k); [reflexivity|apply IH].
Qed.
Lemma nset_keys_new i v : forall d, ~ In i (map fst d) -> map fst (nset_ i v d) = map fst d ++ [i].
Proof.
  induction d as [|[a w] d IH]; intros H; [reflexivity|]. cbn [nset_].
  destruct (Nat.eqb a i) eqn:E.
  - apply Nat.eqb_eq in E. subst a. exfalso. apply H. now left.
  - cbn [map fst app]. f_equal. apply IH. intros Hc. apply H. now right.
Qed.
Lemma nset_keys_nodup i v d : NoDup (map fst d) -> NoDup (map fst (nset_ i v d)).
Proof.
  intros ND. destruct (in_dec Nat.eq_dec i (map fst d)) as [Hin|Hn].
  - now rewrite nset_keys.
  - rewrite nset_keys_new by assumption. apply NoDup_app_intro; [assumption|repeat constructor; intros []|].
    intros x Hx [<-|[]]. contradiction.
Qed.
Lemma ndel_keys_nodup i d : NoDup (map fst d) -> NoDup (map fst (ndel i d)).
Proof. intros ND. rewrite ndel_keys by assumption. now apply NoDup_filter. Qed.
Lemma nget_some_in_iff k d : In k (map fst d) <-> nget k d <> None.
Proof.
  split.
  - intros Hin Hc. now apply nget_none in Hc.
  - intros H. destruct (nget k d) eqn:G; [eapply nget_in; exact G|congruence].
Qed.
Lemma in_nget k v : forall d, NoDup (map fst d) -> In (k, v) d -> nget k d = Some v.
Proof.
  induction d as [|[a w] d IH]; intros ND Hin; [destruct Hin|]. inversion ND as [|? ? Ha ND']; subst. cbn [nget].
  destruct Hin as [Heq|Hin].
  - injection Heq as -> ->. now rewrite Nat.eqb_refl.
  - destruct (Nat.eqb a k) eqn:E; [|now apply IH].
    apply Nat.eqb_eq in E. subst a. exfalso. apply Ha. apply in_map_iff. exists (k, v). auto.
Qed.
Lemma nget_in_pair k v : forall d, nget k d = Some v -> In (k, v) d.
Proof.
  induction d as [|[a w] d IH]; intros H; cbn in H; [discriminate|].
  destruct (Nat.eqb a k) eqn:E; [apply Nat.eqb_eq in E; injection H as ->; subst; now left|right; auto].
Qed.
End Assoc.

(* ------------------------------------------------------------------ *)
(* edges updates in closed form                                         *)
Definition rm1 (i : nat) (l : list nat) : list nat := filter (fun k => negb (Nat.eqb k i)) l.
Definition dropi (i : nat) (o : option (list nat)) : option (list nat) :=
  match o with
  | Some ns => match rm1 i ns with [] => None | l => Some l end
  | None => None
  end.
Definition oget (E : list (nat * list nat)) (ix : nat) : list nat := match nget ix E with Some ns => ns | None => [] end.
Definition addi (i : nat) (l : list nat) : list nat := if memb i l then l else l ++ [i].

Lemma rm1_idem i l : rm1 i (rm1 i l) = rm1 i l.
Proof.
  unfold rm1. induction l as [|x l IH]; [reflexivity|]. cbn. destruct (Nat.eqb x i) eqn:E; cbn; [exact IH|].
  rewrite E. cbn. now rewrite IH.
Qed.
Lemma dropi_idem i o : dropi i (dropi i o) = dropi i o.
Proof.
  destruct o as [ns|]; [|reflexivity]. destruct (rm1 i ns) as [|x l] eqn:E.
  - assert (H : dropi i (Some ns) = None) by (unfold dropi; now rewrite E). now rewrite H.
  - assert (H : dropi i (Some ns) = Some (x :: l)) by (unfold dropi; now rewrite E). rewrite H.
    assert (H2 : rm1 i (x :: l) = x :: l) by (rewrite <- E; apply rm1_idem).
    unfold dropi. now rewrite H2.
Qed.
Lemma addi_idem i l : addi i (addi i l) = addi i l.
Proof.
  unfold addi. destruct (memb i l) eqn:E; [now rewrite E|].
  replace (memb i (l ++ [i])) with true; [reflexivity|]. symmetry. apply memb_In, in_or_app. right. now left.
Qed.

Lemma edges_drop_spec i E ix : NoDup (map fst E) ->
  NoDup (map fst (edges_drop i E ix)) /\
  forall ix2, nget ix2 (edges_drop i E ix) = if Nat.eqb ix2 ix then dropi i (nget ix E) else nget ix2 E.
Proof.
  intros ND. unfold edges_drop. destruct (nget ix E) as [ns|] eqn:G.
  - fold (rm1 i ns). destruct (rm1 i ns) as [|x l] eqn:Er.
    + split; [now apply ndel_keys_nodup|]. intros ix2. destruct (Nat.eqb ix2 ix) eqn:E2.
      * apply Nat.eqb_eq in E2. subst. cbn. rewrite Er. now apply nget_ndel_same.
      * apply Nat.eqb_neq in E2. now apply nget_ndel_other.
    + split; [now apply nset_keys_nodup|]. intros ix2. destruct (Nat.eqb ix2 ix) eqn:E2.
      * apply Nat.eqb_eq in E2. subst. cbn. rewrite Er. apply nget_nset_same.
      * apply Nat.eqb_neq in E2. now apply nget_nset_other.
  - split; [assumption|]. intros ix2. destruct (Nat.eqb ix2 ix) eqn:E2; [|reflexivity].
    apply Nat.eqb_eq in E2. subst. now rewrite G.
Qed.

Lemma edges_drop_fold i : forall L E, NoDup (map fst E) ->
  NoDup (map fst (fold_left (edges_drop i) L E)) /\
  forall ix2, nget ix2 (fold_left (edges_drop i) L E) = if memb ix2 L then dropi i (nget ix2 E) else nget ix2 E.
Proof.
  induction L as [|ix L IH]; intros E ND; [split; [assumption|reflexivity]|]. cbn [fold_left].
  destruct (edges_drop_spec i E ix ND) as [ND1 S1]. destruct (IH _ ND1) as [ND2 S2].
  split; [assumption|]. intros ix2. rewrite S2, S1. unfold memb. cbn [existsb].
  destruct (Nat.eqb ix2 ix) eqn:E2; cbn [orb].
  - apply Nat.eqb_eq in E2. subst ix2. destruct (existsb (Nat.eqb ix) L); [apply dropi_idem|reflexivity].
  - reflexivity.
Qed.

Lemma edges_add_spec i E ix : NoDup (map fst E) ->
  NoDup (map fst (edges_add i E ix)) /\
  forall ix2, nget ix2 (edges_add i E ix) = if Nat.eqb ix2 ix then Some (addi i (oget E ix)) else nget ix2 E.
Proof.
  intros ND. unfold edges_add, oget, addi. destruct (nget ix E) as [ns|] eqn:G.
  - destruct (memb i ns) eqn:M.
    + split; [assumption|]. intros ix2. destruct (Nat.eqb ix2 ix) eqn:E2; [|reflexivity].
      apply Nat.eqb_eq in E2. subst. exact G.
    + split; [now apply nset_keys_nodup|]. intros ix2. destruct (Nat.eqb ix2 ix) eqn:E2.
      * apply Nat.eqb_eq in E2. subst. apply nget_nset_same.
      * apply Nat.eqb_neq in E2. now apply nget_nset_other.
  - cbn [memb existsb app]. split.
    + rewrite map_app. cbn. apply NoDup_app_intro; [assumption|repeat constructor; intros []|].
      intros x Hx [<-|[]]. now apply nget_none in G.
    + intros ix2. rewrite nget_app. cbn [nget]. destruct (Nat.eqb ix2 ix) eqn:E2.
      * apply Nat.eqb_eq in E2. subst. rewrite G. now rewrite Nat.eqb_refl.
      * rewrite (Nat.eqb_sym ix ix2), E2. now destruct (nget ix2 E).
Qed.

Lemma oget_add i E ix ix2 : NoDup (map fst E) ->
  oget (edges_add i E ix) ix2 = if Nat.eqb ix2 ix then addi i (oget E ix) else oget E ix2.
Proof.
  intros ND. unfold oget at 1. rewrite (proj2 (edges_add_spec i E ix ND)).
  destruct (Nat.eqb ix2 ix); reflexivity.
Qed.

Lemma edges_add_fold i : forall L E, NoDup (map fst E) ->
  NoDup (map fst (fold_left (edges_add i) L E)) /\
  forall ix2, nget ix2 (fold_left (edges_add i) L E) = if memb ix2 L then Some (addi i (oget E ix2)) else nget ix2 E.
Proof.
  induction L as [|ix L IH]; intros E ND; [split; [assumption|reflexivity]|]. cbn [fold_left].
  destruct (edges_add_spec i E ix ND) as [ND1 S1]. destruct (IH _ ND1) as [ND2 S2].
  split; [assumption|]. intros ix2. rewrite S2, S1, oget_add by assumption. unfold memb. cbn [existsb].
  destruct (Nat.eqb ix2 ix) eqn:E2; cbn [orb].
  - apply Nat.eqb_eq in E2. subst ix2. destruct (existsb (Nat.eqb ix) L); [now rewrite addi_idem|reflexivity].
  - reflexivity.
Qed.

(* ------------------------------------------------------------------ *)
(* the invariant                                                        *)
Definition EW (c : cproc) : Prop :=
  NoDup (map fst (cp_edges c)) /\
  forall ix ns, nget ix (cp_edges c) = Some ns ->
    NoDup ns /\ forall j, In j ns -> exists lg, nget j (cp_nodes c) = Some lg /\ In ix (map fst lg).
Definition Good (c : cproc) : Prop := cp_ok c = true /\ KInv c /\ EW c /\ keys c <> [].

Lemma rm1_in i l x : In x (rm1 i l) <-> In x l /\ x <> i.
Proof. unfold rm1. rewrite filter_In, negb_true_iff, Nat.eqb_neq. tauto. Qed.

Lemma edge_member_present c ix ns j : EW c -> nget ix (cp_edges c) = Some ns -> In j ns -> In j (keys c).
Proof.
  intros [_ H] G Hj. destruct (H ix ns G) as [_ Hm]. destruct (Hm j Hj) as (lg & Gj & _).
  eapply nget_in; exact Gj.
Qed.

(* pop_node of a present node *)
Lemma pop_node_good i c lg : Good c -> nget i (cp_nodes c) = Some lg ->
  let c1 := fst (pop_node i c) in
  cp_ok c1 = true /\ KInv c1 /\ EW c1 /\ snd (pop_node i c) = lg /\
  keys c1 = remove_all [i] (keys c) /\ cp_ssa c1 = cp_ssa c /\ cp_path c1 = cp_path c /\
  cp_nodes c1 = ndel i (cp_nodes c).
Proof.
  intros (O & K & [NE HE] & _) G. unfold pop_node. rewrite G. cbn [fst snd cp_ok cp_nodes cp_edges cp_ssa cp_path].
  assert (Hk : keys {| cp_nodes := ndel i (cp_nodes c); cp_edges := fold_left (edges_drop i) (map fst lg) (cp_edges c);
                       cp_app := cp_app c; cp_sizes := cp_sizes c; cp_ssa := cp_ssa c; cp_path := cp_path c; cp_ok := cp_ok c |}
               = remove_all [i] (keys c)) by (unfold keys; cbn [cp_nodes]; apply ndel_keys, K).
  split; [assumption|]. split.
  { unfold KInv. rewrite Hk. cbn [cp_ssa]. split; [apply NoDup_filter, K|].
    intros k Hin. apply remove_all_in in Hin as [Hin _]. now apply K. }
  split.
  { destruct (edges_drop_fold i (map fst lg) (cp_edges c) NE) as [ND2 S2]. split; [exact ND2|].
    cbn [cp_edges cp_nodes]. intros ix ns2 G2. rewrite S2 in G2.
    destruct (memb ix (map fst lg)) eqn:M.
    - destruct (nget ix (cp_edges c)) as [ns|] eqn:Gx; [|discriminate]. cbn [dropi] in G2.
      destruct (rm1 i ns) as [|x l] eqn:Er; [discriminate|]. injection G2 as <-. rewrite <- Er.
      destruct (HE ix ns Gx) as [NDn Hm]. split; [apply NoDup_filter, NDn|].
      intros j Hj. apply rm1_in in Hj as [Hj Hne]. destruct (Hm j Hj) as (lgj & Gj & Hix).
      exists lgj. split; [|assumption]. now rewrite nget_ndel_other.
    - destruct (HE ix ns2 G2) as [NDn Hm]. split; [assumption|].
      intros j Hj. destruct (Hm j Hj) as (lgj & Gj & Hix). exists lgj. split; [|assumption].
      rewrite nget_ndel_other; [assumption|]. intros ->. rewrite G in Gj. injection Gj as <-.
      apply memb_false in M. contradiction. }
  repeat split; try reflexivity. exact Hk.
Qed.

(* add_node *)
Lemma add_node_good lg c : cp_ok c = true -> KInv c -> EW c ->
  let c1 := fst (add_node lg c) in
  Good c1 /\ keys c1 = keys c ++ [cp_ssa c] /\ cp_ssa c1 = S (cp_ssa c) /\ cp_path c1 = cp_path c /\
  snd (add_node lg c) = cp_ssa c /\ cp_nodes c1 = cp_nodes c ++ [(cp_ssa c, lg)].
Proof.
  intros O K [NE HE]. unfold add_node. cbn [fst snd].
  set (i := cp_ssa c).
  assert (Hfresh : ~ In i (keys c)) by (intros Hc; apply K in Hc; unfold i in Hc; lia).
  assert (Hk : keys {| cp_nodes := cp_nodes c ++ [(i, lg)]; cp_edges := fold_left (edges_add i) (map fst lg) (cp_edges c);
                       cp_app := cp_app c; cp_sizes := cp_sizes c; cp_ssa := S i; cp_path := cp_path c; cp_ok := cp_ok c |}
               = keys c ++ [i]) by (unfold keys; cbn [cp_nodes]; now rewrite map_app).
  split; [|repeat split; try reflexivity; exact Hk].
  split; [exact O|]. split.
  { unfold KInv. rewrite Hk. cbn [cp_ssa]. split.
    - apply NoDup_app_intro; [apply K|repeat constructor; intros []|]. intros x Hx [<-|[]]. contradiction.
    - intros k Hin. apply in_app_or in Hin as [Hin|[<-|[]]]; [apply K in Hin; unfold i; lia|lia]. }
  split.
  { destruct (edges_add_fold i (map fst lg) (cp_edges c) NE) as [ND2 S2]. split; [exact ND2|].
    cbn [cp_edges cp_nodes]. intros ix ns2 G2. rewrite S2 in G2.
    assert (Hold : forall ns j, nget ix (cp_edges c) = Some ns -> In j ns ->
                   exists lgj, nget j (cp_nodes c ++ [(i, lg)]) = Some lgj /\ In ix (map fst lgj)).
    { intros ns j Gx Hj. destruct (HE ix ns Gx) as [_ Hm]. destruct (Hm j Hj) as (lgj & Gj & Hix).
      exists lgj. split; [|assumption]. now rewrite nget_app, Gj. }
    destruct (memb ix (map fst lg)) eqn:M.
    - injection G2 as <-. unfold oget, addi. destruct (nget ix (cp_edges c)) as [ns|] eqn:Gx.
      + assert (Hni : ~ In i ns).
        { intros Hc. apply Hfresh. eapply edge_member_present; [split; eassumption|exact Gx|exact Hc]. }
        replace (memb i ns) with false by (symmetry; now apply memb_false).
        destruct (HE ix ns Gx) as [NDn _]. split.
        * apply NoDup_app_intro; [assumption|repeat constructor; intros []|]. intros x Hx [<-|[]]. contradiction.
        * intros j Hj. apply in_app_or in Hj as [Hj|[<-|[]]]; [eapply Hold; eauto|].
          exists lg. split; [|now apply memb_In].
          rewrite nget_app. replace (nget i (cp_nodes c)) with (@None clegs).
          -- cbn. now rewrite Nat.eqb_refl.
          -- symmetry. destruct (nget i (cp_nodes c)) eqn:Gi; [|reflexivity]. exfalso. apply Hfresh. eapply nget_in; exact Gi.
      + cbn. split; [repeat constructor; intros []|]. intros j [<-|[]].
        exists lg. split; [|now apply memb_In].
        rewrite nget_app. replace (nget i (cp_nodes c)) with (@None clegs).
        * cbn. now rewrite Nat.eqb_refl.
        * symmetry. destruct (nget i (cp_nodes c)) eqn:Gi; [|reflexivity]. exfalso. apply Hfresh. eapply nget_in; exact Gi.
    - destruct (HE ix ns2 G2) as [NDn _]. split; [assumption|]. intros j Hj. eapply Hold; eauto. }
  rewrite Hk. intros Hc. apply app_eq_nil in Hc as [_ Hc]. discriminate.
Qed.

Lemma push_path_good s c : Good c -> Good (push_path s c).
Proof. intros H. exact H. Qed.

(* contract_nodes on two distinct present nodes *)
Lemma contract_nodes_good i j nl c : Good c -> In i (keys c) -> In j (keys c) -> i <> j ->
  let c' := fst (contract_nodes i j nl c) in
  Good c' /\ keys c' = remove_all [i; j] (keys c) ++ [cp_ssa c] /\ cp_ssa c' = S (cp_ssa c) /\
  snd (contract_nodes i j nl c) = cp_ssa c /\
  (forall lg0 x, x <> i -> x <> j -> nget x (cp_nodes c) = Some lg0 -> nget x (cp_nodes c') = Some lg0) /\
  (exists lgk, nget (cp_ssa c) (cp_nodes c') = Some lgk).
Proof.
  intros G Hi Hj Hij. unfold contract_nodes.
  destruct (nget i (cp_nodes c)) as [li|] eqn:Gi; [|exfalso; now apply nget_none in Gi].
  pose proof (pop_node_good i c li G Gi) as P1.
  destruct (pop_node i c) as [c1 il] eqn:E1. cbn [fst snd] in P1.
  destruct P1 as (O1 & K1 & W1 & -> & Hk1 & Hs1 & Hp1 & Hn1).
  assert (Hj1 : In j (keys c1)) by (rewrite Hk1; apply remove_all_in; split; [assumption|intros [->|[]]; congruence]).
  destruct (nget j (cp_nodes c1)) as [lj|] eqn:Gj; [|exfalso; now apply nget_none in Gj].
  assert (G1 : Good c1).
  { split; [exact O1|]. split; [exact K1|]. split; [exact W1|]. intros Hc. rewrite Hc in Hj1. destruct Hj1. }
  pose proof (pop_node_good j c1 lj G1 Gj) as P2.
  destruct (pop_node j c1) as [c2 jl] eqn:E2. cbn [fst snd] in P2.
  destruct P2 as (O2 & K2 & W2 & -> & Hk2 & Hs2 & Hp2 & Hn2).
  set (nl' := match nl with Some l => l | None => compute_contracted (app_of c) li lj end).
  pose proof (add_node_good nl' c2 O2 K2 W2) as P3.
  destruct (add_node nl' c2) as [c3 k] eqn:E3. cbn [fst snd] in P3.
  destruct P3 as (G3 & Hk3 & Hs3 & Hp3 & -> & Hn3). cbn [fst snd].
  assert (Hkeys : keys (push_path [i; j] c3) = remove_all [i; j] (keys c) ++ [cp_ssa c]).
  { change (keys (push_path [i; j] c3)) with (keys c3). rewrite Hk3, Hk2, Hk1, Hs2, Hs1. f_equal.
    rewrite (remove_all_single i). apply remove_all_cons. }
  split; [apply push_path_good, G3|]. split; [exact Hkeys|]. split; [cbn; congruence|]. split; [congruence|]. split.
  - intros lg0 x Hxi Hxj Gx. cbn [push_path cp_nodes]. rewrite Hn3, nget_app, Hn2, nget_ndel_other, Hn1, nget_ndel_other, Gx by congruence.
    reflexivity.
  - exists nl'. cbn [push_path cp_nodes]. rewrite Hn3, nget_app.
    replace (nget (cp_ssa c) (cp_nodes c2)) with (@None clegs).
    + rewrite Hs2, Hs1. cbn. now rewrite Nat.eqb_refl.
    + symmetry. destruct (nget (cp_ssa c) (cp_nodes c2)) eqn:Gs; [|reflexivity]. exfalso.
      apply nget_in in Gs. fold (keys c2) in Gs. apply K2 in Gs. lia.
Qed.

(* the single-term step *)
Lemma single_good i f c : Good c -> In i (keys c) ->
  let c' := (let '(c1, lg1) := pop_node i c in let '(c2, _) := add_node (f lg1) c1 in push_path [i] c2) in
  Good c' /\ keys c' = remove_all [i] (keys c) ++ [cp_ssa c] /\ cp_ssa c' = S (cp_ssa c).
Proof.
  intros G Hi.
  destruct (nget i (cp_nodes c)) as [li|] eqn:Gi; [|exfalso; now apply nget_none in Gi].
  pose proof (pop_node_good i c li G Gi) as P1.
  destruct (pop_node i c) as [c1 il] eqn:E1. cbn [fst snd] in P1.
  destruct P1 as (O1 & K1 & W1 & -> & Hk1 & Hs1 & Hp1 & Hn1).
  pose proof (add_node_good (f li) c1 O1 K1 W1) as P3.
  destruct (add_node (f li) c1) as [c2 k] eqn:E3. cbn [fst snd] in P3.
  destruct P3 as (G3 & Hk3 & Hs3 & Hp3 & _ & Hn3).
  split; [exact G3|]. split; [|cbn; congruence].
  change (keys (push_path [i] c2)) with (keys c2). now rewrite Hk3, Hk1, Hs1.
Qed.

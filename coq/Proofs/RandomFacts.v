(* RandomFacts.v -- path_random.RandomOptimizer returns a valid complete linear path *)
From Coq Require Import Lia Permutation.
From Ctg Require Import Base Net PathValid BaseFacts PathValidFacts SsaLinearFacts.

Lemma skip_eq_spec m i : forall ds j ds2, 0 < m -> skip_eq m i ds = Some (j, ds2) -> j < m /\ j <> i.
Proof.
  induction ds as [|d ds IH]; intros j ds2 Hm H; cbn in H; [discriminate|].
  destruct (Nat.eqb (Nat.modulo d m) i) eqn:E; [eauto|].
  injection H as <- <-. apply Nat.eqb_neq in E. split; [apply Nat.mod_upper_bound; lia|assumption].
Qed.

Lemma random_path_valid : forall nrem ds p, random_path nrem ds = Some p -> lin_run any_len (S nrem) p = Some 1.
Proof.
  induction nrem as [|nr IH]; intros ds p H; cbn [random_path] in H.
  - injection H as <-. reflexivity.
  - destruct ds as [|d ds1]; [discriminate|].
    assert (Hi : Nat.modulo d (S (S nr)) < S (S nr)) by (apply Nat.mod_upper_bound; lia).
    remember (Nat.modulo d (S (S nr))) as i eqn:Ei. clear Ei.
    destruct (skip_eq (S (S nr)) i ds1) as [[j ds2]|] eqn:Es; [|discriminate].
    destruct (random_path nr ds2) as [q|] eqn:Er; [|discriminate]. injection H as <-.
    destruct (skip_eq_spec _ _ _ _ _ (Nat.lt_0_succ _) Es) as [Hj Hne].
    assert (Hok : step_ok any_len (S (S nr)) [i; j] = true).
    { apply step_wf_ok; [|reflexivity]. split; [discriminate|]. split.
      - repeat constructor; cbn; intuition.
      - intros x [<-|[<-|[]]]; assumption. }
    change (lin_run any_len (S (S nr)) ([i; j] :: q)) with
      (if step_ok any_len (S (S nr)) [i; j] then lin_run any_len (S (S nr) - length [i; j] + 1) q else None).
    rewrite Hok. cbn [length]. replace (S (S nr) - 2 + 1) with (S nr) by lia. now apply (IH ds2).
Qed.

(* every step picks two distinct live positions; N - 1 steps; one tensor left *)
Theorem random_optimizer_path_valid n ds p : 1 <= n -> random_optimizer_path n ds = Some p ->
  linear_path_valid n p = true /\ path_wf n p 1.
Proof.
  intros Hn H. unfold random_optimizer_path in H. apply random_path_valid in H.
  replace (S (n - 1)) with n in H by lia. split; [unfold linear_path_valid; now rewrite H|].
  eapply lin_run_wf; exact H.
Qed.

(* SliceGather.v -- C06 gather_correct in full: for an abstract per-slice evaluator G,
   gather_slices of the per-slice results is, entry by entry, the sum over the inner sliced
   ranges of G at the assignment read off the full output multi-index. *)
From Coq Require Import Lia Permutation.
From Ctg Require Import Base Slice BaseFacts SliceFacts SliceSum.

(* ------------------------------------------------------------------ *)
(* peeling axes off one at a time = deleting the entries at the declared positions *)
Fixpoint peel {A} (c : nat) (ps : list nat) (l : list A) : list A :=
  match ps with [] => l | p :: ps' => peel (S c) ps' (remove_nth (p - c) l) end.

Lemma unstack_snd sl rem : forall c idx, snd (unstack sl c rem idx) = peel c (map snd rem) idx.
Proof. induction rem as [|[j p] rem IH]; intros c idx; [reflexivity|]. cbn [unstack snd map peel]. apply IH. Qed.

Lemma remove_nth_combine {A B} k : forall (a : list A) (b : list B),
  remove_nth k (combine a b) = combine (remove_nth k a) (remove_nth k b).
Proof.
  induction k as [|k IH]; intros [|x a] [|y b]; cbn [combine remove_nth]; try reflexivity.
  - destruct a; reflexivity.
  - rewrite IH. reflexivity.
Qed.
Lemma peel_combine {A B} ps : forall c (a : list A) (b : list B),
  peel c ps (combine a b) = combine (peel c ps a) (peel c ps b).
Proof. induction ps as [|p ps IH]; intros c a b; [reflexivity|]. cbn [peel]. rewrite remove_nth_combine. apply IH. Qed.
Lemma remove_nth_map {A B} (f : A -> B) k : forall l, remove_nth k (map f l) = map f (remove_nth k l).
Proof. induction k as [|k IH]; intros [|x l]; cbn [remove_nth map]; try reflexivity. rewrite IH. reflexivity. Qed.
Lemma peel_map {A B} (f : A -> B) ps : forall c l, peel c ps (map f l) = map f (peel c ps l).
Proof. induction ps as [|p ps IH]; intros c l; [reflexivity|]. cbn [peel]. rewrite remove_nth_map. apply IH. Qed.

Lemma length_remove_nth {A} k : forall (l : list A), k < length l -> S (length (remove_nth k l)) = length l.
Proof. induction k as [|k IH]; intros [|x l] H; cbn [length remove_nth] in *; try lia. rewrite IH by lia. reflexivity. Qed.

Definition pairs := list (ix * nat).
Definition keep (removed : list ix) (l : pairs) : pairs := filter (fun kv => negb (memb (fst kv) removed)) l.

Lemma remove_nth_filter (l : pairs) : forall a d, NoDup (map fst l) -> a < length l ->
  remove_nth a l = filter (fun kv => negb (Nat.eqb (fst kv) (fst (nth a l d)))) l.
Proof.
  induction l as [|[k v] l IH]; intros a d Hnd Ha; cbn [length] in Ha; [lia|].
  cbn [map fst] in Hnd. inversion Hnd as [|? ? Hn Hnd']; subst.
  destruct a as [|a]; cbn [remove_nth nth filter fst].
  - rewrite Nat.eqb_refl. cbn [negb]. symmetry. apply filter_all. apply forallb_forall. intros [k' v'] Hin. cbn [fst].
    apply negb_true_iff, Nat.eqb_neq. intros ->. apply Hn. apply in_map_iff. exists (k, v'). auto.
  - destruct (Nat.eqb_spec k (fst (nth a l d))) as [E0|_]; cbn [negb].
    + exfalso. apply Hn. rewrite E0. apply in_map, nth_In. lia.
    + f_equal. apply IH; [exact Hnd'|lia].
Qed.

Lemma peel_pairs (orig : pairs) d : NoDup (map fst orig) -> forall rem c L cur removed,
  cur = keep removed orig -> length cur + c = length orig ->
  (forall q, L <= q -> nth (q - c) cur d = nth q orig d) -> c <= L ->
  increasing_from L (map snd rem) ->
  (forall jp, In jp rem -> snd jp < length orig /\ fst (nth (snd jp) orig d) = fst jp) ->
  peel c (map snd rem) cur = keep (removed ++ map fst rem) orig.
Proof.
  intros Hnd. induction rem as [|[j p] rem IH]; intros c L cur removed Hcur Hlen Hrel HcL Hinc Hpos.
  - cbn [map peel]. rewrite app_nil_r. exact Hcur.
  - cbn [map snd fst peel increasing_from] in *. destruct Hinc as [HLp Hinc].
    destruct (Hpos (j, p) (or_introl eq_refl)) as [Hp Hj]. cbn [fst snd] in Hp, Hj.
    assert (Hndc : NoDup (map fst cur)).
    { subst cur. unfold keep. clear -Hnd. induction orig as [|[k v] l IH]; cbn [map filter fst]; [constructor|].
      inversion Hnd as [|? ? Hn Hnd']; subst. destruct (negb (memb k removed)); cbn [map fst]; [constructor|]; auto.
      intros Hin. apply Hn. apply in_map_iff in Hin. destruct Hin as ([k' v'] & E0 & Hin). apply filter_In in Hin.
      apply in_map_iff. exists (k', v'). split; [exact E0|apply Hin]. }
    assert (Hpc : p - c < length cur) by lia.
    assert (E0 : remove_nth (p - c) cur = filter (fun kv => negb (Nat.eqb (fst kv) j)) cur).
    { rewrite (remove_nth_filter cur (p - c) d Hndc Hpc), (Hrel p HLp), Hj. reflexivity. }
    assert (Hnew : filter (fun kv => negb (Nat.eqb (fst kv) j)) cur = keep (removed ++ [j]) orig).
    { subst cur. unfold keep. rewrite filter_filter_comm_and. apply filter_ext. intros [k v]. cbn [fst].
      assert (Hm : memb k (removed ++ [j]) = memb k removed || Nat.eqb k j).
      { unfold memb. rewrite existsb_app. cbn [existsb]. rewrite orb_false_r. reflexivity. }
      rewrite Hm, negb_orb. reflexivity. }
    replace (removed ++ j :: map fst rem) with ((removed ++ [j]) ++ map fst rem) by (rewrite <- app_assoc; reflexivity).
    apply (IH (S c) (S p)).
    + rewrite E0. exact Hnew.
    + pose proof (length_remove_nth (p - c) cur Hpc) as Hl. lia.
    + intros q Hq. rewrite nth_remove_nth_ge by lia. replace (S (q - S c)) with (q - c) by lia. apply Hrel. lia.
    + lia.
    + exact Hinc.
    + intros jp Hjp. apply Hpos. right; exact Hjp.
Qed.

(* ------------------------------------------------------------------ *)
(* assignments read from association lists *)
Definition epairs (l : pairs) (e0 : env) : env :=
  fun j => match kget j l with Some v => v | None => e0 j end.

Lemma kget_keep_other j removed (l : pairs) : memb j removed = false -> kget j (keep removed l) = kget j l.
Proof.
  intros Hj. unfold keep. induction l as [|[k v] l IH]; [reflexivity|]. cbn [filter fst kget].
  destruct (Nat.eqb_spec k j) as [->|Hne].
  - rewrite Hj. cbn [negb kget]. rewrite Nat.eqb_refl. reflexivity.
  - destruct (negb (memb k removed)); cbn [kget]; [destruct (Nat.eqb_spec k j); [congruence|]|]; exact IH.
Qed.

Lemma kget_none j (l : pairs) : ~ In j (map fst l) -> kget j l = None.
Proof.
  induction l as [|[k v] l IH]; [reflexivity|]. cbn [map fst kget]. intros H.
  destruct (Nat.eqb_spec k j) as [->|_]; [exfalso; apply H; left; reflexivity|]. apply IH. intros H'. apply H. right; exact H'.
Qed.

Lemma apply_key_kget (k : skey) : NoDup (map fst k) -> forall e j,
  apply_key e k j = match kget j k with Some v => v | None => e j end.
Proof.
  induction k as [|[a v] k IH]; intros Hnd e j; [reflexivity|]. cbn [map fst] in Hnd. inversion Hnd as [|? ? Hn Hnd']; subst.
  cbn [apply_key kget]. rewrite (IH Hnd'). destruct (Nat.eqb_spec a j) as [->|Hne].
  - rewrite (kget_none j k Hn). unfold upd. rewrite Nat.eqb_refl. reflexivity.
  - destruct (kget j k); [reflexivity|]. unfold upd. destruct (Nat.eqb_spec j a); [congruence|reflexivity].
Qed.

Lemma apply_key_app e k1 k2 : apply_key e (k1 ++ k2) = apply_key (apply_key e k1) k2.
Proof. revert e. induction k1 as [|[a v] k1 IH]; intros e; [reflexivity|]. cbn [app apply_key]. apply IH. Qed.

Lemma sum_keys_env sl : forall e1 e2 F, respects F -> env_eq e1 e2 -> sum_keys sl e1 F = sum_keys sl e2 F.
Proof.
  induction sl as [|s sl IH]; intros e1 e2 F HF He; cbn [sum_keys]; [apply HF, He|].
  f_equal. apply map_ext. intros v. apply IH; [exact HF|]. intros k. unfold upd. destruct (Nat.eqb k (si_ind s)); auto.
Qed.

(* ------------------------------------------------------------------ *)
(* small list facts *)
Lemma map_fst_combine {A B} (a : list A) : forall (b : list B), length a = length b -> map fst (combine a b) = a.
Proof. induction a as [|x a IH]; intros [|y b] H; cbn in *; try lia; [reflexivity|]. rewrite IH by lia. reflexivity. Qed.

Lemma in_combine_seq {A} (l : list A) d : forall s x p, In (x, p) (combine l (seq s (length l))) -> s <= p < s + length l /\ nth (p - s) l d = x.
Proof.
  induction l as [|y l IH]; intros s x p H; [destruct H|]. cbn [length seq combine] in H. destruct H as [E0|H].
  - inversion E0; subst. split; [cbn; lia|]. rewrite Nat.sub_diag. reflexivity.
  - destruct (IH (S s) x p H) as [H1 H2]. split; [cbn [length]; lia|].
    replace (p - s) with (S (p - S s)) by lia. exact H2.
Qed.

Lemma find_pos_nth (l : list nat) d : NoDup l -> forall p, p < length l -> find_pos (nth p l d) l = Some p.
Proof.
  induction l as [|x l IH]; intros Hnd p Hp; cbn [length] in Hp; [lia|]. inversion Hnd as [|? ? Hn Hnd']; subst.
  destruct p as [|p]; cbn [nth find_pos]; [rewrite Nat.eqb_refl; reflexivity|].
  destruct (Nat.eqb_spec x (nth p l d)) as [E0|_]; [exfalso; apply Hn; rewrite E0; apply nth_In; lia|].
  rewrite (IH Hnd' p) by lia. reflexivity.
Qed.

Lemma combine_seq_nth {A} (l : list A) d : combine (seq 0 (length l)) l = map (fun i => (i, nth i l d)) (seq 0 (length l)).
Proof.
  assert (G : forall s, combine (seq s (length l)) l = map (fun i => (i, nth (i - s) l d)) (seq s (length l))).
  { induction l as [|x l IH]; intros s; [reflexivity|]. cbn [length seq combine map]. rewrite Nat.sub_diag. cbn [nth]. f_equal.
    rewrite IH. apply map_ext_in. intros i Hi. apply in_seq in Hi. replace (i - s) with (S (i - S s)) by lia. reflexivity. }
  rewrite G. apply map_ext. intros i. rewrite Nat.sub_0_r. reflexivity.
Qed.

Lemma zsum_single (f : nat -> Z) m a : a < m -> (forall o, o < m -> o <> a -> f o = 0%Z) ->
  zsum (map f (seq 0 m)) = f a.
Proof.
  revert a. induction m as [|m IH]; intros a Ha H0; [lia|].
  rewrite seq_S, map_app, zsum_app. cbn [map Nat.add]. rewrite zsum_cons.
  assert (Hnil : zsum [] = 0%Z) by reflexivity. rewrite Hnil.
  destruct (Nat.eq_dec a m) as [->|Hne].
  - assert (Hz : zsum (map f (seq 0 m)) = 0%Z).
    { clear IH Ha. assert (G : forall k, k <= m -> zsum (map f (seq 0 k)) = 0%Z).
      { induction k as [|k IHk]; intros Hk; [reflexivity|]. rewrite seq_S, map_app, zsum_app, IHk by lia. cbn [map Nat.add].
        rewrite zsum_cons, Hnil, H0 by lia. reflexivity. }
      apply G. lia. }
    rewrite Hz. lia.
  - rewrite (IH a) by (try lia; intros; apply H0; lia). rewrite (H0 m) by lia. lia.
Qed.

Lemma map_eq_pointwise {A B} (f g : A -> B) l : map f l = map g l -> forall x, In x l -> f x = g x.
Proof.
  induction l as [|y l IH]; intros E0 x Hx; [destruct Hx|]. cbn [map] in E0. inversion E0 as [[E1 E2]].
  destruct Hx as [->|Hx]; [exact E1|apply IH; assumption].
Qed.

(* two association lists with the same duplicate-free key list and the same values are equal *)
Lemma assoc_eq (a : skey) : forall b, map fst a = map fst b -> NoDup (map fst a) ->
  (forall j, In j (map fst a) -> kget0 j a = kget0 j b) -> a = b.
Proof.
  induction a as [|[k v] a IH]; intros [|[k' v'] b] Hk Hnd Hv; cbn [map fst] in *; try discriminate; [reflexivity|].
  inversion Hk as [[E1 E2]]. subst k'. inversion Hnd as [|? ? Hn Hnd']; subst.
  pose proof (Hv k (or_introl eq_refl)) as H0. unfold kget0 in H0. cbn [kget] in H0. rewrite Nat.eqb_refl in H0. subst v'.
  f_equal. apply IH; [exact E2|exact Hnd'|]. intros j Hj. specialize (Hv j (or_intror Hj)). unfold kget0 in *. cbn [kget] in Hv.
  destruct (Nat.eqb_spec k j) as [->|_]; [contradiction|exact Hv].
Qed.

Lemma kget0_app_l j (a b : skey) : In j (map fst a) -> kget0 j (a ++ b) = kget0 j a.
Proof.
  unfold kget0. induction a as [|[k v] a IH]; intros H; [destruct H|]. cbn [app kget map fst] in *.
  destruct (Nat.eqb_spec k j); [reflexivity|]. apply IH. destruct H; [congruence|assumption].
Qed.

Lemma kget0_map_inds (f : sinfo -> nat) l s : NoDup (map si_ind l) -> In s l ->
  kget0 (si_ind s) (map (fun s => (si_ind s, f s)) l) = f s.
Proof.
  unfold kget0. induction l as [|x l IH]; intros Hnd Hs; [destruct Hs|]. cbn [map kget] in *.
  inversion Hnd as [|? ? Hn Hnd']; subst. destruct Hs as [->|Hs]; [rewrite Nat.eqb_refl; reflexivity|].
  destruct (Nat.eqb_spec (si_ind x) (si_ind s)) as [E0|_]; [exfalso; apply Hn; rewrite E0; apply in_map, Hs|apply IH; assumption].
Qed.

Lemma si_of_in sl s : NoDup (map si_ind sl) -> In s sl -> si_of sl (si_ind s) = s.
Proof.
  unfold si_of. induction sl as [|x sl IH]; intros Hnd Hs; [destruct Hs|]. cbn [find map] in *.
  inversion Hnd as [|? ? Hn Hnd']; subst. destruct Hs as [->|Hs]; [rewrite Nat.eqb_refl; reflexivity|].
  destruct (Nat.eqb_spec (si_ind x) (si_ind s)) as [E0|_]; [exfalso; apply Hn; rewrite E0; apply in_map, Hs|apply IH; assumption].
Qed.

(* ------------------------------------------------------------------ *)
(* the partial-sum dict as an indicator sum *)
Definition oval (a : option tens) (x : list nat) : Z := match a with Some c => tget c x | None => 0%Z end.

Lemma acc_filter_value (f : nat * tens -> bool) x l : forall acc,
  oval (fold_left acc_add (map snd (filter f l)) acc) x =
  (oval acc x + zsum (map (fun is_ => if f is_ then tget (snd is_) x else 0%Z) l))%Z.
Proof.
  induction l as [|is_ l IH]; intros acc; cbn [filter map fold_left].
  - unfold zsum. cbn. lia.
  - rewrite zsum_cons. destruct (f is_); cbn [map fold_left].
    + rewrite IH. unfold acc_add. destruct acc; cbn [oval tadd tget]; lia.
    + rewrite IH. lia.
Qed.

Lemma unstack_ok_from sl rem : forall c L idx0 idx,
  c <= L -> increasing_from L (map snd rem) ->
  (forall q, L <= q -> nth (q - c) idx 0 = nth q idx0 0) ->
  (forall jp, In jp rem -> nth (snd jp) idx0 0 < length (sliced_range (si_of sl (fst jp)))) ->
  unstack_ok sl c rem idx.
Proof.
  induction rem as [|[j p] rem IH]; intros c L idx0 idx HcL Hinc Hrel Hr; [exact I|].
  cbn [map snd increasing_from] in Hinc. destruct Hinc as [HLp Hinc]. cbn [unstack_ok]. split.
  - rewrite (Hrel p HLp). apply (Hr (j, p)). left; reflexivity.
  - apply (IH (S c) (S p) idx0); [lia|exact Hinc| |].
    + intros q Hq. rewrite nth_remove_nth_ge by lia. replace (S (q - S c)) with (q - c) by lia. apply Hrel. lia.
    + intros jp Hjp. apply Hr. right; exact Hjp.
Qed.

Lemma map_nth_seq' {A} (l : list A) d : map (fun k => nth k l d) (seq 0 (length l)) = l.
Proof.
  induction l as [|x l IH]; [reflexivity|].
  cbn [length seq map nth]. f_equal.
  rewrite <- seq_shift, map_map. exact IH.
Qed.

Lemma gather_indicator sl output slices idx :
  slices <> [] ->
  (forall jp, In jp (output_pos output sl) -> nth (snd jp) idx 0 < length (sliced_range (si_of sl (fst jp)))) ->
  tget (gather_slices sl output slices) idx =
  zsum (map (fun i => if eqb (slice_output_key sl output i) (declared_key sl output idx)
                      then tget (nth i slices dummy_t) (peel 0 (map snd (output_pos output sl)) idx) else 0%Z)
            (seq 0 (length slices))).
Proof.
  intros Hne Hr. destruct (output_pos output sl) as [|jp0 rest] eqn:Eo.
  - destruct slices as [|s0 slices]; [contradiction|].
    rewrite (gather_inner_only sl output s0 slices idx Eo).
    unfold slice_output_key, declared_key. rewrite Eo.
    transitivity (zsum (map (fun t => tget t idx) (map (fun k => nth k (s0 :: slices) dummy_t) (seq 0 (length (s0 :: slices)))))).
    { rewrite map_nth_seq'. reflexivity. }
    rewrite map_map. apply f_equal, map_ext. intros i. reflexivity.
  - assert (Hne' : output_pos output sl <> []) by (rewrite Eo; discriminate).
    assert (Hok : unstack_ok sl 0 (output_pos output sl) idx).
    { apply (unstack_ok_from sl _ 0 0 idx idx); [lia|apply output_pos_increasing| |exact (fun jp H => Hr jp ltac:(rewrite <- Eo; exact H))].
      intros q _. rewrite Nat.sub_0_r. reflexivity. }
    rewrite (gather_stacks_at_declared_positions sl output slices idx Hne' Hok), unstack_snd.
    set (f := fun is_ : nat * tens => eqb (slice_output_key sl output (fst is_)) (declared_key sl output idx)).
    rewrite <- Eo.
    transitivity (oval (fold_left acc_add (map snd (filter f (combine (seq 0 (length slices)) slices))) None)
                       (peel 0 (map snd (output_pos output sl)) idx)).
    { destruct (fold_left acc_add _ None); reflexivity. }
    rewrite acc_filter_value. cbn [oval]. rewrite Z.add_0_l.
    rewrite (combine_seq_nth slices dummy_t), map_map. apply f_equal, map_ext. intros i. reflexivity.
Qed.

Lemma kget_in_some j (l : pairs) : In j (map fst l) -> kget j l <> None.
Proof.
  induction l as [|[k v] l IH]; intros H; [destruct H|]. cbn [map fst kget] in *.
  destruct (Nat.eqb_spec k j); [discriminate|]. apply IH. destruct H; [congruence|assumption].
Qed.

Lemma kget_combine_nth (l : list ix) : NoDup l -> forall (vals : list nat) p,
  length vals = length l -> p < length l -> kget (nth p l 0) (combine l vals) = Some (nth p vals 0).
Proof.
  induction l as [|y l IH]; intros Hnd vals p Hlen Hp; cbn [length] in Hp; [lia|].
  destruct vals as [|v vals]; cbn [length] in Hlen; [lia|]. inversion Hnd as [|? ? Hnin Hnd']; subst.
  cbn [combine kget]. destruct p as [|p]; cbn [nth].
  - rewrite Nat.eqb_refl. reflexivity.
  - destruct (Nat.eqb_spec y (nth p l 0)) as [E0|_]; [exfalso; apply Hnin; rewrite E0; apply nth_In; lia|].
    apply IH; [exact Hnd'|lia|lia].
Qed.

(* ------------------------------------------------------------------ *)
Section Gather.
Variable output : list ix.
Variable st : sstate.
Notation sl := (ss_sliced st).
Hypothesis Hinv : inv output st.
Hypothesis HndO : NoDup output.
Variable G : env -> Z.
Hypothesis HG : respects G.
Variable e0 : env.
Variable slices : list tens.
Hypothesis Hlen : length slices = total sl.
Variable idx : list nat.
Hypothesis Hidx : length idx = length output.

Definition sliced_b (j : ix) : bool := memb j (map si_ind sl).
(* the axes of a slice result: the output indices that are not sliced *)
Definition out' : list ix := filter (fun j => negb (sliced_b j)) output.
Notation opos := (output_pos output sl).
Notation ps := (map snd opos).
Notation R := (map fst opos).

Hypothesis Hrange : forall jp, In jp opos -> nth (snd jp) idx 0 < length (sliced_range (si_of sl (fst jp))).
(* the abstract per-slice evaluator: slice i, read at a multi-index over out', is G at the
   assignment given by that multi-index and the slice key *)
Hypothesis Hslice : forall i idx', i < total sl -> length idx' = length out' ->
  tget (nth i slices dummy_t) idx' = G (apply_key (epairs (combine out' idx') e0) (slice_key sl i)).

Let Hwf : wf_sl sl := proj1 Hinv.
Let Hof : outer_first_b sl = true := proj1 (proj2 Hinv).
Let Hnds : NoDup (map si_ind sl) := proj1 (proj2 (proj2 Hinv)).
Let Hfl : flags_ok output sl := proj2 (proj2 (proj2 (proj2 Hinv))).

Definition orig : pairs := combine output idx.
Let d0 : ix * nat := (0, 0).

Lemma orig_keys : map fst orig = output.
Proof. apply map_fst_combine. symmetry. exact Hidx. Qed.
Lemma orig_len : length orig = length output.
Proof. unfold orig. rewrite combine_length, Hidx. apply Nat.min_id. Qed.

Lemma opos_spec j p : In (j, p) opos <-> p < length output /\ nth p output 0 = j /\ sliced_b j = true.
Proof.
  unfold output_pos. rewrite filter_In. cbn [fst]. fold (sliced_b j). split.
  - intros [H Hs]. destruct (in_combine_seq output 0 0 j p H) as [H1 H2]. rewrite Nat.sub_0_r in H2. repeat split; [lia|exact H2|exact Hs].
  - intros (Hp & Hn & Hs). split; [|exact Hs]. rewrite <- Hn.
    assert (G0 : forall (l : list ix) s q, q < length l -> In (nth q l 0, s + q) (combine l (seq s (length l)))).
    { induction l as [|x l IH]; intros s q Hq; cbn [length] in Hq; [lia|]. cbn [length seq combine]. destruct q as [|q].
      - left. cbn. f_equal. lia.
      - right. cbn [nth]. replace (s + S q) with (S s + q) by lia. apply IH. lia. }
    apply (G0 output 0 p Hp).
Qed.

Lemma R_spec j : In j R <-> In j output /\ sliced_b j = true.
Proof.
  rewrite in_map_iff. split.
  - intros ([j' p] & E0 & H). cbn in E0. subst j'. apply opos_spec in H. destruct H as (Hp & Hn & Hs). split; [rewrite <- Hn; apply nth_In, Hp|exact Hs].
  - intros [Hin Hs]. destruct (In_nth output j 0 Hin) as (p & Hp & Hn). exists (j, p). split; [reflexivity|]. apply opos_spec. auto.
Qed.

(* the residual multi-index and its assignment *)
Definition idx' : list nat := peel 0 ps idx.

Lemma peel_orig : peel 0 ps orig = keep R orig.
Proof.
  apply (peel_pairs orig d0) with (L := 0) (removed := []).
  - rewrite orig_keys. exact HndO.
  - unfold keep. symmetry. apply filter_all. apply forallb_forall. intros; reflexivity.
  - lia.
  - intros q _. rewrite Nat.sub_0_r. reflexivity.
  - lia.
  - apply output_pos_increasing.
  - intros [j p] H. apply opos_spec in H. destruct H as (Hp & Hn & _). cbn [fst snd]. rewrite orig_len. split; [exact Hp|].
    change (fst (nth p orig d0)) with (fst (nth p orig (0, 0))).
    rewrite <- (map_nth fst orig (0,0) p). cbn [fst]. rewrite orig_keys. exact Hn.
Qed.

Lemma map_fst_keep (a : list ix) : forall (b : list nat) rem, length a = length b ->
  map fst (keep rem (combine a b)) = filter (fun j => negb (memb j rem)) a.
Proof.
  induction a as [|x a IH]; intros [|y b] rem H; cbn [length] in H; try lia; [reflexivity|].
  unfold keep in *. cbn [combine filter fst]. destruct (negb (memb x rem)); cbn [map fst]; rewrite IH by lia; reflexivity.
Qed.

Lemma out'_peel : peel 0 ps output = out'.
Proof.
  transitivity (peel 0 ps (map fst orig)); [rewrite orig_keys; reflexivity|].
  rewrite peel_map, peel_orig. unfold orig. rewrite map_fst_keep by (symmetry; exact Hidx).
  unfold out'. apply filter_ext_in. intros j Hj. f_equal.
  destruct (sliced_b j) eqn:Es.
  - apply memb_In. apply R_spec. auto.
  - apply memb_false. intros H. apply R_spec in H. destruct H as [_ H]. congruence.
Qed.

Lemma residual_pairs : combine out' idx' = keep R orig.
Proof. rewrite <- out'_peel. unfold idx'. rewrite <- peel_combine. apply peel_orig. Qed.

Lemma peel_length_eq {A B} l : forall c (a : list A) (b : list B), length a = length b -> length (peel c l a) = length (peel c l b).
Proof.
  induction l as [|p l IH]; intros c a b H; [exact H|]. cbn [peel]. apply IH.
  revert a b H. generalize (p - c). induction n as [|n IHn]; intros [|x a] [|y b] H; cbn in *; try lia. f_equal. apply IHn. lia.
Qed.
Lemma idx'_len : length idx' = length out'.
Proof. unfold idx'. rewrite <- out'_peel. apply peel_length_eq. exact Hidx. Qed.

(* the assignment read off the full multi-index *)
Definition full_pairs : pairs :=
  map (fun jv => (fst jv, if sliced_b (fst jv) then range_val (si_of sl (fst jv)) (snd jv) else snd jv)) orig.

(* the key of the sliced output indices declared by idx, in sliced_inds order *)
Definition posof (j : ix) : nat := match find_pos j output with Some p => p | None => 0 end.
Definition K : skey := map (fun s => (si_ind s, range_val s (nth (posof (si_ind s)) idx 0))) (outs sl).

Lemma outs_in s : In s (outs sl) -> In s sl /\ In (si_ind s, posof (si_ind s)) opos.
Proof.
  intros H. unfold outs in H. apply filter_In in H. destruct H as [Hin Hb]. split; [exact Hin|].
  unfold flags_ok in Hfl. rewrite Forall_forall in Hfl. rewrite (Hfl s Hin), negb_involutive in Hb. apply memb_In in Hb.
  destruct (In_nth output (si_ind s) 0 Hb) as (p & Hp & Hn). apply opos_spec.
  assert (Hf : find_pos (si_ind s) output = Some p) by (rewrite <- Hn; apply (find_pos_nth output 0 HndO p Hp)).
  assert (Hpos : posof (si_ind s) = p) by (unfold posof; rewrite Hf; reflexivity).
  rewrite Hpos. repeat split; [exact Hp|exact Hn|]. unfold sliced_b. apply memb_In, in_map, Hin.
Qed.

Lemma opos_in_outs j p : In (j, p) opos -> exists s, In s (outs sl) /\ si_ind s = j /\ posof j = p /\ si_of sl j = s.
Proof.
  intros H. apply opos_spec in H. destruct H as (Hp & Hn & Hs). unfold sliced_b in Hs. apply memb_In in Hs.
  apply in_map_iff in Hs. destruct Hs as (s & Es & Hin). exists s.
  assert (Hf : find_pos j output = Some p) by (rewrite <- Hn; apply (find_pos_nth output 0 HndO p Hp)).
  assert (Hpos : posof j = p) by (unfold posof; rewrite Hf; reflexivity).
  split; [|split; [exact Es|split; [exact Hpos|rewrite <- Es; apply si_of_in; assumption]]].
  unfold outs. apply filter_In. split; [exact Hin|]. unfold flags_ok in Hfl. rewrite Forall_forall in Hfl.
  rewrite (Hfl s Hin), negb_involutive, Es. apply memb_In. rewrite <- Hn. apply nth_In, Hp.
Qed.

Lemma NoDup_outs_inds : NoDup (map si_ind (outs sl)).
Proof. apply NoDup_map_filter, Hnds. Qed.

Lemma K_keys : map fst K = map si_ind (outs sl).
Proof. unfold K. rewrite map_map. reflexivity. Qed.

Lemma K_get s : In s (outs sl) -> kget0 (si_ind s) K = range_val s (nth (posof (si_ind s)) idx 0).
Proof. intros Hs. unfold K. apply (kget0_map_inds (fun s => range_val s (nth (posof (si_ind s)) idx 0)) (outs sl) s NoDup_outs_inds Hs). Qed.

Lemma K_valid : valid_key (outs sl) K.
Proof.
  unfold valid_key, K.
  assert (G0 : forall l, (forall s, In s l -> In s (outs sl)) ->
            Forall2 valid_entry l (map (fun s => (si_ind s, range_val s (nth (posof (si_ind s)) idx 0))) l)).
  { induction l as [|s l IH]; intros Hl; cbn [map]; constructor; [|apply IH; intros x Hx; apply Hl; right; exact Hx].
    unfold valid_entry. cbn [fst snd]. split; [reflexivity|].
    destruct (outs_in s (Hl s (or_introl eq_refl))) as [Hin Hop].
    pose proof (Hrange _ Hop) as Hr. cbn [fst snd] in Hr. rewrite (si_of_in sl s Hnds Hin) in Hr.
    unfold range_val, sliced_range in *. destruct (si_proj s); [reflexivity|]. rewrite seq_length in Hr. exact Hr. }
  apply G0. auto.
Qed.

Definition ostar : nat := encode (outs sl) K.
Lemma ostar_lt : ostar < nchunks sl.
Proof. rewrite nchunks_total. apply (decode_encode (outs sl) (wf_filter _ sl Hwf) K K_valid). Qed.
Lemma ostar_key : slice_key (outs sl) ostar = K.
Proof. rewrite slice_key_decode. apply (decode_encode (outs sl) (wf_filter _ sl Hwf) K K_valid). Qed.

(* which slices feed the entry at idx: exactly those of output block ostar *)
Lemma match_iff o j : o < nchunks sl -> j < stepsize sl ->
  (eqb (slice_output_key sl output (o * stepsize sl + j)) (declared_key sl output idx) = true <-> o = ostar).
Proof.
  intros Ho Hj. rewrite keyeqb_spec. unfold slice_output_key, declared_key.
  rewrite (slice_key_output_major sl Hwf Hof o j Ho Hj).
  set (KO := slice_key (outs sl) o). set (KI := slice_key (inns sl) j).
  assert (HKOk : map fst KO = map si_ind (outs sl)) by (unfold KO; rewrite slice_key_decode; apply decode_inds).
  assert (Hpt : forall jp, In jp opos ->
            (kget0 (fst jp) (KO ++ KI) = range_val (si_of sl (fst jp)) (nth (snd jp) idx 0) <->
             kget0 (fst jp) KO = kget0 (fst jp) K)).
  { intros [j0 p] Hin. cbn [fst snd]. destruct (opos_in_outs j0 p Hin) as (s & Hs & Es & Hp & Hsi).
    rewrite kget0_app_l by (rewrite HKOk, <- Es; apply in_map, Hs).
    pose proof (K_get s Hs) as HK. rewrite Es, Hp in HK. rewrite Hsi, HK. tauto. }
  split.
  - intros E0. assert (KO = K).
    { apply assoc_eq; [rewrite HKOk, K_keys; reflexivity|rewrite HKOk; apply NoDup_outs_inds|].
      intros j0 Hj0. rewrite HKOk in Hj0. apply in_map_iff in Hj0. destruct Hj0 as (s & Es & Hs).
      destruct (outs_in s Hs) as [_ Hop]. rewrite Es in Hop.
      apply (Hpt _ Hop). apply (map_eq_pointwise _ _ _ E0 _ Hop). }
    apply (slice_key_injective (outs sl) (wf_filter _ sl Hwf)); [rewrite <- nchunks_total; exact Ho|rewrite <- nchunks_total; apply ostar_lt|].
    fold KO. rewrite ostar_key. assumption.
  - intros ->. apply map_ext_in. intros jp Hin. apply (Hpt jp Hin). unfold KO. rewrite ostar_key. reflexivity.
Qed.

(* the two assignments agree *)
Lemma env_agree : env_eq (apply_key (epairs (combine out' idx') e0) K) (epairs full_pairs e0).
Proof.
  intros x. rewrite apply_key_kget by (rewrite K_keys; apply NoDup_outs_inds). rewrite residual_pairs.
  unfold epairs at 2.
  assert (Hfp : kget x full_pairs = match kget x orig with
                                    | Some v => Some (if sliced_b x then range_val (si_of sl x) v else v) | None => None end).
  { unfold full_pairs. induction orig as [|[k v] l IH]; [reflexivity|]. cbn [map fst snd kget].
    destruct (Nat.eqb_spec k x) as [->|_]; [reflexivity|exact IH]. }
  rewrite Hfp.
  destruct (in_dec Nat.eq_dec x (map fst K)) as [HinK|HninK].
  - (* a sliced output index *)
    rewrite K_keys in HinK. apply in_map_iff in HinK. destruct HinK as (s & Es & Hs).
    destruct (outs_in s Hs) as [Hin Hop]. rewrite Es in Hop.
    pose proof (K_get s Hs) as Hk. rewrite Es in Hk. unfold kget0 in Hk.
    destruct (kget x K) as [v|] eqn:EK.
    + apply opos_spec in Hop. destruct Hop as (Hp & Hn & Hsb). rewrite Hsb.
      pose proof (kget_combine_nth output HndO idx (posof x) Hidx Hp) as Hox. rewrite Hn in Hox. fold orig in Hox.
      rewrite Hox, Hk. pose proof (si_of_in sl s Hnds Hin) as Hsi. rewrite Es in Hsi. rewrite Hsi. reflexivity.
    + exfalso. apply (kget_in_some x K); [rewrite K_keys, <- Es; apply in_map, Hs|exact EK].
  - rewrite (kget_none x K HninK). unfold epairs.
    assert (HxR : memb x R = false).
    { apply memb_false. intros H. apply R_spec in H. destruct H as [Hxo Hs]. apply HninK. rewrite K_keys.
      destruct (In_nth output x 0 Hxo) as (p & Hp & Hn).
      destruct (opos_in_outs x p (proj2 (opos_spec x p) (conj Hp (conj Hn Hs)))) as (s & Hs' & Es & _). rewrite <- Es. apply in_map, Hs'. }
    rewrite (kget_keep_other x R orig HxR).
    destruct (kget x orig) as [v|] eqn:Eo; [|reflexivity].
    (* x is an output index (it has a binding) and is not in R, so it is not sliced *)
    assert (Hxo : In x output).
    { rewrite <- orig_keys. clear -Eo. induction orig as [|[k w] l IH]; [discriminate|]. cbn [kget map fst] in *.
      destruct (Nat.eqb_spec k x); [left; assumption|right; apply IH, Eo]. }
    destruct (sliced_b x) eqn:Es; [|reflexivity].
    exfalso. apply memb_false in HxR. apply HxR, R_spec. auto.
Qed.

(* gather_correct *)
Theorem gather_correct :
  tget (gather_slices sl output slices) idx = sum_keys (inns sl) (epairs full_pairs e0) G.
Proof.
  pose proof (total_pos sl Hwf) as Hpos.
  assert (Hne : slices <> []) by (intros ->; cbn in Hlen; lia).
  rewrite (gather_indicator sl output slices idx Hne Hrange). fold idx'.
  rewrite Hlen, (total_split sl Hof), seq_mixed, map_flat_map, zsum_flat_map.
  rewrite (zsum_single _ (nchunks sl) ostar ostar_lt).
  - (* the block ostar *)
    transitivity (zsum (map (fun j => G (apply_key (apply_key (epairs (combine out' idx') e0) K) (slice_key (inns sl) j)))
                            (seq 0 (total (inns sl))))).
    + rewrite map_map, <- stepsize_total. apply f_equal, map_ext_in. intros j Hj. apply in_seq in Hj.
      rewrite (proj2 (match_iff ostar j ostar_lt ltac:(lia)) eq_refl).
      rewrite Hslice; [|rewrite (total_split sl Hof); apply Nat.lt_le_trans with (S ostar * stepsize sl); [lia|apply Nat.mul_le_mono_r; pose proof ostar_lt; lia]|apply idx'_len].
      rewrite (slice_key_output_major sl Hwf Hof ostar j ostar_lt ltac:(lia)), ostar_key, apply_key_app. reflexivity.
    + rewrite (sum_over_slice_numbers (inns sl) _ G (wf_filter _ sl Hwf)).
      apply sum_keys_env; [exact HG|apply env_agree].
  - intros o Ho Hne'. rewrite map_map.
    assert (Hz : forall l, zsum (map (fun j => if eqb (slice_output_key sl output (o * stepsize sl + j)) (declared_key sl output idx)
                                    then tget (nth (o * stepsize sl + j) slices dummy_t) idx' else 0%Z) l) = 0%Z
                 \/ exists j, In j l /\ ~ j < stepsize sl).
    { induction l as [|j l IH]; [left; reflexivity|]. destruct (Nat.lt_ge_cases j (stepsize sl)) as [Hj|Hj].
      - destruct IH as [IH|(j' & Hj' & Hn)]; [|right; exists j'; split; [right; exact Hj'|exact Hn]].
        left. cbn [map]. rewrite zsum_cons, IH.
        destruct (eqb (slice_output_key sl output (o * stepsize sl + j)) (declared_key sl output idx)) eqn:Em; [|reflexivity].
        apply (match_iff o j Ho Hj) in Em. contradiction.
      - right. exists j. split; [left; reflexivity|lia]. }
    destruct (Hz (seq 0 (stepsize sl))) as [H|(j & Hj & Hn)]; [exact H|]. apply in_seq in Hj. lia.
Qed.
End Gather.

(* with the per-slice evaluator itself a sum over the unsliced inner indices `rest` of a
   summand F, and the sliced inner indices genuinely sliced (not projected), the gathered
   entry is the full sum over (sliced inner ++ rest): the unsliced contraction's entry *)
Corollary gather_is_unsliced_sum size output st F rest e0 slices idx :
  inv output st -> NoDup output -> respects F ->
  length slices = total (ss_sliced st) -> length idx = length output ->
  (forall jp, In jp (output_pos output (ss_sliced st)) ->
     nth (snd jp) idx 0 < length (sliced_range (si_of (ss_sliced st) (fst jp)))) ->
  (forall i idx', i < total (ss_sliced st) -> length idx' = length (out' output st) ->
     tget (nth i slices dummy_t) idx' =
     sum_over size rest (apply_key (epairs (combine (out' output st) idx') e0) (slice_key (ss_sliced st) i)) F) ->
  plain size (inns (ss_sliced st)) ->
  tget (gather_slices (ss_sliced st) output slices) idx =
  sum_over size (map si_ind (inns (ss_sliced st)) ++ rest) (epairs (full_pairs output st idx) e0) F.
Proof.
  intros Hinv HndO HF Hlen Hidx Hrange Hslice Hplain.
  rewrite (gather_correct output st Hinv HndO (fun e => sum_over size rest e F)
             (fun e1 e2 He => sum_over_env size rest e1 e2 F HF He) e0 slices Hlen idx Hidx Hrange Hslice).
  rewrite (sum_keys_plain size _ Hplain), sum_over_app. reflexivity.
Qed.

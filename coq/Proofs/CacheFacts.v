(* CacheFacts.v -- lemmas about Model/CacheState.v (property C13). *)
From Coq Require Import String Lia.
From Ctg Require Import Base CacheState.
Open Scope Z_scope.

(* ------------------------------------------------------------------ *)
(* Python == on tuples is elementwise                                   *)
Lemma py_eqb_tuple : forall l m, py_eqb (PTuple l) (PTuple m) = pylist_eqb l m.
Proof.
  intros l m. unfold pylist_eqb. cbn [py_eqb num_of].
  revert m. induction l as [|x l IH]; intros [|y m]; cbn [list_eqb]; try reflexivity.
  rewrite IH. reflexivity.
Qed.

Lemma pylist_eqb_map : forall (A : Type) (g1 g2 : A -> pyval) (l : list A),
  pylist_eqb (map g1 l) (map g2 l) = true ->
  forall x, In x l -> py_eqb (g1 x) (g2 x) = true.
Proof.
  unfold pylist_eqb. induction l as [|a l IH]; cbn [map list_eqb]; intros H x Hin.
  - destruct Hin.
  - apply andb_true_iff in H. destruct H as [H1 H2].
    destruct Hin as [E|Hin]; [subst; exact H1 | exact (IH H2 x Hin)].
Qed.

Lemma pylist_eqb_map_intro : forall (A : Type) (g1 g2 : A -> pyval) (l : list A),
  (forall x, In x l -> py_eqb (g1 x) (g2 x) = true) ->
  pylist_eqb (map g1 l) (map g2 l) = true.
Proof.
  unfold pylist_eqb. induction l as [|a l IH]; cbn [map list_eqb]; intros H; [reflexivity|].
  rewrite (H a (or_introl eq_refl)). cbn [andb]. apply IH. intros x Hx. apply H. right. exact Hx.
Qed.

(* ------------------------------------------------------------------ *)
(* induction over key expressions (nested in list)                      *)
Section KexprInd.
  Variable P : kexpr -> Prop.
  Hypothesis Hf : forall f w, P (KField f w).
  Hypothesis Hl : forall f, P (KLen f).
  Hypothesis Hh : forall k, P k -> P (KHash k).
  Hypothesis Ht : forall l, Forall P l -> P (KTuple l).
  Fixpoint kexpr_induction (k : kexpr) : P k :=
    match k with
    | KField f w => Hf f w
    | KLen f => Hl f
    | KHash k' => Hh k' (kexpr_induction k')
    | KTuple l => Ht l ((fix go (l : list kexpr) : Forall P l :=
                           match l with
                           | [] => Forall_nil P
                           | x :: l' => Forall_cons x (kexpr_induction x) (go l')
                           end) l)
    end.
End KexprInd.

(* equal dict keys force the fields that reach the key injectively to agree, view by view *)
Lemma inj_fields_agree : forall e k c1 c2,
  py_eqb (eval_kexpr e c1 k) (eval_kexpr e c2 k) = true ->
  forall f w, In (f, w) (inj_fields k) -> fequiv w (getf c1 f) (getf c2 f).
Proof.
  intros e k c1 c2. induction k as [f w|f|k IH|l IH] using kexpr_induction; intros H g v Hin.
  - cbn [inj_fields] in Hin. destruct Hin as [E|[]]. inversion E; subst. exact H.
  - destruct Hin.
  - destruct Hin.
  - cbn [inj_fields] in Hin. cbn [eval_kexpr] in H. rewrite py_eqb_tuple in H.
    apply in_flat_map in Hin. destruct Hin as [x [Hx Hgx]].
    rewrite Forall_forall in IH.
    apply (IH x Hx); [|exact Hgx].
    exact (pylist_eqb_map _ _ _ _ H x Hx).
Qed.

Lemma strmem_in : forall f l, strmem f l = true -> In f l.
Proof.
  unfold strmem. intros f l H. apply existsb_exists in H. destruct H as [x [Hx E]].
  apply String.eqb_eq in E. subst. exact Hx.
Qed.

Lemma inclb_incl : forall a b, inclb a b = true -> incl a b.
Proof.
  unfold inclb. intros a b H f Hf. rewrite forallb_forall in H. exact (strmem_in _ _ (H f Hf)).
Qed.

Lemma in_map_fst : forall (s : key_spec) f, In f (map fst s) -> exists w, In (f, w) s.
Proof.
  intros s f H. apply in_map_iff in H. destruct H as [[g w] [E Hin]]. cbn in E. subst. exists w. exact Hin.
Qed.

(* the generic non-interference lemma: if every field the computation reads reaches the
   key injectively, two calls with equal keys agree on every field the computation reads *)
Lemma noninterference : forall e k used c1 c2,
  inclb used (map fst (inj_fields k)) = true ->
  py_eqb (eval_kexpr e c1 k) (eval_kexpr e c2 k) = true ->
  agree_on (inj_fields k) used c1 c2.
Proof.
  intros e k used c1 c2 Hincl Heq f Hf.
  destruct (in_map_fst _ _ (inclb_incl _ _ Hincl f Hf)) as [w Hw].
  exists w. split; [exact Hw|]. exact (inj_fields_agree e k c1 c2 Heq f w Hw).
Qed.

Theorem key_determines_result : forall (R : Type) e k used (build : fields -> R),
  inclb used (map fst (inj_fields k)) = true ->
  (forall c1 c2, agree_on (inj_fields k) used c1 c2 -> build c1 = build c2) ->
  forall c1 c2, py_eqb (eval_kexpr e c1 k) (eval_kexpr e c2 k) = true -> build c1 = build c2.
Proof.
  intros R e k used build Hincl Hb c1 c2 Heq. apply Hb. exact (noninterference e k used c1 c2 Hincl Heq).
Qed.

(* the fields of a key with the hashes stripped are all its fields *)
Lemma inj_fields_strip : forall k, inj_fields (strip_hash k) = all_fields k.
Proof.
  induction k as [f w|f|k IH|l IH] using kexpr_induction; cbn [strip_hash inj_fields all_fields]; try reflexivity.
  - exact IH.
  - induction l as [|x l IHl]; cbn [map flat_map]; [reflexivity|].
    inversion IH as [|? ? Hx Hl]; subst. rewrite Hx, (IHl Hl). reflexivity.
Qed.

Lemma strip_hash_no_hash : forall k, has_hash k = false -> strip_hash k = k.
Proof.
  induction k as [f w|f|k IH|l IH] using kexpr_induction; cbn [strip_hash has_hash]; intros H;
    try reflexivity; try discriminate.
  f_equal. induction l as [|x l IHl]; cbn [map]; [reflexivity|].
  cbn [existsb] in H. apply orb_false_iff in H. destruct H as [H1 H2].
  inversion IH as [|? ? Hx Hl]; subst. rewrite (Hx H1), (IHl Hl H2). reflexivity.
Qed.

(* ------------------------------------------------------------------ *)
(* the memo machine                                                      *)
Section MemoFacts.
  Context {C R : Type}.
  Variable dkey : C -> pyval.
  Variable usecache : C -> bool.
  Variable keyok : C -> bool.
  Variable fallback : bool.
  Variable compute : C -> R.

  (* calls whose keys the dict cannot tell apart compute the same object *)
  Definition sep (cs : list C) : Prop :=
    forall c1 c2, In c1 cs -> In c2 cs ->
      usecache c1 = true -> usecache c2 = true -> keyok c1 = true -> keyok c2 = true ->
      py_eqb (dkey c1) (dkey c2) = true -> compute c1 = compute c2.
  (* the key computation never raises, or the TypeError is caught *)
  Definition noraise (cs : list C) : Prop :=
    fallback = true \/ forall c, In c cs -> usecache c = true -> keyok c = true.
  (* every entry of the dict was stored by an earlier cacheable call *)
  Definition dinv (d : pydict) (seen : list C) : Prop :=
    forall k r, In (k, r) d ->
      exists c, In c seen /\ usecache c = true /\ keyok c = true /\ dkey c = k /\ r = compute c.

  Lemma dlookup_in : forall k (d : @pydict R) r, dlookup k d = Some r ->
    exists k', In (k', r) d /\ py_eqb k' k = true.
  Proof.
    induction d as [|[k' r'] d IH]; cbn [dlookup]; intros r H; [discriminate|].
    destruct (py_eqb k' k) eqn:E.
    - inversion H; subst. exists k'. split; [left; reflexivity | exact E].
    - destruct (IH r H) as [k2 [Hin He]]. exists k2. split; [right; exact Hin | exact He].
  Qed.

  Lemma dlookup_none : forall k (d : @pydict R), dlookup k d = None ->
    forall k' r, In (k', r) d -> py_eqb k' k = false.
  Proof.
    induction d as [|[k1 r1] d IH]; cbn [dlookup]; intros H k' r Hin; [destruct Hin|].
    destruct (py_eqb k1 k) eqn:E; [discriminate|].
    destruct Hin as [E2|Hin]; [inversion E2; subst; exact E | exact (IH H k' r Hin)].
  Qed.

  Lemma sep_tail : forall seen c cs, sep (seen ++ c :: cs) -> sep ((seen ++ [c]) ++ cs).
  Proof. intros seen c cs H. rewrite <- app_assoc. exact H. Qed.

  Lemma sep_drop : forall seen c cs, sep (seen ++ c :: cs) -> sep (seen ++ cs).
  Proof.
    intros seen c cs H c1 c2 H1 H2. apply H.
    - apply in_app_or in H1. apply in_or_app. destruct H1 as [H1|H1]; [left|right; right]; exact H1.
    - apply in_app_or in H2. apply in_or_app. destruct H2 as [H2|H2]; [left|right; right]; exact H2.
  Qed.

  Lemma noraise_tail : forall c cs, noraise (c :: cs) -> noraise cs.
  Proof.
    intros c cs [Hf|Hk]; [left; exact Hf | right; intros c' Hc'; apply Hk; right; exact Hc'].
  Qed.

  Lemma dinv_weaken : forall d seen c, dinv d seen -> dinv d (seen ++ [c]).
  Proof.
    intros d seen c H k r Hin. destruct (H k r Hin) as [c0 [H0 Hrest]].
    exists c0. split; [apply in_or_app; left; exact H0 | exact Hrest].
  Qed.

  Lemma memo_run_sim : forall cs d seen,
    dinv d seen -> sep (seen ++ cs) -> noraise cs ->
    map out_value (fst (memo_run dkey usecache keyok fallback compute d cs))
    = map (fun c => Some (compute c)) cs.
  Proof.
    induction cs as [|c cs IH]; intros d seen Hinv Hsep Hnr; [reflexivity|].
    pose proof (noraise_tail _ _ Hnr) as Hnr'.
    pose proof (sep_tail _ _ _ Hsep) as Hsep1.
    cbn [memo_run]. unfold memo_step.
    destruct (usecache c) eqn:Eu.
    - destruct (keyok c) eqn:Ek.
      + destruct (dlookup (dkey c) d) as [r|] eqn:El.
        * (* hit: the stored object was computed by an earlier call with an equal key *)
          specialize (IH d (seen ++ [c]) (dinv_weaken _ _ _ Hinv) Hsep1 Hnr').
          destruct (memo_run dkey usecache keyok fallback compute d cs) as [os d2].
          cbn [fst map out_value] in *. f_equal; [|exact IH].
          destruct (dlookup_in _ _ _ El) as [k' [Hin He]].
          destruct (Hinv k' r Hin) as [c0 [Hc0 [Hu0 [Hk0 [Hd0 Hr0]]]]]. subst k' r.
          f_equal. apply (Hsep c0 c); try assumption.
          -- apply in_or_app. left. exact Hc0.
          -- apply in_or_app. right. left. reflexivity.
        * (* miss: compute and store *)
          assert (Hinv1 : dinv (d ++ [(dkey c, compute c)]) (seen ++ [c])).
          { intros k r Hin. apply in_app_or in Hin. destruct Hin as [Hin|[E|[]]].
            - exact (dinv_weaken _ _ c Hinv k r Hin).
            - inversion E; subst. exists c. split; [apply in_or_app; right; left; reflexivity|].
              repeat split; assumption. }
          specialize (IH _ _ Hinv1 Hsep1 Hnr').
          destruct (memo_run dkey usecache keyok fallback compute (d ++ [(dkey c, compute c)]) cs) as [os d2].
          cbn [fst map out_value] in *. f_equal. exact IH.
      + (* unhashable key *)
        destruct Hnr as [Hf|Hk].
        * replace (if fallback then (d, Ok (compute c) false) else (d, RaisedTypeError))
            with (d, Ok (compute c) false) by (rewrite Hf; reflexivity).
          specialize (IH d (seen ++ [c]) (dinv_weaken _ _ _ Hinv) Hsep1 Hnr').
          destruct (memo_run dkey usecache keyok fallback compute d cs) as [os d2].
          cbn [fst map out_value] in *. f_equal. exact IH.
        * rewrite (Hk c (or_introl eq_refl) Eu) in Ek. discriminate.
    - specialize (IH d (seen ++ [c]) (dinv_weaken _ _ _ Hinv) Hsep1 Hnr').
      destruct (memo_run dkey usecache keyok fallback compute d cs) as [os d2].
      cbn [fst map out_value] in *. f_equal. exact IH.
  Qed.

  Theorem cache_transparent : forall cs, sep cs -> noraise cs ->
    cached_outputs dkey usecache keyok fallback compute cs = plain_outputs compute cs.
  Proof.
    intros cs Hsep Hnr. unfold cached_outputs, plain_outputs.
    apply (memo_run_sim cs [] []); [intros k r [] | exact Hsep | exact Hnr].
  Qed.

  (* without the fallback an unhashable key is visible: the cached call raises *)
  Theorem unhashable_visible : forall c, usecache c = true -> keyok c = false -> fallback = false ->
    cached_outputs dkey usecache keyok fallback compute [c] <> plain_outputs compute [c].
  Proof.
    intros c Hu Hk Hf. unfold cached_outputs, plain_outputs. cbn [memo_run]. unfold memo_step.
    rewrite Hu, Hk, Hf. cbn. discriminate.
  Qed.

  (* a collision is visible: two cacheable calls with indistinguishable keys but different results *)
  Theorem collision_visible : forall c1 c2, usecache c1 = true -> usecache c2 = true ->
    keyok c1 = true -> keyok c2 = true -> py_eqb (dkey c1) (dkey c2) = true ->
    cached_outputs dkey usecache keyok fallback compute [c1; c2] = [Some (compute c1); Some (compute c1)].
  Proof.
    intros c1 c2 Hu1 Hu2 Hk1 Hk2 He. unfold cached_outputs. cbn [memo_run]. unfold memo_step.
    rewrite Hu1, Hk1. cbn [dlookup app]. rewrite Hu2, Hk2. cbn [dlookup]. rewrite He. reflexivity.
  Qed.
End MemoFacts.

(* ------------------------------------------------------------------ *)
(* the two caches of interface.py                                        *)
Lemma hash_inj_no_hash : forall e k cs, has_hash k = false -> hash_inj e k cs.
Proof.
  intros e k cs H c1 c2 _ _ He. rewrite (strip_hash_no_hash k H). exact He.
Qed.

Theorem nc_cache_transparent :
  forall (R : Type) e k used fb (build : fields -> R) (cs : list ncall),
  inclb used (map fst (all_fields k)) = true ->
  (forall c1 c2, agree_on (all_fields k) used c1 c2 -> build c1 = build c2) ->
  hash_inj e k cs ->
  (fb = true \/ forall c, In c cs -> nc_use c = true -> nc_keyok k c = true) ->
  cached_outputs (nc_dkey e k) nc_use (nc_keyok k) fb (fun c => build (nc_fields c)) cs
  = plain_outputs (fun c => build (nc_fields c)) cs.
Proof.
  intros R e k used fb build cs Hincl Hb Hinj Hnr.
  apply cache_transparent; [|exact Hnr].
  intros c1 c2 H1 H2 _ _ _ _ He.
  apply (key_determines_result R e (strip_hash k) used build).
  - rewrite inj_fields_strip. exact Hincl.
  - rewrite inj_fields_strip. exact Hb.
  - exact (Hinj c1 c2 H1 H2 He).
Qed.

Theorem nc_cache_transparent_tuple_keyed :
  forall (R : Type) e k used fb (build : fields -> R) (cs : list ncall),
  has_hash k = false ->
  inclb used (map fst (all_fields k)) = true ->
  (forall c1 c2, agree_on (all_fields k) used c1 c2 -> build c1 = build c2) ->
  (fb = true \/ forall c, In c cs -> nc_use c = true -> nc_keyok k c = true) ->
  cached_outputs (nc_dkey e k) nc_use (nc_keyok k) fb (fun c => build (nc_fields c)) cs
  = plain_outputs (fun c => build (nc_fields c)) cs.
Proof.
  intros R e k used fb build cs Hh Hincl Hb Hnr.
  apply (nc_cache_transparent R e k used fb build cs Hincl Hb); [|exact Hnr].
  apply hash_inj_no_hash. exact Hh.
Qed.

(* ------------------------------------------------------------------ *)
(* finding 11: CPython's hash(-1) = hash(-2) = -2, so hash() does not separate key tuples *)
Definition w_fields (second : Z) : fields :=
  [("inputs", PTuple [PTuple [PInt (-1)]; PTuple [PInt second]]);
   ("output", PTuple []);
   ("size_dict", PDict [PTuple [PInt (-1); PInt 2]; PTuple [PInt (-2); PInt 2]]);
   ("optimize", PTuple [PTuple [PInt 0; PInt 1]]);
   ("kwargs", PDict []); ("%empty", PDict [])]%string.
Definition w_call (second : Z) : ncall := mkCall true true (w_fields second).

Lemma hash_int_m1_m2 : hash_int (-1) = hash_int (-2).
Proof. reflexivity. Qed.

Theorem hash_inj_refuted : forall e,
  exists a b, py_hashable a = true /\ py_hashable b = true /\
              py_eqb a b = false /\ py_hash e a = py_hash e b.
Proof.
  intros e.
  exists (PTuple [PTuple [PInt (-1)]; PTuple [PInt (-2)]]), (PTuple [PTuple [PInt (-1)]; PTuple [PInt (-1)]]).
  repeat split; vm_compute; reflexivity.
Qed.

Theorem legacy_key_collides : forall e,
  py_eqb (nc_dkey e (strip_hash legacy_key) (w_call (-2))) (nc_dkey e (strip_hash legacy_key) (w_call (-1))) = false /\
  py_eqb (nc_dkey e legacy_key (w_call (-2))) (nc_dkey e legacy_key (w_call (-1))) = true.
Proof. intros e. split; vm_compute; reflexivity. Qed.

Theorem legacy_hash_inj_fails : forall e, ~ hash_inj e legacy_key [w_call (-2); w_call (-1)].
Proof.
  intros e H.
  destruct (legacy_key_collides e) as [Hne Heq].
  exact (eq_true_false_abs _
           (H (w_call (-2)) (w_call (-1)) (or_introl eq_refl) (or_intror (or_introl eq_refl)) Heq) Hne).
Qed.

(* ... and the caching machine then hands the first call's object to the second call *)
Theorem legacy_collision_breaks_transparency :
  forall (R : Type) e fb (build : fields -> R),
  build (w_fields (-2)) <> build (w_fields (-1)) ->
  cached_outputs (nc_dkey e legacy_key) nc_use (nc_keyok legacy_key) fb (fun c => build (nc_fields c))
                 [w_call (-2); w_call (-1)]
  <> plain_outputs (fun c => build (nc_fields c)) [w_call (-2); w_call (-1)].
Proof.
  intros R e fb build Hne.
  rewrite (collision_visible (nc_dkey e legacy_key) nc_use (nc_keyok legacy_key) fb
             (fun c => build (nc_fields c)) (w_call (-2)) (w_call (-1))
             eq_refl eq_refl eq_refl eq_refl (proj2 (legacy_key_collides e))).
  unfold plain_outputs. cbn [map nc_fields w_call]. intros E. inversion E as [E1]. apply Hne. exact E1.
Qed.

(* the same two calls under the tuple key are kept apart *)
Theorem tuple_key_separates_witness : forall e,
  py_eqb (nc_dkey e (tuple_key std_spec) (w_call (-2))) (nc_dkey e (tuple_key std_spec) (w_call (-1))) = false.
Proof. intros e. vm_compute. reflexivity. Qed.

(* ------------------------------------------------------------------ *)
(* per-class dispatch tables                                             *)
Lemma decide_by_tests : forall ch default o1 o2,
  (forall t, In t (chain_tests ch) -> o_test o1 t = o_test o2 t) ->
  decide ch default o1 = decide ch default o2.
Proof.
  induction ch as [|[t h] ch IH]; intros default o1 o2 H; [reflexivity|].
  cbn [decide]. rewrite (H t (or_introl eq_refl)).
  destruct (o_test o2 t); [reflexivity|]. apply IH. intros t' Ht'. apply H. right. exact Ht'.
Qed.

Theorem dispatch_by_class_sound : forall ch default (os : list pyobj),
  (forall o1 o2, In o1 os -> In o2 os -> o_cls o1 = o_cls o2 ->
     forall t, In t (chain_tests ch) -> o_test o1 t = o_test o2 t) ->
  dispatch_outputs ch default os = map (fun o => Some (decide ch default o)) os.
Proof.
  intros ch default os H. unfold dispatch_outputs.
  rewrite cache_transparent; [reflexivity| |right; reflexivity].
  intros o1 o2 H1 H2 _ _ _ _ He. cbn [py_eqb num_of] in He. apply Nat.eqb_eq in He.
  apply decide_by_tests. exact (H o1 o2 H1 H2 He).
Qed.

(* ------------------------------------------------------------------ *)
(* shared expression objects                                             *)
Section ExprObjFacts.
  Context {C S A V : Type}.
  Variable dkey : C -> pyval.
  Variable usecache : C -> bool.
  Variable init : C -> S.
  Variable call : S -> A -> S * V.

  (* calling an expression does not write to the object (it closes over an immutable program) *)
  Hypothesis frame : forall s a, fst (call s a) = s.

  Definition sep_init (cs : list C) : Prop :=
    forall c1 c2, In c1 cs -> In c2 cs -> usecache c1 = true -> usecache c2 = true ->
      py_eqb (dkey c1) (dkey c2) = true -> init c1 = init c2.
  Definition oinv (d : list (pyval * S)) (seen : list C) : Prop :=
    forall k s, In (k, s) d -> exists c, In c seen /\ usecache c = true /\ dkey c = k /\ s = init c.

  Lemma dupdate_same : forall k s (d : list (pyval * S)), dlookup k d = Some s -> dupdate k s d = d.
  Proof.
    induction d as [|[k' s'] d IH]; cbn [dlookup dupdate]; intros H; [reflexivity|].
    destruct (py_eqb k' k); [inversion H; reflexivity | rewrite (IH H); reflexivity].
  Qed.

  Lemma obj_run_sim : forall cas d seen,
    oinv d seen -> sep_init (seen ++ map fst cas) ->
    obj_run dkey usecache init call d cas = obj_plain_outputs init call cas.
  Proof.
    induction cas as [|[c a] cas IH]; intros d seen Hinv Hsep; [reflexivity|].
    assert (Hsep1 : sep_init ((seen ++ [c]) ++ map fst cas)).
    { rewrite <- app_assoc. exact Hsep. }
    assert (Hw : forall d', oinv d' seen -> oinv d' (seen ++ [c])).
    { intros d' H k s Hin. destruct (H k s Hin) as [c0 [H0 Hr]]. exists c0.
      split; [apply in_or_app; left; exact H0 | exact Hr]. }
    cbn [obj_run obj_plain_outputs map]. unfold obj_step. cbn [fst snd].
    destruct (usecache c) eqn:Eu.
    - destruct (dlookup (dkey c) d) as [s|] eqn:El.
      + cbn [fst snd]. rewrite frame, (dupdate_same _ _ _ El).
        destruct (dlookup_in _ _ _ El) as [k' [Hin He]].
        destruct (Hinv k' s Hin) as [c0 [Hc0 [Hu0 [Hd0 Hs0]]]]. subst k' s.
        assert (Ei : init c0 = init c).
        { apply (Hsep c0 c); try assumption.
          - apply in_or_app. left. exact Hc0.
          - apply in_or_app. right. left. reflexivity. }
        rewrite Ei. f_equal. apply (IH d (seen ++ [c])); [apply Hw; exact Hinv | exact Hsep1].
      + cbn [fst snd]. rewrite frame. f_equal.
        apply (IH _ (seen ++ [c])); [|exact Hsep1].
        intros k s Hin. apply in_app_or in Hin. destruct Hin as [Hin|[E|[]]].
        * exact (Hw d Hinv k s Hin).
        * inversion E; subst. exists c. split; [apply in_or_app; right; left; reflexivity|].
          repeat split; assumption.
    - cbn [fst snd]. f_equal. apply (IH d (seen ++ [c])); [apply Hw; exact Hinv | exact Hsep1].
  Qed.

  Theorem expression_is_pure : forall cas, sep_init (map fst cas) ->
    obj_cached_outputs dkey usecache init call cas = obj_plain_outputs init call cas.
  Proof.
    intros cas H. unfold obj_cached_outputs. apply (obj_run_sim cas [] []); [intros k s []|exact H].
  Qed.
End ExprObjFacts.

(* ------------------------------------------------------------------ *)
(* induction over Python values (nested in list) *)
Section PyvalInd.
  Variable P : pyval -> Prop.
  Hypothesis Hint : forall z, P (PInt z).
  Hypothesis Hfloat : forall z, P (PFloat z).
  Hypothesis Hbool : forall b, P (PBool b).
  Hypothesis Hstr : forall s, P (PStr s).
  Hypothesis Hnone : P PNone.
  Hypothesis Hobj : forall n, P (PObj n).
  Hypothesis Htuple : forall l, Forall P l -> P (PTuple l).
  Hypothesis Hfrozen : forall l, Forall P l -> P (PFrozen l).
  Hypothesis Hlist : forall l, Forall P l -> P (PList l).
  Hypothesis Hdict : forall l, Forall P l -> P (PDict l).
  Fixpoint pyval_induction (v : pyval) : P v :=
    let go := fix go (l : list pyval) : Forall P l :=
                match l with
                | [] => Forall_nil P
                | x :: l' => Forall_cons x (pyval_induction x) (go l')
                end in
    match v with
    | PInt z => Hint z
    | PFloat z => Hfloat z
    | PBool b => Hbool b
    | PStr s => Hstr s
    | PNone => Hnone
    | PObj n => Hobj n
    | PTuple l => Htuple l (go l)
    | PFrozen l => Hfrozen l (go l)
    | PList l => Hlist l (go l)
    | PDict l => Hdict l (go l)
    end.
End PyvalInd.

Lemma list_eqb_nat_eq : forall s t, list_eqb Nat.eqb s t = true -> s = t.
Proof.
  induction s as [|x s IH]; intros [|y t]; cbn [list_eqb]; intros H; try discriminate; [reflexivity|].
  apply andb_true_iff in H. destruct H as [H1 H2]. apply Nat.eqb_eq in H1. subst. f_equal. exact (IH t H2).
Qed.

Lemma py_eqb_list : forall l m, py_eqb (PList l) (PList m) = pylist_eqb l m.
Proof.
  intros l m. unfold pylist_eqb. cbn [py_eqb num_of].
  revert m. induction l as [|x l IH]; intros [|y m]; cbn [list_eqb]; try reflexivity.
  rewrite IH. reflexivity.
Qed.

Lemma num_hash : forall e a b x, num_of a = Some x -> num_of b = Some x -> py_hash e a = py_hash e b.
Proof.
  intros e a b x Ha Hb.
  assert (H : forall v, num_of v = Some x -> py_hash e v = hash_int x).
  { intros v Hv. destruct v; cbn in Hv; try discriminate; inversion Hv; subst; cbn [py_hash]; try reflexivity.
    destruct b0; reflexivity. }
  rewrite (H a Ha), (H b Hb). reflexivity.
Qed.

(* Python's data-model requirement a == b => hash(a) == hash(b) holds in the model (frozenset-free
   values): a dict lookup by == alone is what CPython's hash-then-== lookup computes *)
Theorem hash_respects_eq : forall e a, no_frozen a = true ->
  forall b, py_eqb a b = true -> py_hash e a = py_hash e b.
Proof.
  intros e a. induction a as [z|z|b0|s| |n|l IH|l IH|l IH|l IH] using pyval_induction; intros Hnf b Heq;
    try (destruct (num_of b) as [y|] eqn:Eb; cbn [py_eqb num_of] in Heq; rewrite ?Eb in Heq;
         [ apply Z.eqb_eq in Heq; subst; eapply num_hash; [reflexivity | exact Eb] | discriminate ]).
  - (* str *) destruct b; cbn [py_eqb num_of] in Heq; try discriminate.
    apply list_eqb_nat_eq in Heq. subst. reflexivity.
  - (* None *) destruct b; cbn [py_eqb num_of] in Heq; try discriminate. reflexivity.
  - (* obj *) destruct b; cbn [py_eqb num_of] in Heq; try discriminate.
    apply Nat.eqb_eq in Heq. subst. reflexivity.
  - (* tuple *) destruct b as [| | | | | |m| | |]; try (cbn [py_eqb num_of] in Heq; discriminate).
    rewrite py_eqb_tuple in Heq. cbn [py_hash]. f_equal.
    cbn [no_frozen] in Hnf. unfold pylist_eqb in Heq.
    revert m Heq. induction l as [|x l IHl]; intros [|y m] Heq; cbn [list_eqb] in Heq; try discriminate; [reflexivity|].
    apply andb_true_iff in Heq. destruct Heq as [H1 H2].
    cbn [forallb] in Hnf. apply andb_true_iff in Hnf. destruct Hnf as [Hn1 Hn2].
    inversion IH as [|? ? Hx Hl]; subst. cbn [map]. f_equal; [exact (Hx Hn1 y H1) | exact (IHl Hl Hn2 m H2)].
  - (* frozenset *) cbn [no_frozen] in Hnf. discriminate.
  - (* list *) destruct b; cbn [py_eqb num_of] in Heq; try discriminate. reflexivity.
  - (* dict *) destruct b; cbn [py_eqb num_of] in Heq; try discriminate. reflexivity.
Qed.

(* ------------------------------------------------------------------ *)
(* canonicalisation: an injective relabelling of the indices does not change the normalised call *)
Section Relabel.
  Variable rho : pyval -> pyval.
  Hypothesis rho_eq : forall a b, py_eqb (rho a) (rho b) = py_eqb a b.

  Lemma im_find_relabel : forall m v, im_find (rl_map rho m) (rho v) = im_find m v.
  Proof.
    induction m as [|[k i] m IH]; intros v; cbn [rl_map map im_find fst snd]; [reflexivity|].
    rewrite rho_eq. destruct (py_eqb k v); [reflexivity | apply IH].
  Qed.

  Lemma rl_map_length : forall m, length (rl_map rho m) = length m.
  Proof. intros m. unfold rl_map. apply map_length. Qed.

  Lemma im_get_relabel : forall m v,
    im_get (rl_map rho m) (rho v) = (rl_map rho (fst (im_get m v)), snd (im_get m v)).
  Proof.
    intros m v. unfold im_get. rewrite im_find_relabel. destruct (im_find m v) as [i|]; cbn [fst snd]; [reflexivity|].
    rewrite rl_map_length. unfold rl_map. rewrite map_app. reflexivity.
  Qed.

  Lemma im_map_relabel : forall l m,
    im_map (rl_map rho m) (map rho l) = (rl_map rho (fst (im_map m l)), snd (im_map m l)).
  Proof.
    induction l as [|v l IH]; intros m; cbn [map im_map]; [reflexivity|].
    rewrite im_get_relabel. destruct (im_get m v) as [m1 s]. cbn [fst snd].
    rewrite IH. destruct (im_map m1 l) as [m2 ss]. reflexivity.
  Qed.

  Lemma im_map2_relabel : forall ts m,
    im_map2 (rl_map rho m) (map (map rho) ts) = (rl_map rho (fst (im_map2 m ts)), snd (im_map2 m ts)).
  Proof.
    induction ts as [|t ts IH]; intros m; cbn [map im_map2]; [reflexivity|].
    rewrite im_map_relabel. destruct (im_map m t) as [m1 t1]. cbn [fst snd].
    rewrite IH. destruct (im_map2 m1 ts) as [m2 r]. reflexivity.
  Qed.

  Theorem canonical_form_ignores_labels : forall r,
    r_canon r = true -> is_edge_path (r_optimize r) = false ->
    normalize (relabel rho r) = normalize r.
  Proof.
    intros r Hc He. unfold normalize. cbn [relabel r_canon r_inputs r_output r_size_dict r_shapes r_optimize
                                            r_kwargs r_cache r_hcls r_inputs_are_lists].
    rewrite Hc, He.
    pose proof (im_map2_relabel (r_inputs r) []) as H2. cbn [rl_map map] in H2. rewrite H2.
    destruct (im_map2 [] (r_inputs r)) as [m1 ins]. cbn [fst snd].
    destruct (r_output r) as [o|]; cbn [option_map].
    - rewrite im_map_relabel. destruct (im_map m1 o) as [m2 out]. cbn [fst snd].
      destruct (r_size_dict r) as [sd|]; cbn [option_map].
      + rewrite map_map. cbn [fst snd].
        replace (map (fun x : pyval * pyval => rho (fst x)) sd) with (map rho (map fst sd)) by (rewrite map_map; reflexivity).
        rewrite im_map_relabel. rewrite map_map. cbn [snd].
        destruct (im_map m2 (map fst sd)) as [m3 ks]. cbn [fst snd]. reflexivity.
      + destruct (r_shapes r); reflexivity.
    - destruct (r_size_dict r) as [sd|]; cbn [option_map].
      + rewrite map_map. cbn [fst snd].
        replace (map (fun x : pyval * pyval => rho (fst x)) sd) with (map rho (map fst sd)) by (rewrite map_map; reflexivity).
        rewrite im_map_relabel. rewrite map_map. cbn [snd].
        destruct (im_map m1 (map fst sd)) as [m3 ks]. cbn [fst snd]. reflexivity.
      + destruct (r_shapes r); reflexivity.
  Qed.
End Relabel.

(* ------------------------------------------------------------------ *)
(* the only collision of CPython's int hash among ints of magnitude < 2^61-1 is -1 / -2 *)
Lemma hash_int_small : forall z, Z.abs z < P61 -> hash_int z = if z =? -1 then -2 else z.
Proof.
  intros z Hz. unfold hash_int. rewrite Z.mod_small by (split; [apply Z.abs_nonneg | exact Hz]).
  replace (Z.sgn z * Z.abs z) with z by (destruct z; cbn [Z.sgn Z.abs]; lia).
  reflexivity.
Qed.

Theorem hash_int_collisions_small : forall x y, Z.abs x < P61 -> Z.abs y < P61 ->
  hash_int x = hash_int y -> x = y \/ (x = -1 /\ y = -2) \/ (x = -2 /\ y = -1).
Proof.
  intros x y Hx Hy. rewrite (hash_int_small x Hx), (hash_int_small y Hy).
  destruct (Z.eqb_spec x (-1)) as [Ex|Ex]; destruct (Z.eqb_spec y (-1)) as [Ey|Ey]; intros H; lia.
Qed.

(* functools.lru_cache(typed=False): the dict is keyed on the argument tuple itself *)
Theorem lru_cache_transparent : forall (R : Type) (f : pyval -> R) (calls : list pyval),
  (forall a b, In a calls -> In b calls -> py_eqb a b = true -> f a = f b) ->
  (forall a, In a calls -> py_hashable a = true) ->
  cached_outputs (fun a => a) (fun _ => true) py_hashable false f calls = plain_outputs f calls.
Proof.
  intros R f calls Hf Hh. apply cache_transparent.
  - intros a b Ha Hb _ _ _ _ He. exact (Hf a b Ha Hb He).
  - right. intros a Ha _. exact (Hh a Ha).
Qed.

(* ------------------------------------------------------------------ *)
(* two separate caches                                                   *)
Lemma py_eqb_pair : forall a b c d, py_eqb (PTuple [a; b]) (PTuple [c; d]) = py_eqb a c && py_eqb b d.
Proof. intros. rewrite py_eqb_tuple. unfold pylist_eqb. cbn [list_eqb]. rewrite andb_true_r. reflexivity. Qed.

(* if the two functions use different dicts, the combined machine is transparent as soon as each
   cache on its own separates the calls that go through it *)
Theorem two_caches_transparent :
  forall (R : Type) (tag : ckind -> pyval) e kx fb (compute : ckind * ncall -> R) (cs : list (ckind * ncall)),
  py_eqb (tag KPathCall) (tag KExprCall) = false -> py_eqb (tag KExprCall) (tag KPathCall) = false ->
  (forall c1 c2, In c1 cs -> In c2 cs -> fst c1 = fst c2 -> two_use c1 = true -> two_use c2 = true ->
     py_eqb (nc_dkey e (kx (fst c1)) (snd c1)) (nc_dkey e (kx (fst c2)) (snd c2)) = true ->
     compute c1 = compute c2) ->
  (fb = true \/ forall c, In c cs -> two_use c = true -> two_keyok kx c = true) ->
  cached_outputs (two_dkey tag e kx) two_use (two_keyok kx) fb compute cs = plain_outputs compute cs.
Proof.
  intros R tag e kx fb compute cs Hpe Hep Hsame Hnr. apply cache_transparent; [|exact Hnr].
  intros c1 c2 H1 H2 Hu1 Hu2 _ _ He. unfold two_dkey in He. rewrite py_eqb_pair in He.
  apply andb_true_iff in He. destruct He as [Ht Hk].
  destruct c1 as [k1 n1], c2 as [k2 n2]. cbn [fst snd] in *.
  destruct k1, k2; try (rewrite Hpe in Ht; discriminate); try (rewrite Hep in Ht; discriminate);
    apply (Hsame _ _ H1 H2 eq_refl Hu1 Hu2 Hk).
Qed.

(* one shared dict: a path request and an option-free expression request for the same contraction
   build the same key, and the second receives the first's object *)
Theorem merged_caches_visible :
  forall (R : Type) (t : pyval) e k fb (compute : ckind * ncall -> R) (n : ncall),
  nc_use n = true -> nc_keyok k n = true -> py_eqb t t = true ->
  py_eqb (nc_dkey e k n) (nc_dkey e k n) = true ->
  cached_outputs (two_dkey (fun _ => t) e (fun _ => k)) two_use (two_keyok (fun _ => k)) fb compute
                 [(KPathCall, n); (KExprCall, n)]
  = [Some (compute (KPathCall, n)); Some (compute (KPathCall, n))].
Proof.
  intros R t e k fb compute n Hu Hk Ht He.
  apply collision_visible; try assumption.
  unfold two_dkey. rewrite py_eqb_pair. cbn [fst snd]. rewrite Ht, He. reflexivity.
Qed.

(* ------------------------------------------------------------------ *)
(* the key's size component determines the finite map index -> size     *)
Lemma list_eqb_nat_refl : forall s, list_eqb Nat.eqb s s = true.
Proof. induction s as [|x s IH]; cbn [list_eqb]; [reflexivity|]. rewrite Nat.eqb_refl, IH. reflexivity. Qed.

(* on atomic values Python's == is decided by a canonical code *)
Inductive pcode := CNum (z : Z) | CStr (s : list nat) | CNone | CObj (n : nat).
Definition code_of (v : pyval) : pcode :=
  match v with
  | PInt z | PFloat z => CNum z
  | PBool b => CNum (if b then 1 else 0)
  | PStr s => CStr s
  | PObj n => CObj n
  | _ => CNone
  end.

Lemma py_eqb_simple_code : forall a b, simple a = true -> simple b = true ->
  (py_eqb a b = true <-> code_of a = code_of b).
Proof.
  intros a b Ha Hb.
  destruct a; try discriminate; destruct b; try discriminate; cbn [py_eqb num_of code_of];
    split; intros H; try discriminate; try reflexivity;
    first [ apply Z.eqb_eq in H; congruence
          | apply Nat.eqb_eq in H; congruence
          | apply list_eqb_nat_eq in H; congruence
          | injection H as H; rewrite H;
            first [apply Z.eqb_refl | apply Nat.eqb_refl | apply list_eqb_nat_refl] ].
Qed.

Lemma py_eqb_simple_sym : forall a b, simple a = true -> simple b = true ->
  py_eqb a b = true -> py_eqb b a = true.
Proof.
  intros a b Ha Hb H. apply (py_eqb_simple_code b a Hb Ha). symmetry. apply (py_eqb_simple_code a b Ha Hb). exact H.
Qed.

Lemma py_eqb_simple_trans : forall a b c, simple a = true -> simple b = true -> simple c = true ->
  py_eqb a b = true -> py_eqb b c = true -> py_eqb a c = true.
Proof.
  intros a b c Ha Hb Hc H1 H2. apply (py_eqb_simple_code a c Ha Hc).
  transitivity (code_of b); [apply (py_eqb_simple_code a b Ha Hb) | apply (py_eqb_simple_code b c Hb Hc)]; assumption.
Qed.

Lemma py_eqb_simple_congr : forall k1 k2 k, simple k1 = true -> simple k2 = true -> simple k = true ->
  py_eqb k1 k2 = true -> py_eqb k1 k = py_eqb k2 k.
Proof.
  intros k1 k2 k H1 H2 Hk He.
  destruct (py_eqb k1 k) eqn:E1; destruct (py_eqb k2 k) eqn:E2; try reflexivity.
  - rewrite <- E2. symmetry.
    apply (py_eqb_simple_trans k2 k1 k H2 H1 Hk); [apply py_eqb_simple_sym; assumption | exact E1].
  - rewrite <- E1.
    apply (py_eqb_simple_trans k1 k2 k H1 H2 Hk); assumption.
Qed.

Lemma item_eq_parts : forall a b, item_ok a = true -> item_ok b = true -> py_eqb a b = true ->
  py_eqb (item_key a) (item_key b) = true /\ py_eqb (item_val a) (item_val b) = true /\
  simple (item_key a) = true /\ simple (item_key b) = true.
Proof.
  intros a b Ha Hb He.
  destruct a as [| | | | | |[|k1 [|v1 [|? ?]]]| | |]; try discriminate.
  destruct b as [| | | | | |[|k2 [|v2 [|? ?]]]| | |]; try discriminate.
  cbn [item_ok] in Ha, Hb. rewrite py_eqb_pair in He. apply andb_true_iff in He. destruct He as [Hk Hv].
  cbn [item_key item_val]. repeat split; assumption.
Qed.

(* equal tuple(size_dict.items()) components (Python ==)  =>  the same finite map index -> size *)
Theorem items_determine_binding : forall l m,
  forallb item_ok l = true -> forallb item_ok m = true ->
  pylist_eqb l m = true ->
  forall k, simple k = true -> lookup_agree (dict_get l k) (dict_get m k).
Proof.
  unfold pylist_eqb.
  induction l as [|a l IH]; intros [|b m] Hl Hm He k Hk; cbn [list_eqb] in He; try discriminate.
  - exact I.
  - cbn [forallb] in Hl, Hm. apply andb_true_iff in Hl, Hm, He.
    destruct Hl as [Ha Hl], Hm as [Hb Hm], He as [Hab He].
    destruct (item_eq_parts a b Ha Hb Hab) as [Hkk [Hvv [Hs1 Hs2]]].
    cbn [dict_get]. rewrite (py_eqb_simple_congr _ _ k Hs1 Hs2 Hk Hkk).
    destruct (py_eqb (item_key b) k); [exact Hvv | exact (IH m Hl Hm He k Hk)].
Qed.

(* tuple(size_dict.values()) does not: same value sequence, different binding (seeded change G16) *)
Definition g16_items1 : list pyval :=
  [PTuple [PStr [97%nat]; PInt 2]; PTuple [PStr [98%nat]; PInt 50]; PTuple [PStr [99%nat]; PInt 3]; PTuple [PStr [100%nat]; PInt 40]].
Definition g16_items2 : list pyval :=
  [PTuple [PStr [98%nat]; PInt 2]; PTuple [PStr [97%nat]; PInt 50]; PTuple [PStr [100%nat]; PInt 3]; PTuple [PStr [99%nat]; PInt 40]].
Theorem values_lose_binding :
  py_eqb (values_of_items g16_items1) (values_of_items g16_items2) = true /\
  ~ lookup_agree (dict_get g16_items1 (PStr [97%nat])) (dict_get g16_items2 (PStr [97%nat])) /\
  py_eqb (PTuple g16_items1) (PTuple g16_items2) = false.
Proof. repeat split; vm_compute; discriminate || reflexivity. Qed.

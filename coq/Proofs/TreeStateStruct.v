(* TreeStateStruct.v -- structural invariant SI of the reachable states and what it discharges:
   (S1) every entry (p,(l,r)) of children has sorted l, r and p = nunion l r (hence sorted);
   (S2) every key of children has an info entry.
   ("every internal info node is a key of children" is NOT an invariant at primitive granularity:
   subtree_reconfigure re-adds the root of the subtree with _add_node before it becomes a key again; it stays
   a boolean check where remove_ind / restore_ind need it.)
   Preserved by every primitive when contract_nodes_pair is applied to sorted operands; with InvC it yields the facts that were boolean preconditions of remove_ind / restore_ind
   (incl. "index in legs => index in involved") and the side condition sorted_keys_b of C02's corollary. *)
From Coq Require Import Lia ZifyBool Permutation.
From Ctg Require Import Base Net Einsum Program BaseFacts NetFacts ProgramFacts TreeState TreeStateFacts TreeStateInv
                        TreeStatePre TreeStateMon TreeStateProg TreeStateValue TreeStateRec TreeStateRecipes
                        TreeStateReady TreeStatePreproc TreeStateReady2 TreeStateTotals TreeStateDfs TreeStatePre2
                        TdotFacts TreeStateTdot TreeStateFinal TreeStatePre3.
Open Scope nat_scope.

Lemma ssorted_b_complete l : ss l -> ssorted_b l = true.
Proof.
  induction l as [|x l IH]; [reflexivity|]. intros [Hx Hs]. destruct l as [|y l']; [reflexivity|].
  change (Nat.ltb x y && ssorted_b (y :: l') = true). rewrite (IH Hs), andb_true_r. apply Nat.ltb_lt, Hx. left. reflexivity.
Qed.

Section Struct.
Variable n : net.
Notation N := (NN n).
Hypothesis HN : 2 <= N.
Hypothesis Hout : NoDup (output n).

Definition SI (s : tstate) : Prop :=
  (forall p l r, In (p, (l, r)) (children s) -> ss l /\ ss r /\ nunion l r = p) /\
  (forall p, In p (nkeys (children s)) -> nget p (info s) <> None).

Lemma SI_frame s s' : children s' = children s -> nkeys (info s') = nkeys (info s) -> SI s -> SI s'.
Proof.
  intros E1 E2 (S1&S2). unfold SI. rewrite E1. split; [exact S1|].
  intros p Hp. apply nget_in_keys. rewrite E2. apply nget_in_keys, S2, Hp.
Qed.
Lemma SI_prel s s' : prel n s s' -> SI s -> SI s'.
Proof. intros (_&E1&_&_&E2&_). apply SI_frame; assumption. Qed.
Lemma nunion_ss a b : ss a -> ss (nunion a b).
Proof. intros H. unfold nunion. apply (fold_ins_ss n HN), H. Qed.
Lemma in_nunion x a b : In x (nunion a b) <-> In x b \/ In x a.
Proof. unfold nunion. apply fold_ins_in. Qed.
Lemma nunion_comm a b : ss a -> ss b -> nunion b a = nunion a b.
Proof.
  intros Ha Hb. apply (ss_unique n HN); [apply nunion_ss, Hb|apply nunion_ss, Ha|]. intros x. rewrite !in_nunion. tauto.
Qed.
Lemma S1_sorted_keys s : SI s -> sorted_keys_b s = true.
Proof.
  intros (S1&_). unfold sorted_keys_b. apply forallb_forall. intros [p [l r]] Hin. cbn [fst snd].
  destruct (S1 p l r Hin) as (Hl&Hr&<-). rewrite (ssorted_b_complete _ (nunion_ss l r Hl)), (ssorted_b_complete _ Hl), (ssorted_b_complete _ Hr). reflexivity.
Qed.

Lemma nkeys_add_node nd s q : In q (nkeys (info (add_node nd s))) <-> (q = nd \/ In q (nkeys (info s))).
Proof.
  unfold add_node. destruct (nmem nd (info s)) eqn:E.
  - split; [auto|]. intros [->|H]; [|exact H]. apply nget_in_keys, nmem_true, E.
  - cbn [set_info info]. unfold nkeys. rewrite map_app, in_app_iff. cbn. split; [intros [H|[H|[]]]; auto|intros [H|H]; auto].
Qed.
Lemma SI_add_node nd s : SI s -> SI (add_node nd s).
Proof.
  intros (S1&S2). destruct (add_node_fields nd s) as (Ec&_). unfold SI. rewrite Ec. split; [exact S1|].
  intros p Hp. apply nget_in_keys, nkeys_add_node. right. apply nget_in_keys, S2, Hp.
Qed.
Lemma in_nkeys_nset {V} k (v : V) d q : In q (nkeys (nset k v d)) <-> (q = k \/ In q (nkeys d)).
Proof.
  destruct (nget k d) eqn:E.
  - rewrite nkeys_nset_in by congruence. split; [auto|]. intros [->|H]; [apply nget_in_keys; congruence|exact H].
  - rewrite (nkeys_nset_notin k v d E), in_app_iff. cbn. split; [intros [H|[H|[]]]; auto|intros [H|H]; auto].
Qed.
Lemma SI_remove_node nd s : chok (children s) -> NoDup (nkeys (children s)) -> NoDup (nkeys (info s)) ->
  SI s -> SI (remove_node n nd s).
Proof.
  intros Hc NDc NDi HS. rewrite remove_node_eq. destruct (Nat.eqb_spec (length nd) 1) as [E1|E1].
  { apply (SI_frame s); [unfold clear_info; apply upd_info_fields|cbn [set_preproc info]; unfold clear_info; apply nkeys_upd|exact HS]. }
  cbn zeta. pose proof (rn_pre_crel n HN nd s Hc) as H3. set (s3 := rn_pre n nd s) in *.
  pose proof (SI_prel s s3 (crel_prel n _ _ H3) HS) as (S1&S2).
  assert (Ech3 : children s3 = children s) by apply (crel_srel n _ _ H3).
  assert (NDc3 : NoDup (nkeys (children s3))) by (rewrite Ech3; exact NDc).
  assert (NDi3 : NoDup (nkeys (info s3))) by apply (crel_nodup n _ _ H3 NDi).
  destruct (nmem nd (children s3)) eqn:Ek.
  - set (s4 := set_children (ndel nd (children s3)) s3).
    assert (S1' : forall p l r, In (p, (l, r)) (children s4) -> ss l /\ ss r /\ nunion l r = p)
      by (intros p l r H; apply S1, (In_ndel nd _ _ H)).
    assert (K4 : forall p, In p (nkeys (children s4)) <-> p <> nd /\ In p (nkeys (children s3))) by (intros p; apply in_nkeys_ndel, NDc3).
    destruct (Nat.eqb (length nd) N).
    + unfold clear_info. destruct (upd_info_fields nd (fun _ => noinfo) s4) as (Ec&_). unfold SI. rewrite Ec.
      split; [exact S1'|]. intros p Hp. apply nget_in_keys. rewrite nkeys_upd. apply nget_in_keys, S2, (K4 p), Hp.
    + destruct (nmem nd (info s4)) eqn:Ei; cbn [set_info set_err].
      * unfold SI. cbn [children info set_info]. split; [exact S1'|].
        intros p Hp. apply K4 in Hp. destruct Hp as [Hn Hp]. apply nget_in_keys, in_nkeys_ndel; [exact NDi3|].
        split; [exact Hn|apply nget_in_keys, S2, Hp].
      * unfold SI. cbn [children info set_err]. split; [exact S1'|]. intros p Hp. apply K4 in Hp. apply S2, Hp.
  - set (s4 := set_err s3).
    assert (Hnk : ~ In nd (nkeys (children s3))) by (apply nget_none_notin, nmem_false, Ek).
    destruct (Nat.eqb (length nd) N).
    + apply (SI_frame s4); [unfold clear_info; apply upd_info_fields|unfold clear_info; apply nkeys_upd|exact (conj S1 S2)].
    + destruct (nmem nd (info s4)) eqn:Ei; cbn [set_info set_err]; [|exact (conj S1 S2)].
      unfold SI. cbn [children info set_info set_err]. split; [exact S1|].
      intros p Hp. apply nget_in_keys, in_nkeys_ndel; [exact NDi3|]. split; [intros ->; contradiction|apply nget_in_keys, S2, Hp].
Qed.
Lemma SI_contract_pair x y lg c z s : chok (children s) -> x <> [] -> y <> [] -> NoDup (x ++ y) ->
  ss x -> ss y -> SI s -> SI (contract_pair n x y lg c z s).
Proof.
  intros Hc Hx Hy ND Sx Sy HS. rewrite contract_pair_eq. destruct (cp_pre_fields x y lg c z s) as (F1&F2&F3).
  assert (S5 : SI (cp_pre x y lg c z s)).
  { unfold cp_pre. set (p := nunion x y).
    set (s1 := add_node p (add_node y (add_node x s))).
    assert (K1 : forall q, In q (nkeys (info s1)) <-> (q = p \/ q = y \/ q = x \/ In q (nkeys (info s)))).
    { intros q. unfold s1. rewrite !nkeys_add_node. tauto. }
    set (s2 := set_children (nset p (order_pair x y) (children s1)) s1).
    assert (Ech1 : children s1 = children s).
    { unfold s1. destruct (add_node_fields p (add_node y (add_node x s))) as (A&_). destruct (add_node_fields y (add_node x s)) as (B&_).
      destruct (add_node_fields x s) as (C&_). congruence. }
    assert (S2' : SI s2).
    { destruct HS as (S1&S2). unfold SI. cbn [s2 set_children children info]. rewrite Ech1. split.
      - intros q l r Hin. apply In_nset in Hin. destruct Hin as [E|Hin]; [|apply S1, Hin].
        destruct (order_pair_cases x y) as [Eo|Eo]; rewrite Eo in E; injection E as -> -> ->.
        + auto.
        + split; [exact Sy|]. split; [exact Sx|apply nunion_comm; assumption].
      - intros q Hq. apply in_nkeys_nset in Hq. apply nget_in_keys, K1. destruct Hq as [->|Hq]; [left; reflexivity|].
        right. right. right. apply nget_in_keys, S2, Hq. }
    assert (Hupd : forall f s', SI s' -> SI (upd_info p f s')).
    { intros f s' H. apply (SI_frame s'); [apply upd_info_fields|apply nkeys_upd|exact H]. }
    destruct lg; destruct c; destruct z; repeat apply Hupd; exact S2'. }
  apply (SI_prel _ _ (crel_prel n _ _ (update_tracked_crel n HN (nunion x y) _ ltac:(rewrite F1; apply chok_pair; assumption))) S5).
Qed.

(* ---- "index in legs => index in involved" is a consequence of InvC ---- *)
Lemma legs_in_involved s nd i lg inv ind : InvC n s -> incl (output n) (concat (inputs n)) ->
  ~ In ind (removed (sliced s)) -> nget nd (info s) = Some i -> length nd <> 1 ->
  i_legs i = Some lg -> i_involved i = Some inv -> lmem ind lg = true -> lmem ind inv = true.
Proof.
  intros HI Hinc Hfresh Hi E1 El Ev Hm. assert (HI' := HI). destruct HI' as [((_&Hc)&_&H3&_) _].
  destruct (H3 nd i Hi) as [G (A&B&_)]. specialize (A lg El). destruct (B inv Ev) as [[E _]|(l & r & Ech & (Wi & Gi))]; [contradiction|].
  destruct (Hc nd l r Ech) as (_&_&HR&HP).
  apply lmem_in_keys. apply (wfl_key_pos ind inv Wi). rewrite Gi. apply lmem_in_keys in Hm.
  destruct (Nat.eq_dec (length nd) N) as [EN|EN].
  - unfold legs_ok in A. rewrite EN, Nat.eqb_refl in A. destruct A as [_ A].
    assert (Ho : In ind (output n)).
    { apply lget_in_keys in Hm. rewrite A in Hm. apply lget_in_keys in Hm. rewrite root_keys in Hm. apply filter_In in Hm. apply Hm. }
    apply (root_ind_involved n HN (sliced s) ind Hfresh Hinc l r); [|exact Ho].
    assert (HPn : Permutation (seq 0 N) nd).
    { destruct G as [[ND Hb] _]. apply NoDup_Permutation_bis; [apply seq_NoDup|rewrite seq_length; lia|].
      assert (Hincl : incl nd (seq 0 N)) by (intros x Hx; apply in_seq; specialize (Hb x Hx); lia).
      apply (NoDup_length_incl ND); [rewrite seq_length; lia|exact Hincl]. }
    rewrite HPn. exact HP.
  - apply legs_ok_nonroot in A; [|exact EN]. destruct A as [Wl Gl].
    apply (wfl_key_pos ind lg Wl) in Hm. rewrite Gl, (spec_count_perm n _ nd (l ++ r) ind HP) in Hm.
    destruct (spec_split n HN (sliced s) l r ind HR Hm); lia.
Qed.

(* ---- remove_ind / restore_ind ---- *)
Lemma rin_kfr ind d nd s : chok (children s) ->
  children (remove_ind_node n ind d s nd) = children s /\ nkeys (info (remove_ind_node n ind d s nd)) = nkeys (info s).
Proof.
  intros Hc. destruct (Nat.eq_dec (length nd) 1) as [E1|E1].
  - unfold remove_ind_node. apply Nat.eqb_eq in E1. rewrite E1. apply Nat.eqb_eq in E1.
    destruct (memb ind (nth (hd 0 nd) (inputs n) [])); [|auto].
    rewrite remove_node_eq. apply Nat.eqb_eq in E1. rewrite E1. cbn [set_sliced_inputs set_preproc children info]. unfold clear_info.
    split; [apply upd_info_fields|apply nkeys_upd].
  - destruct (rin_prel_internal n HN ind d nd s E1 Hc) as (_&A&_&_&B&_). auto.
Qed.
Lemma rin_fold_kfr ind d L : forall s, chok (children s) ->
  children (fold_left (remove_ind_node n ind d) L s) = children s /\
  nkeys (info (fold_left (remove_ind_node n ind d) L s)) = nkeys (info s).
Proof.
  induction L as [|nd L IH]; intros s Hc; cbn [fold_left]; [auto|].
  destruct (rin_kfr ind d nd s Hc) as [A B]. destruct (IH (remove_ind_node n ind d s nd)) as [A' B']; [rewrite A; exact Hc|].
  split; congruence.
Qed.
Lemma SI_remove_ind ind pj s : InvC n s -> SI s -> SI (remove_ind n ind pj s).
Proof.
  intros HI HS. unfold remove_ind. destruct (memb ind (removed (sliced s))); [apply (SI_frame s); auto|].
  pose proof (InvC_chok n s HI) as Hc.
  pose proof (contract_stats_crel n HN false s Hc) as H1. set (s1 := contract_stats n false s) in *.
  set (s2 := fold_left _ (children s1) s1).
  assert (H2 : crel n s1 s2).
  { unfold s2. apply (fold1_crel n (fun s nd => fst (g_legs n (fst (g_involved n s nd)) nd)) (children s1)); [|apply (crel_chok n _ _ H1 Hc)].
    intros s' nd Hc'. eapply crel_trans; [apply g_involved_crel; assumption|]. apply g_legs_crel; [assumption|].
    apply (crel_chok n _ _ (g_involved_crel n HN s' nd Hc') Hc'). }
  pose proof (crel_prel n _ _ (crel_trans n _ _ _ H1 H2)) as H02. pose proof (SI_prel s s2 H02 HS) as S2'.
  set (s3 := match pj with None => set_mult (mult s2 * zget ind (szd n))%Z s2 | Some _ => s2 end).
  set (s4 := set_sliced _ s3).
  assert (S4 : SI s4) by (apply (SI_frame s2); [unfold s4, s3; destruct pj; reflexivity|unfold s4, s3; destruct pj; reflexivity|exact S2']).
  assert (Hc4 : chok (children s4)).
  { assert (E : children s4 = children s2) by (unfold s4, s3; destruct pj; reflexivity). rewrite E. apply (prel_chok n _ _ H02 Hc). }
  destruct (rin_fold_kfr ind (zget ind (szd n)) (map fst (info s4)) s4 Hc4) as [A B].
  apply (SI_prel _ _ (prel_reset_recipes n _)). apply (SI_frame s4); assumption.
Qed.

Lemma remove_node_children nd s : length nd <> 1 -> chok (children s) -> In nd (nkeys (children s)) ->
  children (remove_node n nd s) = ndel nd (children s).
Proof.
  intros E1 Hc Hk. rewrite remove_node_eq. apply Nat.eqb_neq in E1. rewrite E1. cbn zeta.
  pose proof (rn_pre_crel n HN nd s Hc) as H3. set (s3 := rn_pre n nd s) in *.
  assert (Ech3 : children s3 = children s) by apply (crel_srel n _ _ H3).
  assert (Ek : nmem nd (children s3) = true) by (rewrite Ech3; apply nmem_true, nget_in_keys, Hk). rewrite Ek.
  set (s4 := set_children (ndel nd (children s3)) s3).
  destruct (Nat.eqb (length nd) N).
  - unfold clear_info. destruct (upd_info_fields nd (fun _ => noinfo) s4) as (E&_). rewrite E. cbn. rewrite Ech3. reflexivity.
  - destruct (nmem nd (info s4)); cbn; rewrite Ech3; reflexivity.
Qed.
Lemma contract_pair_children x y lg c z s : chok (children s) -> x <> [] -> y <> [] -> NoDup (x ++ y) ->
  children (contract_pair n x y lg c z s) = nset (nunion x y) (order_pair x y) (children s).
Proof.
  intros Hc Hx Hy ND. rewrite contract_pair_eq. destruct (cp_pre_fields x y lg c z s) as (F1&_).
  destruct (crel_srel n _ _ (update_tracked_crel n HN (nunion x y) (cp_pre x y lg c z s) ltac:(rewrite F1; apply chok_pair; assumption))) as (_&E&_).
  rewrite E. exact F1.
Qed.

Section Loop.
Variable ind : ix.
Variable K0 : list node.
Definition LI (s : tstate) : Prop :=
  SI s /\ (forall q, In q (nkeys (children s)) <-> In q K0) /\ chok (children s) /\
  NoDup (nkeys (children s)) /\ NoDup (nkeys (info s)).
Lemma LI_prel s s' : prel n s s' -> LI s -> LI s'.
Proof.
  intros H (A&B&C&D&E). assert (H' := H). destruct H' as (_&E1&_&_&E2&_). unfold LI. rewrite E1, E2. split; [apply (SI_prel s s' H A)|auto].
Qed.
Lemma loop_body_LI s p l r : LI s -> In p K0 -> length p <> 1 -> ss l -> ss r -> nunion l r = p ->
  l <> [] -> r <> [] -> NoDup (l ++ r) -> LI (loop_body n ind s (p, (l, r))).
Proof.
  intros HL Hp E1 Sl Sr Eu Hl Hr ND. unfold loop_body.
  assert (Hc : chok (children s)) by apply HL.
  pose proof (g_legs_crel n HN s l Hc) as H1. destruct (g_legs n s l) as [sa ll]. cbn [fst] in H1.
  set (Y := if lmem ind ll then (sa, true) else _).
  assert (HY : crel n s (fst Y)).
  { unfold Y. destruct (lmem ind ll); [exact H1|].
    pose proof (g_legs_crel n HN sa r (crel_chok n _ _ H1 Hc)) as H2. destruct (g_legs n sa r) as [sb lr]. cbn [fst] in *.
    eapply crel_trans; eassumption. }
  destruct Y as [sb hit]. cbn [fst] in HY.
  pose proof (LI_prel s sb (crel_prel n _ _ HY) HL) as (Sb & Kb & Cb & NDcb & NDib).
  destruct hit; [|exact (conj Sb (conj Kb (conj Cb (conj NDcb NDib))))].
  assert (Hpk : In p (nkeys (children sb))) by (apply Kb, Hp).
  set (sc := remove_node n p sb).
  assert (Ecc : children sc = ndel p (children sb)) by (apply remove_node_children; assumption).
  assert (Sc : SI sc) by (apply SI_remove_node; assumption).
  assert (Cc : chok (children sc)) by apply (remove_node_facts n HN p sb Cb).
  assert (NDic : NoDup (nkeys (info sc))) by (apply remove_node_nodup; assumption).
  assert (Kc : forall q, In q (nkeys (children sc)) <-> q <> p /\ In q K0).
  { intros q. rewrite Ecc, (in_nkeys_ndel p q _ NDcb), Kb. tauto. }
  pose proof (contract_pair_children l r None None None sc Cc Hl Hr ND) as Ecd.
  unfold LI. split; [apply SI_contract_pair; auto|]. rewrite Ecd, Eu. split; [|split; [|split]].
  - intros q. rewrite in_nkeys_nset, Kc. destruct (node_eq_dec q p) as [->|Hn]; tauto.
  - rewrite <- Eu. apply chok_pair; assumption.
  - apply NoDup_nkeys_nset. rewrite Ecc. apply NoDup_nkeys_ndel, NDcb.
  - apply contract_pair_nodup; assumption.
Qed.
Lemma loop_fold_LI nodes : forall s, LI s ->
  (forall p l r, In (p, (l, r)) nodes -> In p K0 /\ length p <> 1 /\ ss l /\ ss r /\ nunion l r = p /\ l <> [] /\ r <> [] /\
                                          NoDup (l ++ r)) ->
  LI (fold_left (loop_body n ind) nodes s).
Proof.
  induction nodes as [|[p [l r]] nodes IH]; intros s HL Hn; cbn [fold_left]; [exact HL|].
  destruct (Hn p l r (or_introl eq_refl)) as (A1&A2&A3&A4&A5&A6&A7&A8).
  apply IH; [apply loop_body_LI; assumption|]. intros p' l' r' H. apply Hn. right. exact H.
Qed.
End Loop.

Lemma leaf_fold_nkeys ind L : forall s0, nkeys (info (fold_left (leafstep n ind) L s0)) = nkeys (info s0).
Proof.
  induction L as [|k L IHL]; intros s0; cbn [fold_left]; [reflexivity|]. rewrite IHL. unfold leafstep.
  destruct (memb ind (nth k (inputs n) [])); [|reflexivity].
  assert (E : nkeys (info (remove_node n [k] s0)) = nkeys (info s0)).
  { rewrite remove_node_eq. cbn [length Nat.eqb hd set_preproc info]. unfold clear_info. apply nkeys_upd. }
  match goal with |- context [if ?b then _ else _] => destruct b end; exact E.
Qed.
Theorem SI_restore_ind ind s : InvC n s -> rs_pre n ind s -> SI s -> SI (restore_ind n ind s).
Proof.
  intros HI Hpre HS. destruct Hpre as (_ & _ & Tf & Tw & Ts & _ & _ & (nodes & Htr & HPn & Hcf) & _ & _ & _).
  unfold restore_ind. destruct (find _ (sliced s)) as [si|]; [|apply (SI_frame s); auto].
  set (s1 := set_sliced _ s). rewrite (contract_stats_id n s1) by assumption.
  set (s3 := set_mult _ s1).
  change (fold_left _ (seq 0 N) s3) with (fold_left (leafstep n ind) (seq 0 N) s3).
  pose proof (InvC_chok n s HI) as Hc.
  pose proof (leaf_fold_sfr n ind (seq 0 N) s3 Hc) as (Ech4 & _). pose proof (leaf_fold_nkeys ind (seq 0 N) s3) as Ek4.
  set (s4 := fold_left (leafstep n ind) (seq 0 N) s3) in *.
  assert (Etr : traverse n s4 = traverse n s) by (unfold traverse; rewrite Ech4; reflexivity). rewrite Etr, Htr.
  change (fold_left _ nodes s4) with (fold_left (loop_body n ind) nodes s4).
  assert (S4 : SI s4) by exact (SI_frame s s4 Ech4 Ek4 HS).
  set (K0 := nkeys (children s)).
  assert (L4 : LI K0 s4).
  { unfold LI. rewrite Ech4, Ek4. split; [exact S4|]. split; [intros q; reflexivity|]. split; [exact Hc|]. split; [apply HI|apply HI]. }
  assert (Hnodes : forall p l r, In (p, (l, r)) nodes -> In p K0 /\ length p <> 1 /\ ss l /\ ss r /\ nunion l r = p /\ l <> [] /\ r <> [] /\
                                          NoDup (l ++ r)).
  { intros p l r Hin. pose proof (traverse_entries n s nodes Htr _ Hin) as E. cbn [fst snd] in E.
    destruct HS as (S1&_). destruct (S1 p l r (nget_In _ _ _ E)) as (A&B&C). destruct (Hc p l r (nget_In _ _ _ E)) as (D1&D2&D3&_).
    assert (Hp : In p K0) by (apply nget_in_keys; congruence).
    destruct HI as [(Hck&_) _]. pose proof (leaf_not_parent n HN _ p l r Hck E) as Lp.
    repeat split; assumption. }
  pose proof (loop_fold_LI ind K0 nodes s4 L4 Hnodes) as (S5 & _).
  apply (SI_prel _ _ (prel_reset_recipes n _) S5).
Qed.

(* ---- every primitive ---- *)
Definition SI_pre (p : prim) (s : tstate) : Prop :=
  match p with
  | PPair x y _ _ _ => ss x /\ ss y
  | _ => True
  end.
Theorem step_preserves_SI p s : InvC n s -> SI s -> prim_pre2 n p s -> SI_pre p s -> SI (step n p s).
Proof.
  intros HI HS Hp Hx. pose proof (InvC_chok n s HI) as Hc.
  destruct p as [nd|nd|x y lg c z|g nd|f| | | | | |pr a b c|ind pj|ind| |k]; cbn [step].
  - apply SI_add_node; assumption.
  - apply SI_remove_node; [exact Hc|apply HI|apply HI|exact HS].
  - cbn [prim_pre2 prim_pre prim_preN prim_pre1 prim_pre0] in Hp. destruct Hp as (Gx&Gy&HR&_). destruct Hx as (Sx&Sy).
    apply SI_contract_pair; try assumption; [apply Gx|apply Gy|apply HR].
  - apply (SI_prel s); [apply do_get_prel; assumption|exact HS].
  - apply (SI_prel s); [apply crel_prel, contract_stats_crel; assumption|exact HS].
  - apply (SI_prel s); [apply crel_prel, total_flops_crel; assumption|exact HS].
  - apply (SI_prel s); [apply crel_prel, total_write_crel; assumption|exact HS].
  - apply (SI_prel s); [apply crel_prel, max_size_crel; assumption|exact HS].
  - apply (SI_prel s); [apply prel_reset_inds|exact HS].
  - apply (SI_prel s); [apply prel_reset_recipes|exact HS].
  - apply (SI_prel s); [apply sort_inds_prel; assumption|exact HS].
  - apply SI_remove_ind; assumption.
  - apply SI_restore_ind; assumption.
  - apply (SI_frame s); auto.
  - destruct (memb k (cores s)); [exact HS|apply (SI_frame s); auto].
Qed.
Lemma init_state_SI : SI (init_state n).
Proof.
  unfold SI. cbn [init_state children info]. split; [intros p l r []|intros p []].
Qed.

(* ---- the weaker boolean preconditions imply the previous ones in states satisfying InvC and SI ---- *)
Lemma rs_pre3_pre2 ind s : SI s -> rs_pre3_b n ind s = true -> rs_pre2_b n ind s = true.
Proof.
  intros HS H. unfold rs_pre3_b in H. apply andb_true_iff in H. destruct H as [H H3]. unfold rs_pre2_b.
  rewrite H. cbn [andb]. destruct HS as (S1&S2). rewrite H3, andb_true_r.
  rewrite !andb_true_iff. split; apply forallb_forall.
  - intros [p [l r]] Hin. cbn [fst snd]. destruct (S1 p l r Hin) as (_&_&E). apply node_eqb_eq, E.
  - intros c Hin. apply nmem_true, S2. unfold nkeys. apply in_map, Hin.
Qed.
Lemma rm_pre3_pre2 ind s : InvC n s -> rm_pre3_b n ind s = true -> rm_pre2_b n ind s = true.
Proof.
  intros HI H. unfold rm_pre3_b in H. do 4 (apply andb_true_iff in H; destruct H as [H ?]).
  rename H0 into Hall, H1 into Hinc, H2 into Hpos, H3 into Hst.
  unfold rm_pre2_b. rewrite H, Hst, Hpos. cbn [andb]. apply forallb_forall. intros [nd i] Hin. cbn [fst snd].
  pose proof (stats_pre2_sound n HN false s HI Hst) as Hsp.
  pose proof (contract_stats_inv n HN Hout false s HI Hsp) as I1.
  rewrite populate_m_eq in *. destruct (populate_inv n HN Hout _ I1) as [I2 E12]. set (s2 := populate n (contract_stats n false s)) in *.
  destruct (contract_stats_frame n HN Hout false s HI Hsp) as (_ & Esl1 & _).
  assert (Esl2 : sliced s2 = sliced s) by (destruct E12 as (_&A&_); congruence).
  rewrite forallb_forall in Hall. specialize (Hall (nd, i) Hin). cbn [fst snd] in Hall.
  apply andb_true_iff in Hall. destruct Hall as [Hk Hall]. rewrite Hk. cbn [andb].
  destruct (Nat.eqb_spec (length nd) 1) as [E1|E1]; [reflexivity|]. cbn [orb] in *.
  unfold fullinfo4_b in Hall. unfold fullinfo_b.
  destruct (i_involved i) as [inv|] eqn:Ev; [|discriminate]. destruct (i_flops i); [|discriminate].
  destruct (i_legs i) as [lg|] eqn:El; [|discriminate]. destruct (i_size i); [|discriminate].
  destruct (lmem ind lg) eqn:Em; [|reflexivity]. cbn [implb].
  assert (Hi : nget nd (info s2) = Some i) by (apply In_nget; [apply I2|exact Hin]).
  apply (legs_in_involved s2 nd i lg inv ind I2); try assumption.
  - rewrite forallb_forall in Hinc. intros j Hj. apply memb_In, Hinc, Hj.
  - rewrite Esl2. apply memb_false, negb_true_iff, H.
Qed.
Theorem pre3_pre2 p s : InvC n s -> SI s -> primA_pre3_b n p s = true -> primA_pre2_b n p s = true /\ SI_pre p s.
Proof.
  intros HI HS H. unfold primA_pre3_b in H. apply andb_true_iff in H. destruct H as [H1 H2]. unfold primA_pre2_b.
  destruct p as [nd|nd|x y lg c z|g nd|f| | | | | |pr a b c|ind pj|ind| |k]; cbn [prim_pre3_b prim_pre2_b prim_pre_b SI_pre] in *;
    try (split; [try rewrite H1; reflexivity|exact I]).
  - do 2 (apply andb_true_iff in H1; destruct H1 as [H1 ?]). split; [rewrite H1, H2; reflexivity|].
    split; apply (ssorted_b_sound n HN); assumption.
  - split; [|exact I]. rewrite (rm_pre3_pre2 ind s HI H1). reflexivity.
  - split; [|exact I]. rewrite (rs_pre3_pre2 ind s HS H1). reflexivity.
Qed.

(* ---- the final bundle ---- *)
Definition QS (s : tstate) : Prop := QP n s /\ SI s.
Theorem step_preserves_QS p s : QS s -> primA_pre3_b n p s = true -> QS (step n p s).
Proof.
  intros [HQ HS] H. assert (HI : InvC n s) by apply HQ. destruct (pre3_pre2 p s HI HS H) as [H2 Hx].
  split; [apply step_preserves_QP2; assumption|]. apply step_preserves_SI; try assumption.
  unfold primA_pre2_b in H2. apply andb_true_iff in H2. apply (prim_pre2_b_sound n HN Hout p s HI), H2.
Qed.
Theorem checked_trace3 tr : forall s, QS s -> pre3_trace_b n tr s = true -> QS (run n tr s) /\ pre2_trace_b n tr s = true.
Proof.
  induction tr as [|p tr IH]; intros s HQ H; [split; [exact HQ|reflexivity]|]. cbn in H. apply andb_true_iff in H. destruct H as [H1 H2].
  cbn [run fold_left pre2_trace_b]. destruct (IH (step n p s) (step_preserves_QS p s HQ H1) H2) as [A B].
  split; [exact A|]. destruct HQ as [HQ HS]. destruct (pre3_pre2 p s (proj1 (proj1 HQ)) HS H1) as [C _]. rewrite C, B. reflexivity.
Qed.
Theorem init_state_QS : QS (init_state n).
Proof. split; [apply init_state_QP; assumption|apply init_state_SI]. Qed.

Lemma extract_all_prel pe nodes s : chok (children s) -> prel n s (extract_all n pe nodes s).
Proof.
  intros Hc. unfold extract_all, extract, touch_leaves.
  assert (Hx : forall L s0, chok (children s0) -> prel n s0 (fold_left (extract_step n pe) L s0)).
  { induction L as [|plr L IHL]; intros s0 Hc0; cbn [fold_left]; [apply prel_refl|].
    assert (Hs : prel n s0 (extract_step n pe s0 plr)).
    { unfold extract_step. destruct pe; [apply (do_get_prel n HN GEq); exact Hc0|].
      pose proof (do_get_prel n HN GCanDot (fst plr) s0 Hc0) as K1. cbn [do_get] in K1.
      destruct (g_can_dot n s0 (fst plr)) as [sa cd]. cbn [fst] in K1.
      pose proof (prel_chok n _ _ K1 Hc0) as Hca.
      destruct (negb cd); [eapply prel_trans; [exact K1|apply (do_get_prel n HN GEq); exact Hca]|].
      pose proof (do_get_prel n HN GTdAxes (fst plr) sa Hca) as K2. cbn [do_get] in K2.
      eapply prel_trans; [exact K1|]. eapply prel_trans; [exact K2|].
      apply (do_get_prel n HN GTdPerm). apply (prel_chok n _ _ K2 Hca). }
    eapply prel_trans; [exact Hs|apply IHL, (prel_chok n _ _ Hs Hc0)]. }
  assert (Ht : forall L s0, chok (children s0) -> prel n s0 (fold_left (fun s i => fst (g_legs n s [i])) L s0)).
  { induction L as [|k L IHL]; intros s0 Hc0; cbn [fold_left]; [apply prel_refl|].
    pose proof (crel_prel n _ _ (g_legs_crel n HN s0 [k] Hc0)) as K. eapply prel_trans; [exact K|apply IHL, (prel_chok n _ _ K Hc0)]. }
  eapply prel_trans; [apply Hx, Hc|apply Ht, (prel_chok n _ _ (Hx nodes s Hc) Hc)].
Qed.

Theorem final3_history_exec tr pe nodes arr e0 :
  wf_net_b n = true -> pre3_trace_b n tr (init_state n) = true -> tail_ok_b tr = true ->
  let s1 := run n tr (init_state n) in
  let s := extract_all n pe nodes s1 in
  nodes_ok_b s1 nodes = true -> err s = false -> complete_b n s = true ->
  exists l r, tree_of (tfuel s) (children s) (seq 0 N) = Some (Node l r) /\
    contractible_b n s (Node l r) = true /\ PB s /\
    fst (srun_x n s arr e0 pe (Node l r)) = map (dim n) (filter (fun j => negb (memb j (removed (sliced s)))) (output n)) /\
    forall e, agree_removed (sliced s) e0 e ->
      snd (srun_x n s arr e0 pe (Node l r)) (map e (filter (fun j => negb (memb j (removed (sliced s)))) (output n)))
      = einsum_spec n (sliced s) arr e.
Proof.
  intros Hwf Hpre Htail s1 s Hnodes He Hc.
  destruct (checked_trace3 tr (init_state n) init_state_QS Hpre) as [[HQ HS] Hpre2]. fold s1 in HQ, HS.
  assert (Hsorted : sorted_keys_b s = true).
  { apply S1_sorted_keys. apply (SI_prel s1 s); [apply extract_all_prel, (InvC_chok n s1), HQ|exact HS]. }
  destruct (final_history_ready n HN Hout tr pe nodes Hwf Hpre2 Htail Hnodes Hsorted He Hc) as (l & r & Ht & Hready & HB).
  destruct (final_history_exec n HN Hout tr pe nodes arr e0 Hwf Hpre2 Htail Hnodes Hsorted He Hc) as (l' & r' & Ht' & Hs & Hv).
  assert (E : Some (Node l' r') = Some (Node l r)) by (transitivity (tree_of (tfuel s) (children s) (seq 0 N)); [symmetry; exact Ht'|exact Ht]).
  injection E as -> ->. exists l, r. auto.
Qed.

(* ---- C04's side: InvC /\ SI alone ---- *)
Lemma prim_pre3_pre2 p s : InvC n s -> SI s -> prim_pre3_b n p s = true -> prim_pre2_b n p s = true /\ SI_pre p s.
Proof.
  intros HI HS H1.
  destruct p as [nd|nd|x y lg c z|g nd|f| | | | | |pr a b c|ind pj|ind| |k]; cbn [prim_pre3_b prim_pre2_b prim_pre_b SI_pre] in *;
    try (split; [exact H1|exact I]).
  - do 2 (apply andb_true_iff in H1; destruct H1 as [H1 ?]). split; [exact H1|].
    split; apply (ssorted_b_sound n HN); assumption.
  - split; [|exact I]. apply (rm_pre3_pre2 ind s HI H1).
  - split; [|exact I]. apply (rs_pre3_pre2 ind s HS H1).
Qed.
Definition IS (s : tstate) : Prop := InvC n s /\ SI s.
Theorem step_preserves_IS p s : IS s -> prim_pre3_b n p s = true -> IS (step n p s).
Proof.
  intros [HI HS] H. destruct (prim_pre3_pre2 p s HI HS H) as [H2 Hx].
  pose proof (prim_pre2_b_sound n HN Hout p s HI H2) as Hp.
  split; [apply step_preserves_InvC2; assumption|apply step_preserves_SI; assumption].
Qed.
Fixpoint pre3c_trace_b (tr : list prim) (s : tstate) : bool :=
  match tr with [] => true | p :: tr' => prim_pre3_b n p s && pre3c_trace_b tr' (step n p s) end.
Theorem checked_trace3_IS tr : forall s, IS s -> pre3c_trace_b tr s = true -> IS (run n tr s).
Proof.
  induction tr as [|p tr IH]; intros s HQ H; [exact HQ|]. cbn in H. apply andb_true_iff in H. destruct H as [H1 H2].
  cbn [run fold_left]. apply (IH (step n p s)); [apply step_preserves_IS; assumption|exact H2].
Qed.
Theorem init_state_IS : IS (init_state n).
Proof. split; [apply (init_state_InvC n HN)|apply init_state_SI]. Qed.
End Struct.

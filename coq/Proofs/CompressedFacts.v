(* CompressedFacts.v -- facts about the compressed-contraction simulation of
   Model/HGraph.v + Model/Compressed.v (owner: builder c18c20):
   * the structure of the hypergraph (nodes, edges, identifiers) never depends on sizes or on
     the cap chi: runs with different caps stay in lock-step;
   * edge sizes, hence node sizes, are monotone in the cap;
   * a path accepted by the SSA checker yields a complete tree. *)
From Coq Require Import Lia Permutation.
From Ctg Require Import Base Net HGraph Compressed BaseFacts NetFacts.

Definition same_shape (g1 g2 : hg) : Prop := hg_shape g1 = hg_shape g2.

Lemma same_shape_refl g : same_shape g g.
Proof. reflexivity. Qed.

(* ---------- every primitive reads and writes the structure only ---------- *)
Lemma remove_edge_shape e g1 g2 : same_shape g1 g2 -> same_shape (remove_edge e g1) (remove_edge e g2).
Proof. destruct g1, g2. unfold same_shape, hg_shape. cbn. intros H. inversion H; subst. reflexivity. Qed.

Lemma remove_edge_hsz e g : hsz (remove_edge e g) = hsz g.
Proof. reflexivity. Qed.

Lemma fold_remove_edge_shape es : forall g1 g2, same_shape g1 g2 ->
  same_shape (fold_left (fun g e => remove_edge e g) es g1) (fold_left (fun g e => remove_edge e g) es g2).
Proof.
  induction es as [|e es IH]; intros g1 g2 H; cbn [fold_left]; [exact H|].
  apply IH, remove_edge_shape, H.
Qed.
Lemma fold_remove_edge_hsz es : forall g, hsz (fold_left (fun g e => remove_edge e g) es g) = hsz g.
Proof. induction es as [|e es IH]; intros g; cbn [fold_left]; [reflexivity|]. rewrite IH. reflexivity. Qed.

Lemma compress_group_shape chi1 chi2 es g1 g2 : same_shape g1 g2 ->
  same_shape (compress_group chi1 g1 es) (compress_group chi2 g2 es).
Proof.
  intros H. destruct es as [|e [|e' es]]; [exact H|exact H|].
  unfold compress_group.
  pose proof (fold_remove_edge_shape (e' :: es) g1 g2 H) as H'.
  unfold same_shape, hg_shape in *. cbn [hnodes hedges hout hnext] in *. exact H'.
Qed.

Lemma incidences_shape g1 g2 edges : same_shape g1 g2 -> incidences g1 edges = incidences g2 edges.
Proof.
  destruct g1, g2. unfold same_shape, hg_shape. cbn. intros H. inversion H; subst. reflexivity.
Qed.

Lemma fold_compress_group_shape chi1 chi2 (groups : list (list nat * list ix)) : forall g1 g2, same_shape g1 g2 ->
  same_shape (fold_left (fun g kv => compress_group chi1 g (snd kv)) groups g1)
             (fold_left (fun g kv => compress_group chi2 g (snd kv)) groups g2).
Proof.
  induction groups as [|kv groups IH]; intros g1 g2 H; cbn [fold_left]; [exact H|].
  apply IH, compress_group_shape, H.
Qed.

Theorem compress_shape chi1 chi2 edges g1 g2 : same_shape g1 g2 ->
  same_shape (hg_compress chi1 edges g1) (hg_compress chi2 edges g2).
Proof.
  intros H. unfold hg_compress. rewrite (incidences_shape g1 g2 _ H).
  apply fold_compress_group_shape, H.
Qed.

Lemma get_node_shape g1 g2 i : same_shape g1 g2 -> get_node g1 i = get_node g2 i.
Proof. destruct g1, g2. unfold same_shape, hg_shape. cbn. intros H. inversion H; subst. reflexivity. Qed.

Theorem contract_shape i j g1 g2 : same_shape g1 g2 ->
  same_shape (fst (hg_contract i j g1)) (fst (hg_contract i j g2)) /\
  snd (hg_contract i j g1) = snd (hg_contract i j g2).
Proof.
  destruct g1, g2. unfold same_shape, hg_shape. cbn. intros H. inversion H; subst. split; reflexivity.
Qed.
Lemma contract_hsz i j g : hsz (fst (hg_contract i j g)) = hsz g.
Proof. reflexivity. Qed.

(* ---------- the structural part of one step of compressed_contract_stats ---------- *)
Definition step_g (chi : Z) (late : bool) (g : hg) (m : tmap) (plr : list nat * (list nat * list nat)) : hg * tmap :=
  let '(p, (l, r)) := plr in
  let li := tm_get l m in
  let ri := tm_get r m in
  let g := if late then hg_compress chi (get_node (hg_compress chi (get_node g li) g) ri)
                                    (hg_compress chi (get_node g li) g) else g in
  let g' := fst (hg_contract li ri g) in
  let pi := snd (hg_contract li ri g) in
  let g' := if late then g' else hg_compress chi (get_node g' pi) g' in
  (g', (p, pi) :: m).

Lemma ccs_step_struct chi late s plr :
  (cs_g (ccs_step chi late s plr), cs_map (ccs_step chi late s plr)) = step_g chi late (cs_g s) (cs_map s) plr.
Proof.
  destruct plr as [p [l r]]. unfold ccs_step, step_g.
  destruct late.
  - destruct (hg_contract _ _ _) as [g' pi] eqn:E.
    unfold tr_pre_compress. destruct (neighborhood_compress_cost _ _ _). cbn. reflexivity.
  - destruct (hg_contract _ _ _) as [g' pi] eqn:E. cbn [fst snd].
    unfold tr_pre_compress. destruct (neighborhood_compress_cost _ _ _). cbn. reflexivity.
Qed.

Lemma step_g_shape chi1 chi2 late g1 g2 m plr : same_shape g1 g2 ->
  same_shape (fst (step_g chi1 late g1 m plr)) (fst (step_g chi2 late g2 m plr)) /\
  snd (step_g chi1 late g1 m plr) = snd (step_g chi2 late g2 m plr).
Proof.
  intros H. destruct plr as [p [l r]]. unfold step_g. cbn [fst snd].
  destruct late.
  - set (li := tm_get l m). set (ri := tm_get r m).
    assert (H1 : same_shape (hg_compress chi1 (get_node g1 li) g1) (hg_compress chi2 (get_node g2 li) g2)).
    { rewrite (get_node_shape g1 g2 li H). apply compress_shape, H. }
    assert (H2 : same_shape (hg_compress chi1 (get_node (hg_compress chi1 (get_node g1 li) g1) ri) (hg_compress chi1 (get_node g1 li) g1))
                            (hg_compress chi2 (get_node (hg_compress chi2 (get_node g2 li) g2) ri) (hg_compress chi2 (get_node g2 li) g2))).
    { rewrite (get_node_shape _ _ ri H1). apply compress_shape, H1. }
    destruct (contract_shape li ri _ _ H2) as [H3 H4]. split; [exact H3|]. rewrite H4. reflexivity.
  - set (li := tm_get l m). set (ri := tm_get r m).
    destruct (contract_shape li ri _ _ H) as [H3 H4]. rewrite H4. split; [|reflexivity].
    rewrite (get_node_shape _ _ _ H3). apply compress_shape, H3.
Qed.

(* structure_independent_of_chi: from the same network and traversal, the runs with any two
   caps have the same nodes, edges, identifiers and tree map after every prefix *)
Theorem run_lockstep chi1 chi2 late n order :
  same_shape (cs_g (ccs_run chi1 late n order)) (cs_g (ccs_run chi2 late n order)) /\
  cs_map (ccs_run chi1 late n order) = cs_map (ccs_run chi2 late n order).
Proof.
  unfold ccs_run.
  assert (G : forall order s1 s2, same_shape (cs_g s1) (cs_g s2) -> cs_map s1 = cs_map s2 ->
              same_shape (cs_g (fold_left (ccs_step chi1 late) order s1)) (cs_g (fold_left (ccs_step chi2 late) order s2)) /\
              cs_map (fold_left (ccs_step chi1 late) order s1) = cs_map (fold_left (ccs_step chi2 late) order s2)).
  { clear order. induction order as [|plr order IH]; intros s1 s2 Hs Hm; cbn [fold_left]; [split; assumption|].
    pose proof (ccs_step_struct chi1 late s1 plr) as E1. pose proof (ccs_step_struct chi2 late s2 plr) as E2.
    destruct (step_g_shape chi1 chi2 late (cs_g s1) (cs_g s2) (cs_map s1) plr Hs) as [A B].
    rewrite <- Hm in E2.
    apply IH.
    - replace (cs_g (ccs_step chi1 late s1 plr)) with (fst (step_g chi1 late (cs_g s1) (cs_map s1) plr)) by (rewrite <- E1; reflexivity).
      replace (cs_g (ccs_step chi2 late s2 plr)) with (fst (step_g chi2 late (cs_g s2) (cs_map s1) plr)) by (rewrite <- E2; reflexivity).
      exact A.
    - replace (cs_map (ccs_step chi1 late s1 plr)) with (snd (step_g chi1 late (cs_g s1) (cs_map s1) plr)) by (rewrite <- E1; reflexivity).
      replace (cs_map (ccs_step chi2 late s2 plr)) with (snd (step_g chi2 late (cs_g s2) (cs_map s1) plr)) by (rewrite <- E2; reflexivity).
      exact B. }
  apply G; reflexivity.
Qed.

(* ---------- sizes are monotone in the cap ---------- *)
Definition sz_le (g1 g2 : hg) : Prop :=
  same_shape g1 g2 /\ forall e, (0 <= zget e (hsz g1) <= zget e (hsz g2))%Z.

Lemma size_of_mono s1 s2 es : (forall e, (0 <= zget e s1 <= zget e s2)%Z) ->
  (0 <= size_of s1 es <= size_of s2 es)%Z.
Proof.
  intros H. induction es as [|e es IH]; [unfold size_of; cbn; lia|].
  rewrite !size_of_cons. specialize (H e). nia.
Qed.

Lemma zget_zset k v d e : zget e (zset k v d) = if Nat.eqb e k then v else zget e d.
Proof.
  induction d as [|[k' w] d IH]; cbn.
  - destruct (Nat.eqb_spec k e) as [->|]; [rewrite Nat.eqb_refl; reflexivity|].
    destruct (Nat.eqb_spec e k); [congruence|reflexivity].
  - destruct (Nat.eqb_spec k' k) as [->|Hk]; cbn.
    + destruct (Nat.eqb_spec k e) as [->|]; [rewrite Nat.eqb_refl; reflexivity|].
      destruct (Nat.eqb_spec e k); [congruence|reflexivity].
    + destruct (Nat.eqb_spec k' e) as [->|].
      * destruct (Nat.eqb_spec e k); [congruence|reflexivity].
      * exact IH.
Qed.

Lemma compress_group_mono chi1 chi2 es g1 g2 : (0 <= chi1 <= chi2)%Z -> sz_le g1 g2 ->
  sz_le (compress_group chi1 g1 es) (compress_group chi2 g2 es).
Proof.
  intros Hchi [Hs Hz]. split; [apply compress_group_shape, Hs|].
  destruct es as [|e [|e' es]]; [exact Hz|exact Hz|].
  unfold compress_group. cbn [hsz]. rewrite !fold_remove_edge_hsz.
  intros x. rewrite !zget_zset. destruct (x =? e); [|apply Hz].
  pose proof (size_of_mono (hsz g1) (hsz g2) (e :: e' :: es) Hz) as M. unfold edges_size. lia.
Qed.

Theorem compress_mono chi1 chi2 edges g1 g2 : (0 <= chi1 <= chi2)%Z -> sz_le g1 g2 ->
  sz_le (hg_compress chi1 edges g1) (hg_compress chi2 edges g2).
Proof.
  intros Hchi H. unfold hg_compress. rewrite (incidences_shape g1 g2 _ (proj1 H)).
  generalize (incidences g2 (unique edges)) as groups. intros groups. revert g1 g2 H.
  induction groups as [|kv groups IH]; intros g1 g2 H; cbn [fold_left]; [exact H|].
  apply IH, compress_group_mono; assumption.
Qed.

Theorem contract_mono i j g1 g2 : sz_le g1 g2 ->
  sz_le (fst (hg_contract i j g1)) (fst (hg_contract i j g2)).
Proof.
  intros [Hs Hz]. split; [apply (contract_shape i j g1 g2 Hs)|]. rewrite !contract_hsz. exact Hz.
Qed.

(* every tensor of the capped run is no larger than the same tensor of the less capped run *)
Theorem node_size_mono g1 g2 i : sz_le g1 g2 -> (0 <= hg_node_size g1 i <= hg_node_size g2 i)%Z.
Proof.
  intros [Hs Hz]. unfold hg_node_size, edges_size. rewrite (get_node_shape g1 g2 i Hs).
  apply size_of_mono, Hz.
Qed.

Lemma step_g_mono chi1 chi2 late g1 g2 m plr : (0 <= chi1 <= chi2)%Z -> sz_le g1 g2 ->
  sz_le (fst (step_g chi1 late g1 m plr)) (fst (step_g chi2 late g2 m plr)).
Proof.
  intros Hchi H. destruct plr as [p [l r]]. unfold step_g. cbn [fst snd].
  set (li := tm_get l m). set (ri := tm_get r m).
  destruct late.
  - assert (H1 : sz_le (hg_compress chi1 (get_node g1 li) g1) (hg_compress chi2 (get_node g2 li) g2)).
    { rewrite (get_node_shape g1 g2 li (proj1 H)). apply compress_mono; assumption. }
    assert (H2 : sz_le (hg_compress chi1 (get_node (hg_compress chi1 (get_node g1 li) g1) ri) (hg_compress chi1 (get_node g1 li) g1))
                       (hg_compress chi2 (get_node (hg_compress chi2 (get_node g2 li) g2) ri) (hg_compress chi2 (get_node g2 li) g2))).
    { rewrite (get_node_shape _ _ ri (proj1 H1)). apply compress_mono; assumption. }
    apply contract_mono, H2.
  - pose proof (contract_mono li ri g1 g2 H) as H3.
    destruct (contract_shape li ri g1 g2 (proj1 H)) as [_ H4]. rewrite H4.
    rewrite (get_node_shape _ _ _ (proj1 H3)). apply compress_mono; assumption.
Qed.

(* capped_le_uncapped, pointwise: after any traversal prefix, same structure and every edge
   (hence every tensor) of the run with the smaller cap is no larger *)
Theorem run_mono chi1 chi2 late n order : (0 <= chi1 <= chi2)%Z ->
  (forall e, (0 <= zget e (szd n))%Z) ->
  sz_le (cs_g (ccs_run chi1 late n order)) (cs_g (ccs_run chi2 late n order)).
Proof.
  intros Hchi Hpos. unfold ccs_run.
  assert (G : forall order s1 s2, sz_le (cs_g s1) (cs_g s2) -> cs_map s1 = cs_map s2 ->
              sz_le (cs_g (fold_left (ccs_step chi1 late) order s1)) (cs_g (fold_left (ccs_step chi2 late) order s2))).
  { clear order. induction order as [|plr order IH]; intros s1 s2 Hs Hm; cbn [fold_left]; [exact Hs|].
    pose proof (ccs_step_struct chi1 late s1 plr) as E1. pose proof (ccs_step_struct chi2 late s2 plr) as E2.
    rewrite <- Hm in E2.
    apply IH.
    - replace (cs_g (ccs_step chi1 late s1 plr)) with (fst (step_g chi1 late (cs_g s1) (cs_map s1) plr)) by (rewrite <- E1; reflexivity).
      replace (cs_g (ccs_step chi2 late s2 plr)) with (fst (step_g chi2 late (cs_g s2) (cs_map s1) plr)) by (rewrite <- E2; reflexivity).
      apply step_g_mono; assumption.
    - replace (cs_map (ccs_step chi1 late s1 plr)) with (snd (step_g chi1 late (cs_g s1) (cs_map s1) plr)) by (rewrite <- E1; reflexivity).
      replace (cs_map (ccs_step chi2 late s2 plr)) with (snd (step_g chi2 late (cs_g s2) (cs_map s1) plr)) by (rewrite <- E2; reflexivity).
      apply (step_g_shape chi1 chi2 late _ _ _ plr (proj1 Hs)). }
  apply G; [|reflexivity]. split; [reflexivity|]. intros e. cbn. specialize (Hpos e). lia.
Qed.

(* ---------- tracker arithmetic: what one step adds ---------- *)
Theorem post_step_fields t :
  t_flops (tr_post_step t) = (t_flops t + t_dflops t)%Z /\
  t_write (tr_post_step t) = (t_write t + t_contracted t)%Z /\
  t_max (tr_post_step t) = Z.max (t_max t) (t_contracted t) /\
  t_peak (tr_post_step t) = Z.max (t_peak t) (t_total_post t) /\
  t_total (tr_post_step t) = (t_total t + t_dsize t)%Z.
Proof. repeat split. Qed.

(* ---------- a path accepted by the checker gives a complete tree ---------- *)
Definition forest_leaves (f : list (nat * tree)) : list nat := flat_map (fun kt => leaves (snd kt)) f.

Lemma find_del_perm i : forall f t, find_tree i f = Some t ->
  Permutation (forest_leaves f) (leaves t ++ forest_leaves (del_tree i f)).
Proof.
  induction f as [|[k t'] f IH]; intros t H; cbn in H; [discriminate|].
  cbn [del_tree]. destruct (k =? i).
  - inversion H; subst. reflexivity.
  - cbn [forest_leaves flat_map snd]. fold (forest_leaves f). fold (forest_leaves (del_tree i f)).
    rewrite (IH t H). rewrite !app_assoc. apply Permutation_app_tail, Permutation_app_comm.
Qed.

Lemma find_del_other i j : forall f, i <> j -> find_tree j (del_tree i f) = find_tree j f.
Proof.
  induction f as [|[k t'] f IH]; intros Hij; cbn; [reflexivity|].
  destruct (Nat.eqb_spec k i) as [->|Hk].
  - destruct (Nat.eqb_spec i j); [congruence|reflexivity].
  - cbn. destruct (k =? j); [reflexivity|apply IH, Hij].
Qed.

Lemma ssa_replay_perm path : forall nxt f f', ssa_replay nxt f path = Some f' ->
  Permutation (forest_leaves f') (forest_leaves f).
Proof.
  induction path as [|[i j] path IH]; intros nxt f f' H; cbn in H.
  - inversion H; subst. reflexivity.
  - destruct (Nat.eqb_spec i j) as [|Hij]; [discriminate|].
    destruct (find_tree i f) as [ti|] eqn:Ei; [|discriminate].
    destruct (find_tree j f) as [tj|] eqn:Ej; [|discriminate].
    rewrite (IH _ _ _ H). cbn [forest_leaves flat_map snd leaves].
    fold (forest_leaves (del_tree j (del_tree i f))).
    rewrite (find_del_perm i f ti Ei).
    assert (Ej' : find_tree j (del_tree i f) = Some tj) by (rewrite find_del_other; assumption).
    rewrite (find_del_perm j (del_tree i f) tj Ej'). rewrite app_assoc. reflexivity.
Qed.

Lemma forest_leaves_init N : forest_leaves (map (fun i => (i, Leaf i)) (seq 0 N)) = seq 0 N.
Proof.
  unfold forest_leaves. generalize 0 as s. induction N as [|N IH]; intros s; cbn; [reflexivity|].
  f_equal. apply IH.
Qed.

(* compressed_finders_complete, checker soundness: if the SSA path a finder returned passes
   ssa_path_complete_b then replaying it (as from_path does) consumes every input exactly once *)
Theorem ssa_tree_complete N path t : ssa_tree N path = Some t -> Permutation (leaves t) (seq 0 N).
Proof.
  unfold ssa_tree. destruct (ssa_replay N _ path) as [f'|] eqn:E; [|discriminate].
  destruct f' as [|[k t'] [|? ?]]; try discriminate. intros H. inversion H; subst.
  apply ssa_replay_perm in E. rewrite forest_leaves_init in E.
  cbn [forest_leaves flat_map snd] in E. rewrite app_nil_r in E. exact E.
Qed.

Corollary ssa_path_complete_sound N path : ssa_path_complete_b N path = true ->
  exists t, ssa_tree N path = Some t /\ Permutation (leaves t) (seq 0 N) /\ nleaves t = N.
Proof.
  unfold ssa_path_complete_b. destruct (ssa_tree N path) as [t|] eqn:E; [|discriminate].
  intros _. exists t. split; [reflexivity|]. pose proof (ssa_tree_complete N path t E) as P.
  split; [exact P|].
  assert (L : forall t', nleaves t' = length (leaves t')).
  { induction t' as [|l IHl r IHr]; cbn; [reflexivity|]. rewrite app_length. lia. }
  rewrite L, (Permutation_length P), seq_length. reflexivity.
Qed.

(* the order checker: every non-leaf child of a step was produced by an earlier step *)
Lemma list_nat_eqb_eq a b : list_nat_eqb a b = true <-> a = b.
Proof.
  unfold list_nat_eqb. revert b. induction a as [|x a IH]; intros [|y b]; cbn; split; try discriminate; try reflexivity.
  - intros H. apply andb_true_iff in H. destruct H as [H1 H2]. apply Nat.eqb_eq in H1. apply IH in H2. congruence.
  - intros H. inversion H; subst. rewrite Nat.eqb_refl. apply IH. reflexivity.
Qed.

Theorem children_first_sound order : forall seen, children_first_from seen order = true ->
  forall pre p l r post, order = pre ++ (p, (l, r)) :: post ->
  forall c, c = l \/ c = r -> length c = 1 \/ In c (seen ++ map fst pre).
Proof.
  induction order as [|[p0 [l0 r0]] order IH]; intros seen H pre p l r post E c Hc.
  - destruct pre; discriminate.
  - cbn in H. apply andb_true_iff in H. destruct H as [H Hrest]. apply andb_true_iff in H. destruct H as [Hl Hr].
    destruct pre as [|x pre]; cbn in E; inversion E; subst.
    + rewrite app_nil_r.
      assert (G : forall c', (length c' =? 1) || existsb (list_nat_eqb c') seen = true -> length c' = 1 \/ In c' seen).
      { intros c' Hc'. apply orb_true_iff in Hc'. destruct Hc' as [Hc'|Hc']; [left; apply Nat.eqb_eq, Hc'|right].
        apply existsb_exists in Hc'. destruct Hc' as (y & Hy & Ey). apply list_nat_eqb_eq in Ey. subst. exact Hy. }
      destruct Hc as [->| ->]; apply G; assumption.
    + destruct (IH (p0 :: seen) Hrest pre p l r post eq_refl c Hc) as [G|G]; [left; exact G|right].
      cbn [map fst]. cbn in G. destruct G as [<-|G].
      * apply in_app_iff. right. left. reflexivity.
      * apply in_app_iff in G. apply in_app_iff. destruct G as [G|G]; [left; exact G|right; right; exact G].
Qed.

(* ---------- tracker-level monotonicity in the cap: max_size and write ---------- *)
(* the graph just before / just after the contraction of a step, and the new tensor's size *)
Definition pre_g (chi : Z) (late : bool) (g : hg) (m : tmap) (plr : list nat * (list nat * list nat)) : hg :=
  let '(p, (l, r)) := plr in
  let li := tm_get l m in let ri := tm_get r m in
  if late then hg_compress chi (get_node (hg_compress chi (get_node g li) g) ri) (hg_compress chi (get_node g li) g) else g.
Definition con_g (chi : Z) (late : bool) (g : hg) (m : tmap) (plr : list nat * (list nat * list nat)) : hg * nat :=
  let '(p, (l, r)) := plr in
  hg_contract (tm_get l m) (tm_get r m) (pre_g chi late g m plr).
Definition csize (chi : Z) (late : bool) (g : hg) (m : tmap) (plr : list nat * (list nat * list nat)) : Z :=
  hg_node_size (fst (con_g chi late g m plr)) (snd (con_g chi late g m plr)).

Lemma ccs_step_tracker chi late s plr :
  t_max (cs_tr (ccs_step chi late s plr)) = Z.max (t_max (cs_tr s)) (csize chi late (cs_g s) (cs_map s) plr) /\
  t_write (cs_tr (ccs_step chi late s plr)) = (t_write (cs_tr s) + csize chi late (cs_g s) (cs_map s) plr)%Z.
Proof.
  destruct plr as [p [l r]]. unfold ccs_step, csize, con_g, pre_g.
  destruct late.
  - destruct (hg_contract _ _ _) as [g' pi] eqn:E.
    unfold tr_pre_compress. destruct (neighborhood_compress_cost _ _ _). cbn. split; reflexivity.
  - destruct (hg_contract _ _ _) as [g' pi] eqn:E. cbn [fst snd].
    unfold tr_pre_compress. destruct (neighborhood_compress_cost _ _ _). cbn. split; reflexivity.
Qed.

Lemma pre_g_mono chi1 chi2 late g1 g2 m plr : (0 <= chi1 <= chi2)%Z -> sz_le g1 g2 ->
  sz_le (pre_g chi1 late g1 m plr) (pre_g chi2 late g2 m plr).
Proof.
  intros Hchi H. destruct plr as [p [l r]]. unfold pre_g. destruct late; [|exact H].
  set (li := tm_get l m). set (ri := tm_get r m).
  assert (H1 : sz_le (hg_compress chi1 (get_node g1 li) g1) (hg_compress chi2 (get_node g2 li) g2)).
  { rewrite (get_node_shape g1 g2 li (proj1 H)). apply compress_mono; assumption. }
  rewrite (get_node_shape _ _ ri (proj1 H1)). apply compress_mono; assumption.
Qed.

Lemma csize_mono chi1 chi2 late g1 g2 m plr : (0 <= chi1 <= chi2)%Z -> sz_le g1 g2 ->
  (0 <= csize chi1 late g1 m plr <= csize chi2 late g2 m plr)%Z.
Proof.
  intros Hchi H. pose proof (pre_g_mono chi1 chi2 late g1 g2 m plr Hchi H) as Hp.
  unfold csize, con_g. destruct plr as [p [l r]].
  destruct (contract_shape (tm_get l m) (tm_get r m) _ _ (proj1 Hp)) as [_ Hk]. rewrite Hk.
  apply node_size_mono, contract_mono, Hp.
Qed.

Theorem run_mono_max_write chi1 chi2 late n order : (0 <= chi1 <= chi2)%Z ->
  (forall e, (0 <= zget e (szd n))%Z) ->
  (t_max (cs_tr (ccs_run chi1 late n order)) <= t_max (cs_tr (ccs_run chi2 late n order)))%Z /\
  (t_write (cs_tr (ccs_run chi1 late n order)) <= t_write (cs_tr (ccs_run chi2 late n order)))%Z.
Proof.
  intros Hchi Hpos. unfold ccs_run.
  assert (G : forall order s1 s2, sz_le (cs_g s1) (cs_g s2) -> cs_map s1 = cs_map s2 ->
              (t_max (cs_tr s1) <= t_max (cs_tr s2))%Z -> (t_write (cs_tr s1) <= t_write (cs_tr s2))%Z ->
              (t_max (cs_tr (fold_left (ccs_step chi1 late) order s1)) <= t_max (cs_tr (fold_left (ccs_step chi2 late) order s2)))%Z /\
              (t_write (cs_tr (fold_left (ccs_step chi1 late) order s1)) <= t_write (cs_tr (fold_left (ccs_step chi2 late) order s2)))%Z).
  { clear order. induction order as [|plr order IH]; intros s1 s2 Hs Hm Hmax Hwr; cbn [fold_left]; [split; assumption|].
    pose proof (ccs_step_struct chi1 late s1 plr) as E1. pose proof (ccs_step_struct chi2 late s2 plr) as E2.
    destruct (ccs_step_tracker chi1 late s1 plr) as [M1 W1]. destruct (ccs_step_tracker chi2 late s2 plr) as [M2 W2].
    rewrite <- Hm in E2, M2, W2.
    pose proof (csize_mono chi1 chi2 late (cs_g s1) (cs_g s2) (cs_map s1) plr Hchi Hs) as Hc.
    apply IH.
    - replace (cs_g (ccs_step chi1 late s1 plr)) with (fst (step_g chi1 late (cs_g s1) (cs_map s1) plr)) by (rewrite <- E1; reflexivity).
      replace (cs_g (ccs_step chi2 late s2 plr)) with (fst (step_g chi2 late (cs_g s2) (cs_map s1) plr)) by (rewrite <- E2; reflexivity).
      apply step_g_mono; assumption.
    - replace (cs_map (ccs_step chi1 late s1 plr)) with (snd (step_g chi1 late (cs_g s1) (cs_map s1) plr)) by (rewrite <- E1; reflexivity).
      replace (cs_map (ccs_step chi2 late s2 plr)) with (snd (step_g chi2 late (cs_g s2) (cs_map s1) plr)) by (rewrite <- E2; reflexivity).
      apply (step_g_shape chi1 chi2 late _ _ _ plr (proj1 Hs)).
    - rewrite M1, M2. lia.
    - rewrite W1, W2. lia. }
  apply G; try reflexivity; try lia. split; [reflexivity|]. intros e. cbn. specialize (Hpos e). lia.
Qed.
